(* Proofs/C11.v — subnet / supernet / stepping / iter_hosts follow CIDR arithmetic. *)
From NV Require Import Base.Tac Base.PyVal Base.Bits Model.Ip Model.Subnet Proofs.C02.
Open Scope Z_scope.

(* the integers start, start+1, ..., start+n-1 *)
Definition zseq (start : Z) (n : nat) : list Z := map (fun j => start + Z.of_nat j) (seq 0 n).

Lemma zseq_S start n : zseq start (S n) = start :: zseq (start + 1) n.
Proof.
  unfold zseq. cbn [seq map]. f_equal; [lia|].
  rewrite <- seq_shift, map_map. apply map_ext. intros; lia.
Qed.

Lemma zseq_length start n : length (zseq start n) = n.
Proof. unfold zseq. rewrite map_length, seq_length. reflexivity. Qed.

Lemma zseq_nth start n (j : nat) : (j < n)%nat -> nth_error (zseq start n) j = Some (start + Z.of_nat j).
Proof.
  intros H. unfold zseq. rewrite nth_error_map.
  assert (E: nth_error (seq 0 n) j = Some j).
  { rewrite (nth_error_nth' _ O) by (rewrite seq_length; lia). rewrite seq_nth by lia. reflexivity. }
  rewrite E. reflexivity.
Qed.

(* ---- generators that count an index upwards to a bound ---- *)
Section Counter.
Context {St A : Type}.
Variables (step : St -> option (outcome A * St)) (idx : St -> Z) (c : Z) (f : Z -> A) (Inv : St -> Prop).
Hypothesis Hgo : forall s, Inv s -> idx s < c ->
  exists s', step s = Some (Ok (f (idx s)), s') /\ idx s' = idx s + 1 /\ Inv s'.
Hypothesis Hstop : forall s, Inv s -> c <= idx s -> step s = None.

Lemma gen_take_counter : forall n s, Inv s ->
  gen_take step n s = Ok (map f (zseq (idx s) (Nat.min n (Z.to_nat (c - idx s))))).
Proof.
  induction n as [|n IH]; intros s HI; cbn [gen_take]; [reflexivity|].
  destruct (Z_lt_ge_dec (idx s) c) as [Hlt|Hge].
  - destruct (Hgo s HI Hlt) as (s' & E & Ei & HI'). rewrite E, (IH s' HI'). cbn [bind].
    replace (Z.to_nat (c - idx s)) with (S (Z.to_nat (c - idx s'))) by lia.
    cbn [Nat.min]. rewrite zseq_S. cbn [map]. rewrite Ei. reflexivity.
  - rewrite Hstop by (auto; lia). replace (Z.to_nat (c - idx s)) with O by lia.
    rewrite Nat.min_0_r. reflexivity.
Qed.
End Counter.

(* ---- arithmetic of nested aligned blocks ---- *)
Lemma floor2_floor2 v h1 h2 : 0 <= h1 <= h2 -> floor2 (floor2 v h1) h2 = floor2 v h2.
Proof.
  intros H. symmetry. apply floor2_unique; [lia|apply floor2_divide; lia|].
  pose proof (floor2_bounds v h1 ltac:(lia)) as B1. pose proof (floor2_bounds v h2 ltac:(lia)) as B2.
  split; [|lia].
  (* floor2 v h2 is a multiple of 2^h1 below v, hence below the largest such multiple *)
  destruct (floor2_divide v h2 ltac:(lia)) as [k2 E2].
  destruct (pow2_divide h1 h2 H) as [m Em].
  destruct (floor2_divide v h1 ltac:(lia)) as [k1 E1].
  pose proof (pow2_pos h1 ltac:(lia)) as P1.
  rewrite E1, E2, Em in *. assert (k2 * m <= k1) by nia. nia.
Qed.

Lemma pow2_quot w p q : 0 <= p <= q -> q <= w -> 2 ^ (w - p) / 2 ^ (w - q) = 2 ^ (q - p).
Proof.
  intros H1 H2. replace (w - p) with ((q - p) + (w - q)) by lia.
  rewrite Z.pow_add_r by lia. apply Z.div_mul. pose proof (pow2_pos (w - q)); lia.
Qed.

Lemma pow2_prod w p q : 0 <= p <= q -> q <= w -> 2 ^ (w - p) = 2 ^ (q - p) * 2 ^ (w - q).
Proof. intros. rewrite <- Z.pow_add_r by lia. f_equal. lia. Qed.

Lemma first_in_range w v p : 0 <= p <= w -> 0 <= v < 2 ^ w -> 0 <= floor2 v (w - p) < 2 ^ w.
Proof.
  intros Hp Hv. pose proof (first_last_in_range w v p Hp Hv) as [A B].
  pose proof (pow2_pos (w - p) ltac:(lia)). lia.
Qed.

(* ---- subnet ---- *)
Lemma subnet_start_ok w v p q count : 0 <= p <= q -> q <= w -> 0 <= v < 2 ^ w ->
  let c := match count with None => 2 ^ (q - p) | Some c => c end in
  subnet_start w (v, p) q count =
    if (1 <=? c) && (c <=? 2 ^ (q - p))
    then Ok (Some {| sg_base := floor2 v (w - p); sg_q := q; sg_count := c; sg_i := 0 |})
    else Raise ValueError.
Proof.
  intros H1 H2 Hv c. unfold subnet_start.
  case_leb 0 p; [|lia]. case_leb p w; [|lia]. cbn [andb negb].
  case_leb p q; [|lia]. cbn [negb]. case_ltb (w - q) 0; [lia|].
  rewrite pow2_quot, net_first_eq by lia. fold c.
  destruct ((1 <=? c) && (c <=? 2 ^ (q - p))); reflexivity.
Qed.

Lemma subnet_start_below w v p q count : 0 <= p <= w -> q < p -> subnet_start w (v, p) q count = Ok None.
Proof.
  intros H1 H2. unfold subnet_start. case_leb 0 p; [|lia]. case_leb p w; [|lia]. cbn [andb negb].
  case_leb p q; [lia|]. reflexivity.
Qed.

Lemma subnet_next_spec w p q F c g :
  0 <= p <= q -> q <= w -> 0 <= F -> F + 2 ^ (w - p) <= 2 ^ w -> c <= 2 ^ (q - p) ->
  sg_base g = F -> sg_q g = q -> sg_count g = c -> 0 <= sg_i g ->
  (sg_i g < c ->
     subnet_next w g = Some (Ok (F + sg_i g * 2 ^ (w - q), q),
                             {| sg_base := F; sg_q := q; sg_count := c; sg_i := sg_i g + 1 |}))
  /\ (c <= sg_i g -> subnet_next w g = None).
Proof.
  intros H1 H2 HF HT Hc EF Eq Ec Hi. unfold subnet_next. rewrite EF, Eq, Ec.
  split; intros Hlt; (case_ltb (sg_i g) c; [|try lia]); try lia; [|reflexivity].
  f_equal. f_equal.
  pose proof (pow2_pos (w - q) ltac:(lia)) as Pt. pose proof (pow2_pos (w - p) ltac:(lia)) as PT.
  pose proof (pow2_prod w p q H1 H2) as EP.
  unfold net_of_cidr_str. case_leb 0 q; [|lia]. case_leb q w; [|lia]. cbn [andb negb bind fst snd].
  rewrite net_size_eq by lia.
  unfold set_value_w, max_int_w.
  assert (R: 0 <= F + 2 ^ (w - q) * sg_i g <= 2 ^ w - 1) by nia.
  case_leb 0 (F + 2 ^ (w - q) * sg_i g); [|lia]. case_leb (F + 2 ^ (w - q) * sg_i g) (2 ^ w - 1); [|lia].
  cbn [andb negb bind fst snd]. unfold set_prefixlen_w.
  case_leb 0 q; [|lia]. case_leb q w; [|lia]. cbn [andb negb fst]. f_equal. f_equal. ring.
Qed.

Lemma subnet_take_spec w v p q count : 0 <= p <= q -> q <= w -> 0 <= v < 2 ^ w ->
  let M := 2 ^ (q - p) in
  let c := match count with None => M | Some c => c end in
  (1 <= c <= M -> forall k,
     subnet_take w (v, p) q count k =
       Ok (c, map (fun i => (floor2 v (w - p) + i * 2 ^ (w - q), q)) (zseq 0 (Nat.min k (Z.to_nat c)))))
  /\ (~ (1 <= c <= M) -> forall k, subnet_take w (v, p) q count k = Raise ValueError).
Proof.
  intros H1 H2 Hv M c. unfold subnet_take. rewrite subnet_start_ok by lia. fold M c.
  split; intros Hc k.
  - case_leb 1 c; [|lia]. case_leb c M; [|lia]. cbn [andb bind].
    pose proof (first_last_in_range w v p ltac:(lia) Hv) as [FA FB].
    set (F := floor2 v (w - p)) in *.
    rewrite (gen_take_counter (subnet_next w) sg_i c (fun i => (F + i * 2 ^ (w - q), q))
               (fun g => sg_base g = F /\ sg_q g = q /\ sg_count g = c /\ 0 <= sg_i g)).
    + cbn [bind sg_i sg_count]. replace (c - 0) with c by lia. reflexivity.
    + intros s (EF & Eq & Ec & Hi) Hlt.
      destruct (subnet_next_spec w p q F c s H1 H2 FA ltac:(lia) ltac:(lia) EF Eq Ec Hi) as [G _].
      eexists. split; [apply G; exact Hlt|]. cbn. repeat split; lia.
    + intros s (EF & Eq & Ec & Hi) Hge.
      destruct (subnet_next_spec w p q F c s H1 H2 FA ltac:(lia) ltac:(lia) EF Eq Ec Hi) as [_ G].
      apply G; exact Hge.
    + cbn. repeat split; lia.
  - assert (E: (1 <=? c) && (c <=? M) = false).
    { case_leb 1 c; case_leb c M; cbn [andb]; try reflexivity. lia. }
    rewrite E. reflexivity.
Qed.

Lemma subnet_take_below w v p q count k : 0 <= p <= w -> q < p -> subnet_take w (v, p) q count k = Ok (0, []).
Proof. intros. unfold subnet_take. rewrite subnet_start_below by lia. reflexivity. Qed.

(* the blocks F + i*t, 0 <= i < M, are aligned /q blocks inside N, consecutive, and every address of N
   lies in exactly one of them *)
Lemma subnet_tiles w v p q : 0 <= p <= q -> q <= w -> 0 <= v < 2 ^ w ->
  let F := floor2 v (w - p) in
  let T := 2 ^ (w - p) in
  let t := 2 ^ (w - q) in
  let M := 2 ^ (q - p) in
  T = M * t /\
  (forall i, 0 <= i < M ->
     (t | F + i * t) /\ floor2 (F + i * t) (w - q) = F + i * t /\
     F <= F + i * t /\ (F + i * t) + t - 1 <= F + T - 1 /\
     F + (i + 1) * t = ((F + i * t) + t - 1) + 1) /\
  F + 0 * t = F /\ (F + (M - 1) * t) + t - 1 = F + T - 1 /\
  (forall x, F <= x <= F + T - 1 ->
     exists i, 0 <= i < M /\ F + i * t <= x <= (F + i * t) + t - 1 /\
               forall j, 0 <= j < M -> F + j * t <= x <= (F + j * t) + t - 1 -> j = i).
Proof.
  intros H1 H2 Hv F T t M.
  pose proof (pow2_prod w p q H1 H2) as EP. fold T M t in EP.
  pose proof (pow2_pos (w - q) ltac:(lia)) as Pt. fold t in Pt.
  pose proof (pow2_pos (q - p) ltac:(lia)) as PM. fold M in PM.
  assert (DF: (t | F)).
  { apply Z.divide_trans with T; [exists M; exact EP|apply floor2_divide; lia]. }
  split; [exact EP|]. split; [|split; [lia|split; [nia|]]].
  - intros i Hi.
    assert (D: (t | F + i * t)) by (apply Z.divide_add_r; [exact DF|exists i; reflexivity]).
    split; [exact D|]. split.
    + symmetry. apply floor2_unique; [lia|exact D|fold t; lia].
    + split; [nia|]. split; [nia|ring].
  - intros x Hx. exists ((x - F) / t).
    pose proof (Z.div_mod (x - F) t ltac:(lia)) as DM.
    pose proof (Z.mod_pos_bound (x - F) t Pt) as MB.
    assert (0 <= (x - F) / t) by (apply Z.div_pos; lia).
    assert ((x - F) / t < M) by (apply Z.div_lt_upper_bound; nia).
    split; [lia|]. split; [nia|].
    intros j Hj Hxj. apply Z.div_unique with (r := x - F - j * t); lia.
Qed.

(* ---- supernet ---- *)
Lemma cidr_checked_ok w v r : 0 <= r <= w -> 0 <= v < 2 ^ w -> cidr_checked w (v, r) = Ok (floor2 v (w - r), r).
Proof.
  intros Hr Hv. unfold cidr_checked. case_ltb (w - r) 0; [lia|].
  fold (net_network w v r). rewrite net_network_eq by lia.
  pose proof (first_in_range w v r Hr Hv). unfold max_int_w.
  case_leb 0 (floor2 v (w - r)); [|lia]. case_leb (floor2 v (w - r)) (2 ^ w - 1); [|lia].
  case_leb 0 r; [|lia]. case_leb r w; [|lia]. reflexivity.
Qed.

Lemma cidr_checked_above w v r : w < r -> cidr_checked w (v, r) = Raise ValueError.
Proof. intros. unfold cidr_checked. case_ltb (w - r) 0; [reflexivity|lia]. Qed.

Lemma supernet_loop_below w sv p : 0 <= sv < 2 ^ w -> p <= w ->
  forall fuel r, 0 <= r <= p -> (Z.to_nat (p - r) < fuel)%nat ->
  supernet_loop fuel w sv r p = Ok (map (fun j => (floor2 sv (w - j), j)) (zseq r (Z.to_nat (p - r)))).
Proof.
  intros Hsv Hp. induction fuel as [|f IH]; intros r Hr Hf; [lia|]. cbn [supernet_loop].
  case_eqb r p; cbn [negb].
  - subst. replace (Z.to_nat (p - p)) with O by lia. reflexivity.
  - rewrite cidr_checked_ok by lia. cbn [bind]. rewrite IH by lia. cbn [bind].
    replace (Z.to_nat (p - r)) with (S (Z.to_nat (p - (r + 1)))) by lia.
    rewrite zseq_S. reflexivity.
Qed.

Lemma supernet_loop_above w sv p : 0 <= sv < 2 ^ w -> 0 <= p ->
  forall fuel r, p < r <= w + 1 -> (Z.to_nat (w + 1 - r) < fuel)%nat ->
  supernet_loop fuel w sv r p = Raise ValueError.
Proof.
  intros Hsv Hp. induction fuel as [|f IH]; intros r Hr Hf; [lia|]. cbn [supernet_loop].
  case_eqb r p; [lia|]. cbn [negb].
  destruct (Z_le_gt_dec r w).
  - rewrite cidr_checked_ok by lia. cbn [bind]. rewrite IH by lia. reflexivity.
  - rewrite cidr_checked_above by lia. reflexivity.
Qed.

Lemma supernet_spec w v p q : 0 <= q <= p -> p <= w -> 0 <= v < 2 ^ w ->
  supernet w (v, p) q = Ok (map (fun r => (floor2 v (w - r), r)) (zseq q (Z.to_nat (p - q)))).
Proof.
  intros H1 H2 Hv. unfold supernet. case_leb 0 q; [|lia]. case_leb q w; [|lia]. cbn [andb negb].
  rewrite cidr_checked_ok by lia. cbn [bind fst].
  rewrite supernet_loop_below by (try apply first_in_range; lia).
  f_equal. unfold zseq. rewrite !map_map. apply map_ext_in. intros j Hj. apply in_seq in Hj.
  rewrite floor2_floor2 by lia. reflexivity.
Qed.

Lemma supernet_above w v p q : 0 <= p < q -> q <= w -> 0 <= v < 2 ^ w -> supernet w (v, p) q = Raise ValueError.
Proof.
  intros H1 H2 Hv. unfold supernet. case_leb 0 q; [|lia]. case_leb q w; [|lia]. cbn [andb negb].
  rewrite cidr_checked_ok by lia. cbn [bind fst].
  apply supernet_loop_above; try lia. apply first_in_range; lia.
Qed.

Lemma supernet_invalid w n q : ~ (0 <= q <= w) -> supernet w n q = Raise ValueError.
Proof.
  intros H. unfold supernet. destruct n as [v p].
  case_leb 0 q; case_leb q w; cbn [andb negb]; try reflexivity. lia.
Qed.

Lemma supernet_no_fuel w v p q : 0 <= p <= w -> 0 <= v < 2 ^ w -> supernet w (v, p) q <> Raise OutOfFuel.
Proof.
  intros Hp Hv. destruct (Z_le_gt_dec 0 q); [destruct (Z_le_gt_dec q w)|].
  - destruct (Z_le_gt_dec q p).
    + rewrite supernet_spec by lia. discriminate.
    + rewrite supernet_above by lia. discriminate.
  - rewrite supernet_invalid by lia. discriminate.
  - rewrite supernet_invalid by lia. discriminate.
Qed.

(* every listed block /r (q <= r <= p) is host-bit-free, contains N, and is the only aligned /r block that does *)
Lemma supernet_contains w v p r : 0 <= r <= p -> p <= w -> 0 <= v < 2 ^ w ->
  let F := floor2 v (w - p) in
  let B := floor2 v (w - r) in
  (2 ^ (w - r) | B) /\ B <= F /\ F + 2 ^ (w - p) - 1 <= B + 2 ^ (w - r) - 1 /\
  (forall b, (2 ^ (w - r) | b) -> b <= F -> F <= b + 2 ^ (w - r) - 1 -> b = B).
Proof.
  intros H1 H2 Hv F B.
  assert (EB: B = floor2 F (w - r)) by (unfold B, F; rewrite floor2_floor2 by lia; reflexivity).
  pose proof (floor2_bounds F (w - r) ltac:(lia)) as BB. rewrite <- EB in BB.
  split; [apply floor2_divide; lia|]. split; [lia|]. split.
  - destruct (floor2_divide v (w - r) ltac:(lia)) as [kb Eb]. fold B in Eb.
    destruct (floor2_divide v (w - p) ltac:(lia)) as [kf Ef]. fold F in Ef.
    pose proof (pow2_prod w r p ltac:(lia) ltac:(lia)) as EP.
    pose proof (pow2_pos (w - p) ltac:(lia)). pose proof (pow2_pos (p - r) ltac:(lia)).
    rewrite Eb, Ef, EP in *. assert (kf < (kb + 1) * 2 ^ (p - r)) by nia. nia.
  - intros b Db L1 L2. rewrite EB. apply floor2_unique; [lia|exact Db|lia].
Qed.

(* ---- stepping ---- *)
Section Step.
Variables w v p k : Z.
Hypothesis Hp : 0 <= p <= w.
Hypothesis Hv : 0 <= v < 2 ^ w.
Let F := floor2 v (w - p).
Let T := 2 ^ (w - p).

Definition fits (x : Z) : Prop := 0 <= x /\ x + 2 ^ (w - p) - 1 <= 2 ^ w - 1.

Lemma step_aligned : (T | F + k * T) /\ (T | F - k * T).
Proof.
  destruct (floor2_divide v (w - p) ltac:(lia)) as [m Em]. fold F T in Em.
  split; [exists (m + k)|exists (m - k)]; rewrite Em; ring.
Qed.

Lemma net_iadd_spec :
  (fits (F + k * T) -> net_iadd w (v, p) k = Ok (F + k * T, p)) /\
  (~ fits (F + k * T) -> net_iadd w (v, p) k = Raise IndexError).
Proof.
  unfold fits, net_iadd. rewrite net_network_eq, net_size_eq by lia. fold F T. unfold max_int_w.
  rewrite Z.gtb_ltb. replace (F + T * k) with (F + k * T) by ring.
  split; intros H.
  - case_ltb (2 ^ w - 1) (F + k * T + (T - 1)); [lia|]. case_ltb (F + k * T) 0; [lia|]. reflexivity.
  - case_ltb (2 ^ w - 1) (F + k * T + (T - 1)); [reflexivity|]. case_ltb (F + k * T) 0; [reflexivity|]. lia.
Qed.

Lemma net_isub_spec :
  (fits (F - k * T) -> net_isub w (v, p) k = Ok (F - k * T, p)) /\
  (~ fits (F - k * T) -> net_isub w (v, p) k = Raise IndexError).
Proof.
  unfold fits, net_isub. rewrite net_network_eq, net_size_eq by lia. fold F T. unfold max_int_w.
  rewrite Z.gtb_ltb. replace (F - T * k) with (F - k * T) by ring.
  split; intros H.
  - case_ltb (F - k * T) 0; [lia|]. case_ltb (2 ^ w - 1) (F - k * T + (T - 1)); [lia|]. reflexivity.
  - case_ltb (F - k * T) 0; [reflexivity|]. case_ltb (2 ^ w - 1) (F - k * T + (T - 1)); [reflexivity|]. lia.
Qed.
End Step.

Lemma copy_spec w v p : 0 <= p <= w -> 0 <= v < 2 ^ w ->
  net_of_cidr_str w (net_network w v p) p = Ok (floor2 v (w - p), p).
Proof.
  intros Hp Hv. unfold net_of_cidr_str. case_leb 0 p; [|lia]. case_leb p w; [|lia]. cbn [andb negb].
  rewrite net_network_eq by lia. reflexivity.
Qed.

Lemma net_next_spec w v p k : 0 <= p <= w -> 0 <= v < 2 ^ w ->
  let F := floor2 v (w - p) in let T := 2 ^ (w - p) in
  (fits w p (F + k * T) -> net_next w (v, p) k = Ok (F + k * T, p)) /\
  (~ fits w p (F + k * T) -> net_next w (v, p) k = Raise IndexError).
Proof.
  intros Hp Hv F T. unfold net_next. rewrite copy_spec by lia. cbn [bind]. fold F.
  assert (E: floor2 F (w - p) = F) by (apply floor2_idem; lia).
  pose proof (net_iadd_spec w F p k Hp (first_in_range w v p Hp Hv)) as S. rewrite E in S. exact S.
Qed.

Lemma net_previous_spec w v p k : 0 <= p <= w -> 0 <= v < 2 ^ w ->
  let F := floor2 v (w - p) in let T := 2 ^ (w - p) in
  (fits w p (F - k * T) -> net_previous w (v, p) k = Ok (F - k * T, p)) /\
  (~ fits w p (F - k * T) -> net_previous w (v, p) k = Raise IndexError).
Proof.
  intros Hp Hv F T. unfold net_previous. rewrite copy_spec by lia. cbn [bind]. fold F.
  assert (E: floor2 F (w - p) = F) by (apply floor2_idem; lia).
  pose proof (net_isub_spec w F p k Hp (first_in_range w v p Hp Hv)) as S. rewrite E in S. exact S.
Qed.

(* all four stepping operations at once; `apply_inplace` is the receiver after `N += k` / `N -= k` *)
Lemma step_spec w v p k : 0 <= p <= w -> 0 <= v < 2 ^ w ->
  let F := floor2 v (w - p) in
  let T := 2 ^ (w - p) in
  let up := F + k * T in
  let down := F - k * T in
  (T | up) /\ (T | down) /\
  (fits w p up ->
     apply_inplace (fun n => net_iadd w n k) (v, p) = ((up, p), None) /\ net_next w (v, p) k = Ok (up, p)) /\
  (~ fits w p up ->
     apply_inplace (fun n => net_iadd w n k) (v, p) = ((v, p), Some IndexError) /\
     net_next w (v, p) k = Raise IndexError) /\
  (fits w p down ->
     apply_inplace (fun n => net_isub w n k) (v, p) = ((down, p), None) /\ net_previous w (v, p) k = Ok (down, p)) /\
  (~ fits w p down ->
     apply_inplace (fun n => net_isub w n k) (v, p) = ((v, p), Some IndexError) /\
     net_previous w (v, p) k = Raise IndexError).
Proof.
  intros Hp Hv F T up down.
  pose proof (step_aligned w v p k Hp) as [A1 A2].
  pose proof (net_iadd_spec w v p k Hp Hv) as [I1 I2]. pose proof (net_isub_spec w v p k Hp Hv) as [S1 S2].
  pose proof (net_next_spec w v p k Hp Hv) as [N1 N2]. pose proof (net_previous_spec w v p k Hp Hv) as [P1 P2].
  cbn zeta in *. fold F T in A1, A2, I1, I2, S1, S2, N1, N2, P1, P2. fold up in A1, I1, I2, N1, N2. fold down in A2, S1, S2, P1, P2.
  unfold apply_inplace.
  split; [exact A1|]. split; [exact A2|].
  split; [intros H; rewrite (I1 H); split; [reflexivity|exact (N1 H)]|].
  split; [intros H; rewrite (I2 H); split; [reflexivity|exact (N2 H)]|].
  split; [intros H; rewrite (S1 H); split; [reflexivity|exact (P1 H)]|].
  intros H; rewrite (S2 H); split; [reflexivity|exact (P2 H)].
Qed.

(* ---- iter_iprange with step 1, iter_hosts ---- *)
Lemma addr_of_int_ver_ok ver i : valid_ver ver = true -> 0 <= i < 2 ^ width ver -> addr_of_int_ver i ver = Ok (ver, i).
Proof.
  intros Hver Hi. unfold addr_of_int_ver, in_range_w, max_int_w.
  destruct (width_cases ver Hver) as [[-> W]|[-> W]]; rewrite W in Hi.
  - change (4 =? 4) with true. cbn iota. case_leb 0 i; [|lia]. case_leb i (2 ^ 32 - 1); [|lia]. reflexivity.
  - change (6 =? 4) with false. change (6 =? 6) with true. cbn iota.
    case_leb 0 i; [|lia]. case_leb i (2 ^ 128 - 1); [|lia]. reflexivity.
Qed.

Lemma iprange_unit_take ver lo hi : valid_ver ver = true -> 0 <= lo -> hi < 2 ^ width ver -> lo <= hi + 1 ->
  forall k,
  (do g <- iter_iprange (ver, lo) (ver, hi) 1;
   do l <- gen_take iprange_next k g; Ok (iprange_remaining g, l)) =
  Ok (hi - lo + 1, map (fun i => (ver, i)) (zseq lo (Nat.min k (Z.to_nat (hi - lo + 1))))).
Proof.
  intros Hver Hlo Hhi Hle k. unfold iter_iprange. cbn [fst snd].
  rewrite Z.eqb_refl. cbn [negb]. change (1 =? 0) with false. cbn iota. cbn [bind].
  rewrite (gen_take_counter iprange_next (fun g => ig_index g + 1) (hi + 1) (fun i => (ver, i))
             (fun g => ig_ver g = ver /\ ig_stop g = hi /\ ig_step g = 1 /\ lo <= ig_index g + 1)).
  - cbn [bind ig_index]. replace (lo - 1 + 1) with lo by lia. replace (hi + 1 - lo) with (hi - lo + 1) by lia.
    f_equal. f_equal. unfold iprange_remaining. cbn [ig_index ig_step ig_stop].
    change (1 <? 0) with false. change (1 =? 0) with false. cbn iota. replace (lo - 1 + 1) with lo by lia.
    case_leb lo hi; [rewrite Z.div_1_r; lia|lia].
  - intros s (Ev & Es & Et & Hi) Hlt. unfold iprange_next. rewrite Ev, Es, Et.
    change (1 <? 0) with false. cbn iota. case_leb (ig_index s + 1) hi; [|lia]. cbn [negb].
    rewrite addr_of_int_ver_ok by (auto; lia). eexists. split; [reflexivity|]. cbn. repeat split; lia.
  - intros s (Ev & Es & Et & Hi) Hge. unfold iprange_next. rewrite Es, Et.
    change (1 <? 0) with false. cbn iota. case_leb (ig_index s + 1) hi; [lia|]. reflexivity.
  - cbn. repeat split; lia.
Qed.

Lemma pow2_ge4 h : 0 <= h -> (2 ^ h >=? 4) = (2 <=? h).
Proof.
  intros Hh. rewrite Z.geb_leb. case_leb 2 h.
  - pose proof (pow2_le 2 h ltac:(lia)). change (2 ^ 2) with 4 in *. case_leb 4 (2 ^ h); [reflexivity|lia].
  - assert (h = 0 \/ h = 1) as [-> | ->] by lia; reflexivity.
Qed.

Lemma pow2_ge2 h : 0 <= h -> (2 ^ h >=? 2) = (1 <=? h).
Proof.
  intros Hh. rewrite Z.geb_leb. case_leb 1 h.
  - pose proof (pow2_le 1 h ltac:(lia)). change (2 ^ 1) with 2 in *. case_leb 2 (2 ^ h); [reflexivity|lia].
  - assert (h = 0) as -> by lia. reflexivity.
Qed.

(* the inclusive range of host addresses named by the statement; lo = hi + 1 encodes "nothing" *)
Definition hosts_range (ver v p : Z) : Z * Z :=
  let w := width ver in
  let F := floor2 v (w - p) in
  let L := F + 2 ^ (w - p) - 1 in
  if ver =? 4 then (if p <=? 30 then (F + 1, L - 1) else (F, L))
  else (if p <=? 127 then (F + 1, L) else (F + 1, F)).

Lemma hosts_spec ver v p : valid_ver ver = true -> 0 <= p <= width ver -> 0 <= v < 2 ^ width ver ->
  let '(lo, hi) := hosts_range ver v p in
  forall k, hosts_take ver (v, p) k =
            Ok (hi - lo + 1, map (fun i => (ver, i)) (zseq lo (Nat.min k (Z.to_nat (hi - lo + 1))))).
Proof.
  intros Hver Hp Hv. unfold hosts_range.
  pose proof (first_last_in_range (width ver) v p Hp Hv) as [FA FB].
  pose proof (pow2_pos (width ver - p) ltac:(lia)) as PT.
  destruct (width_cases ver Hver) as [[-> W]|[-> W]]; rewrite W in *.
  - change (4 =? 4) with true. cbn iota.
    case_leb p 30; intros k; unfold hosts_take, iter_hosts; change (4 =? 4) with true; cbn iota;
      change (width 4) with 32; rewrite net_size_eq, net_first_eq, net_last_eq, pow2_ge4 by lia.
    + case_leb 2 (32 - p); [|lia].
      pose proof (pow2_le 2 (32 - p) ltac:(lia)) as P4. change (2 ^ 2) with 4 in P4.
      rewrite !addr_of_int_ver_ok by (try reflexivity; change (width 4) with 32; lia). cbn [bind].
      pose proof (iprange_unit_take 4 (floor2 v (32 - p) + 1) (floor2 v (32 - p) + 2 ^ (32 - p) - 1 - 1)
                    eq_refl ltac:(lia) ltac:(change (width 4) with 32; lia) ltac:(lia) k) as R.
      destruct (iter_iprange _ _ 1) as [g|e]; cbn [bind omap] in *; exact R.
    + case_leb 2 (32 - p); [lia|].
      rewrite !addr_of_int_ver_ok by (try reflexivity; change (width 4) with 32; lia). cbn [bind].
      pose proof (iprange_unit_take 4 (floor2 v (32 - p)) (floor2 v (32 - p) + 2 ^ (32 - p) - 1)
                    eq_refl ltac:(lia) ltac:(change (width 4) with 32; lia) ltac:(lia) k) as R.
      destruct (iter_iprange _ _ 1) as [g|e]; cbn [bind omap] in *; exact R.
  - change (6 =? 4) with false. cbn iota.
    case_leb p 127; intros k; unfold hosts_take, iter_hosts; change (6 =? 4) with false; cbn iota;
      change (width 6) with 128; rewrite net_size_eq, pow2_ge2 by lia.
    + case_leb 1 (128 - p); [|lia]. rewrite net_first_eq, net_last_eq by lia.
      pose proof (pow2_le 1 (128 - p) ltac:(lia)) as P2. change (2 ^ 1) with 2 in P2.
      rewrite !addr_of_int_ver_ok by (try reflexivity; change (width 6) with 128; lia). cbn [bind].
      pose proof (iprange_unit_take 6 (floor2 v (128 - p) + 1) (floor2 v (128 - p) + 2 ^ (128 - p) - 1)
                    eq_refl ltac:(lia) ltac:(change (width 6) with 128; lia) ltac:(lia) k) as R.
      destruct (iter_iprange _ _ 1) as [g|e]; cbn [bind omap] in *; exact R.
    + case_leb 1 (128 - p); [lia|]. cbn [bind].
      replace (floor2 v (128 - p) - (floor2 v (128 - p) + 1) + 1) with 0 by lia.
      change (Z.to_nat 0) with O. rewrite Nat.min_0_r. reflexivity.
Qed.

(* the four cases of the statement, spelled out *)
Lemma hosts_cases ver v p : valid_ver ver = true -> 0 <= p <= width ver -> 0 <= v < 2 ^ width ver ->
  let w := width ver in
  let F := floor2 v (w - p) in
  let L := F + 2 ^ (w - p) - 1 in
  let yields (lo hi : Z) := forall k, hosts_take ver (v, p) k =
        Ok (hi - lo + 1, map (fun i => (ver, i)) (zseq lo (Nat.min k (Z.to_nat (hi - lo + 1))))) in
  (ver = 4 -> p <= 30 -> yields (F + 1) (L - 1)) /\
  (ver = 4 -> 31 <= p -> yields F L) /\
  (ver = 6 -> p <= 127 -> yields (F + 1) L) /\
  (ver = 6 -> p = 128 -> forall k, hosts_take ver (v, p) k = Ok (0, [])).
Proof.
  intros Hver Hp Hv w F L yields. pose proof (hosts_spec ver v p Hver Hp Hv) as S. unfold hosts_range in S.
  fold w F L in S. unfold yields.
  split; [|split; [|split]].
  - intros -> Hp30. change (4 =? 4) with true in S. cbn iota in S. case_leb p 30; [exact S|lia].
  - intros -> Hp31. change (4 =? 4) with true in S. cbn iota in S. case_leb p 30; [lia|exact S].
  - intros -> Hp127. change (6 =? 4) with false in S. cbn iota in S. case_leb p 127; [exact S|lia].
  - intros -> Hp128 k. change (6 =? 4) with false in S. cbn iota in S. case_leb p 127; [lia|].
    rewrite S. replace (F - (F + 1) + 1) with 0 by lia. change (Z.to_nat 0) with O. rewrite Nat.min_0_r. reflexivity.
Qed.
