(* Proofs/GenOk_Src_C20.v — source tie for C20: the definitions regenerated from the text of
   netaddr/contrib/subnet_splitter.py (Gen/pysrc_splitter_gen.v: SubnetSplitter.available_subnets, remove_subnet and
   extract_subnet with its two `for` loops, the `return` inside the outer loop, `continue`, the nested list comprehension,
   set.remove / set / set.union, sorted(.., key=lambda x: x.prefixlen, reverse=True)) equal the hand-written model of
   Model/Splitter.v.
   REPRESENTATION.  The Python state `self._subnets` is a set of IPNetwork objects; the generated code sees it as the list
   of its elements (SrcPrelude: no duplicates under IPNetwork equality, new elements at the end, the list order standing
   for the unspecified iteration order); the model sees it as a list of (value, prefixlen) pairs of ONE family `ver`.  The
   equalities are therefore stated through `nets ver` = map (net_of_cblk ver), the model's own representation function.
   HYPOTHESES (all of them part of Inv, the invariant of Props/C20.v):
   * valid_ver ver                      -- the constructor symbol mk_net inside the translated cidr_partition tests the version;
   * every available block well formed  -- the early returns of cidr_partition rebuild `target.cidr` through the
                                           range-checking constructor, the model's net_cidr does not check;
   * pairwise distinct prefix lengths   -- Python's sorted() is stable (py_sorted_desc), the model's insertion sort puts
                                           equal keys the other way round; both agree when no two keys are equal.
   The two callees that are not translated (IPNetwork.subnet, cidr_merge) are the model's functions on both sides
   (Model/SrcPreludeSplitter.v). *)
From NV Require Import Base.Tac Base.PyVal Base.Bits Model.Ip Model.Partition Model.Span Model.Merge Model.Subnet Model.Splitter
  Model.SrcPrelude Model.SrcPreludeSplitter Gen.pysrc_gen Gen.pysrc_partition_gen Gen.pysrc_splitter_gen
  Proofs.C09 Proofs.GenOk_Src_C09.
Import ListNotations.
Open Scope Z_scope.

Lemma cblk_of_net_of_cblk ver c : cblk_of_net (net_of_cblk ver c) = c.
Proof. destruct c; reflexivity. Qed.

Lemma nets_cblks ver l : Forall (fun n => nver n = ver) l -> nets ver (map cblk_of_net l) = l.
Proof.
  induction 1 as [|n l Hn _ IH]; [reflexivity|]. cbn [map nets]. fold (nets ver (map cblk_of_net l)).
  rewrite IH, <- Hn, net_of_cblk_of_net. reflexivity.
Qed.

(* ---------------------------------------------------------------- IPNetwork equality as used by the set *)
Lemma net_key_eqb_cblk ver a b : net_key_eqb (net_of_cblk ver a) (net_of_cblk ver b) = blk_eqb (width ver) a b.
Proof. unfold net_key_eqb, blk_eqb, net_of_cblk. cbn [nver nval nplen]. rewrite Z.eqb_refl. reflexivity. Qed.

Lemma net_key_eqb_trans a b c : net_key_eqb a b = true -> net_key_eqb b c = true -> net_key_eqb a c = true.
Proof.
  unfold net_key_eqb. rewrite !andb_true_iff, !Z.eqb_eq. intros ((V1 & F1) & L1) ((V2 & F2) & L2).
  repeat split; congruence.
Qed.

(* ---------------------------------------------------------------- sets as lists: set(l) united into s is l added to s *)
Section SetAsList.
  Context {A : Type} (eqb : A -> A -> bool).
  Hypothesis eqb_trans : forall a b c, eqb a b = true -> eqb b c = true -> eqb a c = true.

  Lemma mem_eq x y s : eqb x y = true -> existsb (eqb y) s = true -> existsb (eqb x) s = true.
  Proof.
    rewrite !existsb_exists. intros E (z & Hz & Ez). exists z. split; [exact Hz|exact (eqb_trans _ _ _ E Ez)].
  Qed.

  Lemma add_cases s y : (existsb (eqb y) s = true /\ py_set_add eqb s y = s) \/
                        (existsb (eqb y) s = false /\ py_set_add eqb s y = s ++ [y]).
  Proof. unfold py_set_add. destruct (existsb (eqb y) s); [left|right]; split; reflexivity. Qed.

  Lemma mem_add_keep x s y : existsb (eqb x) s = true -> existsb (eqb x) (py_set_add eqb s y) = true.
  Proof.
    intros H. destruct (add_cases s y) as [(_ & ->)|(_ & ->)]; [exact H|]. rewrite existsb_app, H. reflexivity.
  Qed.

  Lemma mem_fold_keep x l : forall s, existsb (eqb x) s = true -> existsb (eqb x) (fold_left (py_set_add eqb) l s) = true.
  Proof. induction l as [|y l IH]; intros s H; [exact H|]. cbn [fold_left]. apply IH, mem_add_keep, H. Qed.

  (* every element of acc is represented in `acc added to s` *)
  Lemma mem_fold_in x acc : forall s,
    existsb (eqb x) acc = true -> existsb (eqb x) (fold_left (py_set_add eqb) acc s) = true.
  Proof.
    induction acc as [|y acc IH]; intros s H; [discriminate|]. cbn [fold_left].
    cbn [existsb] in H. apply orb_true_iff in H. destruct H as [E|H].
    - apply mem_fold_keep. destruct (add_cases s y) as [(M & ->)|(_ & ->)].
      + exact (mem_eq x y s E M).
      + rewrite existsb_app. cbn [existsb]. rewrite E, orb_true_r. reflexivity.
    - apply IH; assumption.
  Qed.

  Lemma add_fold_comm x acc s :
    fold_left (py_set_add eqb) (py_set_add eqb acc x) s = py_set_add eqb (fold_left (py_set_add eqb) acc s) x.
  Proof.
    destruct (add_cases acc x) as [(M & ->)|(_ & ->)].
    - destruct (add_cases (fold_left (py_set_add eqb) acc s) x) as [(_ & ->)|(M' & _)]; [reflexivity|].
      rewrite (mem_fold_in x acc s M) in M'. discriminate.
    - rewrite fold_left_app. reflexivity.
  Qed.

  Lemma fold_add_fold l : forall acc s,
    fold_left (py_set_add eqb) (fold_left (py_set_add eqb) l acc) s =
    fold_left (py_set_add eqb) l (fold_left (py_set_add eqb) acc s).
  Proof.
    induction l as [|x l IH]; intros acc s; [reflexivity|]. cbn [fold_left]. rewrite IH, add_fold_comm. reflexivity.
  Qed.

  (* s.union(set(l)) = the elements of l added to s one by one *)
  Lemma union_of_list s l : py_set_union eqb s (py_set_of_list eqb l) = fold_left (py_set_add eqb) l s.
  Proof. unfold py_set_union, py_set_of_list. rewrite (fold_add_fold l [] s). reflexivity. Qed.
End SetAsList.

Lemma existsb_nets ver k st : existsb (net_key_eqb (net_of_cblk ver k)) (nets ver st) = existsb (blk_eqb (width ver) k) st.
Proof. induction st as [|x r IH]; [reflexivity|]. cbn [nets map existsb]. fold (nets ver r). rewrite net_key_eqb_cblk, IH. reflexivity. Qed.

Lemma set_add_nets ver st k : py_set_add net_key_eqb (nets ver st) (net_of_cblk ver k) = nets ver (add_blk (width ver) st k).
Proof.
  unfold py_set_add, add_blk. rewrite existsb_nets.
  destruct (existsb (blk_eqb (width ver) k) st); [reflexivity|]. unfold nets. rewrite map_app. reflexivity.
Qed.

Lemma fold_add_nets ver l : forall st,
  fold_left (py_set_add net_key_eqb) (nets ver l) (nets ver st) = nets ver (fold_left (add_blk (width ver)) l st).
Proof. induction l as [|k l IH]; intros st; [reflexivity|]. cbn [nets map fold_left]. fold (nets ver l). rewrite set_add_nets. apply IH. Qed.

(* self._subnets.union(set(remaining)) *)
Lemma src_union_ok ver st l :
  py_set_union net_key_eqb (nets ver st) (py_set_of_list net_key_eqb (nets ver l)) = nets ver (fold_left (add_blk (width ver)) l st).
Proof.
  rewrite (union_of_list net_key_eqb net_key_eqb_trans). apply fold_add_nets.
Qed.

(* ---------------------------------------------------------------- remove_subnet: set.remove *)
Lemma src_remove_subnet_ok ver st k :
  src_SubnetSplitter_remove_subnet (nets ver st) (net_of_cblk ver k) = omap (nets ver) (remove_subnet (width ver) st k).
Proof.
  unfold src_SubnetSplitter_remove_subnet, remove_subnet.
  assert (R: py_set_remove net_key_eqb (nets ver st) (net_of_cblk ver k) = omap (nets ver) (remove_blk (width ver) st k)).
  { induction st as [|x r IH]; [reflexivity|]. cbn [nets map py_set_remove remove_blk]. fold (nets ver r).
    rewrite net_key_eqb_cblk. destruct (blk_eqb (width ver) k x); [reflexivity|]. rewrite IH.
    destruct (remove_blk (width ver) r k); reflexivity. }
  rewrite R. destruct (remove_blk (width ver) st k); reflexivity.
Qed.

(* ---------------------------------------------------------------- available_subnets: sorted(.., reverse=True) *)
Lemma ins_desc_keys x l k : In k (map snd (ins_desc x l)) <-> k = snd x \/ In k (map snd l).
Proof.
  induction l as [|y r IH]; cbn [ins_desc map In]; [intuition|].
  destruct (snd y <? snd x); cbn [map In]; [intuition|]. rewrite IH. intuition.
Qed.

Lemma available_keys st k : In k (map snd (available_subnets st)) <-> In k (map snd st).
Proof.
  unfold available_subnets. induction st as [|x r IH]; cbn [fold_right map In]; [tauto|].
  rewrite ins_desc_keys, IH. intuition.
Qed.

Lemma py_ins_desc_nets ver x l : ~ In (snd x) (map snd l) ->
  py_ins_desc (fun n => nplen n) (net_of_cblk ver x) (nets ver l) = nets ver (ins_desc x l).
Proof.
  induction l as [|y r IH]; intros N; [reflexivity|]. cbn [nets map py_ins_desc ins_desc]. fold (nets ver r).
  cbn [net_of_cblk nplen]. cbn [map In] in N.
  case_leb (snd y) (snd x); case_ltb (snd y) (snd x); try lia.
  - reflexivity.
  - cbn [nets map]. fold (nets ver (ins_desc x r)). rewrite <- IH by tauto. reflexivity.
Qed.

Lemma src_available_subnets_ok ver st : NoDup (map snd st) ->
  src_SubnetSplitter_available_subnets (nets ver st) = nets ver (available_subnets st).
Proof.
  unfold src_SubnetSplitter_available_subnets, py_sorted_desc, available_subnets.
  change (fun x : net => src_IPNetwork_prefixlen (nver x) (width (nver x)) (nval x) (nplen x)) with (fun x : net => nplen x).
  induction st as [|x r IH]; intros N; [reflexivity|]. cbn [nets map fold_right] in *. fold (nets ver r).
  inversion N as [|? ? Nx Nr]; subst. rewrite (IH Nr). apply py_ins_desc_nets.
  intros H. apply Nx. apply (available_keys r (snd x)). exact H.
Qed.

(* ---------------------------------------------------------------- well-formedness of what cidr_exclude returns *)
Section Wf.
  Variable w : Z.
  Hypothesis Hw : 0 <= w.

  Lemma net_of_tuple_wf v p c : Partition.net_of_tuple w v p = Ok c -> wf_cblk w c.
  Proof.
    unfold Partition.net_of_tuple, max_int_w. case_leb 0 v; case_leb v (2 ^ w - 1); cbn [andb negb]; try discriminate.
    case_leb 0 p; case_leb p w; cbn [andb negb]; try discriminate. intros [= <-]. unfold wf_cblk. cbn [fst snd]. lia.
  Qed.

  Lemma part_loop_wf fuel ev ep : forall np il iu l r l' r',
    Forall (wf_cblk w) l -> Forall (wf_cblk w) r -> part_loop fuel w ev ep np il iu l r = Ok (l', r') ->
    Forall (wf_cblk w) l' /\ Forall (wf_cblk w) r'.
  Proof.
    induction fuel as [|f IH]; intros np il iu l r l' r' Hl Hr; [discriminate|]. cbn [part_loop].
    destruct (ep >=? np); [|intros [= <- <-]; split; assumption].
    destruct (net_first w ev ep >=? iu).
    - destruct (Partition.net_of_tuple w il np) as [n|] eqn:E; [|discriminate]. cbn [bind].
      assert (Hl': Forall (wf_cblk w) (l ++ [n])) by (apply Forall_app; split; [exact Hl|constructor; [exact (net_of_tuple_wf _ _ _ E)|constructor]]).
      destruct (np + 1 >? w); [intros [= <- <-]; split; assumption|]. apply IH; assumption.
    - destruct (Partition.net_of_tuple w iu np) as [n|] eqn:E; [|discriminate]. cbn [bind].
      assert (Hr': Forall (wf_cblk w) (r ++ [n])) by (apply Forall_app; split; [exact Hr|constructor; [exact (net_of_tuple_wf _ _ _ E)|constructor]]).
      destruct (np + 1 >? w); [intros [= <- <-]; split; assumption|]. apply IH; assumption.
  Qed.

  Lemma net_cidr_wf v p : wf_cblk w (v, p) -> wf_cblk w (net_cidr w v p).
  Proof.
    unfold wf_cblk, net_cidr. cbn [fst snd]. intros (Hv & Hp). split; [|exact Hp]. apply land_range; assumption.
  Qed.

  Lemma cidr_exclude_wf T E l : wf_cblk w T -> cidr_exclude w T E = Ok l -> Forall (wf_cblk w) l.
  Proof.
    intros HT. unfold cidr_exclude, cidr_partition. destruct T as [tv tp], E as [ev ep].
    destruct (net_last w ev ep <? net_first w tv tp).
    { cbn [bind app]. intros [= <-]. constructor; [apply net_cidr_wf, HT|constructor]. }
    destruct (net_last w tv tp <? net_first w ev ep).
    { cbn [bind app]. intros [= <-]. constructor; [apply net_cidr_wf, HT|constructor]. }
    destruct (tp >=? ep). { cbn [bind app]. intros [= <-]. constructor. }
    destruct (py_pow2 (w - (tp + 1))) as [h|]; [|discriminate]. cbn [bind].
    destruct (part_loop (Z.to_nat w + 1) w ev ep (tp + 1) (net_first w tv tp) (net_first w tv tp + h) [] []) as [[l' r']|] eqn:E;
      [|discriminate]. cbn [bind fst snd]. intros [= <-].
    destruct (part_loop_wf _ _ _ _ _ _ _ _ _ _ (Forall_nil _) (Forall_nil _) E) as (A & B).
    apply Forall_app. split; [exact A|]. apply Forall_rev. exact B.
  Qed.

  Lemma exclude_from_all_wf m : forall rem l, Forall (wf_cblk w) rem -> exclude_from_all w rem m = Ok l -> Forall (wf_cblk w) l.
  Proof.
    induction rem as [|b r IH]; intros l H; cbn [exclude_from_all]; [intros [= <-]; constructor|].
    inversion H as [|? ? Hb Hr]; subst.
    destruct (cidr_exclude w b m) as [here|] eqn:E1; [|discriminate]. cbn [bind].
    destruct (exclude_from_all w r m) as [rest|] eqn:E2; [|discriminate]. cbn [bind]. intros [= <-].
    apply Forall_app. split; [exact (cidr_exclude_wf _ _ _ Hb E1)|exact (IH _ Hr eq_refl)].
  Qed.
End Wf.

(* ---------------------------------------------------------------- cidr_merge of networks of one version returns that version *)
Lemma nets_ver ver l : Forall (fun n => nver n = ver) (nets ver l).
Proof. apply Forall_forall. intros n H. apply in_map_iff in H. destruct H as (c & <- & _). reflexivity. Qed.

Lemma iprange_to_cidrs_ver s e l : iprange_to_cidrs s e = Ok l -> Forall (fun n => nver n = nver s) l.
Proof.
  unfold iprange_to_cidrs. destruct (spanning_cidr [s; e]) as [cs|]; [|discriminate]. cbn [bind].
  match goal with |- context [bind ?X _] => destruct X as [[cl sp]|] end; [|discriminate]. cbn [bind].
  destruct (net_last (width (nver s)) (fst sp) (snd sp) >? nlast width e).
  - destruct (Span.net_of_tuple width (nver s) (nlast width e + 1) (width (nver s))) as [ex|]; [|discriminate]. cbn [bind].
    destruct (cidr_partition (width (nver s)) sp (cblk_of_net ex)) as [[[b m] a]|]; [|discriminate]. cbn [bind].
    intros [= <-]. apply nets_ver.
  - intros [= <-]. apply nets_ver.
Qed.

Definition rt_ok (ver : Z) (t : rtuple) : Prop :=
  rt_ver t = ver /\ match rt_orig t with Some m => mi_ver m = ver | None => True end.

Lemma rt_insert_ok ver x l : rt_ok ver x -> Forall (rt_ok ver) l -> Forall (rt_ok ver) (rt_insert x l).
Proof.
  intros Hx. induction 1 as [|y r Hy Hr IH]; cbn [rt_insert]; [constructor; [exact Hx|constructor]|].
  destruct (rt_leb x y); [constructor; [exact Hx|constructor; assumption]|constructor; assumption].
Qed.

Lemma rt_sort_ok ver l : Forall (rt_ok ver) l -> Forall (rt_ok ver) (rt_sort l).
Proof. unfold rt_sort. induction 1 as [|x r Hx _ IH]; cbn [fold_right]; [constructor|apply rt_insert_ok; assumption]. Qed.

Lemma merge_scan_ok ver : forall before cur done_,
  rt_ok ver cur -> Forall (rt_ok ver) before -> Forall (rt_ok ver) done_ -> Forall (rt_ok ver) (merge_scan cur before done_).
Proof.
  induction before as [|prev b IH]; intros cur dn Hc Hb Hd; cbn [merge_scan]; [constructor; assumption|].
  inversion Hb as [|? ? Hp Hb']; subst.
  destruct ((rt_ver cur =? rt_ver prev) && (rt_first cur - 1 <=? rt_last prev)).
  - apply IH; [|assumption|assumption]. split; [exact (proj1 Hc)|exact I].
  - apply IH; [assumption|assumption|constructor; assumption].
Qed.

Lemma merge_ranges_ok ver l : Forall (rt_ok ver) l -> Forall (rt_ok ver) (merge_ranges l).
Proof.
  intros H. unfold merge_ranges. pose proof (Forall_rev (rt_sort_ok ver l H)) as R.
  destruct (rev (rt_sort l)) as [|last before]; [constructor|].
  inversion R; subst. apply merge_scan_ok; [assumption|assumption|constructor].
Qed.

Lemma emit_merged_ver ver : forall l m, Forall (rt_ok ver) l -> emit_merged l = Ok m -> Forall (fun n => nver n = ver) m.
Proof.
  induction l as [|t r IH]; intros m H; cbn [emit_merged]; [intros [= <-]; constructor|].
  inversion H as [|? ? (Hv & Ho) Hr]; subst.
  match goal with |- bind ?X _ = _ -> _ => destruct X as [here|] eqn:E end; [|discriminate]. cbn [bind].
  destruct (emit_merged r) as [rest|]; [|discriminate]. cbn [bind]. intros [= <-].
  apply Forall_app. split; [|exact (IH rest Hr eq_refl)].
  destruct (rt_orig t) as [[n|v s e]|].
  - cbn [mi_ver] in Ho. injection E as <-. constructor; [exact Ho|constructor].
  - cbn [mi_ver] in Ho. subst v. exact (iprange_to_cidrs_ver _ _ _ E).
  - exact (iprange_to_cidrs_ver _ _ _ E).
Qed.

Lemma cidr_merge_ver ver l m : py_cidr_merge (nets ver l) = Ok m -> Forall (fun n => nver n = ver) m.
Proof.
  unfold py_cidr_merge, cidr_merge. apply emit_merged_ver, merge_ranges_ok.
  apply Forall_forall. intros t H. apply in_map_iff in H. destruct H as (mi & <- & H).
  apply in_map_iff in H. destruct H as (n & <- & H). apply in_map_iff in H. destruct H as (c & <- & _).
  split; reflexivity.
Qed.

(* ---------------------------------------------------------------- the loops of extract_subnet *)
Section Extract.
  Variable ver : Z.
  Hypothesis Hv : valid_ver ver = true.
  Let w := width ver.

  Lemma width_nonneg : 0 <= w.
  Proof. unfold w, width. destruct (ver =? 4); lia. Qed.

  (* [left for block in remaining for left in cidr_exclude(block, extracted)] = exclude_from_all *)
  Lemma src_flat_exclude_ok m : forall rem, Forall (wf_cblk w) rem ->
    py_flat_map_o (fun block => src_cidr_exclude block (net_of_cblk ver m)) (nets ver rem) =
      omap (nets ver) (exclude_from_all w rem m).
  Proof.
    induction rem as [|b r IH]; intros H; [reflexivity|]. inversion H as [|? ? Hb Hr]; subst.
    cbn [nets map py_flat_map_o exclude_from_all]. fold (nets ver r).
    rewrite (src_cidr_exclude_ok (net_of_cblk ver b) (net_of_cblk ver m)); cbn [net_of_cblk nver nval nplen];
      [|exact Hv|reflexivity|exact (proj2 Hb)|exact (proj1 Hb)].
    rewrite !cblk_of_net_of_cblk. fold w.
    destruct (cidr_exclude w b m) as [here|]; [|reflexivity]. cbn [omap bind]. rewrite (IH Hr).
    destruct (exclude_from_all w r m) as [rest|]; [|reflexivity]. cbn [omap bind]. unfold nets. rewrite map_app. reflexivity.
  Qed.

  (* `for extracted in cidr_merge(subnets): remaining = [...]` = exclude_each *)
  Lemma src_extract_loop2_ok : forall merged rem, Forall (wf_cblk w) rem ->
    src_SubnetSplitter_extract_subnet_loop2 (nets ver merged) (nets ver rem) = omap (nets ver) (exclude_each w rem merged).
  Proof.
    induction merged as [|m r IH]; intros rem H; [reflexivity|].
    cbn [nets map src_SubnetSplitter_extract_subnet_loop2 exclude_each]. fold (nets ver r).
    rewrite (src_flat_exclude_ok m rem H).
    destruct (exclude_from_all w rem m) as [rem'|] eqn:E; [|reflexivity]. cbn [omap bind].
    apply IH. exact (exclude_from_all_wf w width_nonneg m rem rem' H E).
  Qed.

  Definition nets2 (r : sp_state * list cblk) : list net * list net := (nets ver (fst r), nets ver (snd r)).

  (* what extract_subnet does with the answer of its outer loop: `return subnets` from inside, or `return []` after it *)
  Definition finish_loop1 (h : (list net * list net) + list net) : outcome (list net * list net) :=
    match h with inl r => Ok r | inr st => Ok (st, []) end.

  (* `for cidr in self.available_subnets():` = extract_loop *)
  Lemma src_extract_loop1_ok prefix count : forall cands st, Forall (wf_cblk w) cands ->
    bind (src_SubnetSplitter_extract_subnet_loop1 prefix count (nets ver cands) (nets ver st)) finish_loop1 =
      omap nets2 (extract_loop ver st cands prefix count).
  Proof.
    induction cands as [|cidr r IH]; intros st H; [reflexivity|]. inversion H as [|? ? Hc Hr]; subst.
    cbn [nets map src_SubnetSplitter_extract_subnet_loop1 extract_loop]. fold (nets ver r). fold w.
    unfold py_list_subnet. cbn [net_of_cblk nver]. fold (net_of_cblk ver cidr). rewrite cblk_of_net_of_cblk. fold w.
    destruct (subnet_list w cidr prefix count) as [subnets|]; [|reflexivity]. cbn [omap bind].
    destruct subnets as [|s0 sn]; [exact (IH st Hr)|].
    set (subnets := s0 :: sn). change (py_nonempty (map (net_of_cblk ver) subnets)) with true. cbn [negb].
    rewrite (src_remove_subnet_ok ver st cidr). fold w.
    destruct (remove_subnet w st cidr) as [st1|]; [|reflexivity]. cbn [omap bind].
    pose proof (cidr_merge_ver ver subnets) as MV. fold (nets ver subnets).
    assert (EM: py_cidr_merge (nets ver subnets) = cidr_merge (map (fun b => MNet (net_of_cblk ver b)) subnets))
      by (unfold py_cidr_merge, nets; rewrite map_map; reflexivity).
    rewrite EM in *. destruct (cidr_merge (map (fun b => MNet (net_of_cblk ver b)) subnets)) as [merged|]; [|reflexivity].
    cbn [bind]. rewrite <- (nets_cblks ver merged (MV merged eq_refl)) at 1.
    change [net_of_cblk ver cidr] with (nets ver [cidr]).
    rewrite (src_extract_loop2_ok (map cblk_of_net merged) [cidr]) by (constructor; [exact Hc|constructor]).
    destruct (exclude_each w [cidr] (map cblk_of_net merged)) as [remaining|]; [|reflexivity]. cbn [omap bind finish_loop1].
    rewrite src_union_ok. reflexivity.
  Qed.

  (* the whole method: state in, (state, returned subnets) out *)
  Lemma src_extract_subnet_ok st prefix count :
    Forall (wf_cblk w) st -> NoDup (map snd st) ->
    src_SubnetSplitter_extract_subnet (nets ver st) prefix count = omap nets2 (extract_subnet ver st prefix count).
  Proof.
    intros Hwf Hnd. unfold src_SubnetSplitter_extract_subnet, extract_subnet.
    rewrite (src_available_subnets_ok ver st Hnd).
    rewrite <- (src_extract_loop1_ok prefix count (available_subnets st) st).
    - destruct (src_SubnetSplitter_extract_subnet_loop1 prefix count (nets ver (available_subnets st)) (nets ver st)) as [[r|s]|];
        reflexivity.
    - apply Forall_forall. intros c Hc. apply (proj1 (Forall_forall _ _) Hwf).
      unfold available_subnets in Hc. clear -Hc. induction st as [|x r IH]; [destruct Hc|]. cbn [fold_right] in Hc.
      assert (G: forall l, In c (ins_desc x l) -> c = x \/ In c l).
      { induction l as [|y l' IHl]; cbn [ins_desc]; [intros [<-|[]]; now left|].
        destruct (snd y <? snd x); cbn [In]; [intros [<-|[<-|Hl]]; auto|intros [<-|Hl]; [auto|]].
        destruct (IHl Hl); auto. }
      destruct (G _ Hc) as [->|Hr]; [now left|right; exact (IH Hr)].
  Qed.
End Extract.

(* everything the C20 source tie states (Props/C20_src.v) *)
Lemma C20_tie_ok :
  (forall ver st prefix count, valid_ver ver = true -> Forall (wf_cblk (width ver)) st -> NoDup (map snd st) ->
     src_SubnetSplitter_extract_subnet (nets ver st) prefix count =
       omap (fun r => (nets ver (fst r), nets ver (snd r))) (extract_subnet ver st prefix count)) /\
  (forall ver st, NoDup (map snd st) ->
     src_SubnetSplitter_available_subnets (nets ver st) = nets ver (available_subnets st)) /\
  (forall ver st k,
     src_SubnetSplitter_remove_subnet (nets ver st) (net_of_cblk ver k) = omap (nets ver) (remove_subnet (width ver) st k)) /\
  (forall ver, valid_ver ver = true -> forall merged rem, Forall (wf_cblk (width ver)) rem ->
     src_SubnetSplitter_extract_subnet_loop2 (nets ver merged) (nets ver rem) =
       omap (nets ver) (exclude_each (width ver) rem merged)).
Proof.
  split; [intros ver st prefix count Hv Hwf Hnd; exact (src_extract_subnet_ok ver Hv st prefix count Hwf Hnd)|].
  split; [exact src_available_subnets_ok|]. split; [exact src_remove_subnet_ok|exact src_extract_loop2_ok].
Qed.
