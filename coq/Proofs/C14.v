(* Proofs/C14.v — address arithmetic, bitwise operators, integer constructor, views. *)
From Coq Require Import String Ascii.
From NV Require Import Base.Tac Base.PyVal Base.Bits Model.Ip Model.AddrOps Proofs.C02.
Import ListNotations.
Open Scope Z_scope.

(* ---- specification vocabulary ---- *)
(* o is `Ok r` when r is a w-bit value and `Raise e` otherwise *)
Definition checked (w r : Z) (e : exn) (o : outcome Z) : Prop :=
  (0 <= r < 2 ^ w -> o = Ok r) /\ (~ 0 <= r < 2 ^ w -> o = Raise e).

(* the same for a result object: the version is the receiver's *)
Definition ochecked (ver r : Z) (e : exn) (o : outcome (Z * Z)) : Prop :=
  (0 <= r < 2 ^ width ver -> o = Ok (ver, r)) /\ (~ 0 <= r < 2 ^ width ver -> o = Raise e).

(* in-place forms: (what the name is bound to | exception, receiver afterwards) *)
Definition ichecked (ver v r : Z) (e : exn) (o : outcome (Z * Z) * (Z * Z)) : Prop :=
  (0 <= r < 2 ^ width ver -> o = (Ok (ver, r), (ver, r))) /\
  (~ 0 <= r < 2 ^ width ver -> o = (Raise e, (ver, v))).

Lemma in_range_w_iff w r : in_range_w w r = true <-> 0 <= r < 2 ^ w.
Proof. unfold in_range_w, max_int_w. rewrite andb_true_iff, !Z.leb_le. lia. Qed.

Lemma checked_if w r e : checked w r e (if in_range_w w r then Ok r else Raise e).
Proof.
  unfold checked. destruct (in_range_w w r) eqn:E.
  - apply in_range_w_iff in E. split; [reflexivity | intros N; contradiction].
  - split; [intros H; apply in_range_w_iff in H; congruence | reflexivity].
Qed.

(* ---- arithmetic, any width ---- *)
Lemma arith_w w v n :
  checked w (v + n) IndexError (addr_add w v n) /\
  checked w (v + n) IndexError (addr_radd w v n) /\
  checked w (v + n) IndexError (addr_iadd w v n) /\
  checked w (v - n) IndexError (addr_sub w v n) /\
  checked w (v - n) IndexError (addr_isub w v n) /\
  checked w (n - v) IndexError (addr_rsub w v n).
Proof.
  unfold addr_add, addr_radd, addr_sub, addr_iadd, addr_isub, addr_rsub. cbn zeta.
  repeat (split; [apply checked_if|]). apply checked_if.
Qed.

(* ---- bitwise, any width ---- *)
Lemma ctor_w_checked w x : checked w x AddrFormatError (ctor_w w x).
Proof. unfold ctor_w. apply checked_if. Qed.

Lemma shiftl_mul v n : 0 <= n -> Z.shiftl v n = v * 2 ^ n.
Proof. intros. apply Z.shiftl_mul_pow2; lia. Qed.
Lemma shiftr_div v n : 0 <= n -> Z.shiftr v n = v / 2 ^ n.
Proof. intros. apply Z.shiftr_div_pow2; lia. Qed.

Lemma bitwise_w w v n :
  checked w (Z.lor v n) AddrFormatError (addr_or w v n) /\
  checked w (Z.land v n) AddrFormatError (addr_and w v n) /\
  checked w (Z.lxor v n) AddrFormatError (addr_xor w v n) /\
  (0 <= n -> checked w (v * 2 ^ n) AddrFormatError (addr_lshift w v n)) /\
  (0 <= n -> checked w (v / 2 ^ n) AddrFormatError (addr_rshift w v n)) /\
  (n < 0 -> addr_lshift w v n = Raise ValueError /\ addr_rshift w v n = Raise ValueError).
Proof.
  unfold addr_or, addr_and, addr_xor, addr_lshift, addr_rshift.
  split; [apply ctor_w_checked|]. split; [apply ctor_w_checked|]. split; [apply ctor_w_checked|].
  split; [|split].
  - intros Hn. case_ltb n 0; [lia|]. rewrite shiftl_mul by lia. apply ctor_w_checked.
  - intros Hn. case_ltb n 0; [lia|]. rewrite shiftr_div by lia. apply ctor_w_checked.
  - intros Hn. case_ltb n 0; [split; reflexivity | lia].
Qed.

(* bit-level meaning of the three results: Python's two's-complement semantics for negative operands *)
Lemma bitwise_bits v n i :
  Z.testbit (Z.lor v n) i = Z.testbit v i || Z.testbit n i /\
  Z.testbit (Z.land v n) i = Z.testbit v i && Z.testbit n i /\
  Z.testbit (Z.lxor v n) i = xorb (Z.testbit v i) (Z.testbit n i).
Proof. split; [apply Z.lor_spec|]. split; [apply Z.land_spec | apply Z.lxor_spec]. Qed.

Lemma shiftr_range w v n : 0 <= n -> 0 <= v < 2 ^ w -> 0 <= v / 2 ^ n < 2 ^ w.
Proof.
  intros Hn Hv. pose proof (pow2_pos n Hn). split.
  - apply Z.div_pos; lia.
  - apply Z.le_lt_trans with v; [|lia]. apply Z.div_le_upper_bound; nia.
Qed.

(* operands that are themselves w-bit values never make | & ^ >> fail; & never fails whatever the operand *)
Lemma bitwise_total w v n : 0 <= w -> 0 <= v < 2 ^ w ->
  (0 <= n < 2 ^ w -> addr_or w v n = Ok (Z.lor v n) /\ addr_xor w v n = Ok (Z.lxor v n)) /\
  addr_and w v n = Ok (Z.land v n) /\
  (0 <= n -> addr_rshift w v n = Ok (v / 2 ^ n)).
Proof.
  intros Hw Hv. pose proof (bitwise_w w v n) as (Ho & Ha & Hx & _ & Hr & _).
  split; [|split].
  - intros Hn. split; [apply Ho, lor_range | apply Hx, lxor_range]; assumption.
  - apply Ha, land_range; assumption.
  - intros Hn. apply (Hr Hn), shiftr_range; assumption.
Qed.

(* ---- the constructor ---- *)
Lemma pow32 : 2 ^ 32 = 4294967296. Proof. reflexivity. Qed.
Lemma pow128 : 2 ^ 128 = 340282366920938463463374607431768211456. Proof. reflexivity. Qed.

Lemma addr_of_int_spec i :
  (0 <= i < 2 ^ 32 -> addr_of_int i = Ok (4, i)) /\
  (2 ^ 32 <= i < 2 ^ 128 -> addr_of_int i = Ok (6, i)) /\
  (i < 0 \/ 2 ^ 128 <= i -> addr_of_int i = Raise AddrFormatError).
Proof.
  unfold addr_of_int, max_int, max_int_w, width.
  change (4 =? 4) with true. change (6 =? 4) with false. cbv iota.
  rewrite pow32, pow128.
  case_leb 0 i; case_leb i (4294967296 - 1); case_ltb (4294967296 - 1) i;
    case_leb i (340282366920938463463374607431768211456 - 1); cbn [andb];
    (split; [|split]); intros; try reflexivity; lia.
Qed.

Lemma addr_of_int_ver_valid i ver : valid_ver ver = true ->
  addr_of_int_ver i ver = omap (pair ver) (ctor_w (width ver) i).
Proof.
  intros Hv. destruct (width_cases ver Hv) as [[E W]|[E W]]; rewrite W; subst ver;
    unfold addr_of_int_ver, ctor_w.
  - destruct (in_range_w 32 i); reflexivity.
  - destruct (in_range_w 128 i); reflexivity.
Qed.

Lemma addr_of_int_ver_spec i ver :
  (valid_ver ver = true -> ochecked ver i AddrFormatError (addr_of_int_ver i ver)) /\
  (valid_ver ver = false -> addr_of_int_ver i ver = Raise ValueError).
Proof.
  split.
  - intros Hv. rewrite addr_of_int_ver_valid by assumption.
    destruct (ctor_w_checked (width ver) i) as [A B]. split; intros H.
    + rewrite (A H). reflexivity.
    + rewrite (B H). reflexivity.
  - unfold valid_ver, addr_of_int_ver. intros H. apply orb_false_iff in H as [H4 H6].
    rewrite H4, H6. reflexivity.
Qed.

Lemma ctor_int_spec i :
  (0 <= i < 2 ^ 32 -> ctor_int i None = Ok (4, i)) /\
  (2 ^ 32 <= i < 2 ^ 128 -> ctor_int i None = Ok (6, i)) /\
  (i < 0 \/ 2 ^ 128 <= i -> ctor_int i None = Raise AddrFormatError) /\
  (forall ver, valid_ver ver = true -> ochecked ver i AddrFormatError (ctor_int i (Some ver))) /\
  (forall ver, valid_ver ver = false -> ctor_int i (Some ver) = Raise ValueError).
Proof.
  pose proof (addr_of_int_spec i) as (A & B & C). cbn [ctor_int].
  split; [exact A|]. split; [exact B|]. split; [exact C|].
  split; intros ver; apply addr_of_int_ver_spec.
Qed.

Lemma ctor_copy_spec ver v version :
  ((version = None \/ version = Some ver) -> ctor_copy ver v version = Ok (ver, v)) /\
  (forall ver', version = Some ver' -> ver' <> ver -> ctor_copy ver v version = Raise ValueError).
Proof.
  split.
  - intros [E|E]; subst; cbn [ctor_copy]; [reflexivity|]. rewrite Z.eqb_refl. reflexivity.
  - intros ver' E N. subst. cbn [ctor_copy]. case_eqb ver' ver; [contradiction | reflexivity].
Qed.

(* ---- object level: the version of the result ---- *)
Lemma obj_new_valid x ver : valid_ver ver = true -> obj_new x ver = omap (pair ver) (ctor_w (width ver) x).
Proof. apply addr_of_int_ver_valid. Qed.

Lemma lift_checked ver r e (o : outcome Z) : valid_ver ver = true ->
  checked (width ver) r e o -> ochecked ver r e (do nv <- o; obj_new nv ver).
Proof.
  intros Hv [A B]. split; intros H.
  - rewrite (A H). cbn [bind]. rewrite obj_new_valid by assumption.
    destruct (ctor_w_checked (width ver) r) as [C _]. rewrite (C H). reflexivity.
  - rewrite (B H). reflexivity.
Qed.

Lemma obj_new_checked ver x : valid_ver ver = true -> ochecked ver x AddrFormatError (obj_new x ver).
Proof. intros Hv. apply addr_of_int_ver_spec. assumption. Qed.

Lemma obj_arith ver v n : valid_ver ver = true ->
  ochecked ver (v + n) IndexError (obj_add ver v n) /\
  ochecked ver (v + n) IndexError (obj_radd ver v n) /\
  ochecked ver (v - n) IndexError (obj_sub ver v n) /\
  ochecked ver (n - v) IndexError (obj_rsub ver v n) /\
  ichecked ver v (v + n) IndexError (obj_iadd ver v n) /\
  ichecked ver v (v - n) IndexError (obj_isub ver v n).
Proof.
  intros Hv. pose proof (arith_w (width ver) v n) as (A & B & C & D & E & F).
  unfold obj_add, obj_radd, obj_sub, obj_rsub, obj_iadd, obj_isub.
  split; [apply lift_checked; assumption|]. split; [apply lift_checked; assumption|].
  split; [apply lift_checked; assumption|]. split; [apply lift_checked; assumption|].
  split.
  - destruct C as [C1 C2]. split; intros H; [rewrite (C1 H)|rewrite (C2 H)]; reflexivity.
  - destruct E as [E1 E2]. split; intros H; [rewrite (E1 H)|rewrite (E2 H)]; reflexivity.
Qed.

Lemma obj_bitwise ver v o n : valid_ver ver = true ->
  ochecked ver (Z.lor v (operand_int o)) AddrFormatError (obj_or ver v o) /\
  ochecked ver (Z.land v (operand_int o)) AddrFormatError (obj_and ver v o) /\
  ochecked ver (Z.lxor v (operand_int o)) AddrFormatError (obj_xor ver v o) /\
  (0 <= n -> ochecked ver (v * 2 ^ n) AddrFormatError (obj_lshift ver v n)) /\
  (0 <= n -> ochecked ver (v / 2 ^ n) AddrFormatError (obj_rshift ver v n)) /\
  (n < 0 -> obj_lshift ver v n = Raise ValueError /\ obj_rshift ver v n = Raise ValueError).
Proof.
  intros Hv. unfold obj_or, obj_and, obj_xor, obj_lshift, obj_rshift.
  split; [apply obj_new_checked; assumption|]. split; [apply obj_new_checked; assumption|].
  split; [apply obj_new_checked; assumption|]. split; [|split].
  - intros Hn. case_ltb n 0; [lia|]. rewrite shiftl_mul by lia. apply obj_new_checked; assumption.
  - intros Hn. case_ltb n 0; [lia|]. rewrite shiftr_div by lia. apply obj_new_checked; assumption.
  - intros Hn. case_ltb n 0; [split; reflexivity | lia].
Qed.

Lemma operand_int_spec o : operand_int o = match o with OInt n => n | OAddr _ v => v end.
Proof. destruct o; reflexivity. Qed.

(* a well-formed receiver and an operand that is a value of the same width (an int in range or an address of the
   same family): | & ^ never raise; & never raises whatever the operand; >> never raises for n >= 0 *)
Lemma obj_bitwise_total ver v o n : valid_ver ver = true -> 0 <= v < 2 ^ width ver ->
  (0 <= operand_int o < 2 ^ width ver ->
     obj_or ver v o = Ok (ver, Z.lor v (operand_int o)) /\ obj_xor ver v o = Ok (ver, Z.lxor v (operand_int o))) /\
  obj_and ver v o = Ok (ver, Z.land v (operand_int o)) /\
  (0 <= n -> obj_rshift ver v n = Ok (ver, v / 2 ^ n)).
Proof.
  intros Hv Hr. pose proof (width_nonneg ver) as Hw.
  pose proof (obj_bitwise ver v o n Hv) as (Ho & Ha & Hx & _ & Hs & _).
  split; [|split].
  - intros Hn. split; [apply Ho, lor_range | apply Hx, lxor_range]; assumption.
  - apply Ha, land_range; assumption.
  - intros Hn. apply (Hs Hn), shiftr_range; assumption.
Qed.

(* ---- no wrap: whatever an operation returns is a value of the receiver's family ---- *)
Lemma obj_new_ok x ver a b : obj_new x ver = Ok (a, b) ->
  valid_ver ver = true /\ a = ver /\ b = x /\ 0 <= x < 2 ^ width ver.
Proof.
  intros H. destruct (valid_ver ver) eqn:Hv.
  - destruct (obj_new_checked ver x Hv) as [A B].
    assert (R: 0 <= x < 2 ^ width ver).
    { destruct (in_range_w (width ver) x) eqn:E; [apply in_range_w_iff; assumption|].
      assert (N: ~ 0 <= x < 2 ^ width ver) by (intros K; apply in_range_w_iff in K; congruence).
      rewrite (B N) in H. discriminate. }
    rewrite (A R) in H. inversion H. subst. auto.
  - unfold obj_new in H. destruct (addr_of_int_ver_spec x ver) as [_ B]. rewrite (B Hv) in H. discriminate.
Qed.

Lemma bind_new_ok (o : outcome Z) ver a b : (do nv <- o; obj_new nv ver) = Ok (a, b) ->
  a = ver /\ 0 <= b < 2 ^ width ver.
Proof.
  destruct o as [nv|e]; cbn [bind]; [|discriminate]. intros H. apply obj_new_ok in H as (_ & A & B & C).
  subst. auto.
Qed.

Lemma shift_ok (f : Z -> Z -> Z) ver v n a b :
  (if n <? 0 then Raise ValueError else obj_new (f v n) ver) = Ok (a, b) -> a = ver /\ 0 <= b < 2 ^ width ver.
Proof.
  destruct (n <? 0); [discriminate|]. intros H. apply obj_new_ok in H as (_ & A & B & C). subst. auto.
Qed.

Lemma no_wrap ver v n o a b :
  obj_add ver v n = Ok (a, b) \/ obj_radd ver v n = Ok (a, b) \/ obj_sub ver v n = Ok (a, b) \/
  obj_rsub ver v n = Ok (a, b) \/ obj_or ver v o = Ok (a, b) \/ obj_and ver v o = Ok (a, b) \/
  obj_xor ver v o = Ok (a, b) \/ obj_lshift ver v n = Ok (a, b) \/ obj_rshift ver v n = Ok (a, b) \/
  fst (obj_iadd ver v n) = Ok (a, b) \/ fst (obj_isub ver v n) = Ok (a, b) ->
  a = ver /\ 0 <= b < 2 ^ width ver.
Proof.
  intros H.
  destruct H as [H|H]; [apply bind_new_ok in H; exact H|].
  destruct H as [H|H]; [apply bind_new_ok in H; exact H|].
  destruct H as [H|H]; [apply bind_new_ok in H; exact H|].
  destruct H as [H|H]; [apply bind_new_ok in H; exact H|].
  destruct H as [H|H]; [apply obj_new_ok in H as (_ & A & B & C); subst; auto|].
  destruct H as [H|H]; [apply obj_new_ok in H as (_ & A & B & C); subst; auto|].
  destruct H as [H|H]; [apply obj_new_ok in H as (_ & A & B & C); subst; auto|].
  destruct H as [H|H]; [apply shift_ok in H; exact H|].
  destruct H as [H|H]; [apply shift_ok in H; exact H|].
  destruct H as [H|H]; unfold obj_iadd, obj_isub, addr_iadd, addr_isub in H; cbn zeta in H.
  - destruct (in_range_w (width ver) (v + n)) eqn:E; cbn [inplace fst] in H; inversion H; subst.
    apply in_range_w_iff in E. auto.
  - destruct (in_range_w (width ver) (v - n)) eqn:E; cbn [inplace fst] in H; inversion H; subst.
    apply in_range_w_iff in E. auto.
Qed.

(* the constructor yields exactly the integer offered, in a family that holds it *)
Lemma ctor_no_wrap i version a b : ctor_int i version = Ok (a, b) ->
  b = i /\ (a = 4 \/ a = 6) /\ 0 <= b < 2 ^ width a /\ (forall ver, version = Some ver -> a = ver) /\
  (version = None -> (a = 4 <-> i < 2 ^ 32)).
Proof.
  destruct version as [ver|]; cbn [ctor_int]; intros H.
  - apply obj_new_ok in H as (Hv & A & B & C). subst.
    split; [reflexivity|]. split; [destruct (width_cases ver Hv) as [[E _]|[E _]]; auto|].
    split; [assumption|]. split; [intros ver' E; inversion E; reflexivity | discriminate].
  - pose proof (addr_of_int_spec i) as (A & B & C).
    assert (K: (0 <= i < 2 ^ 32) \/ (2 ^ 32 <= i < 2 ^ 128) \/ (i < 0 \/ 2 ^ 128 <= i)) by lia.
    destruct K as [K|[K|K]].
    + rewrite (A K) in H. inversion H; subst. change (width 4) with 32.
      split; [reflexivity|]. split; [auto|]. split; [assumption|]. split; [discriminate|]. intros _. split; [lia|reflexivity].
    + rewrite (B K) in H. inversion H; subst. change (width 6) with 128.
      split; [reflexivity|]. split; [auto|]. split; [rewrite pow32 in K; rewrite pow128 in *; lia|].
      split; [discriminate|]. intros _. split; [discriminate | lia].
    + rewrite (C K) in H. discriminate.
Qed.

(* ---- views ---- *)
Definition eval16 (ds : list Z) : Z := fold_left (fun a d => 16 * a + d) ds 0.
Definition is_digit (d : Z) : Prop := 0 <= d < 16.
Definition hex_val (c : ascii) : Z :=
  match c with
  | "0" => 0 | "1" => 1 | "2" => 2 | "3" => 3 | "4" => 4 | "5" => 5 | "6" => 6 | "7" => 7
  | "8" => 8 | "9" => 9 | "a" => 10 | "b" => 11 | "c" => 12 | "d" => 13 | "e" => 14 | "f" => 15
  | _ => -1
  end%char.

Lemma hex_val_digit d : is_digit d -> hex_val (hex_digit d) = d.
Proof.
  unfold is_digit. intros H.
  assert (K: d = 0 \/ d = 1 \/ d = 2 \/ d = 3 \/ d = 4 \/ d = 5 \/ d = 6 \/ d = 7 \/ d = 8 \/ d = 9 \/
             d = 10 \/ d = 11 \/ d = 12 \/ d = 13 \/ d = 14 \/ d = 15) by lia.
  repeat (destruct K as [K|K]; [subst; reflexivity|]). subst; reflexivity.
Qed.

Lemma eval16_snoc pre d : eval16 (pre ++ [d]) = 16 * eval16 pre + d.
Proof. unfold eval16. rewrite fold_left_app. reflexivity. Qed.

Lemma hex_loop_spec : forall fuel v acc ds, 0 <= v -> hex_loop fuel v acc = Some ds ->
  exists pre, ds = pre ++ acc /\ eval16 pre = v /\ Forall is_digit pre /\
              ((v = 0 /\ pre = [0]) \/ (v <> 0 /\ exists d t, pre = d :: t /\ d <> 0)).
Proof.
  induction fuel as [|f IH]; intros v acc ds Hv H; [discriminate|].
  cbn [hex_loop] in H. cbv zeta in H.
  assert (M: 0 <= v mod 16 < 16) by (apply Z.mod_pos_bound; lia).
  assert (Q: v = 16 * (v / 16) + v mod 16) by (apply Z.div_mod; lia).
  case_eqb (v / 16) 0.
  - inversion H; subst. exists [v mod 16]. split; [reflexivity|].
    assert (E: v mod 16 = v) by lia. rewrite E.
    split; [unfold eval16; cbn [fold_left]; lia|]. split; [constructor; [unfold is_digit; lia | constructor]|].
    destruct (Z.eq_dec v 0); [left; subst; auto | right; split; [assumption|]; exists v, []; auto].
  - assert (P: 0 <= v / 16) by (apply Z.div_pos; lia).
    destruct (IH _ _ _ P H) as (pre & E1 & E2 & E3 & E4).
    exists (pre ++ [v mod 16]). split; [rewrite <- app_assoc; exact E1|].
    split; [rewrite eval16_snoc, E2; lia|].
    split; [apply Forall_app; split; [assumption | constructor; [exact M | constructor]]|].
    right. split; [lia|]. destruct E4 as [[Z0 _]|[_ (d & t & E & N)]]; [contradiction|].
    exists d, (t ++ [v mod 16]). subst pre. auto.
Qed.

Lemma hex_loop_fuel : forall fuel v acc, (0 < fuel)%nat -> 0 <= v < 2 ^ Z.of_nat fuel ->
  hex_loop fuel v acc <> None.
Proof.
  induction fuel as [|f IH]; intros v acc Hf Hv; [lia|].
  cbn [hex_loop]. cbv zeta. case_eqb (v / 16) 0; [discriminate|].
  assert (E: 2 ^ Z.of_nat (S f) = 2 * 2 ^ Z.of_nat f).
  { rewrite Nat2Z.inj_succ. unfold Z.succ. apply pow2_succ. lia. }
  rewrite E in Hv.
  assert (P: 0 <= v / 16 < 2 ^ Z.of_nat f) by lia_dm.
  apply IH; [|exact P].
  destruct f; [|lia]. change (2 ^ Z.of_nat 0) with 1 in P. lia.
Qed.

Lemma hex_digits_spec v : 0 <= v ->
  exists ds, hex_digits v = Some ds /\ eval16 ds = v /\ Forall is_digit ds /\
             ((v = 0 /\ ds = [0]) \/ (v <> 0 /\ exists d t, ds = d :: t /\ d <> 0)).
Proof.
  intros Hv. unfold hex_digits.
  assert (F: hex_loop (Z.to_nat (Z.log2 v) + 1) v [] <> None).
  { apply hex_loop_fuel; [lia|]. pose proof (Z.log2_nonneg v).
    replace (Z.of_nat (Z.to_nat (Z.log2 v) + 1)) with (Z.succ (Z.log2 v)) by lia.
    destruct (Z.eq_dec v 0) as [->|N]; [cbn; lia|]. pose proof (Z.log2_spec v ltac:(lia)). lia. }
  destruct (hex_loop (Z.to_nat (Z.log2 v) + 1) v []) as [ds|] eqn:E; [|congruence].
  destruct (hex_loop_spec _ _ _ _ Hv E) as (pre & E1 & E2 & E3 & E4). rewrite app_nil_r in E1. subst pre.
  exists ds. auto.
Qed.

Lemma map_hex_val ds : Forall is_digit ds -> map hex_val (map hex_digit ds) = ds.
Proof. induction 1 as [|d t Hd _ IH]; [reflexivity|]. cbn [map]. rewrite hex_val_digit, IH by assumption. reflexivity. Qed.

(* int()/index() are the value, bool() is value != 0, hex() is "0x" followed by the canonical lower-case
   hexadecimal digits of the value: reading the digits back gives the value *)
Lemma views_spec v : 0 <= v ->
  view_int v = v /\ view_index v = v /\ (view_bool v = true <-> v <> 0) /\
  exists ds, view_hex v = Ok (String "0" (String "x" (string_of_list_ascii (map hex_digit ds)))) /\
             Forall is_digit ds /\ eval16 ds = v /\
             eval16 (map hex_val (list_ascii_of_string (string_of_list_ascii (map hex_digit ds)))) = v /\
             ((v = 0 /\ ds = [0]) \/ (v <> 0 /\ exists d t, ds = d :: t /\ d <> 0)).
Proof.
  intros Hv. split; [reflexivity|]. split; [reflexivity|]. split.
  - unfold view_bool. case_eqb v 0; cbn [negb]; split; intros; try congruence; try lia.
  - destruct (hex_digits_spec v Hv) as (ds & E & A & B & C). exists ds.
    split.
    + unfold view_hex, fmt_x. case_ltb v 0; [lia|]. rewrite E. reflexivity.
    + split; [assumption|]. split; [assumption|]. split; [|assumption].
      rewrite list_ascii_of_string_of_list_ascii, map_hex_val by assumption. assumption.
Qed.
