(* Proofs/GenOk_Src_C19.v — source tie for C19 (tag SRCF): the definitions regenerated from the text of OUIIndexParser.parse and
   IABIndexParser.parse of netaddr/eui/ieee.py (Gen/pysrc_ieee_gen.v) equal the hand-written model Model/Ieee.v oui_parse /
   iab_parse, as far as the generated function represents the run: the rows handed to self.notify(), in order, when the parse ends
   normally; the exception otherwise (the model also keeps the rows delivered before the exception).
   The registry file is the list of its lines with tell() = the running byte count (the model's own representation); the
   `while True` loop runs on fuel = number of lines + 1, which is never exhausted (every iteration reads a line or stops). *)
From Coq Require Import String Ascii.
From NV Require Import Base.Tac Base.PyVal Base.PyStr Base.PyStrFacts Model.Ip Model.Ieee Model.SrcPrelude Model.SrcPreludeStr
  Model.SrcPreludeIeee Gen.pysrc_ieee_gen.
Import ListNotations.
Open Scope Z_scope.

(* x.replace(b'-', b'') of Base/PyStr.v is Ieee.remove_hyphens *)
Lemma replace_chars_hyphen l : forall f, (length l <= f)%nat ->
  str_of (replace_chars f ["-"%char] [] l) = remove_hyphens (str_of l).
Proof.
  induction l as [|c r IH]; intros f H.
  - destruct f; reflexivity.
  - destruct f as [|f]; [cbn [length] in H; lia|]. cbn [replace_chars starts_with_chars str_of remove_hyphens length skipn app].
    rewrite andb_true_r. unfold ascii_eqb. rewrite Ascii.eqb_sym. cbn [length] in H.
    destruct (Ascii.eqb c "-"); [apply IH; lia|]. cbn [str_of]. rewrite IH by lia. reflexivity.
Qed.

Lemma replace_hyphen s : replace "-" "" s = remove_hyphens s.
Proof.
  unfold replace. change (chars "-") with ["-"%char]. change (chars "") with (@nil ascii).
  rewrite replace_chars_hyphen by (rewrite length_chars; lia). rewrite str_of_chars. reflexivity.
Qed.

(* ---------------------------------------------------------------- OUIIndexParser.parse *)
Definition l3 (r : ouirow) : list Z := let '(i, o, s) := r in [i; o; s].
Definition orec (rec : option (Z * Z)) : option (list Z) := match rec with Some (i, o) => Some [i; o] | None => None end.

(* what the generated function keeps of a model run *)
Definition proj {R} (f : R -> list Z) (acc : list (list Z)) (k : list R * option exn) : outcome (list (list Z)) :=
  match k with
  | (rows, None) => Ok (acc ++ map f rows)%list
  | (_, Some e) => Raise e
  end.

Lemma proj_emit {R} (f : R -> list Z) acc r k : proj f acc (emit r k) = proj f (acc ++ [f r]) k.
Proof. destruct k as (rows, [e|]); cbn [emit proj map]; [reflexivity|]. rewrite <- app_assoc. reflexivity. Qed.

Definition oui_end (st : option (list Z) * list (list Z) * Z) : outcome (list (list Z)) :=
  let '(record, notified, size) := st in
  match record with Some l => Ok (notified ++ [l ++ [size]])%list | None => Raise AttributeError end.

Lemma oui_end_finish rec acc size : oui_end (orec rec, acc, size) = proj l3 acc (oui_finish rec size).
Proof. destruct rec as [(i, o)|]; reflexivity. Qed.

Lemma src_oui_loop_ok lines : forall fuel tell skip rec size acc, (length lines < fuel)%nat ->
  (do st <- src_OUIIndexParser_parse_loop1 fuel "(hex)" "-" "" lines tell skip (orec rec) acc size; oui_end st) =
  proj l3 acc (oui_loop lines tell skip rec size).
Proof.
  induction lines as [|line rest IH]; intros fuel tell skip rec size acc Hf; (destruct fuel as [|fuel]; [cbn [length] in Hf; lia|]).
  - cbn [src_OUIIndexParser_parse_loop1 py_readline oui_loop]. cbv iota beta. change (py_bytes_truthy "") with false. cbn [negb bind].
    apply oui_end_finish.
  - cbn [length] in Hf. cbn [src_OUIIndexParser_parse_loop1 py_readline oui_loop]. cbv iota beta zeta.
    unfold py_bytes_truthy. rewrite negb_involutive.
    destruct (String.eqb line "") eqn:El; [cbn [bind]; apply oui_end_finish|].
    unfold py_bytes_in. change HEX with "(hex)"%string. change (str_len line) with (blen line).
    set (skip' := if skip && contains "(hex)" line then false else skip).
    destruct skip'; [apply IH; lia|].
    destruct (contains "(hex)" line).
    + unfold py_bytes_split0, py_int16_bytes.
      destruct rec as [(i, o)|]; cbn [orec].
      * rewrite proj_emit. cbn [l3].
        destruct (first_token line) as [oui|]; cbn [bind]; [|reflexivity]. rewrite replace_hyphen.
        destruct (int16 (remove_hyphens oui)) as [index|e]; cbn [bind]; [|reflexivity].
        apply (IH fuel (tell + blen line) false (Some (index, tell + blen line - blen line)) (blen line)). lia.
      * destruct (first_token line) as [oui|]; cbn [bind]; [|reflexivity]. rewrite replace_hyphen.
        destruct (int16 (remove_hyphens oui)) as [index|e]; cbn [bind]; [|reflexivity].
        apply (IH fuel (tell + blen line) false (Some (index, tell + blen line - blen line)) (blen line)). lia.
    + cbn [bind]. apply IH. lia.
Qed.

Lemma src_oui_parse_ok lines : src_OUIIndexParser_parse lines 0 = proj l3 [] (oui_parse lines).
Proof.
  unfold src_OUIIndexParser_parse, oui_parse. cbv zeta. rewrite Nat2Z.id.
  rewrite <- (src_oui_loop_ok lines (length lines + 1) 0 true None 0 []) by lia. cbn [orec].
  destruct (src_OUIIndexParser_parse_loop1 _ _ _ _ _ _ _ _ _ _) as [((record, notified), size)|e]; [|reflexivity].
  cbn [bind oui_end]. destruct record; reflexivity.
Qed.

(* ---------------------------------------------------------------- IABIndexParser.parse *)
Definition bik (k : ikey) : bi := match k with KB s => BiB s | KI z => BiI z end.
Definition l3i (r : iabrow) : list bi := let '(k, o, s) := r in [bik k; BiI o; BiI s].
Definition irec (rec : option (ikey * Z)) : option (list bi) := match rec with Some (k, o) => Some [bik k; BiI o] | None => None end.

Definition proji (acc : list (list bi)) (k : list iabrow * option exn) : outcome (list (list bi)) :=
  match k with
  | (rows, None) => Ok (acc ++ map l3i rows)%list
  | (_, Some e) => Raise e
  end.

Lemma proji_emit acc r k : proji acc (emit r k) = proji (acc ++ [l3i r]) k.
Proof. destruct k as (rows, [e|]); cbn [emit proji map]; [reflexivity|]. rewrite <- app_assoc. reflexivity. Qed.

Definition iab_end (st : option (list bi) * list (list bi) * Z) : outcome (list (list bi)) :=
  let '(record, notified, size) := st in
  match record with Some l => Ok (notified ++ [l ++ [BiI size]])%list | None => Raise AttributeError end.

Lemma iab_end_finish rec acc size : iab_end (irec rec, acc, size) = proji acc (iab_finish rec size).
Proof. destruct rec as [(k, o)|]; reflexivity. Qed.

Lemma before_byte_hyphen s : before_byte "-" s = before_hyphen s.
Proof. induction s as [|c t IH]; [reflexivity|]. cbn [before_byte before_hyphen]. rewrite IH. reflexivity. Qed.

Lemma src_iab_loop_ok lines : forall fuel tell skip rec size acc, (length lines < fuel)%nat ->
  (do st <- src_IABIndexParser_parse_loop1 fuel "(hex)" "(base 16)" "-" "" lines tell skip (irec rec) acc size; iab_end st) =
  proji acc (iab_loop lines tell skip rec size).
Proof.
  induction lines as [|line rest IH]; intros fuel tell skip rec size acc Hf; (destruct fuel as [|fuel]; [cbn [length] in Hf; lia|]).
  - cbn [src_IABIndexParser_parse_loop1 py_readline iab_loop]. cbv iota beta. change (py_bytes_truthy "") with false. cbn [negb bind].
    apply iab_end_finish.
  - cbn [length] in Hf. cbn [src_IABIndexParser_parse_loop1 py_readline iab_loop]. cbv iota beta zeta.
    unfold py_bytes_truthy. rewrite negb_involutive.
    destruct (String.eqb line "") eqn:El; [cbn [bind]; apply iab_end_finish|].
    unfold py_bytes_in. change HEX with "(hex)"%string. change BASE16 with "(base 16)"%string. change (str_len line) with (blen line).
    set (skip' := if skip && contains "(hex)" line then false else skip).
    destruct skip'; [apply IH; lia|].
    destruct (contains "(hex)" line).
    + unfold py_bytes_split0.
      destruct rec as [(k, o)|]; cbn [irec].
      * rewrite proji_emit. cbn [l3i].
        destruct (first_token line) as [p|]; cbn [bind]; [|reflexivity].
        apply (IH fuel (tell + blen line) false (Some (KB p, tell + blen line - blen line)) (blen line)). lia.
      * destruct (first_token line) as [p|]; cbn [bind]; [|reflexivity].
        apply (IH fuel (tell + blen line) false (Some (KB p, tell + blen line - blen line)) (blen line)). lia.
    + destruct (contains "(base 16)" line).
      * destruct rec as [([p|z], o)|]; cbn [irec bik]; [| reflexivity | reflexivity].
        change (py_getitem_o [BiB p; BiI o] 0) with (Ok (BiB p)). cbn [bind bi_bytes]. rewrite replace_hyphen.
        unfold py_bytes_split0. destruct (first_token line) as [suffix|]; cbn [bind]; [|reflexivity].
        unfold py_bytes_split_sep0. cbn [bind]. rewrite before_byte_hyphen. unfold py_int16_bytes.
        change (String.append (remove_hyphens p) (before_hyphen suffix)) with (remove_hyphens p ++ before_hyphen suffix)%string.
        destruct (int16 (remove_hyphens p ++ before_hyphen suffix)) as [v|e]; cbn [bind]; [|reflexivity].
        change (py_setitem_o [BiB p; BiI o] 0 (BiI (Z.shiftr v 12))) with (Ok [BiI (Z.shiftr v 12); BiI o]). cbn [bind].
        apply (IH fuel (tell + blen line) false (Some (KI (Z.shiftr v 12), o)) (size + blen line)). lia.
      * cbn [bind]. apply IH. lia.
Qed.

Lemma src_iab_parse_ok lines : src_IABIndexParser_parse lines 0 = proji [] (iab_parse lines).
Proof.
  unfold src_IABIndexParser_parse, iab_parse. cbv zeta. rewrite Nat2Z.id.
  rewrite <- (src_iab_loop_ok lines (length lines + 1) 0 true None 0 []) by lia. cbn [irec].
  destruct (src_IABIndexParser_parse_loop1 _ _ _ _ _ _ _ _ _ _ _) as [((record, notified), size)|e]; [|reflexivity].
  cbn [bind iab_end]. destruct record; reflexivity.
Qed.

(* everything the C19 source tie states (Props/C19_src.v) *)
Lemma C19_tie_ok :
  (forall lines, src_OUIIndexParser_parse lines 0 = proj l3 [] (oui_parse lines)) /\
  (forall lines, src_IABIndexParser_parse lines 0 = proji [] (iab_parse lines)) /\
  (forall lines fuel tell skip rec size acc, (length lines < fuel)%nat ->
     (do st <- src_OUIIndexParser_parse_loop1 fuel "(hex)" "-" "" lines tell skip (orec rec) acc size; oui_end st) =
     proj l3 acc (oui_loop lines tell skip rec size)) /\
  (forall lines fuel tell skip rec size acc, (length lines < fuel)%nat ->
     (do st <- src_IABIndexParser_parse_loop1 fuel "(hex)" "(base 16)" "-" "" lines tell skip (irec rec) acc size; iab_end st) =
     proji acc (iab_loop lines tell skip rec size)).
Proof.
  split; [exact src_oui_parse_ok|]. split; [exact src_iab_parse_ok|]. split; [exact src_oui_loop_ok|exact src_iab_loop_ok].
Qed.
