(* Proofs/Coherence_Iter.v — coherence of the model copies, part 4:
     family 5  iter_iprange (ip/__init__.py 1748-1791): the generator of Subnet (state + step function, C11) and the
               observed iterator of ListLike (`it_take`, C10), and their two closed forms for the number of elements
     family 7  IPNetwork.subnet: Splitter.subnet_list is the exhaustion of the Subnet generator (no second model);
               its closed form `subnets_of` (Proofs/C20) is restated here *)
From NV Require Import Base.Tac Base.PyVal Base.Bits Model.Ip.
From NV Require Model.Subnet Model.ListLike Model.Splitter Model.Partition Model.Nmap.
From NV Require Proofs.C09 Proofs.C20.
Open Scope Z_scope.

(* what a consumer that wants `n` elements sees of a Subnet generator, in ListLike's vocabulary: the values of the
   first n addresses, and whether the generator is then exhausted / has more / raised *)
Fixpoint gen_observe (n : nat) (g : Subnet.iprange_gen) : list Z * ListLike.gstatus :=
  match Subnet.iprange_next g with
  | None => ([], ListLike.Done)
  | Some (Raise e, _) => ([], ListLike.Raised e)
  | Some (Ok a, g') =>
      match n with
      | O => ([], ListLike.More)
      | S k => let '(l, s) := gen_observe k g' in (snd a :: l, s)
      end
  end.

Lemma addr_of_int_ver_snd i ver a : addr_of_int_ver i ver = Ok a -> snd a = i.
Proof.
  unfold addr_of_int_ver. destruct (ver =? 4).
  - destruct (in_range_w 32 i); [|discriminate]. intros E. injection E as <-. reflexivity.
  - destruct (ver =? 6); [|discriminate]. destruct (in_range_w 128 i); [|discriminate].
    intros E. injection E as <-. reflexivity.
Qed.

Lemma iprange_loop_unfold fuel version index step stop neg :
  ListLike.iprange_loop fuel version index step stop neg =
  let index := index + step in
  if (if neg then negb (index >=? stop) else negb (index <=? stop)) then ([], ListLike.Done)
  else match addr_of_int_ver index version with
       | Raise e => ([], ListLike.Raised e)
       | Ok _ =>
           match fuel with
           | O => ([], ListLike.More)
           | S f => let '(l, s) := ListLike.iprange_loop f version index step stop neg in (index :: l, s)
           end
       end.
Proof. destruct fuel; reflexivity. Qed.

(* the loop of ListLike is the Subnet generator observed: every state, every fuel, no hypothesis *)
Lemma coh_iprange_loop fuel : forall g,
  ListLike.iprange_loop fuel (Subnet.ig_ver g) (Subnet.ig_index g) (Subnet.ig_step g) (Subnet.ig_stop g)
    (Subnet.ig_step g <? 0) = gen_observe fuel g.
Proof.
  induction fuel as [|f IH]; intros g; rewrite iprange_loop_unfold; cbv zeta;
    destruct g as [ver index stop step]; cbn [Subnet.ig_ver Subnet.ig_index Subnet.ig_step Subnet.ig_stop];
    cbn [gen_observe]; unfold Subnet.iprange_next; cbn [Subnet.ig_ver Subnet.ig_index Subnet.ig_step Subnet.ig_stop].
  - destruct (step <? 0).
    + destruct (negb (index + step >=? stop)); [reflexivity|].
      destruct (addr_of_int_ver (index + step) ver); reflexivity.
    + destruct (negb (index + step <=? stop)); [reflexivity|].
      destruct (addr_of_int_ver (index + step) ver); reflexivity.
  - destruct (step <? 0) eqn:Es.
    + destruct (negb (index + step >=? stop)); [reflexivity|].
      destruct (addr_of_int_ver (index + step) ver) as [a|e] eqn:Ea; [|reflexivity].
      rewrite <- IH. cbn [Subnet.ig_ver Subnet.ig_index Subnet.ig_step Subnet.ig_stop]. rewrite Es.
      rewrite (addr_of_int_ver_snd _ _ _ Ea). reflexivity.
    + destruct (negb (index + step <=? stop)); [reflexivity|].
      destruct (addr_of_int_ver (index + step) ver) as [a|e] eqn:Ea; [|reflexivity].
      rewrite <- IH. cbn [Subnet.ig_ver Subnet.ig_index Subnet.ig_step Subnet.ig_stop]. rewrite Es.
      rewrite (addr_of_int_ver_snd _ _ _ Ea). reflexivity.
Qed.

(* iter_iprange(start, end, step) itself: same prologue (TypeError on mixed versions, ValueError on step 0), then the
   same generator.  No hypothesis. *)
Theorem coh_iter_iprange fuel sver sv ever ev step :
  ListLike.iter_iprange_take fuel sver sv ever ev step =
  match Subnet.iter_iprange (sver, sv) (ever, ev) step with
  | Raise e => ([], ListLike.Raised e)
  | Ok g => gen_observe fuel g
  end.
Proof.
  unfold ListLike.iter_iprange_take, Subnet.iter_iprange. cbn [fst snd].
  destruct (negb (sver =? ever)); [reflexivity|]. destruct (step =? 0); [reflexivity|].
  rewrite <- coh_iprange_loop. reflexivity.
Qed.

(* the observation is what `list(islice(gen, n))` (Subnet.gen_take) returns *)
Lemma observe_take n : forall g,
  match Subnet.gen_take Subnet.iprange_next n g with
  | Ok l => fst (gen_observe n g) = map snd l
  | Raise e => snd (gen_observe n g) = ListLike.Raised e
  end.
Proof.
  induction n as [|k IH]; intros g; cbn [Subnet.gen_take gen_observe].
  - destruct (Subnet.iprange_next g) as [[[a|e] g']|]; reflexivity.
  - destruct (Subnet.iprange_next g) as [[[a|e] g']|]; [|reflexivity|reflexivity].
    specialize (IH g'). destruct (Subnet.gen_take Subnet.iprange_next k g') as [l|e]; cbn [bind];
      destruct (gen_observe k g') as [l' s]; cbn [fst snd map] in *; [f_equal; exact IH|exact IH].
Qed.

(* the two closed forms for the number of addresses: Subnet.iprange_remaining (what the C11 harness compares) and
   ListLike.iprange_closed (what the C10 theorems use).  Hypothesis: only step <> 0 (the generator exists). *)
Theorem coh_iprange_count start stop step g : Subnet.iter_iprange start stop step = Ok g ->
  Subnet.iprange_remaining g = ListLike.a_count (ListLike.iprange_closed (snd start) (snd stop) step).
Proof.
  unfold Subnet.iter_iprange. destruct (negb (fst start =? fst stop)); [discriminate|].
  case_eqb step 0; [discriminate|]. intros E. injection E as <-.
  unfold Subnet.iprange_remaining, ListLike.iprange_closed.
  cbn [Subnet.ig_index Subnet.ig_step Subnet.ig_stop ListLike.a_count].
  replace (snd start - step + step) with (snd start) by lia.
  set (a := snd start). set (b := snd stop).
  case_ltb step 0.
  - replace ((b - a) / step) with ((a - b) / - step)
      by (rewrite <- (Z.div_opp_opp (b - a) step) by lia; f_equal; lia).
    destruct (Z.geb_spec a b).
    + assert (0 <= (a - b) / - step) by (apply Z.div_pos; lia). lia.
    + assert ((a - b) / - step < 0) by (apply Z.div_lt_upper_bound; lia). lia.
  - case_eqb step 0; [lia|].
    case_leb a b.
    + assert (0 <= (b - a) / step) by (apply Z.div_pos; lia). lia.
    + assert ((b - a) / step < 0) by (apply Z.div_lt_upper_bound; lia). lia.
Qed.

(* ================================================================ family 7 *)
(* Python: list(cidr.subnet(prefixlen, count)) — Splitter.subnet_list runs Subnet.subnet_start/subnet_next (the only
   model of IPNetwork.subnet) to exhaustion; for a block coarse enough it is the closed form used by C20 *)
Theorem coh_subnet_list w v p q count : 0 <= p <= q -> q <= w -> 0 <= v < 2 ^ w ->
  let cnt := C20.req_count count q p in
  (1 <= cnt <= 2 ^ (q - p) -> Splitter.subnet_list w (v, p) q count = Ok (C20.subnets_of w (v, p) q cnt)) /\
  (~ (1 <= cnt <= 2 ^ (q - p)) -> Splitter.subnet_list w (v, p) q count = Raise ValueError).
Proof. exact (C20.subnet_list_spec w v p q count). Qed.
Theorem coh_subnet_list_take w c q count :
  Splitter.subnet_list w c q count =
  do og <- Subnet.subnet_start w c q count;
  match og with
  | None => Ok []
  | Some g => omap snd (Subnet.subnet_take w c q count (Z.to_nat (Subnet.sg_count g)))
  end.
Proof.
  unfold Splitter.subnet_list, Subnet.subnet_take.
  destruct (Subnet.subnet_start w c q count) as [[g|]|e]; cbn [bind]; [|reflexivity|reflexivity].
  destruct (Subnet.gen_take _ _ g); reflexivity.
Qed.

(* ================================================================ `for ip in net` *)
(* Python: IPListMixin.__iter__ as consumed by nmap._parse_nmap_target_spec (`for ip in IPNetwork(spec)`): Nmap lists
   range(first, last + 1); ListLike (C10) proves that the iterator yields r_addresses.  Same list, every network. *)
Lemma zseq_arith n : forall lo, Nmap.zseq lo n = ListLike.arith_list n lo 1.
Proof. induction n as [|k IH]; intros lo; cbn [Nmap.zseq ListLike.arith_list]; [reflexivity|]. rewrite IH. reflexivity. Qed.
Theorem coh_nmap_net_addresses x :
  Nmap.py_range (ListLike.r_first x) (ListLike.r_last x + 1) = ListLike.r_addresses x.
Proof.
  unfold Nmap.py_range, ListLike.r_addresses, ListLike.r_size. rewrite zseq_arith. f_equal. f_equal. lia.
Qed.
