(* Proofs/Coherence_Order.v — coherence of the model copies, part 2:
     family 2  containment `x in y`: Contains (C04) vs Classify (C18) vs Sets.net_in_net (C06/C07) vs Iana (C19)
     family 3  sort keys, tuple comparison and sorted(): Order (C12) vs Sets (C06/C07) vs Contains (C04) *)
From Coq Require Import Sorting.Sorted Sorting.Permutation.
From NV Require Import Base.Tac Base.PyVal Base.Bits Model.Ip.
From NV Require Model.Span Model.Merge Model.Sets Model.Contains Model.Classify Model.Iana Model.Order.
From NV Require Proofs.C02 Proofs.C04 Proofs.C04_match Proofs.C07_qsort.
From NV Require Import Proofs.Coherence_Net.
Open Scope Z_scope.

(* ================================================================ family 2: containment *)
(* Python: IPNetwork.__contains__ (1130-1158).  Contains models Python's `>>`/`<<` with their ValueError for a negative
   count, Classify uses Z.shiftr/Z.shiftl directly: equal as soon as the container's prefix does not exceed the width
   (the only hypothesis; nothing is assumed of the values or of the operand). *)
Lemma coh_net_contains sver sv sp x : sp <= width sver ->
  Contains.net_contains width sver sv sp x = Ok (Classify.net_contains sver sv sp (cl_of x)).
Proof.
  intros Hp. unfold Contains.net_contains, Classify.net_contains. rewrite cl_of_over.
  destruct (negb (sver =? Contains.over x)); [reflexivity|].
  rewrite C04.py_shiftr_ok by lia. cbn [bind].
  destruct x as [ver v|ver v p|ver s e]; cbn [cl_of].
  - rewrite C04.py_shiftr_ok by lia. reflexivity.
  - rewrite C04.py_shiftr_ok by lia. reflexivity.
  - rewrite C04.py_shiftl_ok by lia. cbn [bind].
    destruct (_ <=? s); [|reflexivity]. rewrite C04.py_shiftl_ok by lia. reflexivity.
Qed.

(* Python: IPRange.__contains__ (1419-1439).  Same remark, for a network operand's prefix. *)
Definition operand_prefix_ok (x : Contains.ipobj) : Prop :=
  match x with Contains.Net ver _ p => p <= width ver | _ => True end.
Lemma coh_range_contains sver ss se x : operand_prefix_ok x ->
  Contains.range_contains width sver ss se x = Ok (Classify.range_contains sver ss se (cl_of x)).
Proof.
  intros Hx. unfold Contains.range_contains, Classify.range_contains. rewrite cl_of_over.
  destruct (negb (sver =? Contains.over x)); [reflexivity|].
  destruct x as [ver v|ver v p|ver s e]; cbn [cl_of operand_prefix_ok] in *; try reflexivity.
  rewrite C04.py_shiftr_ok by lia. cbn [bind]. rewrite !C04.py_shiftl_ok by lia. reflexivity.
Qed.

(* `x in y` with y a table row of Classify (IPNetwork or IPRange) = Contains.contains on the same container *)
Lemma coh_contains_row r x :
  (Classify.rkind r = 0 -> Classify.rsnd r <= width (Classify.rver r)) ->
  (Classify.rkind r <> 0 -> operand_prefix_ok x) ->
  Contains.contains width (co_of_row r) x = Ok (Classify.contains_row r (cl_of x)).
Proof.
  destruct r as [[[k ver] a] b]. unfold co_of_row, Classify.contains_row. cbn [Classify.rkind Classify.rver Classify.rfst Classify.rsnd].
  intros H0 H1. case_eqb k 0; cbn [Contains.contains].
  - apply coh_net_contains. auto.
  - apply coh_range_contains. auto.
Qed.

(* IPSet's `other in self` for two networks is the network/network case of the same method (no hypothesis
   against Classify; prefix <= width against Contains) *)
Lemma coh_net_in_net_classify other self :
  Sets.net_in_net other self = Classify.net_contains (nver self) (nval self) (nplen self) (cl_net other).
Proof.
  unfold Sets.net_in_net, Classify.net_contains, cl_net. cbn [Classify.over].
  destruct (negb (nver self =? nver other)); [reflexivity|]. cbv zeta. rewrite Z.eqb_sym. reflexivity.
Qed.
Lemma coh_net_in_net_contains other self : nplen self <= width (nver self) ->
  Contains.net_contains width (nver self) (nval self) (nplen self) (co_net other) = Ok (Sets.net_in_net other self).
Proof. intros H. rewrite coh_net_contains by exact H. rewrite coh_net_in_net_classify. reflexivity. Qed.
(* hence, for well-formed networks, net_in_net is interval inclusion (the specification proved in C04) *)
Lemma coh_net_in_net_interval other self : C02.wf_net other -> C02.wf_net self ->
  Sets.net_in_net other self =
  (nver other =? nver self) && (Sets.nf self <=? Sets.nf other) && (Sets.nl other <=? Sets.nl self).
Proof.
  intros (_ & Hov & Hop) (_ & Hsv & Hsp).
  assert (Ws: C04.wf_obj width (co_net self)) by (cbn; lia).
  assert (Wo: C04.wf_obj width (co_net other)) by (cbn; lia).
  pose proof (coh_net_in_net_contains other self ltac:(lia)) as E.
  rewrite (C04.net_contains_spec width _ _ _ (co_net other) Ws Wo) in E.
  assert (E2: C04.insideb width (co_net other) (co_net self) = Sets.net_in_net other self) by (injection E as E; exact E).
  rewrite <- E2. unfold C04.insideb.
  destruct (coh_c04_lo_hi width _ Ws) as [-> ->]. destruct (coh_c04_lo_hi width _ Wo) as [-> ->].
  reflexivity.
Qed.

(* Python: iana._within_bounds (406-415): `ip in key` for network / range keys, `ip == key` for address keys *)
Definition row_of_irow (r : Iana.irow) : Classify.row :=
  (match Iana.r_kind r with Iana.KN => 0 | _ => 1 end, Iana.r_ver r, Iana.r_x r, Iana.r_y r).
Lemma coh_iana_net_contains_addr sver sval splen over oval :
  Iana.net_contains_addr sver sval splen over oval = Classify.net_contains sver sval splen (Classify.OAddr over oval).
Proof. reflexivity. Qed.
Lemma coh_iana_range_contains_addr sver ss se over oval :
  Iana.range_contains_addr sver ss se over oval = Classify.range_contains sver ss se (Classify.OAddr over oval).
Proof. reflexivity. Qed.
Lemma coh_iana_addr_eq sver sval over oval :
  Iana.addr_eq sver sval over oval = Order.py_eq (Order.Addr over oval) (Order.Addr sver sval).
Proof.
  unfold Iana.addr_eq, Order.py_eq. cbn [Order.key Order.tuple_cmp Order.z_cmp length].
  destruct (over =? sver); [|reflexivity]. destruct (oval =? sval); reflexivity.
Qed.
Lemma coh_within_bounds ver v r :
  Iana.within_bounds ver v r =
  match Iana.r_kind r with
  | Iana.KA => Order.py_eq (Order.Addr ver v) (Order.Addr (Iana.r_ver r) (Iana.r_x r))
  | _ => Classify.contains_row (row_of_irow r) (Classify.OAddr ver v)
  end.
Proof.
  unfold Iana.within_bounds, row_of_irow, Classify.contains_row.
  destruct (Iana.r_kind r); [reflexivity|reflexivity|apply coh_iana_addr_eq].
Qed.
Lemma coh_within_bounds_contains ver v r : Iana.r_kind r <> Iana.KA ->
  (Iana.r_kind r = Iana.KN -> Iana.r_y r <= width (Iana.r_ver r)) ->
  Contains.contains width (co_of_irow r) (Contains.Addr ver v) = Ok (Iana.within_bounds ver v r).
Proof.
  intros HA HN. unfold co_of_irow, Iana.within_bounds.
  destruct (Iana.r_kind r); [| |congruence]; cbn [Contains.contains].
  - rewrite coh_net_contains by auto. reflexivity.
  - rewrite coh_range_contains by exact I. reflexivity.
Qed.
(* Python: IPAddress.is_multicast() as used by iana.query — Iana hard-codes IPV4_MULTICAST, Classify reads it from
   the (generated) table: equal whenever the table row is that network *)
Lemma coh_is_multicast4 T ver v :
  Classify.t_multicast4 T = (0, 4, Iana.IPV4_MULTICAST_value, 4) ->
  Iana.is_multicast4 ver v = (ver =? 4) && Classify.truthy (Classify.is_multicast T (Classify.OAddr ver v)).
Proof.
  intros E. unfold Iana.is_multicast4, Iana.net_contains_addr, Classify.is_multicast. cbn [Classify.over].
  rewrite (Z.eqb_sym 4 ver). case_eqb ver 4; [|reflexivity]. subst ver. rewrite E. reflexivity.
Qed.

(* ================================================================ family 3: sort keys, comparison, sorted() *)
(* Python: IPNetwork.sort_key (1166-1173) *)
Definition list4 (k : Z * Z * Z * Z) : list Z := let '(a, b, c, d) := k in [a; b; c; d].
Lemma coh_sort_key n :
  Sets.sort_key n = Order.sort_key (ord_net n) /\ list4 (Contains.sort_key width n) = Sets.sort_key n.
Proof. split; reflexivity. Qed.

(* Python: tuple `<` / `<=` (CPython tuplerichcompare) on lists of any length *)
Lemma coh_lex_leb a : forall b, Sets.lex_leb a b = Order.tuple_cmp Order.OpLe a b.
Proof.
  induction a as [|x a IH]; intros [|y b]; cbn [Sets.lex_leb Order.tuple_cmp Order.z_cmp length].
  - reflexivity.
  - symmetry. apply Z.leb_le. lia.
  - symmetry. apply Z.leb_gt. lia.
  - rewrite IH. case_eqb x y.
    + subst. rewrite Z.ltb_irrefl. reflexivity.
    + case_ltb x y; [symmetry; apply Z.leb_le; lia|].
      case_ltb y x; [symmetry; apply Z.leb_gt; lia|lia].
Qed.
Lemma coh_lex_ltb a b : Sets.lex_ltb a b = Order.tuple_cmp Order.OpLt a b.
Proof. unfold Sets.lex_ltb. rewrite coh_lex_leb, C12_Lex.tcmp_lt_nle. reflexivity. Qed.
Lemma coh_key_lt k1 k2 : Contains.key_lt k1 k2 = Order.tuple_cmp Order.OpLt (list4 k1) (list4 k2).
Proof.
  destruct k1 as [[[a1 a2] a3] a4], k2 as [[[b1 b2] b3] b4]. unfold Contains.key_lt, list4.
  cbn [Order.tuple_cmp Order.z_cmp length].
  destruct (a1 =? b1); [|reflexivity]. destruct (a2 =? b2); [|reflexivity]. destruct (a3 =? b3); [|reflexivity].
  cbn [negb]. case_eqb a4 b4; [subst; apply Z.ltb_irrefl|reflexivity].
Qed.

(* Python: BaseIP.__lt__ on two networks *)
Lemma coh_net_lt a b :
  Sets.net_ltb a b = Order.py_lt (ord_net a) (ord_net b) /\ Contains.net_lt width a b = Sets.net_ltb a b.
Proof.
  split.
  - unfold Sets.net_ltb, Order.py_lt. rewrite coh_lex_ltb. reflexivity.
  - unfold Sets.net_ltb, Contains.net_lt. rewrite coh_lex_ltb, coh_key_lt. reflexivity.
Qed.

(* Python: sorted(list of IPNetwork).  Three insertion sorts (Sets inserts from the left after equal keys, Contains and
   Order from the right before equal keys); the sort key determines the network, so all three return the same list,
   for every input list (no hypothesis). *)
Lemma ins_sorted_le x l :
  StronglySorted (C04_match.net_le width) l -> StronglySorted (C04_match.net_le width) (Sets.ins_sorted x l).
Proof.
  induction 1 as [|y t St IH Hall]; cbn [Sets.ins_sorted].
  - repeat constructor.
  - fold (Sets.net_ltb x y). destruct (Sets.net_ltb x y) eqn:E.
    + destruct (coh_net_lt x y) as [_ E']. rewrite <- E' in E.
      constructor; [constructor; assumption|].
      constructor; [apply C04_match.net_lt_le; exact E|].
      eapply Forall_impl; [|exact Hall]. intros z Hz.
      eapply C04_match.net_le_trans; [apply C04_match.net_lt_le; exact E|exact Hz].
    + destruct (coh_net_lt x y) as [_ E']. rewrite <- E' in E.
      constructor; [assumption|].
      apply (Permutation_Forall (Permutation_sym (C07_qsort.q_ins_perm x t))).
      constructor; [exact E|assumption].
Qed.
Lemma fold_ins_sorted_le l : forall acc, StronglySorted (C04_match.net_le width) acc ->
  StronglySorted (C04_match.net_le width) (fold_left (fun acc x => Sets.ins_sorted x acc) l acc).
Proof. induction l as [|x l IH]; intros acc S; cbn [fold_left]; [exact S|]. apply IH, ins_sorted_le, S. Qed.

Theorem coh_sorted_sets_contains l : Sets.sorted l = Contains.py_sorted width l.
Proof.
  apply C04_match.py_sorted_unique; [apply C07_qsort.q_sorted_perm|].
  apply fold_ins_sorted_le. constructor.
Qed.

Lemma insert_obj_net x t :
  Order.insert_obj (ord_net x) (map ord_net t) = map ord_net (Contains.insert_sorted width x t).
Proof.
  induction t as [|y t IH]; cbn [map Order.insert_obj Contains.insert_sorted]; [reflexivity|].
  destruct (coh_net_lt y x) as [E1 E2]. rewrite <- E1, <- E2.
  destruct (Contains.net_lt width y x); cbn [map]; [rewrite IH|]; reflexivity.
Qed.
Theorem coh_sorted_order_contains l :
  Order.sorted (map ord_net l) = map ord_net (Contains.py_sorted width l).
Proof.
  induction l as [|x t IH]; [reflexivity|].
  unfold Order.sorted in *. cbn [map fold_right Contains.py_sorted]. rewrite IH. apply insert_obj_net.
Qed.
Corollary coh_sorted_order_sets l : Order.sorted (map ord_net l) = map ord_net (Sets.sorted l).
Proof. rewrite coh_sorted_sets_contains. apply coh_sorted_order_contains. Qed.

(* ================================================================ IPSet.__getstate__ / __setstate__ (sets.py 124-136)
   modelled in Sets (C06: pickling inside set histories) and in Order (C12: pickled state of every class).
   Order follows the source literally (build every IPNetwork, then one dict.fromkeys); Sets deduplicates while it
   recurses.  Equal for every state whose version fields are 4 or 6 — and NOT otherwise: see the example below. *)
Definition state3 (t : Z * Z * Z) : list Z := let '(v, p, ver) := t in [v; p; ver].

Lemma coh_ipset_getstate d : Order.ipset_getstate (map ord_net d) = map state3 (Sets.set_getstate d).
Proof. unfold Order.ipset_getstate, Sets.set_getstate. rewrite !map_map. reflexivity. Qed.

Lemma key_eqb_true a b : Sets.key_eqb a b = true <-> nver a = nver b /\ Sets.nf a = Sets.nf b /\ Sets.nl a = Sets.nl b.
Proof. unfold Sets.key_eqb. rewrite !andb_true_iff, !Z.eqb_eq. tauto. Qed.
Lemma dmem_true k d : Sets.dmem k d = true <-> exists a, In a d /\ Sets.key_eqb k a = true.
Proof. unfold Sets.dmem. apply existsb_exists. Qed.

(* the keys a dict gains when the items of l are assigned in order *)
Fixpoint gained (acc : Sets.dict) (l : list net) : list net :=
  match l with
  | [] => []
  | x :: t => if Sets.dmem x acc then gained acc t else x :: gained (acc ++ [x]) t
  end.
Lemma fold_dset_gained l : forall acc, fold_left Sets.dset l acc = acc ++ gained acc l.
Proof.
  induction l as [|x t IH]; intros acc; cbn [fold_left gained]; [symmetry; apply app_nil_r|].
  unfold Sets.dset at 2. destruct (Sets.dmem x acc); rewrite IH; [reflexivity|]. rewrite <- app_assoc. reflexivity.
Qed.
Definition covered_by (acc' acc : Sets.dict) : Prop := forall a, In a acc' -> Sets.dmem a acc = true.
Lemma dmem_covered y acc' acc : covered_by acc' acc -> Sets.dmem y acc' = true -> Sets.dmem y acc = true.
Proof.
  intros C H. apply dmem_true in H. destruct H as (a' & Ha' & E1). pose proof (C a' Ha') as H2.
  apply dmem_true in H2. destruct H2 as (a & Ha & E2). apply dmem_true. exists a. split; [exact Ha|].
  apply key_eqb_true in E1, E2. apply key_eqb_true. intuition congruence.
Qed.
Lemma dmem_self y acc : Sets.dmem y (acc ++ [y]) = true.
Proof. apply dmem_true. exists y. split; [apply in_or_app; right; left; reflexivity|]. apply key_eqb_true. tauto. Qed.
Lemma dmem_app_l y acc z : Sets.dmem y acc = true -> Sets.dmem y (acc ++ [z]) = true.
Proof. unfold Sets.dmem. rewrite existsb_app. intros ->. reflexivity. Qed.
(* deduplicating an already deduplicated list changes nothing *)
Lemma gained_gained t : forall acc acc', covered_by acc' acc -> gained acc (gained acc' t) = gained acc t.
Proof.
  induction t as [|y t IH]; intros acc acc' C; cbn [gained]; [reflexivity|].
  destruct (Sets.dmem y acc') eqn:E'.
  - rewrite (dmem_covered y acc' acc C E'). apply IH, C.
  - cbn [gained]. destruct (Sets.dmem y acc) eqn:E.
    + apply IH. intros a Ha. apply in_app_or in Ha. destruct Ha as [Ha|[<-|[]]]; [apply C, Ha|exact E].
    + f_equal. apply IH. intros a Ha. apply in_app_or in Ha.
      destruct Ha as [Ha|[<-|[]]]; [apply dmem_app_l, C, Ha|apply dmem_self].
Qed.
Lemma dfromkeys_cons_dedup n ns : Sets.dfromkeys (n :: Sets.dfromkeys ns) = Sets.dfromkeys (n :: ns).
Proof.
  unfold Sets.dfromkeys. cbn [fold_left]. rewrite (fold_dset_gained ns []). cbn [app].
  rewrite !fold_dset_gained. f_equal. apply gained_gained. intros a [].
Qed.

Lemma existsb_py_eq x acc :
  existsb (fun y => Order.py_eq y (ord_net x)) (map ord_net acc) = Sets.dmem x acc.
Proof.
  unfold Sets.dmem. induction acc as [|a acc IH]; cbn [map existsb]; [reflexivity|].
  rewrite IH, <- coh_key_eqb. f_equal.
  apply C04.bool_eq_iff. rewrite !key_eqb_true. intuition congruence.
Qed.
Lemma fromkeys_fold l : forall acc,
  Order.fromkeys (map ord_net acc) (map ord_net l) = map ord_net (fold_left Sets.dset l acc).
Proof.
  induction l as [|x t IH]; intros acc; cbn [map Order.fromkeys fold_left]; [reflexivity|].
  rewrite existsb_py_eq. unfold Sets.dset at 2. destruct (Sets.dmem x acc); [apply IH|].
  rewrite <- IH, map_app. reflexivity.
Qed.

Lemma setstate_both st : Forall (fun t => valid_ver (snd t) = true) st ->
  (exists e, Order.ipset_build (map state3 st) = Raise e /\ Sets.set_setstate st = Raise e) \/
  (exists ns, Order.ipset_build (map state3 st) = Ok (map ord_net ns) /\ Sets.set_setstate st = Ok (Sets.dfromkeys ns)).
Proof.
  induction 1 as [|[[v p] ver] r Hv _ IH]; [right; exists []; split; reflexivity|].
  cbn [snd] in Hv. cbn [map state3 Order.ipset_build Sets.set_setstate].
  rewrite coh_tuple_order, coh_tuple_mk_net, Hv.
  destruct (Span.net_of_tuple width ver v p) as [n|e]; cbn [omap bind]; [|left; exists e; split; reflexivity].
  destruct IH as [(e & -> & ->)|(ns & -> & ->)]; cbn [bind].
  - left. exists e. split; reflexivity.
  - right. exists (n :: ns). split; [reflexivity|]. rewrite dfromkeys_cons_dedup. reflexivity.
Qed.

Theorem coh_ipset_setstate st : Forall (fun t => valid_ver (snd t) = true) st ->
  Order.ipset_setstate (map state3 st) = omap (map ord_net) (Sets.set_setstate st).
Proof.
  intros V. unfold Order.ipset_setstate.
  destruct (setstate_both st V) as [(e & -> & ->)|(ns & -> & ->)]; cbn [omap]; [reflexivity|].
  f_equal. apply (fromkeys_fold ns []).
Qed.

(* an invalid version field: both copies raise ValueError, as the real code does
   (IPSet().__setstate__(((1, 32, 5),)) raises ValueError('5 is an invalid IP version!')).  The Sets copy lacked the
   version check until this coherence work found the disagreement; Model/Sets.v was corrected. *)
Example coh_ipset_setstate_invalid_version :
  Order.ipset_setstate (map state3 [(1, 32, 5)]) = Raise ValueError /\
  Sets.set_setstate [(1, 32, 5)] = Raise ValueError.
Proof. split; vm_compute; reflexivity. Qed.
