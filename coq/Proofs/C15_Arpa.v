(* Proofs/C15_Arpa.v — reverse-DNS names and the RFC 1924 encoder equal their specifications. *)
From Coq Require Import String Ascii.
From NV Require Import Base.Tac Base.PyVal Base.Bits Base.PyStr Base.PyStrFacts Model.Ip Model.Codec
  Proofs.C15_Digits Proofs.C15 Proofs.GenOk_C15.
Close Scope string_scope.
Open Scope Z_scope.

(* ------------------------------------------------------------------------------------------------ *)
(* in-addr.arpa *)
Lemma ipv4_int_to_arpa_spec v : 0 <= v < 2 ^ 32 -> ipv4_int_to_arpa v = Ok (spec_arpa4 v).
Proof.
  intros Hv. unfold ipv4_int_to_arpa. rewrite ipv4_int_to_words_spec by exact Hv. cbn [bind]. f_equal.
  unfold spec_words. change (Z.to_nat 4) with 4%nat. rewrite !digits_be_S_cons, digits_be_0.
  cbn [map rev app]. rewrite !join_cons, join_single. unfold spec_arpa4.
  change (Z.of_nat 3) with 3. change (Z.of_nat 2) with 2. change (Z.of_nat 1) with 1. change (Z.of_nat 0) with 0.
  change ((2 ^ 8) ^ 3) with (256 ^ 3). change ((2 ^ 8) ^ 2) with (256 ^ 2). change ((2 ^ 8) ^ 1) with 256.
  change ((2 ^ 8) ^ 0) with 1. change (2 ^ 8) with 256. rewrite Z.div_1_r. reflexivity.
Qed.

(* ------------------------------------------------------------------------------------------------ *)
(* replace / join helpers *)
Lemma replace_chars_single c l : forall fuel, (List.length l < fuel)%nat ->
  replace_chars fuel [c] [] l = filter (fun x => negb (ascii_eqb c x)) l.
Proof.
  induction l as [|x l IH]; intros fuel Hf.
  - destruct fuel; reflexivity.
  - destruct fuel as [|f]; [cbn in Hf; lia|]. cbn [replace_chars starts_with_chars filter List.length skipn app].
    cbn [List.length] in Hf. rewrite andb_true_r. destruct (ascii_eqb c x); cbn [negb].
    + apply IH. lia.
    + f_equal. apply IH. lia.
Qed.

Lemma replace_single c s :
  chars (replace (String c EmptyString) EmptyString s) = filter (fun x => negb (ascii_eqb c x)) (chars s).
Proof.
  unfold replace. rewrite chars_str_of. cbn [chars]. apply replace_chars_single. rewrite length_chars. lia.
Qed.

Lemma filter_id {A} (f : A -> bool) l : (forall x, In x l -> f x = true) -> filter f l = l.
Proof.
  induction l as [|x l IH]; intros H; [reflexivity|]. cbn [filter]. rewrite H by (left; reflexivity).
  f_equal. apply IH. intros y Hy. apply H. right. exact Hy.
Qed.

(* removing a one-character separator from a join of separator-free tokens concatenates them *)
Lemma filter_join_chars c toks : Forall (fun t => existsb (ascii_eqb c) t = false) toks ->
  filter (fun x => negb (ascii_eqb c x)) (join_chars [c] toks) = concat toks.
Proof.
  intros HF. induction HF as [|t toks Ht HF IH]; [reflexivity|].
  assert (Hf : filter (fun x => negb (ascii_eqb c x)) t = t).
  { apply filter_id. intros x Hx. destruct (ascii_eqb c x) eqn:E; [|reflexivity].
    exfalso. assert (existsb (ascii_eqb c) t = true) by (apply existsb_exists; eauto). congruence. }
  cbn [join_chars concat]. destruct toks as [|u r].
  - cbn [concat]. now rewrite app_nil_r.
  - rewrite !filter_app, Hf, IH. cbn [filter]. now rewrite ascii_eqb_refl.
Qed.

Lemma join_chars_nil_sep toks : join_chars [] toks = concat toks.
Proof.
  induction toks as [|t toks IH]; [reflexivity|]. cbn [join_chars concat]. destruct toks as [|u r].
  - cbn [concat]. now rewrite app_nil_r.
  - cbn [app]. now rewrite IH.
Qed.

Lemma strip_sep_join sep toks : sep_ok sep = true ->
  Forall (fun t => forall c, In c t -> is_bin_digit c = true) toks ->
  chars (strip_sep sep (join sep (map str_of toks))) = concat toks.
Proof.
  intros Hsep HF. unfold strip_sep, join. rewrite map_chars_str_of.
  destruct sep as [|c [|c' s']]; cbn in Hsep; try discriminate.
  - cbn [String.eqb chars]. now rewrite chars_str_of, join_chars_nil_sep.
  - cbn [String.eqb]. rewrite replace_single, chars_str_of. cbn [chars]. apply filter_join_chars.
    eapply Forall_impl; [|exact HF]. intros t Ht. cbn beta in Ht.
    destruct (existsb (ascii_eqb c) t) eqn:E; [|reflexivity]. exfalso.
    apply existsb_exists in E. destruct E as (x & Hx & Hcx). apply ascii_eqb_eq in Hcx. subst x.
    rewrite (Ht c Hx) in Hsep. discriminate.
Qed.

(* ------------------------------------------------------------------------------------------------ *)
(* ip6.arpa *)
Lemma map_repeat' {A B} (f : A -> B) x n : map f (repeat x n) = repeat (f x) n.
Proof. induction n as [|n IH]; [reflexivity|]. cbn [repeat map]. now rewrite IH. Qed.

Lemma fmt_pad_digits_be b up k n : 2 <= b -> (0 < k)%nat -> 0 <= n < b ^ Z.of_nat k ->
  pad0 k (fmt_nat b up n) = map (fmt_digit up) (digits_be b k n).
Proof.
  intros Hb Hk Hn. rewrite digits_be_digits_of by assumption. rewrite map_app, <- fmt_nat_eq.
  unfold pad0. rewrite fmt_nat_length. f_equal. rewrite repeat_char_repeat, map_repeat'.
  destruct up; reflexivity.
Qed.

Lemma fmt_digit_hex d : fmt_digit false d = hex_char d.
Proof. reflexivity. Qed.

Lemma ipv6_words16 v : 0 <= v < 2 ^ 128 ->
  struct_unpack [2; 2; 2; 2; 2; 2; 2; 2]%nat (spec_packed 128 v) = Ok (digits_be (2 ^ 16) 8 v).
Proof.
  intros Hv. change [2; 2; 2; 2; 2; 2; 2; 2]%nat with (repeat 2%nat 8).
  rewrite struct_unpack_uniform.
  - rewrite spec_packed_eq. rewrite from_digits_digits_be_small by (try lia; exact Hv). reflexivity.
  - lia.
  - rewrite spec_packed_eq, digits_be_length. reflexivity.
  - rewrite spec_packed_eq. apply digits_be_range. lia.
Qed.

Lemma join_arpa_tail l :
  join "." (map char_str l ++ ["ip6"; "arpa"; ""]%string) =
  (str_of (flat_map (fun c => [c; "."%char]) l) ++ "ip6.arpa.")%string.
Proof.
  induction l as [|c l IH]; [reflexivity|].
  cbn [map app flat_map str_of]. destruct (map char_str l ++ ["ip6"; "arpa"; ""]%string) as [|u r] eqn:E.
  - destruct (map char_str l); discriminate.
  - rewrite join_cons, IH. reflexivity.
Qed.

Lemma ipv6_int_to_arpa_spec d v : d_sep d = ":"%string -> 0 <= v < 2 ^ 128 ->
  ipv6_int_to_arpa d v = Ok (spec_arpa6 v).
Proof.
  intros Hsep Hv. unfold ipv6_int_to_arpa, ipv6_int_to_str_verbose.
  rewrite ipv6_int_to_packed_spec by exact Hv. cbn [bind]. rewrite ipv6_words16 by exact Hv.
  cbn [bind on_exception]. f_equal. rewrite Hsep.
  set (W := digits_be (2 ^ 16) 8 v).
  assert (HW : Forall (fun x => 0 <= x < 16 ^ Z.of_nat 4) W) by (apply digits_be_range; lia).
  set (toks := map (fun x => map hex_char (digits_be 16 4 x)) W).
  assert (Htok : map (fmt_x_pad 4) W = map str_of toks).
  { unfold toks. rewrite map_map. apply map_ext_in. intros x Hx. unfold fmt_x_pad.
    rewrite Forall_forall in HW. rewrite fmt_pad_digits_be by (try lia; now apply HW). reflexivity. }
  assert (Hchars : chars (replace ":" "" (join ":" (map (fmt_x_pad 4) W))) = map hex_char (digits_be 16 32 v)).
  { rewrite Htok. unfold join. rewrite map_chars_str_of. rewrite replace_single, chars_str_of. cbn [chars].
    rewrite filter_join_chars.
    - unfold toks. rewrite concat_map_map. f_equal. unfold W.
      change (2 ^ 16) with (16 ^ Z.of_nat 4). now rewrite digits_be_flat by lia.
    - unfold toks. apply Forall_forall. intros t Ht. apply in_map_iff in Ht. destruct Ht as (x & <- & Hx).
      destruct (existsb (ascii_eqb ":") (map hex_char (digits_be 16 4 x))) eqn:E; [|reflexivity]. exfalso.
      apply existsb_exists in E. destruct E as (c & Hc & Hcc). apply ascii_eqb_eq in Hcc. subst c.
      apply in_map_iff in Hc. destruct Hc as (dg & Hdg & Hin).
      pose proof (digits_be_range 16 4 x ltac:(lia)) as HR. rewrite Forall_forall in HR. specialize (HR dg Hin).
      pose proof (digit_val_digit_char dg ltac:(lia)) as HD. unfold hex_char in Hdg. rewrite Hdg in HD. discriminate. }
  rewrite Hchars, <- map_rev, join_arpa_tail. unfold spec_arpa6.
  assert (E : flat_map (fun c : ascii => [c; "."%char]) (rev (map hex_char (digits_be 16 32 v))) =
              flat_map (fun i : nat => [hex_char ((v / 16 ^ Z.of_nat i) mod 16); "."%char]) (seq 0 32)).
  { rewrite <- map_rev, rev_digits_be by lia.
    rewrite !flat_map_concat_map, !map_map. reflexivity. }
  now rewrite E.
Qed.

(* ------------------------------------------------------------------------------------------------ *)
(* RFC 1924 encoder *)
Lemma base85_length : List.length BASE_85 = 85%nat.
Proof. reflexivity. Qed.

Lemma BASE_85_alphabet : BASE_85 = chars rfc1924_alphabet.
Proof. unfold BASE_85. now rewrite gen_base85_ok. Qed.

Lemma b85_char_spec d : 0 <= d < 85 -> b85_char d = Ok (spec_b85_char d).
Proof.
  intros Hd. unfold b85_char, spec_b85_char. destruct (Z.ltb_spec d 0); [lia|].
  rewrite <- BASE_85_alphabet.
  destruct (nth_error BASE_85 (Z.to_nat d)) as [c|] eqn:E.
  - f_equal. symmetry. now apply nth_error_nth.
  - apply nth_error_None in E. rewrite base85_length in E. lia.
Qed.

Lemma b85_loop_spec fuel : forall v, 0 <= v < 85 ^ Z.of_nat fuel ->
  exists k, (k <= fuel)%nat /\ v < 85 ^ Z.of_nat k /\ b85_loop fuel v = Ok (rev (digits_be 85 k v)).
Proof.
  induction fuel as [|f IH]; intros v Hv.
  - cbn in Hv. assert (v = 0) by lia. subst v. exists 0%nat. cbn. repeat split; try lia; reflexivity.
  - cbn [b85_loop]. destruct (Z.gtb_spec v 0) as [Hpos|Hz].
    + rewrite Nat2Z.inj_succ, Z.pow_succ_r in Hv by lia.
      destruct (IH (v / 85)) as (k & Hk & Hlt & Hrun).
      { split; [apply Z.div_pos; lia|]. apply Z.div_lt_upper_bound; lia. }
      exists (S k). split; [lia|]. split.
      { rewrite Nat2Z.inj_succ, Z.pow_succ_r by lia.
        pose proof (Z.div_mod v 85 ltac:(lia)). pose proof (Z.mod_pos_bound v 85 ltac:(lia)). nia. }
      rewrite Hrun. cbn [bind]. rewrite digits_be_S_snoc by lia. rewrite rev_app_distr. reflexivity.
    + assert (v = 0) by lia. subst v. exists 0%nat. cbn. repeat split; try lia; reflexivity.
Qed.

Lemma spec_b85_char_0 : spec_b85_char 0 = "0"%char.
Proof. reflexivity. Qed.

Lemma ipv6_to_base85_spec v : 0 <= v < 2 ^ 128 -> ipv6_to_base85 v = Ok (spec_base85 v).
Proof.
  intros Hv. unfold ipv6_to_base85.
  assert (Ha : exists ver, addr_of_int v = Ok (ver, v)).
  { unfold addr_of_int. change (max_int 4) with (2 ^ 32 - 1). change (max_int 6) with (2 ^ 128 - 1).
    destruct ((0 <=? v) && (v <=? 2 ^ 32 - 1)) eqn:E1; [eauto|].
    destruct ((2 ^ 32 - 1 <? v) && (v <=? 2 ^ 128 - 1)) eqn:E2; [eauto|]. lia. }
  destruct Ha as (ver & ->). cbn [bind snd].
  destruct (b85_loop_spec 20 v) as (k & Hk & Hlt & Hrun).
  { split; [lia|]. eapply Z.lt_trans; [apply Hv|]. reflexivity. }
  rewrite Hrun. cbn [bind]. rewrite rev_involutive.
  rewrite (map_outcome_ok _ spec_b85_char).
  2:{ intros d Hd. apply b85_char_spec. pose proof (digits_be_range 85 k v ltac:(lia)) as HR.
      rewrite Forall_forall in HR. now apply HR. }
  cbn [bind]. f_equal. unfold spec_base85. f_equal.
  rewrite map_length, digits_be_length.
  replace 20%nat with ((20 - k) + k)%nat at 2 by lia.
  rewrite digits_be_pad by (first [lia | split; [lia|exact Hlt]]).
  rewrite map_app. f_equal. rewrite map_repeat', repeat_char_repeat. reflexivity.
Qed.

Lemma ipv6_to_base85_no_fuel v : 0 <= v < 2 ^ 128 -> ipv6_to_base85 v <> Raise OutOfFuel.
Proof. intros Hv. rewrite ipv6_to_base85_spec by exact Hv. discriminate. Qed.

Lemma ipv6_to_base85_raises v : ~ (0 <= v < 2 ^ 128) -> ipv6_to_base85 v = Raise AddrFormatError.
Proof.
  intros Hv. unfold ipv6_to_base85, addr_of_int. change (max_int 4) with (2 ^ 32 - 1). change (max_int 6) with (2 ^ 128 - 1).
  destruct ((0 <=? v) && (v <=? 2 ^ 32 - 1)) eqn:E1; [lia|].
  destruct ((2 ^ 32 - 1 <? v) && (v <=? 2 ^ 128 - 1)) eqn:E2; [lia|]. reflexivity.
Qed.
