(* Proofs/C18_lift.v — piecewise-constant lifting for finite unions of closed integer intervals
   (from tools/spikes/Piecewise_lift.v), and the "flip" facts of a separated interval list. *)
From NV Require Import Base.Tac Model.Classify.
Open Scope Z_scope.

Definition wfiv (i : iv) := fst i <= snd i.

Definition changes (l : list iv) : list Z := flat_map (fun i => [fst i; snd i + 1]) l.
Definition cuts (l : list iv) : list Z := flat_map (fun i => [fst i - 1; fst i; snd i + 1]) l.

Fixpoint maxle (x : Z) (ps : list Z) : option Z :=
  match ps with
  | [] => None
  | p :: r => match maxle x r with
              | Some m => if p <=? x then Some (Z.max p m) else Some m
              | None => if p <=? x then Some p else None
              end
  end.

Lemma maxle_some x ps c : maxle x ps = Some c ->
  In c ps /\ c <= x /\ forall p, In p ps -> p <= x -> p <= c.
Proof.
  revert c. induction ps as [|p r IH]; intros c H; cbn in H; [discriminate|].
  destruct (maxle x r) as [m|] eqn:E.
  - destruct (IH m eq_refl) as (Hin & Hle & Hmax).
    destruct (Z.leb_spec p x); inversion H; subst; clear H.
    + split; [|split].
      * destruct (Z.max_spec p m) as [[_ ->]|[_ ->]]; [now right|now left].
      * lia.
      * intros q [->|Hq] Hqx; [lia|]. specialize (Hmax q Hq Hqx). lia.
    + split; [now right|split; [lia|]]. intros q [->|Hq] Hqx; [lia|]. now apply Hmax.
  - destruct (Z.leb_spec p x); inversion H; subst; clear H.
    split; [now left|split; [lia|]]. intros q [->|Hq] Hqx; [lia|].
    exfalso. clear IH. revert E Hq Hqx. induction r as [|a r IHr]; cbn; [tauto|].
    destruct (maxle x r); [destruct (a <=? x); discriminate|].
    destruct (Z.leb_spec a x); [discriminate|]. intros _ [->|Hq] Hqx; [lia|]. now apply IHr.
Qed.

Lemma maxle_none x ps : maxle x ps = None -> forall p, In p ps -> x < p.
Proof.
  induction ps as [|a r IH]; cbn; [tauto|].
  destruct (maxle x r); [destruct (a <=? x); discriminate|].
  destruct (Z.leb_spec a x); [discriminate|]. intros _ p [->|Hp]; [lia|]. now apply IH.
Qed.

Fixpoint minl (ps : list Z) : option Z :=
  match ps with [] => None | p :: r => match minl r with Some m => Some (Z.min p m) | None => Some p end end.
Lemma minl_some ps : ps <> [] -> exists m, minl ps = Some m /\ In m ps /\ forall p, In p ps -> m <= p.
Proof.
  induction ps as [|a r IH]; [congruence|]. intros _. cbn. destruct r as [|b r'].
  - exists a. cbn. split; [reflexivity|split; [now left|]]. intros p [->|[]]. lia.
  - destruct IH as (m & -> & Hin & Hmin); [congruence|]. exists (Z.min a m). split; [reflexivity|split].
    + destruct (Z.min_spec a m) as [[_ ->]|[_ ->]]; [now left|now right].
    + intros p [->|Hp]; [lia|]. specialize (Hmin p Hp). lia.
Qed.

(* every point has a representative among the cut points with the same membership vector *)
Theorem representative (l : list iv) : l <> [] -> Forall wfiv l ->
  forall x, exists c, In c (cuts l) /\ forall i, In i l -> memb i x = memb i c.
Proof.
  intros Hne Hwf x. rewrite Forall_forall in Hwf.
  destruct (maxle x (changes l)) as [c|] eqn:E.
  - destruct (maxle_some _ _ _ E) as (Hin & Hle & Hmax).
    exists c. split.
    + unfold changes in Hin. unfold cuts. apply in_flat_map in Hin. destruct Hin as (i & Hi & Hc).
      apply in_flat_map. exists i. split; [exact Hi|]. cbn in *. tauto.
    + intros i Hi. unfold memb.
      assert (In (fst i) (changes l)) by (unfold changes; apply in_flat_map; exists i; cbn; tauto).
      assert (In (snd i + 1) (changes l)) by (unfold changes; apply in_flat_map; exists i; cbn; tauto).
      pose proof (Hmax _ H). pose proof (Hmax _ H0).
      destruct (Z.leb_spec (fst i) x), (Z.leb_spec x (snd i)), (Z.leb_spec (fst i) c), (Z.leb_spec c (snd i)); cbn; try reflexivity; lia.
  - pose proof (maxle_none _ _ E) as Hall.
    destruct (minl_some (map fst l)) as (m & _ & Hin & Hmin). { destruct l; cbn; congruence. }
    apply in_map_iff in Hin. destruct Hin as (i0 & <- & Hi0).
    exists (fst i0 - 1). split.
    + unfold cuts. apply in_flat_map. exists i0. cbn. tauto.
    + intros i Hi. unfold memb.
      assert (x < fst i). { apply Hall. unfold changes. apply in_flat_map. exists i. cbn. tauto. }
      assert (fst i0 <= fst i). { apply Hmin. apply in_map_iff. exists i. tauto. }
      destruct (Z.leb_spec (fst i) x), (Z.leb_spec (fst i) (fst i0 - 1)); cbn; try reflexivity; lia.
Qed.

(* lifting: two functions that see x only through the membership vector agree everywhere
   as soon as they agree on the cut points *)
Theorem lift (A : Type) (l : list iv) (F G : (iv -> bool) -> A) :
  l <> [] -> Forall wfiv l ->
  (forall m1 m2, (forall i, In i l -> m1 i = m2 i) -> F m1 = F m2) ->
  (forall m1 m2, (forall i, In i l -> m1 i = m2 i) -> G m1 = G m2) ->
  (forall c, In c (cuts l) -> F (fun i => memb i c) = G (fun i => memb i c)) ->
  forall x, F (fun i => memb i x) = G (fun i => memb i x).
Proof.
  intros Hne Hwf HF HG Hc x. destruct (representative l Hne Hwf x) as (c & Hin & Hsame).
  rewrite (HF (fun i => memb i x) (fun i => memb i c)) by exact Hsame.
  rewrite (HG (fun i => memb i x) (fun i => memb i c)) by exact Hsame.
  now apply Hc.
Qed.

(* ---- the instance used by C18: unions of two interval tables *)

Lemma existsb_ext_in {A} (f g : A -> bool) l : (forall a, In a l -> f a = g a) -> existsb f l = existsb g l.
Proof. induction l as [|a r IH]; cbn; intros H; [reflexivity|]. rewrite (H a) by now left. rewrite IH; [reflexivity|].
  intros b Hb. apply H. now right. Qed.

Definition wfivb (i : iv) : bool := fst i <=? snd i.
Lemma wfivb_all l : forallb wfivb l = true -> Forall wfiv l.
Proof. rewrite forallb_forall, Forall_forall. intros H i Hi. specialize (H i Hi). unfold wfivb, wfiv in *. lia. Qed.

(* boolean check over the finite cut-point set *)
Definition agree_on_cuts (f g : Z -> bool) (l : list iv) : bool :=
  forallb (fun c => Bool.eqb (f c) (g c)) (cuts l).

Theorem mem_lift (l1 l2 : list iv) :
  forallb wfivb (l1 ++ l2) = true ->
  agree_on_cuts (mem l1) (mem l2) (l1 ++ l2) = true ->
  forall x, mem l1 x = mem l2 x.
Proof.
  intros Hwf Hc x.
  destruct (l1 ++ l2) as [|i0 r] eqn:El.
  { apply app_eq_nil in El. destruct El; subst. reflexivity. }
  rewrite <- El in *.
  unfold mem.
  apply (lift bool (l1 ++ l2) (fun m => existsb m l1) (fun m => existsb m l2)).
  - rewrite El. discriminate.
  - apply wfivb_all. exact Hwf.
  - intros m1 m2 H. apply existsb_ext_in. intros a Ha. apply H. apply in_or_app. now left.
  - intros m1 m2 H. apply existsb_ext_in. intros a Ha. apply H. apply in_or_app. now right.
  - intros c Hin. unfold agree_on_cuts in Hc. rewrite forallb_forall in Hc. specialize (Hc c Hin).
    apply eqb_prop in Hc. exact Hc.
Qed.

Lemma mem_true_iff l x : mem l x = true <-> exists i, In i l /\ fst i <= x <= snd i.
Proof.
  unfold mem. rewrite existsb_exists. split; intros (i & Hi & H); exists i; (split; [exact Hi|]); unfold memb in *; lia.
Qed.

Lemma mem_app l1 l2 x : mem (l1 ++ l2) x = mem l1 x || mem l2 x.
Proof. unfold mem. apply existsb_app. Qed.

(* ---- flip facts.  A list is separated when its intervals are non-empty and pairwise at distance >= 2,
   i.e. they are the maximal runs of their union. *)
Definition separated (l : list iv) : Prop :=
  (forall i, In i l -> fst i <= snd i) /\
  (forall i j, In i l -> In j l -> i = j \/ snd i + 1 < fst j \/ snd j + 1 < fst i).

Definition iv_eqb (i j : iv) : bool := (fst i =? fst j) && (snd i =? snd j).
Definition separatedb (l : list iv) : bool :=
  forallb wfivb l &&
  forallb (fun i => forallb (fun j => iv_eqb i j || (snd i + 1 <? fst j) || (snd j + 1 <? fst i)) l) l.

Lemma separatedb_ok l : separatedb l = true -> separated l.
Proof.
  unfold separatedb. rewrite andb_true_iff, !forallb_forall. intros [H1 H2]. split.
  - intros i Hi. specialize (H1 i Hi). unfold wfivb in H1. lia.
  - intros i j Hi Hj. specialize (H2 i Hi). rewrite forallb_forall in H2. specialize (H2 j Hj).
    unfold iv_eqb in H2. destruct i as [a b], j as [c d]; cbn in *.
    destruct (Z.eqb_spec a c), (Z.eqb_spec b d); subst; cbn in H2; try (now left); right; lia.
Qed.

(* constant (true) across every block; false immediately outside both ends *)
Lemma separated_block l i : separated l -> In i l ->
  (forall x, fst i <= x <= snd i -> mem l x = true) /\ mem l (fst i - 1) = false /\ mem l (snd i + 1) = false.
Proof.
  intros [Hwf Hsep] Hi. split; [|split].
  - intros x Hx. apply mem_true_iff. exists i. tauto.
  - apply not_true_is_false. rewrite mem_true_iff. intros (j & Hj & Hx).
    pose proof (Hwf i Hi). pose proof (Hwf j Hj). destruct (Hsep i j Hi Hj) as [->|[?|?]]; lia.
  - apply not_true_is_false. rewrite mem_true_iff. intros (j & Hj & Hx).
    pose proof (Hwf i Hi). pose proof (Hwf j Hj). destruct (Hsep i j Hi Hj) as [->|[?|?]]; lia.
Qed.

(* the answer changes between x and x+1 exactly at the edges of the blocks *)
Lemma separated_flip l x : separated l ->
  (mem l x <> mem l (x + 1) <-> exists i, In i l /\ (x + 1 = fst i \/ x = snd i)).
Proof.
  intros Hs. split.
  - intros Hne. destruct (mem l x) eqn:E1, (mem l (x + 1)) eqn:E2; try congruence.
    + apply mem_true_iff in E1. destruct E1 as (i & Hi & Hx). exists i. split; [exact Hi|]. right.
      assert (~ (fst i <= x + 1 <= snd i)).
      { intros Hc. assert (mem l (x + 1) = true) by (apply mem_true_iff; exists i; tauto). congruence. }
      lia.
    + apply mem_true_iff in E2. destruct E2 as (i & Hi & Hx). exists i. split; [exact Hi|]. left.
      assert (~ (fst i <= x <= snd i)).
      { intros Hc. assert (mem l x = true) by (apply mem_true_iff; exists i; tauto). congruence. }
      lia.
  - intros (i & Hi & Hx). destruct (separated_block l i Hs Hi) as (Hin & Hlo & Hhi).
    destruct Hs as [Hwf _]. pose proof (Hwf i Hi). destruct Hx as [Hx|Hx].
    + replace x with (fst i - 1) by lia. replace (fst i - 1 + 1) with (fst i) by lia.
      rewrite Hlo, (Hin (fst i)) by lia. discriminate.
    + subst x. rewrite Hhi, (Hin (snd i)) by lia. discriminate.
Qed.
