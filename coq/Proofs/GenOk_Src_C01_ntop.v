(* Proofs/GenOk_Src_C01_ntop.v — source tie for C01, the printing half of netaddr/fbsocket.py: the definitions regenerated from
   _compact_ipv6_tokens and inet_ntop (Gen/pysrc_fbsocket_gen.v) equal the hand-written model Fb.compact_ipv6_tokens /
   Fb.inet_ntop6 of Model/FbSocket.v.
   _compact_ipv6_tokens: the generated discovery loop carries idx / num_tokens as ints, start_index as None-or-int and positions as
   a list of (int, None-or-int) pairs; the model (Fb.zero_runs on the pattern `token == '0'`) uses naturals and drops a run whose
   start is None (unreachable).  The simulation below keeps the invariant num_tokens > 0 -> start_index is not None, under which
   both agree; positions.sort(key=lambda x: x[1]) (py_sort_optkey) is Fb.sort_by_start, the best-position loop is Fb.pick_best,
   the slices new_tokens[0:start_idx] / new_tokens[start_idx + length:] are firstn / skipn.
   inet_ntop: a packed IPv6 address is 16 bytes in the generated code and 8 words in the model (py_words_of_bytes). *)
From Coq Require Import String Ascii.
From NV Require Import Base.Tac Base.PyVal Base.PyStr Base.PyStrFacts Model.IpText Model.FbSocket Model.SrcPrelude Model.SrcPreludeStr
  Model.SrcPreludeText Gen.pysrc_fbsocket_gen Proofs.GenOk_Src_C01.
From NV Require Model.Codec.
Import ListNotations.
Close Scope string_scope.
Open Scope list_scope.
Open Scope Z_scope.

(* ---------------------------------------------------------------- the discovery loop *)
Definition enc (p : nat * nat) : Z * option Z := (Z.of_nat (fst p), Some (Z.of_nat (snd p))).
Definition is0 (t : string) : bool := String.eqb t "0".
(* num_tokens > 0 -> start_index is not None *)
Definition inv (start : option nat) (num : nat) : Prop := (0 < num)%nat -> exists s, start = Some s.

Lemma push_run_enc num start pos : inv start num ->
  (if Z.of_nat num >? 1 then map enc pos ++ [(Z.of_nat num, option_map Z.of_nat start)] else map enc pos) =
  map enc (Fb.push_run num start pos).
Proof.
  intros I. unfold Fb.push_run. destruct (Nat.ltb 1 num) eqn:E.
  - apply Nat.ltb_lt in E. destruct (I ltac:(lia)) as (s & ->). replace (Z.of_nat num >? 1) with true by lia.
    rewrite map_app. reflexivity.
  - apply Nat.ltb_ge in E. replace (Z.of_nat num >? 1) with false by lia. reflexivity.
Qed.

Lemma src_compact_loop1_ok : forall xs idx start num pos nt, inv start num ->
  exists start' num' pos', inv start' num' /\
    src_fbsocket__compact_ipv6_tokens_loop1 xs (Z.of_nat idx) (option_map Z.of_nat start) (Z.of_nat num) (map enc pos) nt =
      (option_map Z.of_nat start', Z.of_nat num', map enc pos', nt ++ xs) /\
    Fb.zero_runs (map is0 xs) idx start num pos = Fb.push_run num' start' pos'.
Proof.
  induction xs as [|t r IH]; intros idx start num pos nt I.
  - exists start, num, pos. split; [exact I|]. split; [|reflexivity]. cbn [src_fbsocket__compact_ipv6_tokens_loop1]. rewrite app_nil_r. reflexivity.
  - cbn [src_fbsocket__compact_ipv6_tokens_loop1 map Fb.zero_runs]. unfold is0 at 1. destruct (String.eqb t "0").
    + cbv zeta.
      destruct (IH (S idx) (match start with None => Some idx | Some s => Some s end) (S num) pos (nt ++ [t])) as (s' & n' & p' & I' & E1 & E2).
      { intros _. destruct start as [s|]; eexists; reflexivity. }
      exists s', n', p'. split; [exact I'|]. split; [|exact E2].
      replace (Z.of_nat idx + 1) with (Z.of_nat (S idx)) by lia. replace (Z.of_nat num + 1) with (Z.of_nat (S num)) by lia.
      replace (if match option_map Z.of_nat start with Some _ => false | None => true end then Some (Z.of_nat idx) else option_map Z.of_nat start)
        with (option_map Z.of_nat (match start with None => Some idx | Some s => Some s end)) by (destruct start; reflexivity).
      rewrite E1, <- app_assoc. reflexivity.
    + cbv zeta. destruct (IH (S idx) None 0%nat (Fb.push_run num start pos) (nt ++ [t])) as (s' & n' & p' & I' & E1 & E2).
      { intros C. inversion C. }
      exists s', n', p'. split; [exact I'|]. split; [|exact E2].
      replace (Z.of_nat idx + 1) with (Z.of_nat (S idx)) by lia. rewrite (push_run_enc num start pos I).
      change 0 with (Z.of_nat 0). change (@None Z) with (option_map Z.of_nat None). rewrite E1, <- app_assoc. reflexivity.
Qed.

(* ---------------------------------------------------------------- positions.sort(key=lambda x: x[1]) *)
Definition key1 (x : Z * option Z) : Z := match snd x with Some k => k | None => 0 end.

Lemma ins_asc_enc p : forall l, py_ins_asc key1 (enc p) (map enc l) = map enc (Fb.insert_by_start p l).
Proof.
  induction l as [|q r IH]; [reflexivity|]. cbn [map py_ins_asc Fb.insert_by_start].
  replace (key1 (enc p) <? key1 (enc q)) with (Nat.ltb (snd p) (snd q)).
  - destruct (Nat.ltb (snd p) (snd q)); [reflexivity|]. cbn [map]. rewrite IH. reflexivity.
  - unfold key1, enc. destruct p as [pa pb], q as [qa qb]. cbn [snd]. destruct (Nat.ltb pb qb) eqn:E; [apply Nat.ltb_lt in E|apply Nat.ltb_ge in E]; lia.
Qed.

Lemma sort_asc_enc_acc l : forall acc,
  fold_left (fun a x => py_ins_asc key1 x a) (map enc l) (map enc acc) = map enc (fold_left (fun a p => Fb.insert_by_start p a) l acc).
Proof. induction l as [|p r IH]; intros acc; [reflexivity|]. cbn [map fold_left]. rewrite ins_asc_enc. apply IH. Qed.

Lemma sort_optkey_enc l : py_sort_optkey (fun x => snd x) (map enc l) = Ok (map enc (Fb.sort_by_start l)).
Proof.
  unfold Fb.sort_by_start. destruct l as [|p [|q r]]; [reflexivity|reflexivity|].
  unfold py_sort_optkey. change (map enc (p :: q :: r)) with (enc p :: enc q :: map enc r).
  replace (forallb _ (enc p :: enc q :: map enc r)) with true.
  - unfold py_sort_asc. change (enc p :: enc q :: map enc r) with (map enc (p :: q :: r)).
    change (@nil (Z * option Z)) with (map enc []). change (fun x : Z * option Z => match snd x with Some k => k | None => 0 end) with key1.
    rewrite sort_asc_enc_acc. reflexivity.
  - symmetry. cbn [forallb enc snd andb]. induction r as [|x t IH]; [reflexivity|exact IH].
Qed.

Lemma insert_nonempty p l : Fb.insert_by_start p l <> [].
Proof. destruct l as [|q r]; cbn [Fb.insert_by_start]; [discriminate|]. destruct (Nat.ltb _ _); discriminate. Qed.

Lemma sort_nonempty l : l <> [] -> Fb.sort_by_start l <> [].
Proof.
  unfold Fb.sort_by_start. intros H. assert (G : forall l acc, acc <> [] -> fold_left (fun a p => Fb.insert_by_start p a) l acc <> []).
  { induction l0 as [|p r IH]; intros acc Ha; [exact Ha|]. cbn [fold_left]. apply IH, insert_nonempty. }
  destruct l as [|p r]; [contradiction|]. cbn [fold_left]. apply G, insert_nonempty.
Qed.

(* ---------------------------------------------------------------- the best-position loop *)
Lemma src_compact_loop2_ok : forall l best,
  src_fbsocket__compact_ipv6_tokens_loop2 (map enc l) (enc best) =
  enc (fold_left (fun b p => if Nat.ltb (fst b) (fst p) then p else b) l best).
Proof.
  induction l as [|p r IH]; intros best; [reflexivity|]. cbn [map src_fbsocket__compact_ipv6_tokens_loop2 fold_left]. cbv zeta.
  replace (fst (enc p) >? fst (enc best)) with (Nat.ltb (fst best) (fst p)).
  - destruct (Nat.ltb (fst best) (fst p)); apply IH.
  - unfold enc. destruct p as [pa pb], best as [ba bb]. cbn [fst]. destruct (Nat.ltb ba pa) eqn:E; [apply Nat.ltb_lt in E|apply Nat.ltb_ge in E]; lia.
Qed.

(* ---------------------------------------------------------------- slices *)
Lemma py_slice_firstn {A} k (l : list A) : py_slice (Some 0) (Some (Z.of_nat k)) l = firstn k l.
Proof.
  unfold py_slice, py_clamp. replace (0 <? 0) with false by reflexivity. replace (Z.of_nat k <? 0) with false by lia.
  rewrite (Z.min_l 0) by lia. cbn [Z.to_nat skipn]. rewrite Z.sub_0_r.
  destruct (Nat.le_gt_cases k (List.length l)) as [H|H].
  - rewrite (Z.min_l (Z.of_nat k)) by lia. rewrite Nat2Z.id. reflexivity.
  - rewrite (Z.min_r (Z.of_nat k)) by lia. rewrite Nat2Z.id. rewrite firstn_all. symmetry. apply firstn_all2. lia.
Qed.

Lemma py_slice_skipn {A} k (l : list A) : py_slice (Some (Z.of_nat k)) None l = skipn k l.
Proof.
  unfold py_slice, py_clamp. replace (Z.of_nat k <? 0) with false by lia.
  destruct (Nat.le_gt_cases k (List.length l)) as [H|H].
  - rewrite Z.min_l by lia. rewrite Nat2Z.id. apply firstn_all2. rewrite skipn_length. lia.
  - rewrite Z.min_r by lia. rewrite Nat2Z.id, Z.sub_diag. cbn [Z.to_nat firstn]. symmetry. apply skipn_all2. lia.
Qed.

(* ---------------------------------------------------------------- _compact_ipv6_tokens *)
Lemma seq_item0 {A} (x : A) r : py_seq_item 0%nat (x :: r) = Ok x.
Proof. reflexivity. Qed.

Lemma src_compact_ok tokens : src_fbsocket__compact_ipv6_tokens tokens = Ok (Fb.compact_ipv6_tokens tokens).
Proof.
  unfold src_fbsocket__compact_ipv6_tokens, Fb.compact_ipv6_tokens, Fb.chosen_run. cbv zeta.
  destruct (src_compact_loop1_ok tokens 0 None 0 [] [] ltac:(intros C; inversion C)) as (s' & n' & p' & I' & E1 & E2).
  change (Z.of_nat 0) with 0 in E1. change (option_map Z.of_nat None) with (@None Z) in E1. change (map enc []) with (@nil (Z * option Z)) in E1.
  rewrite E1. cbn [app]. rewrite (push_run_enc n' s' p' I').
  change (map (fun t => String.eqb t "0") tokens) with (map is0 tokens). rewrite E2.
  set (P := Fb.push_run n' s' p'). clearbody P. clear E1 E2 I' s' n' p'.
  rewrite map_length. destruct P as [|p0 P'].
  - reflexivity.
  - replace (Z.of_nat (List.length (p0 :: P')) =? 0) with false by (cbn [List.length]; lia). cbn [negb].
    rewrite sort_optkey_enc. cbn [bind]. pose proof (sort_nonempty (p0 :: P') ltac:(discriminate)) as NE.
    destruct (Fb.sort_by_start (p0 :: P')) as [|b S']; [contradiction|]. cbn [map]. rewrite seq_item0. cbn [bind].
    change (enc b :: map enc S') with (map enc (b :: S')). rewrite src_compact_loop2_ok.
    unfold Fb.pick_best. set (best := fold_left _ (b :: S') b). destruct best as [len st]. unfold enc. cbn [fst snd bind].
    rewrite py_slice_firstn. replace (Z.of_nat st + Z.of_nat len) with (Z.of_nat (st + len)) by lia. rewrite py_slice_skipn.
    rewrite <- app_assoc. cbn [app]. unfold Fb.starts_blank, Fb.ends_blank, py_insert0.
    set (t1 := firstn st tokens ++ ""%string :: skipn (st + len) tokens).
    assert (N1 : t1 <> []) by (subst t1; intros C; apply app_eq_nil in C; destruct C as [_ C]; discriminate).
    clearbody t1. destruct t1 as [|h r]; [contradiction|]. rewrite seq_item0. cbn [bind].
    set (t2 := if String.eqb h "" then ""%string :: h :: r else h :: r).
    assert (N2 : t2 <> []) by (subst t2; destruct (String.eqb h ""); discriminate).
    clearbody t2. destruct (exists_last N2) as (init & last & E). rewrite E, py_list_item_last. cbn [bind].
    rewrite rev_app_distr. cbn [rev app]. reflexivity.
Qed.

(* ---------------------------------------------------------------- inet_ntop *)
Lemma src_ntop_loop_ok : forall xs i acc, src_fbsocket_inet_ntop_loop1 xs i acc = Fb.or_words 16 xs i acc.
Proof. induction xs as [|w r IH]; intros i acc; [reflexivity|]. cbn [src_fbsocket_inet_ntop_loop1 Fb.or_words]. cbv zeta. apply IH. Qed.

Lemma pack_2H_ok a b :
  py_struct_pack [2%nat; 2%nat] [a; b] =
  (do a' <- Fb.pack_H a; do b' <- Fb.pack_H b; Ok [a' / 256; a' mod 256; b' / 256; b' mod 256]).
Proof.
  unfold py_struct_pack, Fb.pack_H. cbn [Codec.struct_pack]. change (256 ^ Z.of_nat 2) with 65536.
  replace (a <? 65536) with (a <=? 65535) by lia. replace (b <? 65536) with (b <=? 65535) by lia.
  destruct ((0 <=? a) && (a <=? 65535)) eqn:Ea; [|reflexivity]. destruct ((0 <=? b) && (b <=? 65535)) eqn:Eb; [|reflexivity].
  cbn [bind Codec.be_bytes app].
  rewrite (Z.mod_small (a / 256)) by (split; [apply Z.div_pos; lia|apply Z.div_lt_upper_bound; lia]).
  rewrite (Z.mod_small (b / 256)) by (split; [apply Z.div_pos; lia|apply Z.div_lt_upper_bound; lia]).
  reflexivity.
Qed.

Lemma src_inet_ntop6_ok p : List.length p = 16%nat -> src_fbsocket_inet_ntop 10 p = Fb.inet_ntop6 (py_words_of_bytes p).
Proof.
  intros L.
  destruct p as [|a1 [|b1 [|a2 [|b2 [|a3 [|b3 [|a4 [|b4 [|a5 [|b5 [|a6 [|b6 [|a7 [|b7 [|a8 [|b8 [|x r]]]]]]]]]]]]]]]]]; try discriminate.
  unfold src_fbsocket_inet_ntop, Fb.inet_ntop6. change (10 =? src_fbsocket_AF_INET) with false. change (10 =? src_fbsocket_AF_INET6) with true.
  cbv iota.
  change (py_struct_unpack [2%nat; 2%nat; 2%nat; 2%nat; 2%nat; 2%nat; 2%nat; 2%nat] [a1; b1; a2; b2; a3; b3; a4; b4; a5; b5; a6; b6; a7; b7; a8; b8])
    with (Ok (py_words_of_bytes [a1; b1; a2; b2; a3; b3; a4; b4; a5; b5; a6; b6; a7; b7; a8; b8]) : outcome (list Z)).
  cbn [py_words_of_bytes].
  set (w1 := a1 * 256 + b1). set (w2 := a2 * 256 + b2). set (w3 := a3 * 256 + b3). set (w4 := a4 * 256 + b4).
  set (w5 := a5 * 256 + b5). set (w6 := a6 * 256 + b6). set (w7 := a7 * 256 + b7). set (w8 := a8 * 256 + b8).
  clearbody w1 w2 w3 w4 w5 w6 w7 w8.
  cbn [List.length Z.of_nat Pos.of_succ_nat Pos.succ Z.eqb Pos.eqb negb orb Nat.eqb bind map]. cbv zeta.
  rewrite src_ntop_loop_ok.
  set (int_val := Fb.or_words 16 (rev [w1; w2; w3; w4; w5; w6; w7; w8]) 0 0). clearbody int_val.
  change (0xffff <? int_val) with (65535 <? int_val).
  destruct (((65535 <? int_val) && (int_val <=? 4294967295)) || (Z.shiftr int_val 32 =? 65535)).
  - change (py_slice (Some (- 2)) None [fmt_x w1; fmt_x w2; fmt_x w3; fmt_x w4; fmt_x w5; fmt_x w6; fmt_x w7; fmt_x w8]) with [fmt_x w7; fmt_x w8].
    change (py_slice (Some 0) (Some (- 2)) [fmt_x w1; fmt_x w2; fmt_x w3; fmt_x w4; fmt_x w5; fmt_x w6; fmt_x w7; fmt_x w8])
      with [fmt_x w1; fmt_x w2; fmt_x w3; fmt_x w4; fmt_x w5; fmt_x w6].
    cbn [skipn firstn py_map_o]. unfold py_int_base_o.
    destruct (py_int 16 (fmt_x w7)) as [a|]; [|reflexivity]. cbn [bind].
    destruct (py_int 16 (fmt_x w8)) as [b|]; [|reflexivity]. cbn [bind].
    rewrite pack_2H_ok. destruct (Fb.pack_H a) as [a'|e]; [|reflexivity]. cbn [bind].
    destruct (Fb.pack_H b) as [b'|e]; [|reflexivity]. cbn [bind]. rewrite src_inet_ntoa_ok.
    destruct (Fb.inet_ntoa [a' / 256; a' mod 256; b' / 256; b' mod 256]) as [s4|e]; [|reflexivity]. cbn [bind app].
    rewrite src_compact_ok. reflexivity.
  - cbn [bind]. rewrite src_compact_ok. reflexivity.
Qed.

Lemma src_inet_ntop_af_ok af p :
  src_fbsocket_inet_ntop af p =
  if af =? 2 then Fb.inet_ntoa p
  else if af =? 10 then (if Nat.eqb (List.length p) 16 then Fb.inet_ntop6 (py_words_of_bytes p) else Raise ValueError)
  else Raise ValueError.
Proof.
  case_eqb af 2; [subst af; apply src_inet_ntoa_ok|]. case_eqb af 10.
  - subst af. destruct (Nat.eqb (List.length p) 16) eqn:E; [apply src_inet_ntop6_ok, Nat.eqb_eq, E|].
    apply Nat.eqb_neq in E. unfold src_fbsocket_inet_ntop. change (10 =? src_fbsocket_AF_INET) with false.
    change (10 =? src_fbsocket_AF_INET6) with true. cbv iota.
    replace (Z.of_nat (List.length p) =? 16) with false by lia. reflexivity.
  - unfold src_fbsocket_inet_ntop. change src_fbsocket_AF_INET with 2. change src_fbsocket_AF_INET6 with 10.
    replace (af =? 2) with false by lia. replace (af =? 10) with false by lia. reflexivity.
Qed.

Lemma C01_tie_fb2_ok :
  (forall tokens, src_fbsocket__compact_ipv6_tokens tokens = Ok (Fb.compact_ipv6_tokens tokens)) /\
  (forall af p, src_fbsocket_inet_ntop af p =
     if af =? 2 then Fb.inet_ntoa p
     else if af =? 10 then (if Nat.eqb (List.length p) 16 then Fb.inet_ntop6 (py_words_of_bytes p) else Raise ValueError)
     else Raise ValueError).
Proof. split; [exact src_compact_ok|exact src_inet_ntop_af_ok]. Qed.
