(* Proofs/C01_V4.v — IPv4 text: fallback strict parser = standard strict parser (all strings); inet_aton reads
   every conventional spelling; ZEROFILL rewrite; colon-bearing text is never an IPv4 address. *)
From Coq Require Import String Ascii.
From NV Require Import Base.Tac Base.PyVal Base.Bits Base.PyStr Base.PyStrFacts Model.IpText Model.FbSocket Model.AddrText
  Proofs.C01_Chars Proofs.C01_V6 Proofs.C01_Value.
Open Scope Z_scope.

(* ================================================================ Fb.inet_pton4 = Std4.pton4 *)
Lemma map_out_map_opt' {A B C} (f : C -> outcome B) (g : A -> option B) (h : A -> C) l :
  (forall x, In x l -> f (h x) = of_option (g x)) -> Fb.map_out f (map h l) = of_option (map_opt g l).
Proof. induction l as [|x l IH]; intros H; [reflexivity|]. cbn [map Fb.map_out map_opt].
  rewrite H by (left; reflexivity). destruct (g x); cbn [of_option bind]; [|reflexivity].
  rewrite IH by (intros y Hy; apply H; now right). destruct (map_opt g l); reflexivity. Qed.

Lemma shiftr8_zero o : 0 <= o -> (Z.shiftr o 8 =? 0) = (o <=? 255).
Proof. intros Ho. rewrite Z.shiftr_div_pow2 by lia. change (2 ^ 8) with 256.
  case_leb o 255.
  - rewrite Z.div_small by lia. reflexivity.
  - assert (1 <= o / 256) by (apply Z.div_le_lower_bound; lia). lia. Qed.

Lemma forallb_dec_chars t : forallb (fun c => contains_char c Fb.dec_chars) t = forallb is_dec t.
Proof. induction t; cbn [forallb]; [reflexivity|]. now rewrite in_dec_chars, IHt. Qed.
Lemma forallb_hex_chars t : forallb (fun c => contains_char c Fb.hex_chars) t = forallb is_hex t.
Proof. induction t; cbn [forallb]; [reflexivity|]. now rewrite in_hex_chars, IHt. Qed.

Lemma py_int_dec_token t : t <> [] -> forallb is_dec t = true ->
  py_int 10 (str_of t) = Some (digits_value dec_digit 10 t) /\ 0 <= digits_value dec_digit 10 t.
Proof. intros Hne F. apply forallb_is_dec in F. unfold py_int. rewrite chars_str_of.
  rewrite py_int_chars_digits by assumption. rewrite digits_value_dec. split; [reflexivity|].
  apply from_digits_nonneg; [lia|]. now apply map_dval_range. Qed.

Lemma fb_octet_eq t : Fb.pton4_octet (str_of t) = of_option (Std4.octet t).
Proof. unfold Fb.pton4_octet, Std4.octet. unfold starts_with, str_len. rewrite chars_str_of, length_str_of.
  destruct t as [|c r]; [reflexivity|].
  change (chars "0x") with ["0"%char; "x"%char]. change (chars "0") with ["0"%char].
  cbn [starts_with_chars]. rewrite andb_true_r.
  rewrite forallb_dec_chars.
  destruct (ascii_eqb "0" c) eqn:E0.
  - (* leading '0' *)
    apply ascii_eqb_eq in E0. subst c. change (ascii_eqb "0"%char ch_0) with true.
    destruct r as [|d r'].
    + (* the single token "0" *) vm_compute. reflexivity.
    + cbn [is_nil negb andb List.length]. rewrite andb_false_r.
      assert (L : (1 <? Z.of_nat (S (S (List.length r')))) = true) by lia. rewrite L.
      cbn [andb]. rewrite orb_true_r. reflexivity.
  - assert (E0' : ascii_eqb c ch_0 = false) by (rewrite ascii_eqb_sym; exact E0). rewrite E0'.
    cbn [andb orb negb]. rewrite andb_true_r.
    assert (L1 : (1 <=? Z.of_nat (List.length (c :: r))) = true) by (cbn [List.length]; lia). rewrite L1. cbn [andb].
    destruct (Nat.leb (List.length (c :: r)) 3) eqn:L3.
    + assert (L3' : (Z.of_nat (List.length (c :: r)) <=? 3) = true) by (apply Nat.leb_le in L3; lia). rewrite L3'.
      cbn [negb]. destruct (forallb is_dec (c :: r)) eqn:F; cbn [negb andb]; [|reflexivity].
      destruct (py_int_dec_token (c :: r) ltac:(discriminate) F) as [P N]. rewrite P.
      rewrite shiftr8_zero by exact N. destruct (_ <=? 255); reflexivity.
    + assert (L3' : (Z.of_nat (List.length (c :: r)) <=? 3) = false) by (apply Nat.leb_gt in L3; lia). rewrite L3'.
      cbn [negb]. rewrite andb_false_r. reflexivity. Qed.

Theorem fb_pton4_eq s : Fb.inet_pton4 s = of_option (Std4.pton4 s).
Proof. unfold Fb.inet_pton4, Std4.pton4, Std4.pton4_chars, split. rewrite map_length.
  destruct (Nat.eqb _ 4); [|reflexivity].
  apply map_out_map_opt' with (h := str_of). intros t _. apply fb_octet_eq. Qed.

(* ================================================================ inet_aton *)
Definition stop (r : list ascii) : Prop :=
  match r with [] => True | d :: _ => d = ch_dot \/ Std4.is_c_space d = true end.

Lemma c_space_not_hex d : Std4.is_c_space d = true -> hex_digit d = None /\ ascii_eqb d ch_dot = false /\
  ascii_eqb d ch_x = false /\ ascii_eqb d ch_X = false.
Proof. destruct d as [[] [] [] [] [] [] [] []]; vm_compute; intros H; try discriminate; auto. Qed.

Lemma hex_none_others d : hex_digit d = None -> dec_digit d = None /\ oct_digit d = None.
Proof. destruct d as [[] [] [] [] [] [] [] []]; vm_compute; intros H; try discriminate; auto. Qed.

Lemma stop_no_digit r : stop r ->
  match r with [] => True | d :: _ => hex_digit d = None /\ dec_digit d = None /\ oct_digit d = None /\
                                      ascii_eqb d ch_x = false /\ ascii_eqb d ch_X = false end.
Proof. destruct r as [|d r']; [auto|]. intros [->|H].
  - vm_compute. auto.
  - destruct (c_space_not_hex d H) as (A & _ & C & E). destruct (hex_none_others d A). auto. Qed.

Lemma scan_base_digits tab base l r acc :
  Forall (fun c => tab c <> None) l -> match r with [] => True | d :: _ => tab d = None end ->
  Std4.scan_base tab base (l ++ r) acc =
  (fold_left (fun a c => a * base + match tab c with Some d => d | None => 0 end) l acc, r).
Proof. revert acc. induction l as [|c l IH]; intros acc HF Hr.
  - cbn [app fold_left]. destruct r as [|d r']; [reflexivity|]. cbn [Std4.scan_base]. now rewrite Hr.
  - inversion HF as [|? ? Hc HF']; subst. cbn [app Std4.scan_base fold_left].
    destruct (tab c) as [d|] eqn:E; [|congruence]. now apply IH. Qed.

(* a spelled part: starts with a decimal digit, and strtoul reads its value and stops right after it *)
Definition part_ok (t : list ascii) (x : Z) : Prop :=
  (exists c t', t = c :: t' /\ is_dec c = true) /\ 0 <= x /\
  forall r, stop r -> Std4.strtoul0 (t ++ r) = (x, r).

Lemma strtoul0_dec c l : ascii_eqb c ch_0 = false -> Std4.strtoul0 (c :: l) = Std4.scan_base dec_digit 10 (c :: l) 0.
Proof. intros H. unfold Std4.strtoul0. destruct l as [|x [|h r]]; rewrite ?H; cbn [andb]; reflexivity. Qed.

Lemma strtoul0_oct l : match l with x :: _ => ascii_eqb x ch_x = false /\ ascii_eqb x ch_X = false | [] => True end ->
  Std4.strtoul0 (ch_0 :: l) = Std4.scan_base oct_digit 8 (ch_0 :: l) 0.
Proof. intros H. unfold Std4.strtoul0. destruct l as [|x [|h r]]; try reflexivity.
  destruct H as [H1 H2]. rewrite H1, H2. rewrite andb_false_r. reflexivity. Qed.

Lemma forall_dec_tab l : forallb is_dec l = true -> Forall (fun c => dec_digit c <> None) l.
Proof. intros H. rewrite forallb_forall in H. apply Forall_forall. intros c Hc. specialize (H c Hc).
  unfold is_dec in H. destruct (dec_digit c); [discriminate|discriminate]. Qed.

(* decimal spelling: the digits printed by '%d' *)
Lemma part_ok_dec a : 0 <= a -> part_ok (D a) a.
Proof. intros Ha.
  assert (F : forallb is_dec (D a) = true) by (apply forallb_is_dec, fmt_d_digits; lia).
  split; [|split; [exact Ha|]].
  - destruct (D a) as [|c t'] eqn:E.
    + exfalso. unfold D in E. apply chars_nil_iff in E. now apply fmt_d_nonempty in E.
    + exists c, t'. split; [reflexivity|]. cbn [forallb] in F. now apply andb_true_iff in F.
  - intros r Hr. pose proof (stop_no_digit r Hr) as N.
    destruct (D_canonical a Ha) as [E|(c & t' & E & Hc)].
    + assert (a = 0) by (rewrite <- (D_value a) by lia; rewrite E; reflexivity). subst a. rewrite E.
      cbn [app]. rewrite strtoul0_oct by (destruct r; [exact I|tauto]).
      change (ch_0 :: r) with ([ch_0] ++ r). rewrite scan_base_digits; [reflexivity|repeat constructor; discriminate|].
      destruct r; [exact I|tauto].
    + rewrite E. cbn [app]. rewrite strtoul0_dec by exact Hc. change (c :: t' ++ r) with ((c :: t') ++ r).
      rewrite <- E. rewrite scan_base_digits; [|now apply forall_dec_tab|destruct r; [exact I|tauto]].
      f_equal. change (fold_left _ (D a) 0) with (digits_value dec_digit 10 (D a)).
      rewrite digits_value_dec. apply D_value. lia. Qed.

Lemma aton_step f t x rest parts : part_ok t x -> (List.length parts <= 2)%nat -> x <= 255 ->
  Std4.aton_loop (S f) (t ++ ch_dot :: rest) parts = Std4.aton_loop f rest (parts ++ [x]).
Proof. intros ((c & t' & -> & Hc) & Hx & P) HL H255. cbn [app Std4.aton_loop]. rewrite Hc. cbn [negb].
  change (c :: t' ++ ch_dot :: rest) with ((c :: t') ++ ch_dot :: rest). rewrite P by (left; reflexivity).
  assert (E1 : (4294967295 <? x) = false) by lia. rewrite E1.
  change (ascii_eqb ch_dot ch_dot) with true. cbn iota.
  assert (E2 : Nat.ltb 2 (List.length parts) = false) by (apply Nat.ltb_ge; lia). rewrite E2.
  assert (E3 : (255 <? x) = false) by lia. rewrite E3. reflexivity. Qed.

Lemma aton_last f t x parts r : part_ok t x -> match r with [] => True | d :: _ => Std4.is_c_space d = true end ->
  x <= Std4.last_max (List.length parts) ->
  Std4.aton_loop (S f) (t ++ r) parts = Some (parts, x).
Proof. intros ((c & t' & -> & Hc) & Hx & P) Hr HM. cbn [app Std4.aton_loop]. rewrite Hc. cbn [negb].
  change (c :: t' ++ r) with ((c :: t') ++ r). rewrite P by (destruct r; [exact I|right; exact Hr]).
  assert (LM : Std4.last_max (List.length parts) <= 4294967295) by (unfold Std4.last_max; destruct (List.length parts) as [|[|[|]]]; lia).
  assert (E1 : (4294967295 <? x) = false) by lia. rewrite E1.
  assert (E2 : (x <=? Std4.last_max (List.length parts)) = true) by lia.
  destruct r as [|d r']; [now rewrite E2|].
  destruct (c_space_not_hex d Hr) as (_ & Dd & _). rewrite Dd, Hr, E2. reflexivity. Qed.

Lemma no_nul_dec l : Forall (fun c => is_dec c = true \/ c = ch_dot) l -> existsb (ascii_eqb ch_nul) l = false.
Proof. induction 1 as [|c l Hc _ IH]; [reflexivity|]. cbn [existsb]. rewrite IH, orb_false_r.
  destruct Hc as [Hc| ->]; [|reflexivity]. destruct c as [[] [] [] [] [] [] [] []]; try discriminate Hc; reflexivity. Qed.

Lemma D_all_dec a : 0 <= a -> Forall (fun c => is_dec c = true \/ c = ch_dot) (D a).
Proof. intros Ha. assert (F : forallb is_dec (D a) = true) by (apply forallb_is_dec, fmt_d_digits; lia).
  rewrite forallb_forall in F. apply Forall_forall. intros c Hc. left. now apply F. Qed.

(* the printed dotted quad is read by inet_aton with its value *)
Theorem aton_ntoa a b c d : octetP a -> octetP b -> octetP c -> octetP d ->
  Std4.aton_chars (Std4.ntoa_chars [a; b; c; d]) = Some (((a * 256 + b) * 256 + c) * 256 + d).
Proof. unfold octetP. intros Ha Hb Hc Hd. unfold Std4.aton_chars. rewrite ntoa_chars_4.
  rewrite no_nul_dec.
  2:{ repeat (apply Forall_app; split; [apply D_all_dec; lia|]; constructor; [right; reflexivity|]).
      apply D_all_dec; lia. }
  rewrite (aton_step 3 (D a) a) by (try apply part_ok_dec; cbn; lia).
  rewrite (aton_step 2 (D b) b) by (try apply part_ok_dec; cbn; lia).
  rewrite (aton_step 1 (D c) c) by (try apply part_ok_dec; cbn; lia).
  rewrite <- (app_nil_r (D d)). rewrite (aton_last 0 (D d) d) by (try apply part_ok_dec; cbn; try lia; exact I).
  cbn [app Std4.parts_value]. f_equal. change (2 ^ 24) with 16777216. change (2 ^ (24 - 8)) with 65536.
  change (2 ^ (24 - 8 - 8)) with 256. lia. Qed.

(* ================================================================ colon-bearing text is not IPv4 *)
Lemma scan_base_suffix tab base h r acc : Forall (fun c => is_hex c = true) h -> tab ch_colon = None ->
  exists h', snd (Std4.scan_base tab base (h ++ ch_colon :: r) acc) = h' ++ ch_colon :: r /\ Forall (fun c => is_hex c = true) h'.
Proof. intros HF Ht. revert acc. induction HF as [|c h Hc HF IH]; intros acc.
  - exists []. cbn [app Std4.scan_base]. rewrite Ht. split; [reflexivity|constructor].
  - cbn [app Std4.scan_base]. destruct (tab c).
    + apply IH.
    + exists (c :: h). split; [reflexivity|now constructor]. Qed.

Lemma hex_not_x c : is_hex c = true -> ascii_eqb c ch_x = false /\ ascii_eqb c ch_X = false /\
  ascii_eqb c ch_dot = false /\ Std4.is_c_space c = false.
Proof. destruct c as [[] [] [] [] [] [] [] []]; vm_compute; intros H; try discriminate; auto. Qed.

Lemma strtoul0_suffix h r : Forall (fun c => is_hex c = true) h ->
  exists h', snd (Std4.strtoul0 (h ++ ch_colon :: r)) = h' ++ ch_colon :: r /\ Forall (fun c => is_hex c = true) h'.
Proof. intros HF. unfold Std4.strtoul0.
  destruct h as [|z h1].
  - cbn [app]. destruct r as [|x [|y r']]; cbn [andb]; change (ascii_eqb ch_colon ch_0) with false; cbn [andb];
      apply (scan_base_suffix _ _ [] _ 0); auto.
  - inversion HF as [|? ? Hz HF1]; subst. cbn [app].
    destruct h1 as [|x h2].
    + cbn [app]. destruct r as [|y r'].
      * destruct (ascii_eqb z ch_0); apply (scan_base_suffix _ _ [z] [] 0); auto.
      * change (ascii_eqb ch_colon ch_x) with false. change (ascii_eqb ch_colon ch_X) with false.
        cbn [orb andb]. rewrite andb_false_r. cbn [andb].
        destruct (ascii_eqb z ch_0); apply (scan_base_suffix _ _ [z] (y :: r') 0); auto.
    + inversion HF1 as [|? ? Hx HF2]; subst. destruct (hex_not_x x Hx) as (X1 & X2 & _).
      cbn [app]. destruct (h2 ++ ch_colon :: r) as [|y q] eqn:E; [destruct h2; discriminate|].
      rewrite X1, X2. cbn [orb andb]. rewrite andb_false_r. cbn [andb]. rewrite <- E.
      destruct (ascii_eqb z ch_0); apply (scan_base_suffix _ _ (z :: x :: h2) r 0); auto. Qed.

Theorem aton_colon h r : Forall (fun c => is_hex c = true) h -> Std4.aton_chars (h ++ ch_colon :: r) = None.
Proof. intros HF. unfold Std4.aton_chars. destruct (existsb _ _); [reflexivity|].
  assert (E : Std4.aton_loop 4 (h ++ ch_colon :: r) [] = None); [|now rewrite E].
  cbn [Std4.aton_loop].
  destruct (h ++ ch_colon :: r) as [|c q] eqn:L; [reflexivity|].
  destruct (is_dec c); cbn [negb]; [|reflexivity].
  destruct (strtoul0_suffix h r HF) as (h' & S & HF'). rewrite L in S.
  destruct (Std4.strtoul0 (c :: q)) as [val rest]. cbn [snd] in S. subst rest.
  destruct (4294967295 <? val); [reflexivity|].
  destruct h' as [|d h''].
  - cbn [app]. change (ascii_eqb ch_colon ch_dot) with false. change (Std4.is_c_space ch_colon) with false. reflexivity.
  - inversion HF' as [|? ? Hd _]; subst. destruct (hex_not_x d Hd) as (_ & _ & D1 & D2). cbn [app]. now rewrite D1, D2. Qed.

Lemma In_join_chars c sep toks : In c (join_chars sep toks) -> In c sep \/ exists t, In t toks /\ In c t.
Proof. induction toks as [|t r IH]; [intros []|]. destruct r as [|u r'].
  - cbn [join_chars]. intros H. right. exists t. split; [now left|exact H].
  - change (join_chars sep (t :: u :: r')) with (t ++ sep ++ join_chars sep (u :: r')).
    intros H. apply in_app_or in H. destruct H as [H|H]; [right; exists t; split; [now left|exact H]|].
    apply in_app_or in H. destruct H as [H|H]; [now left|].
    destruct (IH H) as [?|(t0 & Ht0 & Hc)]; [now left|]. right. exists t0. split; [now right|exact Hc]. Qed.

Lemma map_opt_none {A B} (f : A -> option B) l x : In x l -> f x = None -> map_opt f l = None.
Proof. induction l as [|y l IH]; [intros []|]. intros [->|H] Hx; cbn [map_opt].
  - now rewrite Hx.
  - destruct (f y); [|reflexivity]. now rewrite IH. Qed.

Theorem pton4_colon l : In ch_colon l -> Std4.pton4_chars l = None.
Proof. intros H. unfold Std4.pton4_chars. destruct (Nat.eqb _ 4); [|reflexivity].
  pose proof (join_chars_split_chars ch_dot l []) as E. cbn [rev app] in E. rewrite <- E in H.
  apply In_join_chars in H. destruct H as [[H|[]]|(t & Ht & Hc)]; [discriminate H|].
  apply (map_opt_none _ _ t Ht). unfold Std4.octet. destruct t as [|c r]; [reflexivity|].
  assert (F : forallb is_dec (c :: r) = false).
  { destruct (forallb is_dec (c :: r)) eqn:F; [|reflexivity]. rewrite forallb_forall in F. specialize (F _ Hc). discriminate F. }
  now rewrite F. Qed.

(* ================================================================ ZEROFILL rewrite *)
Lemma zerofill_rewrite_padded k1 k2 k3 k4 a b c d : 0 <= a -> 0 <= b -> 0 <= c -> 0 <= d ->
  zerofill_rewrite (join "." [fmt_d_pad k1 a; fmt_d_pad k2 b; fmt_d_pad k3 c; fmt_d_pad k4 d]) = Ok (Std4.ntoa [a; b; c; d]).
Proof. intros Ha Hb Hc Hd. unfold zerofill_rewrite.
  rewrite split_join; [|discriminate|repeat constructor; apply fmt_d_pad_no_char; auto].
  cbn [Fb.map_out]. rewrite !py_int_fmt_d_pad by assumption. cbn [bind]. reflexivity. Qed.

Lemma ntoa_as_join a b c d : Std4.ntoa [a; b; c; d] = join "." [fmt_d a; fmt_d b; fmt_d c; fmt_d d].
Proof. reflexivity. Qed.

Lemma zerofill_rewrite_ntoa a b c d : 0 <= a -> 0 <= b -> 0 <= c -> 0 <= d ->
  zerofill_rewrite (Std4.ntoa [a; b; c; d]) = Ok (Std4.ntoa [a; b; c; d]).
Proof. intros. rewrite ntoa_as_join at 1. rewrite <- (fmt_d_pad_small 0 a), <- (fmt_d_pad_small 0 b),
  <- (fmt_d_pad_small 0 c), <- (fmt_d_pad_small 0 d) by lia. now apply zerofill_rewrite_padded. Qed.
