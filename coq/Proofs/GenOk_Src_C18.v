(* Proofs/GenOk_Src_C18.v — source tie for C18: the definitions regenerated from the text of the classification predicates
   BaseIP.is_multicast / is_unicast / is_loopback / is_link_local / is_private / is_reserved, one copy per receiver class
   IPAddress / IPNetwork / IPRange (Gen/pysrc_classify_gen.v: the `self._module == _ipv4` / `self._module.version == 4`
   dispatch, `self in TABLE` as the translated __contains__ of the table row's class, the `for cidr in TABLE: if self in cidr:
   return True` loops with their `return` inside, the truth value of a predicate that may fall off its end,
   `not self.is_multicast()`) equal the hand-written model of Model/Classify.v instantiated with the regenerated tables
   (Model/ClassifyGen.v gen_tables), which is what the theorems of Props/C18.v are about.
   The block tables themselves are DATA: their values are re-extracted on every run by harness/gen/classify.py
   (Gen/classify_gen.v) and both sides read the same rows; what is tied here is the code of the predicates.
   The generated definitions live in `outcome`: the translated IPRange.__contains__ carries CPython's negative-shift
   ValueError for a network operand.  Hypothesis, IPNetwork receiver only: prefixlen <= width (part of wf_obj); under it the
   predicates never raise.  None for IPAddress and IPRange receivers. *)
From NV Require Import Base.Tac Base.PyVal Model.Ip Model.Classify Model.ClassifyGen Model.SrcPrelude
  Gen.classify_gen Gen.pysrc_gen Gen.pysrc_classify_gen.
Import ListNotations.
Open Scope Z_scope.

Notation GT := gen_tables.

(* the receiver as the operand of `self in T` *)
Definition operand_of (o : ipobj) : operand :=
  match o with
  | Classify.OAddr ver v => SrcPrelude.OAddr ver v
  | Classify.ONet ver v p => SrcPrelude.ONet ver v p
  | Classify.ORange ver s e => SrcPrelude.ORng ver s e
  end.
(* the shift count width - prefixlen of a network receiver is not negative *)
Definition shift_ok (o : ipobj) : Prop := match o with Classify.ONet ver _ p => p <= width ver | _ => True end.

(* `self in T` for a table row T *)
Lemma src_contains_row_ok r o : shift_ok o -> src_contains_row r (operand_of o) = Ok (contains_row r o).
Proof.
  intros H. destruct r as [[[k rv] a] b]. unfold src_contains_row, contains_row.
  destruct (k =? 0).
  - unfold src_IPNetwork_contains, net_contains.
    destruct o as [ver v|ver v p|ver s e]; cbn [operand_of over]; destruct (negb (rv =? ver)); reflexivity.
  - unfold src_IPRange_contains, range_contains.
    destruct o as [ver v|ver v p|ver s e]; cbn [operand_of over shift_ok] in *; destruct (negb (rv =? ver)); try reflexivity.
    cbv zeta. replace (width ver - p <? 0) with false by lia. reflexivity.
Qed.

Definition scan_answer (b : bool) : bool + unit := if b then inl true else inr tt.

(* one receiver class at a time: `o` is the receiver, the generated functions are given applied to the receiver's state *)
Section Receiver.
  Variable o : ipobj.
  Hypothesis Ho : shift_ok o.
  Variables (f_multicast f_loopback f_link_local : outcome (option bool)) (f_unicast f_private f_reserved : outcome bool).
  Variables (l_private1 l_private2 l_reserved1 l_reserved2 : list (Z * Z * Z * Z) -> outcome (bool + unit)).

  (* the shapes of the generated definitions (each is checked by reflexivity for the three receivers below) *)
  Definition shape_opt (f : outcome (option bool)) (c4 c6 : bool) (t4 t6 : Z * Z * Z * Z) : Prop :=
    f = if c4 then omap Some (src_contains_row t4 (operand_of o))
        else if c6 then omap Some (src_contains_row t6 (operand_of o)) else Ok None.
  Definition shape_loop (l : list (Z * Z * Z * Z) -> outcome (bool + unit)) : Prop :=
    forall xs, l xs = match xs with
                      | [] => Ok (inr tt)
                      | cidr :: xs' => do h <- src_contains_row cidr (operand_of o); if h then Ok (inl true) else l xs'
                      end.

  Lemma opt_ok f c4 c6 t4 t6 : shape_opt f c4 c6 t4 t6 ->
    f = Ok (if c4 then Some (contains_row t4 o) else if c6 then Some (contains_row t6 o) else None).
  Proof. unfold shape_opt. intros ->. rewrite !src_contains_row_ok by exact Ho. destruct c4; [reflexivity|]. destruct c6; reflexivity. Qed.

  Lemma loop_ok l : shape_loop l -> forall xs, l xs = Ok (scan_answer (scan o xs)).
  Proof.
    intros S. induction xs as [|c r IH]; rewrite S; [reflexivity|]. cbn [scan]. rewrite src_contains_row_ok by exact Ho. cbn [bind].
    destruct (contains_row c o); [reflexivity|exact IH].
  Qed.
End Receiver.

(* the six predicates of one receiver from the shapes of their generated definitions *)
Lemma preds_ok o (Ho : shift_ok o) f_multicast f_unicast f_loopback f_link_local f_private f_reserved lp1 lp2 lr1 lr2 :
  shape_opt o f_multicast (over o =? 4) (over o =? 6) IPV4_MULTICAST IPV6_MULTICAST ->
  f_unicast = (do h <- f_multicast; Ok (negb (py_truthy h))) ->
  shape_opt o f_loopback (over o =? 4) (over o =? 6) IPV4_LOOPBACK IPV6_LOOPBACK ->
  shape_opt o f_link_local (over o =? 4) (over o =? 6) IPV4_LINK_LOCAL IPV6_LINK_LOCAL ->
  shape_loop o lp1 -> shape_loop o lp2 -> shape_loop o lr1 -> shape_loop o lr2 ->
  (let tail := (do h <- f_link_local; if py_truthy h then Ok true else Ok false) in
   f_private = if over o =? 4 then (do h <- lp1 IPV4_PRIVATE; match h with inl r => Ok r | inr _ => tail end)
               else if over o =? 6 then (do h <- lp2 IPV6_PRIVATE; match h with inl r => Ok r | inr _ => tail end)
               else tail) ->
  f_reserved = (if over o =? 4 then (do h <- lr1 IPV4_RESERVED; match h with inl r => Ok r | inr _ => Ok false end)
                else if over o =? 6 then (do h <- lr2 IPV6_RESERVED; match h with inl r => Ok r | inr _ => Ok false end)
                else Ok false) ->
  f_multicast = Ok (is_multicast GT o) /\ f_unicast = Ok (is_unicast GT o) /\ f_loopback = Ok (is_loopback GT o) /\
  f_link_local = Ok (is_link_local GT o) /\ f_private = Ok (is_private GT o) /\ f_reserved = Ok (is_reserved GT o).
Proof.
  intros Sm Su Sl Sll L1 L2 L3 L4 Sp Sr.
  pose proof (opt_ok o Ho _ _ _ _ _ Sm) as Em. pose proof (opt_ok o Ho _ _ _ _ _ Sl) as El. pose proof (opt_ok o Ho _ _ _ _ _ Sll) as Ell.
  assert (Em': f_multicast = Ok (is_multicast GT o)) by exact Em.
  assert (El': f_loopback = Ok (is_loopback GT o)) by exact El.
  assert (Ell': f_link_local = Ok (is_link_local GT o)) by exact Ell.
  split; [exact Em'|]. split; [rewrite Su, Em'; reflexivity|]. split; [exact El'|]. split; [exact Ell'|]. split.
  - cbv zeta in Sp. rewrite Sp, (loop_ok o Ho lp1 L1), (loop_ok o Ho lp2 L2), Ell'. cbn [bind]. unfold is_private.
    change (py_truthy (is_link_local GT o)) with (truthy (is_link_local GT o)). cbn [t_private4 t_private6 gen_tables].
    destruct (over o =? 4).
    + destruct (scan o IPV4_PRIVATE); cbn [scan_answer]; [reflexivity|]. destruct (truthy _); reflexivity.
    + destruct (over o =? 6).
      * destruct (scan o IPV6_PRIVATE); cbn [scan_answer]; [reflexivity|]. destruct (truthy _); reflexivity.
      * destruct (truthy _); reflexivity.
  - rewrite Sr, (loop_ok o Ho lr1 L3), (loop_ok o Ho lr2 L4). cbn [bind]. unfold is_reserved. cbn [t_reserved4 t_reserved6 gen_tables].
    destruct (over o =? 4).
    + destruct (scan o IPV4_RESERVED); reflexivity.
    + destruct (over o =? 6); [|reflexivity]. destruct (scan o IPV6_RESERVED); reflexivity.
Qed.

Ltac shapes := repeat first [reflexivity | intros xs; destruct xs; reflexivity].

Lemma src_addr_preds_ok ver w v :
  src_IPAddress_is_multicast ver w v = Ok (is_multicast GT (Classify.OAddr ver v)) /\
  src_IPAddress_is_unicast ver w v = Ok (is_unicast GT (Classify.OAddr ver v)) /\
  src_IPAddress_is_loopback ver w v = Ok (is_loopback GT (Classify.OAddr ver v)) /\
  src_IPAddress_is_link_local ver w v = Ok (is_link_local GT (Classify.OAddr ver v)) /\
  src_IPAddress_is_private ver w v = Ok (is_private GT (Classify.OAddr ver v)) /\
  src_IPAddress_is_reserved ver w v = Ok (is_reserved GT (Classify.OAddr ver v)).
Proof.
  apply (preds_ok (Classify.OAddr ver v) I _ _ _ _ _ _
           (src_IPAddress_is_private_loop1 ver w v) (src_IPAddress_is_private_loop2 ver w v)
           (src_IPAddress_is_reserved_loop1 ver w v) (src_IPAddress_is_reserved_loop2 ver w v)); shapes.
Qed.

Lemma src_net_preds_ok ver w v p : p <= width ver ->
  src_IPNetwork_is_multicast ver w v p = Ok (is_multicast GT (Classify.ONet ver v p)) /\
  src_IPNetwork_is_unicast ver w v p = Ok (is_unicast GT (Classify.ONet ver v p)) /\
  src_IPNetwork_is_loopback ver w v p = Ok (is_loopback GT (Classify.ONet ver v p)) /\
  src_IPNetwork_is_link_local ver w v p = Ok (is_link_local GT (Classify.ONet ver v p)) /\
  src_IPNetwork_is_private ver w v p = Ok (is_private GT (Classify.ONet ver v p)) /\
  src_IPNetwork_is_reserved ver w v p = Ok (is_reserved GT (Classify.ONet ver v p)).
Proof.
  intros H.
  apply (preds_ok (Classify.ONet ver v p) H _ _ _ _ _ _
           (src_IPNetwork_is_private_loop1 ver w v p) (src_IPNetwork_is_private_loop2 ver w v p)
           (src_IPNetwork_is_reserved_loop1 ver w v p) (src_IPNetwork_is_reserved_loop2 ver w v p)); shapes.
Qed.

Lemma src_range_preds_ok ver w s e :
  src_IPRange_is_multicast ver w s e = Ok (is_multicast GT (Classify.ORange ver s e)) /\
  src_IPRange_is_unicast ver w s e = Ok (is_unicast GT (Classify.ORange ver s e)) /\
  src_IPRange_is_loopback ver w s e = Ok (is_loopback GT (Classify.ORange ver s e)) /\
  src_IPRange_is_link_local ver w s e = Ok (is_link_local GT (Classify.ORange ver s e)) /\
  src_IPRange_is_private ver w s e = Ok (is_private GT (Classify.ORange ver s e)) /\
  src_IPRange_is_reserved ver w s e = Ok (is_reserved GT (Classify.ORange ver s e)).
Proof.
  apply (preds_ok (Classify.ORange ver s e) I _ _ _ _ _ _
           (src_IPRange_is_private_loop1 ver w s e) (src_IPRange_is_private_loop2 ver w s e)
           (src_IPRange_is_reserved_loop1 ver w s e) (src_IPRange_is_reserved_loop2 ver w s e)); shapes.
Qed.

(* everything the C18 source tie states (Props/C18_src.v) *)
Lemma C18_tie_ok :
  (forall ver w v,
     src_IPAddress_is_multicast ver w v = Ok (is_multicast GT (Classify.OAddr ver v)) /\
     src_IPAddress_is_unicast ver w v = Ok (is_unicast GT (Classify.OAddr ver v)) /\
     src_IPAddress_is_loopback ver w v = Ok (is_loopback GT (Classify.OAddr ver v)) /\
     src_IPAddress_is_link_local ver w v = Ok (is_link_local GT (Classify.OAddr ver v)) /\
     src_IPAddress_is_private ver w v = Ok (is_private GT (Classify.OAddr ver v)) /\
     src_IPAddress_is_reserved ver w v = Ok (is_reserved GT (Classify.OAddr ver v))) /\
  (forall ver w v p, p <= width ver ->
     src_IPNetwork_is_multicast ver w v p = Ok (is_multicast GT (Classify.ONet ver v p)) /\
     src_IPNetwork_is_unicast ver w v p = Ok (is_unicast GT (Classify.ONet ver v p)) /\
     src_IPNetwork_is_loopback ver w v p = Ok (is_loopback GT (Classify.ONet ver v p)) /\
     src_IPNetwork_is_link_local ver w v p = Ok (is_link_local GT (Classify.ONet ver v p)) /\
     src_IPNetwork_is_private ver w v p = Ok (is_private GT (Classify.ONet ver v p)) /\
     src_IPNetwork_is_reserved ver w v p = Ok (is_reserved GT (Classify.ONet ver v p))) /\
  (forall ver w s e,
     src_IPRange_is_multicast ver w s e = Ok (is_multicast GT (Classify.ORange ver s e)) /\
     src_IPRange_is_unicast ver w s e = Ok (is_unicast GT (Classify.ORange ver s e)) /\
     src_IPRange_is_loopback ver w s e = Ok (is_loopback GT (Classify.ORange ver s e)) /\
     src_IPRange_is_link_local ver w s e = Ok (is_link_local GT (Classify.ORange ver s e)) /\
     src_IPRange_is_private ver w s e = Ok (is_private GT (Classify.ORange ver s e)) /\
     src_IPRange_is_reserved ver w s e = Ok (is_reserved GT (Classify.ORange ver s e))) /\
  (forall r o, match o with Classify.ONet ver _ p => p <= width ver | _ => True end ->
     src_contains_row r (match o with
                         | Classify.OAddr ver v => SrcPrelude.OAddr ver v
                         | Classify.ONet ver v p => SrcPrelude.ONet ver v p
                         | Classify.ORange ver s e => SrcPrelude.ORng ver s e
                         end) = Ok (contains_row r o)).
Proof.
  split; [exact src_addr_preds_ok|]. split; [exact src_net_preds_ok|]. split; [exact src_range_preds_ok|exact src_contains_row_ok].
Qed.
