(* Proofs/GenOk_Src_C18.v — source tie for C18: the definitions regenerated from the text of the classification predicates
   BaseIP.is_multicast / is_unicast / is_loopback / is_link_local / is_private / is_reserved for an IPAddress receiver
   (Gen/pysrc_classify_gen.v: the `self._module == _ipv4` / `self._module.version == 4` dispatch, `self in TABLE` as the
   translated __contains__ of the table row's class, the `for cidr in TABLE: if self in cidr: return True` loops with their
   `return` inside, the truth value of a predicate that may fall off its end, `not self.is_multicast()`) equal the
   hand-written model of Model/Classify.v instantiated with the regenerated tables (Model/ClassifyGen.v gen_tables), which
   is what the theorems of Props/C18.v are about.
   The block tables themselves are DATA: their values are re-extracted on every run by harness/gen/classify.py
   (Gen/classify_gen.v) and both sides read the same rows; what is tied here is the code of the predicates.
   The generated definitions live in `outcome` (the translated IPRange.__contains__ can raise for a network operand); for an
   address receiver they never raise.  No hypothesis. *)
From NV Require Import Base.Tac Base.PyVal Model.Ip Model.Classify Model.ClassifyGen Model.SrcPrelude
  Gen.classify_gen Gen.pysrc_gen Gen.pysrc_classify_gen.
Import ListNotations.
Open Scope Z_scope.

Notation GT := gen_tables.
Notation addr ver v := (Classify.OAddr ver v).

(* `self in T` for a table row T and an address self *)
Lemma src_contains_row_ok r ver v : src_contains_row r (SrcPrelude.OAddr ver v) = Ok (contains_row r (addr ver v)).
Proof.
  destruct r as [[[k rv] a] b]. unfold src_contains_row, contains_row.
  destruct (k =? 0).
  - unfold src_IPNetwork_contains, net_contains. cbn [over]. destruct (negb (rv =? ver)); reflexivity.
  - unfold src_IPRange_contains, range_contains. cbn [over]. destruct (negb (rv =? ver)); reflexivity.
Qed.

Lemma src_is_multicast_ok ver w v : src_IPAddress_is_multicast ver w v = Ok (is_multicast GT (addr ver v)).
Proof.
  unfold src_IPAddress_is_multicast, is_multicast, src_ipv4_version, src_ipv6_version. cbn [over]. rewrite !src_contains_row_ok.
  destruct (ver =? 4); [reflexivity|]. destruct (ver =? 6); reflexivity.
Qed.

Lemma src_is_unicast_ok ver w v : src_IPAddress_is_unicast ver w v = Ok (is_unicast GT (addr ver v)).
Proof. unfold src_IPAddress_is_unicast, is_unicast. rewrite src_is_multicast_ok. reflexivity. Qed.

Lemma src_is_loopback_ok ver w v : src_IPAddress_is_loopback ver w v = Ok (is_loopback GT (addr ver v)).
Proof.
  unfold src_IPAddress_is_loopback, is_loopback. cbn [over]. rewrite !src_contains_row_ok.
  destruct (ver =? 4); [reflexivity|]. destruct (ver =? 6); reflexivity.
Qed.

Lemma src_is_link_local_ok ver w v : src_IPAddress_is_link_local ver w v = Ok (is_link_local GT (addr ver v)).
Proof.
  unfold src_IPAddress_is_link_local, is_link_local. cbn [over]. rewrite !src_contains_row_ok.
  destruct (ver =? 4); [reflexivity|]. destruct (ver =? 6); reflexivity.
Qed.

(* `for cidr in TABLE: if self in cidr: return True` = scan (inl true: returned from inside; inr tt: fell off the loop) *)
Definition scan_answer (b : bool) : bool + unit := if b then inl true else inr tt.

Lemma src_private_loop1_ok ver w v xs : src_IPAddress_is_private_loop1 ver w v xs = Ok (scan_answer (scan (addr ver v) xs)).
Proof.
  induction xs as [|c r IH]; [reflexivity|]. cbn [src_IPAddress_is_private_loop1 scan]. rewrite src_contains_row_ok. cbn [bind].
  destruct (contains_row c (addr ver v)); [reflexivity|exact IH].
Qed.
Lemma src_private_loop2_ok ver w v xs : src_IPAddress_is_private_loop2 ver w v xs = Ok (scan_answer (scan (addr ver v) xs)).
Proof.
  induction xs as [|c r IH]; [reflexivity|]. cbn [src_IPAddress_is_private_loop2 scan]. rewrite src_contains_row_ok. cbn [bind].
  destruct (contains_row c (addr ver v)); [reflexivity|exact IH].
Qed.
Lemma src_reserved_loop1_ok ver w v xs : src_IPAddress_is_reserved_loop1 ver w v xs = Ok (scan_answer (scan (addr ver v) xs)).
Proof.
  induction xs as [|c r IH]; [reflexivity|]. cbn [src_IPAddress_is_reserved_loop1 scan]. rewrite src_contains_row_ok. cbn [bind].
  destruct (contains_row c (addr ver v)); [reflexivity|exact IH].
Qed.
Lemma src_reserved_loop2_ok ver w v xs : src_IPAddress_is_reserved_loop2 ver w v xs = Ok (scan_answer (scan (addr ver v) xs)).
Proof.
  induction xs as [|c r IH]; [reflexivity|]. cbn [src_IPAddress_is_reserved_loop2 scan]. rewrite src_contains_row_ok. cbn [bind].
  destruct (contains_row c (addr ver v)); [reflexivity|exact IH].
Qed.

Lemma py_truthy_truthy o : py_truthy o = truthy o.
Proof. reflexivity. Qed.

Lemma src_is_private_ok ver w v : src_IPAddress_is_private ver w v = Ok (is_private GT (addr ver v)).
Proof.
  unfold src_IPAddress_is_private, is_private. cbn [over]. rewrite src_private_loop1_ok, src_private_loop2_ok, !src_is_link_local_ok.
  cbn [bind t_private4 t_private6 gen_tables]. rewrite py_truthy_truthy.
  destruct (ver =? 4).
  - destruct (scan (addr ver v) IPV4_PRIVATE); cbn [scan_answer]; [reflexivity|]. destruct (truthy _); reflexivity.
  - destruct (ver =? 6).
    + destruct (scan (addr ver v) IPV6_PRIVATE); cbn [scan_answer]; [reflexivity|]. destruct (truthy _); reflexivity.
    + destruct (truthy _); reflexivity.
Qed.

Lemma src_is_reserved_ok ver w v : src_IPAddress_is_reserved ver w v = Ok (is_reserved GT (addr ver v)).
Proof.
  unfold src_IPAddress_is_reserved, is_reserved. cbn [over]. rewrite src_reserved_loop1_ok, src_reserved_loop2_ok.
  cbn [bind t_reserved4 t_reserved6 gen_tables].
  destruct (ver =? 4).
  - destruct (scan (addr ver v) IPV4_RESERVED); reflexivity.
  - destruct (ver =? 6); [|reflexivity]. destruct (scan (addr ver v) IPV6_RESERVED); reflexivity.
Qed.

(* everything the C18 source tie states (Props/C18_src.v) *)
Lemma C18_tie_ok :
  (forall ver w v,
     src_IPAddress_is_multicast ver w v = Ok (is_multicast GT (addr ver v)) /\
     src_IPAddress_is_unicast ver w v = Ok (is_unicast GT (addr ver v)) /\
     src_IPAddress_is_loopback ver w v = Ok (is_loopback GT (addr ver v)) /\
     src_IPAddress_is_link_local ver w v = Ok (is_link_local GT (addr ver v)) /\
     src_IPAddress_is_private ver w v = Ok (is_private GT (addr ver v)) /\
     src_IPAddress_is_reserved ver w v = Ok (is_reserved GT (addr ver v))) /\
  (forall r ver v, src_contains_row r (SrcPrelude.OAddr ver v) = Ok (contains_row r (addr ver v))) /\
  (forall ver w v xs,
     src_IPAddress_is_private_loop1 ver w v xs = Ok (if scan (addr ver v) xs then inl true else inr tt) /\
     src_IPAddress_is_private_loop2 ver w v xs = Ok (if scan (addr ver v) xs then inl true else inr tt) /\
     src_IPAddress_is_reserved_loop1 ver w v xs = Ok (if scan (addr ver v) xs then inl true else inr tt) /\
     src_IPAddress_is_reserved_loop2 ver w v xs = Ok (if scan (addr ver v) xs then inl true else inr tt)).
Proof.
  split.
  { intros ver w v. split; [apply src_is_multicast_ok|]. split; [apply src_is_unicast_ok|]. split; [apply src_is_loopback_ok|].
    split; [apply src_is_link_local_ok|]. split; [apply src_is_private_ok|apply src_is_reserved_ok]. }
  split; [exact src_contains_row_ok|]. intros ver w v xs.
  split; [apply src_private_loop1_ok|]. split; [apply src_private_loop2_ok|]. split; [apply src_reserved_loop1_ok|apply src_reserved_loop2_ok].
Qed.
