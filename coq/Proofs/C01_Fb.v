(* Proofs/C01_Fb.v — the pure-Python fallback prints exactly what the platform prints (C01_fb_print). *)
From Coq Require Import String Ascii.
From NV Require Import Base.Tac Base.PyVal Base.Bits Base.PyStr Base.PyStrFacts Model.IpText Model.FbSocket Model.AddrText
  Proofs.C01_Chars Proofs.C01_V6 Proofs.C01_Value Proofs.C01_V4.
Open Scope Z_scope.

(* ---------------------------------------------------------------- inet_ntoa *)
Theorem fb_ntoa_eq a b c d : Fb.inet_ntoa [a; b; c; d] = Ok (Std4.ntoa [a; b; c; d]).
Proof. unfold Fb.inet_ntoa. f_equal. unfold Std4.ntoa. rewrite ntoa_chars_4. unfold D.
  rewrite !str_of_app_cons, !str_of_chars. reflexivity. Qed.

(* ---------------------------------------------------------------- int_val *)
Lemma or_words_add bits ws i acc : 0 < bits -> 0 <= i -> 0 <= acc < 2 ^ (bits * i) ->
  Forall (fun w => 0 <= w < 2 ^ bits) ws ->
  Fb.or_words bits ws i acc = acc + 2 ^ (bits * i) * fold_right (fun w r => w + 2 ^ bits * r) 0 ws.
Proof. intros Hb. revert i acc. induction ws as [|w ws IH]; intros i acc Hi Ha HF.
  - cbn. lia.
  - inversion HF as [|? ? Hw HF']; subst. cbn [Fb.or_words fold_right].
    rewrite lor_shiftl_add by (try nia; lia).
    assert (P : 2 ^ (bits * (i + 1)) = 2 ^ (bits * i) * 2 ^ bits).
    { replace (bits * (i + 1)) with (bits * i + bits) by lia. apply Z.pow_add_r; nia. }
    rewrite IH; [|lia| |exact HF'].
    + rewrite P. lia.
    + rewrite P. pose proof (pow2_pos (bits * i) ltac:(nia)). nia. Qed.

Lemma int_val_eq ws : Forall word ws -> Fb.or_words 16 (rev ws) 0 0 = Std6.words_value ws.
Proof. intros HF. rewrite or_words_add; [|lia|lia|change (2 ^ (16 * 0)) with 1; lia|].
  - change (2 ^ (16 * 0)) with 1. rewrite fold_left_rev_right. unfold Std6.words_value.
    change (2 ^ 16) with 65536. rewrite Z.add_0_l, Z.mul_1_l. apply fold_left_ext. intros; lia.
  - apply Forall_rev. eapply Forall_impl; [|exact HF]. intros w Hw. exact Hw. Qed.

(* ---------------------------------------------------------------- the chosen zero run *)
Definition swap_run (r : option (nat * nat)) : option (nat * nat) :=
  match r with Some (b, n) => Some (n, b) | None => None end.

Lemma chosen_run_8 : forallb (fun p => match Fb.chosen_run p, swap_run (Std6.best_run p) with
                                       | Some (a, b), Some (c, d) => Nat.eqb a c && Nat.eqb b d
                                       | None, None => true
                                       | _, _ => false end) (all_pats 8) = true.
Proof. vm_compute. reflexivity. Qed.

Lemma chosen_run_eq p : List.length p = 8%nat -> Fb.chosen_run p = swap_run (Std6.best_run p).
Proof. intros L. pose proof chosen_run_8 as R. rewrite forallb_forall in R.
  specialize (R p ltac:(rewrite <- L; apply all_pats_complete)).
  destruct (Fb.chosen_run p) as [[a b]|], (swap_run (Std6.best_run p)) as [[c d]|]; try discriminate; [|reflexivity].
  apply andb_true_iff in R. destruct R as [R1 R2]. apply Nat.eqb_eq in R1, R2. now subst. Qed.

(* ---------------------------------------------------------------- rendering *)
Lemma join_chars_app sep a b : a <> [] -> b <> [] ->
  join_chars sep (a ++ b) = join_chars sep a ++ sep ++ join_chars sep b.
Proof. intros Ha Hb. induction a as [|x a IH]; [congruence|]. destruct a as [|y a'].
  - cbn [app]. destruct b; [congruence|]. reflexivity.
  - change ((x :: y :: a') ++ b) with (x :: (y :: a') ++ b). cbn [app].
    change (join_chars sep (x :: y :: a' ++ b)) with (x ++ sep ++ join_chars sep ((y :: a') ++ b)).
    rewrite IH by discriminate. change (join_chars sep (x :: y :: a')) with (x ++ sep ++ join_chars sep (y :: a')).
    now rewrite <- !app_assoc. Qed.

Definition nonblank (t : string) : Prop := t <> ""%string.

Lemma eqb_blank t : nonblank t -> String.eqb t "" = false.
Proof. intros H. apply String.eqb_neq. exact H. Qed.

Lemma ends_blank_snoc l x : Fb.ends_blank (l ++ [x]) = String.eqb x "".
Proof. unfold Fb.ends_blank. now rewrite rev_app_distr. Qed.

Lemma ends_blank_nonblank l : l <> [] -> Forall nonblank l -> Fb.ends_blank l = false.
Proof. intros Hne HF. destruct (exists_last Hne) as (l' & x & ->). rewrite ends_blank_snoc.
  apply eqb_blank. apply Forall_app in HF. destruct HF as [_ HF]. now inversion HF. Qed.

Definition blanks (t1 : list string) : list string :=
  let t2 := if Fb.starts_blank t1 then ""%string :: t1 else t1 in
  if Fb.ends_blank t2 then t2 ++ [""%string] else t2.

Lemma chars_blank : chars "" = []. Proof. reflexivity. Qed.

Lemma ends_blank_app a b : b <> [] -> Fb.ends_blank (a ++ b) = Fb.ends_blank b.
Proof. intros Hb. destruct (exists_last Hb) as (b' & x & ->). rewrite app_assoc, !ends_blank_snoc. reflexivity. Qed.

Lemma render_blanks pre post : Forall nonblank pre -> Forall nonblank post ->
  join_chars [ch_colon] (map chars (blanks (pre ++ [""%string] ++ post))) =
  Std6.join_colon (map chars pre) ++ Std6.dcolon ++ Std6.join_colon (map chars post).
Proof. intros Hp Hq. unfold blanks.
  destruct pre as [|p pre'], post as [|q post'].
  - reflexivity.
  - cbn [app Fb.starts_blank]. change (String.eqb "" "") with true. cbn iota.
    assert (E : Fb.ends_blank (""%string :: ""%string :: q :: post') = false).
    { transitivity (Fb.ends_blank (q :: post')).
      - apply (ends_blank_app [""%string; ""%string]). discriminate.
      - apply ends_blank_nonblank; [discriminate|exact Hq]. }
    rewrite E. reflexivity.
  - inversion Hp as [|? ? Hp1 _]; subst. cbn [app Fb.starts_blank]. rewrite (eqb_blank p Hp1).
    change (p :: pre' ++ [""%string]) with ((p :: pre') ++ [""%string]). rewrite ends_blank_snoc.
    change (String.eqb "" "") with true. cbn iota. rewrite <- app_assoc. rewrite map_app.
    rewrite join_chars_app by discriminate. reflexivity.
  - inversion Hp as [|? ? Hp1 _]; subst. cbn [app Fb.starts_blank]. rewrite (eqb_blank p Hp1).
    assert (E : Fb.ends_blank (p :: pre' ++ ""%string :: q :: post') = false).
    { transitivity (Fb.ends_blank (q :: post')).
      - change (p :: pre' ++ ""%string :: q :: post') with ((p :: pre') ++ [""%string] ++ (q :: post')).
        rewrite app_assoc. apply ends_blank_app. discriminate.
      - apply ends_blank_nonblank; [discriminate|exact Hq]. }
    rewrite E.
    change (p :: pre' ++ ""%string :: q :: post') with ((p :: pre') ++ (""%string :: q :: post')).
    rewrite map_app. rewrite join_chars_app by discriminate. reflexivity. Qed.

Lemma compact_eq tokens : Fb.compact_ipv6_tokens tokens =
  match Fb.chosen_run (map (fun t => String.eqb t "0") tokens) with
  | None => tokens
  | Some (len, start_idx) => blanks (firstn start_idx tokens ++ [""%string] ++ skipn (start_idx + len) tokens)
  end.
Proof. unfold Fb.compact_ipv6_tokens, blanks. destruct (Fb.chosen_run _) as [[a b]|]; reflexivity. Qed.

(* '%x' % w is '0' exactly for w = 0 *)
Lemma fmt_x_is_zero w : 0 <= w -> String.eqb (fmt_x w) "0" = (0 =? w).
Proof. intros Hw. case_eqb 0 w.
  - subst. reflexivity.
  - apply String.eqb_neq. intros E. pose proof (py_int_fmt_x w Hw) as P. rewrite E in P.
    change (py_int 16 "0") with (Some 0) in P. congruence. Qed.

Lemma pattern_eq ws : Forall word ws -> map (fun t => String.eqb t "0") (map fmt_x ws) = Std6.zero_pattern ws.
Proof. intros HF. unfold Std6.zero_pattern. rewrite map_map. apply map_ext_in. intros w Hw.
  apply fmt_x_is_zero. eapply Forall_forall in HF; eauto. apply HF. Qed.

Lemma fmt_x_nonblank w : nonblank (fmt_x w).
Proof. apply fmt_x_nonempty. Qed.

Lemma Forall_map_nonblank ws : Forall nonblank (map fmt_x ws).
Proof. induction ws; cbn [map]; constructor; auto. apply fmt_x_nonblank. Qed.

Lemma map_chars_fmt_x ws : map chars (map fmt_x ws) = map T ws.
Proof. now rewrite map_map. Qed.

Lemma join_as_chars toks : join ":" toks = str_of (Std6.join_colon (map chars toks)).
Proof. reflexivity. Qed.

Lemma ntoa_nonblank a b c d : nonblank (Std4.ntoa [a; b; c; d]).
Proof. unfold nonblank, Std4.ntoa. intros E. apply str_of_nil_iff in E. revert E. apply ntoa_nonempty. Qed.

Lemma ntoa_not_zero a b c d : String.eqb (Std4.ntoa [a; b; c; d]) "0" = false.
Proof. apply String.eqb_neq. intros E. apply (f_equal chars) in E. unfold Std4.ntoa in E. rewrite chars_str_of in E.
  pose proof (ntoa_has_dot a b c d) as H. rewrite E in H. discriminate H. Qed.

Theorem fb_ntop6_eq ws : Forall word ws -> List.length ws = 8%nat -> Fb.inet_ntop6 ws = Ok (Std6.ntop6 ws).
Proof. intros HF L. unfold Fb.inet_ntop6. rewrite L. cbn [Nat.eqb negb].
  rewrite int_val_eq by exact HF. rewrite Z.shiftr_div_pow2 by lia. change (2 ^ 32) with 4294967296.
  fold (Std6.dotted_form ws). unfold Std6.ntop6, Std6.ntop6_chars.
  destruct (Std6.dotted_form ws) eqn:DF.
  - destruct (length8 ws L) as (w0 & w1 & w2 & w3 & w4 & w5 & w6 & w7 & ->).
    repeat match goal with H : Forall _ (_ :: _) |- _ => inversion H; clear H; subst end.
    match goal with H : Forall _ [] |- _ => clear H end.
    destruct (dotted_shape w0 w1 w2 w3 w4 w5 w6 w7) as (-> & -> & -> & -> & -> & S); auto.
    cbn [map skipn firstn]. rewrite !py_int_fmt_x by (unfold word in *; lia).
    unfold Fb.pack_H.
    assert (R6 : (0 <=? w6) && (w6 <=? 65535) = true) by (unfold word in *; lia).
    assert (R7 : (0 <=? w7) && (w7 <=? 65535) = true) by (unfold word in *; lia).
    rewrite R6, R7. cbn [bind]. rewrite fb_ntoa_eq. cbn [bind]. f_equal.
    rewrite compact_eq. cbn [map app]. rewrite ntoa_not_zero. rewrite tail_octets_eq.
    change (String.eqb (fmt_x 0) "0") with true.
    destruct S as [[-> N6] | ->].
    + change (String.eqb (fmt_x 0) "0") with true.
      change (Fb.chosen_run _) with (Some (6%nat, 0%nat)).
      destruct (is_zero_cases w6) as [[? _]|[_ Z6]]; [assumption|congruence|].
      unfold Std6.zero_pattern. cbn [map]. rewrite Z6. cbn [Z.eqb].
      assert (BR : forall z, Std6.best_run [true; true; true; true; true; true; false; z] = Some (0%nat, 6%nat))
        by (intros []; reflexivity). rewrite BR.
      cbn [firstn skipn Nat.add]. rewrite join_as_chars. f_equal.
      eapply eq_trans; [apply (render_blanks [] [_])| ].
      * constructor.
      * constructor; [apply ntoa_nonblank|constructor].
      * cbn [map]. unfold Std4.ntoa. rewrite chars_str_of. reflexivity.
    + rewrite (fmt_x_is_zero 65535) by lia. change (0 =? 65535) with false.
      change (Fb.chosen_run _) with (Some (5%nat, 0%nat)).
      unfold Std6.zero_pattern. cbn [map]. cbn [Z.eqb].
      assert (BR : forall y z, Std6.best_run [true; true; true; true; true; false; y; z] = Some (0%nat, 5%nat))
        by (intros [] []; reflexivity). rewrite BR.
      cbn [firstn skipn Nat.add]. rewrite join_as_chars. f_equal.
      eapply eq_trans; [apply (render_blanks [] [_; _])| ].
      * constructor.
      * constructor; [apply fmt_x_nonblank|]. constructor; [apply ntoa_nonblank|constructor].
      * cbn [map]. unfold Std4.ntoa. rewrite chars_str_of. reflexivity.
  - cbn [bind]. f_equal. rewrite compact_eq. rewrite pattern_eq by exact HF.
    rewrite chosen_run_eq by (unfold Std6.zero_pattern; now rewrite map_length).
    destruct (Std6.best_run (Std6.zero_pattern ws)) as [[b n]|]; cbn [swap_run].
    + rewrite join_as_chars. f_equal.
      eapply eq_trans; [apply render_blanks|].
      * apply Forall_firstn, Forall_map_nonblank.
      * apply Forall_skipn, Forall_map_nonblank.
      * rewrite <- firstn_map, <- skipn_map. rewrite map_chars_fmt_x. reflexivity.
    + rewrite join_as_chars. f_equal. now rewrite map_chars_fmt_x. Qed.
