(* Proofs/C08_arith.v — value-level facts of C08: constructor on integers, eui64 / modified_eui64 / ipv6,
   oui / ei / iab split, comparisons, word indexing and assignment, words / packed / bits. *)
From Coq Require Import String Ascii.
From NV Require Import Base.Tac Base.PyVal Base.Bits Base.PyStr Base.PyStrFacts Model.Ip Model.Eui Proofs.C08_words.
Open Scope Z_scope.

Definition wf_ver (ver : Z) : Prop := ver = 48 \/ ver = 64.
Definition wf_eui (e : eui) : Prop := wf_ver (ever e) /\ 0 <= evalue e < 2 ^ ewidth (ever e).
(* a dialect that fits the version: positive word size and count, exactly covering the width *)
Definition wf_dialect (ver : Z) (d : dialect) : Prop :=
  0 < word_size d /\ 0 < num_words d /\ num_words d * word_size d = ewidth ver.
(* the i-th octet (from the most significant end) of an n-octet value *)
Definition octet (n v i : Z) : Z := word_at 8 n v i.

Lemma ewidth_48 : ewidth 48 = 48. Proof. reflexivity. Qed.
Lemma ewidth_64 : ewidth 64 = 64. Proof. reflexivity. Qed.

(* ---- constructor on an integer with explicit version ---- *)
Lemma init_int_ver ver v : wf_ver ver -> 0 <= v < 2 ^ ewidth ver ->
  eui_init (AInt v) (Some ver) DNone = Ok {| ever := ver; evalue := v; edialect := default_dialect ver |}.
Proof.
  intros [-> | ->] Hv; unfold eui_init; cbn [Z.eqb Pos.eqb bind]; unfold set_value_ver, py_to_int; cbn [bind];
    unfold emax_int.
  - destruct ((0 <=? v) && (v <=? 2 ^ ewidth 48 - 1)) eqn:E; [reflexivity|lia].
  - destruct ((0 <=? v) && (v <=? 2 ^ ewidth 64 - 1)) eqn:E; [reflexivity|lia].
Qed.

Lemma init_int_ver_bad ver v : wf_ver ver -> ~ (0 <= v < 2 ^ ewidth ver) ->
  eui_init (AInt v) (Some ver) DNone = Raise AddrFormatError.
Proof.
  intros [-> | ->] Hv; unfold eui_init; cbn [Z.eqb Pos.eqb bind]; unfold set_value_ver, py_to_int; cbn [bind];
    unfold emax_int.
  - destruct ((0 <=? v) && (v <=? 2 ^ ewidth 48 - 1)) eqn:E; [lia|reflexivity].
  - destruct ((0 <=? v) && (v <=? 2 ^ ewidth 64 - 1)) eqn:E; [lia|reflexivity].
Qed.

(* EUI(int) with implicit version: chosen by magnitude *)
Lemma init_int_implicit v d :
  eui_init (AInt v) None (DRec d) =
    if (0 <=? v) && (v <? 2 ^ 48) then Ok {| ever := 48; evalue := v; edialect := d |}
    else if (2 ^ 48 <=? v) && (v <? 2 ^ 64) then Ok {| ever := 64; evalue := v; edialect := d |}
    else Raise TypeError.
Proof.
  unfold eui_init, emax_int. change (ewidth 48) with 48. change (ewidth 64) with 64.
  destruct ((0 <=? v) && (v <=? 2 ^ 48 - 1)) eqn:E1.
  - destruct ((0 <=? v) && (v <? 2 ^ 48)) eqn:E2; [|lia]. cbn [bind]. unfold set_value_ver, py_to_int. cbn [bind].
    unfold emax_int. change (ewidth 48) with 48. rewrite E1. reflexivity.
  - destruct ((0 <=? v) && (v <? 2 ^ 48)) eqn:E2; [lia|].
    destruct ((2 ^ 48 - 1 <? v) && (v <=? 2 ^ 64 - 1)) eqn:E3.
    + destruct ((2 ^ 48 <=? v) && (v <? 2 ^ 64)) eqn:E4; [|lia]. cbn [bind]. unfold set_value_ver, py_to_int. cbn [bind].
      unfold emax_int. change (ewidth 64) with 64.
      destruct ((0 <=? v) && (v <=? 2 ^ 64 - 1)) eqn:E5; [reflexivity|lia].
    + destruct ((2 ^ 48 <=? v) && (v <? 2 ^ 64)) eqn:E4; [lia|]. reflexivity.
Qed.

(* ---- eui64 ---- *)
Definition eui64_value (ver v : Z) : Z :=
  if ver =? 48 then (v / 2 ^ 24) * 2 ^ 40 + 65534 * 2 ^ 24 + v mod 2 ^ 24 else v.

Lemma lor_add_small a b k : 0 <= k -> (2 ^ k | a) -> 0 <= b < 2 ^ k -> Z.lor a b = a + b.
Proof.
  intros Hk [q ->] Hb. rewrite Z.lor_comm, <- Z.shiftl_mul_pow2 by lia. rewrite lor_shiftl_add by lia.
  rewrite Z.shiftl_mul_pow2 by lia. lia.
Qed.

Lemma eui64_arith v : 0 <= v < 2 ^ 48 ->
  Z.lor (Z.lor (Z.shiftl (Z.shiftr v 24) 40) 1099478073344) (Z.land v 16777215) = eui64_value 48 v /\
  0 <= eui64_value 48 v < 2 ^ 64.
Proof.
  intros Hv. unfold eui64_value. cbn [Z.eqb Pos.eqb].
  rewrite Z.shiftr_div_pow2, Z.shiftl_mul_pow2 by lia.
  change 16777215 with (2 ^ 24 - 1). rewrite land_ones_mod by lia.
  change 1099478073344 with (65534 * 2 ^ 24).
  pose proof (Z.mod_pos_bound v (2 ^ 24) ltac:(lia)) as Hm.
  assert (Hq : 0 <= v / 2 ^ 24 < 2 ^ 24).
  { split; [apply Z.div_pos; lia|]. apply Z.div_lt_upper_bound; [lia|]. change (2 ^ 24 * 2 ^ 24) with (2 ^ 48). lia. }
  rewrite (lor_add_small (v / 2 ^ 24 * 2 ^ 40) (65534 * 2 ^ 24) 40); [| lia | | lia ].
  2:{ exists (v / 2 ^ 24). reflexivity. }
  rewrite (lor_add_small _ (v mod 2 ^ 24) 24); [| lia | | lia ].
  2:{ exists (v / 2 ^ 24 * 2 ^ 16 + 65534). change (2 ^ 40) with (2 ^ 16 * 2 ^ 24). ring. }
  split; [reflexivity|]. change (2 ^ 64) with (2 ^ 24 * 2 ^ 40). change (2^40) with 1099511627776 in *.
  change (2 ^ 24) with 16777216 in *. lia.
Qed.

Lemma eui64_spec e : wf_eui e ->
  eui_eui64 e = Ok {| ever := 64; evalue := eui64_value (ever e) (evalue e); edialect := eui64_base |} /\
  0 <= eui64_value (ever e) (evalue e) < 2 ^ 64.
Proof.
  intros [[Hv | Hv] Hr]; unfold eui_eui64; rewrite Hv in *; cbn [Z.eqb Pos.eqb].
  - change (ewidth 48) with 48 in Hr. destruct (eui64_arith (evalue e) Hr) as [-> R].
    split; [|exact R]. rewrite init_int_ver; [reflexivity | right; reflexivity | exact R].
  - change (ewidth 64) with 64 in Hr. unfold eui64_value. cbn [Z.eqb Pos.eqb].
    split; [|exact Hr]. rewrite init_int_ver; [reflexivity | right; reflexivity | exact Hr].
Qed.

(* the octets of the 64-bit identifier made from a 48-bit value: o0 o1 o2 FF FE o3 o4 o5 *)
Lemma eui64_octets v : 0 <= v < 2 ^ 48 ->
  let x := eui64_value 48 v in
  octet 8 x 0 = octet 6 v 0 /\ octet 8 x 1 = octet 6 v 1 /\ octet 8 x 2 = octet 6 v 2 /\
  octet 8 x 3 = 255 /\ octet 8 x 4 = 254 /\
  octet 8 x 5 = octet 6 v 3 /\ octet 8 x 6 = octet 6 v 4 /\ octet 8 x 7 = octet 6 v 5.
Proof.
  intros Hv x. subst x. unfold eui64_value, octet, word_at. cbn [Z.eqb Pos.eqb].
  cbn [Z.mul Z.sub Z.add Z.opp Pos.mul Pos.sub Z.pos_sub Pos.pred_double Pos.add Pos.succ Z.succ_double Z.pred_double Z.double].
  change (2 ^ 0) with 1. change (2 ^ 8) with 256. change (2 ^ 16) with 65536. change (2 ^ 24) with 16777216.
  change (2 ^ 32) with 4294967296. change (2 ^ 40) with 1099511627776. change (2 ^ 48) with 281474976710656 in Hv.
  change (2 ^ 56) with 72057594037927936.
  repeat split; lia_dm.
Qed.

(* ---- modified_eui64 ---- *)
Definition iid_value (ver v : Z) : Z := Z.lxor (eui64_value ver v) (2 ^ 57).

Lemma modified_spec e : wf_eui e ->
  eui_modified e = Ok {| ever := 64; evalue := iid_value (ever e) (evalue e); edialect := eui64_base |} /\
  0 <= iid_value (ever e) (evalue e) < 2 ^ 64.
Proof.
  intros H. destruct (eui64_spec e H) as [E R]. unfold eui_modified. rewrite E. cbn [bind ever evalue edialect].
  split; [reflexivity|]. unfold iid_value. apply lxor_range; [lia | exact R | ]. change (2^57) with 144115188075855872.
  change (2 ^ 64) with 18446744073709551616. lia.
Qed.

(* exactly the universal/local bit (bit 57 = bit 1 of the first octet) is inverted *)
Lemma iid_bits ver v n : 0 <= n ->
  Z.testbit (iid_value ver v) n = if n =? 57 then negb (Z.testbit (eui64_value ver v) n) else Z.testbit (eui64_value ver v) n.
Proof.
  intros Hn. unfold iid_value. rewrite Z.lxor_spec, Z.pow2_bits_eqb by lia.
  rewrite (Z.eqb_sym 57 n). destruct (n =? 57); [apply xorb_true_r | apply xorb_false_r].
Qed.

(* ---- ipv6 ---- *)
Lemma ipv6_spec e prefix : wf_eui e ->
  eui_ipv6 e prefix =
    let t := prefix + iid_value (ever e) (evalue e) in
    if (0 <=? t) && (t <? 2 ^ 128) then Ok (6, t) else Raise AddrFormatError.
Proof.
  intros H. destruct (modified_spec e H) as [E _]. unfold eui_ipv6. rewrite E. cbn [bind evalue].
  unfold addr_of_int_ver. cbn [Z.eqb Pos.eqb]. unfold in_range_w, max_int_w. cbv zeta.
  set (t := prefix + iid_value (ever e) (evalue e)).
  destruct ((0 <=? t) && (t <=? 2 ^ 128 - 1)) eqn:E1; destruct ((0 <=? t) && (t <? 2 ^ 128)) eqn:E2; try reflexivity; lia.
Qed.

(* a prefix whose low 64 bits are zero: prefix + iid = prefix | iid, always in range *)
Lemma ipv6_prefix64 e prefix : wf_eui e -> 0 <= prefix < 2 ^ 128 -> prefix mod 2 ^ 64 = 0 ->
  eui_ipv6 e prefix = Ok (6, Z.lor prefix (iid_value (ever e) (evalue e))) /\
  Z.lor prefix (iid_value (ever e) (evalue e)) = prefix + iid_value (ever e) (evalue e).
Proof.
  intros H Hp Hm. destruct (modified_spec e H) as [_ R]. rewrite ipv6_spec by assumption. cbv zeta.
  assert (D : (2 ^ 64 | prefix)) by (apply Z.mod_divide; lia).
  rewrite (lor_add_small prefix _ 64) by (try lia; assumption).
  split; [|reflexivity].
  set (i := iid_value (ever e) (evalue e)) in *. destruct D as [q ->].
  assert (q < 2 ^ 64) by (change (2 ^ 128) with (2 ^ 64 * 2 ^ 64) in Hp; nia).
  destruct ((0 <=? q * 2 ^ 64 + i) && (q * 2 ^ 64 + i <? 2 ^ 128)) eqn:E; [reflexivity|].
  change (2 ^ 128) with (2 ^ 64 * 2 ^ 64) in E. nia.
Qed.

Lemma ipv6_link_local_spec e : wf_eui e ->
  eui_ipv6_link_local e = Ok (6, Z.lor (65152 * 2 ^ 112) (iid_value (ever e) (evalue e))).   (* 0xfe80 *)
Proof.
  intros H. unfold eui_ipv6_link_local. change 338288524927261089654018896841347694592 with (65152 * 2 ^ 112).
  apply ipv6_prefix64; [assumption | |]; vm_compute; [split; [discriminate|reflexivity] | reflexivity].
Qed.

(* ---- oui / is_iab / iab ---- *)
Lemma oui_spec e : wf_eui e -> eui_oui e = Some (evalue e / 2 ^ (ewidth (ever e) - 24)).
Proof.
  intros [[Hv | Hv] _]; unfold eui_oui; rewrite Hv; cbn [Z.eqb Pos.eqb]; rewrite Z.shiftr_div_pow2 by lia; reflexivity.
Qed.

Lemma is_iab_spec e : eui_is_iab e = zmem (evalue e / 2 ^ 24) iab_values.
Proof. unfold eui_is_iab. rewrite Z.shiftr_div_pow2 by lia. reflexivity. Qed.

Lemma iab_spec e : 0 <= evalue e < 2 ^ 48 ->
  eui_iab e = Ok (if zmem (evalue e / 2 ^ 24) iab_values then Some (evalue e / 2 ^ 12) else None).
Proof.
  intros Hr. unfold eui_iab. rewrite is_iab_spec. destruct (zmem (evalue e / 2 ^ 24) iab_values) eqn:E; [|reflexivity].
  unfold split_iab_mac. rewrite !Z.shiftr_div_pow2 by lia. rewrite Z.div_div by lia. change (2 ^ 12 * 2 ^ 12) with (2 ^ 24).
  rewrite E. reflexivity.
Qed.

(* ---- comparisons and hash ---- *)
Lemma key_eqb_eq a b : key_eqb a b = true <-> a = b.
Proof. destruct a, b. unfold key_eqb. cbn [fst snd]. split; [intros H; f_equal; lia | intros H; inversion H; lia]. Qed.

Lemma cmp_spec a b :
  (eui_eq a b = true <-> (ever a, evalue a) = (ever b, evalue b)) /\
  eui_ne a b = negb (eui_eq a b) /\
  (eui_lt a b = true <-> ever a < ever b \/ (ever a = ever b /\ evalue a < evalue b)) /\
  eui_le a b = eui_lt a b || eui_eq a b /\
  eui_gt a b = eui_lt b a /\
  eui_ge a b = eui_lt b a || eui_eq a b /\
  (eui_eq a b = true <-> eui_hash_key a = eui_hash_key b).
Proof.
  unfold eui_eq, eui_ne, eui_lt, eui_le, eui_gt, eui_ge, eui_hash_key, eui_key.
  repeat split; try reflexivity; try apply key_eqb_eq; unfold key_ltb; cbn [fst snd]; lia.
Qed.

(* none of them looks at the dialect *)
Lemma cmp_dialect_irrelevant a b da db :
  let a' := {| ever := ever a; evalue := evalue a; edialect := da |} in
  let b' := {| ever := ever b; evalue := evalue b; edialect := db |} in
  eui_eq a' b' = eui_eq a b /\ eui_ne a' b' = eui_ne a b /\ eui_lt a' b' = eui_lt a b /\ eui_le a' b' = eui_le a b /\
  eui_gt a' b' = eui_gt a b /\ eui_ge a' b' = eui_ge a b /\ eui_hash_key a' = eui_hash_key a.
Proof. cbv zeta. repeat split; reflexivity. Qed.

(* the order is the strict total order of the pairs *)
Lemma lt_trichotomy a b : (eui_lt a b = true /\ eui_eq a b = false /\ eui_lt b a = false) \/
                          (eui_lt a b = false /\ eui_eq a b = true /\ eui_lt b a = false) \/
                          (eui_lt a b = false /\ eui_eq a b = false /\ eui_lt b a = true).
Proof. unfold eui_lt, eui_eq, key_ltb, key_eqb, eui_key. cbn [fst snd]. lia. Qed.

Lemma lt_trans a b c : eui_lt a b = true -> eui_lt b c = true -> eui_lt a c = true.
Proof. unfold eui_lt, key_ltb, eui_key. cbn [fst snd]. lia. Qed.

(* ---- word indexing and assignment under the object's own dialect ---- *)
Lemma words_of_dialect e : wf_eui e -> wf_dialect (ever e) (edialect e) ->
  int_to_words (evalue e) (word_size (edialect e)) (num_words (edialect e)) =
    Ok (wl (2 ^ word_size (edialect e)) (Z.to_nat (num_words (edialect e))) (evalue e)).
Proof. intros [_ Hr] (Hws & Hnw & Hw). apply int_to_words_spec; try lia. rewrite Hw. exact Hr. Qed.

Lemma getitem_spec e i : wf_eui e -> wf_dialect (ever e) (edialect e) ->
  let d := edialect e in let nw := num_words d in
  eui_getitem e i =
    if (0 <=? i) && (i <? nw) then Ok (word_at (word_size d) nw (evalue e) i)
    else if (- nw <=? i) && (i <? 0) then Ok (word_at (word_size d) nw (evalue e) (i + nw))
    else Raise IndexError.
Proof.
  intros He Hd. cbv zeta. unfold eui_getitem. pose proof Hd as (Hws & Hnw & Hw).
  pose proof (words_of_dialect e He Hd) as HW.
  set (d := edialect e) in *. set (nw := num_words d) in *. set (ws := word_size d) in *.
  destruct ((- nw <=? i) && (i <=? nw - 1)) eqn:E; cbn [negb].
  - rewrite HW. cbn [bind]. unfold py_index. rewrite wl_length, Z2Nat.id by lia.
    destruct ((0 <=? i) && (i <? nw)) eqn:E1.
    + destruct (i <? 0) eqn:E2; [lia|]. rewrite wl_nth_word by lia. reflexivity.
    + destruct ((- nw <=? i) && (i <? 0)) eqn:E3; [|lia]. destruct (i <? 0) eqn:E2; [|lia].
      destruct (i + nw <? 0) eqn:E4; [lia|]. rewrite wl_nth_word by lia. reflexivity.
  - destruct ((0 <=? i) && (i <? nw)) eqn:E1; [lia|]. destruct ((- nw <=? i) && (i <? 0)) eqn:E3; [lia|]. reflexivity.
Qed.

Lemma word_at_range ws nw v i : 0 <= ws -> 0 <= word_at ws nw v i < 2 ^ ws.
Proof. intros. unfold word_at. apply Z.mod_pos_bound. apply pow2_pos. lia. Qed.

Lemma nth_error_ext_local {A} (l1 : list A) : forall l2, (forall i, nth_error l1 i = nth_error l2 i) -> l1 = l2.
Proof.
  induction l1; intros [|b l2] H; try reflexivity; try (specialize (H O); discriminate).
  pose proof (H O) as H0. cbn in H0. inversion H0; subst. f_equal. apply IHl1. intros i. exact (H (S i)).
Qed.

(* the words of a value determine it *)
Lemma wl_nth_word_eq ws nw v l : 0 <= ws -> 0 <= nw -> length l = Z.to_nat nw ->
  (forall j, 0 <= j < nw -> nth_error l (Z.to_nat j) = Some (word_at ws nw v j)) -> l = wl (2 ^ ws) (Z.to_nat nw) v.
Proof.
  intros Hws Hnw Hl H. apply nth_error_ext_local.
  intros k. destruct (Nat.ltb_spec k (Z.to_nat nw)).
  - rewrite <- (Nat2Z.id k). rewrite H by lia. rewrite wl_nth_word by lia. reflexivity.
  - rewrite (proj2 (nth_error_None _ _)) by lia. rewrite (proj2 (nth_error_None _ _)) by (rewrite wl_length; lia). reflexivity.
Qed.

Lemma setitem_spec e i x : wf_eui e -> wf_dialect (ever e) (edialect e) ->
  let d := edialect e in let nw := num_words d in let ws := word_size d in
  if (0 <=? i) && (i <? nw) && (0 <=? x) && (x <? 2 ^ ws) then
    exists v', eui_setitem e i x = Ok {| ever := ever e; evalue := v'; edialect := d |} /\
               0 <= v' < 2 ^ ewidth (ever e) /\
               (forall j, 0 <= j < nw -> word_at ws nw v' j = if j =? i then x else word_at ws nw (evalue e) j)
  else eui_setitem e i x = Raise IndexError.
Proof.
  intros He Hd. cbv zeta. unfold eui_setitem. pose proof Hd as (Hws & Hnw & Hw).
  pose proof (words_of_dialect e He Hd) as HW.
  set (d := edialect e) in *. set (nw := num_words d) in *. set (ws := word_size d) in *.
  pose proof (pow2_pos ws ltac:(lia)) as HB.
  destruct ((0 <=? i) && (i <=? nw - 1)) eqn:E1; cbn [negb].
  2:{ destruct ((0 <=? i) && (i <? nw)) eqn:E2; [lia|]. reflexivity. }
  destruct ((0 <=? i) && (i <? nw)) eqn:E2; [|lia]. cbn [andb].
  destruct ((0 <=? x) && (x <=? 2 ^ ws - 1)) eqn:E3; cbn [negb].
  2:{ destruct ((0 <=? x) && (x <? 2 ^ ws)) eqn:E4; [lia|]. reflexivity. }
  destruct ((0 <=? x) && (x <? 2 ^ ws)) eqn:E4; [|lia].
  rewrite HW. cbn [bind].
  set (W := wl (2 ^ ws) (Z.to_nat nw) (evalue e)).
  assert (HWl : length W = Z.to_nat nw) by apply wl_length.
  destruct (Z.to_nat i <? length W)%nat eqn:E5; [|lia]. cbn [negb].
  set (L := list_set W (Z.to_nat i) x).
  assert (HLl : length L = Z.to_nat nw) by (unfold L; rewrite list_set_length; exact HWl).
  assert (HLr : Forall (fun d0 => 0 <= d0 < 2 ^ ws) L).
  { unfold L. apply list_set_Forall; [apply wl_range; lia | lia]. }
  rewrite words_to_int_spec by (try lia; assumption). cbn [bind].
  exists (from_digits (2 ^ ws) L). split; [reflexivity|].
  assert (Hbound : 0 <= from_digits (2 ^ ws) L < 2 ^ ewidth (ever e)).
  { split; [apply from_digits_nonneg; [lia|exact HLr]|].
    pose proof (from_digits_bound (2 ^ ws) L ltac:(lia) HLr) as Hb.
    rewrite HLl, Z2Nat.id, pow_pow2 in Hb by lia. rewrite <- Hw, (Z.mul_comm nw ws). lia. }
  split; [exact Hbound|].
  intros j Hj.
  assert (HLeq : wl (2 ^ ws) (Z.to_nat nw) (from_digits (2 ^ ws) L) = L).
  { rewrite <- HLl. apply wl_from_digits; [|exact HLr]. 
    assert (2 ^ 1 <= 2 ^ ws) by (apply pow2_le; lia). change (2 ^ 1) with 2 in *. lia. }
  pose proof (wl_nth_word ws nw (from_digits (2 ^ ws) L) j ltac:(lia) Hj) as Hn.
  rewrite HLeq in Hn.
  assert (HLn : nth_error L (Z.to_nat j) = if Nat.eqb (Z.to_nat j) (Z.to_nat i) then Some x else nth_error W (Z.to_nat j))
    by (unfold L; apply list_set_nth; lia).
  rewrite HLn in Hn.
  destruct (Z.eqb_spec j i) as [->|Hne].
  - rewrite Nat.eqb_refl in Hn. congruence.
  - destruct (Nat.eqb_spec (Z.to_nat j) (Z.to_nat i)); [lia|].
    unfold W in Hn. rewrite wl_nth_word in Hn by lia. congruence.
Qed.

(* ---- words / packed / bits / ei: functions of (version, value) only ---- *)
Definition noctets (ver : Z) : nat := if ver =? 64 then 8%nat else 6%nat.
Definition octets_of (ver v : Z) : list Z := wl 256 (noctets ver) v.

Lemma octets_nth ver v i : 0 <= i < Z.of_nat (noctets ver) ->
  nth_error (octets_of ver v) (Z.to_nat i) = Some (octet (Z.of_nat (noctets ver)) v i).
Proof.
  intros Hi. unfold octets_of, octet. change 256 with (2 ^ 8).
  rewrite <- (Nat2Z.id (noctets ver)) at 1. apply wl_nth_word; lia.
Qed.

Lemma words_spec e : wf_eui e -> eui_words e = Ok (octets_of (ever e) (evalue e)).
Proof.
  intros [[Hv | Hv] Hr]; unfold eui_words, octets_of, noctets; rewrite Hv in *; cbn [Z.eqb Pos.eqb default_dialect];
    cbn [word_size num_words mac_eui48 eui64_base]; rewrite int_to_words_spec by (try lia; exact Hr); reflexivity.
Qed.

Lemma ei_spec e : wf_eui e ->
  eui_ei e = Ok (Some (join "-" (map (fmt_X_pad 2) (skipn 3 (octets_of (ever e) (evalue e)))))).
Proof.
  intros He. unfold eui_ei. rewrite (words_spec e He). destruct He as [[Hv | Hv] Hr]; rewrite Hv; cbn [Z.eqb Pos.eqb bind];
    unfold octets_of, noctets; cbn [Z.eqb Pos.eqb wl app skipn firstn length Nat.eqb]; reflexivity.
Qed.

Lemma packed_spec e : wf_eui e -> eui_packed e = Ok (str_of (map chr (octets_of (ever e) (evalue e)))).
Proof.
  intros He. unfold eui_packed. destruct He as [[Hv | Hv] Hr].
  - rewrite Hv in *. cbn [Z.eqb Pos.eqb]. change (ewidth 48) with 48 in Hr.
    unfold octets_of, noctets. cbn [Z.eqb Pos.eqb wl app map be_bytes Nat2Z.inj_succ].
    rewrite !Z.shiftr_div_pow2 by lia. change 4294967295 with (2 ^ 32 - 1). change 255 with (2 ^ 8 - 1).
    rewrite !land_ones_mod by lia.
    cbn [Z.of_nat Pos.of_succ_nat Pos.succ Z.mul Pos.mul].
    change (2 ^ 0) with 1. change (2 ^ 8) with 256. change (2 ^ 16) with 65536. change (2 ^ 24) with 16777216.
    change (2 ^ 32) with 4294967296. change (2 ^ 48) with 281474976710656 in Hr.
    assert (Hhi : 0 <= evalue e / 4294967296 <= 65535) by lia_dm.
    destruct ((0 <=? evalue e / 4294967296) && (evalue e / 4294967296 <=? 65535)) eqn:E; [|lia].
    do 2 f_equal. repeat (apply (f_equal2 (@cons ascii)); [f_equal; lia_dm|]). reflexivity.
  - rewrite (words_spec e (conj (or_intror Hv) Hr)). rewrite Hv in *. cbn [Z.eqb Pos.eqb bind].
    unfold octets_of, noctets. cbn [Z.eqb Pos.eqb].
    assert (HF : forallb (fun w => (0 <=? w) && (w <=? 255)) (wl 256 8 (evalue e)) = true).
    { apply forallb_forall. intros w Hw. pose proof (wl_range 256 8 ltac:(lia) (evalue e)) as R.
      rewrite Forall_forall in R. specialize (R w Hw). lia. }
    rewrite wl_length, HF. reflexivity.
Qed.

(* the bit string of one octet (finite sweep over the 256 octet values) *)
Lemma word_bits_octet_sweep :
  forallb (fun n => match word_bits 8 (Z.of_nat n) with
                    | Ok l => if list_eq_dec ascii_dec l (chars (fmt_b_pad 8 (Z.of_nat n))) then true else false
                    | Raise _ => false end) (seq 0 256) = true.
Proof. vm_compute. reflexivity. Qed.

Lemma word_bits_octet w : 0 <= w < 256 -> word_bits 8 w = Ok (chars (fmt_b_pad 8 w)).
Proof.
  intros Hw. pose proof word_bits_octet_sweep as S. rewrite forallb_forall in S.
  specialize (S (Z.to_nat w)). rewrite Z2Nat.id in S by lia.
  assert (I : In (Z.to_nat w) (seq 0 256)) by (apply in_seq; lia). specialize (S I).
  destruct (word_bits 8 w); [|discriminate].
  destruct (list_eq_dec ascii_dec a (chars (fmt_b_pad 8 w))); [congruence|discriminate].
Qed.

Lemma map_outcome_ok {A B} (f : A -> outcome B) (g : A -> B) l :
  (forall a, In a l -> f a = Ok (g a)) -> map_outcome f l = Ok (map g l).
Proof.
  induction l; intros H; cbn [map_outcome map]; [reflexivity|].
  rewrite (H a (or_introl eq_refl)). cbn [bind]. rewrite IHl by (intros; apply H; right; assumption). reflexivity.
Qed.

Lemma bits_spec e sep : wf_eui e ->
  eui_bits e sep = Ok (join (match sep with Some s => s | None => "-"%string end)
                            (map (fmt_b_pad 8) (octets_of (ever e) (evalue e)))).
Proof.
  intros He. pose proof (words_spec e He) as Hw. unfold eui_words in Hw. unfold eui_bits, int_to_bits. rewrite Hw. cbn [bind].
  rewrite (map_outcome_ok _ (fun w => chars (fmt_b_pad 8 w))).
  - cbn [bind]. f_equal. unfold join. rewrite map_map.
    destruct He as [[Hv | Hv] _]; rewrite Hv; destruct sep; reflexivity.
  - intros w Hin. replace (word_size (default_dialect (ever e))) with 8
      by (destruct He as [[Hv | Hv] _]; rewrite Hv; reflexivity).
    apply word_bits_octet. unfold octets_of in Hin. pose proof (wl_range 256 (noctets (ever e)) ltac:(lia) (evalue e)) as R.
    rewrite Forall_forall in R. exact (R w Hin).
Qed.
