(* Proofs/C10.v — ranged objects behave like the list of their addresses. *)
From NV Require Import Base.Tac Base.PyVal Base.Bits Model.Ip Model.PySlice Model.ListLike Proofs.C02.
From Coq Require Import Sorted.
Open Scope Z_scope.

(* ------------------------------------------------------------------ arithmetic sequences *)
Lemma arith_list_length n s c : length (arith_list n s c) = n.
Proof. revert s. induction n; intros; cbn; [reflexivity|]. rewrite IHn. reflexivity. Qed.

Lemma arith_list_nth n : forall s c k, (k < n)%nat ->
  nth_error (arith_list n s c) k = Some (s + Z.of_nat k * c).
Proof.
  induction n; intros s c k Hk; [lia|].
  destruct k as [|k]; cbn [arith_list nth_error].
  - f_equal. lia.
  - rewrite IHn by lia. f_equal. lia.
Qed.

Lemma arith_list_map n : forall s c,
  arith_list n s c = map (fun k => s + Z.of_nat k * c) (seq 0 n).
Proof.
  induction n; intros; [reflexivity|].
  cbn [arith_list seq map]. f_equal; [lia|].
  rewrite IHn, <- seq_shift, map_map. apply map_ext. intros. lia.
Qed.

Lemma arith_list_in n : forall s c a,
  In a (arith_list n s c) <-> exists k, 0 <= k < Z.of_nat n /\ a = s + k * c.
Proof.
  induction n; intros s c a; cbn [arith_list In].
  - split; [tauto|]. intros (k & Hk & _). lia.
  - rewrite IHn. split.
    + intros [E | (k & Hk & E)]; [exists 0; lia | exists (k + 1); lia].
    + intros (k & Hk & E). destruct (Z.eq_dec k 0); [left; subst; lia|].
      right. exists (k - 1). lia.
Qed.

Lemma arith_list_sorted_pos n : forall s c, 0 < c -> StronglySorted Z.lt (arith_list n s c).
Proof.
  induction n; intros s c Hc; cbn [arith_list]; constructor; [apply IHn; exact Hc|].
  apply Forall_forall. intros a Ha. apply arith_list_in in Ha. destruct Ha as (k & Hk & ->). nia.
Qed.

Lemma arith_list_sorted_neg n : forall s c, c < 0 -> StronglySorted Z.gt (arith_list n s c).
Proof.
  induction n; intros s c Hc; cbn [arith_list]; constructor; [apply IHn; exact Hc|].
  apply Forall_forall. intros a Ha. apply arith_list_in in Ha. destruct Ha as (k & Hk & ->). nia.
Qed.

Lemma arith_list_nodup n : forall s c, c <> 0 -> NoDup (arith_list n s c).
Proof.
  induction n; intros s c Hc; cbn [arith_list]; constructor; [|apply IHn; exact Hc].
  intros Ha. apply arith_list_in in Ha. destruct Ha as (k & Hk & E). nia.
Qed.

Lemma arith_list_firstn m : forall n s c,
  firstn m (arith_list n s c) = arith_list (Nat.min m n) s c.
Proof.
  induction m; intros; [reflexivity|].
  destruct n; [reflexivity|]. cbn [arith_list firstn Nat.min]. f_equal. apply IHm.
Qed.

(* what aseq_take says, spelled out *)
Lemma aseq_take_meaning n start count step :
  aseq_take n {| a_start := start; a_count := count; a_step := step |} =
  (map (fun k => start + Z.of_nat k * step) (seq 0 (Nat.min n (Z.to_nat count))),
   if count <=? Z.of_nat n then Done else More).
Proof. unfold aseq_take. cbn [a_start a_count a_step]. rewrite arith_list_map. reflexivity. Qed.

(* ------------------------------------------------------------------ len(range(a, b, c)) *)
Lemma range_len_nonneg a b c : 0 <= range_len a b c.
Proof.
  unfold range_len. case_ltb 0 c.
  - case_ltb a b; [|lia]. assert (0 <= (b - a - 1) / c) by (apply Z.div_pos; lia). lia.
  - case_ltb c 0; [|lia]. case_ltb b a; [|lia].
    assert (0 <= (a - b - 1) / (- c)) by (apply Z.div_pos; lia). lia.
Qed.

(* direct characterisation: k < len(range(a,b,c)) exactly when a + k*c has not reached b *)
Lemma range_len_spec a b c : c <> 0 -> forall k, 0 <= k ->
  (k < range_len a b c <-> (if 0 <? c then a + k * c < b else b < a + k * c)).
Proof.
  intros Hc k Hk. unfold range_len. case_ltb 0 c.
  - case_ltb a b; [|split; intros; nia].
    pose proof (Z.div_mod (b - a - 1) c ltac:(lia)) as E.
    pose proof (Z.mod_pos_bound (b - a - 1) c ltac:(lia)) as B.
    split; intros; nia.
  - case_ltb c 0; [|lia]. case_ltb b a; [|split; intros; nia].
    pose proof (Z.div_mod (a - b - 1) (- c) ltac:(lia)) as E.
    pose proof (Z.mod_pos_bound (a - b - 1) (- c) ltac:(lia)) as B.
    split; intros; nia.
Qed.

(* the characterisation determines the value *)
Lemma range_len_unique a b c n : c <> 0 -> 0 <= n ->
  (forall k, 0 <= k -> (k < n <-> (if 0 <? c then a + k * c < b else b < a + k * c))) ->
  n = range_len a b c.
Proof.
  intros Hc Hn H. pose proof (range_len_nonneg a b c) as Hr.
  destruct (Z.lt_trichotomy n (range_len a b c)) as [L | [E | G]]; [|exact E|].
  - pose proof (proj1 (range_len_spec a b c Hc n Hn) L) as P. apply (H n Hn) in P. lia.
  - pose proof (proj1 (H (range_len a b c) Hr) G) as P. apply (range_len_spec a b c Hc _ Hr) in P. lia.
Qed.

Lemma py_range_len_ok a b c : c <> 0 -> range_len a b c <= ssize_max ->
  py_range_len a b c = Ok (range_len a b c).
Proof.
  intros Hc Hs. unfold py_range_len. case_eqb c 0; [lia|].
  destruct (Z.gtb_spec (range_len a b c) ssize_max); [lia|reflexivity].
Qed.

(* ------------------------------------------------------------------ slice.indices *)
Definition step_of (c : option Z) : Z := match c with None => 1 | Some s => s end.

Lemma slice_indices_ok a b c n : 0 <= n -> step_of c <> 0 ->
  exists s e, py_slice_indices a b c n = Ok (s, e, step_of c) /\
    (0 < step_of c -> 0 <= s <= n /\ 0 <= e <= n) /\
    (step_of c < 0 -> -1 <= s <= n - 1 /\ -1 <= e <= n - 1).
Proof.
  intros Hn Hc. unfold py_slice_indices. fold (step_of c).
  case_ltb n 0; [lia|]. case_eqb (step_of c) 0; [lia|].
  eexists; eexists; split; [reflexivity|].
  case_ltb (step_of c) 0.
  - split; [lia|]. intros _. unfold slice_clamp.
    split.
    + destruct a as [v|]; [|lia]. case_ltb v 0.
      * case_ltb (v + n) (-1); lia.
      * destruct (Z.gtb_spec v (n + -1)); lia.
    + destruct b as [v|]; [|lia]. case_ltb v 0.
      * case_ltb (v + n) (-1); lia.
      * destruct (Z.gtb_spec v (n + -1)); lia.
  - split; [|lia]. intros _. unfold slice_clamp.
    split.
    + destruct a as [v|]; [|lia]. case_ltb v 0.
      * case_ltb (v + n) 0; lia.
      * destruct (Z.gtb_spec v n); lia.
    + destruct b as [v|]; [|lia]. case_ltb v 0.
      * case_ltb (v + n) 0; lia.
      * destruct (Z.gtb_spec v n); lia.
Qed.

Lemma slice_indices_step0 a b c n : step_of c = 0 -> py_slice_indices a b c n = Raise ValueError.
Proof.
  intros Hc. unfold py_slice_indices. fold (step_of c). rewrite Hc.
  destruct (n <? 0); reflexivity.
Qed.

(* every index selected by slice.indices(n) lies inside [0, n) and there are at most n of them *)
Lemma slice_selected_in_range s e c n k : 0 <= n -> c <> 0 ->
  (0 < c -> 0 <= s <= n /\ 0 <= e <= n) -> (c < 0 -> -1 <= s <= n - 1 /\ -1 <= e <= n - 1) ->
  0 <= k < range_len s e c -> 0 <= s + k * c < n.
Proof.
  intros Hn Hc P N [Hk Hk']. apply (range_len_spec s e c Hc k Hk) in Hk'.
  case_ltb 0 c.
  - destruct (P ltac:(lia)). nia.
  - destruct (N ltac:(lia)). nia.
Qed.

Lemma slice_count_le s e c n : 0 <= n -> c <> 0 ->
  (0 < c -> 0 <= s <= n /\ 0 <= e <= n) -> (c < 0 -> -1 <= s <= n - 1 /\ -1 <= e <= n - 1) ->
  range_len s e c <= n.
Proof.
  intros Hn Hc P N. pose proof (range_len_nonneg s e c) as H0.
  destruct (Z.eq_dec (range_len s e c) 0) as [|NZ]; [lia|].
  pose proof (slice_selected_in_range s e c n (range_len s e c - 1) Hn Hc P N ltac:(lia)) as B.
  case_ltb 0 c.
  - destruct (P ltac:(lia)). nia.
  - destruct (N ltac:(lia)). nia.
Qed.

(* ------------------------------------------------------------------ IPAddress(i, version) *)
Lemma addr_ok i ver : valid_ver ver = true -> 0 <= i <= max_int ver -> addr_of_int_ver i ver = Ok (ver, i).
Proof.
  intros Hv Hi. destruct (width_cases ver Hv) as [[-> W] | [-> W]]; unfold max_int in Hi; rewrite W in Hi;
    unfold addr_of_int_ver, in_range_w; cbn [Z.eqb Pos.eqb].
  - destruct (Z.leb_spec 0 i), (Z.leb_spec i (max_int_w 32)); try lia; reflexivity.
  - destruct (Z.leb_spec 0 i), (Z.leb_spec i (max_int_w 128)); try lia; reflexivity.
Qed.

(* ------------------------------------------------------------------ iter_iprange *)
Definition cnt (start stop step : Z) : Z := Z.max 0 ((stop - start) / step + 1).

Lemma cnt_zero start stop step : step <> 0 ->
  (if step <? 0 then start < stop else stop < start) -> cnt start stop step = 0.
Proof.
  intros Hs H. unfold cnt. case_ltb step 0.
  - assert ((stop - start) / step < 0) by (Z.to_euclidean_division_equations; nia). lia.
  - assert ((stop - start) / step < 0) by (Z.to_euclidean_division_equations; nia). lia.
Qed.

Lemma cnt_succ start stop step : step <> 0 ->
  (if step <? 0 then stop <= start else start <= stop) ->
  cnt start stop step = 1 + cnt (start + step) stop step /\ 0 <= cnt (start + step) stop step.
Proof.
  intros Hs H. unfold cnt.
  replace (stop - (start + step)) with ((stop - start) + (-1) * step) by lia.
  rewrite Z.div_add by lia.
  assert (0 <= (stop - start) / step).
  { case_ltb step 0; Z.to_euclidean_division_equations; nia. }
  lia.
Qed.

Lemma iprange_loop_spec n : forall ver start step stop,
  valid_ver ver = true -> step <> 0 -> 0 <= stop <= max_int ver ->
  (if step <? 0 then start <= max_int ver else 0 <= start) ->
  iprange_loop n ver (start - step) step stop (step <? 0) = aseq_take n (iprange_closed start stop step).
Proof.
  induction n; intros ver start step stop Hv Hs Hstop Hstart;
    unfold aseq_take, iprange_closed; cbn [a_start a_count a_step]; fold (cnt start stop step);
    cbn [iprange_loop]; replace (start - step + step) with start by lia.
  - (* the consumer wants nothing: only the probe *)
    destruct (step <? 0) eqn:Neg.
    + destruct (Z.geb_spec start stop); cbn [negb].
      * rewrite addr_ok by (try assumption; lia).
        destruct (cnt_succ start stop step Hs) as [E P]; [rewrite Neg; lia|].
        destruct (Z.leb_spec (cnt start stop step) (Z.of_nat 0)); [lia|].
        rewrite Nat.min_0_l. reflexivity.
      * rewrite (cnt_zero start stop step Hs) by (rewrite Neg; lia). reflexivity.
    + destruct (Z.leb_spec start stop); cbn [negb].
      * rewrite addr_ok by (try assumption; lia).
        destruct (cnt_succ start stop step Hs) as [E P]; [rewrite Neg; lia|].
        destruct (Z.leb_spec (cnt start stop step) (Z.of_nat 0)); [lia|].
        rewrite Nat.min_0_l. reflexivity.
      * rewrite (cnt_zero start stop step Hs) by (rewrite Neg; lia). reflexivity.
  - assert (STEP : forall (go : bool), go = true ->
        (if step <? 0 then stop <= start else start <= stop) ->
        (let '(l, s) := iprange_loop n ver start step stop (step <? 0) in (start :: l, s)) =
        (arith_list (Nat.min (S n) (Z.to_nat (cnt start stop step))) start step,
         if cnt start stop step <=? Z.of_nat (S n) then Done else More)).
    { intros _ _ Hin.
      destruct (cnt_succ start stop step Hs Hin) as [E P].
      replace start with ((start + step) - step) at 1 by lia.
      rewrite IHn; [|assumption|assumption|assumption|].
      2:{ destruct (step <? 0) eqn:Neg; lia. }
      unfold aseq_take, iprange_closed; cbn [a_start a_count a_step]. fold (cnt (start + step) stop step).
      rewrite E.
      replace (Z.to_nat (1 + cnt (start + step) stop step)) with (S (Z.to_nat (cnt (start + step) stop step))) by lia.
      cbn [Nat.min arith_list].
      f_equal.
      destruct (Z.leb_spec (cnt (start + step) stop step) (Z.of_nat n)),
               (Z.leb_spec (1 + cnt (start + step) stop step) (Z.of_nat (S n))); try lia; reflexivity. }
    destruct (step <? 0) eqn:Neg.
    + destruct (Z.geb_spec start stop); cbn [negb].
      * rewrite addr_ok by (try assumption; lia). apply (STEP true eq_refl). lia.
      * rewrite (cnt_zero start stop step Hs) by (rewrite Neg; lia). reflexivity.
    + destruct (Z.leb_spec start stop); cbn [negb].
      * rewrite addr_ok by (try assumption; lia). apply (STEP true eq_refl). lia.
      * rewrite (cnt_zero start stop step Hs) by (rewrite Neg; lia). reflexivity.
Qed.

Lemma iprange_take_spec n ver sv ev step :
  valid_ver ver = true -> step <> 0 -> 0 <= sv <= max_int ver -> 0 <= ev <= max_int ver ->
  iter_iprange_take n ver sv ver ev step = aseq_take n (iprange_closed sv ev step).
Proof.
  intros Hv Hs Hsv Hev. unfold iter_iprange_take. rewrite Z.eqb_refl. cbn [negb].
  case_eqb step 0; [lia|]. apply iprange_loop_spec; try assumption.
  destruct (step <? 0); lia.
Qed.

Lemma iprange_take_mismatch n sver sv ever ev step : sver <> ever ->
  iter_iprange_take n sver sv ever ev step = ([], Raised TypeError).
Proof. intros H. unfold iter_iprange_take. case_eqb sver ever; [lia|reflexivity]. Qed.

Lemma iprange_take_step0 n ver sv ev :
  iter_iprange_take n ver sv ver ev 0 = ([], Raised ValueError).
Proof. unfold iter_iprange_take. rewrite Z.eqb_refl. reflexivity. Qed.

(* the closed-form count is the number of k >= 0 with start + k*step inside the closed interval *)
Lemma cnt_spec start stop step : step <> 0 -> forall k, 0 <= k ->
  (k < cnt start stop step <-> (if 0 <? step then start + k * step <= stop else stop <= start + k * step)).
Proof.
  intros Hs k Hk. unfold cnt.
  pose proof (Z.div_mod (stop - start) step Hs) as E.
  case_ltb 0 step.
  - pose proof (Z.mod_pos_bound (stop - start) step ltac:(lia)) as B. split; intros; nia.
  - pose proof (Z.mod_neg_bound (stop - start) step ltac:(lia)) as B. split; intros; nia.
Qed.

(* an arithmetic closed form observed as a list *)
Lemma aseq_take_list n s count c : 0 <= count ->
  aseq_take n {| a_start := s; a_count := count; a_step := c |} = list_take n (arith_list (Z.to_nat count) s c).
Proof.
  intros Hc. unfold aseq_take, list_take. cbn [a_start a_count a_step].
  rewrite arith_list_firstn, arith_list_length. f_equal.
  destruct (Z.leb_spec count (Z.of_nat n)), (Nat.leb_spec (Z.to_nat count) n); try lia; reflexivity.
Qed.

(* ------------------------------------------------------------------ well-formed ranged objects *)
Definition rwf (x : ranged) : Prop :=
  match x with
  | RNet ver v p => valid_ver ver = true /\ 0 <= p <= width ver /\ 0 <= v < 2 ^ width ver
  | RRange ver s e => valid_ver ver = true /\ 0 <= s <= e /\ e <= max_int ver
  | RGlob s e => 0 <= s <= e /\ e <= max_int 4
  end.

Lemma rwf_geom x : rwf x ->
  valid_ver (r_ver x) = true /\ 0 <= r_first x /\ r_first x <= r_last x /\ r_last x <= max_int (r_ver x).
Proof.
  destruct x as [ver v p | ver s e | s e]; cbn [rwf r_ver r_first r_last].
  - intros (Hv & Hp & Hval). split; [exact Hv|].
    rewrite (net_first_eq _ _ _ Hp Hval), (net_last_eq _ v _ Hp).
    pose proof (first_last_in_range _ _ _ Hp Hval) as [F1 F2].
    pose proof (pow2_pos (width ver - p) ltac:(lia)).
    unfold max_int, max_int_w. lia.
  - intros (Hv & Hs & He). split; [exact Hv|]. lia.
  - intros (Hs & He). split; [reflexivity|]. lia.
Qed.

Lemma net_size_pow2 ver v p : rwf (RNet ver v p) -> r_size (RNet ver v p) = 2 ^ (width ver - p).
Proof.
  cbn [rwf]. intros (Hv & Hp & Hval). unfold r_size. cbn [r_first r_last].
  rewrite (net_first_eq _ _ _ Hp Hval), (net_last_eq _ v _ Hp). lia.
Qed.

Lemma size_pos x : rwf x -> 1 <= r_size x.
Proof. intros H. destruct (rwf_geom x H) as (_ & A & B & C). unfold r_size. lia. Qed.

(* list(x) is first..last, ascending, each once *)
Lemma addresses_spec x : rwf x ->
  Z.of_nat (length (r_addresses x)) = r_size x /\
  (forall a, In a (r_addresses x) <-> r_first x <= a <= r_last x) /\
  StronglySorted Z.lt (r_addresses x) /\ NoDup (r_addresses x) /\
  (forall k, 0 <= k < r_size x -> nth_error (r_addresses x) (Z.to_nat k) = Some (r_first x + k)).
Proof.
  intros H. pose proof (size_pos x H) as Hs. unfold r_addresses.
  split; [rewrite arith_list_length; lia|].
  split.
  { intros a. rewrite arith_list_in. unfold r_size in *. split.
    - intros (k & Hk & ->). lia.
    - intros Ha. exists (a - r_first x). lia. }
  split; [apply arith_list_sorted_pos; lia|].
  split; [apply arith_list_nodup; lia|].
  intros k Hk. rewrite arith_list_nth by lia. f_equal. lia.
Qed.

(* ------------------------------------------------------------------ __iter__ *)
Lemma iter_spec x : rwf x ->
  exists it, r_iter x = Ok it /\
    forall n, it_take n it = aseq_take n {| a_start := r_first x; a_count := r_size x; a_step := 1 |} /\
              it_take n it = list_take n (r_addresses x).
Proof.
  intros H. destruct (rwf_geom x H) as (Hv & A & B & C). pose proof (size_pos x H) as Hs.
  unfold r_iter. rewrite !addr_ok by (try assumption; lia). cbn [bind fst snd].
  eexists; split; [reflexivity|]. intros n. cbn [it_take].
  rewrite iprange_take_spec by (try assumption; lia).
  assert (E : iprange_closed (r_first x) (r_last x) 1 =
              {| a_start := r_first x; a_count := r_size x; a_step := 1 |}).
  { unfold iprange_closed, r_size. rewrite Z.div_1_r. f_equal. lia. }
  rewrite E. split; [reflexivity|]. unfold r_addresses. apply aseq_take_list. lia.
Qed.

(* ------------------------------------------------------------------ size, __len__ *)
Lemma len_spec x :
  r_size x = r_last x - r_first x + 1 /\
  r_len x = if r_size x <=? ssize_max then Ok (r_size x) else Raise IndexError.
Proof.
  split; [reflexivity|]. unfold r_len.
  destruct (Z.gtb_spec (r_size x) ssize_max), (Z.leb_spec (r_size x) ssize_max); try lia; reflexivity.
Qed.

(* ------------------------------------------------------------------ __getitem__(int) *)
Lemma index_spec x i : rwf x ->
  r_getitem_int x i =
    if (- r_size x <=? i) && (i <? r_size x) then Ok (r_ver x, r_first x + i mod r_size x) else Raise IndexError.
Proof.
  intros H. destruct (rwf_geom x H) as (Hv & A & B & C). pose proof (size_pos x H) as Hs.
  unfold r_getitem_int. set (size := r_size x) in *.
  assert (L : r_last x = r_first x + size - 1) by (unfold size, r_size; lia).
  case_leb (- size) i; case_ltb i 0; cbn [andb].
  - rewrite addr_ok by (try assumption; lia). cbn [value_error_to_type_error].
    case_ltb i size; [|lia]. do 2 f_equal.
    assert (i mod size = i + size); [|lia].
    symmetry. apply (Z.mod_unique_pos i size (-1)); lia.
  - case_leb 0 i; [|lia]. case_leb i (size - 1); cbn [andb].
    + rewrite addr_ok by (try assumption; lia). cbn [value_error_to_type_error].
      case_ltb i size; [|lia]. rewrite Z.mod_small by lia. reflexivity.
    + case_ltb i size; [lia|]. reflexivity.
  - case_leb 0 i; [lia|]. cbn [andb]. reflexivity.
  - lia.
Qed.

Lemma index_list x i : rwf x ->
  r_getitem_int x i = omap (fun a => (r_ver x, a)) (py_list_index (r_addresses x) i).
Proof.
  intros H. rewrite (index_spec x i H).
  destruct (addresses_spec x H) as (Len & _ & _ & _ & Nth). pose proof (size_pos x H) as Hs.
  unfold py_list_index. cbv zeta. rewrite Len. set (size := r_size x) in *.
  assert (M : -size <= i < 0 -> i mod size = i + size).
  { intros. symmetry. apply (Z.mod_unique_pos i size (-1)); lia. }
  case_ltb i 0; cbv iota.
  - case_ltb (i + size) 0; cbn [orb].
    + case_leb (- size) i; [lia|]. reflexivity.
    + case_leb size (i + size); [lia|]. case_leb (- size) i; [|lia]. case_ltb i size; [|lia]. cbn [andb].
      rewrite (Nth (i + size)) by lia. cbn [omap]. rewrite M by lia. reflexivity.
  - case_ltb i 0; [lia|]. case_leb size i; cbn [orb].
    + case_ltb i size; [lia|]. rewrite andb_false_r. reflexivity.
    + case_leb (- size) i; [|lia]. case_ltb i size; [|lia]. cbn [andb].
      rewrite (Nth i) by lia. cbn [omap]. rewrite Z.mod_small by lia. reflexivity.
Qed.

(* ------------------------------------------------------------------ __getitem__(slice) *)
Lemma ssize_max_ge_v4 : max_int 4 + 1 <= ssize_max.
Proof. unfold max_int, max_int_w, width, ssize_max. cbn [Z.eqb Pos.eqb]. 
  change (2 ^ 32) with 4294967296. change (2 ^ 63) with 9223372036854775808. lia. Qed.

Lemma slice_spec x a b c : rwf x -> r_ver x = 4 ->
  (step_of c = 0 ->
     py_slice_indices a b c (r_size x) = Raise ValueError /\ r_getitem_slice x a b c = Raise ValueError) /\
  (step_of c <> 0 -> exists s e it,
     py_slice_indices a b c (r_size x) = Ok (s, e, step_of c) /\
     r_getitem_slice x a b c = Ok it /\
     (forall n, it_take n it =
        aseq_take n {| a_start := r_first x + s; a_count := range_len s e (step_of c); a_step := step_of c |}) /\
     (forall k, 0 <= k < range_len s e (step_of c) -> 0 <= s + k * step_of c < r_size x)).
Proof.
  intros H V4. destruct (rwf_geom x H) as (Hv & A & B & C). pose proof (size_pos x H) as Hs.
  rewrite V4 in C. pose proof ssize_max_ge_v4 as SM.
  unfold r_getitem_slice. rewrite V4. change (4 =? 6) with false. cbv iota.
  split.
  - intros Z0. rewrite (slice_indices_step0 a b c _ Z0). split; reflexivity.
  - intros NZ. destruct (slice_indices_ok a b c (r_size x) ltac:(lia) NZ) as (s & e & E & P & N).
    set (st := step_of c) in *. rewrite E. cbn [bind].
    pose proof (range_len_nonneg s e st) as R0.
    pose proof (slice_count_le s e st (r_size x) ltac:(lia) NZ P N) as RL.
    assert (SEL : forall k, 0 <= k < range_len s e st -> 0 <= s + k * st < r_size x).
    { intros k Hk. apply (slice_selected_in_range s e st (r_size x) k); try assumption; lia. }
    rewrite py_range_len_ok by (try assumption; unfold r_size in *; lia). cbn [bind].
    set (count := range_len s e st) in *.
    destruct (Z.eqb_spec count 0) as [C0 | CN].
    + exists s, e, ItEmpty. split; [reflexivity|]. split; [reflexivity|]. split; [|exact SEL].
      intros n. unfold aseq_take. cbn [it_take a_start a_count a_step]. fold count. rewrite C0.
      rewrite Nat.min_0_r. cbn [arith_list]. destruct (Z.leb_spec 0 (Z.of_nat n)); [reflexivity|lia].
    + pose proof (SEL 0 ltac:(lia)) as S0. pose proof (SEL (count - 1) ltac:(lia)) as S1.
      unfold r_size in S0, S1.
      rewrite !addr_ok by (try reflexivity; lia). cbn [bind fst snd].
      eexists s, e, _. split; [reflexivity|]. split; [reflexivity|]. split; [|exact SEL].
      intros k. cbn [it_take]. rewrite iprange_take_spec by (try reflexivity; try assumption; lia).
      unfold iprange_closed. do 2 f_equal.
      replace (r_first x + s + (count - 1) * st - (r_first x + s)) with ((count - 1) * st) by lia.
      rewrite Z.div_mul by assumption. lia.
Qed.

Lemma slice_v6 x a b c : r_ver x = 6 -> r_getitem_slice x a b c = Raise TypeError.
Proof. intros V. unfold r_getitem_slice. rewrite V. reflexivity. Qed.

(* Python list slicing applied to the list of addresses *)
Lemma list_pick_arith n : forall len f s c,
  (forall k, 0 <= k < Z.of_nat n -> 0 <= s + k * c < Z.of_nat len) ->
  list_pick (arith_list len f 1) n s c = arith_list n (f + s) c.
Proof.
  induction n; intros len f s c Hin; [reflexivity|].
  cbn [list_pick arith_list].
  pose proof (Hin 0 ltac:(lia)) as H0. case_ltb s 0; [lia|].
  rewrite arith_list_nth by lia. f_equal; [lia|].
  rewrite IHn; [f_equal; lia|].
  intros k Hk. pose proof (Hin (k + 1) ltac:(lia)). lia.
Qed.

(* list_pick never runs off the list for triples produced by slice.indices *)
Lemma list_pick_length {A} (l : list A) n : forall s c,
  (forall k, 0 <= k < Z.of_nat n -> 0 <= s + k * c < Z.of_nat (length l)) ->
  length (list_pick l n s c) = n.
Proof.
  induction n; intros s c Hin; [reflexivity|].
  cbn [list_pick]. pose proof (Hin 0 ltac:(lia)) as H0. case_ltb s 0; [lia|].
  destruct (nth_error l (Z.to_nat s)) eqn:E.
  - cbn [length]. f_equal. apply IHn. intros k Hk. pose proof (Hin (k + 1) ltac:(lia)). lia.
  - apply nth_error_None in E. lia.
Qed.

Lemma py_list_slice_length {A} (l : list A) a b c r :
  py_list_slice l a b c = Ok r ->
  exists s e, py_slice_indices a b c (Z.of_nat (length l)) = Ok (s, e, step_of c) /\
              Z.of_nat (length r) = range_len s e (step_of c).
Proof.
  unfold py_list_slice. intros H.
  destruct (Z.eq_dec (step_of c) 0) as [Z0 | NZ].
  - rewrite (slice_indices_step0 a b c _ Z0) in H. discriminate.
  - destruct (slice_indices_ok a b c (Z.of_nat (length l)) ltac:(lia) NZ) as (s & e & E & P & N).
    rewrite E in H. cbn [bind] in H. inversion H; subst r. exists s, e. split; [exact E|].
    pose proof (range_len_nonneg s e (step_of c)).
    rewrite list_pick_length; [lia|].
    intros k Hk. apply (slice_selected_in_range s e (step_of c) _ k); try assumption; lia.
Qed.

Lemma slice_list x a b c : rwf x -> r_ver x = 4 ->
  match py_list_slice (r_addresses x) a b c with
  | Raise e => r_getitem_slice x a b c = Raise e
  | Ok l => exists it, r_getitem_slice x a b c = Ok it /\ forall n, it_take n it = list_take n l
  end.
Proof.
  intros H V4. destruct (slice_spec x a b c H V4) as [Z0 NZ].
  destruct (addresses_spec x H) as (Len & _). pose proof (size_pos x H) as Hs.
  unfold py_list_slice. rewrite Len.
  destruct (Z.eq_dec (step_of c) 0) as [E0 | NE].
  - destruct (Z0 E0) as [E1 E2]. rewrite E1. exact E2.
  - destruct (NZ NE) as (s & e & it & E1 & E2 & TK & SEL). rewrite E1. cbn [bind].
    exists it. split; [exact E2|]. intros n. rewrite TK.
    pose proof (range_len_nonneg s e (step_of c)) as R0.
    rewrite aseq_take_list by assumption. f_equal.
    unfold r_addresses. rewrite list_pick_arith; [reflexivity|].
    intros k Hk. rewrite Z2Nat.id in * by lia. apply SEL. lia.
Qed.

(* ------------------------------------------------------------------ iter_iprange, public statement *)
Lemma iprange_spec sver sv ever ev step :
  valid_ver sver = true -> valid_ver ever = true -> 0 <= sv <= max_int sver -> 0 <= ev <= max_int ever ->
  forall n,
  iter_iprange_take n sver sv ever ev step =
    if negb (sver =? ever) then ([], Raised TypeError)
    else if step =? 0 then ([], Raised ValueError)
    else aseq_take n {| a_start := sv; a_count := Z.max 0 ((ev - sv) / step + 1); a_step := step |}.
Proof.
  intros Hs He Hsv Hev n. case_eqb sver ever; cbn [negb].
  - subst ever. case_eqb step 0.
    + subst step. apply iprange_take_step0.
    + apply iprange_take_spec; assumption.
  - apply iprange_take_mismatch. assumption.
Qed.

(* slice_spec in the shape used by the property statement *)
Lemma slice_match x a b c : rwf x -> r_ver x = 4 ->
  match py_slice_indices a b c (r_size x) with
  | Raise err => err = ValueError /\ c = Some 0 /\ r_getitem_slice x a b c = Raise ValueError
  | Ok (s, e, st) =>
      st <> 0 /\ st = match c with None => 1 | Some z => z end /\
      (exists it, r_getitem_slice x a b c = Ok it /\
         forall n, it_take n it = aseq_take n {| a_start := r_first x + s; a_count := range_len s e st; a_step := st |}) /\
      (forall k, 0 <= k < range_len s e st ->
         0 <= s + k * st < r_size x /\ r_first x <= r_first x + s + k * st <= r_last x)
  end.
Proof.
  intros H V4. destruct (slice_spec x a b c H V4) as [Z0 NZ].
  destruct (Z.eq_dec (step_of c) 0) as [E0 | NE].
  - destruct (Z0 E0) as [E1 E2]. rewrite E1. split; [reflexivity|]. split; [|exact E2].
    destruct c as [z|]; cbn [step_of] in E0; [subst; reflexivity|discriminate].
  - destruct (NZ NE) as (s & e & it & E1 & E2 & TK & SEL). rewrite E1.
    split; [exact NE|]. split; [reflexivity|]. split; [exists it; split; assumption|].
    intros k Hk. pose proof (SEL k Hk). unfold r_size in *. lia.
Qed.

Lemma iprange_count_spec sv ev step : step <> 0 -> forall k, 0 <= k ->
  (k < Z.max 0 ((ev - sv) / step + 1) <-> (if 0 <? step then sv + k * step <= ev else ev <= sv + k * step)).
Proof. exact (cnt_spec sv ev step). Qed.

Lemma slice_indices_facts a b c n : 0 <= n ->
  (step_of c = 0 -> py_slice_indices a b c n = Raise ValueError) /\
  (step_of c <> 0 -> exists s e, py_slice_indices a b c n = Ok (s, e, step_of c) /\
      (0 < step_of c -> 0 <= s <= n /\ 0 <= e <= n) /\
      (step_of c < 0 -> -1 <= s <= n - 1 /\ -1 <= e <= n - 1) /\
      range_len s e (step_of c) <= n /\
      forall k, 0 <= k < range_len s e (step_of c) -> 0 <= s + k * step_of c < n).
Proof.
  intros Hn. split; [apply slice_indices_step0|]. intros NZ.
  destruct (slice_indices_ok a b c n Hn NZ) as (s & e & E & P & N). exists s, e.
  split; [exact E|]. split; [exact P|]. split; [exact N|].
  split; [apply slice_count_le; assumption|].
  intros k Hk. apply (slice_selected_in_range s e (step_of c) n k); assumption.
Qed.

(* slice.indices in closed form: normalise negatives by +n, clamp to [0,n] (step>0) or [-1,n-1] (step<0) *)
Definition norm_clamp (o : option Z) (dflt lo hi n : Z) : Z :=
  match o with None => dflt | Some v => Z.max lo (Z.min hi (if v <? 0 then v + n else v)) end.

Lemma slice_indices_explicit a b c n : 0 <= n -> step_of c <> 0 ->
  py_slice_indices a b c n =
    Ok (if 0 <? step_of c
        then (norm_clamp a 0 0 n n, norm_clamp b n 0 n n, step_of c)
        else (norm_clamp a (n - 1) (-1) (n - 1) n, norm_clamp b (-1) (-1) (n - 1) n, step_of c)).
Proof.
  intros Hn NZ. unfold py_slice_indices. fold (step_of c).
  case_ltb n 0; [lia|]. case_eqb (step_of c) 0; [lia|].
  case_ltb (step_of c) 0; case_ltb 0 (step_of c); try lia; unfold slice_clamp, norm_clamp; do 3 f_equal.
  - destruct a as [v|]; [|lia]. case_ltb v 0.
    + case_ltb (v + n) (-1); lia.
    + destruct (Z.gtb_spec v (n + -1)); lia.
  - destruct b as [v|]; [|lia]. case_ltb v 0.
    + case_ltb (v + n) (-1); lia.
    + destruct (Z.gtb_spec v (n + -1)); lia.
  - destruct a as [v|]; [|lia]. case_ltb v 0.
    + case_ltb (v + n) 0; lia.
    + destruct (Z.gtb_spec v n); lia.
  - destruct b as [v|]; [|lia]. case_ltb v 0.
    + case_ltb (v + n) 0; lia.
    + destruct (Z.gtb_spec v n); lia.
Qed.
