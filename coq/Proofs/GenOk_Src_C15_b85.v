(* Proofs/GenOk_Src_C15_b85.v -- source tie for C15 (base 85): the definitions regenerated from the text of netaddr/ip/rfc1924.py
   (Gen/pysrc_rfc1924_gen.v) equal the hand-written model of Model/Codec.v (ipv6_to_base85, base85_to_int with b85_loop, b85_char,
   b85_sum, BASE_85_DICT).  The tables BASE_85 / BASE_85_DICT are regenerated data (Gen/codec_gen.v). *)
From Coq Require Import String Ascii.
From NV Require Import Base.Tac Base.PyVal Base.PyStr Model.Ip Gen.codec_gen Model.Codec Model.SrcPrelude Model.SrcPreludeStr
  Model.SrcPreludeGlob Model.SrcPreludeB85 Gen.pysrc_gen Gen.pysrc_rfc1924_gen.
Import ListNotations.
Open Scope Z_scope.

Definition one (c : ascii) : string := String c EmptyString.

(* ---------------------------------------------------------------- chr_range *)
Lemma code_range c : 0 <= code c < 256.
Proof. destruct c as [[] [] [] [] [] [] [] []]; vm_compute; split; congruence. Qed.

Lemma chr_seq_ok n : forall a, 0 <= a -> a + Z.of_nat n <= 256 ->
  py_map_o (fun i => py_chr_o i) (py_zseq a n) = Ok (map (fun i => one (chr i)) (py_zseq a n)).
Proof.
  induction n as [|n IH]; intros a H0 H1; [reflexivity|]. cbn [py_zseq py_map_o map]. unfold py_chr_o at 1.
  replace ((0 <=? a) && (a <? 256)) with true by lia. cbn [bind]. rewrite IH by lia. reflexivity.
Qed.

(* chr_range(low, high) = the characters with codes ord(low) .. ord(high), as one-character strings *)
Lemma src_chr_range_ok lo hi :
  src_chr_range lo hi = Ok (map (fun i => one (chr i)) (py_zrange (code lo) (code hi + 1))).
Proof.
  unfold src_chr_range, py_zrange. pose proof (code_range lo). pose proof (code_range hi).
  apply chr_seq_ok; lia.
Qed.

(* ---------------------------------------------------------------- ipv6_to_base85 *)
(* `while int_val > 0: remainder.append(int_val % 85); int_val //= 85`: the generated Fixpoint tests the fuel first, the model
   the condition; for int_val < 85^k the model needs k units and the generated code k + 1 *)
Lemma src_b85_loop_ok k : forall v acc, v < 85 ^ Z.of_nat k ->
  src_ipv6_to_base85_loop1 (S k) acc v = do r <- b85_loop k v; Ok (acc ++ r)%list.
Proof.
  induction k as [|k IH]; intros v acc H.
  - cbn [src_ipv6_to_base85_loop1 b85_loop]. change (85 ^ Z.of_nat 0) with 1 in H. replace (v >? 0) with false by lia.
    cbn [bind]. rewrite app_nil_r. reflexivity.
  - remember (S k) as k1. cbn [src_ipv6_to_base85_loop1]. subst k1. cbn [b85_loop].
    destruct (v >? 0) eqn:E; [|cbn [bind]; rewrite app_nil_r; reflexivity]. cbv zeta.
    rewrite IH.
    + destruct (b85_loop k (v / 85)); cbn [bind]; [rewrite <- app_assoc|]; reflexivity.
    + rewrite Nat2Z.inj_succ, Z.pow_succ_r in H by lia. apply Z.div_lt_upper_bound; lia.
Qed.

Lemma b85_loop_digits k : forall v r, b85_loop k v = Ok r -> Forall (fun w => 0 <= w) r.
Proof.
  induction k as [|k IH]; intros v r; cbn [b85_loop]; destruct (v >? 0) eqn:E; try (intros [= <-]; constructor); try discriminate.
  destruct (b85_loop k (v / 85)) as [r'|] eqn:E'; cbn [bind]; [|discriminate]. intros [= <-].
  constructor; [pose proof (Z.mod_pos_bound v 85); lia|exact (IH _ _ E')].
Qed.

(* BASE_85[w] for w >= 0 *)
Lemma src_b85_char_ok w : 0 <= w -> py_index SrcPreludeB85.BASE_85 w = omap one (b85_char w).
Proof.
  intros H. unfold py_index, b85_char, SrcPreludeB85.BASE_85, py_str_list. fold Codec.BASE_85. cbv zeta.
  replace (w <? 0) with false by lia. rewrite map_length, nth_error_map.
  destruct (nth_error Codec.BASE_85 (Z.to_nat w)) as [c|] eqn:E.
  - assert ((Z.to_nat w < length Codec.BASE_85)%nat) by (apply nth_error_Some; rewrite E; discriminate).
    replace ((w <? 0) || (Z.of_nat (length Codec.BASE_85) <=? w)) with false by lia. reflexivity.
  - destruct ((w <? 0) || (Z.of_nat (length Codec.BASE_85) <=? w)); reflexivity.
Qed.

Lemma src_b85_chars_ok l : Forall (fun w => 0 <= w) l ->
  py_map_o (fun w => py_index SrcPreludeB85.BASE_85 w) l = omap (map one) (map_outcome b85_char l).
Proof.
  induction 1 as [|w r Hw _ IH]; [reflexivity|]. cbn [py_map_o map_outcome]. rewrite (src_b85_char_ok w Hw), IH.
  destruct (b85_char w); [|reflexivity]. cbn [omap bind]. destruct (map_outcome b85_char r); reflexivity.
Qed.

Lemma join_ones cs : join "" (map one cs) = str_of cs.
Proof.
  unfold join. cbn [chars]. f_equal. induction cs as [|c r IH]; [reflexivity|]. cbn [map chars one].
  destruct r as [|c2 r2]; [reflexivity|]. cbn [map join_chars app] in *. rewrite IH. reflexivity.
Qed.

Lemma str_of_app a b : String.append (str_of a) (str_of b) = str_of (a ++ b).
Proof. induction a as [|c a IH]; [reflexivity|]. cbn [str_of app String.append]. rewrite IH. reflexivity. Qed.

Lemma str_len_of cs : str_len (str_of cs) = Z.of_nat (length cs).
Proof. unfold str_len. f_equal. induction cs as [|c r IH]; [reflexivity|]. cbn [str_of String.length length]. rewrite IH. reflexivity. Qed.

Lemma src_ipv6_to_base85_ok addr : src_ipv6_to_base85 addr = ipv6_to_base85 addr.
Proof.
  unfold src_ipv6_to_base85, ipv6_to_base85, py_ipaddress_of_int.
  destruct (addr_of_int addr) as [[ver v]|] eqn:EA; [|reflexivity]. cbn [bind fst snd]. cbv zeta.
  change (src_IPAddress_int ver (width ver) v) with v.
  assert (Hv : v < 85 ^ Z.of_nat 20).
  { unfold addr_of_int in EA. change (max_int 4) with 4294967295 in EA. change (max_int 6) with 340282366920938463463374607431768211455 in EA.
    change (85 ^ Z.of_nat 20) with 387595310845143558731231784820556640625.
    destruct ((0 <=? addr) && (addr <=? 4294967295)) eqn:E1; [injection EA as <- <-; lia|].
    destruct ((4294967295 <? addr) && (addr <=? 340282366920938463463374607431768211455)) eqn:E2; [injection EA as <- <-; lia|discriminate]. }
  change (Z.to_nat 0 + 21)%nat with 21%nat. rewrite (src_b85_loop_ok 20 v [] Hv).
  destruct (b85_loop 20 v) as [r|] eqn:ER; [|reflexivity]. cbn [bind app].
  rewrite src_b85_chars_ok by (apply Forall_rev; exact (b85_loop_digits _ _ _ ER)).
  destruct (map_outcome b85_char (rev r)) as [cs|]; [|reflexivity]. cbn [omap bind].
  rewrite join_ones, str_len_of. unfold py_str_times. rewrite str_of_app.
  replace (Z.to_nat (20 - Z.of_nat (length cs))) with (20 - length cs)%nat by lia. reflexivity.
Qed.

(* ---------------------------------------------------------------- base85_to_ipv6 *)
(* `for i, num in enumerate(reversed(tokens)): num = BASE_85_DICT[num]; result += num * 85 ** i` *)
Lemma src_b85_sum_ok cs : forall i r, src_base85_to_ipv6_loop1 (map one cs) i r = b85_sum cs i r.
Proof.
  induction cs as [|c rest IH]; intros i r; [reflexivity|]. cbn [map src_base85_to_ipv6_loop1 b85_sum]. cbv zeta.
  unfold one at 1. cbn [py_b85_dict_get]. destruct (Codec.BASE_85_DICT c); [|reflexivity]. cbn [bind]. apply IH.
Qed.

(* the model stops at the integer handed to IPAddress(result, 6); the source returns str() of that address (the formatter is a
   parameter: property C01) *)
Lemma src_base85_to_ipv6_ok addr_str s :
  src_base85_to_ipv6 addr_str s = do v <- base85_to_int s; Ok (addr_str (6, v)).
Proof.
  unfold src_base85_to_ipv6, base85_to_int, py_str_list. cbv zeta. rewrite map_length.
  replace (Z.of_nat (length (chars s)) =? 20) with (Nat.eqb (length (chars s)) 20)
    by (destruct (Nat.eqb (length (chars s)) 20) eqn:E; [apply Nat.eqb_eq in E|apply Nat.eqb_neq in E]; lia).
  destruct (negb (Nat.eqb (length (chars s)) 20)); [reflexivity|].
  rewrite <- map_rev, src_b85_sum_ok. destruct (b85_sum (rev (chars s)) 0 0) as [result|]; [|reflexivity]. cbn [bind].
  unfold mk_addr, addr_of_int_ver. change (6 =? 4) with false. change (6 =? 6) with true. cbv iota.
  destruct (in_range_w 128 result); reflexivity.
Qed.

(* everything the C15 base-85 source tie states (Props/C15_src_b85.v) *)
Lemma C15_b85_tie_ok :
  (forall lo hi, src_chr_range lo hi = Ok (map (fun i => one (chr i)) (py_zrange (code lo) (code hi + 1)))) /\
  (forall addr, src_ipv6_to_base85 addr = ipv6_to_base85 addr) /\
  (forall k v acc, v < 85 ^ Z.of_nat k -> src_ipv6_to_base85_loop1 (S k) acc v = do r <- b85_loop k v; Ok (acc ++ r)%list) /\
  (forall addr_str s, src_base85_to_ipv6 addr_str s = do v <- base85_to_int s; Ok (addr_str (6, v))) /\
  (forall cs i r, src_base85_to_ipv6_loop1 (map one cs) i r = b85_sum cs i r).
Proof.
  split; [exact src_chr_range_ok|]. split; [exact src_ipv6_to_base85_ok|]. split; [exact src_b85_loop_ok|].
  split; [exact src_base85_to_ipv6_ok|exact src_b85_sum_ok].
Qed.
