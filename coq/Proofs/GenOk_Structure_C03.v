(* Proofs/GenOk_Structure_C03.v -- WRITTEN BY tools/mkstructure.py from the pinned tree: signatures (parameter names, order, default
   values), decorators, class bases and non-def class-body statements of the functions and classes C03 relies on, as the models, the
   harness adapters and the translator tables assume them; the regenerated lists (coq/Gen/structure_gen.v) must equal them. *)
From Coq Require Import List String Bool.
From NV Require Import Gen.structure_gen.
Import ListNotations.
Open Scope string_scope.

(* drop_<group>: functions translated by harness/gen/pysrc.py that nothing in the dependency closure of this property's theorem
   files mentions, directly or through the generated definitions they mention: their rows are another property's business
   (tools/mkstructure.py computes the lists); classes, untranslated functions and NEW functions are kept *)
Definition keep (drop : list string) (r : string * string) : bool := negb (existsb (String.eqb (fst r)) drop).

Lemma names_compat_ok : gen_names_compat = ["_bytes_join"; "_zip"; "_range"; "_iter_next"].
Proof. reflexivity. Qed.

Definition drop_compat___bytes_join : list string := [].
Definition pinned_struct_compat___bytes_join : list (string * string) := [
  ("def _bytes_join", "(*args)");
  ("def _bytes_join", "(*args)")
].
Lemma struct_compat___bytes_join_ok : filter (keep drop_compat___bytes_join) gen_struct_compat___bytes_join = pinned_struct_compat___bytes_join.
Proof. vm_compute. reflexivity. Qed.

Definition drop_compat___zip : list string := [].
Definition pinned_struct_compat___zip : list (string * string) := [
  ("def _zip", "(*args)");
  ("def _zip", "(*args)")
].
Lemma struct_compat___zip_ok : filter (keep drop_compat___zip) gen_struct_compat___zip = pinned_struct_compat___zip.
Proof. vm_compute. reflexivity. Qed.

Definition drop_compat___range : list string := [].
Definition pinned_struct_compat___range : list (string * string) := [
  ("def _range", "(*args, **kwargs)");
  ("def _range", "(*args, **kwargs)")
].
Lemma struct_compat___range_ok : filter (keep drop_compat___range) gen_struct_compat___range = pinned_struct_compat___range.
Proof. vm_compute. reflexivity. Qed.

Definition drop_compat___iter_next : list string := [].
Definition pinned_struct_compat___iter_next : list (string * string) := [
  ("def _iter_next", "(x)");
  ("def _iter_next", "(x)")
].
Lemma struct_compat___iter_next_ok : filter (keep drop_compat___iter_next) gen_struct_compat___iter_next = pinned_struct_compat___iter_next.
Proof. vm_compute. reflexivity. Qed.

Definition drop_ip_init__BaseIP : list string := ["def BaseIP._set_value"; "def BaseIP.__hash__"; "def BaseIP.__eq__"; "def BaseIP.__ne__"; "def BaseIP.__lt__"; "def BaseIP.__le__"; "def BaseIP.__gt__"; "def BaseIP.__ge__"; "def BaseIP.is_unicast"; "def BaseIP.is_multicast"; "def BaseIP.is_loopback"; "def BaseIP.is_private"; "def BaseIP.is_link_local"; "def BaseIP.is_reserved"; "def BaseIP.is_ipv4_mapped"; "def BaseIP.is_ipv4_compat"].
Definition pinned_struct_ip_init__BaseIP : list (string * string) := [
  ("class BaseIP", "(object) __slots__ = ('_value', '_module', '__weakref__') ; value = property(lambda self: self._value, _set_value, doc='a positive integer representing the value of IP address/subnet.')");
  ("def BaseIP.__init__", "(self)");
  ("def BaseIP.key", "(self)");
  ("def BaseIP.sort_key", "(self)");
  ("def BaseIP.info", "@property (self)");
  ("def BaseIP.version", "@property (self)")
].
Lemma struct_ip_init__BaseIP_ok : filter (keep drop_ip_init__BaseIP) gen_struct_ip_init__BaseIP = pinned_struct_ip_init__BaseIP.
Proof. vm_compute. reflexivity. Qed.

Definition drop_ip_init__IPAddress : list string := ["def IPAddress.__getstate__"; "def IPAddress.__setstate__"; "def IPAddress.netmask_bits"; "def IPAddress.__iadd__"; "def IPAddress.__isub__"; "def IPAddress.__add__"; "def IPAddress.__sub__"; "def IPAddress.__rsub__"; "def IPAddress.key"; "def IPAddress.sort_key"; "def IPAddress.__int__"; "def IPAddress.__long__"; "def IPAddress.__oct__"; "def IPAddress.__hex__"; "def IPAddress.__index__"; "def IPAddress.__bytes__"; "def IPAddress.bits"; "def IPAddress.packed"; "def IPAddress.words"; "def IPAddress.bin"; "def IPAddress.reverse_dns"; "def IPAddress.ipv4"; "def IPAddress.ipv6"; "def IPAddress.format"; "def IPAddress.__or__"; "def IPAddress.__and__"; "def IPAddress.__xor__"; "def IPAddress.__lshift__"; "def IPAddress.__rshift__"; "def IPAddress.__nonzero__"; "def IPAddress.__repr__"].
Definition pinned_struct_ip_init__IPAddress : list (string * string) := [
  ("class IPAddress", "(BaseIP) __slots__ = () ; __radd__ = __add__ ; __bool__ = __nonzero__");
  ("def IPAddress.__init__", "(self, addr, version=None, flags=0)");
  ("def IPAddress.is_hostmask", "(self)");
  ("def IPAddress.is_netmask", "(self)");
  ("def IPAddress.__str__", "(self)")
].
Lemma struct_ip_init__IPAddress_ok : filter (keep drop_ip_init__IPAddress) gen_struct_ip_init__IPAddress = pinned_struct_ip_init__IPAddress.
Proof. vm_compute. reflexivity. Qed.

Definition drop_ip_init__IPNetwork : list string := ["def IPNetwork.__getstate__"; "def IPNetwork.__setstate__"; "def IPNetwork._set_prefixlen"; "def IPNetwork.ip"; "def IPNetwork.network"; "def IPNetwork.broadcast"; "def IPNetwork.first"; "def IPNetwork.last"; "def IPNetwork.netmask"; "def IPNetwork.netmask"; "def IPNetwork._netmask_int"; "def IPNetwork.hostmask"; "def IPNetwork._hostmask_int"; "def IPNetwork.cidr"; "def IPNetwork.__iadd__"; "def IPNetwork.__isub__"; "def IPNetwork.__contains__"; "def IPNetwork.key"; "def IPNetwork.sort_key"; "def IPNetwork.ipv4"; "def IPNetwork.ipv6"; "def IPNetwork.previous"; "def IPNetwork.next"; "def IPNetwork.supernet"; "def IPNetwork.subnet"; "def IPNetwork.iter_hosts"; "def IPNetwork.__repr__"].
Definition pinned_struct_ip_init__IPNetwork : list (string * string) := [
  ("class IPNetwork", "(BaseIP, IPListMixin) __slots__ = ('_prefixlen',) ; prefixlen = property(lambda self: self._prefixlen, _set_prefixlen, doc='size of the bitmask used to separate the network from the host bits')");
  ("def IPNetwork.__init__", "(self, addr, implicit_prefix=False, version=None, flags=0)");
  ("def IPNetwork.__str__", "(self)")
].
Lemma struct_ip_init__IPNetwork_ok : filter (keep drop_ip_init__IPNetwork) gen_struct_ip_init__IPNetwork = pinned_struct_ip_init__IPNetwork.
Proof. vm_compute. reflexivity. Qed.

Definition drop_ip_init__IPListMixin : list string := ["def IPListMixin.__iter__"; "def IPListMixin.size"; "def IPListMixin.__len__"; "def IPListMixin.__getitem__"; "def IPListMixin.__contains__"; "def IPListMixin.__nonzero__"].
Definition pinned_struct_ip_init__IPListMixin : list (string * string) := [
  ("class IPListMixin", "(object) __slots__ = () ; __bool__ = __nonzero__")
].
Lemma struct_ip_init__IPListMixin_ok : filter (keep drop_ip_init__IPListMixin) gen_struct_ip_init__IPListMixin = pinned_struct_ip_init__IPListMixin.
Proof. vm_compute. reflexivity. Qed.

Definition drop_ip_init__parse_ip_network : list string := [].
Definition pinned_struct_ip_init__parse_ip_network : list (string * string) := [
  ("def parse_ip_network", "(module, addr, implicit_prefix=False, flags=0)")
].
Lemma struct_ip_init__parse_ip_network_ok : filter (keep drop_ip_init__parse_ip_network) gen_struct_ip_init__parse_ip_network = pinned_struct_ip_init__parse_ip_network.
Proof. vm_compute. reflexivity. Qed.

Definition drop_ip_init___arg_repr : list string := [].
Definition pinned_struct_ip_init___arg_repr : list (string * string) := [
  ("def _arg_repr", "(value)")
].
Lemma struct_ip_init___arg_repr_ok : filter (keep drop_ip_init___arg_repr) gen_struct_ip_init___arg_repr = pinned_struct_ip_init___arg_repr.
Proof. vm_compute. reflexivity. Qed.

Definition drop_ip_init__cidr_abbrev_to_verbose : list string := [].
Definition pinned_struct_ip_init__cidr_abbrev_to_verbose : list (string * string) := [
  ("def cidr_abbrev_to_verbose", "(abbrev_cidr)");
  ("def cidr_abbrev_to_verbose.classful_prefix", "(octet)")
].
Lemma struct_ip_init__cidr_abbrev_to_verbose_ok : filter (keep drop_ip_init__cidr_abbrev_to_verbose) gen_struct_ip_init__cidr_abbrev_to_verbose = pinned_struct_ip_init__cidr_abbrev_to_verbose.
Proof. vm_compute. reflexivity. Qed.

Lemma names_strategy_ipv4_ok : gen_names_strategy_ipv4 = ["valid_str"; "str_to_int"; "int_to_str"; "int_to_arpa"; "int_to_packed"; "packed_to_int"; "valid_words"; "int_to_words"; "words_to_int"; "valid_bits"; "bits_to_int"; "int_to_bits"; "valid_bin"; "int_to_bin"; "bin_to_int"; "expand_partial_address"].
Proof. reflexivity. Qed.

Definition drop_strategy_ipv4__valid_str : list string := [].
Definition pinned_struct_strategy_ipv4__valid_str : list (string * string) := [
  ("def valid_str", "(addr, flags=0)")
].
Lemma struct_strategy_ipv4__valid_str_ok : filter (keep drop_strategy_ipv4__valid_str) gen_struct_strategy_ipv4__valid_str = pinned_struct_strategy_ipv4__valid_str.
Proof. vm_compute. reflexivity. Qed.

Definition drop_strategy_ipv4__str_to_int : list string := [].
Definition pinned_struct_strategy_ipv4__str_to_int : list (string * string) := [
  ("def str_to_int", "(addr, flags=0)")
].
Lemma struct_strategy_ipv4__str_to_int_ok : filter (keep drop_strategy_ipv4__str_to_int) gen_struct_strategy_ipv4__str_to_int = pinned_struct_strategy_ipv4__str_to_int.
Proof. vm_compute. reflexivity. Qed.

Definition drop_strategy_ipv4__int_to_str : list string := [].
Definition pinned_struct_strategy_ipv4__int_to_str : list (string * string) := [
  ("def int_to_str", "(int_val, dialect=None)")
].
Lemma struct_strategy_ipv4__int_to_str_ok : filter (keep drop_strategy_ipv4__int_to_str) gen_struct_strategy_ipv4__int_to_str = pinned_struct_strategy_ipv4__int_to_str.
Proof. vm_compute. reflexivity. Qed.

Definition drop_strategy_ipv4__int_to_arpa : list string := [].
Definition pinned_struct_strategy_ipv4__int_to_arpa : list (string * string) := [
  ("def int_to_arpa", "(int_val)")
].
Lemma struct_strategy_ipv4__int_to_arpa_ok : filter (keep drop_strategy_ipv4__int_to_arpa) gen_struct_strategy_ipv4__int_to_arpa = pinned_struct_strategy_ipv4__int_to_arpa.
Proof. vm_compute. reflexivity. Qed.

Definition drop_strategy_ipv4__int_to_packed : list string := [].
Definition pinned_struct_strategy_ipv4__int_to_packed : list (string * string) := [
  ("def int_to_packed", "(int_val)")
].
Lemma struct_strategy_ipv4__int_to_packed_ok : filter (keep drop_strategy_ipv4__int_to_packed) gen_struct_strategy_ipv4__int_to_packed = pinned_struct_strategy_ipv4__int_to_packed.
Proof. vm_compute. reflexivity. Qed.

Definition drop_strategy_ipv4__packed_to_int : list string := [].
Definition pinned_struct_strategy_ipv4__packed_to_int : list (string * string) := [
  ("def packed_to_int", "(packed_int)")
].
Lemma struct_strategy_ipv4__packed_to_int_ok : filter (keep drop_strategy_ipv4__packed_to_int) gen_struct_strategy_ipv4__packed_to_int = pinned_struct_strategy_ipv4__packed_to_int.
Proof. vm_compute. reflexivity. Qed.

Definition drop_strategy_ipv4__valid_words : list string := [].
Definition pinned_struct_strategy_ipv4__valid_words : list (string * string) := [
  ("def valid_words", "(words)")
].
Lemma struct_strategy_ipv4__valid_words_ok : filter (keep drop_strategy_ipv4__valid_words) gen_struct_strategy_ipv4__valid_words = pinned_struct_strategy_ipv4__valid_words.
Proof. vm_compute. reflexivity. Qed.

Definition drop_strategy_ipv4__int_to_words : list string := [].
Definition pinned_struct_strategy_ipv4__int_to_words : list (string * string) := [
  ("def int_to_words", "(int_val)")
].
Lemma struct_strategy_ipv4__int_to_words_ok : filter (keep drop_strategy_ipv4__int_to_words) gen_struct_strategy_ipv4__int_to_words = pinned_struct_strategy_ipv4__int_to_words.
Proof. vm_compute. reflexivity. Qed.

Definition drop_strategy_ipv4__words_to_int : list string := [].
Definition pinned_struct_strategy_ipv4__words_to_int : list (string * string) := [
  ("def words_to_int", "(words)")
].
Lemma struct_strategy_ipv4__words_to_int_ok : filter (keep drop_strategy_ipv4__words_to_int) gen_struct_strategy_ipv4__words_to_int = pinned_struct_strategy_ipv4__words_to_int.
Proof. vm_compute. reflexivity. Qed.

Definition drop_strategy_ipv4__valid_bits : list string := [].
Definition pinned_struct_strategy_ipv4__valid_bits : list (string * string) := [
  ("def valid_bits", "(bits)")
].
Lemma struct_strategy_ipv4__valid_bits_ok : filter (keep drop_strategy_ipv4__valid_bits) gen_struct_strategy_ipv4__valid_bits = pinned_struct_strategy_ipv4__valid_bits.
Proof. vm_compute. reflexivity. Qed.

Definition drop_strategy_ipv4__bits_to_int : list string := [].
Definition pinned_struct_strategy_ipv4__bits_to_int : list (string * string) := [
  ("def bits_to_int", "(bits)")
].
Lemma struct_strategy_ipv4__bits_to_int_ok : filter (keep drop_strategy_ipv4__bits_to_int) gen_struct_strategy_ipv4__bits_to_int = pinned_struct_strategy_ipv4__bits_to_int.
Proof. vm_compute. reflexivity. Qed.

Definition drop_strategy_ipv4__int_to_bits : list string := [].
Definition pinned_struct_strategy_ipv4__int_to_bits : list (string * string) := [
  ("def int_to_bits", "(int_val, word_sep=None)")
].
Lemma struct_strategy_ipv4__int_to_bits_ok : filter (keep drop_strategy_ipv4__int_to_bits) gen_struct_strategy_ipv4__int_to_bits = pinned_struct_strategy_ipv4__int_to_bits.
Proof. vm_compute. reflexivity. Qed.

Definition drop_strategy_ipv4__valid_bin : list string := [].
Definition pinned_struct_strategy_ipv4__valid_bin : list (string * string) := [
  ("def valid_bin", "(bin_val)")
].
Lemma struct_strategy_ipv4__valid_bin_ok : filter (keep drop_strategy_ipv4__valid_bin) gen_struct_strategy_ipv4__valid_bin = pinned_struct_strategy_ipv4__valid_bin.
Proof. vm_compute. reflexivity. Qed.

Definition drop_strategy_ipv4__int_to_bin : list string := [].
Definition pinned_struct_strategy_ipv4__int_to_bin : list (string * string) := [
  ("def int_to_bin", "(int_val)")
].
Lemma struct_strategy_ipv4__int_to_bin_ok : filter (keep drop_strategy_ipv4__int_to_bin) gen_struct_strategy_ipv4__int_to_bin = pinned_struct_strategy_ipv4__int_to_bin.
Proof. vm_compute. reflexivity. Qed.

Definition drop_strategy_ipv4__bin_to_int : list string := [].
Definition pinned_struct_strategy_ipv4__bin_to_int : list (string * string) := [
  ("def bin_to_int", "(bin_val)")
].
Lemma struct_strategy_ipv4__bin_to_int_ok : filter (keep drop_strategy_ipv4__bin_to_int) gen_struct_strategy_ipv4__bin_to_int = pinned_struct_strategy_ipv4__bin_to_int.
Proof. vm_compute. reflexivity. Qed.

Definition drop_strategy_ipv4__expand_partial_address : list string := [].
Definition pinned_struct_strategy_ipv4__expand_partial_address : list (string * string) := [
  ("def expand_partial_address", "(addr)")
].
Lemma struct_strategy_ipv4__expand_partial_address_ok : filter (keep drop_strategy_ipv4__expand_partial_address) gen_struct_strategy_ipv4__expand_partial_address = pinned_struct_strategy_ipv4__expand_partial_address.
Proof. vm_compute. reflexivity. Qed.

Lemma names_strategy_ipv6_ok : gen_names_strategy_ipv6 = ["ipv6_compact"; "ipv6_full"; "ipv6_verbose"; "valid_str"; "str_to_int"; "int_to_str"; "int_to_arpa"; "int_to_packed"; "packed_to_int"; "valid_words"; "int_to_words"; "words_to_int"; "valid_bits"; "bits_to_int"; "int_to_bits"; "valid_bin"; "int_to_bin"; "bin_to_int"].
Proof. reflexivity. Qed.

Definition drop_strategy_ipv6__ipv6_compact : list string := [].
Definition pinned_struct_strategy_ipv6__ipv6_compact : list (string * string) := [
  ("class ipv6_compact", "(object) word_fmt = '%x' ; compact = True")
].
Lemma struct_strategy_ipv6__ipv6_compact_ok : filter (keep drop_strategy_ipv6__ipv6_compact) gen_struct_strategy_ipv6__ipv6_compact = pinned_struct_strategy_ipv6__ipv6_compact.
Proof. vm_compute. reflexivity. Qed.

Definition drop_strategy_ipv6__ipv6_full : list string := [].
Definition pinned_struct_strategy_ipv6__ipv6_full : list (string * string) := [
  ("class ipv6_full", "(ipv6_compact) compact = False")
].
Lemma struct_strategy_ipv6__ipv6_full_ok : filter (keep drop_strategy_ipv6__ipv6_full) gen_struct_strategy_ipv6__ipv6_full = pinned_struct_strategy_ipv6__ipv6_full.
Proof. vm_compute. reflexivity. Qed.

Definition drop_strategy_ipv6__ipv6_verbose : list string := [].
Definition pinned_struct_strategy_ipv6__ipv6_verbose : list (string * string) := [
  ("class ipv6_verbose", "(ipv6_compact) word_fmt = '%.4x' ; compact = False")
].
Lemma struct_strategy_ipv6__ipv6_verbose_ok : filter (keep drop_strategy_ipv6__ipv6_verbose) gen_struct_strategy_ipv6__ipv6_verbose = pinned_struct_strategy_ipv6__ipv6_verbose.
Proof. vm_compute. reflexivity. Qed.

Definition drop_strategy_ipv6__valid_str : list string := [].
Definition pinned_struct_strategy_ipv6__valid_str : list (string * string) := [
  ("def valid_str", "(addr, flags=0)")
].
Lemma struct_strategy_ipv6__valid_str_ok : filter (keep drop_strategy_ipv6__valid_str) gen_struct_strategy_ipv6__valid_str = pinned_struct_strategy_ipv6__valid_str.
Proof. vm_compute. reflexivity. Qed.

Definition drop_strategy_ipv6__str_to_int : list string := [].
Definition pinned_struct_strategy_ipv6__str_to_int : list (string * string) := [
  ("def str_to_int", "(addr, flags=0)")
].
Lemma struct_strategy_ipv6__str_to_int_ok : filter (keep drop_strategy_ipv6__str_to_int) gen_struct_strategy_ipv6__str_to_int = pinned_struct_strategy_ipv6__str_to_int.
Proof. vm_compute. reflexivity. Qed.

Definition drop_strategy_ipv6__int_to_str : list string := [].
Definition pinned_struct_strategy_ipv6__int_to_str : list (string * string) := [
  ("def int_to_str", "(int_val, dialect=None)")
].
Lemma struct_strategy_ipv6__int_to_str_ok : filter (keep drop_strategy_ipv6__int_to_str) gen_struct_strategy_ipv6__int_to_str = pinned_struct_strategy_ipv6__int_to_str.
Proof. vm_compute. reflexivity. Qed.

Definition drop_strategy_ipv6__int_to_arpa : list string := [].
Definition pinned_struct_strategy_ipv6__int_to_arpa : list (string * string) := [
  ("def int_to_arpa", "(int_val)")
].
Lemma struct_strategy_ipv6__int_to_arpa_ok : filter (keep drop_strategy_ipv6__int_to_arpa) gen_struct_strategy_ipv6__int_to_arpa = pinned_struct_strategy_ipv6__int_to_arpa.
Proof. vm_compute. reflexivity. Qed.

Definition drop_strategy_ipv6__int_to_packed : list string := [].
Definition pinned_struct_strategy_ipv6__int_to_packed : list (string * string) := [
  ("def int_to_packed", "(int_val)")
].
Lemma struct_strategy_ipv6__int_to_packed_ok : filter (keep drop_strategy_ipv6__int_to_packed) gen_struct_strategy_ipv6__int_to_packed = pinned_struct_strategy_ipv6__int_to_packed.
Proof. vm_compute. reflexivity. Qed.

Definition drop_strategy_ipv6__packed_to_int : list string := [].
Definition pinned_struct_strategy_ipv6__packed_to_int : list (string * string) := [
  ("def packed_to_int", "(packed_int)")
].
Lemma struct_strategy_ipv6__packed_to_int_ok : filter (keep drop_strategy_ipv6__packed_to_int) gen_struct_strategy_ipv6__packed_to_int = pinned_struct_strategy_ipv6__packed_to_int.
Proof. vm_compute. reflexivity. Qed.

Definition drop_strategy_ipv6__valid_words : list string := [].
Definition pinned_struct_strategy_ipv6__valid_words : list (string * string) := [
  ("def valid_words", "(words)")
].
Lemma struct_strategy_ipv6__valid_words_ok : filter (keep drop_strategy_ipv6__valid_words) gen_struct_strategy_ipv6__valid_words = pinned_struct_strategy_ipv6__valid_words.
Proof. vm_compute. reflexivity. Qed.

Definition drop_strategy_ipv6__int_to_words : list string := [].
Definition pinned_struct_strategy_ipv6__int_to_words : list (string * string) := [
  ("def int_to_words", "(int_val, num_words=None, word_size=None)")
].
Lemma struct_strategy_ipv6__int_to_words_ok : filter (keep drop_strategy_ipv6__int_to_words) gen_struct_strategy_ipv6__int_to_words = pinned_struct_strategy_ipv6__int_to_words.
Proof. vm_compute. reflexivity. Qed.

Definition drop_strategy_ipv6__words_to_int : list string := [].
Definition pinned_struct_strategy_ipv6__words_to_int : list (string * string) := [
  ("def words_to_int", "(words)")
].
Lemma struct_strategy_ipv6__words_to_int_ok : filter (keep drop_strategy_ipv6__words_to_int) gen_struct_strategy_ipv6__words_to_int = pinned_struct_strategy_ipv6__words_to_int.
Proof. vm_compute. reflexivity. Qed.

Definition drop_strategy_ipv6__valid_bits : list string := [].
Definition pinned_struct_strategy_ipv6__valid_bits : list (string * string) := [
  ("def valid_bits", "(bits)")
].
Lemma struct_strategy_ipv6__valid_bits_ok : filter (keep drop_strategy_ipv6__valid_bits) gen_struct_strategy_ipv6__valid_bits = pinned_struct_strategy_ipv6__valid_bits.
Proof. vm_compute. reflexivity. Qed.

Definition drop_strategy_ipv6__bits_to_int : list string := [].
Definition pinned_struct_strategy_ipv6__bits_to_int : list (string * string) := [
  ("def bits_to_int", "(bits)")
].
Lemma struct_strategy_ipv6__bits_to_int_ok : filter (keep drop_strategy_ipv6__bits_to_int) gen_struct_strategy_ipv6__bits_to_int = pinned_struct_strategy_ipv6__bits_to_int.
Proof. vm_compute. reflexivity. Qed.

Definition drop_strategy_ipv6__int_to_bits : list string := [].
Definition pinned_struct_strategy_ipv6__int_to_bits : list (string * string) := [
  ("def int_to_bits", "(int_val, word_sep=None)")
].
Lemma struct_strategy_ipv6__int_to_bits_ok : filter (keep drop_strategy_ipv6__int_to_bits) gen_struct_strategy_ipv6__int_to_bits = pinned_struct_strategy_ipv6__int_to_bits.
Proof. vm_compute. reflexivity. Qed.

Definition drop_strategy_ipv6__valid_bin : list string := [].
Definition pinned_struct_strategy_ipv6__valid_bin : list (string * string) := [
  ("def valid_bin", "(bin_val)")
].
Lemma struct_strategy_ipv6__valid_bin_ok : filter (keep drop_strategy_ipv6__valid_bin) gen_struct_strategy_ipv6__valid_bin = pinned_struct_strategy_ipv6__valid_bin.
Proof. vm_compute. reflexivity. Qed.

Definition drop_strategy_ipv6__int_to_bin : list string := [].
Definition pinned_struct_strategy_ipv6__int_to_bin : list (string * string) := [
  ("def int_to_bin", "(int_val)")
].
Lemma struct_strategy_ipv6__int_to_bin_ok : filter (keep drop_strategy_ipv6__int_to_bin) gen_struct_strategy_ipv6__int_to_bin = pinned_struct_strategy_ipv6__int_to_bin.
Proof. vm_compute. reflexivity. Qed.

Definition drop_strategy_ipv6__bin_to_int : list string := [].
Definition pinned_struct_strategy_ipv6__bin_to_int : list (string * string) := [
  ("def bin_to_int", "(bin_val)")
].
Lemma struct_strategy_ipv6__bin_to_int_ok : filter (keep drop_strategy_ipv6__bin_to_int) gen_struct_strategy_ipv6__bin_to_int = pinned_struct_strategy_ipv6__bin_to_int.
Proof. vm_compute. reflexivity. Qed.

