(* Proofs/NetDen.v — shared vocabulary for C05 / C06 / C07 / C20: denotation of lists of IPNetwork objects of both
   families, canonical lists, the order-free set invariant, and the specifications (as Props) that C05 proves and
   C06/C07/C20 consume. *)
From NV Require Import Base.Tac Base.PyVal Base.Bits Base.Canon Model.Ip Model.Partition Model.Span Model.Merge Model.Sets
  Proofs.C02.
From Coq Require Import Sorting.Sorted Sorting.Permutation.
Open Scope Z_scope.

(* ---- one network ---- *)
Definition hostfree (n : net) : Prop := nval n = nf n.
Definition wfh (n : net) : Prop := wf_net n /\ hostfree n.          (* well formed and host-bit-free *)
(* address (ver, x) lies in n *)
Definition in_net (n : net) (ver x : Z) : Prop := nver n = ver /\ nf n <= x <= nl n.
(* the Canon block of a network: first address and prefix *)
Definition net_blk (n : net) : blk := {| bv := nf n; bp := nplen n |}.

(* ---- lists ---- *)
Definition den (l : list net) (ver x : Z) : Prop := exists n, In n l /\ in_net n ver x.
Definition fam (ver : Z) (l : list net) : list net := filter (fun n => nver n =? ver) l.
Definition fam_blks (ver : Z) (l : list net) : list blk := map net_blk (fam ver l).

(* the unique minimal sorted host-bit-free CIDR list of a set of addresses of both families:
   IPv4 blocks first, each family canonical in the sense of Base/Canon.v *)
Definition canon_nets (l : list net) : Prop :=
  Forall wfh l /\
  l = fam 4 l ++ fam 6 l /\
  canon 32 (fam_blks 4 l) /\ canon 128 (fam_blks 6 l).

(* ---- order-free invariant of the stored dict of an IPSet ---- *)
Definition overlap (a b : net) : Prop := exists ver x, in_net a ver x /\ in_net b ver x.
Definition siblings (a b : net) : Prop := nver a = nver b /\ sib (width (nver a)) (net_blk a) (net_blk b).
Definition SetInv (d : list net) : Prop :=
  Forall wfh d /\ ForallOrdPairs (fun a b => ~ overlap a b) d /\
  (forall a b, In a d -> In b d -> ~ siblings a b).

(* ---- an input item of cidr_merge ---- *)
Definition wf_mitem (m : mitem) : Prop :=
  match m with
  | MNet n => wf_net n
  | MRange ver s e => valid_ver ver = true /\ 0 <= s <= e /\ e < 2 ^ width ver
  end.
Definition in_mitem (m : mitem) (ver x : Z) : Prop := mi_ver m = ver /\ mi_first m <= x <= mi_last m.
Definition den_items (l : list mitem) (ver x : Z) : Prop := exists m, In m l /\ in_mitem m ver x.

(* ---- specifications proved in Proofs/C05.v ---- *)
(* iprange_to_cidrs: for start.first <= end.last of one family, the canonical list of exactly that interval *)
Definition iprange_to_cidrs_spec : Prop :=
  forall s e, wf_net s -> wf_net e -> nver s = nver e -> nf s <= nl e ->
    exists l, iprange_to_cidrs s e = Ok l /\ canon_nets l /\
      forall ver x, den l ver x <-> (ver = nver s /\ nf s <= x <= nl e).

(* cidr_merge: for any finite list of well-formed inputs, the canonical list of exactly their union *)
Definition cidr_merge_spec : Prop :=
  forall items, Forall wf_mitem items ->
    exists l, cidr_merge items = Ok l /\ canon_nets l /\
      forall ver x, den l ver x <-> den_items items ver x.

(* ---- basic facts ---- *)
Lemma den_nil ver x : ~ den [] ver x.
Proof. intros (n & [] & _). Qed.

Lemma den_cons n l ver x : den (n :: l) ver x <-> in_net n ver x \/ den l ver x.
Proof.
  unfold den. split.
  - intros (m & [<-|Hm] & I); [left; exact I|right; eauto].
  - intros [I|(m & Hm & I)]; [exists n; split; [now left|exact I]|exists m; split; [now right|exact I]].
Qed.

Lemma den_app l1 l2 ver x : den (l1 ++ l2) ver x <-> den l1 ver x \/ den l2 ver x.
Proof.
  unfold den. split.
  - intros (n & Hn & I). apply in_app_or in Hn. destruct Hn; [left|right]; eauto.
  - intros [(n & Hn & I)|(n & Hn & I)]; exists n; split; auto; apply in_or_app; auto.
Qed.

Lemma den_perm l1 l2 ver x : Permutation l1 l2 -> (den l1 ver x <-> den l2 ver x).
Proof.
  intros P. unfold den. split; intros (n & Hn & I); exists n; split; auto.
  - eapply Permutation_in; eauto.
  - eapply Permutation_in; [apply Permutation_sym|]; eauto.
Qed.

Lemma wf_width n : wf_net n -> 0 <= width (nver n).
Proof. intros _. apply width_nonneg. Qed.

(* first / last of a well-formed network in plain arithmetic (from the C02 identities) *)
Lemma nf_eq n : wf_net n -> nf n = floor2 (nval n) (width (nver n) - nplen n).
Proof. intros (_ & Hv & Hp). unfold nf, nfirst. apply net_first_eq; assumption. Qed.

Lemma nl_eq n : wf_net n -> nl n = nf n + 2 ^ (width (nver n) - nplen n) - 1.
Proof. intros W. pose proof W as (_ & Hv & Hp). rewrite nf_eq by exact W. unfold nl, nlast. apply net_last_eq; assumption. Qed.

Lemma net_blk_aligned n : wf_net n -> aligned (width (nver n)) (net_blk n).
Proof.
  intros W. pose proof W as (_ & Hv & Hp). unfold aligned, net_blk, bsize; cbn [bv bp].
  rewrite nf_eq by exact W. split; [exact Hp|split].
  - apply floor2_nonneg; lia.
  - apply floor2_divide; lia.
Qed.

Lemma in_net_inb n ver x : wf_net n -> (in_net n ver x <-> nver n = ver /\ inb (width (nver n)) (net_blk n) x).
Proof.
  intros W. unfold in_net, inb, net_blk, bsize; cbn [bv bp]. rewrite nl_eq by exact W. split; intros [E H]; (split; [exact E|lia]).
Qed.

(* ---- arguments of the IPSet API (Model/Sets.v) and what they denote ---- *)
Definition wf_elem (e : elem) : Prop :=
  match e with
  | EInt i => 0 <= i < 2 ^ 128
  | EAddr ver v => valid_ver ver = true /\ 0 <= v < 2 ^ width ver
  | ENet n => wf_net n
  | ERange ver s e' => valid_ver ver = true /\ 0 <= s <= e' /\ e' < 2 ^ width ver
  end.
Definition in_elem (e : elem) (ver x : Z) : Prop :=
  match e with
  | EInt i => x = i /\ ((ver = 4 /\ 0 <= i < 2 ^ 32) \/ (ver = 6 /\ 2 ^ 32 <= i < 2 ^ 128))
  | EAddr v a => ver = v /\ x = a
  | ENet n => in_net n ver x
  | ERange v s e' => ver = v /\ s <= x <= e'
  end.
Definition wf_sarg (a : sarg) : Prop :=
  match a with
  | ANone => True
  | ANet n => wf_net n
  | ARange ver s e => valid_ver ver = true /\ 0 <= s <= e /\ e < 2 ^ width ver
  | ASet d => SetInv d
  | AIter l => Forall wf_elem l
  | AElem _ => False
  end.
Definition in_sarg (a : sarg) (ver x : Z) : Prop :=
  match a with
  | ANone => False
  | ANet n => in_net n ver x
  | ARange v s e => ver = v /\ s <= x <= e
  | ASet d => den d ver x
  | AIter l => exists e, In e l /\ in_elem e ver x
  | AElem _ => False
  end.
