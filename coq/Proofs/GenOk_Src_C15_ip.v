(* Proofs/GenOk_Src_C15_ip.v — source tie for C15, second part: the definitions regenerated from the text of
   * netaddr/strategy/__init__.py int_to_bits (Gen/pysrc_strategy_bits_gen.v: the `for word in int_to_words(..)` loop with the
     nested `while word:` loop, BYTES_TO_BITS[word & 255] read from the regenerated table, ''.join / or / '0' * n / [-n:]), and
   * the integer / word / packed / bit-string functions of netaddr/strategy/ipv4.py and ipv6.py (Gen/pysrc_ipv4_gen.v,
     pysrc_ipv6_gen.v: the module constants word_size / num_words / word_sep / width read from the module text, calls of the
     translated netaddr.strategy functions through the alias imports, struct.pack / struct.unpack = Codec.struct_pack /
     struct_unpack, `if x is None: x = globals()['x']`)
   equal the hand-written model of Model/Codec.v that the theorems of Props/C15.v are about.
   Hypotheses: 0 <= word_size (and 0 <= num_words) for the generic int_to_bits and for explicit arguments of ipv6.int_to_words,
   as in C15_source_tie; none for the module functions (their sizes are the module constants). *)
From Coq Require Import String Ascii.
From NV Require Import Base.Tac Base.PyVal Base.PyStr Base.PyStrFacts Base.Bits Model.Ip Model.Codec Model.SrcPrelude Model.SrcPreludeStr
  Model.SrcPreludeText Gen.codec_gen Gen.pysrc_gen Gen.pysrc_strategy_gen Gen.pysrc_strategy_bits_gen Gen.pysrc_ipv4_gen Gen.pysrc_ipv6_gen
  Proofs.GenOk_C15 Proofs.GenOk_Src_C15.
Import ListNotations.
Close Scope string_scope.
Open Scope list_scope.
Open Scope Z_scope.

(* ---------------------------------------------------------------- BYTES_TO_BITS[word & 255] *)
Definition table_row_ok (k : Z) : bool :=
  match py_list_item py_BYTES_TO_BITS k with Ok s => String.eqb s (str_of (byte_bits k)) | Raise _ => false end.

Lemma table_rows_ok : forallb table_row_ok (map Z.of_nat (seq 0 256)) = true.
Proof. vm_compute. reflexivity. Qed.

Lemma table_item_ok k : 0 <= k < 256 -> py_list_item py_BYTES_TO_BITS k = Ok (str_of (byte_bits k)).
Proof.
  intros H. pose proof table_rows_ok as T. rewrite forallb_forall in T.
  assert (I : In k (map Z.of_nat (seq 0 256))).
  { apply in_map_iff. exists (Z.to_nat k). split; [lia|]. apply in_seq. lia. }
  specialize (T k I). unfold table_row_ok in T.
  destruct (py_list_item py_BYTES_TO_BITS k) as [s|e]; [|discriminate].
  apply String.eqb_eq in T. subst s. reflexivity.
Qed.

Lemma land255_range w : 0 <= Z.land w 255 < 256.
Proof. change 255 with (2 ^ 8 - 1). rewrite land_ones_mod by lia. apply Z.mod_pos_bound. lia. Qed.

(* ---------------------------------------------------------------- the `while word:` loop = Codec.word_bytes_loop *)
Lemma src_int_to_bits_loop2_ok : forall f w bl,
  src_strategy_int_to_bits_loop2 (S f) (map str_of bl) w =
  match word_bytes_loop f w bl with Ok bl' => Ok (map str_of bl', 0) | Raise e => Raise e end.
Proof.
  induction f as [|f IH]; intros w bl.
  - cbn [src_strategy_int_to_bits_loop2 word_bytes_loop]. case_eqb w 0; cbn [negb].
    + subst w. reflexivity.
    + rewrite (table_item_ok _ (land255_range w)). reflexivity.
  - change (src_strategy_int_to_bits_loop2 (S (S f)) (map str_of bl) w) with
      (if negb (w =? 0)
       then (do h2 <- py_list_item py_BYTES_TO_BITS (Z.land w 255);
             src_strategy_int_to_bits_loop2 (S f) (map str_of bl ++ [h2]) (Z.shiftr w 8))
       else Ok (map str_of bl, w)).
    cbn [word_bytes_loop]. case_eqb w 0; cbn [negb].
    + subst w. reflexivity.
    + rewrite (table_item_ok _ (land255_range w)). cbn [bind].
      replace (map str_of bl ++ [str_of (byte_bits (Z.land w 255))]) with (map str_of (bl ++ [byte_bits (Z.land w 255)]))
        by (rewrite map_app; reflexivity).
      apply IH.
Qed.

(* ---------------------------------------------------------------- the text operations of one word *)
Lemma join_empty_str_of l : join ""%string (map str_of l) = str_of (List.concat l).
Proof.
  unfold join. rewrite map_chars_str_of. f_equal. cbn [chars].
  induction l as [|x r IH]; [reflexivity|]. destruct r as [|y r'].
  - cbn [join_chars List.concat]. rewrite app_nil_r. reflexivity.
  - change (join_chars [] (x :: y :: r')) with (x ++ [] ++ join_chars [] (y :: r')). rewrite IH. reflexivity.
Qed.

Lemma py_str_rep_zero n : py_str_rep n "0"%string = str_of (repeat_char "0"%char n).
Proof. induction n as [|k IH]; [reflexivity|]. cbn [py_str_rep repeat_char str_of]. rewrite IH. reflexivity. Qed.

Lemma py_str_or_str_of j z : py_str_or (str_of j) (str_of z) = str_of (match j with [] => z | _ => j end).
Proof. unfold py_str_or. destruct j as [|c r]; reflexivity. Qed.

Lemma py_slice_last {A} ws (l : list A) : 0 <= ws -> py_slice (Some (- ws)) None l = match Z.to_nat ws with O => l | _ => skipn (List.length l - Z.to_nat ws) l end.
Proof.
  intros H. unfold py_slice, py_clamp. set (n := Z.of_nat (List.length l)).
  case_ltb (- ws) 0.
  - destruct (Z.to_nat ws) eqn:E; [lia|]. rewrite <- E.
    replace (Z.to_nat (Z.max (- ws + n) 0)) with (List.length l - Z.to_nat ws)%nat by lia.
    apply firstn_all2. rewrite skipn_length. lia.
  - assert (ws = 0) by lia. subst ws. cbn [Z.to_nat]. rewrite Z.min_l by lia. cbn [Z.to_nat skipn]. rewrite Z.sub_0_r.
    apply firstn_all2. lia.
Qed.

Lemma src_word_text_ok ws bl : 0 <= ws ->
  let bits := rev (map str_of bl) in
  let bit_str := py_str_or (join ""%string bits) (py_str_mul "0"%string ws) in
  py_str_slice (Some (- ws)) None (String.append (py_str_mul "0"%string ws) bit_str) =
  str_of (let joined := List.concat (rev bl) in
          let zeros := repeat_char "0"%char (Z.to_nat ws) in
          let bit_str := match joined with [] => zeros | _ => joined end in
          last_n (Z.to_nat ws) (zeros ++ bit_str)).
Proof.
  intros H. cbv zeta. rewrite <- map_rev, join_empty_str_of. unfold py_str_mul. rewrite py_str_rep_zero, py_str_or_str_of.
  unfold py_str_slice. rewrite <- str_of_app, chars_str_of, (py_slice_last _ _ H). reflexivity.
Qed.

(* ---------------------------------------------------------------- the `for word in ..` loop = map_outcome word_bits *)
Lemma src_int_to_bits_loop1_ok ws : 0 <= ws -> forall xs bw,
  src_strategy_int_to_bits_loop1 ws xs bw =
  (do r <- map_outcome (word_bits ws) xs; Ok (bw ++ map str_of r)).
Proof.
  intros H. induction xs as [|w r IH]; intros bw.
  - cbn [src_strategy_int_to_bits_loop1 map_outcome bind map]. rewrite app_nil_r. reflexivity.
  - cbn [src_strategy_int_to_bits_loop1 map_outcome]. cbv zeta. unfold word_bits.
    replace (Z.to_nat ws + 2)%nat with (S (Z.to_nat ws + 1)) by lia.
    rewrite (src_int_to_bits_loop2_ok _ w []).
    destruct (word_bytes_loop (Z.to_nat ws + 1) w []) as [bl|e]; [|reflexivity]. cbn [bind].
    rewrite (src_word_text_ok ws bl H). cbv zeta. rewrite IH.
    destruct (map_outcome _ r) as [ys|e]; [|reflexivity]. cbn [bind map]. rewrite <- app_assoc. reflexivity.
Qed.

Lemma src_int_to_bits_ok v ws nw sep : 0 <= ws -> 0 <= nw ->
  src_strategy_int_to_bits v ws nw sep = int_to_bits v ws nw sep.
Proof.
  intros H1 H2. unfold src_strategy_int_to_bits, int_to_bits. cbv zeta. rewrite (src_int_to_words_ok _ _ _ H1 H2).
  destruct (int_to_words v ws nw) as [words|e]; [|reflexivity]. cbn [bind].
  rewrite (src_int_to_bits_loop1_ok _ H1).
  destruct (map_outcome _ words) as [ys|e]; [|reflexivity]. cbn [bind app].
  destruct (negb _); reflexivity.
Qed.

(* ---------------------------------------------------------------- netaddr/strategy/ipv4.py *)
Definition row4 : dialect := {| d_width := 32; d_ws := 8; d_nw := 4; d_sep := "."%string |}.
Definition row6 : dialect := {| d_width := 128; d_ws := 16; d_nw := 8; d_sep := ":"%string |}.

(* the rows of the regenerated dialect table that the commands of Extract/Cmd_C15.v hand to the model *)
Lemma find_row4 : find_dialect "ipv4"%string ""%string = Some row4.
Proof. reflexivity. Qed.
Lemma find_row6 : find_dialect "ipv6"%string ""%string = Some row6.
Proof. reflexivity. Qed.

Lemma src_ipv4_consts_ok :
  src_ipv4_width = d_width row4 /\ src_ipv4_word_size = d_ws row4 /\ src_ipv4_num_words = d_nw row4 /\ src_ipv4_word_sep = d_sep row4.
Proof. repeat split. Qed.
Lemma src_ipv6_consts_ok :
  src_ipv6_width = d_width row6 /\ src_ipv6_word_size = d_ws row6 /\ src_ipv6_num_words = d_nw row6 /\ src_ipv6_word_sep = d_sep row6.
Proof. repeat split. Qed.

Lemma src_ipv4_valid_words_ok words : src_ipv4_valid_words words = Ok (valid_words words (d_ws row4) (d_nw row4)).
Proof. apply src_valid_words_ok. vm_compute. discriminate. Qed.

Lemma src_ipv4_int_to_words_ok v : src_ipv4_int_to_words v = m_int_to_words "ipv4"%string row4 v.
Proof. reflexivity. Qed.

Lemma src_ipv4_words_to_int_ok words : src_ipv4_words_to_int words = m_words_to_int "ipv4"%string row4 words.
Proof.
  unfold src_ipv4_words_to_int, m_words_to_int. cbn [String.eqb Ascii.eqb Bool.eqb andb]. unfold ipv4_words_to_int.
  rewrite src_ipv4_valid_words_ok. cbn [bind].
  destruct (negb _); [reflexivity|]. unfold py_struct_pack, py_struct_unpack.
  destruct (struct_pack _ words) as [p|e]; [|reflexivity]. cbn [bind].
  destruct (struct_unpack _ p) as [l|e]; [|reflexivity]. cbn [bind]. destruct l; reflexivity.
Qed.

Lemma src_ipv4_valid_bits_ok s : src_ipv4_valid_bits s = Ok (m_valid_bits row4 s).
Proof. apply src_valid_bits_ok. Qed.
Lemma src_ipv4_bits_to_int_ok s : src_ipv4_bits_to_int s = m_bits_to_int row4 s.
Proof. apply src_bits_to_int_ok. Qed.
Lemma src_ipv4_int_to_bits_ok v sep : src_ipv4_int_to_bits v sep = ip_bits row4 v sep.
Proof.
  unfold src_ipv4_int_to_bits, ip_bits. cbv zeta. rewrite src_int_to_bits_ok by (vm_compute; discriminate). destruct sep; reflexivity.
Qed.
Lemma src_ipv4_valid_bin_ok s : src_ipv4_valid_bin s = Ok (m_valid_bin row4 s).
Proof. apply src_valid_bin_ok. vm_compute. discriminate. Qed.
Lemma src_ipv4_int_to_bin_ok v : src_ipv4_int_to_bin v = m_int_to_bin row4 v.
Proof. reflexivity. Qed.
Lemma src_ipv4_bin_to_int_ok s : src_ipv4_bin_to_int s = m_bin_to_int row4 s.
Proof. apply src_bin_to_int_ok. vm_compute. discriminate. Qed.

Lemma src_ipv4_int_to_packed_ok v : src_ipv4_int_to_packed v = ipv4_int_to_packed v.
Proof. reflexivity. Qed.
Lemma src_ipv4_packed_to_int_ok p : src_ipv4_packed_to_int p = ipv4_packed_to_int p.
Proof.
  unfold src_ipv4_packed_to_int, ipv4_packed_to_int, py_struct_unpack.
  destruct (struct_unpack _ p) as [l|e]; [|reflexivity]. cbn [bind]. destruct l; reflexivity.
Qed.

Lemma src_ipv4_int_to_arpa_ok v : src_ipv4_int_to_arpa v = ipv4_int_to_arpa v.
Proof.
  unfold src_ipv4_int_to_arpa, ipv4_int_to_arpa. rewrite src_ipv4_int_to_words_ok.
  change (m_int_to_words "ipv4"%string row4 v) with (ipv4_int_to_words v).
  destruct (ipv4_int_to_words v) as [ws|e]; reflexivity.
Qed.

(* ---------------------------------------------------------------- netaddr/strategy/ipv6.py *)
Lemma src_ipv6_valid_words_ok words : src_ipv6_valid_words words = Ok (valid_words words (d_ws row6) (d_nw row6)).
Proof. apply src_valid_words_ok. vm_compute. discriminate. Qed.

(* int_to_words(int_val, num_words=None, word_size=None): None stands for the module constant *)
Lemma src_ipv6_int_to_words_ok v nw ws :
  0 <= py_opt_default ws (d_ws row6) -> 0 <= py_opt_default nw (d_nw row6) ->
  src_ipv6_int_to_words v nw ws = int_to_words v (py_opt_default ws (d_ws row6)) (py_opt_default nw (d_nw row6)).
Proof. intros H1 H2. unfold src_ipv6_int_to_words. cbv zeta. apply src_int_to_words_ok; assumption. Qed.

Lemma src_ipv6_int_to_words_default_ok v : src_ipv6_int_to_words v None None = m_int_to_words "ipv6"%string row6 v.
Proof. apply src_ipv6_int_to_words_ok; vm_compute; discriminate. Qed.

Lemma src_ipv6_words_to_int_ok words : src_ipv6_words_to_int words = m_words_to_int "ipv6"%string row6 words.
Proof. apply src_words_to_int_ok. vm_compute. discriminate. Qed.

Lemma src_ipv6_valid_bits_ok s : src_ipv6_valid_bits s = Ok (m_valid_bits row6 s).
Proof. apply src_valid_bits_ok. Qed.
Lemma src_ipv6_bits_to_int_ok s : src_ipv6_bits_to_int s = m_bits_to_int row6 s.
Proof. apply src_bits_to_int_ok. Qed.
Lemma src_ipv6_int_to_bits_ok v sep : src_ipv6_int_to_bits v sep = ip_bits row6 v sep.
Proof.
  unfold src_ipv6_int_to_bits, ip_bits. cbv zeta. rewrite src_int_to_bits_ok by (vm_compute; discriminate). destruct sep; reflexivity.
Qed.
Lemma src_ipv6_valid_bin_ok s : src_ipv6_valid_bin s = Ok (m_valid_bin row6 s).
Proof. apply src_valid_bin_ok. vm_compute. discriminate. Qed.
Lemma src_ipv6_int_to_bin_ok v : src_ipv6_int_to_bin v = m_int_to_bin row6 v.
Proof. reflexivity. Qed.
Lemma src_ipv6_bin_to_int_ok s : src_ipv6_bin_to_int s = m_bin_to_int row6 s.
Proof. apply src_bin_to_int_ok. vm_compute. discriminate. Qed.

Lemma src_ipv6_int_to_packed_ok v : src_ipv6_int_to_packed v = ipv6_int_to_packed v.
Proof.
  unfold src_ipv6_int_to_packed, ipv6_int_to_packed. rewrite src_ipv6_int_to_words_ok by (vm_compute; discriminate). reflexivity.
Qed.

(* `for i, num in enumerate(reversed(words)): word = num << 32 * i; int_val |= word` = lor_words .. 32 *)
Lemma src_ipv6_packed_to_int_loop_ok : forall xs i iv, src_ipv6_packed_to_int_loop1 xs i iv = lor_words xs i 32 iv.
Proof. induction xs as [|num r IH]; intros i iv; [reflexivity|]. cbn [src_ipv6_packed_to_int_loop1 lor_words]. apply IH. Qed.

Lemma src_ipv6_packed_to_int_ok p : src_ipv6_packed_to_int p = ipv6_packed_to_int p.
Proof.
  unfold src_ipv6_packed_to_int, ipv6_packed_to_int, py_struct_unpack.
  destruct (struct_unpack _ p) as [l|e]; [|reflexivity]. cbn [bind]. cbv zeta. rewrite src_ipv6_packed_to_int_loop_ok. reflexivity.
Qed.

(* ---------------------------------------------------------------- bytes_to_bits(): the table, by evaluation *)
(* 256 rows x 8 item assignments, no parameters: the generated definition is a closed term *)
Lemma src_bytes_to_bits_ok : src_strategy_bytes_to_bits = Ok py_BYTES_TO_BITS.
Proof. vm_compute. reflexivity. Qed.

Lemma src_bytes_to_bits_model : src_strategy_bytes_to_bits = Ok (map (fun n => str_of (byte_bits (Z.of_nat n))) (seq 0 256)).
Proof. rewrite src_bytes_to_bits_ok. unfold py_BYTES_TO_BITS. rewrite gen_bytes_to_bits_ok. reflexivity. Qed.

(* everything the second C15 source tie states (Props/C15_src_ip.v) *)
Lemma C15_tie_ip_ok :
  (forall v ws nw sep, 0 <= ws -> 0 <= nw -> src_strategy_int_to_bits v ws nw sep = int_to_bits v ws nw sep) /\
  (src_strategy_bytes_to_bits = Ok py_BYTES_TO_BITS /\
   src_strategy_bytes_to_bits = Ok (map (fun n => str_of (byte_bits (Z.of_nat n))) (seq 0 256))) /\
  (find_dialect "ipv4"%string ""%string = Some row4 /\ find_dialect "ipv6"%string ""%string = Some row6) /\
  (* ipv4.py *)
  ((forall words, src_ipv4_valid_words words = Ok (valid_words words (d_ws row4) (d_nw row4))) /\
   (forall v, src_ipv4_int_to_words v = m_int_to_words "ipv4"%string row4 v) /\
   (forall words, src_ipv4_words_to_int words = m_words_to_int "ipv4"%string row4 words) /\
   (forall s, src_ipv4_valid_bits s = Ok (m_valid_bits row4 s)) /\
   (forall s, src_ipv4_bits_to_int s = m_bits_to_int row4 s) /\
   (forall v sep, src_ipv4_int_to_bits v sep = ip_bits row4 v sep) /\
   (forall s, src_ipv4_valid_bin s = Ok (m_valid_bin row4 s)) /\
   (forall v, src_ipv4_int_to_bin v = m_int_to_bin row4 v) /\
   (forall s, src_ipv4_bin_to_int s = m_bin_to_int row4 s) /\
   (forall v, src_ipv4_int_to_packed v = m_int_to_packed "ipv4"%string row4 v) /\
   (forall p, src_ipv4_packed_to_int p = m_packed_to_int "ipv4"%string p) /\
   (forall v, src_ipv4_int_to_arpa v = ip_reverse_dns "ipv4"%string row4 v)) /\
  (* ipv6.py *)
  ((forall words, src_ipv6_valid_words words = Ok (valid_words words (d_ws row6) (d_nw row6))) /\
   (forall v, src_ipv6_int_to_words v None None = m_int_to_words "ipv6"%string row6 v) /\
   (forall v nw ws, 0 <= ws -> 0 <= nw -> src_ipv6_int_to_words v (Some nw) (Some ws) = int_to_words v ws nw) /\
   (forall words, src_ipv6_words_to_int words = m_words_to_int "ipv6"%string row6 words) /\
   (forall s, src_ipv6_valid_bits s = Ok (m_valid_bits row6 s)) /\
   (forall s, src_ipv6_bits_to_int s = m_bits_to_int row6 s) /\
   (forall v sep, src_ipv6_int_to_bits v sep = ip_bits row6 v sep) /\
   (forall s, src_ipv6_valid_bin s = Ok (m_valid_bin row6 s)) /\
   (forall v, src_ipv6_int_to_bin v = m_int_to_bin row6 v) /\
   (forall s, src_ipv6_bin_to_int s = m_bin_to_int row6 s) /\
   (forall v, src_ipv6_int_to_packed v = m_int_to_packed "ipv6"%string row6 v) /\
   (forall p, src_ipv6_packed_to_int p = m_packed_to_int "ipv6"%string p)).
Proof.
  split; [exact src_int_to_bits_ok|]. split; [split; [exact src_bytes_to_bits_ok|exact src_bytes_to_bits_model]|].
  split; [split; [exact find_row4|exact find_row6]|]. split.
  - split; [exact src_ipv4_valid_words_ok|]. split; [exact src_ipv4_int_to_words_ok|]. split; [exact src_ipv4_words_to_int_ok|].
    split; [exact src_ipv4_valid_bits_ok|]. split; [exact src_ipv4_bits_to_int_ok|]. split; [exact src_ipv4_int_to_bits_ok|].
    split; [exact src_ipv4_valid_bin_ok|]. split; [exact src_ipv4_int_to_bin_ok|]. split; [exact src_ipv4_bin_to_int_ok|].
    split; [exact src_ipv4_int_to_packed_ok|]. split; [exact src_ipv4_packed_to_int_ok|exact src_ipv4_int_to_arpa_ok].
  - split; [exact src_ipv6_valid_words_ok|]. split; [exact src_ipv6_int_to_words_default_ok|].
    split; [intros v nw ws H1 H2; apply (src_ipv6_int_to_words_ok v (Some nw) (Some ws)); assumption|].
    split; [exact src_ipv6_words_to_int_ok|].
    split; [exact src_ipv6_valid_bits_ok|]. split; [exact src_ipv6_bits_to_int_ok|]. split; [exact src_ipv6_int_to_bits_ok|].
    split; [exact src_ipv6_valid_bin_ok|]. split; [exact src_ipv6_int_to_bin_ok|]. split; [exact src_ipv6_bin_to_int_ok|].
    split; [exact src_ipv6_int_to_packed_ok|exact src_ipv6_packed_to_int_ok].
Qed.
