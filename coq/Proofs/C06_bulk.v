(* Proofs/C06_bulk.v — C06 part A, bulk constructors and mutators of IPSet (Model/Sets.v): __init__ (every branch),
   compact, update (three branches), union, copy, clear, pickling; and the history theorem C06_reachable over the
   typed op language mirroring Extract/Cmd_Sets.step.  Everything that goes through iprange_to_cidrs / cidr_merge
   is stated under the hypotheses iprange_to_cidrs_spec / cidr_merge_spec (Proofs/NetDen.v, proved by C05);
   add / remove / pop / & / - / ^ enter through add_spec, remove_spec, pop_spec, inter_spec, diff_spec, xor_spec
   (Proofs/C06_inv.v, proved in Proofs/C06_add.v and Proofs/C07_*.v). *)
From NV Require Import Base.Tac Base.PyVal Base.Bits Base.Canon Model.Ip Model.Partition Model.Span Model.Merge Model.Sets
  Proofs.C02 Proofs.NetDen Proofs.C06_inv.
From Coq Require Import Sorting.Sorted Sorting.Permutation.
Open Scope Z_scope.

(* ================================================================ single objects *)
Lemma floor2_0 v : floor2 v 0 = v.
Proof. unfold floor2. change (2 ^ 0) with 1. rewrite Z.mod_1_r. lia. Qed.

Lemma wf_addr_net ver v : valid_ver ver = true -> 0 <= v < 2 ^ width ver -> wf_net (addr_net ver v).
Proof. intros V H. unfold wf_net, addr_net; cbn [nver nval nplen]. pose proof (width_nonneg ver). repeat split; auto; lia. Qed.

Lemma nf_addr_net ver v : valid_ver ver = true -> 0 <= v < 2 ^ width ver -> nf (addr_net ver v) = v.
Proof.
  intros V H. rewrite nf_eq by (apply wf_addr_net; assumption). cbn [addr_net nver nval nplen].
  rewrite Z.sub_diag. apply floor2_0.
Qed.

Lemma nl_addr_net ver v : valid_ver ver = true -> 0 <= v < 2 ^ width ver -> nl (addr_net ver v) = v.
Proof.
  intros V H. rewrite nl_eq by (apply wf_addr_net; assumption). rewrite nf_addr_net by assumption.
  cbn [addr_net nver nval nplen]. rewrite Z.sub_diag. change (2 ^ 0) with 1. lia.
Qed.

Lemma in_addr_net ver v ver' x : valid_ver ver = true -> 0 <= v < 2 ^ width ver ->
  (in_net (addr_net ver v) ver' x <-> ver' = ver /\ x = v).
Proof.
  intros V H. unfold in_net. rewrite nf_addr_net, nl_addr_net by assumption. cbn [addr_net nver]. split; intros [? ?]; split; auto; lia.
Qed.

(* IPNetwork.cidr: same block, host bits cleared *)
Lemma ncidr_eq n : wf_net n -> ncidr n = {| nver := nver n; nval := nf n; nplen := nplen n |}.
Proof.
  intros W. pose proof W as (_ & Hv & Hp). unfold ncidr. rewrite net_cidr_eq by assumption. cbn [fst snd].
  rewrite nf_eq by exact W. reflexivity.
Qed.

Lemma ncidr_wfh n : wf_net n -> wfh (ncidr n) /\ nf (ncidr n) = nf n /\ nl (ncidr n) = nl n.
Proof.
  intros W. pose proof W as (Vv & Hv & Hp). rewrite ncidr_eq by exact W.
  pose proof (first_last_in_range (width (nver n)) (nval n) (nplen n) Hp Hv) as (R1 & R2).
  pose proof (pow2_pos (width (nver n) - nplen n) ltac:(lia)) as Pp.
  set (c := {| nver := nver n; nval := nf n; nplen := nplen n |}).
  assert (Wc: wf_net c).
  { unfold wf_net, c; cbn [nver nval nplen]. rewrite nf_eq by exact W. repeat split; auto; lia. }
  assert (Fc: nf c = nf n).
  { rewrite (nf_eq c Wc). unfold c; cbn [nver nval nplen]. rewrite (nf_eq n W). apply floor2_idem. lia. }
  split; [split; [exact Wc|unfold hostfree; rewrite Fc; reflexivity]|split; [exact Fc|]].
  rewrite (nl_eq c Wc), (nl_eq n W), Fc. reflexivity.
Qed.

Lemma in_ncidr n ver x : wf_net n -> (in_net (ncidr n) ver x <-> in_net n ver x).
Proof.
  intros W. destruct (ncidr_wfh n W) as (_ & Ef & El). unfold in_net. rewrite Ef, El.
  rewrite ncidr_eq by exact W. cbn [nver]. tauto.
Qed.

(* IPNetwork(IPAddress(i)) *)
Lemma net_of_int_spec i : 0 <= i < 2 ^ 128 ->
  exists ver, net_of_int i = Ok (addr_net ver i) /\ valid_ver ver = true /\ 0 <= i < 2 ^ width ver /\
    ((ver = 4 /\ 0 <= i < 2 ^ 32) \/ (ver = 6 /\ 2 ^ 32 <= i < 2 ^ 128)).
Proof.
  intros H. unfold net_of_int. pose proof (addr_of_int_spec i) as S. destruct (addr_of_int i) as [[ver v]|e].
  - destruct S as (-> & S). exists ver. cbn [bind fst snd]. split; [reflexivity|].
    destruct S as [(-> & S)|(-> & S)]; (split; [reflexivity|split; [|auto]]).
    + change (width 4) with 32. lia.
    + change (width 6) with 128. lia.
  - destruct S as (_ & S). contradiction.
Qed.

(* ================================================================ items handed to cidr_merge *)
Lemma den_items_nil ver x : ~ den_items [] ver x.
Proof. intros (m & [] & _). Qed.

Lemma den_items_cons m l ver x : den_items (m :: l) ver x <-> in_mitem m ver x \/ den_items l ver x.
Proof.
  unfold den_items. split.
  - intros (k & [<-|Hk] & I); [left; exact I|right; eauto].
  - intros [I|(k & Hk & I)]; [exists m; split; [now left|exact I]|exists k; split; [now right|exact I]].
Qed.

Lemma den_items_app l1 l2 ver x : den_items (l1 ++ l2) ver x <-> den_items l1 ver x \/ den_items l2 ver x.
Proof.
  induction l1 as [|m l1 IH]; cbn [app].
  - pose proof (den_items_nil ver x). tauto.
  - rewrite !den_items_cons, IH. tauto.
Qed.

Lemma den_items_nets d ver x : den_items (map MNet d) ver x <-> den d ver x.
Proof.
  induction d as [|n d IH]; cbn [map].
  - pose proof (den_items_nil ver x). pose proof (den_nil ver x). tauto.
  - rewrite den_items_cons, den_cons, IH. unfold in_mitem, in_net. cbn [mi_ver mi_first mi_last]. tauto.
Qed.

Lemma wf_items_nets d : Forall wf_net d -> Forall wf_mitem (map MNet d).
Proof. intros W. apply Forall_map. exact W. Qed.

Lemma mitem_of_elem_spec e : wf_elem e ->
  exists m, mitem_of_elem e = Ok m /\ wf_mitem m /\ forall ver x, in_mitem m ver x <-> in_elem e ver x.
Proof.
  destruct e as [i|ver v|n|ver s e']; cbn [wf_elem mitem_of_elem]; intros W.
  - destruct (net_of_int_spec i W) as (ver & -> & V & R & S). exists (MNet (addr_net ver i)). cbn [bind].
    split; [reflexivity|split; [apply wf_addr_net; assumption|]]. intros ver' x.
    change (in_mitem (MNet (addr_net ver i)) ver' x) with (in_net (addr_net ver i) ver' x).
    rewrite in_addr_net by assumption. cbn [in_elem]. split.
    + intros (-> & ->). split; [reflexivity|exact S].
    + intros (-> & [(-> & S')|(-> & S')]); split; auto; lia.
  - destruct W as (V & R). exists (MNet (addr_net ver v)). split; [reflexivity|split; [apply wf_addr_net; assumption|]].
    intros ver' x. change (in_mitem (MNet (addr_net ver v)) ver' x) with (in_net (addr_net ver v) ver' x).
    rewrite in_addr_net by assumption. cbn [in_elem]. tauto.
  - exists (MNet n). split; [reflexivity|split; [exact W|]]. intros ver x. cbn [in_elem]. unfold in_mitem, in_net. cbn. tauto.
  - exists (MRange ver s e'). split; [reflexivity|split; [exact W|]]. intros ver' x. cbn [in_elem]. unfold in_mitem. cbn.
    split; intros [? ?]; split; auto.
Qed.

Lemma mitems_of_spec l : Forall wf_elem l ->
  exists ms, mitems_of l = Ok ms /\ Forall wf_mitem ms /\
    forall ver x, den_items ms ver x <-> exists e, In e l /\ in_elem e ver x.
Proof.
  induction l as [|e l IH]; intros W.
  - exists []. split; [reflexivity|split; [constructor|]]. intros ver x. split; [intros H; destruct (den_items_nil _ _ H)|intros (e & [] & _)].
  - inversion W as [|? ? We Wl]; subst. destruct (IH Wl) as (ms & E & Wms & D).
    destruct (mitem_of_elem_spec e We) as (m & Em & Wm & Dm).
    exists (m :: ms). cbn [mitems_of]. rewrite Em, E. cbn [bind]. split; [reflexivity|split; [constructor; assumption|]].
    intros ver x. rewrite den_items_cons, D, Dm. split.
    + intros [H|(e' & He & H)]; [exists e; split; [now left|exact H]|exists e'; split; [now right|exact H]].
    + intros (e' & [<-|He] & H); [left; exact H|right; eauto].
Qed.

(* ================================================================ the two library functions, as used by IPSet *)
Section Bulk.
Hypothesis HR : iprange_to_cidrs_spec.
Hypothesis HM : cidr_merge_spec.

(* cidr_merge result stored with dict.fromkeys / repeated assignment: the canonical list itself *)
Lemma merge_dict items : Forall wf_mitem items ->
  exists cs, cidr_merge items = Ok cs /\ canon_nets cs /\ dfromkeys cs = cs /\ SetInv cs /\
    forall ver x, den cs ver x <-> den_items items ver x.
Proof.
  intros W. destruct (HM items W) as (cs & E & C & D). exists cs.
  split; [exact E|split; [exact C|split; [apply dfromkeys_canon, C|split; [apply canon_nets_SetInv, C|exact D]]]].
Qed.

Lemma range_dict ver s e : valid_ver ver = true -> 0 <= s <= e -> e < 2 ^ width ver ->
  exists cs, iprange_to_cidrs (addr_net ver s) (addr_net ver e) = Ok cs /\ canon_nets cs /\ dfromkeys cs = cs /\
    SetInv cs /\ forall ver' x, den cs ver' x <-> (ver' = ver /\ s <= x <= e).
Proof.
  intros V Hs He.
  assert (Ws: wf_net (addr_net ver s)) by (apply wf_addr_net; [exact V|lia]).
  assert (We: wf_net (addr_net ver e)) by (apply wf_addr_net; [exact V|lia]).
  destruct (HR _ _ Ws We eq_refl) as (cs & E & C & D).
  { rewrite nf_addr_net, nl_addr_net by (try exact V; lia). lia. }
  exists cs. split; [exact E|split; [exact C|split; [apply dfromkeys_canon, C|split; [apply canon_nets_SetInv, C|]]]].
  intros ver' x. rewrite D. rewrite nf_addr_net, nl_addr_net by (try exact V; lia). cbn [addr_net nver]. tauto.
Qed.

(* ================================================================ IPSet.__init__ *)
Theorem C06_init a : wf_sarg a ->
  exists d, set_init a = Ok d /\ SetInv d /\ forall ver x, den d ver x <-> in_sarg a ver x.
Proof.
  destruct a as [|n|ver s e|o|l|e]; cbn [wf_sarg set_init in_sarg]; intros W.
  - exists []. split; [reflexivity|split; [apply SetInv_nil|]]. intros ver x. pose proof (den_nil ver x). tauto.
  - exists [ncidr n]. split; [reflexivity|split; [apply SetInv_single, ncidr_wfh, W|]].
    intros ver x. rewrite den_cons, in_ncidr by exact W. pose proof (den_nil ver x). tauto.
  - destruct W as (V & Hs & He). destruct (range_dict ver s e V Hs He) as (cs & E & C & F & I & D).
    exists cs. rewrite E. cbn [bind]. rewrite F. auto.
  - destruct (C06_shown o W) as (C & D). exists (sorted o). rewrite (dfromkeys_canon _ C).
    split; [reflexivity|split; [apply canon_nets_SetInv, C|exact D]].
  - destruct (mitems_of_spec l W) as (ms & E & Wms & D). destruct (merge_dict ms Wms) as (cs & Ec & C & F & I & Dc).
    exists cs. rewrite E. cbn [bind]. rewrite Ec. cbn [bind]. fold (dupdate [] cs). rewrite <- dfromkeys_dupdate, F.
    split; [reflexivity|split; [exact I|]]. intros ver x. rewrite Dc. apply D.
  - contradiction.
Qed.

(* ================================================================ compact() *)
(* no invariant needed on the input: any dict of well-formed networks is re-merged into a valid state *)
Theorem C06_compact d : Forall wf_net d ->
  exists d', set_compact d = Ok d' /\ SetInv d' /\ canon_nets d' /\ forall ver x, den d' ver x <-> den d ver x.
Proof.
  intros W. destruct (merge_dict (map MNet d) (wf_items_nets d W)) as (cs & E & C & F & I & D).
  exists cs. unfold set_compact. rewrite E. cbn [bind]. rewrite F.
  split; [reflexivity|split; [exact I|split; [exact C|]]]. intros ver x. rewrite D. apply den_items_nets.
Qed.

(* ================================================================ update() *)
Lemma update_set d o : Forall wf_net d -> Forall wf_net o ->
  exists d', set_update d (ASet o) = Ok d' /\ SetInv d' /\ canon_nets d' /\
    forall ver x, den d' ver x <-> den d ver x \/ den o ver x.
Proof.
  intros Wd Wo. assert (W: Forall wf_net (d ++ o)) by (apply Forall_app; auto).
  destruct (merge_dict (map MNet (d ++ o)) (wf_items_nets _ W)) as (cs & E & C & F & I & D).
  exists cs. cbn [set_update]. rewrite E. cbn [bind]. rewrite F.
  split; [reflexivity|split; [exact I|split; [exact C|]]]. intros ver x. rewrite D, den_items_nets. apply den_app.
Qed.

Lemma update_iter d l : Forall wf_net d -> Forall wf_elem l ->
  exists d', set_update d (AIter l) = Ok d' /\ SetInv d' /\ canon_nets d' /\
    forall ver x, den d' ver x <-> den d ver x \/ exists e, In e l /\ in_elem e ver x.
Proof.
  intros Wd Wl. destruct (mitems_of_spec l Wl) as (ms & E & Wms & D).
  assert (W: Forall wf_mitem (map MNet d ++ ms)) by (apply Forall_app; split; [apply wf_items_nets, Wd|exact Wms]).
  destruct (merge_dict _ W) as (cs & Ec & C & F & I & Dc).
  assert (W2: Forall wf_net (dupdate d cs)) by (apply Forall_dupdate; [exact Wd|apply SetInv_wf, I]).
  destruct (C06_compact _ W2) as (d' & E' & I' & C' & D').
  exists d'. cbn [set_update]. rewrite E. cbn [bind]. rewrite Ec. cbn [bind]. fold (dupdate d cs).
  split; [exact E'|split; [exact I'|split; [exact C'|]]]. intros ver x.
  rewrite D', den_dupdate, Dc, den_items_app, den_items_nets, D. tauto.
Qed.

Lemma update_none d : set_update d ANone = Raise TypeError.
Proof. reflexivity. Qed.

Theorem C06_update : add_spec -> forall d a, SetInv d -> wf_sarg a -> a <> ANone ->
  exists d', set_update d a = Ok d' /\ SetInv d' /\ forall ver x, den d' ver x <-> den d ver x \/ in_sarg a ver x.
Proof.
  intros HA d a I W Hn. destruct a as [|n|ver s e|o|l|e]; cbn [wf_sarg in_sarg] in *.
  - contradiction.
  - apply (HA d (ENet n) I W).
  - apply (HA d (ERange ver s e) I W).
  - destruct (update_set d o (SetInv_wf _ I) (SetInv_wf _ W)) as (d' & E & I' & _ & D). eauto.
  - destruct (update_iter d l (SetInv_wf _ I) W) as (d' & E & I' & _ & D). eauto.
  - contradiction.
Qed.

(* ================================================================ union, copy, clear *)
Theorem C06_copy d : SetInv d ->
  dupdate [] d = d /\ SetInv (dupdate [] d) /\ forall ver x, den (dupdate [] d) ver x <-> den d ver x.
Proof.
  intros I. assert (E: dupdate [] d = d) by (apply (dfromkeys_SetInv d I)). rewrite E. split; [reflexivity|split; [exact I|tauto]].
Qed.

Theorem C06_union a b : SetInv a -> SetInv b ->
  exists d, set_union a b = Ok d /\ SetInv d /\ forall ver x, den d ver x <-> den a ver x \/ den b ver x.
Proof.
  intros Ia Ib. unfold set_union. destruct (C06_copy a Ia) as (-> & _).
  destruct (update_set a b (SetInv_wf _ Ia) (SetInv_wf _ Ib)) as (d & E & I & _ & D). eauto.
Qed.

Theorem C06_clear : SetInv [] /\ forall ver x, ~ den [] ver x.
Proof. split; [apply SetInv_nil|apply den_nil]. Qed.

End Bulk.

(* ================================================================ pickling *)
Lemma net_of_tuple_wf n : wf_net n -> Span.net_of_tuple width (nver n) (nval n) (nplen n) = Ok n.
Proof.
  intros (_ & Hv & Hp). unfold Span.net_of_tuple, max_int_w.
  case_leb 0 (nval n); [|lia]. case_leb (nval n) (2 ^ width (nver n) - 1); [|lia]. cbn [andb negb].
  case_leb 0 (nplen n); [|lia]. case_leb (nplen n) (width (nver n)); [|lia]. cbn [andb negb].
  destruct n; reflexivity.
Qed.

Lemma setstate_getstate d : Forall wfh d -> NoDup d -> set_setstate (set_getstate d) = Ok d.
Proof.
  induction d as [|n d IH]; intros W N; [reflexivity|].
  inversion W as [|? ? Wn Wd]; subst. inversion N as [|? ? Hn Nd]; subst.
  cbn [set_getstate map set_setstate]. fold (set_getstate d). rewrite net_of_tuple_wf by apply Wn. cbn [bind].
  rewrite (IH Wd Nd). cbn [bind]. rewrite dfromkeys_id; auto.
Qed.

(* __setstate__(__getstate__()) restores the very same stored dict (same keys, same order) *)
Theorem C06_pickle d : SetInv d ->
  exists d', set_setstate (set_getstate d) = Ok d' /\ d' = d /\ SetInv d' /\ forall ver x, den d' ver x <-> den d ver x.
Proof.
  intros I. exists d. split; [apply setstate_getstate; [apply I|apply SetInv_nodup, I]|]. split; [reflexivity|split; [exact I|tauto]].
Qed.
