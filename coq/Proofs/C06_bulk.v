(* Proofs/C06_bulk.v — C06 part A, bulk constructors and mutators of IPSet (Model/Sets.v): __init__ (every branch),
   compact, update (three branches), union, copy, clear, pickling; and the history theorem C06_reachable over the
   typed op language mirroring Extract/Cmd_Sets.step.  Everything that goes through iprange_to_cidrs / cidr_merge
   is stated under the hypotheses iprange_to_cidrs_spec / cidr_merge_spec (Proofs/NetDen.v, proved by C05);
   add / remove / pop / & / - / ^ enter through add_spec, remove_spec, pop_spec, inter_spec, diff_spec, xor_spec
   (Proofs/C06_inv.v, proved in Proofs/C06_add.v and Proofs/C07_*.v). *)
From NV Require Import Base.Tac Base.PyVal Base.Bits Base.Canon Model.Ip Model.Partition Model.Span Model.Merge Model.Sets
  Proofs.C02 Proofs.NetDen Proofs.C06_inv.
From Coq Require Import Sorting.Sorted Sorting.Permutation.
Open Scope Z_scope.

(* ================================================================ single objects *)
Lemma floor2_0 v : floor2 v 0 = v.
Proof. unfold floor2. change (2 ^ 0) with 1. rewrite Z.mod_1_r. lia. Qed.

Lemma wf_addr_net ver v : valid_ver ver = true -> 0 <= v < 2 ^ width ver -> wf_net (addr_net ver v).
Proof. intros V H. unfold wf_net, addr_net; cbn [nver nval nplen]. pose proof (width_nonneg ver). repeat split; auto; lia. Qed.

Lemma nf_addr_net ver v : valid_ver ver = true -> 0 <= v < 2 ^ width ver -> nf (addr_net ver v) = v.
Proof.
  intros V H. rewrite nf_eq by (apply wf_addr_net; assumption). cbn [addr_net nver nval nplen].
  rewrite Z.sub_diag. apply floor2_0.
Qed.

Lemma nl_addr_net ver v : valid_ver ver = true -> 0 <= v < 2 ^ width ver -> nl (addr_net ver v) = v.
Proof.
  intros V H. rewrite nl_eq by (apply wf_addr_net; assumption). rewrite nf_addr_net by assumption.
  cbn [addr_net nver nval nplen]. rewrite Z.sub_diag. change (2 ^ 0) with 1. lia.
Qed.

Lemma in_addr_net ver v ver' x : valid_ver ver = true -> 0 <= v < 2 ^ width ver ->
  (in_net (addr_net ver v) ver' x <-> ver' = ver /\ x = v).
Proof.
  intros V H. unfold in_net. rewrite nf_addr_net, nl_addr_net by assumption. cbn [addr_net nver]. split; intros [? ?]; split; auto; lia.
Qed.

(* IPNetwork.cidr: same block, host bits cleared *)
Lemma ncidr_eq n : wf_net n -> ncidr n = {| nver := nver n; nval := nf n; nplen := nplen n |}.
Proof.
  intros W. pose proof W as (_ & Hv & Hp). unfold ncidr. rewrite net_cidr_eq by assumption. cbn [fst snd].
  rewrite nf_eq by exact W. reflexivity.
Qed.

Lemma ncidr_wfh n : wf_net n -> wfh (ncidr n) /\ nf (ncidr n) = nf n /\ nl (ncidr n) = nl n.
Proof.
  intros W. pose proof W as (Vv & Hv & Hp). rewrite ncidr_eq by exact W.
  pose proof (first_last_in_range (width (nver n)) (nval n) (nplen n) Hp Hv) as (R1 & R2).
  pose proof (pow2_pos (width (nver n) - nplen n) ltac:(lia)) as Pp.
  set (c := {| nver := nver n; nval := nf n; nplen := nplen n |}).
  assert (Wc: wf_net c).
  { unfold wf_net, c; cbn [nver nval nplen]. rewrite nf_eq by exact W. repeat split; auto; lia. }
  assert (Fc: nf c = nf n).
  { rewrite (nf_eq c Wc). unfold c; cbn [nver nval nplen]. rewrite (nf_eq n W). apply floor2_idem. lia. }
  split; [split; [exact Wc|unfold hostfree; rewrite Fc; reflexivity]|split; [exact Fc|]].
  rewrite (nl_eq c Wc), (nl_eq n W), Fc. reflexivity.
Qed.

Lemma in_ncidr n ver x : wf_net n -> (in_net (ncidr n) ver x <-> in_net n ver x).
Proof.
  intros W. destruct (ncidr_wfh n W) as (_ & Ef & El). unfold in_net. rewrite Ef, El.
  rewrite ncidr_eq by exact W. cbn [nver]. tauto.
Qed.

(* IPNetwork(IPAddress(i)) *)
Lemma net_of_int_spec i : 0 <= i < 2 ^ 128 ->
  exists ver, net_of_int i = Ok (addr_net ver i) /\ valid_ver ver = true /\ 0 <= i < 2 ^ width ver /\
    ((ver = 4 /\ 0 <= i < 2 ^ 32) \/ (ver = 6 /\ 2 ^ 32 <= i < 2 ^ 128)).
Proof.
  intros H. unfold net_of_int. pose proof (addr_of_int_spec i) as S. destruct (addr_of_int i) as [[ver v]|e].
  - destruct S as (-> & S). exists ver. cbn [bind fst snd]. split; [reflexivity|].
    destruct S as [(-> & S)|(-> & S)]; (split; [reflexivity|split; [|auto]]).
    + change (width 4) with 32. lia.
    + change (width 6) with 128. lia.
  - destruct S as (_ & S). contradiction.
Qed.

(* ================================================================ items handed to cidr_merge *)
Lemma den_items_nil ver x : ~ den_items [] ver x.
Proof. intros (m & [] & _). Qed.

Lemma den_items_cons m l ver x : den_items (m :: l) ver x <-> in_mitem m ver x \/ den_items l ver x.
Proof.
  unfold den_items. split.
  - intros (k & [<-|Hk] & I); [left; exact I|right; eauto].
  - intros [I|(k & Hk & I)]; [exists m; split; [now left|exact I]|exists k; split; [now right|exact I]].
Qed.

Lemma den_items_app l1 l2 ver x : den_items (l1 ++ l2) ver x <-> den_items l1 ver x \/ den_items l2 ver x.
Proof.
  induction l1 as [|m l1 IH]; cbn [app].
  - pose proof (den_items_nil ver x). tauto.
  - rewrite !den_items_cons, IH. tauto.
Qed.

Lemma den_items_nets d ver x : den_items (map MNet d) ver x <-> den d ver x.
Proof.
  induction d as [|n d IH]; cbn [map].
  - pose proof (den_items_nil ver x). pose proof (den_nil ver x). tauto.
  - rewrite den_items_cons, den_cons, IH. unfold in_mitem, in_net. cbn [mi_ver mi_first mi_last]. tauto.
Qed.

Lemma wf_items_nets d : Forall wf_net d -> Forall wf_mitem (map MNet d).
Proof. intros W. apply Forall_map. exact W. Qed.

Lemma mitem_of_elem_spec e : wf_elem e ->
  exists m, mitem_of_elem e = Ok m /\ wf_mitem m /\ forall ver x, in_mitem m ver x <-> in_elem e ver x.
Proof.
  destruct e as [i|ver v|n|ver s e']; cbn [wf_elem mitem_of_elem]; intros W.
  - destruct (net_of_int_spec i W) as (ver & -> & V & R & S). exists (MNet (addr_net ver i)). cbn [bind].
    split; [reflexivity|split; [apply wf_addr_net; assumption|]]. intros ver' x.
    change (in_mitem (MNet (addr_net ver i)) ver' x) with (in_net (addr_net ver i) ver' x).
    rewrite in_addr_net by assumption. cbn [in_elem]. split.
    + intros (-> & ->). split; [reflexivity|exact S].
    + intros (-> & [(-> & S')|(-> & S')]); split; auto; lia.
  - destruct W as (V & R). exists (MNet (addr_net ver v)). split; [reflexivity|split; [apply wf_addr_net; assumption|]].
    intros ver' x. change (in_mitem (MNet (addr_net ver v)) ver' x) with (in_net (addr_net ver v) ver' x).
    rewrite in_addr_net by assumption. cbn [in_elem]. tauto.
  - exists (MNet n). split; [reflexivity|split; [exact W|]]. intros ver x. cbn [in_elem]. unfold in_mitem, in_net. cbn. tauto.
  - exists (MRange ver s e'). split; [reflexivity|split; [exact W|]]. intros ver' x. cbn [in_elem]. unfold in_mitem. cbn.
    split; intros [? ?]; split; auto.
Qed.

Lemma mitems_of_spec l : Forall wf_elem l ->
  exists ms, mitems_of l = Ok ms /\ Forall wf_mitem ms /\
    forall ver x, den_items ms ver x <-> exists e, In e l /\ in_elem e ver x.
Proof.
  induction l as [|e l IH]; intros W.
  - exists []. split; [reflexivity|split; [constructor|]]. intros ver x. split; [intros H; destruct (den_items_nil _ _ H)|intros (e & [] & _)].
  - inversion W as [|? ? We Wl]; subst. destruct (IH Wl) as (ms & E & Wms & D).
    destruct (mitem_of_elem_spec e We) as (m & Em & Wm & Dm).
    exists (m :: ms). cbn [mitems_of]. rewrite Em, E. cbn [bind]. split; [reflexivity|split; [constructor; assumption|]].
    intros ver x. rewrite den_items_cons, D, Dm. split.
    + intros [H|(e' & He & H)]; [exists e; split; [now left|exact H]|exists e'; split; [now right|exact H]].
    + intros (e' & [<-|He] & H); [left; exact H|right; eauto].
Qed.

(* ================================================================ the two library functions, as used by IPSet *)
Section Bulk.
Hypothesis HR : iprange_to_cidrs_spec.
Hypothesis HM : cidr_merge_spec.

(* cidr_merge result stored with dict.fromkeys / repeated assignment: the canonical list itself *)
Lemma merge_dict items : Forall wf_mitem items ->
  exists cs, cidr_merge items = Ok cs /\ canon_nets cs /\ dfromkeys cs = cs /\ SetInv cs /\
    forall ver x, den cs ver x <-> den_items items ver x.
Proof.
  intros W. destruct (HM items W) as (cs & E & C & D). exists cs.
  split; [exact E|split; [exact C|split; [apply dfromkeys_canon, C|split; [apply canon_nets_SetInv, C|exact D]]]].
Qed.

Lemma range_dict ver s e : valid_ver ver = true -> 0 <= s <= e -> e < 2 ^ width ver ->
  exists cs, iprange_to_cidrs (addr_net ver s) (addr_net ver e) = Ok cs /\ canon_nets cs /\ dfromkeys cs = cs /\
    SetInv cs /\ forall ver' x, den cs ver' x <-> (ver' = ver /\ s <= x <= e).
Proof.
  intros V Hs He.
  assert (Ws: wf_net (addr_net ver s)) by (apply wf_addr_net; [exact V|lia]).
  assert (We: wf_net (addr_net ver e)) by (apply wf_addr_net; [exact V|lia]).
  destruct (HR _ _ Ws We eq_refl) as (cs & E & C & D).
  { rewrite nf_addr_net, nl_addr_net by (try exact V; lia). lia. }
  exists cs. split; [exact E|split; [exact C|split; [apply dfromkeys_canon, C|split; [apply canon_nets_SetInv, C|]]]].
  intros ver' x. rewrite D. rewrite nf_addr_net, nl_addr_net by (try exact V; lia). cbn [addr_net nver]. tauto.
Qed.

(* ================================================================ IPSet.__init__ *)
Theorem C06_init a : wf_sarg a ->
  exists d, set_init a = Ok d /\ SetInv d /\ forall ver x, den d ver x <-> in_sarg a ver x.
Proof.
  destruct a as [|n|ver s e|o|l|e]; cbn [wf_sarg set_init in_sarg]; intros W.
  - exists []. split; [reflexivity|split; [apply SetInv_nil|]]. intros ver x. pose proof (den_nil ver x). tauto.
  - exists [ncidr n]. split; [reflexivity|split; [apply SetInv_single, ncidr_wfh, W|]].
    intros ver x. rewrite den_cons, in_ncidr by exact W. pose proof (den_nil ver x). tauto.
  - destruct W as (V & Hs & He). destruct (range_dict ver s e V Hs He) as (cs & E & C & F & I & D).
    exists cs. rewrite E. cbn [bind]. rewrite F. auto.
  - destruct (C06_shown o W) as (C & D). exists (sorted o). rewrite (dfromkeys_canon _ C).
    split; [reflexivity|split; [apply canon_nets_SetInv, C|exact D]].
  - destruct (mitems_of_spec l W) as (ms & E & Wms & D). destruct (merge_dict ms Wms) as (cs & Ec & C & F & I & Dc).
    exists cs. rewrite E. cbn [bind]. rewrite Ec. cbn [bind]. fold (dupdate [] cs). rewrite <- dfromkeys_dupdate, F.
    split; [reflexivity|split; [exact I|]]. intros ver x. rewrite Dc. apply D.
  - contradiction.
Qed.

(* ================================================================ compact() *)
(* no invariant needed on the input: any dict of well-formed networks is re-merged into a valid state *)
Theorem C06_compact d : Forall wf_net d ->
  exists d', set_compact d = Ok d' /\ SetInv d' /\ canon_nets d' /\ forall ver x, den d' ver x <-> den d ver x.
Proof.
  intros W. destruct (merge_dict (map MNet d) (wf_items_nets d W)) as (cs & E & C & F & I & D).
  exists cs. unfold set_compact. rewrite E. cbn [bind]. rewrite F.
  split; [reflexivity|split; [exact I|split; [exact C|]]]. intros ver x. rewrite D. apply den_items_nets.
Qed.

(* add(IPRange | IPGlob): the one branch of add() that is a bulk operation (iprange_to_cidrs, dict.update, compact) *)
Lemma set_add_range d ver s e : Forall wf_net d -> valid_ver ver = true -> 0 <= s <= e -> e < 2 ^ width ver ->
  exists d', set_add d (ERange ver s e) = Ok d' /\ SetInv d' /\ canon_nets d' /\
    forall ver' x, den d' ver' x <-> den d ver' x \/ (ver' = ver /\ s <= x <= e).
Proof.
  intros Wd V Hs He. destruct (range_dict ver s e V Hs He) as (cs & E & C & F & I & D).
  assert (W2: Forall wf_net (dupdate d cs)) by (apply Forall_dupdate; [exact Wd|apply SetInv_wf, I]).
  destruct (C06_compact _ W2) as (d' & E' & I' & C' & D').
  exists d'. cbn [set_add]. rewrite E. cbn [bind]. rewrite F.
  split; [exact E'|split; [exact I'|split; [exact C'|]]]. intros ver' x. rewrite D', den_dupdate, D. tauto.
Qed.

(* ================================================================ update() *)
Lemma update_set d o : Forall wf_net d -> Forall wf_net o ->
  exists d', set_update d (ASet o) = Ok d' /\ SetInv d' /\ canon_nets d' /\
    forall ver x, den d' ver x <-> den d ver x \/ den o ver x.
Proof.
  intros Wd Wo. assert (W: Forall wf_net (d ++ o)) by (apply Forall_app; auto).
  destruct (merge_dict (map MNet (d ++ o)) (wf_items_nets _ W)) as (cs & E & C & F & I & D).
  exists cs. cbn [set_update]. rewrite E. cbn [bind]. rewrite F.
  split; [reflexivity|split; [exact I|split; [exact C|]]]. intros ver x. rewrite D, den_items_nets. apply den_app.
Qed.

Lemma update_iter d l : Forall wf_net d -> Forall wf_elem l ->
  exists d', set_update d (AIter l) = Ok d' /\ SetInv d' /\ canon_nets d' /\
    forall ver x, den d' ver x <-> den d ver x \/ exists e, In e l /\ in_elem e ver x.
Proof.
  intros Wd Wl. destruct (mitems_of_spec l Wl) as (ms & E & Wms & D).
  assert (W: Forall wf_mitem (map MNet d ++ ms)) by (apply Forall_app; split; [apply wf_items_nets, Wd|exact Wms]).
  destruct (merge_dict _ W) as (cs & Ec & C & F & I & Dc).
  assert (W2: Forall wf_net (dupdate d cs)) by (apply Forall_dupdate; [exact Wd|apply SetInv_wf, I]).
  destruct (C06_compact _ W2) as (d' & E' & I' & C' & D').
  exists d'. cbn [set_update]. rewrite E. cbn [bind]. rewrite Ec. cbn [bind]. fold (dupdate d cs).
  split; [exact E'|split; [exact I'|split; [exact C'|]]]. intros ver x.
  rewrite D', den_dupdate, Dc, den_items_app, den_items_nets, D. tauto.
Qed.

Lemma update_none d : set_update d ANone = Raise TypeError.
Proof. reflexivity. Qed.

Theorem C06_update : add_spec -> forall d a, SetInv d -> wf_sarg a -> a <> ANone ->
  exists d', set_update d a = Ok d' /\ SetInv d' /\ forall ver x, den d' ver x <-> den d ver x \/ in_sarg a ver x.
Proof.
  intros HA d a I W Hn. destruct a as [|n|ver s e|o|l|e]; cbn [wf_sarg in_sarg] in *.
  - contradiction.
  - apply (HA d (ENet n) I W).
  - destruct W as (V & Hs & He). destruct (set_add_range d ver s e (SetInv_wf _ I) V Hs He) as (d' & E & I' & _ & D).
    exists d'. cbn [set_update]. eauto.
  - destruct (update_set d o (SetInv_wf _ I) (SetInv_wf _ W)) as (d' & E & I' & _ & D). eauto.
  - destruct (update_iter d l (SetInv_wf _ I) W) as (d' & E & I' & _ & D). eauto.
  - contradiction.
Qed.

(* ================================================================ union, copy, clear *)
Theorem C06_copy d : SetInv d ->
  dupdate [] d = d /\ SetInv (dupdate [] d) /\ forall ver x, den (dupdate [] d) ver x <-> den d ver x.
Proof.
  intros I. assert (E: dupdate [] d = d) by (apply (dfromkeys_SetInv d I)). rewrite E. split; [reflexivity|split; [exact I|tauto]].
Qed.

Theorem C06_union a b : SetInv a -> SetInv b ->
  exists d, set_union a b = Ok d /\ SetInv d /\ forall ver x, den d ver x <-> den a ver x \/ den b ver x.
Proof.
  intros Ia Ib. unfold set_union. destruct (C06_copy a Ia) as (-> & _).
  destruct (update_set a b (SetInv_wf _ Ia) (SetInv_wf _ Ib)) as (d & E & I & _ & D). eauto.
Qed.

Theorem C06_clear : SetInv [] /\ forall ver x, ~ den [] ver x.
Proof. split; [apply SetInv_nil|apply den_nil]. Qed.

End Bulk.

(* ================================================================ pickling *)
Lemma net_of_tuple_wf n : wf_net n -> Span.net_of_tuple width (nver n) (nval n) (nplen n) = Ok n.
Proof.
  intros (_ & Hv & Hp). unfold Span.net_of_tuple, max_int_w.
  case_leb 0 (nval n); [|lia]. case_leb (nval n) (2 ^ width (nver n) - 1); [|lia]. cbn [andb negb].
  case_leb 0 (nplen n); [|lia]. case_leb (nplen n) (width (nver n)); [|lia]. cbn [andb negb].
  destruct n; reflexivity.
Qed.

Lemma setstate_getstate d : Forall wfh d -> NoDup d -> set_setstate (set_getstate d) = Ok d.
Proof.
  induction d as [|n d IH]; intros W N; [reflexivity|].
  inversion W as [|? ? Wn Wd]; subst. inversion N as [|? ? Hn Nd]; subst.
  cbn [set_getstate map set_setstate]. fold (set_getstate d).
  assert (Hver: valid_ver (nver n) = true) by apply Wn. rewrite Hver.
  rewrite net_of_tuple_wf by apply Wn. cbn [bind].
  rewrite (IH Wd Nd). cbn [bind]. rewrite dfromkeys_id; auto.
Qed.

(* __setstate__(__getstate__()) restores the very same stored dict (same keys, same order) *)
Theorem C06_pickle d : SetInv d ->
  exists d', set_setstate (set_getstate d) = Ok d' /\ d' = d /\ SetInv d' /\ forall ver x, den d' ver x <-> den d ver x.
Proof.
  intros I. exists d. split; [apply setstate_getstate; [apply I|apply SetInv_nodup, I]|]. split; [reflexivity|split; [exact I|tauto]].
Qed.

(* ================================================================ pop() *)
(* dict.popitem() is LIFO: the last inserted key goes; KeyError exactly on the empty set *)
Theorem C06_pop : pop_spec.
Proof.
  intros d I. unfold set_pop. destruct (rev d) as [|k r] eqn:E.
  - split; [reflexivity|]. rewrite <- (rev_involutive d), E. reflexivity.
  - assert (Ed: d = rev r ++ [k]) by (rewrite <- (rev_involutive d), E; reflexivity).
    assert (P: Permutation d (k :: rev r)) by (rewrite Ed; apply Permutation_sym, Permutation_cons_append).
    pose proof (SetInv_perm _ _ P I) as I2. destruct (SetInv_cons_inv _ _ I2) as (_ & I3 & _).
    split; [rewrite Ed; apply in_or_app; right; now left|split; [exact I3|]].
    intros ver x. rewrite (den_cons_inv k (rev r) ver x I2). rewrite (den_perm _ _ ver x P). tauto.
Qed.

(* ================================================================ histories *)
(* A typed version of the register machine of Extract/Cmd_Sets.v (same register file `regs`, `get`, `put`; a raising
   operation leaves the registers as they were), and its abstract semantics on sets of addresses. *)
From Coq Require Import String.
From NV Require Import Extract.CmdBase Extract.Cmd_Sets.

Inductive targ := TNone | TNet (n : net) | TRange (ver s e : Z) | TSet (r : Z) | TIter (l : list elem).
Definition resolve (rs : regs) (t : targ) : Sets.sarg :=
  match t with
  | TNone => ANone | TNet n => ANet n | TRange ver s e => ARange ver s e | TSet r => ASet (get rs r) | TIter l => AIter l
  end.

Inductive op :=
| OInit (r : Z) (a : targ) | OAdd (r : Z) (e : elem) | ORemove (r : Z) (e : elem) | OUpdate (r : Z) (a : targ)
| OClear (r : Z) | OCompact (r : Z) | OCopy (dst src : Z) | OPickle (r : Z) | OPop (r : Z)
| OUnion (dst a b : Z) | OInter (dst a b : Z) | ODiff (dst a b : Z) | OXor (dst a b : Z).

Definition mutr (rs : regs) (r : Z) (o : outcome dict) : regs :=
  match o with Ok d => put rs r d | Raise _ => rs end.

Definition ostep (rs : regs) (o : op) : regs :=
  match o with
  | OInit r a => mutr rs r (set_init (resolve rs a))
  | OAdd r e => mutr rs r (set_add (get rs r) e)
  | ORemove r e => mutr rs r (set_remove (get rs r) e)
  | OUpdate r a => mutr rs r (set_update (get rs r) (resolve rs a))
  | OClear r => mutr rs r (Ok [])
  | OCompact r => mutr rs r (set_compact (get rs r))
  | OCopy dst src => mutr rs dst (Ok (dupdate [] (get rs src)))
  | OPickle r => mutr rs r (set_setstate (set_getstate (get rs r)))
  | OPop r => match set_pop (get rs r) with Ok (d, _) => put rs r d | Raise _ => rs end
  | OUnion dst a b => mutr rs dst (set_union (get rs a) (get rs b))
  | OInter dst a b => mutr rs dst (set_intersection (get rs a) (get rs b))
  | ODiff dst a b => mutr rs dst (set_difference (get rs a) (get rs b))
  | OXor dst a b => mutr rs dst (set_symdiff (get rs a) (get rs b))
  end.

(* ---- the typed machine is the extracted one: encoding of ops as wire values ---- *)
Open Scope string_scope.
Definition enc_elem (e : elem) : pyval :=
  match e with
  | EInt i => PList [PStr "i"; PInt i]
  | EAddr ver v => PList [PStr "a"; PInt ver; PInt v]
  | ENet n => PList [PStr "n"; PInt (nver n); PInt (nval n); PInt (nplen n)]
  | ERange ver s e' => PList [PStr "r"; PInt ver; PInt s; PInt e']
  end.
Definition enc_targ (t : targ) : pyval :=
  match t with
  | TNone => PList [PStr "none"]
  | TNet n => PList [PStr "n"; PInt (nver n); PInt (nval n); PInt (nplen n)]
  | TRange ver s e => PList [PStr "r"; PInt ver; PInt s; PInt e]
  | TSet r => PList [PStr "set"; PInt r]
  | TIter l => PList [PStr "iter"; PList (map enc_elem l)]
  end.
Definition enc_op (o : op) : pyval :=
  match o with
  | OInit r a => PList [PStr "init"; PInt r; enc_targ a]
  | OAdd r e => PList [PStr "add"; PInt r; enc_elem e]
  | ORemove r e => PList [PStr "remove"; PInt r; enc_elem e]
  | OUpdate r a => PList [PStr "update"; PInt r; enc_targ a]
  | OClear r => PList [PStr "clear"; PInt r]
  | OCompact r => PList [PStr "compact"; PInt r]
  | OCopy dst src => PList [PStr "copy"; PInt dst; PInt src]
  | OPickle r => PList [PStr "pickle"; PInt r]
  | OPop r => PList [PStr "pop"; PInt r]
  | OUnion dst a b => PList [PStr "union"; PInt dst; PInt a; PInt b]
  | OInter dst a b => PList [PStr "inter"; PInt dst; PInt a; PInt b]
  | ODiff dst a b => PList [PStr "diff"; PInt dst; PInt a; PInt b]
  | OXor dst a b => PList [PStr "xor"; PInt dst; PInt a; PInt b]
  end.
Close Scope string_scope.

Lemma to_elem_enc e : to_elem (enc_elem e) = Some e.
Proof. destruct e as [i|ver v|[ver v p]|ver s e']; reflexivity. Qed.

Lemma to_elems_enc l : to_elems (map enc_elem l) = Some l.
Proof. induction l as [|e l IH]; [reflexivity|]. cbn [map to_elems]. rewrite to_elem_enc, IH. reflexivity. Qed.

Lemma to_sarg_enc rs t : to_sarg rs (enc_targ t) = Some (resolve rs t).
Proof.
  destruct t as [|[ver v p]|ver s e|r|l]; try reflexivity.
  unfold enc_targ, to_sarg. rewrite to_elems_enc. reflexivity.
Qed.

Lemma fst_mut rs r o : fst (mut rs r o) = mutr rs r o.
Proof. destruct o; reflexivity. Qed.

(* running the extracted command on the encoded op changes the registers exactly as ostep does *)
Lemma step_enc rs o : fst (step rs (enc_op o)) = ostep rs o.
Proof.
  destruct o; unfold enc_op, step; rewrite ?to_sarg_enc, ?to_elem_enc, ?fst_mut; try reflexivity.
  cbn [ostep]. destruct (set_pop (get rs r)) as [[d k]|e]; reflexivity.
Qed.

(* ... and so does a whole run *)
Lemma steps_enc ops : forall rs, fold_left (fun rs o => fst (step rs o)) (map enc_op ops) rs = fold_left ostep ops rs.
Proof. induction ops as [|o ops IH]; intros rs; [reflexivity|]. cbn [map fold_left]. rewrite step_enc. apply IH. Qed.

(* ---- abstract semantics: one set of (version, address) pairs per register ---- *)
Definition aset := Z -> Z -> Prop.
Definition aempty : aset := fun _ _ => False.
Definition aregs := list aset.
Definition aget (s : aregs) (i : Z) : aset := nth (Z.to_nat i) s aempty.
Fixpoint aset_nth (s : aregs) (i : nat) (A : aset) : aregs :=
  match s, i with
  | [], _ => []
  | _ :: r, O => A :: r
  | x :: r, S k => x :: aset_nth r k A
  end.
Definition aput (s : aregs) (i : Z) (A : aset) : aregs := aset_nth s (Z.to_nat i) A.

Definition den_targ (s : aregs) (t : targ) : aset :=
  match t with
  | TNone => aempty
  | TNet n => in_net n
  | TRange v a b => fun ver x => ver = v /\ a <= x <= b
  | TSet r => aget s r
  | TIter l => fun ver x => exists e, In e l /\ in_elem e ver x
  end.

Definition wf_targ (t : targ) : Prop :=
  match t with
  | TNone => True
  | TNet n => wf_net n
  | TRange ver s e => valid_ver ver = true /\ 0 <= s <= e /\ e < 2 ^ width ver
  | TSet _ => True
  | TIter l => Forall wf_elem l
  end.

Definition wf_op (o : op) : Prop :=
  match o with
  | OInit _ a | OUpdate _ a => wf_targ a
  | OAdd _ e | ORemove _ e => wf_elem e
  | _ => True
  end.

(* one abstract step.  update(None) raises TypeError and pop() on the empty set raises KeyError: no change.
   pop() removes one block of the canonical decomposition of the register's set (which one depends on the insertion
   order of the stored dict, which the abstract state does not see). *)
Definition astep (s : aregs) (o : op) (s' : aregs) : Prop :=
  match o with
  | OInit r a => s' = aput s r (den_targ s a)
  | OAdd r e => s' = aput s r (fun ver x => aget s r ver x \/ in_elem e ver x)
  | ORemove r e => s' = aput s r (fun ver x => aget s r ver x /\ ~ in_elem e ver x)
  | OUpdate r TNone => s' = s
  | OUpdate r a => s' = aput s r (fun ver x => aget s r ver x \/ den_targ s a ver x)
  | OClear r => s' = aput s r aempty
  | OCompact r => s' = aput s r (aget s r)
  | OCopy dst src => s' = aput s dst (aget s src)
  | OPickle r => s' = aput s r (aget s r)
  | OPop r =>
      ((forall ver x, ~ aget s r ver x) /\ s' = s) \/
      (exists l k, canon_nets l /\ (forall ver x, den l ver x <-> aget s r ver x) /\ In k l /\
                   s' = aput s r (fun ver x => aget s r ver x /\ ~ in_net k ver x))
  | OUnion dst a b => s' = aput s dst (fun ver x => aget s a ver x \/ aget s b ver x)
  | OInter dst a b => s' = aput s dst (fun ver x => aget s a ver x /\ aget s b ver x)
  | ODiff dst a b => s' = aput s dst (fun ver x => aget s a ver x /\ ~ aget s b ver x)
  | OXor dst a b => s' = aput s dst (fun ver x => (aget s a ver x /\ ~ aget s b ver x) \/ (aget s b ver x /\ ~ aget s a ver x))
  end.

Fixpoint aruns (s : aregs) (ops : list op) (s' : aregs) : Prop :=
  match ops with
  | [] => s' = s
  | o :: r => exists s1, astep s o s1 /\ aruns s1 r s'
  end.

(* every register holds a valid stored state denoting its abstract set *)
Definition reg_ok (d : dict) (A : aset) : Prop := SetInv d /\ forall ver x, den d ver x <-> A ver x.
Definition Rel (rs : regs) (s : aregs) : Prop := Forall2 reg_ok rs s.

Lemma rel_nth rs s : Rel rs s -> forall i, reg_ok (nth i rs []) (nth i s aempty).
Proof.
  intros R. induction R as [|d A rs s H R IH]; intros i.
  - destruct i; cbn [nth]; (split; [apply SetInv_nil|intros ver x; pose proof (den_nil ver x); unfold aempty; tauto]).
  - destruct i as [|i]; [exact H|apply IH].
Qed.

Lemma rel_get rs s i : Rel rs s -> reg_ok (get rs i) (aget s i).
Proof. intros R. apply rel_nth, R. Qed.

Lemma rel_set_nth rs s d A : Rel rs s -> reg_ok d A -> forall i, Rel (set_nth rs i d) (aset_nth s i A).
Proof.
  intros R H. induction R as [|d0 A0 rs s H0 R IH]; intros i; [destruct i; constructor|].
  destruct i as [|i]; cbn [set_nth aset_nth]; constructor; auto. apply IH.
Qed.

Lemma rel_put rs s i d A : Rel rs s -> SetInv d -> (forall ver x, den d ver x <-> A ver x) -> Rel (put rs i d) (aput s i A).
Proof. intros R I D. apply rel_set_nth; [exact R|split; assumption]. Qed.

Lemma rel_targ rs s t : Rel rs s -> wf_targ t ->
  wf_sarg (resolve rs t) /\ forall ver x, in_sarg (resolve rs t) ver x <-> den_targ s t ver x.
Proof.
  intros R W. destruct t as [|n|ver a b|r|l]; cbn [resolve wf_sarg in_sarg den_targ wf_targ] in *;
    try (split; [exact W|intros; unfold aempty; tauto]).
  destruct (rel_get rs s r R) as (I & D). split; [exact I|exact D].
Qed.

(* operations other than & - ^ (which are the sweeps of C07) *)
Definition sweep_free (o : op) : Prop :=
  match o with OInter _ _ _ | ODiff _ _ _ | OXor _ _ _ => False | _ => True end.

Section History.
Hypothesis HR : iprange_to_cidrs_spec.
Hypothesis HM : cidr_merge_spec.
Hypothesis HA : add_spec.
Hypothesis HRm : remove_spec.

(* one step: every mutator / constructor, union, every argument form *)
Theorem C06_step_core rs s o : sweep_free o -> Rel rs s -> wf_op o -> exists s', astep s o s' /\ Rel (ostep rs o) s'.
Proof.
  intros SF R W. destruct o as [r a|r e|r e|r a|r|r|dst src|r|r|dst a b|dst a b|dst a b|dst a b]; cbn [wf_op astep ostep sweep_free] in *; try contradiction.
  - (* init *)
    destruct (rel_targ rs s a R W) as (Wa & Da). destruct (C06_init HR HM _ Wa) as (d & E & I & D).
    eexists. split; [reflexivity|]. rewrite E. cbn [mutr]. apply rel_put; auto. intros ver x. rewrite D. apply Da.
  - (* add *)
    destruct (rel_get rs s r R) as (I0 & D0). destruct (HA _ e I0 W) as (d & E & I & D).
    eexists. split; [reflexivity|]. rewrite E. cbn [mutr]. apply rel_put; auto. intros ver x. rewrite D, D0. tauto.
  - (* remove *)
    destruct (rel_get rs s r R) as (I0 & D0). destruct (HRm _ e I0 W) as (d & E & I & D).
    eexists. split; [reflexivity|]. rewrite E. cbn [mutr]. apply rel_put; auto. intros ver x. rewrite D, D0. tauto.
  - (* update *)
    destruct (rel_get rs s r R) as (I0 & D0). destruct (rel_targ rs s a R W) as (Wa & Da).
    assert (G: a <> TNone -> exists s', s' = aput s r (fun ver x => aget s r ver x \/ den_targ s a ver x) /\
                                     Rel (mutr rs r (set_update (get rs r) (resolve rs a))) s').
    { intros Hn. destruct (C06_update HR HM HA (get rs r) (resolve rs a) I0 Wa) as (d & E & I & D).
      { destruct a; cbn [resolve]; try discriminate. congruence. }
      eexists. split; [reflexivity|]. rewrite E. cbn [mutr]. apply rel_put; auto. intros ver x. rewrite D, D0, Da. tauto. }
    destruct a as [|n|ver a b|r'|l]; try (apply G; discriminate).
    exists s. split; [reflexivity|]. cbn [resolve]. rewrite update_none. exact R.
  - (* clear *)
    eexists. split; [reflexivity|]. cbn [mutr]. apply rel_put; auto; [apply SetInv_nil|].
    intros ver x. pose proof (den_nil ver x). unfold aempty. tauto.
  - (* compact *)
    destruct (rel_get rs s r R) as (I0 & D0). destruct (C06_compact HM _ (SetInv_wf _ I0)) as (d & E & I & _ & D).
    eexists. split; [reflexivity|]. rewrite E. cbn [mutr]. apply rel_put; auto. intros ver x. rewrite D. apply D0.
  - (* copy *)
    destruct (rel_get rs s src R) as (I0 & D0). destruct (C06_copy _ I0) as (E & _).
    eexists. split; [reflexivity|]. rewrite E. cbn [mutr]. apply rel_put; auto.
  - (* pickle *)
    destruct (rel_get rs s r R) as (I0 & D0). destruct (C06_pickle _ I0) as (d & E & -> & _).
    eexists. split; [reflexivity|]. rewrite E. cbn [mutr]. apply rel_put; auto.
  - (* pop *)
    destruct (rel_get rs s r R) as (I0 & D0). pose proof (C06_pop _ I0) as P.
    destruct (set_pop (get rs r)) as [[d k]|e].
    + destruct P as (Hk & I & D). eexists. split.
      * right. exists (sorted (get rs r)), k. destruct (C06_shown _ I0) as (C & Ds).
        split; [exact C|split; [intros ver x; rewrite Ds; apply D0|split; [apply sorted_in, Hk|reflexivity]]].
      * apply rel_put; auto. intros ver x. rewrite D, D0. tauto.
    + destruct P as (_ & E0). exists s. split; [|exact R]. left. split; [|reflexivity].
      intros ver x H. apply D0 in H. rewrite E0 in H. exact (den_nil _ _ H).
  - (* union *)
    destruct (rel_get rs s a R) as (Ia & Da). destruct (rel_get rs s b R) as (Ib & Db).
    destruct (C06_union HM _ _ Ia Ib) as (d & E & I & D).
    eexists. split; [reflexivity|]. rewrite E. cbn [mutr]. apply rel_put; auto. intros ver x. rewrite D, Da, Db. tauto.
Qed.

Section Sweeps.
Hypothesis HI : inter_spec.
Hypothesis HD : diff_spec.
Hypothesis HX : xor_spec.

(* one step, all thirteen operations *)
Theorem C06_step rs s o : Rel rs s -> wf_op o -> exists s', astep s o s' /\ Rel (ostep rs o) s'.
Proof.
  intros R W.
  assert (G: sweep_free o -> exists s', astep s o s' /\ Rel (ostep rs o) s') by (intros SF; apply C06_step_core; assumption).
  destruct o as [r a|r e|r e|r a|r|r|dst src|r|r|dst a b|dst a b|dst a b|dst a b]; try (apply G; exact I); cbn [astep ostep].
  - (* & *)
    destruct (rel_get rs s a R) as (Ia & Da). destruct (rel_get rs s b R) as (Ib & Db).
    destruct (HI _ _ Ia Ib) as (d & E & I & D).
    eexists. split; [reflexivity|]. rewrite E. cbn [mutr]. apply rel_put; auto. intros ver x. rewrite D, Da, Db. tauto.
  - (* - *)
    destruct (rel_get rs s a R) as (Ia & Da). destruct (rel_get rs s b R) as (Ib & Db).
    destruct (HD _ _ Ia Ib) as (d & E & I & D).
    eexists. split; [reflexivity|]. rewrite E. cbn [mutr]. apply rel_put; auto. intros ver x. rewrite D, Da, Db. tauto.
  - (* ^ *)
    destruct (rel_get rs s a R) as (Ia & Da). destruct (rel_get rs s b R) as (Ib & Db).
    destruct (HX _ _ Ia Ib) as (d & E & I & D).
    eexists. split; [reflexivity|]. rewrite E. cbn [mutr]. apply rel_put; auto. intros ver x. rewrite D, Da, Db. tauto.
Qed.
End Sweeps.

(* any finite history: the registers stay valid and denote what the abstract run says.  P restricts the ops. *)
Lemma reachable_gen (P : op -> Prop) :
  (forall rs s o, P o -> Rel rs s -> wf_op o -> exists s', astep s o s' /\ Rel (ostep rs o) s') ->
  forall ops rs s, Rel rs s -> Forall wf_op ops -> Forall P ops ->
  exists s', aruns s ops s' /\ Rel (fold_left ostep ops rs) s'.
Proof.
  intros Step. induction ops as [|o ops IH]; intros rs s R W HP; cbn [fold_left aruns].
  - exists s. split; [reflexivity|exact R].
  - inversion W as [|? ? Wo Wops]; subst. inversion HP as [|? ? Po Pops]; subst.
    destruct (Step rs s o Po R Wo) as (s1 & A1 & R1).
    destruct (IH _ _ R1 Wops Pops) as (s' & A' & R'). exists s'. split; [exists s1; split; assumption|exact R'].
Qed.

(* the machine of Extract/Cmd_Sets.v starts with four empty registers *)
Definition regs0 : regs := [[]; []; []; []].
Definition aregs0 : aregs := [aempty; aempty; aempty; aempty].

Lemma rel0 : Rel regs0 aregs0.
Proof.
  assert (H: reg_ok [] aempty).
  { split; [apply SetInv_nil|]. intros ver x. pose proof (den_nil ver x). unfold aempty. tauto. }
  unfold Rel, regs0, aregs0. repeat (apply Forall2_cons; [exact H|]). apply Forall2_nil.
Qed.

(* every register of every reachable state satisfies the invariant, shows the canonical list of the set the abstract
   run assigns to it, and two registers compare equal iff their abstract sets coincide *)
Definition shown_ok (rs : regs) (s' : aregs) : Prop :=
  (forall r, SetInv (get rs r) /\ canon_nets (sorted (get rs r)) /\
             forall ver x, den (sorted (get rs r)) ver x <-> aget s' r ver x) /\
  (forall r1 r2, dict_eqb (get rs r1) (get rs r2) = true <-> forall ver x, aget s' r1 ver x <-> aget s' r2 ver x).

Lemma rel_shown rs s' : Rel rs s' -> shown_ok rs s'.
Proof.
  intros R. split.
  - intros r. destruct (rel_get _ _ r R) as (I & D). destruct (C06_shown _ I) as (C & Ds).
    split; [exact I|split; [exact C|]]. intros ver x. rewrite Ds. apply D.
  - intros r1 r2. destruct (rel_get _ _ r1 R) as (I1 & D1). destruct (rel_get _ _ r2 R) as (I2 & D2).
    rewrite (C06_extensional _ _ I1 I2). split; intros H ver x.
    + rewrite <- D1, <- D2. apply H.
    + rewrite D1, D2. apply H.
Qed.

(* histories without & - ^ *)
Theorem C06_reachable_core ops : forall rs s, Rel rs s -> Forall wf_op ops -> Forall sweep_free ops ->
  exists s', aruns s ops s' /\ Rel (fold_left ostep ops rs) s'.
Proof. apply (reachable_gen sweep_free). intros rs s o. apply C06_step_core. Qed.

Theorem C06_reachable_shown_core ops : Forall wf_op ops -> Forall sweep_free ops ->
  exists s', aruns aregs0 ops s' /\ shown_ok (fold_left ostep ops regs0) s'.
Proof.
  intros W SF. destruct (C06_reachable_core ops regs0 aregs0 rel0 W SF) as (s' & A & R). exists s'.
  split; [exact A|apply rel_shown, R].
Qed.

Section Sweeps2.
Hypothesis HI : inter_spec.
Hypothesis HD : diff_spec.
Hypothesis HX : xor_spec.

Theorem C06_reachable ops : forall rs s, Rel rs s -> Forall wf_op ops ->
  exists s', aruns s ops s' /\ Rel (fold_left ostep ops rs) s'.
Proof.
  intros rs s R W. apply (reachable_gen (fun _ => True)); auto.
  - intros rs0 s0 o _. apply C06_step; assumption.
  - apply Forall_forall. auto.
Qed.

Theorem C06_reachable_shown ops : Forall wf_op ops ->
  exists s', aruns aregs0 ops s' /\ shown_ok (fold_left ostep ops regs0) s'.
Proof.
  intros W. destruct (C06_reachable ops regs0 aregs0 rel0 W) as (s' & A & R). exists s'.
  split; [exact A|apply rel_shown, R].
Qed.
End Sweeps2.

End History.
