(* Proofs/C07_sweeps_inter.v — IPSet.intersection (inter_loop) and isdisjoint: the two-cursor sweep over the
   sorted key lists emits, in ascending order, exactly the stored blocks of one operand lying inside a stored
   block of the other; the result satisfies SetInv and denotes the intersection. *)
From NV Require Import Base.Tac Base.PyVal Base.Bits Base.Canon Model.Ip Model.Partition Model.Span Model.Merge Model.Sets
  Proofs.C02 Proofs.NetDen Proofs.C07_sweeps.
From Coq Require Import Sorting.Sorted Sorting.Permutation.
Open Scope Z_scope.

Lemma s_ninside_refl a : ninside a a.
Proof. rsimp. lia. Qed.
Lemma s_ninside_eq a b : rng_of a = rng_of b -> ninside a b /\ ninside b a.
Proof. intros E. unfold rng_of in E. inversion E. rsimp. lia. Qed.

(* the boolean case analysis of the loops, decoded *)
Inductive cmp_case (oc tc : net) : Prop :=
| CEq : key_eqb oc tc = true -> rng_of oc = rng_of tc -> cmp_case oc tc
| CIn : key_eqb oc tc = false -> net_in_net oc tc = true -> ninside oc tc -> rng_of oc <> rng_of tc -> cmp_case oc tc
| CSup : key_eqb oc tc = false -> net_in_net oc tc = false -> net_in_net tc oc = true -> ninside tc oc ->
         rng_of oc <> rng_of tc -> cmp_case oc tc
| CLt : key_eqb oc tc = false -> net_in_net oc tc = false -> net_in_net tc oc = false -> net_ltb oc tc = true ->
        nbelow oc tc -> cmp_case oc tc
| CGt : key_eqb oc tc = false -> net_in_net oc tc = false -> net_in_net tc oc = false -> net_ltb oc tc = false ->
        nbelow tc oc -> cmp_case oc tc.

Lemma s_cmp_case oc tc : wfh oc -> wfh tc -> cmp_case oc tc.
Proof.
  intros Ho Ht. pose proof Ho as (Wo & _). pose proof Ht as (Wt & _).
  destruct (key_eqb oc tc) eqn:K; [apply CEq; [exact K|apply s_key_eqb_iff, K]|].
  assert (NE: rng_of oc <> rng_of tc) by (intros E; apply s_key_eqb_iff in E; congruence).
  destruct (net_in_net oc tc) eqn:N1; [apply CIn; auto; apply s_net_in_net_iff; auto|].
  destruct (net_in_net tc oc) eqn:N2; [apply CSup; auto; apply s_net_in_net_iff; auto|].
  destruct (s_net_ltb_below oc tc Ho Ht) as [L1 L2].
  destruct (s_tricho oc tc Ho Ht) as [I|[I|[B|B]]].
  - apply s_net_in_net_iff in I; auto. congruence.
  - apply s_net_in_net_iff in I; auto. congruence.
  - apply CLt; auto.
  - apply CGt; auto.
Qed.

Definition inter_post (own other R : list net) : Prop :=
  StronglySorted nbelow R /\
  (forall r, In r R -> (In r own \/ In r other) /\ (exists o, In o own /\ ninside r o) /\
                       (exists t, In t other /\ ninside r t)) /\
  (forall ver x, den own ver x -> den other ver x -> den R ver x).

Lemma inter_loop_spec : forall fuel own other res, Good own -> Good other ->
  (length own + length other < fuel)%nat ->
  exists R, inter_loop fuel own other res = Ok (fold_left dset R res) /\ inter_post own other R.
Proof.
  induction fuel as [|f IH]; intros own other res Go Gt Hf; [lia|].
  destruct own as [|oc own'].
  { exists []. split; [reflexivity|]. split; [constructor|split; [intros r []|]].
    intros ver x D. destruct (den_nil _ _ D). }
  destruct other as [|tc other'].
  { exists []. split; [reflexivity|]. split; [constructor|split; [intros r []|]].
    intros ver x _ D. destruct (den_nil _ _ D). }
  cbn [length] in Hf. cbn [inter_loop].
  pose proof (Good_head _ _ Go) as Ho. pose proof (Good_head _ _ Gt) as Ht.
  pose proof (Good_tail _ _ Go) as Go'. pose proof (Good_tail _ _ Gt) as Gt'.
  destruct (s_cmp_case oc tc Ho Ht) as [K E|K N1 I NE|K N1 N2 I NE|K N1 N2 L B|K N1 N2 L B].
  - (* equal blocks *)
    rewrite K. destruct (IH own' other' (dset res oc) Go' Gt') as (R & HR & S & M & D); [lia|].
    destruct (s_ninside_eq _ _ E) as [I1 I2].
    exists (oc :: R). split; [exact HR|]. split; [|split].
    + constructor; [exact S|]. rewrite Forall_forall. intros r Hr. destruct (M r Hr) as (_ & (o & Hin & Io) & _).
      eapply s_below_inside_r; [eapply Good_head_below; eauto|exact Io].
    + intros r [<-|Hr].
      * split; [left; now left|split; [exists oc; split; [now left|apply s_ninside_refl]|exists tc; split; [now left|exact I1]]].
      * destruct (M r Hr) as (A & (o & Hin & Io) & (t & Hit & It)).
        split; [destruct A; [left|right]; now right|split; [exists o|exists t]; split; auto; now right].
    + intros ver x Da Db. apply den_cons. apply den_cons in Da, Db.
      destruct Da as [Da|Da]; [now left|]. destruct Db as [Db|Db]; [left; eapply s_inside_in; eauto|].
      right. apply D; assumption.
  - (* oc inside tc: emit oc, advance own *)
    rewrite K, N1. destruct (IH own' (tc :: other') (dset res oc) Go' Gt) as (R & HR & S & M & D); [cbn [length]; lia|].
    exists (oc :: R). split; [exact HR|]. split; [|split].
    + constructor; [exact S|]. rewrite Forall_forall. intros r Hr. destruct (M r Hr) as (_ & (o & Hin & Io) & _).
      eapply s_below_inside_r; [eapply Good_head_below; eauto|exact Io].
    + intros r [<-|Hr].
      * split; [left; now left|split; [exists oc; split; [now left|apply s_ninside_refl]|exists tc; split; [now left|exact I]]].
      * destruct (M r Hr) as (A & (o & Hin & Io) & T).
        split; [destruct A; [left; now right|now right]|split; [exists o; split; auto; now right|exact T]].
    + intros ver x Da Db. apply den_cons. apply den_cons in Da.
      destruct Da as [Da|Da]; [now left|]. right. apply D; assumption.
  - (* tc inside oc: emit tc, advance other *)
    rewrite K, N1, N2. destruct (IH (oc :: own') other' (dset res tc) Go Gt') as (R & HR & S & M & D); [cbn [length]; lia|].
    exists (tc :: R). split; [exact HR|]. split; [|split].
    + constructor; [exact S|]. rewrite Forall_forall. intros r Hr. destruct (M r Hr) as (_ & _ & (t & Hit & It)).
      eapply s_below_inside_r; [eapply Good_head_below; eauto|exact It].
    + intros r [<-|Hr].
      * split; [right; now left|split; [exists oc; split; [now left|exact I]|exists tc; split; [now left|apply s_ninside_refl]]].
      * destruct (M r Hr) as (A & O & (t & Hit & It)).
        split; [destruct A; [now left|right; now right]|split; [exact O|exists t; split; auto; now right]].
    + intros ver x Da Db. apply den_cons. apply den_cons in Db.
      destruct Db as [Db|Db]; [now left|]. right. apply D; assumption.
  - (* oc entirely before tc, hence before all of other *)
    rewrite K, N1, N2, L. destruct (IH own' (tc :: other') res Go' Gt) as (R & HR & S & M & D); [cbn [length]; lia|].
    exists R. split; [exact HR|]. split; [exact S|split].
    + intros r Hr. destruct (M r Hr) as (A & (o & Hin & Io) & T).
      split; [destruct A; [left; now right|now right]|split; [exists o; split; auto; now right|exact T]].
    + intros ver x Da Db. apply den_cons in Da. destruct Da as [Da|Da]; [exfalso|apply D; assumption].
      eapply (s_below_all_not_den oc (tc :: other')); [apply Good_below_all; eauto|exact Da|exact Db].
  - (* tc entirely before oc, hence before all of own *)
    rewrite K, N1, N2, L. destruct (IH (oc :: own') other' res Go Gt') as (R & HR & S & M & D); [cbn [length]; lia|].
    exists R. split; [exact HR|]. split; [exact S|split].
    + intros r Hr. destruct (M r Hr) as (A & O & (t & Hit & It)).
      split; [destruct A; [now left|right; now right]|split; [exact O|exists t; split; auto; now right]].
    + intros ver x Da Db. apply den_cons in Db. destruct Db as [Db|Db]; [exfalso|apply D; assumption].
      eapply (s_below_all_not_den tc (oc :: own')); [apply Good_below_all; eauto|exact Db|exact Da].
Qed.

(* IPSet.intersection / __and__ *)
Theorem set_intersection_spec a b : SetInv a -> SetInv b ->
  exists r, set_intersection a b = Ok r /\ SetInv r /\
    (forall ver x, den r ver x <-> den a ver x /\ den b ver x) /\
    (forall n, In n r -> In n a \/ In n b).
Proof.
  intros Ia Ib. unfold set_intersection.
  pose proof (s_sorted_good a Ia) as Ga. pose proof (s_sorted_good b Ib) as Gb.
  destruct (inter_loop_spec (length a + length b + 1) (sorted a) (sorted b) [] Ga Gb) as (R & HR & S & M & D).
  { rewrite !s_sorted_length. lia. }
  assert (FR: Forall wfh R).
  { rewrite Forall_forall. intros r Hr. destruct (M r Hr) as ([A|A] & _); [eapply Good_in; [exact Ga|exact A]|eapply Good_in; [exact Gb|exact A]]. }
  assert (GR: Good R) by (split; assumption).
  rewrite (s_fold_dset_nil R GR) in HR. exists R. split; [exact HR|].
  assert (Den: forall ver x, den R ver x <-> den a ver x /\ den b ver x).
  { intros ver x. split.
    - intros (r & Hr & I). destruct (M r Hr) as (_ & (o & Ho & Io) & (t & Ht & It)). split.
      + apply s_sorted_den. exists o. split; [exact Ho|eapply s_inside_in; eauto].
      + apply s_sorted_den. exists t. split; [exact Ht|eapply s_inside_in; eauto].
    - intros [Da Db]. apply D; apply s_sorted_den; assumption. }
  assert (Mem: forall n, In n R -> In n a \/ In n b).
  { intros n Hn. destruct (M n Hn) as ([A|A] & _); [left|right]; apply s_sorted_in, A. }
  split; [|split; [exact Den|exact Mem]].
  split; [exact FR|split; [apply Good_PD, GR|]].
  intros e1 e2 H1 H2 Sb. rewrite Forall_forall in FR.
  assert (Ca: forall ver x, in_net e1 ver x \/ in_net e2 ver x -> den a ver x).
  { intros ver x [I|I]; [apply (Den ver x); exists e1; auto|apply (Den ver x); exists e2; auto]. }
  assert (Cb: forall ver x, in_net e1 ver x \/ in_net e2 ver x -> den b ver x).
  { intros ver x [I|I]; [apply (Den ver x); exists e1; auto|apply (Den ver x); exists e2; auto]. }
  destruct (s_sib_not_stored a e1 e2 Ia (FR _ H1) (FR _ H2) Sb Ca) as [Na _].
  destruct (s_sib_not_stored b e1 e2 Ib (FR _ H1) (FR _ H2) Sb Cb) as [Nb _].
  destruct (Mem e1 H1); auto.
Qed.

(* IPSet.isdisjoint *)
Theorem set_isdisjoint_spec a b : SetInv a -> SetInv b ->
  exists r, set_isdisjoint a b = Ok r /\ (r = true <-> ~ exists ver x, den a ver x /\ den b ver x).
Proof.
  intros Ia Ib. destruct (set_intersection_spec a b Ia Ib) as (r & Hr & Ir & Den & _).
  unfold set_isdisjoint. rewrite Hr. cbn [bind]. destruct r as [|n r].
  - exists true. split; [reflexivity|]. split; [|reflexivity]. intros _ (ver & x & D). apply Den in D. destruct (den_nil _ _ D).
  - exists false. split; [reflexivity|]. split; [discriminate|]. intros N. exfalso. apply N.
    assert (Hn: wfh n) by (eapply Forall_forall; [apply SetInv_wfh, Ir|now left]).
    exists (nver n), (nf n). apply Den. exists n. split; [now left|apply s_wfh_self, Hn].
Qed.
