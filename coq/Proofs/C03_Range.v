(* Proofs/C03_Range.v — whatever the strict address parser accepts is a value of its family. *)
From Coq Require Import String Ascii.
From NV Require Import Base.Tac Base.PyVal Base.Bits Base.PyStr Base.PyStrFacts Model.IpText Model.FbSocket Model.AddrText
  Model.Ip Proofs.C01_Chars Proofs.C01_V6 Proofs.C01_Value Proofs.C01_V4 Proofs.C01_Strict6 Proofs.C01 Proofs.C02.
Import ListNotations.
Open Scope Z_scope.

Lemma str_to_int4_range be s v : str_to_int be 4 s INET_PTON = Ok v -> 0 <= v < 2 ^ 32.
Proof. rewrite strict_exact_v4. destruct (Std4.pton4 s) as [o|] eqn:E; [|discriminate].
  unfold Std4.pton4 in E. destruct (pton4_chars_shape _ _ E) as (a & b & c & d & -> & Ha & Hb & Hc & Hd).
  unfold octetP in *. cbn [unpack_I]. intros X. injection X as <-. change (2 ^ 32) with 4294967296. lia. Qed.

Lemma map_opt_hextet_words l g : map_opt Std6.hextet l = Some g -> Forall word g.
Proof. revert g. induction l as [|t r IH]; intros g; cbn [map_opt].
  - intros E. injection E as <-. constructor.
  - destruct (Std6.hextet t) as [h|] eqn:Eh; [|discriminate]. destruct (map_opt Std6.hextet r) as [g'|]; [|discriminate].
    intros E. injection E as <-. constructor; [|now apply IH]. destruct (hextet_some t h Eh) as (_ & _ & _ & R). unfold word. lia. Qed.

Lemma groups_tail_words toks : forall g, Std6.groups_tail toks = Some g -> Forall word g.
Proof. induction toks as [|t r IH]; intros g; cbn [Std6.groups_tail].
  - intros E. injection E as <-. constructor.
  - destruct r as [|u r'].
    + destruct (existsb (ascii_eqb ch_dot) t).
      * destruct (Std4.pton4_chars t) as [o|] eqn:E; [|discriminate].
        destruct (pton4_chars_shape _ _ E) as (a & b & c & d & -> & Ha & Hb & Hc & Hd). unfold octetP in *.
        intros X. injection X as <-. repeat constructor; unfold word; lia.
      * destruct (Std6.hextet t) as [h|] eqn:Eh; [|discriminate]. intros X. injection X as <-.
        destruct (hextet_some t h Eh) as (_ & _ & _ & R). repeat constructor; unfold word; lia.
    + destruct (Std6.hextet t) as [h|] eqn:Eh; [|discriminate].
      destruct (Std6.groups_tail (u :: r')) as [g'|] eqn:G; [|discriminate].
      intros X. injection X as <-. constructor; [|now apply IH].
      destruct (hextet_some t h Eh) as (_ & _ & _ & R). unfold word. lia. Qed.

Lemma zeros_words n : Forall word (Std6.zeros n).
Proof. induction n; cbn [Std6.zeros]; constructor; [unfold word; lia|assumption]. Qed.

Lemma pton6_words l g : Std6.pton6_chars l = Some g -> Forall word g /\ List.length g = 8%nat.
Proof. unfold Std6.pton6_chars. destruct (split_dc_chars l []) as [|p [|q [|x r]]]; try discriminate.
  - destruct (Std6.groups_tail _) as [g'|] eqn:G; [|discriminate].
    destruct (Nat.eqb (List.length g') 8) eqn:L; [|discriminate]. intros X. injection X as <-.
    split; [eapply groups_tail_words; eauto|now apply Nat.eqb_eq].
  - destruct (map_opt Std6.hextet (colon_toks p)) as [gp|] eqn:GP; [|discriminate].
    destruct (Std6.groups_tail (colon_toks q)) as [gq|] eqn:GQ; [|discriminate].
    destruct (Nat.leb _ 7) eqn:L; [|discriminate]. apply Nat.leb_le in L. intros X. injection X as <-. split.
    + apply Forall_app. split; [eapply map_opt_hextet_words; eauto|]. apply Forall_app. split; [apply zeros_words|].
      eapply groups_tail_words; eauto.
    + rewrite !app_length, zeros_length. remember (List.length gp + List.length gq)%nat as n eqn:En.
      do 8 (destruct n as [|n]; [lia|]). lia. Qed.

Lemma packed_to_int_range ws v : Forall word ws -> List.length ws = 8%nat -> packed_to_int ws = Ok v -> 0 <= v < 2 ^ 128.
Proof. intros W L. destruct (length8 ws L) as (a & b & c & d & e & f & g & h & ->).
  repeat match goal with X : Forall _ (_ :: _) |- _ => inversion X; clear X; subst end. unfold word in *.
  unfold packed_to_int. cbn [unpack_4I bind]. rewrite or_words_32 by (unfold w32; lia).
  intros X. injection X as <-. change (2 ^ 128) with 340282366920938463463374607431768211456. lia. Qed.

Lemma str_to_int6_range be s flags v : str_to_int be 6 s flags = Ok v -> 0 <= v < 2 ^ 128.
Proof. rewrite strict_exact_v6. destruct (Std6.pton6 s) as [ws|] eqn:E; [|discriminate].
  destruct (pton6_words _ _ E) as [W L]. destruct (packed_to_int ws) as [x|] eqn:P; [|discriminate].
  intros X. injection X as <-. eapply packed_to_int_range; eauto. Qed.

Theorem init_strict_range be s ver x v : valid_ver ver = true -> init_str be s (Some ver) INET_PTON = Ok (x, v) ->
  x = ver /\ 0 <= v < 2 ^ width ver.
Proof. intros Hver. unfold init_str. destruct (width_cases ver Hver) as [[-> W] | [-> W]].
  - change (4 =? 4) with true. cbn [bind]. destruct (contains_char "/" s); [discriminate|].
    destruct (str_to_int be 4 s INET_PTON) as [y|e] eqn:E.
    + intros X. injection X as <- <-. split; [reflexivity|]. rewrite W. eapply str_to_int4_range; eauto.
    + destruct e; discriminate.
  - change (6 =? 4) with false. change (6 =? 6) with true. cbn [bind]. destruct (contains_char "/" s); [discriminate|].
    destruct (str_to_int be 6 s INET_PTON) as [y|e] eqn:E.
    + intros X. injection X as <- <-. split; [reflexivity|]. rewrite W. eapply str_to_int6_range; eauto.
    + destruct e; discriminate. Qed.
