(* Proofs/C03.v — network notations: all spellings of (ver, v, p) build the same network, str() round-trips,
   NOHOST clears the host bits, partial / classful IPv4 forms, rejection classes. *)
From Coq Require Import String Ascii.
From NV Require Import Base.Tac Base.PyVal Base.Bits Base.PyStr Base.PyStrFacts Model.IpText Model.FbSocket Model.AddrText
  Model.Ip Model.NetText Proofs.C01_Chars Proofs.C01_V6 Proofs.C01_Value Proofs.C01_V4 Proofs.C01_Strict6 Proofs.C01
  Proofs.C02 Proofs.C03_Str.
Import ListNotations.
Open Scope Z_scope.

(* ================================================================ tables *)
Lemma in_zrange n i : In i (zrange n) <-> 0 <= i < Z.of_nat n.
Proof. unfold zrange. rewrite in_map_iff. split.
  - intros (x & <- & H). apply in_seq in H. lia.
  - intros H. exists (Z.to_nat i). split; [lia|]. apply in_seq. lia. Qed.

Lemma assoc_swap_inj (f : Z -> Z) i : forall n s,
  (forall j k, Z.of_nat s <= j < Z.of_nat s + Z.of_nat n -> Z.of_nat s <= k < Z.of_nat s + Z.of_nat n -> f j = f k -> j = k) ->
  Z.of_nat s <= i < Z.of_nat s + Z.of_nat n ->
  assoc (f i) (swap_pairs (map (fun j => (j, f j)) (map Z.of_nat (seq s n)))) = Some i.
Proof. induction n as [|n IH]; intros s Inj Hi; [lia|]. cbn [seq map swap_pairs assoc].
  case_eqb (f (Z.of_nat s)) (f i).
  - f_equal. apply Inj; lia.
  - apply IH; [intros j k Hj Hk; apply Inj; lia|].
    assert (i <> Z.of_nat s) by (intros ->; congruence). lia. Qed.

Lemma netmask_val w p : 0 <= p <= w -> Z.lxor (max_int_w w) (2 ^ (w - p) - 1) = 2 ^ w - 2 ^ (w - p).
Proof. intros H. unfold max_int_w. pose proof (pow2_pos (w - p) ltac:(lia)). pose proof (pow2_le (w - p) w ltac:(lia)).
  rewrite lxor_ones_sub by lia. lia. Qed.

Lemma prefix_to_netmask_ok w p : 0 <= p <= w -> prefix_to_netmask w p = Ok (2 ^ w - 2 ^ (w - p)).
Proof. intros H. unfold prefix_to_netmask, dict_get. destruct (tab_nth w p H) as [-> _]. now rewrite netmask_val. Qed.

Lemma netmask_to_prefix_ok w p : 0 <= p <= w -> netmask_to_prefix w (2 ^ w - 2 ^ (w - p)) = Ok p.
Proof. intros H. unfold netmask_to_prefix, dict_get, prefix_to_netmask_tab, zrange.
  rewrite <- (netmask_val w p H).
  rewrite (assoc_swap_inj (fun i => Z.lxor (max_int_w w) (2 ^ (w - i) - 1)) p); [reflexivity| |rewrite Nat2Z.inj_add, Z2Nat.id by lia; cbn; lia].
  intros j k Hj Hk E. rewrite Nat2Z.inj_add, Z2Nat.id in Hj, Hk by lia. cbn in Hj, Hk.
  rewrite !netmask_val in E by lia. assert (E' : 2 ^ (w - j) = 2 ^ (w - k)) by lia.
  apply Z.pow_inj_r in E'; lia. Qed.

Lemma hostmask_to_prefix_ok w p : 0 <= p <= w -> hostmask_to_prefix w (2 ^ (w - p) - 1) = Ok p.
Proof. intros H. unfold hostmask_to_prefix, dict_get, prefix_to_hostmask_tab, zrange.
  rewrite (assoc_swap_inj (fun i => 2 ^ (w - i) - 1) p); [reflexivity| |rewrite Nat2Z.inj_add, Z2Nat.id by lia; cbn; lia].
  intros j k Hj Hk E. rewrite Nat2Z.inj_add, Z2Nat.id in Hj, Hk by lia. cbn in Hj, Hk.
  assert (E' : 2 ^ (w - j) = 2 ^ (w - k)) by lia. apply Z.pow_inj_r in E'; lia. Qed.

Lemma netmask_in_range w p : 0 <= p <= w -> 0 <= 2 ^ w - 2 ^ (w - p) < 2 ^ w.
Proof. intros H. pose proof (pow2_pos (w - p) ltac:(lia)). pose proof (pow2_le (w - p) w ltac:(lia)). lia. Qed.
Lemma hostmask_in_range w p : 0 <= p <= w -> 0 <= 2 ^ (w - p) - 1 < 2 ^ w.
Proof. intros H. pose proof (pow2_pos (w - p) ltac:(lia)). pose proof (pow2_le (w - p) w ltac:(lia)). lia. Qed.

Lemma is_netmask_of_prefix w p : 0 <= p <= w -> is_netmask w (2 ^ w - 2 ^ (w - p)) = true.
Proof. intros H. apply (is_netmask_iff w); [lia|now apply netmask_in_range|]. now exists p. Qed.

Lemma is_hostmask_of_prefix w p : 0 <= p <= w -> is_hostmask (2 ^ (w - p) - 1) = true.
Proof. intros H. apply (is_hostmask_iff w); [lia|now apply hostmask_in_range|]. now exists p. Qed.

(* a proper hostmask (0 < p < w) is not a netmask *)
Lemma hostmask_not_netmask w p : 0 < p < w -> is_netmask w (2 ^ (w - p) - 1) = false.
Proof. intros H. destruct (is_netmask w (2 ^ (w - p) - 1)) eqn:E; [|reflexivity]. exfalso.
  apply (is_netmask_iff w) in E; [|lia|apply hostmask_in_range; lia]. destruct E as (q & Hq & E).
  pose proof (pow2_lt (w - p) w ltac:(lia)) as L.
  assert (C : q = w \/ q < w) by lia. destruct C as [-> | C].
  - replace (w - w) with 0 in E by lia. change (2 ^ 0) with 1 in E. lia.
  - (* 2^(w-p) - 1 is odd, 2^w - 2^(w-q) is even *)
    replace (w - p) with ((w - p - 1) + 1) in E by lia. rewrite pow2_succ in E by lia.
    replace w with ((w - 1) + 1) in E at 2 by lia. rewrite pow2_succ in E by lia.
    replace (w - q) with ((w - q - 1) + 1) in E by lia. rewrite pow2_succ in E by lia. lia. Qed.

(* ================================================================ NOHOST *)
Definition nh (ver v p flags : Z) : Z := if has_flag flags NOHOST then v - v mod 2 ^ (width ver - p) else v.

Lemma apply_nohost_ok w v p flags : 0 <= p <= w -> 0 <= v < 2 ^ w ->
  apply_nohost w v p flags = Ok (if has_flag flags NOHOST then v - v mod 2 ^ (w - p) else v).
Proof. intros Hp Hv. unfold apply_nohost. destruct (has_flag flags NOHOST); [|reflexivity].
  rewrite prefix_to_netmask_ok by exact Hp. cbn [bind]. f_equal.
  rewrite <- (netmask_val w p Hp). unfold max_int_w. rewrite land_netmask by lia. reflexivity. Qed.

Lemma width_valid ver : valid_ver ver = true -> 0 <= width ver.
Proof. intros _. apply width_nonneg. Qed.

(* ================================================================ parse_str, cut into its try-blocks *)
Definition split_slash (addr : string) : outcome (string * option string) :=
  if contains_char "/" addr then
    match split1 "/" addr with
    | [val1; val2] => Ok (val1, Some val2)
    | _ => Raise ValueError
    end
  else Ok (addr, None).

Definition addr_part (be : backend) (ver : Z) (val1 : string) : outcome Z :=
  match init_str be val1 (Some ver) INET_PTON with
  | Ok ip => Ok (snd ip)
  | Raise AddrFormatError =>
      if ver =? 4 then
        do expanded_addr <- expand_partial_address val1;
        do ip <- init_str be expanded_addr (Some ver) INET_PTON;
        Ok (snd ip)
      else Raise AddrFormatError
  | Raise e => Raise e
  end.

Definition mask_part (be : backend) (ver : Z) (val2 : string) : outcome Z :=
  do mask <- match init_str be val2 (Some ver) INET_PTON with
             | Ok ip => Ok (snd ip)
             | Raise ValueError => Raise AddrFormatError
             | Raise e => Raise e
             end;
  if is_netmask (width ver) mask then netmask_to_prefix (width ver) mask
  else if is_hostmask mask then hostmask_to_prefix (width ver) mask
  else Raise AddrFormatError.

Definition prefix_part (be : backend) (ver : Z) (val2 : option string) : outcome Z :=
  match val2 with
  | None => Ok (width ver)
  | Some val2 => match py_int 10 val2 with Some n => Ok n | None => mask_part be ver val2 end
  end.

Definition check_prefix (ver value prefixlen : Z) : outcome (Z * Z) :=
  if negb ((0 <=? prefixlen) && (prefixlen <=? width ver)) then Raise AddrFormatError else Ok (value, prefixlen).

Lemma parse_str_unfold be ver s ip : parse_str be ver s ip =
  do addr <- (if ip then cidr_abbrev_to_verbose s else Ok s);
  do vals <- split_slash addr;
  do value <- addr_part be ver (fst vals);
  do prefixlen <- prefix_part be ver (snd vals);
  check_prefix ver value prefixlen.
Proof. unfold parse_str. destruct (if ip then _ else _) as [addr|]; cbn [bind]; [|reflexivity].
  fold (split_slash addr). destruct (split_slash addr) as [[val1 val2]|]; reflexivity. Qed.

Lemma split_slash_app a t : contains_char "/" a = false -> split_slash (a ++ "/" ++ t) = Ok (a, Some t).
Proof. intros H. unfold split_slash. destruct (slash_split a t H) as [-> ->]. reflexivity. Qed.

Lemma split_slash_none a : contains_char "/" a = false -> split_slash a = Ok (a, None).
Proof. intros H. unfold split_slash. now rewrite H. Qed.

Lemma init_ok_no_slash be a version flags r : init_str be a version flags = Ok r -> contains_char "/" a = false.
Proof. unfold init_str. destruct (match version with None => _ | Some _ => _ end); cbn [bind]; [|discriminate].
  destruct (contains_char "/" a); [discriminate|reflexivity]. Qed.

Lemma addr_part_ok be ver a x v : init_str be a (Some ver) INET_PTON = Ok (x, v) -> addr_part be ver a = Ok v.
Proof. intros H. unfold addr_part. now rewrite H. Qed.

(* "a/t" and "a" for an address text the strict parser of the family accepts *)
Lemma parse_str_slash be ver a t : contains_char "/" a = false ->
  parse_str be ver (a ++ "/" ++ t) false =
  do value <- addr_part be ver a; do prefixlen <- prefix_part be ver (Some t); check_prefix ver value prefixlen.
Proof. intros H. rewrite parse_str_unfold. cbn [bind]. rewrite split_slash_app by exact H. reflexivity. Qed.

Lemma parse_str_bare be ver a : contains_char "/" a = false ->
  parse_str be ver a false = do value <- addr_part be ver a; check_prefix ver value (width ver).
Proof. intros H. rewrite parse_str_unfold. cbn [bind]. rewrite split_slash_none by exact H. reflexivity. Qed.

Lemma check_prefix_ok ver v p : 0 <= p <= width ver -> check_prefix ver v p = Ok (v, p).
Proof. intros H. unfold check_prefix. assert (E : (0 <=? p) && (p <=? width ver) = true) by lia. now rewrite E. Qed.

Lemma check_prefix_bad ver v p : ~ 0 <= p <= width ver -> check_prefix ver v p = Raise AddrFormatError.
Proof. intros H. unfold check_prefix. assert (E : (0 <=? p) && (p <=? width ver) = false) by lia. now rewrite E. Qed.

(* prefix text *)
Lemma prefix_part_int be ver t n : py_int 10 t = Some n -> prefix_part be ver (Some t) = Ok n.
Proof. intros H. unfold prefix_part. now rewrite H. Qed.

Lemma prefix_part_mask be ver t : py_int 10 t = None -> prefix_part be ver (Some t) = mask_part be ver t.
Proof. intros H. unfold prefix_part. now rewrite H. Qed.

Lemma mask_part_netmask be ver t x p : init_str be t (Some ver) INET_PTON = Ok (x, 2 ^ width ver - 2 ^ (width ver - p)) ->
  0 <= p <= width ver -> mask_part be ver t = Ok p.
Proof. intros H Hp. unfold mask_part. rewrite H. cbn [bind snd]. rewrite is_netmask_of_prefix by exact Hp.
  now apply netmask_to_prefix_ok. Qed.

Lemma mask_part_hostmask be ver t x p : init_str be t (Some ver) INET_PTON = Ok (x, 2 ^ (width ver - p) - 1) ->
  0 < p < width ver -> mask_part be ver t = Ok p.
Proof. intros H Hp. unfold mask_part. rewrite H. cbn [bind snd]. rewrite hostmask_not_netmask by exact Hp.
  rewrite (is_hostmask_of_prefix (width ver) p) by lia. apply hostmask_to_prefix_ok. lia. Qed.

Lemma mask_part_neither be ver t x m : init_str be t (Some ver) INET_PTON = Ok (x, m) ->
  is_netmask (width ver) m = false -> is_hostmask m = false -> mask_part be ver t = Raise AddrFormatError.
Proof. intros H N Hm. unfold mask_part. rewrite H. cbn [bind snd]. now rewrite N, Hm. Qed.

Lemma mask_part_unreadable be ver t e : valid_ver ver = true -> init_str be t (Some ver) INET_PTON = Raise e ->
  mask_part be ver t = Raise AddrFormatError.
Proof. intros Hv H. unfold mask_part. rewrite H.
  destruct (reject_kind _ _ _ _ _ H) as [-> | [-> _]]; reflexivity. Qed.

(* ================================================================ printed address text (from C01) *)
Definition vrange (ver v : Z) : Prop := valid_ver ver = true /\ 0 <= v < 2 ^ width ver.

Lemma v4_text be v : 0 <= v < 2 ^ 32 -> int_to_str be 4 v None = Ok (Std4.ntoa (octets_of v)).
Proof. intros H. unfold int_to_str. change (4 =? 4) with true. cbn iota. now apply v4_int_to_str_eq. Qed.

Lemma octets_nonneg v : 0 <= v < 2 ^ 32 -> Forall (fun o => 0 <= o) (octets_of v).
Proof. intros H. eapply Forall_impl; [|apply (octets_of_octet v H)]. unfold octetP. intros; lia. Qed.

Lemma init_strict be a ver v : init_str be a (Some ver) INET_PTON = Ok (ver, v) ->
  contains_char "/" a = false /\ addr_part be ver a = Ok v.
Proof. intros H. split; [eapply init_ok_no_slash; eauto|eapply addr_part_ok; eauto]. Qed.

(* pton6 rejects text without ':' (in particular every dotted quad) *)
Lemma pton6_no_colon l : existsb (ascii_eqb ch_colon) l = false -> Std6.pton6_chars l = None.
Proof. intros H. unfold Std6.pton6_chars. rewrite split_dc_no_dc by (now apply no_dc_no_colon). cbn [rev app].
  rewrite split_chars_last by exact H. cbn [rev app Std6.groups_tail].
  destruct (existsb (ascii_eqb ch_dot) l).
  - destruct (Std4.pton4_chars l) as [[|a [|b [|c [|d [|e r]]]]]|]; reflexivity.
  - destruct (Std6.hextet l); reflexivity. Qed.

Lemma init6_no_colon be a : contains_char ":" a = false -> contains_char "/" a = false ->
  init_str be a (Some 6) INET_PTON = Raise AddrFormatError.
Proof. intros Hc Hs. unfold init_str. change (6 =? 4) with false. change (6 =? 6) with true. cbn [bind]. rewrite Hs.
  rewrite strict_exact_v6. unfold Std6.pton6. rewrite pton6_no_colon by exact Hc. reflexivity. Qed.

Lemma init4_colon_headed be a : colon_headed (chars a) -> contains_char "/" a = false ->
  init_str be a (Some 4) INET_PTON = Raise AddrFormatError.
Proof. intros Hc Hs. unfold init_str. change (4 =? 4) with true. cbn [bind]. rewrite Hs.
  unfold str_to_int. change (4 =? 4) with true. cbn iota. rewrite v4_rejects_colon_headed; auto. Qed.

Lemma colon_headed_contains a : colon_headed (chars a) -> contains_char ":" a = true.
Proof. intros (h & r & E & _). apply contains_char_true_iff. rewrite E. apply in_or_app. right. now left. Qed.

(* the facts about the printed text of an address used below *)
Record printed (be : backend) (ver v : Z) (a : string) : Prop := {
  pr_text : int_to_str be ver v None = Ok a;
  pr_own : init_str be a (Some ver) INET_PTON = Ok (ver, v);
  pr_noslash : contains_char "/" a = false;
  pr_noint : py_int 10 a = None;
  pr_v4 : ver = 4 -> a = Std4.ntoa (octets_of v) /\ contains_char ":" a = false;
  pr_v6 : ver = 6 -> contains_char ":" a = true /\ colon_headed (chars a)
}.

Lemma printed_exists be ver v : vrange ver v -> exists a, printed be ver v a.
Proof. intros [Hver Hv]. destruct (width_cases ver Hver) as [[-> W] | [-> W]]; rewrite W in Hv.
  - exists (Std4.ntoa (octets_of v)).
    pose proof (print_parse_v4 be v None (Some 4) 1 Hv ltac:(auto) ltac:(auto)) as PP.
    rewrite v4_text in PP by exact Hv. cbn [bind] in PP.
    assert (D : contains_char "." (Std4.ntoa (octets_of v)) = true).
    { unfold octets_of. rewrite ntoa_dotted. apply dotted_has_dot. }
    constructor.
    + now apply v4_text.
    + exact PP.
    + eapply init_ok_no_slash; eauto.
    + now apply py_int_dot.
    + intros _. split; [reflexivity|]. unfold octets_of. rewrite ntoa_dotted. apply dotted_no_char; try reflexivity.
      apply (octets_nonneg v Hv).
    + discriminate.
  - destruct (v6_printed be v None Hv ltac:(left; reflexivity)) as (l & E & P & CH).
    pose proof (print_parse_v6 be v None (Some 6) 1 Hv ltac:(left; reflexivity) ltac:(auto)) as PP.
    unfold int_to_str in PP. change (6 =? 4) with false in PP. cbn iota in PP. rewrite E in PP. cbn [bind] in PP.
    assert (CH' : colon_headed (chars (str_of l))) by now rewrite chars_str_of.
    exists (str_of l). constructor.
    + unfold int_to_str. change (6 =? 4) with false. cbn iota. exact E.
    + exact PP.
    + eapply init_ok_no_slash; eauto.
    + apply py_int_colon. now apply colon_headed_contains.
    + discriminate.
    + intros _. split; [now apply colon_headed_contains|exact CH']. Qed.

(* ================================================================ cidr_abbrev_to_verbose leaves full notations alone *)
Lemma abbrev_colon s : contains_char ":" s = true -> cidr_abbrev_to_verbose s = Ok s.
Proof. intros H. unfold cidr_abbrev_to_verbose. now rewrite H. Qed.

Lemma pad_tokens_4 (a b c d : string) : pad_tokens [a; b; c; d] = [a; b; c; d].
Proof. reflexivity. Qed.

Lemma abbrev_full4 a b c d t : 0 <= a -> 0 <= b -> 0 <= c -> 0 <= d ->
  cidr_abbrev_to_verbose (Std4.ntoa [a; b; c; d] ++ "/" ++ t) = Ok (Std4.ntoa [a; b; c; d] ++ "/" ++ t)%string.
Proof. intros Ha Hb Hc Hd. rewrite ntoa_dotted. set (A := dotted [a; b; c; d]). set (s := (A ++ "/" ++ t)%string).
  assert (NN : Forall (fun o => 0 <= o) [a; b; c; d]) by (repeat constructor; assumption).
  assert (NS : contains_char "/" A = false) by (apply dotted_no_char; [reflexivity|reflexivity|exact NN]).
  assert (HD : contains_char "." s = true).
  { unfold s. rewrite contains_char_app. unfold A. now rewrite dotted_has_dot. }
  unfold cidr_abbrev_to_verbose. destruct (contains_char ":" s || String.eqb s ""); [reflexivity|].
  rewrite (py_int_dot s HD). destruct (slash_split A t NS) as [C S]. fold s in C, S. rewrite C, S.
  destruct (py_int 10 t) as [n|]; cbn [bind]; [|reflexivity].
  destruct ((0 <=? n) && (n <=? 32)); cbn [bind]; [|reflexivity].
  assert (SP : split "." A = [fmt_d a; fmt_d b; fmt_d c; fmt_d d]).
  { unfold A. rewrite split_dotted by (discriminate || exact NN). reflexivity. }
  rewrite SP. change (4 <? len [fmt_d a; fmt_d b; fmt_d c; fmt_d d]) with false. cbn iota. rewrite pad_tokens_4. reflexivity. Qed.

(* ================================================================ net_init on a string, by layers *)
Lemma parse_net_str be ver s ip flags v p : parse_str be ver s ip = Ok (v, p) -> 0 <= p <= width ver -> 0 <= v < 2 ^ width ver ->
  parse_ip_network be ver (AStr s) ip flags = Ok (nh ver v p flags, p).
Proof. intros H Hp Hv. unfold parse_ip_network. rewrite H. cbn [bind]. rewrite apply_nohost_ok by assumption. reflexivity. Qed.

Lemma parse_net_str_raise be ver s ip flags e : parse_str be ver s ip = Raise e ->
  parse_ip_network be ver (AStr s) ip flags = Raise e.
Proof. intros H. unfold parse_ip_network. now rewrite H. Qed.

Definition version_for (ver : Z) (version : option Z) : Prop := version = Some ver \/ version = None.

Lemma net_init_explicit be ver a ip flags : valid_ver ver = true -> (forall n, a <> ANet n) -> (forall x y, a <> AAddr x y) ->
  net_init be a ip (Some ver) flags = do r <- parse_ip_network be ver a ip flags; Ok (mk_net ver r).
Proof. intros Hver N1 N2. unfold net_init.
  destruct a; try (exfalso; eapply N1; reflexivity); try (exfalso; eapply N2; reflexivity);
    destruct (width_cases ver Hver) as [[-> _] | [-> _]]; reflexivity. Qed.

(* a string whose IPv4 reading fails with AddrFormatError is decided by the IPv6 reading *)
Lemma net_init_str be ver s ip version flags r : valid_ver ver = true -> version_for ver version ->
  parse_ip_network be ver (AStr s) ip flags = Ok r ->
  (ver = 6 -> parse_ip_network be 4 (AStr s) ip flags = Raise AddrFormatError) ->
  net_init be (AStr s) ip version flags = Ok (mk_net ver r).
Proof. intros Hver [-> | ->] H H4.
  - rewrite net_init_explicit by (assumption || discriminate). now rewrite H.
  - unfold net_init. destruct (width_cases ver Hver) as [[-> _] | [-> _]].
    + now rewrite H.
    + rewrite (H4 eq_refl). now rewrite H. Qed.

Lemma net_init_str_raise be ver s ip version flags : valid_ver ver = true -> version_for ver version ->
  parse_ip_network be 4 (AStr s) ip flags = Raise AddrFormatError ->
  parse_ip_network be 6 (AStr s) ip flags = Raise AddrFormatError ->
  net_init be (AStr s) ip version flags = Raise AddrFormatError.
Proof. intros Hver [-> | ->] H4 H6.
  - rewrite net_init_explicit by (assumption || discriminate).
    destruct (width_cases ver Hver) as [[-> _] | [-> _]]; [now rewrite H4|now rewrite H6].
  - unfold net_init. now rewrite H4, H6. Qed.

(* the IPv4 attempt on text whose address part is colon-headed IPv6 text *)
Lemma addr_part4_colon be a : colon_headed (chars a) -> contains_char "/" a = false ->
  addr_part be 4 a = Raise AddrFormatError.
Proof. intros Hc Hs. unfold addr_part. rewrite init4_colon_headed by assumption. change (4 =? 4) with true. cbn iota.
  unfold expand_partial_address. now rewrite (colon_headed_contains a Hc). Qed.

Lemma parse4_v6_text be a rest ip flags : colon_headed (chars a) -> contains_char "/" a = false ->
  (rest = ""%string \/ exists t, rest = ("/" ++ t)%string) ->
  parse_ip_network be 4 (AStr (a ++ rest)) ip flags = Raise AddrFormatError.
Proof. intros Hc Hs Hr. apply parse_net_str_raise. rewrite parse_str_unfold.
  assert (AB : (if ip then cidr_abbrev_to_verbose (a ++ rest) else Ok (a ++ rest)%string) = Ok (a ++ rest)%string).
  { destruct ip; [|reflexivity]. apply abbrev_colon. rewrite contains_char_app, (colon_headed_contains a Hc). reflexivity. }
  rewrite AB. cbn [bind]. destruct Hr as [-> | [t ->]].
  - assert (E : (a ++ "")%string = a) by (apply chars_inj; rewrite chars_app; cbn; apply app_nil_r).
    rewrite E, split_slash_none by exact Hs. cbn [bind fst]. now rewrite addr_part4_colon.
  - rewrite split_slash_app by exact Hs. cbn [bind fst]. now rewrite addr_part4_colon. Qed.

(* ================================================================ "a/t" for a printed address a *)
Lemma abbrev_printed_slash be ver v a t : vrange ver v -> printed be ver v a ->
  cidr_abbrev_to_verbose (a ++ "/" ++ t) = Ok (a ++ "/" ++ t)%string.
Proof. intros [Hver Hv] P. destruct (width_cases ver Hver) as [[-> W] | [-> W]]; rewrite W in Hv.
  - destruct (pr_v4 _ _ _ _ P eq_refl) as [-> _]. pose proof (octets_nonneg v Hv) as NN. unfold octets_of in *.
    repeat match goal with H : Forall _ (_ :: _) |- _ => inversion H; clear H; subst end. now apply abbrev_full4.
  - destruct (pr_v6 _ _ _ _ P eq_refl) as [C _]. apply abbrev_colon. now rewrite contains_char_app, C. Qed.

Lemma parse_printed_slash be ver v a t ver' ip : vrange ver v -> printed be ver v a ->
  parse_str be ver' (a ++ "/" ++ t) ip =
  do value <- addr_part be ver' a; do prefixlen <- prefix_part be ver' (Some t); check_prefix ver' value prefixlen.
Proof. intros R P. rewrite parse_str_unfold.
  assert (AB : (if ip then cidr_abbrev_to_verbose (a ++ "/" ++ t) else Ok (a ++ "/" ++ t)%string) = Ok (a ++ "/" ++ t)%string).
  { destruct ip; [|reflexivity]. eapply abbrev_printed_slash; eauto. }
  rewrite AB. cbn [bind]. rewrite split_slash_app by (apply (pr_noslash _ _ _ _ P)). reflexivity. Qed.

Lemma addr_part_own be ver v a : printed be ver v a -> addr_part be ver a = Ok v.
Proof. intros P. eapply addr_part_ok. apply (pr_own _ _ _ _ P). Qed.

Lemma addr_part_other be ver v a : vrange ver v -> printed be ver v a -> addr_part be (10 - ver) a = Raise AddrFormatError.
Proof. intros [Hver Hv] P. destruct (width_cases ver Hver) as [[-> W] | [-> W]].
  - destruct (pr_v4 _ _ _ _ P eq_refl) as [_ C]. change (10 - 4) with 6. unfold addr_part.
    rewrite init6_no_colon; [reflexivity|exact C|apply (pr_noslash _ _ _ _ P)].
  - destruct (pr_v6 _ _ _ _ P eq_refl) as [_ C]. change (10 - 6) with 4. apply addr_part4_colon; [exact C|apply (pr_noslash _ _ _ _ P)]. Qed.

Lemma parse_other_family be ver v a t ip flags : vrange ver v -> printed be ver v a ->
  parse_ip_network be (10 - ver) (AStr (a ++ "/" ++ t)) ip flags = Raise AddrFormatError.
Proof. intros R P. apply parse_net_str_raise. rewrite (parse_printed_slash be ver v a t _ ip R P).
  now rewrite (addr_part_other be ver v a R P). Qed.

Lemma notation_core be ver v a t ip version flags p : vrange ver v -> printed be ver v a -> version_for ver version ->
  prefix_part be ver (Some t) = Ok p -> 0 <= p <= width ver ->
  net_init be (AStr (a ++ "/" ++ t)) ip version flags = Ok {| nver := ver; nval := nh ver v p flags; nplen := p |}.
Proof. intros R P Hver HP Hp. pose proof R as [Hv Hr].
  assert (PS : parse_str be ver (a ++ "/" ++ t) ip = Ok (v, p)).
  { rewrite (parse_printed_slash be ver v a t ver ip R P), (addr_part_own be ver v a P). cbn [bind]. rewrite HP. cbn [bind].
    now apply check_prefix_ok. }
  rewrite (net_init_str be ver _ ip version flags (nh ver v p flags, p) Hv Hver); [reflexivity|now apply parse_net_str|].
  intros ->. apply (parse_other_family be 6 v a t ip flags R P). Qed.

Lemma notation_reject be ver v a t ip version flags : vrange ver v -> printed be ver v a -> version_for ver version ->
  (prefix_part be ver (Some t) = Raise AddrFormatError \/
   exists n, prefix_part be ver (Some t) = Ok n /\ ~ 0 <= n <= width ver) ->
  net_init be (AStr (a ++ "/" ++ t)) ip version flags = Raise AddrFormatError.
Proof. intros R P Hver HP. pose proof R as [Hv Hr].
  assert (PS : parse_ip_network be ver (AStr (a ++ "/" ++ t)) ip flags = Raise AddrFormatError).
  { apply parse_net_str_raise. rewrite (parse_printed_slash be ver v a t ver ip R P), (addr_part_own be ver v a P). cbn [bind].
    destruct HP as [-> | (n & -> & Hn)]; [reflexivity|]. cbn [bind]. now apply check_prefix_bad. }
  pose proof (parse_other_family be ver v a t ip flags R P) as PO.
  destruct (width_cases ver Hv) as [[-> _] | [-> _]].
  - change (10 - 4) with 6 in PO. apply (net_init_str_raise be 4 _ ip version flags Hv Hver); [exact PS|exact PO].
  - change (10 - 6) with 4 in PO. apply (net_init_str_raise be 6 _ ip version flags Hv Hver); [exact PO|exact PS]. Qed.

(* ================================================================ C03_notations *)
Definition the_net (ver v p flags : Z) : net := {| nver := ver; nval := nh ver v p flags; nplen := p |}.

Theorem notations_prefix be ver v p ip version flags : vrange ver v -> 0 <= p <= width ver -> version_for ver version ->
  (do a <- int_to_str be ver v None; net_init be (AStr (a ++ "/" ++ fmt_d p)) ip version flags) = Ok (the_net ver v p flags).
Proof. intros R Hp Hver. destruct (printed_exists be ver v R) as (a & P). rewrite (pr_text _ _ _ _ P). cbn [bind].
  apply notation_core; try assumption. apply prefix_part_int, py_int_fmt_d. Qed.

Theorem notations_netmask be ver v p ip version flags : vrange ver v -> 0 <= p <= width ver -> version_for ver version ->
  (do a <- int_to_str be ver v None; do m <- int_to_str be ver (2 ^ width ver - 2 ^ (width ver - p)) None;
   net_init be (AStr (a ++ "/" ++ m)) ip version flags) = Ok (the_net ver v p flags).
Proof. intros R Hp Hver. destruct (printed_exists be ver v R) as (a & P). rewrite (pr_text _ _ _ _ P). cbn [bind].
  assert (RM : vrange ver (2 ^ width ver - 2 ^ (width ver - p))) by (split; [apply R|now apply netmask_in_range]).
  destruct (printed_exists be ver _ RM) as (m & PM). rewrite (pr_text _ _ _ _ PM). cbn [bind].
  apply notation_core; try assumption. rewrite prefix_part_mask by (apply (pr_noint _ _ _ _ PM)).
  eapply mask_part_netmask; [apply (pr_own _ _ _ _ PM)|exact Hp]. Qed.

Theorem notations_hostmask be ver v p ip version flags : vrange ver v -> 0 < p < width ver -> version_for ver version ->
  (do a <- int_to_str be ver v None; do m <- int_to_str be ver (2 ^ (width ver - p) - 1) None;
   net_init be (AStr (a ++ "/" ++ m)) ip version flags) = Ok (the_net ver v p flags).
Proof. intros R Hp Hver. destruct (printed_exists be ver v R) as (a & P). rewrite (pr_text _ _ _ _ P). cbn [bind].
  assert (RM : vrange ver (2 ^ (width ver - p) - 1)) by (split; [apply R|apply hostmask_in_range; lia]).
  destruct (printed_exists be ver _ RM) as (m & PM). rewrite (pr_text _ _ _ _ PM). cbn [bind].
  apply notation_core; try assumption; [|lia]. rewrite prefix_part_mask by (apply (pr_noint _ _ _ _ PM)).
  eapply mask_part_hostmask; [apply (pr_own _ _ _ _ PM)|exact Hp]. Qed.

(* the two masks that are both: the hostmask of /0 is all-ones and reads as the netmask of /w; the hostmask of /w is
   all-zeros and reads as the netmask of /0 (is_netmask is tested first) *)
Theorem notations_hostmask_ambiguous be ver v ip version flags : vrange ver v -> version_for ver version ->
  (do a <- int_to_str be ver v None; do m <- int_to_str be ver (2 ^ (width ver - 0) - 1) None;
   net_init be (AStr (a ++ "/" ++ m)) ip version flags) = Ok (the_net ver v (width ver) flags) /\
  (do a <- int_to_str be ver v None; do m <- int_to_str be ver (2 ^ (width ver - width ver) - 1) None;
   net_init be (AStr (a ++ "/" ++ m)) ip version flags) = Ok (the_net ver v 0 flags).
Proof. intros R Hver. pose proof (width_nonneg ver) as W. split.
  - rewrite <- (notations_netmask be ver v (width ver) ip version flags R ltac:(lia) Hver).
    replace (width ver - width ver) with 0 by lia. replace (width ver - 0) with (width ver) by lia. reflexivity.
  - rewrite <- (notations_netmask be ver v 0 ip version flags R ltac:(lia) Hver).
    replace (width ver - width ver) with 0 by lia. replace (width ver - 0) with (width ver) by lia.
    replace (2 ^ width ver - 2 ^ width ver) with (2 ^ 0 - 1) by (change (2 ^ 0) with 1; lia). reflexivity. Qed.

Lemma max_int_eq ver : max_int ver = 2 ^ width ver - 1. Proof. reflexivity. Qed.

Lemma parse_tuple be ver v p ip flags : 0 <= v < 2 ^ width ver -> 0 <= p <= width ver ->
  parse_ip_network be ver (ATuple [v; p]) ip flags = Ok (nh ver v p flags, p).
Proof. intros Hv Hp. unfold parse_ip_network. rewrite max_int_eq.
  assert (E1 : (0 <=? v) && (v <=? 2 ^ width ver - 1) = true) by lia. rewrite E1.
  assert (E2 : (0 <=? p) && (p <=? width ver) = true) by lia. rewrite E2. cbn [negb bind].
  rewrite apply_nohost_ok by assumption. reflexivity. Qed.

Lemma parse_tuple_bad be ver v p ip flags : ~ (0 <= v < 2 ^ width ver /\ 0 <= p <= width ver) ->
  parse_ip_network be ver (ATuple [v; p]) ip flags = Raise AddrFormatError.
Proof. intros H. unfold parse_ip_network. rewrite max_int_eq.
  destruct ((0 <=? v) && (v <=? 2 ^ width ver - 1)) eqn:E1; [|reflexivity].
  destruct ((0 <=? p) && (p <=? width ver)) eqn:E2; [|reflexivity]. exfalso. apply H. lia. Qed.

Theorem notations_tuple be ver v p ip flags : vrange ver v -> 0 <= p <= width ver ->
  net_init be (ATuple [v; p]) ip (Some ver) flags = Ok (the_net ver v p flags).
Proof. intros [Hver Hv] Hp. rewrite net_init_explicit by (assumption || discriminate). now rewrite parse_tuple. Qed.

(* without a version the tuple does not say its family: IPv4 is tried first *)
Theorem notations_tuple_implicit be v p ip flags : 0 <= v < 2 ^ 128 -> 0 <= p <= 128 ->
  net_init be (ATuple [v; p]) ip None flags =
  Ok (the_net (if (v <? 2 ^ 32) && (p <=? 32) then 4 else 6) v p flags).
Proof. intros Hv Hp. unfold net_init. destruct ((v <? 2 ^ 32) && (p <=? 32)) eqn:E.
  - rewrite parse_tuple by (change (width 4) with 32; lia). reflexivity.
  - rewrite parse_tuple_bad by (change (width 4) with 32; lia). rewrite parse_tuple by (change (width 6) with 128; lia). reflexivity. Qed.

Theorem notations_copy_net be ver v p ip version flags : vrange ver v -> 0 <= p <= width ver ->
  net_init be (ANet {| nver := ver; nval := v; nplen := p |}) ip version flags = Ok (the_net ver v p flags).
Proof. intros [Hver Hv] Hp. unfold net_init. cbn [nver nval nplen]. rewrite apply_nohost_ok by assumption. reflexivity. Qed.

Lemma nh_full ver v flags : nh ver v (width ver) flags = v.
Proof. unfold nh. destruct (has_flag flags NOHOST); [|reflexivity]. replace (width ver - width ver) with 0 by lia.
  change (2 ^ 0) with 1. rewrite Z.mod_1_r. lia. Qed.

Theorem notations_copy_addr be ver v ip version flags : vrange ver v ->
  net_init be (AAddr ver v) ip version flags = Ok {| nver := ver; nval := v; nplen := width ver |}.
Proof. intros [Hver Hv]. unfold net_init. pose proof (width_nonneg ver). rewrite apply_nohost_ok by lia. cbn [bind].
  fold (nh ver v (width ver) flags). now rewrite nh_full. Qed.

(* ================================================================ C03_str_roundtrip, C03_bare *)
Theorem str_roundtrip be ver v p ip version flags : vrange ver v -> 0 <= p <= width ver -> version_for ver version ->
  (do s <- net_str be {| nver := ver; nval := v; nplen := p |}; net_init be (AStr s) ip version flags) = Ok (the_net ver v p flags).
Proof. intros R Hp Hver. rewrite <- (notations_prefix be ver v p ip version flags R Hp Hver). unfold net_str. cbn [nver nval nplen].
  destruct (int_to_str be ver v None); reflexivity. Qed.

Lemma parse_bare be ver v a flags : vrange ver v -> printed be ver v a ->
  parse_ip_network be ver (AStr a) false flags = Ok (v, width ver) /\
  parse_ip_network be (10 - ver) (AStr a) false flags = Raise AddrFormatError.
Proof. intros R P. pose proof R as [Hver Hv]. pose proof (width_nonneg ver) as W. split.
  - rewrite <- (nh_full ver v flags) at 1. apply parse_net_str; [|lia|exact Hv].
    rewrite parse_str_bare by (apply (pr_noslash _ _ _ _ P)). rewrite (addr_part_own be ver v a P). cbn [bind].
    apply check_prefix_ok. lia.
  - apply parse_net_str_raise. rewrite parse_str_bare by (apply (pr_noslash _ _ _ _ P)).
    now rewrite (addr_part_other be ver v a R P). Qed.

Theorem bare be ver v version flags : vrange ver v -> version_for ver version ->
  (do a <- int_to_str be ver v None; net_init be (AStr a) false version flags) =
  Ok {| nver := ver; nval := v; nplen := width ver |}.
Proof. intros R Hver. destruct (printed_exists be ver v R) as (a & P). rewrite (pr_text _ _ _ _ P). cbn [bind].
  destruct (parse_bare be ver v a flags R P) as [P1 P2]. pose proof R as [Hv _].
  rewrite (net_init_str be ver a false version flags (v, width ver) Hv Hver P1); [reflexivity|].
  intros ->. exact P2. Qed.

(* with implicit_prefix an IPv6 address is still bare *)
Theorem bare_v6_implicit be v version flags : 0 <= v < 2 ^ 128 -> version_for 6 version ->
  (do a <- int_to_str be 6 v None; net_init be (AStr a) true version flags) = Ok {| nver := 6; nval := v; nplen := 128 |}.
Proof. intros Hv Hver. assert (R : vrange 6 v) by (split; [reflexivity|exact Hv]).
  destruct (printed_exists be 6 v R) as (a & P). rewrite (pr_text _ _ _ _ P). cbn [bind].
  destruct (pr_v6 _ _ _ _ P eq_refl) as [C CH]. pose proof (pr_noslash _ _ _ _ P) as NS.
  assert (E : (a ++ "")%string = a) by (apply chars_inj; rewrite chars_app; cbn; apply app_nil_r).
  rewrite (net_init_str be 6 a true version flags (v, 128) eq_refl Hver); [reflexivity| |].
  - rewrite <- (nh_full 6 v flags) at 1. apply parse_net_str; [|change (width 6) with 128; lia|exact Hv].
    rewrite parse_str_unfold, abbrev_colon by exact C. cbn [bind]. rewrite split_slash_none by exact NS. cbn [bind fst snd].
    rewrite (addr_part_own be 6 v a P). reflexivity.
  - intros _. rewrite <- E. apply parse4_v6_text; auto. Qed.

(* ================================================================ C03_partial: 1-4 canonical decimal octets *)
Definition classful (o : Z) : Z :=
  if o <=? 127 then 8 else if o <=? 191 then 16 else if o <=? 223 then 24 else if o <=? 239 then 4 else 32.

Ltac decide_cmp := repeat match goal with |- context [?a <=? ?b] =>
  first [replace (a <=? b) with true by lia | replace (a <=? b) with false by lia] end.

Lemma classful_prefix_int_ok o : 0 <= o <= 255 -> classful_prefix_int o = Ok (classful o).
Proof. intros H. unfold classful_prefix_int, classful.
  assert (C : o <= 127 \/ 128 <= o <= 191 \/ 192 <= o <= 223 \/ 224 <= o <= 239 \/ 240 <= o) by lia.
  destruct C as [C | [C | [C | [C | C]]]]; decide_cmp; reflexivity. Qed.

Lemma classful_prefix_int_bad o : ~ 0 <= o <= 255 -> classful_prefix_int o = Raise IndexError.
Proof. intros H. unfold classful_prefix_int. assert (E : (0 <=? o) && (o <=? 255) = false) by lia. now rewrite E. Qed.

Lemma classful_range o : 0 <= classful o <= 32.
Proof. unfold classful. repeat match goal with |- context [if ?b then _ else _] => destruct b end; lia. Qed.

Definition pad4 (os : list Z) : list Z := os ++ repeat 0 (4 - List.length os).
Definition quad_value (q : list Z) : Z :=
  match q with [a; b; c; d] => ((a * 256 + b) * 256 + c) * 256 + d | _ => 0 end.
Definition partial_ok (os : list Z) : Prop := (1 <= List.length os <= 4)%nat /\ Forall octetP os.

Ltac shapes os H :=
  destruct os as [|?a [|?b [|?c [|?d [|?e ?r]]]]]; destruct H as [?L ?O]; cbn [List.length] in L; try lia;
  repeat match goal with X : Forall _ (_ :: _) |- _ => inversion X; clear X; subst end; unfold octetP in *.

Lemma fmt_d_0 : fmt_d 0 = "0"%string. Proof. reflexivity. Qed.

Lemma pad_dtoks os : pad_tokens (dtoks os) = dtoks (pad4 os).
Proof. unfold pad_tokens, pad4, dtoks. rewrite map_app, map_length. f_equal.
  induction (4 - List.length os)%nat as [|n IH]; [reflexivity|]. cbn [repeat map]. now rewrite IH. Qed.

Lemma init_quad be a b c d : octetP a -> octetP b -> octetP c -> octetP d ->
  init_str be (Std4.ntoa [a; b; c; d]) (Some 4) INET_PTON = Ok (4, quad_value [a; b; c; d]).
Proof. intros Ha Hb Hc Hd. unfold init_str. change (4 =? 4) with true. cbn [bind].
  assert (NS : contains_char "/" (Std4.ntoa [a; b; c; d]) = false).
  { rewrite ntoa_dotted. apply dotted_no_char; [reflexivity|reflexivity|]. unfold octetP in *. repeat constructor; lia. }
  rewrite NS, strict_exact_v4. unfold Std4.pton4, Std4.ntoa. rewrite chars_str_of, pton4_ntoa by assumption. reflexivity. Qed.

Lemma nonempty_eqb s : s <> ""%string -> String.eqb s "" = false.
Proof. intros H. destruct (String.eqb s "") eqn:E; [|reflexivity]. apply String.eqb_eq in E. contradiction. Qed.

Lemma dotted_nonempty os : os <> [] -> dotted os <> ""%string.
Proof. destruct os as [|a [|b r]]; [congruence| |]; intros _.
  - unfold dotted, dtoks. cbn [map]. rewrite join_single. apply fmt_d_nonempty.
  - intros E. pose proof (dotted_has_dot a b r) as D. rewrite E in D. discriminate. Qed.

Lemma dotted_single a : dotted [a] = fmt_d a. Proof. unfold dotted, dtoks. cbn [map]. apply join_single. Qed.

Lemma pton4_short os : (List.length os <> 4)%nat -> os <> [] -> Forall (fun o => 0 <= o) os -> Std4.pton4 (dotted os) = None.
Proof. intros L Hne NN. unfold Std4.pton4, Std4.pton4_chars.
  pose proof (split_dotted os Hne NN) as S. unfold split in S.
  assert (E : List.length (split_chars ch_dot (chars (dotted os)) []) = List.length os).
  { change ch_dot with "."%char. rewrite <- (map_length str_of), S. unfold dtoks. apply map_length. }
  rewrite E. destruct (Nat.eqb (List.length os) 4) eqn:N; [apply Nat.eqb_eq in N; contradiction|reflexivity]. Qed.

Lemma nonneg_of_octets os : Forall octetP os -> Forall (fun o => 0 <= o) os.
Proof. intros H. eapply Forall_impl; [|exact H]. unfold octetP. intros; lia. Qed.

Lemma dotted_no_slash os : Forall octetP os -> contains_char "/" (dotted os) = false.
Proof. intros H. apply dotted_no_char; [reflexivity|reflexivity|now apply nonneg_of_octets]. Qed.
Lemma dotted_no_colon os : Forall octetP os -> contains_char ":" (dotted os) = false.
Proof. intros H. apply dotted_no_char; [reflexivity|reflexivity|now apply nonneg_of_octets]. Qed.

Lemma map_out_int_token os : Forall (fun o => 0 <= o) os -> Fb.map_out int_token (dtoks os) = Ok (dtoks os).
Proof. induction os as [|o r IH]; intros H; [reflexivity|]. inversion H; subst. unfold dtoks in *. cbn [map Fb.map_out].
  unfold int_token at 1. rewrite py_int_fmt_d. cbn [bind]. now rewrite IH. Qed.

Lemma join4 (a b c d : string) : join "." [a; b; c; d] = (a ++ "." ++ b ++ "." ++ c ++ "." ++ d)%string.
Proof. now rewrite !join_cons, join_single. Qed.

Theorem expand_partial os : partial_ok os -> expand_partial_address (dotted os) = Ok (Std4.ntoa (pad4 os)).
Proof. intros H. pose proof H as [L O]. unfold expand_partial_address. rewrite dotted_no_colon by exact O.
  assert (T : (if contains_char "." (dotted os) then Fb.map_out int_token (split "." (dotted os))
               else do t <- int_token (dotted os); Ok [t]) = Ok (dtoks os)).
  { destruct os as [|a [|b r]]; [cbn in L; lia| |].
    - rewrite dotted_single. inversion O; subst. unfold octetP in *. rewrite fmt_d_no_dot by lia.
      unfold int_token. now rewrite py_int_fmt_d.
    - rewrite dotted_has_dot, split_dotted by (discriminate || now apply nonneg_of_octets).
      apply map_out_int_token. now apply nonneg_of_octets. }
  rewrite T. cbn [bind]. unfold len, dtoks. rewrite map_length.
  assert (E : (1 <=? Z.of_nat (List.length os)) && (Z.of_nat (List.length os) <=? 4) = true) by lia. rewrite E.
  fold (dtoks os). rewrite pad_dtoks. shapes os H; unfold pad4; cbn [List.length Nat.sub repeat app dtoks map];
    rewrite ntoa_as_join, join4; reflexivity. Qed.

Lemma pad4_shape os : partial_ok os -> exists a b c d, pad4 os = [a; b; c; d] /\ octetP a /\ octetP b /\ octetP c /\ octetP d /\
  hd_error os = Some a.
Proof. intros H. shapes os H; unfold pad4; cbn [List.length Nat.sub repeat app hd_error]; repeat eexists; unfold octetP; lia. Qed.

(* the address part: strict parse for four octets, the partial expansion otherwise *)
Lemma addr_part_partial be os : partial_ok os -> addr_part be 4 (dotted os) = Ok (quad_value (pad4 os)).
Proof. intros H. pose proof H as [L O]. destruct (pad4_shape os H) as (a & b & c & d & E & Ha & Hb & Hc & Hd & _).
  destruct (Nat.eq_dec (List.length os) 4) as [L4|L4].
  - assert (os = pad4 os) as -> by (unfold pad4; rewrite L4; cbn; now rewrite app_nil_r).
    rewrite E. rewrite <- ntoa_dotted. eapply addr_part_ok. now apply init_quad.
  - assert (S : init_str be (dotted os) (Some 4) INET_PTON = Raise AddrFormatError).
    { unfold init_str. change (4 =? 4) with true. cbn [bind]. rewrite dotted_no_slash by exact O.
      rewrite strict_exact_v4, pton4_short; [reflexivity|exact L4|destruct os; [cbn in L; lia|discriminate]|now apply nonneg_of_octets]. }
    unfold addr_part. rewrite S. change (4 =? 4) with true. cbn iota. rewrite expand_partial by exact H. cbn [bind]. rewrite E.
    now rewrite init_quad. Qed.

Lemma addr_part6_dotted be os : Forall octetP os -> addr_part be 6 (dotted os) = Raise AddrFormatError.
Proof. intros O. unfold addr_part. rewrite init6_no_colon; [reflexivity|now apply dotted_no_colon|now apply dotted_no_slash]. Qed.

Lemma quad_value_range os : partial_ok os -> 0 <= quad_value (pad4 os) < 2 ^ 32.
Proof. intros H. destruct (pad4_shape os H) as (a & b & c & d & -> & Ha & Hb & Hc & Hd & _). unfold octetP in *.
  cbn [quad_value]. change (2 ^ 32) with 4294967296. lia. Qed.

(* cidr_abbrev_to_verbose on the canonical abbreviations *)
Lemma string_app_assoc (a b c : string) : ((a ++ b) ++ c)%string = (a ++ b ++ c)%string.
Proof. apply chars_inj. rewrite !chars_app. now rewrite app_assoc. Qed.

Theorem abbrev_classful os : partial_ok os ->
  exists o1, hd_error os = Some o1 /\
  cidr_abbrev_to_verbose (dotted os) = Ok (Std4.ntoa (pad4 os) ++ "/" ++ fmt_d (classful o1))%string.
Proof. intros H. pose proof H as [L O]. destruct os as [|o1 r]; [cbn in L; lia|]. exists o1. split; [reflexivity|].
  inversion O as [|? ? H1 Or]; subst. unfold octetP in H1.
  unfold cidr_abbrev_to_verbose. rewrite dotted_no_colon by exact O. rewrite nonempty_eqb by (apply dotted_nonempty; discriminate).
  cbn [orb]. destruct r as [|o2 r].
  - rewrite dotted_single, py_int_fmt_d, classful_prefix_int_ok by lia. f_equal.
    unfold pad4. cbn [List.length Nat.sub repeat app]. rewrite ntoa_as_join, join4, fmt_d_0.
    rewrite !string_app_assoc. reflexivity.
  - rewrite py_int_dot by apply dotted_has_dot. rewrite dotted_no_slash by exact O. cbn [bind].
    rewrite split_dotted by (discriminate || now apply nonneg_of_octets).
    assert (LT : (4 <? len (dtoks (o1 :: o2 :: r))) = false).
    { unfold len, dtoks. rewrite map_length. lia. }
    rewrite LT, pad_dtoks. destruct (pad4_shape _ H) as (a & b & c & d & E & _ & _ & _ & _ & Hd). cbn in Hd. injection Hd as <-.
    rewrite E. unfold dtoks. cbn [map]. unfold classful_prefix_str. rewrite py_int_fmt_d, classful_prefix_int_ok by lia.
    rewrite <- ntoa_as_join. reflexivity. Qed.

Theorem abbrev_prefixed os p : partial_ok os -> 0 <= p <= 32 ->
  cidr_abbrev_to_verbose (dotted os ++ "/" ++ fmt_d p) = Ok (Std4.ntoa (pad4 os) ++ "/" ++ fmt_d p)%string.
Proof. intros H Hp. pose proof H as [L O]. set (s := (dotted os ++ "/" ++ fmt_d p)%string).
  destruct (slash_split (dotted os) (fmt_d p) (dotted_no_slash os O)) as [C S]. fold s in C, S.
  assert (NC : contains_char ":" s = false).
  { unfold s. rewrite !contains_char_app, dotted_no_colon, fmt_d_no_colon by (exact O || lia). reflexivity. }
  assert (NE : String.eqb s "" = false).
  { apply nonempty_eqb. intros E. rewrite E in C. discriminate. }
  unfold cidr_abbrev_to_verbose. rewrite NC, NE. cbn [orb]. rewrite (py_int_slash s C), C, S, py_int_fmt_d.
  assert (R : (0 <=? p) && (p <=? 32) = true) by lia. rewrite R. cbn [bind].
  rewrite split_dotted by ((destruct os; [cbn in L; lia|discriminate]) || now apply nonneg_of_octets).
  assert (LT : (4 <? len (dtoks os)) = false) by (unfold len, dtoks; rewrite map_length; lia).
  rewrite LT, pad_dtoks. destruct (pad4_shape _ H) as (a & b & c & d & E & _). rewrite E. unfold dtoks. cbn [map].
  now rewrite <- ntoa_as_join. Qed.

Lemma parse_str_abbrev be ver s s' : cidr_abbrev_to_verbose s = Ok s' -> parse_str be ver s true = parse_str be ver s' false.
Proof. intros H. rewrite !parse_str_unfold. now rewrite H. Qed.

Lemma parse_quad_prefix be a b c d q : octetP a -> octetP b -> octetP c -> octetP d -> 0 <= q <= 32 ->
  parse_str be 4 (Std4.ntoa [a; b; c; d] ++ "/" ++ fmt_d q) false = Ok (quad_value [a; b; c; d], q).
Proof. intros Ha Hb Hc Hd Hq. pose proof (init_quad be a b c d Ha Hb Hc Hd) as I.
  rewrite parse_str_slash by (eapply init_ok_no_slash; eauto). rewrite (addr_part_ok be 4 _ 4 _ I). cbn [bind].
  rewrite (prefix_part_int be 4 _ q) by apply py_int_fmt_d. cbn [bind]. apply check_prefix_ok. exact Hq. Qed.

Lemma net_init_v4 be s ip version flags v p : version_for 4 version -> parse_str be 4 s ip = Ok (v, p) ->
  0 <= v < 2 ^ 32 -> 0 <= p <= 32 -> net_init be (AStr s) ip version flags = Ok (the_net 4 v p flags).
Proof. intros Hver H Hv Hp.
  rewrite (net_init_str be 4 s ip version flags (nh 4 v p flags, p) eq_refl Hver); [reflexivity| |discriminate].
  apply parse_net_str; assumption. Qed.

Theorem partial_bare be os version flags : partial_ok os -> version_for 4 version ->
  net_init be (AStr (dotted os)) false version flags = Ok {| nver := 4; nval := quad_value (pad4 os); nplen := 32 |}.
Proof. intros H Hver. pose proof H as [L O]. pose proof (quad_value_range os H) as R.
  rewrite (net_init_v4 be _ false version flags (quad_value (pad4 os)) 32 Hver); [| |exact R|lia].
  - unfold the_net. change 32 with (width 4) at 1. now rewrite nh_full.
  - rewrite parse_str_bare by (now apply dotted_no_slash). rewrite addr_part_partial by exact H. reflexivity. Qed.

Theorem partial_prefixed be os p ip version flags : partial_ok os -> 0 <= p <= 32 -> version_for 4 version ->
  net_init be (AStr (dotted os ++ "/" ++ fmt_d p)) ip version flags = Ok (the_net 4 (quad_value (pad4 os)) p flags).
Proof. intros H Hp Hver. pose proof H as [L O]. pose proof (quad_value_range os H) as R.
  apply net_init_v4; try assumption. destruct ip.
  - rewrite (parse_str_abbrev be 4 _ _ (abbrev_prefixed os p H Hp)).
    destruct (pad4_shape os H) as (a & b & c & d & E & Ha & Hb & Hc & Hd & _). rewrite E. now apply parse_quad_prefix.
  - rewrite parse_str_slash by (now apply dotted_no_slash). rewrite addr_part_partial by exact H. cbn [bind].
    rewrite (prefix_part_int be 4 _ p) by apply py_int_fmt_d. cbn [bind]. now apply check_prefix_ok. Qed.

Theorem partial_classful be os o1 version flags : partial_ok os -> hd_error os = Some o1 -> version_for 4 version ->
  net_init be (AStr (dotted os)) true version flags = Ok (the_net 4 (quad_value (pad4 os)) (classful o1) flags).
Proof. intros H H1 Hver. pose proof (quad_value_range os H) as R. pose proof (classful_range o1) as CR.
  apply net_init_v4; try assumption. destruct (abbrev_classful os H) as (o & Ho & AB). rewrite H1 in Ho. injection Ho as <-.
  rewrite (parse_str_abbrev be 4 _ _ AB).
  destruct (pad4_shape os H) as (a & b & c & d & E & Ha & Hb & Hc & Hd & _). rewrite E. now apply parse_quad_prefix. Qed.

(* ================================================================ C03_rejects *)
Theorem rejects_prefix be ver v t n ip version flags : vrange ver v -> version_for ver version ->
  py_int 10 t = Some n -> ~ 0 <= n <= width ver ->
  (do a <- int_to_str be ver v None; net_init be (AStr (a ++ "/" ++ t)) ip version flags) = Raise AddrFormatError.
Proof. intros R Hver HP Hn. destruct (printed_exists be ver v R) as (a & P). rewrite (pr_text _ _ _ _ P). cbn [bind].
  apply (notation_reject be ver v a t ip version flags R P Hver). right. exists n. split; [now apply prefix_part_int|exact Hn]. Qed.

Theorem rejects_mask be ver v t x m ip version flags : vrange ver v -> version_for ver version ->
  py_int 10 t = None -> init_str be t (Some ver) INET_PTON = Ok (x, m) ->
  is_netmask (width ver) m = false -> is_hostmask m = false ->
  (do a <- int_to_str be ver v None; net_init be (AStr (a ++ "/" ++ t)) ip version flags) = Raise AddrFormatError.
Proof. intros R Hver HP HI N1 N2. destruct (printed_exists be ver v R) as (a & P). rewrite (pr_text _ _ _ _ P). cbn [bind].
  apply (notation_reject be ver v a t ip version flags R P Hver). left. rewrite prefix_part_mask by exact HP.
  eapply mask_part_neither; eauto. Qed.

(* the two boolean tests above say: m is not a contiguous mask of either kind *)
Lemma not_contiguous w m : 0 <= w -> 0 <= m < 2 ^ w ->
  (is_netmask w m = false /\ is_hostmask m = false <->
   forall q, 0 <= q <= w -> m <> 2 ^ w - 2 ^ (w - q) /\ m <> 2 ^ (w - q) - 1).
Proof. intros Hw Hm. split.
  - intros [N1 N2] q Hq. split; intros E.
    + assert (T : is_netmask w m = true) by (apply (is_netmask_iff w); [lia|lia|now exists q]). congruence.
    + assert (T : is_hostmask m = true) by (apply (is_hostmask_iff w); [lia|lia|now exists q]). congruence.
  - intros H. split.
    + destruct (is_netmask w m) eqn:E; [|reflexivity]. apply (is_netmask_iff w) in E; [|lia|lia].
      destruct E as (q & Hq & E). destruct (H q Hq) as [X _]. contradiction.
    + destruct (is_hostmask m) eqn:E; [|reflexivity]. apply (is_hostmask_iff w) in E; [|lia|lia].
      destruct E as (q & Hq & E). destruct (H q Hq) as [_ X]. contradiction. Qed.

Theorem rejects_mask_text be ver v t e ip version flags : vrange ver v -> version_for ver version ->
  py_int 10 t = None -> init_str be t (Some ver) INET_PTON = Raise e ->
  (do a <- int_to_str be ver v None; net_init be (AStr (a ++ "/" ++ t)) ip version flags) = Raise AddrFormatError.
Proof. intros R Hver HP HI. destruct (printed_exists be ver v R) as (a & P). rewrite (pr_text _ _ _ _ P). cbn [bind].
  apply (notation_reject be ver v a t ip version flags R P Hver). left. rewrite prefix_part_mask by exact HP.
  eapply mask_part_unreadable; [apply R|eauto]. Qed.

(* an address part that neither family reads (strict parser; for IPv4 also the partial expansion) *)
Definition v4_unreadable (be : backend) (val1 : string) : Prop :=
  init_str be val1 (Some 4) INET_PTON = Raise AddrFormatError /\
  (expand_partial_address val1 = Raise AddrFormatError \/
   exists e, expand_partial_address val1 = Ok e /\ init_str be e (Some 4) INET_PTON = Raise AddrFormatError).
Definition v6_unreadable (be : backend) (val1 : string) : Prop :=
  init_str be val1 (Some 6) INET_PTON = Raise AddrFormatError.

Lemma addr_part4_unreadable be val1 : v4_unreadable be val1 -> addr_part be 4 val1 = Raise AddrFormatError.
Proof. intros [H1 H2]. unfold addr_part. rewrite H1. change (4 =? 4) with true. cbn iota.
  destruct H2 as [-> | (e & -> & H3)]; [reflexivity|]. cbn [bind]. now rewrite H3. Qed.

Lemma addr_part6_unreadable be val1 : v6_unreadable be val1 -> addr_part be 6 val1 = Raise AddrFormatError.
Proof. intros H. unfold addr_part. now rewrite H. Qed.

Theorem rejects_address be val1 rest version flags : contains_char "/" val1 = false ->
  (rest = ""%string \/ exists t, rest = ("/" ++ t)%string) ->
  (version = Some 4 \/ version = None -> v4_unreadable be val1) ->
  (version = Some 6 \/ version = None -> v6_unreadable be val1) ->
  version = Some 4 \/ version = Some 6 \/ version = None ->
  net_init be (AStr (val1 ++ rest)) false version flags = Raise AddrFormatError.
Proof. intros NS Hr H4 H6 Hver.
  assert (G : forall ver, addr_part be ver val1 = Raise AddrFormatError ->
              parse_ip_network be ver (AStr (val1 ++ rest)) false flags = Raise AddrFormatError).
  { intros ver A. apply parse_net_str_raise. destruct Hr as [-> | [t ->]].
    - assert (E : (val1 ++ "")%string = val1) by (apply chars_inj; rewrite chars_app; cbn; apply app_nil_r).
      rewrite E, parse_str_bare by exact NS. now rewrite A.
    - rewrite parse_str_slash by exact NS. now rewrite A. }
  destruct Hver as [-> | [-> | ->]].
  - rewrite net_init_explicit by (reflexivity || discriminate). rewrite G; [reflexivity|]. apply addr_part4_unreadable. auto.
  - rewrite net_init_explicit by (reflexivity || discriminate). rewrite G; [reflexivity|]. apply addr_part6_unreadable. auto.
  - unfold net_init. rewrite G by (apply addr_part4_unreadable; auto). rewrite G by (apply addr_part6_unreadable; auto). reflexivity. Qed.

Theorem rejects_tuple be v p ip version flags ver : version = Some ver -> valid_ver ver = true ->
  ~ (0 <= v < 2 ^ width ver /\ 0 <= p <= width ver) ->
  net_init be (ATuple [v; p]) ip version flags = Raise AddrFormatError.
Proof. intros -> Hver H. rewrite net_init_explicit by (assumption || discriminate). now rewrite parse_tuple_bad. Qed.

Theorem rejects_tuple_implicit be v p ip flags : ~ (0 <= v < 2 ^ 128 /\ 0 <= p <= 128) ->
  net_init be (ATuple [v; p]) ip None flags = Raise AddrFormatError.
Proof. intros H. unfold net_init. rewrite parse_tuple_bad.
  - rewrite parse_tuple_bad; [reflexivity|exact H].
  - change (width 4) with 32. intros [H1 H2]. apply H. change (2 ^ 32) with 4294967296 in H1.
    change (2 ^ 128) with 340282366920938463463374607431768211456. lia. Qed.

Theorem rejects_tuple_len be t ip version flags : (List.length t <> 2)%nat ->
  version = Some 4 \/ version = Some 6 \/ version = None ->
  net_init be (ATuple t) ip version flags = Raise AddrFormatError.
Proof. intros L Hver.
  assert (G : forall ver, parse_ip_network be ver (ATuple t) ip flags = Raise AddrFormatError).
  { intros ver. unfold parse_ip_network. destruct t as [|a [|b [|c r]]]; try reflexivity. cbn in L. lia. }
  destruct Hver as [-> | [-> | ->]]; unfold net_init; cbn [Z.eqb]; rewrite ?G; reflexivity. Qed.

Theorem other_type be ip version flags : version = Some 4 \/ version = Some 6 \/ version = None ->
  net_init be AOther ip version flags = Raise TypeError.
Proof. intros [-> | [-> | ->]]; reflexivity. Qed.

Theorem bad_version be a ip v flags : v <> 4 -> v <> 6 -> (forall n, a <> ANet n) -> (forall x y, a <> AAddr x y) ->
  net_init be a ip (Some v) flags = Raise ValueError.
Proof. intros H4 H6 N1 N2. unfold net_init. destruct a; try (exfalso; eapply N1; reflexivity); try (exfalso; eapply N2; reflexivity);
  (case_eqb v 4; [contradiction|]); (case_eqb v 6; [contradiction|]); reflexivity. Qed.

(* implicit_prefix: IPNetwork(s, implicit_prefix=True) is IPNetwork(cidr_abbrev_to_verbose(s)) *)
Lemma net_init_abbrev be s s' version flags : cidr_abbrev_to_verbose s = Ok s' ->
  net_init be (AStr s) true version flags = net_init be (AStr s') false version flags.
Proof. intros H. unfold net_init, parse_ip_network. now rewrite !(parse_str_abbrev be _ s s' H). Qed.

Theorem rejects_address_implicit be s val1 rest version flags : cidr_abbrev_to_verbose s = Ok (val1 ++ rest)%string ->
  contains_char "/" val1 = false -> (rest = ""%string \/ exists t, rest = ("/" ++ t)%string) ->
  (version = Some 4 \/ version = None -> v4_unreadable be val1) ->
  (version = Some 6 \/ version = None -> v6_unreadable be val1) ->
  version = Some 4 \/ version = Some 6 \/ version = None ->
  net_init be (AStr s) true version flags = Raise AddrFormatError.
Proof. intros H NS Hr H4 H6 Hver. rewrite (net_init_abbrev be s _ version flags H). now apply rejects_address. Qed.
