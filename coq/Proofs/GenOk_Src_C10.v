(* Proofs/GenOk_Src_C10.v — source tie for C10: the definitions regenerated from the text of IPListMixin.__len__ and
   IPListMixin.__getitem__ (Gen/pysrc_listlike_gen.v; one copy per receiver class IPNetwork / IPRange, __getitem__ specialised
   once to an int index and once to a slice index -- `hasattr(index, 'indices')` is decided by that declared type) equal the
   hand-written model of Model/ListLike.v: r_len, r_getitem_int, r_getitem_slice on RNet / RRange / RGlob.
   The integer branch keeps its `try: .. except ValueError: raise TypeError` (SrcPrelude.py_except = the model's
   value_error_to_type_error); the slice branch uses the model's CPython builtins py_slice_indices / py_range_len
   (Model/PySlice.v) for `index.indices(self.size)` / `len(_iter_range(start, stop, step))`, `ssize_max` for `_sys_maxint`,
   and the model's iterator values ItEmpty / ItIprange for `iter([])` / the not yet started generator `iter_iprange(..)`.
   No hypothesis is needed: the receiver state is arbitrary (the width parameter of the generated IPNetwork methods is
   instantiated with `width ver`, as everywhere; the IPRange methods do not read it). *)
From NV Require Import Base.Tac Base.PyVal Model.Ip Model.PySlice Model.ListLike Model.SrcPrelude
  Gen.pysrc_gen Gen.pysrc_listlike_gen Proofs.GenOk_Src_C02.
Import ListNotations.
Open Scope Z_scope.

Lemma py_except_vt {A} (o : outcome A) : py_except ValueError TypeError o = value_error_to_type_error o.
Proof. destruct o as [a|[]]; reflexivity. Qed.

(* the try body of the integer branch exports (index, item); the model keeps the item only *)
Lemma except_item {A} (index : Z) (o : outcome A) :
  bind (py_except ValueError TypeError (bind o (fun item => Ok (index, item)))) (fun '(_, item) => Ok item) =
  value_error_to_type_error o.
Proof. destruct o as [a|[]]; reflexivity. Qed.

Lemma src_net_size_ok ver v p : src_IPNetwork_size ver (width ver) v p = r_size (RNet ver v p).
Proof. rewrite src_size_ok. reflexivity. Qed.

(* ---- len() ---- *)
Lemma src_net_len_ok ver v p : src_IPNetwork_len ver (width ver) v p = r_len (RNet ver v p).
Proof. unfold src_IPNetwork_len, r_len. rewrite src_net_size_ok. reflexivity. Qed.

Lemma src_range_len_ok ver w s e : src_IPRange_len ver w s e = r_len (RRange ver s e).
Proof. reflexivity. Qed.

(* ---- x[i] ---- *)
Lemma src_net_getitem_int_ok ver v p index :
  src_IPNetwork_getitem_int ver (width ver) v p index = r_getitem_int (RNet ver v p) index.
Proof.
  unfold src_IPNetwork_getitem_int, r_getitem_int. rewrite !src_net_size_ok, src_first_ok, src_last_ok.
  change (net_first (width ver) v p) with (r_first (RNet ver v p)). change (net_last (width ver) v p) with (r_last (RNet ver v p)).
  change (r_ver (RNet ver v p)) with ver. unfold mk_addr.
  destruct ((- r_size (RNet ver v p) <=? index) && (index <? 0)); [apply except_item|].
  destruct ((0 <=? index) && (index <=? r_size (RNet ver v p) - 1)); [apply except_item|reflexivity].
Qed.

Lemma src_range_getitem_int_ok ver w s e index :
  src_IPRange_getitem_int ver w s e index = r_getitem_int (RRange ver s e) index.
Proof.
  unfold src_IPRange_getitem_int, r_getitem_int.
  change (src_IPRange_size ver w s e) with (r_size (RRange ver s e)).
  change (src_IPRange_first ver w s e) with (r_first (RRange ver s e)). change (src_IPRange_last ver w s e) with (r_last (RRange ver s e)).
  change (r_ver (RRange ver s e)) with ver. unfold mk_addr.
  destruct ((- r_size (RRange ver s e) <=? index) && (index <? 0)); [apply except_item|].
  destruct ((0 <=? index) && (index <=? r_size (RRange ver s e) - 1)); [apply except_item|reflexivity].
Qed.

(* ---- x[a:b:c] ---- *)
Lemma src_net_getitem_slice_ok ver v p a b c :
  src_IPNetwork_getitem_slice ver (width ver) v p (a, b, c) = r_getitem_slice (RNet ver v p) a b c.
Proof.
  unfold src_IPNetwork_getitem_slice, r_getitem_slice. rewrite !src_net_size_ok, !src_first_ok.
  change (net_first (width ver) v p) with (r_first (RNet ver v p)). change (r_ver (RNet ver v p)) with ver. unfold mk_addr.
  destruct (ver =? 6); [reflexivity|].
  destruct (py_slice_indices a b c (r_size (RNet ver v p))) as [[[start stop] step]|]; [|reflexivity]. cbn [bind].
  destruct (py_range_len start stop step) as [count|]; [|reflexivity]. cbn [bind].
  destruct (count =? 0); [reflexivity|].
  destruct (addr_of_int_ver (r_first (RNet ver v p) + start) ver) as [sa|]; [|reflexivity]. cbn [bind].
  destruct (addr_of_int_ver (r_first (RNet ver v p) + start + (count - 1) * step) ver) as [ea|]; reflexivity.
Qed.

Lemma src_range_getitem_slice_ok ver w s e a b c :
  src_IPRange_getitem_slice ver w s e (a, b, c) = r_getitem_slice (RRange ver s e) a b c.
Proof.
  unfold src_IPRange_getitem_slice, r_getitem_slice.
  change (src_IPRange_size ver w s e) with (r_size (RRange ver s e)).
  change (src_IPRange_first ver w s e) with (r_first (RRange ver s e)). change (r_ver (RRange ver s e)) with ver. unfold mk_addr.
  destruct (ver =? 6); [reflexivity|].
  destruct (py_slice_indices a b c (r_size (RRange ver s e))) as [[[start stop] step]|]; [|reflexivity]. cbn [bind].
  destruct (py_range_len start stop step) as [count|]; [|reflexivity]. cbn [bind].
  destruct (count =? 0); [reflexivity|].
  destruct (addr_of_int_ver (r_first (RRange ver s e) + start) ver) as [sa|]; [|reflexivity]. cbn [bind].
  destruct (addr_of_int_ver (r_first (RRange ver s e) + start + (count - 1) * step) ver) as [ea|]; reflexivity.
Qed.

(* an IPGlob is an IPRange of version 4 (the model keeps it as a separate constructor) *)
Lemma glob_is_range s e index a b c :
  r_len (RGlob s e) = r_len (RRange 4 s e) /\ r_getitem_int (RGlob s e) index = r_getitem_int (RRange 4 s e) index /\
  r_getitem_slice (RGlob s e) a b c = r_getitem_slice (RRange 4 s e) a b c.
Proof. repeat split; reflexivity. Qed.

(* everything the C10 source tie states (Props/C10_src.v) *)
Lemma C10_tie_ok :
  (forall ver v p, src_IPNetwork_len ver (width ver) v p = r_len (RNet ver v p)) /\
  (forall ver v p index, src_IPNetwork_getitem_int ver (width ver) v p index = r_getitem_int (RNet ver v p) index) /\
  (forall ver v p a b c, src_IPNetwork_getitem_slice ver (width ver) v p (a, b, c) = r_getitem_slice (RNet ver v p) a b c) /\
  (forall ver w s e, src_IPRange_len ver w s e = r_len (RRange ver s e)) /\
  (forall ver w s e index, src_IPRange_getitem_int ver w s e index = r_getitem_int (RRange ver s e) index) /\
  (forall ver w s e a b c, src_IPRange_getitem_slice ver w s e (a, b, c) = r_getitem_slice (RRange ver s e) a b c) /\
  (forall w s e index a b c,
     src_IPRange_len 4 w s e = r_len (RGlob s e) /\ src_IPRange_getitem_int 4 w s e index = r_getitem_int (RGlob s e) index /\
     src_IPRange_getitem_slice 4 w s e (a, b, c) = r_getitem_slice (RGlob s e) a b c).
Proof.
  split; [exact src_net_len_ok|]. split; [exact src_net_getitem_int_ok|]. split; [exact src_net_getitem_slice_ok|].
  split; [exact src_range_len_ok|]. split; [exact src_range_getitem_int_ok|]. split; [exact src_range_getitem_slice_ok|].
  intros w s e index a b c. destruct (glob_is_range s e index a b c) as (-> & -> & ->).
  split; [apply src_range_len_ok|]. split; [apply src_range_getitem_int_ok|apply src_range_getitem_slice_ok].
Qed.
