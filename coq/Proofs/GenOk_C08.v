(* Proofs/GenOk_C08.v — the data Model/Eui.v hard-codes is the data found in the source on this run. *)
From Coq Require Import ZArith List Bool String Ascii.
From NV Require Import Base.PyVal Base.PyStr Model.Eui Gen.eui_gen.
Import ListNotations.
Open Scope Z_scope.

(* 34 = re.IGNORECASE | re.UNICODE: case-insensitive, `^`/`$` not in MULTILINE mode *)
Definition re_flags_expected : Z := 34.

(* the ordered regular expressions of both modules are exactly the renderings of the hand-compiled matchers *)
Lemma re_patterns_pinned :
  gen_mac_patterns = map (fun p => (pat_regex p, re_flags_expected)) mac_pats /\
  gen_eui64_patterns = map (fun p => (pat_regex p, re_flags_expected)) eui64_pats /\
  gen_re_flag_values = [2; 32; 8].
Proof. vm_compute. repeat split; reflexivity. Qed.

Definition dialect_row (x : string * (Z * dialect)) : string * (Z * (Z * Z * string * string * Z)) :=
  let '(n, (ver, d)) := x in (n, (ver, (word_size d, num_words d, word_sep d, word_fmt d, 16))).

(* every dialect class of both modules, with the attributes the code reads, in definition order *)
Lemma dialects_ok : gen_dialects = map dialect_row builtin_dialects.
Proof. vm_compute. reflexivity. Qed.

Lemma modules_ok : gen_modules = [(48, ewidth 48, emax_int 48); (64, ewidth 64, emax_int 64)].
Proof. vm_compute. reflexivity. Qed.

(* default dialects: by name, and the records those names denote *)
Lemma defaults_ok :
  gen_defaults = ["mac_eui48"; "eui64_base"; "mac_eui48"; "eui64_base"]%string /\
  default_dialect 48 = mac_eui48 /\ default_dialect 64 = eui64_base.
Proof. vm_compute. repeat split; reflexivity. Qed.

Lemma iab_values_ok : gen_iab_values = iab_values.
Proof. vm_compute. reflexivity. Qed.

(* every built-in word_fmt is inside the modelled printf subset *)
Lemma builtin_fmts_parse : forallb (fun x => match parse_fmt (word_fmt (snd (snd x))) with Some _ => true | None => false end)
                                   builtin_dialects = true.
Proof. vm_compute. reflexivity. Qed.
