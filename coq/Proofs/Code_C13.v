(* Proofs/Code_C13.v — the C13 property theorems restated about the definition regenerated from the source
   (Gen/pysrc_span_gen.v: src_spanning_cidr; first / last of the inputs read through the generated
   src_IPNetwork_first / src_IPNetwork_last = Code_C09.code_first / code_last).
   Each lemma is the model theorem of Proofs/C13.v at wd := width, transported through Proofs/GenOk_Src_C13.v.
   Vocabulary:
     code_inputs ver l       : every object of l is well formed (C02.wf_net: version 4/6, value and prefix in range)
                               and has version ver
     code_lowest_first l m   : m is the generated `first` of some input and <= the `first` of every input
     code_highest_last l m   : m is the generated `last` of some input and >= the `last` of every input *)
From NV Require Import Base.Tac Base.PyVal Base.Bits Model.Ip Model.Span Model.SrcPrelude Gen.pysrc_gen Gen.pysrc_span_gen
  Proofs.C02 Proofs.C13 Proofs.GenOk_Src_C13 Proofs.Code_C09.
From Coq Require Import Permutation.
Import ListNotations.
Open Scope Z_scope.

Definition code_inputs (ver : Z) (l : list net) : Prop := Forall wf_net l /\ all_ver ver l.
Definition code_lowest_first (l : list net) (m : Z) : Prop :=
  (exists n, In n l /\ code_first n = m) /\ forall n, In n l -> m <= code_first n.
Definition code_highest_last (l : list net) (m : Z) : Prop :=
  (exists n, In n l /\ code_last n = m) /\ forall n, In n l -> code_last n <= m.

Lemma code_lowest_first_model l m : code_lowest_first l m <-> lowest_first width l m.
Proof. reflexivity. Qed.
Lemma code_highest_last_model l m : code_highest_last l m <-> highest_last width l m.
Proof. reflexivity. Qed.

Lemma code_inputs_in ver l n : code_inputs ver l -> In n l ->
  valid_ver ver = true /\ nver n = ver /\ 0 <= nval n < 2 ^ width ver /\ 0 <= nplen n <= width ver.
Proof.
  intros (W & V) I. unfold all_ver in V. rewrite Forall_forall in W, V.
  destruct (W n I) as (Hv & Hr & Hp). rewrite (V n I) in *. repeat split; try assumption; lia.
Qed.

Lemma code_inputs_wf ver l : code_inputs ver l -> wf_inputs width ver l.
Proof. intros H. apply wf_inputs_width. intros n I. destruct (code_inputs_in ver l n H I) as (_ & R). exact R. Qed.

(* the hypothesis of the tie: the first element's version exists *)
Lemma code_inputs_tie ver l : code_inputs ver l -> src_spanning_cidr l = spanning_cidr l.
Proof.
  intros H. apply src_spanning_cidr_ok. destruct l as [|a [|b r]]; [trivial|trivial|].
  destruct (code_inputs_in ver _ a H (or_introl eq_refl)) as (Hv & -> & _). exact Hv.
Qed.

Lemma code_inputs_ext ver l l' : (forall n, In n l' -> In n l) -> code_inputs ver l -> code_inputs ver l'.
Proof.
  intros S (W & V). unfold all_ver in *. rewrite Forall_forall in W, V.
  split; apply Forall_forall; intros n I; [apply W|apply V]; apply S; exact I.
Qed.

Lemma code_span_correct ver l lo hi :
  code_inputs ver l -> (2 <= length l)%nat -> code_lowest_first l lo -> code_highest_last l hi ->
  let w := width ver in
  exists r q, src_spanning_cidr l = Ok {| nver := ver; nval := r; nplen := q |} /\
    0 <= q <= w /\ 0 <= r /\ r + 2 ^ (w - q) - 1 < 2 ^ w /\
    r mod 2 ^ (w - q) = 0 /\
    r <= lo /\ hi <= r + 2 ^ (w - q) - 1 /\
    (forall n, In n l -> r <= code_first n /\ code_last n <= r + 2 ^ (w - q) - 1) /\
    (forall r' q', 0 <= q' <= w -> r' mod 2 ^ (w - q') = 0 ->
       (forall n, In n l -> r' <= code_first n /\ code_last n <= r' + 2 ^ (w - q') - 1) ->
       q' <= q /\ r' <= r /\ r + 2 ^ (w - q) - 1 <= r' + 2 ^ (w - q') - 1).
Proof.
  intros H L Hlo Hhi. rewrite (code_inputs_tie ver l H).
  exact (span_correct width ver l lo hi (code_inputs_wf ver l H) L Hlo Hhi).
Qed.

Lemma code_span_result ver l lo hi :
  code_inputs ver l -> (2 <= length l)%nat -> code_lowest_first l lo -> code_highest_last l hi ->
  0 <= lo <= hi /\ hi < 2 ^ width ver /\
  exists r q, src_spanning_cidr l = Ok {| nver := ver; nval := r; nplen := q |} /\
    0 <= q <= width ver /\ r = floor2 hi (width ver - q) /\ r <= lo /\
    forall q', q < q' <= width ver -> lo < floor2 hi (width ver - q').
Proof.
  intros H L Hlo Hhi. rewrite (code_inputs_tie ver l H).
  exact (span_result width ver l lo hi (code_inputs_wf ver l H) L Hlo Hhi).
Qed.

Lemma code_span_order_free ver l l' lo hi :
  code_inputs ver l -> code_inputs ver l' -> (2 <= length l)%nat -> (2 <= length l')%nat ->
  code_lowest_first l lo -> code_highest_last l hi -> code_lowest_first l' lo -> code_highest_last l' hi ->
  src_spanning_cidr l = src_spanning_cidr l'.
Proof.
  intros H H' L L' A B C D. rewrite (code_inputs_tie ver l H), (code_inputs_tie ver l' H').
  exact (span_order_free width ver l l' lo hi (code_inputs_wf _ _ H) (code_inputs_wf _ _ H') L L' A B C D).
Qed.

Lemma code_span_permutation ver l l' :
  code_inputs ver l -> (2 <= length l)%nat -> Permutation l l' -> src_spanning_cidr l = src_spanning_cidr l'.
Proof.
  intros H L P.
  assert (H': code_inputs ver l').
  { apply (code_inputs_ext ver l l'); [|exact H]. intros n I. apply (Permutation_in n (Permutation_sym P)). exact I. }
  rewrite (code_inputs_tie ver l H), (code_inputs_tie ver l' H').
  exact (span_permutation width ver l l' (code_inputs_wf _ _ H) L P).
Qed.

Lemma code_span_same_elements ver l l' :
  code_inputs ver l -> (2 <= length l)%nat -> (2 <= length l')%nat ->
  (forall n, In n l <-> In n l') -> src_spanning_cidr l = src_spanning_cidr l'.
Proof.
  intros H L L' S.
  assert (H': code_inputs ver l').
  { apply (code_inputs_ext ver l l'); [|exact H]. intros n I. apply S. exact I. }
  rewrite (code_inputs_tie ver l H), (code_inputs_tie ver l' H').
  exact (span_same_elements width ver l l' (code_inputs_wf _ _ H) L L' S).
Qed.

Lemma code_bounds_exist l : l <> [] -> exists lo hi, code_lowest_first l lo /\ code_highest_last l hi.
Proof. exact (lowest_highest_exist width l). Qed.

(* errors.  Too few inputs: no hypothesis.  Mixed families: the tie needs the versions of the objects to exist
   (the generated code builds nothing before it raises, but the tie lemma is stated for the whole function). *)
Lemma code_span_errors l :
  ((length l < 2)%nat -> src_spanning_cidr l = Raise ValueError) /\
  ((2 <= length l)%nat -> (forall n, In n l -> valid_ver (nver n) = true) ->
     (exists n1 n2, In n1 l /\ In n2 l /\ nver n1 <> nver n2) -> src_spanning_cidr l = Raise TypeError).
Proof.
  destruct (span_errors width l) as (E1 & E2). split.
  - intros L. rewrite src_spanning_cidr_ok; [exact (E1 L)|]. destruct l as [|a [|b r]]; [trivial|trivial|cbn in L; lia].
  - intros L V M. rewrite src_spanning_cidr_ok; [exact (E2 L M)|].
    destruct l as [|a [|b r]]; [trivial|trivial|]. apply V. left. reflexivity.
Qed.

Lemma code_span_no_fuel ver l : code_inputs ver l -> src_spanning_cidr l <> Raise OutOfFuel.
Proof. intros H. rewrite (code_inputs_tie ver l H). exact (span_no_fuel width ver l (code_inputs_wf _ _ H)). Qed.
