(* Proofs/C07_qsize.v — C07 part B: size / __len__, size as the cardinality of the denoted set (monotone under
   inclusion, equal exactly for equal sets), the strict orderings < and >, and dict equality as set equality. *)
From NV Require Import Base.Tac Base.PyVal Base.Bits Base.Canon Model.Ip Model.Partition Model.Span Model.Merge Model.Sets
  Proofs.C02 Proofs.NetDen Proofs.C07_qbase Proofs.C07_qsort Proofs.C07_qranges.
From Coq Require Import Sorting.Sorted Sorting.Permutation.
Open Scope Z_scope.

(* ---------------------------------------------------------------- size as a sum *)
Definition q_sum (d : list net) : Z := fold_right (fun k acc => nsize k + acc) 0 d.

Lemma q_fold_size d : forall acc, fold_left (fun acc n => acc + nsize n) d acc = acc + q_sum d.
Proof. induction d as [|k d IH]; intros acc; cbn [fold_left q_sum fold_right]; [lia|]. rewrite IH. fold (q_sum d). lia. Qed.

Lemma q_size_sum d : set_size d = q_sum d.
Proof. unfold set_size. rewrite q_fold_size. lia. Qed.

(* 3a. size is the sum of 2^(width - prefixlen) over the stored blocks *)
Theorem q_size_pow d : Forall wf_net d ->
  set_size d = fold_right (fun k acc => 2 ^ (width (nver k) - nplen k) + acc) 0 d.
Proof.
  intros F. rewrite q_size_sum. induction F as [|k d W F IH]; cbn [q_sum fold_right]; [reflexivity|].
  fold (q_sum d). rewrite IH, (q_nsize_eq k W). reflexivity.
Qed.

Lemma q_sum_nonneg d : Forall wf_net d -> 0 <= q_sum d.
Proof. induction 1 as [|k d W F IH]; cbn [q_sum fold_right]; [lia|]. fold (q_sum d). pose proof (q_nsize_pos k W). lia. Qed.

(* 5. __len__ *)
Theorem q_len d :
  (set_size d <= 2 ^ 63 - 1 -> set_len d = Ok (set_size d)) /\
  (2 ^ 63 - 1 < set_size d -> set_len d = Raise IndexError).
Proof.
  unfold set_len, sys_maxint. cbv zeta. rewrite Z.gtb_ltb.
  split; intros H; case_ltb (2 ^ 63 - 1) (set_size d); try reflexivity; lia.
Qed.

(* ---------------------------------------------------------------- counting measure *)
(* number of addresses of block k strictly below t *)
Definition q_below (k : net) (t : Z) : Z := Z.max 0 (Z.min (nl k + 1) t - nf k).
Definition q_hit (k : net) (ver t : Z) : Z := if (nver k =? ver) && (nf k <=? t) && (t <=? nl k) then 1 else 0.
Fixpoint q_cnt (d : list net) (ver t : Z) : Z :=
  match d with [] => 0 | k :: r => (if nver k =? ver then q_below k t else 0) + q_cnt r ver t end.
Fixpoint q_hits (d : list net) (ver t : Z) : Z :=
  match d with [] => 0 | k :: r => q_hit k ver t + q_hits r ver t end.

Lemma q_hit_cases k ver t : (q_hit k ver t = 1 /\ in_net k ver t) \/ (q_hit k ver t = 0 /\ ~ in_net k ver t).
Proof.
  unfold q_hit, in_net. case_eqb (nver k) ver; cbn [andb]; [|right; split; [reflexivity|tauto]].
  case_leb (nf k) t; cbn [andb]; [|right; split; [reflexivity|lia]].
  case_leb t (nl k); [left|right]; split; try reflexivity; lia.
Qed.

Lemma q_hits_nonneg d ver t : 0 <= q_hits d ver t.
Proof. induction d as [|k d IH]; cbn [q_hits]; [lia|]. destruct (q_hit_cases k ver t) as [[E _]|[E _]]; lia. Qed.

Lemma q_hits_zero d ver t : q_hits d ver t = 0 <-> ~ den d ver t.
Proof.
  induction d as [|k d IH]; cbn [q_hits].
  - split; [intros _; apply den_nil|reflexivity].
  - rewrite den_cons. pose proof (q_hits_nonneg d ver t). destruct (q_hit_cases k ver t) as [[E I]|[E I]]; rewrite E.
    + split; [lia|tauto].
    + rewrite Z.add_0_l, IH. tauto.
Qed.

Lemma q_disj_tail a l : q_disj (a :: l) -> q_disj l.
Proof.
  intros [ND PW]. inversion ND; subst. split; [assumption|]. intros x y Hx Hy. apply PW; now right.
Qed.

Lemma q_hits_le1 d ver t : q_disj d -> q_hits d ver t <= 1.
Proof.
  induction d as [|k d IH]; intros Dj; cbn [q_hits]; [lia|].
  specialize (IH (q_disj_tail _ _ Dj)). destruct (q_hit_cases k ver t) as [[E I]|[E I]]; rewrite E; [|lia].
  assert (Z0 : q_hits d ver t = 0); [|lia].
  apply q_hits_zero. intros (x & Hx & Ix). destruct Dj as [ND PW]. inversion ND as [|? ? Nk _]; subst.
  apply (PW k x (or_introl eq_refl) (or_intror Hx)); [intros ->; contradiction|].
  exists ver, t. split; assumption.
Qed.

Lemma q_hits_one d ver t : q_disj d -> (q_hits d ver t = 1 <-> den d ver t).
Proof.
  intros Dj. pose proof (q_hits_le1 d ver t Dj). pose proof (q_hits_nonneg d ver t).
  pose proof (q_hits_zero d ver t) as Z0. split.
  - intros E. destruct (Z.eq_dec (q_hits d ver t) 0) as [E0|N0]; [lia|].
    destruct (Z.eq_dec (q_hits d ver t) 1) as [_|N1]; [|lia].
    (* den is decidable through q_hits *)
    clear Z0. induction d as [|k d IH]; cbn [q_hits] in *; [lia|]. apply den_cons.
    destruct (q_hit_cases k ver t) as [[Ek I]|[Ek I]]; [left; exact I|right].
    rewrite Ek in *. apply IH; try lia. exact (q_disj_tail _ _ Dj).
  - intros Dn. destruct (Z.eq_dec (q_hits d ver t) 0) as [E0|N0]; [apply Z0 in E0; contradiction|lia].
Qed.

Lemma q_den_dec d ver t : den d ver t \/ ~ den d ver t.
Proof.
  destruct (Z.eq_dec (q_hits d ver t) 0) as [E|N]; [right; apply q_hits_zero, E|left].
  induction d as [|k d IH]; cbn [q_hits] in *; [lia|]. apply den_cons.
  destruct (q_hit_cases k ver t) as [[Ek I]|[Ek I]]; [left; exact I|right]. apply IH. lia.
Qed.

Lemma q_cnt_step d ver t : Forall wf_net d -> q_cnt d ver (t + 1) = q_cnt d ver t + q_hits d ver t.
Proof.
  induction 1 as [|k d W F IH]; cbn [q_cnt q_hits]; [lia|]. rewrite IH.
  pose proof (q_nf_le_nl k W). unfold q_hit, q_below.
  case_eqb (nver k) ver; cbn [andb]; [|lia].
  case_leb (nf k) t; cbn [andb]; [|lia]. case_leb t (nl k); lia.
Qed.

Lemma q_cnt_zero d ver : Forall wf_net d -> q_cnt d ver 0 = 0.
Proof.
  induction 1 as [|k d W F IH]; cbn [q_cnt]; [lia|]. rewrite IH.
  pose proof (q_nf_nonneg k W). unfold q_below. destruct (nver k =? ver); lia.
Qed.

(* the blocks of one family *)
Definition q_fsize (d : list net) (ver : Z) : Z :=
  fold_right (fun k acc => (if nver k =? ver then nsize k else 0) + acc) 0 d.

Lemma q_cnt_top d ver : Forall wf_net d -> q_cnt d ver (2 ^ width ver) = q_fsize d ver.
Proof.
  induction 1 as [|k d W F IH]; cbn [q_cnt q_fsize fold_right]; [reflexivity|]. fold (q_fsize d ver). rewrite IH.
  case_eqb (nver k) ver; [|reflexivity]. pose proof (q_nl_lt k W). pose proof (q_nf_le_nl k W).
  subst ver. unfold q_below, nsize. lia.
Qed.

Lemma q_sum_split d : Forall wf_net d -> q_sum d = q_fsize d 4 + q_fsize d 6.
Proof.
  induction 1 as [|k d W F IH]; cbn [q_sum q_fsize fold_right]; [reflexivity|].
  fold (q_sum d) (q_fsize d 4) (q_fsize d 6). rewrite IH.
  destruct W as (Hver & _). apply q_valid_ver_cases in Hver. destruct Hver as [-> | ->]; cbn; lia.
Qed.

Lemma q_mono (D : Z -> Z) : (forall t, 0 <= t -> D t <= D (t + 1)) ->
  forall n, 0 <= n -> forall a, 0 <= a -> D a <= D (a + n).
Proof.
  intros Hs n Hn. pattern n. apply natlike_ind; [| |exact Hn].
  - intros a _. rewrite Z.add_0_r. lia.
  - intros m Hm IH a Ha. specialize (IH a Ha). specialize (Hs (a + m) ltac:(lia)).
    replace (a + Z.succ m) with (a + m + 1) by lia. lia.
Qed.

Definition q_incl (a b : list net) : Prop := forall ver x, den a ver x -> den b ver x.

Section Card.
Variables a b : list net.
Hypothesis Fa : Forall wf_net a.
Hypothesis Fb : Forall wf_net b.
Hypothesis Da : q_disj a.
Hypothesis Db : q_disj b.
Hypothesis Hab : q_incl a b.

Let D (ver t : Z) : Z := q_cnt b ver t - q_cnt a ver t.

Lemma q_D_step ver t : D ver t <= D ver (t + 1).
Proof.
  unfold D. rewrite !q_cnt_step by assumption.
  pose proof (q_hits_nonneg a ver t). pose proof (q_hits_nonneg b ver t).
  pose proof (q_hits_le1 a ver t Da).
  destruct (Z.eq_dec (q_hits a ver t) 0) as [E|N]; [lia|].
  assert (E1 : q_hits a ver t = 1) by lia. apply (q_hits_one a ver t Da) in E1.
  apply Hab in E1. apply (q_hits_one b ver t Db) in E1. lia.
Qed.

Lemma q_fsize_le ver : q_fsize a ver <= q_fsize b ver.
Proof.
  rewrite <- !q_cnt_top by assumption.
  pose proof (pow2_pos (width ver) (width_nonneg ver)) as HT.
  pose proof (q_mono (D ver) (fun t _ => q_D_step ver t) (2 ^ width ver) ltac:(lia) 0 ltac:(lia)) as M.
  unfold D in M. rewrite Z.add_0_l, !q_cnt_zero in M by assumption. lia.
Qed.

Lemma q_fsize_lt ver x : den b ver x -> ~ den a ver x -> q_fsize a ver < q_fsize b ver.
Proof.
  intros Ib Na. rewrite <- !q_cnt_top by assumption.
  destruct Ib as (k & Hk & Ev & Ix). rewrite Forall_forall in Fb. pose proof (Fb k Hk) as Wk.
  rewrite <- Forall_forall in Fb.
  pose proof (q_nf_nonneg k Wk). pose proof (q_nl_lt k Wk) as Lt. rewrite Ev in Lt.
  assert (Hb1 : q_hits b ver x = 1).
  { apply (q_hits_one b ver x Db). exists k. split; [exact Hk|split; assumption]. }
  assert (Ha0 : q_hits a ver x = 0) by (apply q_hits_zero, Na).
  pose proof (q_mono (D ver) (fun t _ => q_D_step ver t) x ltac:(lia) 0 ltac:(lia)) as M1.
  pose proof (q_mono (D ver) (fun t _ => q_D_step ver t) (2 ^ width ver - (x + 1)) ltac:(lia) (x + 1) ltac:(lia)) as M2.
  replace (x + 1 + (2 ^ width ver - (x + 1))) with (2 ^ width ver) in M2 by lia.
  unfold D in M1, M2. rewrite Z.add_0_l in M1. rewrite !q_cnt_zero in M1 by assumption.
  rewrite !q_cnt_step in M2 by assumption. lia.
Qed.

Lemma q_size_le : set_size a <= set_size b.
Proof.
  rewrite !q_size_sum, !q_sum_split by assumption.
  pose proof (q_fsize_le 4). pose proof (q_fsize_le 6). lia.
Qed.

Lemma q_size_eq_incl : set_size a = set_size b -> q_incl b a.
Proof.
  rewrite !q_size_sum, !q_sum_split by assumption. intros E ver x Ib.
  destruct (q_den_dec a ver x) as [|Na]; [assumption|exfalso].
  pose proof (q_fsize_lt ver x Ib Na) as L.
  pose proof (q_fsize_le 4). pose proof (q_fsize_le 6).
  destruct Ib as (k & Hk & Ev & _). rewrite Forall_forall in Fb. destruct (Fb k Hk) as (Hver & _).
  apply q_valid_ver_cases in Hver. rewrite Ev in Hver. destruct Hver as [Hv|Hv]; rewrite Hv in L; lia.
Qed.
End Card.

(* 3b. size is the cardinality of the denoted set: monotone, and equal exactly when the sets are equal *)
Theorem q_size_card a b : SetInv a -> SetInv b -> q_incl a b ->
  set_size a <= set_size b /\ (set_size a = set_size b <-> q_incl b a).
Proof.
  intros Ia Ib Hab.
  pose proof (q_inv_wf a Ia) as Fa. pose proof (q_inv_wf b Ib) as Fb.
  pose proof (q_inv_disj a Ia) as Da. pose proof (q_inv_disj b Ib) as Db.
  pose proof (q_size_le a b Fa Fb Da Db Hab) as L. split; [exact L|]. split.
  - apply q_size_eq_incl; assumption.
  - intros Hba. pose proof (q_size_le b a Fb Fa Db Da Hba). lia.
Qed.

(* ---------------------------------------------------------------- 4. strict orderings *)
Theorem q_lt a b : SetInv a -> SetInv b ->
  (set_lt a b = true <-> q_incl a b /\ ~ q_incl b a).
Proof.
  intros Ia Ib. unfold set_lt. rewrite andb_true_iff, Z.ltb_lt.
  rewrite (q_subset a b (q_inv_wf a Ia) (q_inv_wf b Ib) (q_inv_nosib b Ib)). fold (q_incl a b). split.
  - intros [L S]. split; [exact S|]. intros Hba. destruct (q_size_card a b Ia Ib S) as [_ E]. apply E in Hba. lia.
  - intros [S N]. split; [|exact S]. destruct (q_size_card a b Ia Ib S) as [L E].
    destruct (Z.eq_dec (set_size a) (set_size b)) as [Eq|Ne]; [apply E in Eq; contradiction|lia].
Qed.

Theorem q_gt a b : SetInv a -> SetInv b ->
  (set_gt a b = true <-> q_incl b a /\ ~ q_incl a b).
Proof.
  intros Ia Ib. unfold set_gt. rewrite Z.gtb_ltb. apply (q_lt b a Ib Ia).
Qed.

(* ---------------------------------------------------------------- 4. dict equality is set equality *)
Lemma q_key_eqb_rng a b : key_eqb a b = true <-> rng_of a = rng_of b.
Proof. rewrite q_key_eqb_iff. unfold rng_of. split; [intros (-> & -> & ->); reflexivity|]. intros E. inversion E. auto. Qed.

Lemma q_dmem_rng k d : dmem k d = true <-> In (rng_of k) (map rng_of d).
Proof.
  rewrite q_dmem_iff, in_map_iff. split; intros (k' & H1 & H2); exists k'.
  - split; [symmetry; apply q_key_eqb_rng, H2|exact H1].
  - split; [exact H2|apply q_key_eqb_rng; symmetry; exact H1].
Qed.

Lemma q_keys_nodup d : Forall wf_net d -> q_disj d -> NoDup (map rng_of d).
Proof.
  induction 1 as [|k d W F IH]; intros Dj; cbn [map]; constructor.
  - intros Hin. apply in_map_iff in Hin. destruct Hin as (y & Ey & Hy).
    destruct Dj as [ND PW]. inversion ND as [|? ? Nk _]; subst.
    apply (PW k y (or_introl eq_refl) (or_intror Hy)); [intros ->; contradiction|].
    unfold rng_of in Ey. inversion Ey as [[E1 E2 E3]]. pose proof (q_nf_le_nl k W).
    exists (nver k), (nf k). split; split; try reflexivity; try lia.
  - apply IH, (q_disj_tail _ _ Dj).
Qed.

Lemma q_rden_incl l l' ver x : incl l l' -> q_rden l ver x -> q_rden l' ver x.
Proof. intros H (r & Hr & I). exists r. split; [apply H, Hr|exact I]. Qed.

Lemma q_net_eq_dec (x y : net) : x = y \/ x <> y.
Proof.
  destruct x as [v1 a1 p1], y as [v2 a2 p2].
  destruct (Z.eq_dec v1 v2) as [->|]; [|right; congruence].
  destruct (Z.eq_dec a1 a2) as [->|]; [|right; congruence].
  destruct (Z.eq_dec p1 p2) as [->|]; [left; reflexivity|right; congruence].
Qed.

(* every key of a is (by key) a key of b when the sets are equal *)
Lemma q_keys_incl a b : SetInv a -> SetInv b -> q_incl a b -> q_incl b a -> incl (map rng_of a) (map rng_of b).
Proof.
  intros Ia Ib Hab Hba r Hr. apply in_map_iff in Hr. destruct Hr as (k & <- & Hk).
  pose proof (q_inv_wf a Ia) as Fa. pose proof (q_inv_wf b Ib) as Fb.
  rewrite Forall_forall in Fa, Fb. pose proof (Fa k Hk) as Wk.
  destruct (q_cover b k (q_inv_wf b Ib) (q_inv_nosib b Ib) Wk) as (k' & Hk' & Ev' & L1 & L2).
  { intros x Ix. apply Hab. exists k. split; assumption. }
  pose proof (Fb k' Hk') as Wk'.
  destruct (q_cover a k' (q_inv_wf a Ia) (q_inv_nosib a Ia) Wk') as (k'' & Hk'' & Ev'' & M1 & M2).
  { intros x Ix. apply Hba. exists k'. split; assumption. }
  pose proof (q_nf_le_nl k Wk) as Lk.
  assert (k = k'').
  { destruct (q_inv_disj a Ia) as [_ PW]. destruct (q_net_eq_dec k k'') as [E|N]; [exact E|exfalso].
    apply (PW k k'' Hk Hk'' N). exists (nver k), (nf k). split; split; try reflexivity; try lia. }
  subst k''. apply in_map_iff. exists k'. split; [|exact Hk']. unfold rng_of. f_equal; [f_equal|]; [exact Ev'|lia|lia].
Qed.

Theorem q_eq a b : SetInv a -> SetInv b ->
  (dict_eqb a b = true <-> forall ver x, den a ver x <-> den b ver x).
Proof.
  intros Ia Ib.
  pose proof (q_keys_nodup a (q_inv_wf a Ia) (q_inv_disj a Ia)) as Na.
  pose proof (q_keys_nodup b (q_inv_wf b Ib) (q_inv_disj b Ib)) as Nb.
  unfold dict_eqb. rewrite andb_true_iff, Nat.eqb_eq, forallb_forall. split.
  - intros [L Hin].
    assert (I1 : incl (map rng_of a) (map rng_of b)).
    { intros r Hr. apply in_map_iff in Hr. destruct Hr as (k & <- & Hk). apply q_dmem_rng, Hin, Hk. }
    assert (I2 : incl (map rng_of b) (map rng_of a)).
    { apply NoDup_length_incl; [exact Na|rewrite !map_length; lia|exact I1]. }
    intros ver x. rewrite <- !q_rden_map. split; apply q_rden_incl; assumption.
  - intros E.
    assert (Hab : q_incl a b) by (intros ver x; apply E).
    assert (Hba : q_incl b a) by (intros ver x; apply E).
    pose proof (q_keys_incl a b Ia Ib Hab Hba) as I1. pose proof (q_keys_incl b a Ib Ia Hba Hab) as I2.
    split.
    + pose proof (NoDup_incl_length Na I1) as L1. pose proof (NoDup_incl_length Nb I2) as L2.
      rewrite !map_length in L1, L2. lia.
    + intros k Hk. apply q_dmem_rng, I1, in_map, Hk.
Qed.
