(* Proofs/C07_sweeps_diff.v — IPSet.difference: stored blocks of the left operand untouched by the right one are
   kept whole (`res`), blocks containing blocks of the right operand are cut into gap ranges (_subtract), which are
   merged and re-split into CIDR blocks.  The resulting dict satisfies SetInv and denotes the set difference. *)
From NV Require Import Base.Tac Base.PyVal Base.Bits Base.Canon Model.Ip Model.Partition Model.Span Model.Merge Model.Sets
  Proofs.C02 Proofs.NetDen Proofs.C07_sweeps Proofs.C07_sweeps_inter Proofs.C07_sweeps_ranges Proofs.C07_sweeps_xor.
From Coq Require Import Sorting.Sorted Sorting.Permutation.
Open Scope Z_scope.

Definition diff_post (own other : list net) (G : list rng) (R : list net) : Prop :=
  Forall rvalid G /\ StronglySorted rbelow G /\ StronglySorted nbelow R /\
  (forall r, In r G -> rng_from own r) /\
  (forall n, In n R -> In n own) /\
  (forall r n ver x, In r G -> In n R -> in_rng r ver x -> in_net n ver x -> False) /\
  (forall ver x, rden G ver x \/ den R ver x <-> den own ver x /\ ~ den other ver x).

Lemma s_from_above oc own' r ver x : Good (oc :: own') -> rng_from own' r -> in_rng r ver x -> in_net oc ver x -> False.
Proof.
  intros G (n & Hn & I) Ir Io. pose proof (Good_head_below _ _ n G Hn). rsimp. lia.
Qed.

Lemma diff_loop_spec : forall fuel own other ranges res, Good own -> Good other ->
  (length own + length other < fuel)%nat ->
  exists G R, diff_loop fuel own other ranges res = Ok (ranges ++ G, fold_left dset R res) /\ diff_post own other G R.
Proof.
  induction fuel as [|f IH]; intros own other ranges res Go Gt Hf; [lia|].
  destruct other as [|tc other'].
  { exists [], own. split; [destruct own; cbn [diff_loop]; rewrite app_nil_r; reflexivity|].
    split; [constructor|split; [constructor|split; [apply Go|split; [intros r []|split; [auto|split; [intros r n ver x []|]]]]]].
    intros ver x. pose proof (den_nil ver x). pose proof (rden_nil ver x). tauto. }
  destruct own as [|oc own'].
  { exists [], []. split; [cbn [diff_loop]; rewrite app_nil_r; reflexivity|].
    split; [constructor|split; [constructor|split; [constructor|split; [intros r []|split; [intros n []|split; [intros r n ver x []|]]]]]].
    intros ver x. pose proof (den_nil ver x). pose proof (rden_nil ver x). tauto. }
  cbn [length] in Hf. cbn [diff_loop].
  pose proof (Good_head _ _ Go) as Ho. pose proof (Good_head _ _ Gt) as Ht.
  pose proof (Good_tail _ _ Go) as Go'. pose proof (Good_tail _ _ Gt) as Gt'.
  assert (XA: forall ver x, in_net oc ver x -> ~ den own' ver x).
  { intros ver x Io. apply s_below_all_not_den with (a := oc); [intros; eapply Good_head_below; eauto|exact Io]. }
  assert (XB: forall ver x, in_net tc ver x -> ~ den other' ver x).
  { intros ver x Io. apply s_below_all_not_den with (a := tc); [intros; eapply Good_head_below; eauto|exact Io]. }
  destruct (s_cmp_case oc tc Ho Ht) as [K E|K N1 I NE|K N1 N2 I NE|K N1 N2 L B|K N1 N2 L B].
  - (* equal blocks: drop both *)
    rewrite K. destruct (IH own' other' ranges res Go' Gt') as (G & R & HG & F & S & SR & M & MR & X & D); [lia|].
    exists G, R. split; [exact HG|]. split; [exact F|split; [exact S|split; [exact SR|split; [|split; [|split; [exact X|]]]]]].
    + intros r Hr. eapply rng_from_incl; [|apply M, Hr]. intros n Hn. now right.
    + intros n Hn. right. auto.
    + intros ver x. rewrite D, !den_cons.
      assert (Eq: in_net oc ver x <-> in_net tc ver x).
      { change (in_rng (rng_of oc) ver x <-> in_rng (rng_of tc) ver x). rewrite E. tauto. }
      specialize (XA ver x). specialize (XB ver x). tauto.
  - (* oc inside tc: oc contributes nothing *)
    rewrite K, N1. destruct (IH own' (tc :: other') ranges res Go' Gt) as (G & R & HG & F & S & SR & M & MR & X & D); [cbn [length]; lia|].
    exists G, R. split; [exact HG|]. split; [exact F|split; [exact S|split; [exact SR|split; [|split; [|split; [exact X|]]]]]].
    + intros r Hr. eapply rng_from_incl; [|apply M, Hr]. intros n Hn. now right.
    + intros n Hn. right. auto.
    + intros ver x. rewrite D, (den_cons oc), (den_cons tc).
      assert (X0: in_net oc ver x -> in_net tc ver x) by (apply s_inside_in, I).
      tauto.
  - (* tc strictly inside oc: cut oc *)
    rewrite K, N1, N2.
    destruct (subtract_spec oc tc other' ranges Ho Gt I) as (ins & rest & G1 & ES & Esub & Hins & Hrest & F1 & S1 & D1).
    rewrite Esub. cbn [bind fst snd].
    rewrite ES in Gt. destruct (Good_app_inv _ _ Gt) as (Gins & Grest & Hcross).
    assert (Len: (length rest < length (tc :: other'))%nat) by (rewrite ES, app_length; cbn [length]; lia).
    cbn [length] in Len.
    destruct (IH own' rest (ranges ++ G1) res Go' Grest) as (G2 & R & HG & F2 & S2 & SR & M2 & MR & X2 & D2); [lia|].
    exists (G1 ++ G2), R. split; [rewrite HG, app_assoc; reflexivity|].
    rewrite Forall_forall in F1.
    split; [|split; [|split; [exact SR|split; [|split; [|split]]]]].
    + apply Forall_app. split; [rewrite Forall_forall; intros r Hr; apply (F1 r Hr)|exact F2].
    + apply SS_app; auto. intros a b Ha Hb. destruct (M2 b Hb) as (n & Hn & Ib).
      eapply s_cross_below; [apply (F1 a Ha)|eapply Good_head_below; eauto|exact Ib].
    + intros r Hr. apply in_app_or in Hr. destruct Hr as [Hr|Hr].
      * exists oc. split; [now left|apply (F1 r Hr)].
      * eapply rng_from_incl; [|apply M2, Hr]. intros n Hn. now right.
    + intros n Hn. right. auto.
    + intros r n ver x Hr Hn Ir In_. apply in_app_or in Hr. destruct Hr as [Hr|Hr]; [|eapply X2; eauto].
      pose proof (Good_head_below _ _ n Go (MR n Hn)). destruct (F1 r Hr) as [_ Ir']. rsimp. lia.
    + intros ver x. rewrite rden_app, D1, (den_cons oc), ES, den_app.
      assert (X0: den (tc :: ins) ver x -> in_net oc ver x).
      { intros (n & Hn & In_). eapply s_inside_in; [apply Hins, Hn|exact In_]. }
      assert (X1: in_net oc ver x -> ~ den rest ver x).
      { intros It. apply s_below_all_not_den with (a := oc); [exact Hrest|exact It]. }
      specialize (XA ver x). specialize (D2 ver x). tauto.
  - (* oc entirely before tc: oc is kept whole *)
    rewrite K, N1, N2, L.
    destruct (IH own' (tc :: other') ranges (dset res oc) Go' Gt) as (G & R & HG & F & S & SR & M & MR & X & D); [cbn [length]; lia|].
    exists G, (oc :: R). split; [exact HG|].
    split; [exact F|split; [exact S|split; [|split; [|split; [|split]]]]].
    + constructor; [exact SR|]. rewrite Forall_forall. intros n Hn. eapply Good_head_below; eauto.
    + intros r Hr. eapply rng_from_incl; [|apply M, Hr]. intros n Hn. now right.
    + intros n [<-|Hn]; [now left|right; auto].
    + intros r n ver x Hr [<-|Hn] Ir In_; [|eapply X; eauto].
      exact (s_from_above oc own' r ver x Go (M r Hr) Ir In_).
    + intros ver x. rewrite (den_cons oc R), (den_cons oc own').
      assert (X2: in_net oc ver x -> ~ den (tc :: other') ver x).
      { intros It. apply s_below_all_not_den with (a := oc); [exact (Good_below_all oc tc other' Gt B)|exact It]. }
      specialize (D ver x). tauto.
  - (* tc entirely before oc: tc removes nothing *)
    rewrite K, N1, N2, L.
    destruct (IH (oc :: own') other' ranges res Go Gt') as (G & R & HG & F & S & SR & M & MR & X & D); [cbn [length]; lia|].
    exists G, R. split; [exact HG|]. split; [exact F|split; [exact S|split; [exact SR|split; [exact M|split; [exact MR|split; [exact X|]]]]]].
    intros ver x. rewrite D, (den_cons tc).
    assert (X2: in_net tc ver x -> ~ den (oc :: own') ver x).
    { intros It. apply s_below_all_not_den with (a := tc); [exact (Good_below_all tc oc own' Go B)|exact It]. }
    tauto.
Qed.

(* IPSet.difference / __sub__ *)
Theorem set_difference_spec : iprange_to_cidrs_spec -> forall a b, SetInv a -> SetInv b ->
  exists r, set_difference a b = Ok r /\ SetInv r /\
    forall ver x, den r ver x <-> den a ver x /\ ~ den b ver x.
Proof.
  intros Spec a b Ia Ib. unfold set_difference.
  pose proof (s_sorted_good a Ia) as Ga. pose proof (s_sorted_good b Ib) as Gb.
  destruct (diff_loop_spec (length a + length b + 1) (sorted a) (sorted b) [] [] Ga Gb)
    as (G & R & HG & F & S & SR & M & MR & X & D).
  { rewrite !s_sorted_length. lia. }
  cbn [app] in HG. rewrite HG. cbn [bind fst snd].
  assert (FR: Forall wfh R).
  { rewrite Forall_forall. intros n Hn. eapply Good_in; [exact Ga|apply MR, Hn]. }
  assert (GR: Good R) by (split; assumption).
  rewrite (s_fold_dset_nil R GR).
  destruct (iter_merged_ranges_spec G (conj F S)) as (Sep & Dm).
  destruct (cidrs_of_ranges_spec Spec _ Sep) as (cs & Ec & Gc & _ & Dc & Nc).
  rewrite Ec. cbn [bind].
  assert (Cross: forall n c, In n R -> In c cs -> ~ overlap n c).
  { intros n c Hn Hc (ver & x & In_ & Ic).
    destruct (proj1 (Dm ver x)) as (r & Hr & Ir); [apply Dc; exists c; auto|].
    eapply X; eauto. }
  assert (P: PD (R ++ cs)) by (apply PD_app; [apply Good_PD, GR|apply Good_PD, Gc|exact Cross]).
  rewrite (s_fold_dset_app cs R (proj1 Gc) P).
  assert (Den: forall ver x, den (R ++ cs) ver x <-> den a ver x /\ ~ den b ver x).
  { intros ver x. rewrite den_app, Dc, Dm. specialize (D ver x). rewrite !s_sorted_den in D. tauto. }
  exists (R ++ cs). split; [reflexivity|]. split; [|exact Den].
  assert (FA: Forall wfh (R ++ cs)) by (apply Forall_app; split; [exact FR|apply Gc]).
  split; [exact FA|split; [exact P|]].
  intros e1 e2 H1 H2 Sb. rewrite Forall_forall in FA.
  assert (Ca: forall ver x, in_net e1 ver x \/ in_net e2 ver x -> den a ver x).
  { intros ver x [I|I]; [apply (Den ver x); exists e1; auto|apply (Den ver x); exists e2; auto]. }
  destruct (s_sib_not_stored a e1 e2 Ia (FA _ H1) (FA _ H2) Sb Ca) as [N1 N2].
  apply in_app_or in H1, H2.
  destruct H1 as [H1|H1]; [apply N1, s_sorted_in, MR, H1|].
  destruct H2 as [H2|H2]; [apply N2, s_sorted_in, MR, H2|].
  exact (Nc e1 e2 H1 H2 Sb).
Qed.
