(* Proofs/GenOk_Src_C03.v — source tie for C03: the definitions regenerated from the text of parse_ip_network,
   IPNetwork.__init__, cidr_abbrev_to_verbose (with its inner classful_prefix) and IPNetwork.__str__ (netaddr/ip/__init__.py;
   Gen/pysrc_parse_gen.v) equal the hand-written model of Model/NetText.v, for both socket back-ends.  parse_ip_network and
   IPNetwork.__init__ are translated once per kind of `addr` (tuple of ints | text | IPNetwork | IPAddress | anything else),
   which is the model's `narg`.  Not translated here (prelude symbols = the model's own functions, Model/SrcPreludeCtor.v):
   module.str_to_int / int_to_str, _ipv4.expand_partial_address, the four prefix <-> mask dictionaries. *)
From Coq Require Import String Ascii.
From NV Require Import Base.Tac Base.PyVal Base.PyStr Model.Ip Model.AddrText Model.NetText Model.SrcPrelude Model.SrcPreludeStr
  Model.SrcPreludeCtor Gen.pysrc_gen Gen.pysrc_ctor_gen Gen.pysrc_parse_gen Proofs.GenOk_Src_Const Proofs.GenOk_Src_C01_ctor.
Import ListNotations.
Open Scope Z_scope.

(* ---- cidr_abbrev_to_verbose ---- *)
Lemma src_classful_int_ok o : src_cidr_abbrev_to_verbose_classful_prefix_int o = classful_prefix_int o.
Proof. reflexivity. Qed.

Lemma src_classful_str_ok o : src_cidr_abbrev_to_verbose_classful_prefix_str o = classful_prefix_str o.
Proof.
  unfold src_cidr_abbrev_to_verbose_classful_prefix_str, classful_prefix_str, py_int_o.
  destruct (py_int 10 o); reflexivity.
Qed.

Lemma classful_int_raises o e : classful_prefix_int o = Raise e -> e = IndexError.
Proof.
  unfold classful_prefix_int. destruct (negb ((0 <=? o) && (o <=? 255))); [intros H; inversion H; reflexivity|].
  destruct ((0 <=? o) && (o <=? 127)); [discriminate|]. destruct ((128 <=? o) && (o <=? 191)); [discriminate|].
  destruct ((192 <=? o) && (o <=? 223)); [discriminate|]. destruct ((224 <=? o) && (o <=? 239)); discriminate.
Qed.

(* the padding loop `for i in range(4 - len(tokens)): tokens.append('0')` *)
Lemma src_pad_loop n (t : list string) : src_cidr_abbrev_to_verbose_loop1 n t = (t ++ repeat "0"%string n)%list.
Proof.
  revert t. induction n as [|n IH]; intros t; cbn [src_cidr_abbrev_to_verbose_loop1 repeat].
  - symmetry. apply app_nil_r.
  - rewrite IH. rewrite <- app_assoc. reflexivity.
Qed.
Lemma src_pad_ok (t : list string) :
  src_cidr_abbrev_to_verbose_loop1 (Z.to_nat (4 - Z.of_nat (List.length t))) t = pad_tokens t.
Proof. rewrite src_pad_loop. unfold pad_tokens. f_equal. f_equal. lia. Qed.

Lemma pad_tokens_nonempty t : pad_tokens t <> [].
Proof.
  unfold pad_tokens. destruct t as [|x t]; [cbn; discriminate|]. cbn [app]. discriminate.
Qed.

Lemma src_cidr_abbrev_ok s : src_cidr_abbrev_to_verbose s = cidr_abbrev_to_verbose s.
Proof.
  unfold src_cidr_abbrev_to_verbose, cidr_abbrev_to_verbose.
  destruct (contains_char ":" s || String.eqb s ""); [reflexivity|].
  unfold py_int_o. destruct (py_int 10 s) as [i|]; cbn [bind].
  - rewrite src_classful_int_ok. destruct (classful_prefix_int i) as [p|e] eqn:E; [reflexivity|].
    apply classful_int_raises in E. subst e. reflexivity.
  - cbn [exn_eqb]. destruct (contains_char "/" s); cbn [bind].
    + unfold py_split1_pair. destruct (split1 "/" s) as [|pa [|pr [|x l]]]; try reflexivity. cbn [bind].
      destruct (py_int 10 pr) as [n|]; cbn [bind]; [|reflexivity].
      destruct ((0 <=? n) && (n <=? 32)); cbn [negb bind exn_eqb]; [|reflexivity].
      cbv zeta. unfold len. rewrite Z.gtb_ltb. destruct (4 <? Z.of_nat (List.length (split "." pa))); [reflexivity|].
      rewrite src_pad_ok. reflexivity.
    + cbv zeta. unfold len. rewrite Z.gtb_ltb. destruct (4 <? Z.of_nat (List.length (split "." s))); [reflexivity|].
      rewrite src_pad_ok. pose proof (pad_tokens_nonempty (split "." s)) as NE.
      destruct (pad_tokens (split "." s)) as [|t0 tl]; [congruence|]. cbn [py_list_head bind].
      rewrite src_classful_str_ok. unfold classful_prefix_str.
      destruct (py_int 10 t0) as [o|]; [|reflexivity].
      destruct (classful_prefix_int o) as [p|e] eqn:E; [reflexivity|].
      apply classful_int_raises in E. subst e. reflexivity.
Qed.

(* ---- parse_ip_network ---- *)
Lemma init_str_fst be s m f ip : init_str be s (Some m) f = Ok ip -> fst ip = m.
Proof.
  unfold init_str. destruct (m =? 4) eqn:E4; cbn [bind].
  - destruct (contains_char "/" s); [discriminate|]. destruct (str_to_int be 4 s f) as [v|e].
    + intros H. inversion H. cbn. apply Z.eqb_eq in E4. lia.
    + destruct e; discriminate.
  - destruct (m =? 6) eqn:E6; cbn [bind]; [|discriminate].
    destruct (contains_char "/" s); [discriminate|]. destruct (str_to_int be 6 s f) as [v|e].
    + intros H. inversion H. cbn. apply Z.eqb_eq in E6. lia.
    + destruct e; discriminate.
Qed.

Lemma src_parse_tuple_ok be m t ip flags :
  src_parse_ip_network_tuple m t ip flags = parse_ip_network be m (ATuple t) ip flags.
Proof.
  unfold src_parse_ip_network_tuple, parse_ip_network.
  destruct t as [|v [|p [|x l]]]; try reflexivity.
  - change (Z.of_nat (List.length [v; p]) =? 2) with true. cbn [negb]. cbv iota.
    unfold max_int. destruct (negb ((0 <=? v) && (v <=? max_int_w (width m)))); [reflexivity|].
    destruct (negb ((0 <=? p) && (p <=? width m))); reflexivity.
  - destruct (Z.of_nat (List.length (v :: p :: x :: l)) =? 2) eqn:E; [|reflexivity].
    apply Z.eqb_eq in E. cbn [List.length] in E. lia.
Qed.

Lemma src_parse_int_ok be m i ip flags : src_parse_ip_network_int m i ip flags = parse_ip_network be m AOther ip flags.
Proof. reflexivity. Qed.

(* the model's text branch, cut after the address: prefix text or mask, range check, NOHOST *)
Definition model_rest (be : backend) (m : Z) (val2 : option string) (value flags : Z) : outcome (Z * Z) :=
  let w := width m in
  do prefixlen <- match val2 with
                  | None => Ok w
                  | Some val2 =>
                      match py_int 10 val2 with
                      | Some n => Ok n
                      | None =>
                          do mask <- match init_str be val2 (Some m) INET_PTON with
                                     | Ok ip => Ok (snd ip)
                                     | Raise ValueError => Raise AddrFormatError
                                     | Raise e => Raise e
                                     end;
                          if is_netmask w mask then netmask_to_prefix w mask
                          else if is_hostmask mask then hostmask_to_prefix w mask
                          else Raise AddrFormatError
                      end
                  end;
  if negb ((0 <=? prefixlen) && (prefixlen <=? w)) then Raise AddrFormatError
  else do value <- apply_nohost w value prefixlen flags; Ok (value, prefixlen).

Definition model_addr (be : backend) (m : Z) (val1 : string) : outcome Z :=
  match init_str be val1 (Some m) INET_PTON with
  | Ok ip => Ok (snd ip)
  | Raise AddrFormatError =>
      if m =? 4 then
        do expanded_addr <- expand_partial_address val1;
        do ip <- init_str be expanded_addr (Some m) INET_PTON;
        Ok (snd ip)
      else Raise AddrFormatError
  | Raise e => Raise e
  end.

Lemma model_parse_str be m a flags :
  parse_ip_network be m (AStr a) false flags =
    (do vals <- (if contains_char "/" a then
                   match split1 "/" a with [val1; val2] => Ok (val1, Some val2) | _ => Raise ValueError end
                 else Ok (a, None));
     do value <- model_addr be m (fst vals);
     model_rest be m (snd vals) value flags).
Proof.
  unfold parse_ip_network, parse_str, model_rest, model_addr. cbn [bind].
  destruct (contains_char "/" a).
  - destruct (split1 "/" a) as [|v1 [|v2 [|x l]]]; try reflexivity. cbn [bind fst snd].
    destruct (init_str be v1 (Some m) INET_PTON) as [ip|e].
    + cbn [bind]. destruct (py_int 10 v2) as [n|]; cbn [bind].
      * destruct (negb ((0 <=? n) && (n <=? width m))); reflexivity.
      * destruct (init_str be v2 (Some m) INET_PTON) as [mk|e]; [|destruct e; reflexivity]. cbn [bind].
        destruct (is_netmask (width m) (snd mk)).
        -- destruct (netmask_to_prefix (width m) (snd mk)) as [p|e]; [|reflexivity]. cbn [bind].
           destruct (negb ((0 <=? p) && (p <=? width m))); reflexivity.
        -- destruct (is_hostmask (snd mk)); [|reflexivity].
           destruct (hostmask_to_prefix (width m) (snd mk)) as [p|e]; [|reflexivity]. cbn [bind].
           destruct (negb ((0 <=? p) && (p <=? width m))); reflexivity.
    + destruct e; try reflexivity. destruct (m =? 4); [|reflexivity].
      destruct (expand_partial_address v1) as [x|e]; [|reflexivity]. cbn [bind].
      destruct (init_str be x (Some m) INET_PTON) as [ip|e]; [|reflexivity]. cbn [bind].
      destruct (py_int 10 v2) as [n|]; cbn [bind].
      * destruct (negb ((0 <=? n) && (n <=? width m))); reflexivity.
      * destruct (init_str be v2 (Some m) INET_PTON) as [mk|e]; [|destruct e; reflexivity]. cbn [bind].
        destruct (is_netmask (width m) (snd mk)).
        -- destruct (netmask_to_prefix (width m) (snd mk)) as [p|e]; [|reflexivity]. cbn [bind].
           destruct (negb ((0 <=? p) && (p <=? width m))); reflexivity.
        -- destruct (is_hostmask (snd mk)); [|reflexivity].
           destruct (hostmask_to_prefix (width m) (snd mk)) as [p|e]; [|reflexivity]. cbn [bind].
           destruct (negb ((0 <=? p) && (p <=? width m))); reflexivity.
  - cbn [bind fst snd]. destruct (init_str be a (Some m) INET_PTON) as [ip|e].
    + cbn [bind]. destruct (negb ((0 <=? width m) && (width m <=? width m))); reflexivity.
    + destruct e; try reflexivity. destruct (m =? 4); [|reflexivity].
      destruct (expand_partial_address a) as [x|e]; [|reflexivity]. cbn [bind].
      destruct (init_str be x (Some m) INET_PTON) as [ip|e]; [|reflexivity]. cbn [bind].
      destruct (negb ((0 <=? width m) && (width m <=? width m))); reflexivity.
Qed.

Ltac tail_tac :=
  match goal with
  | |- context [negb ((0 <=? ?p) && (?p <=? width ?m))] => destruct (negb ((0 <=? p) && (p <=? width m))); reflexivity
  end.

(* goal: <generated text after `value = ip._value`, val2 a string> = model_rest be m (Some v2) value flags *)
Ltac rest_some be m v2 :=
  unfold model_rest, py_int_o; destruct (py_int 10 v2) as [n|]; cbn [bind exn_eqb];
  [ tail_tac
  | rewrite src_init_str_ok; change INET_PTON with 1;
    let mk := fresh "mk" in let e := fresh "e" in let E := fresh "E" in
    destruct (init_str be v2 (Some m) 1) as [mk|e] eqn:E;
    [ apply init_str_fst in E; rewrite E; cbn [bind];
      change (src_IPAddress_is_netmask m (width m) (snd mk)) with (is_netmask (width m) (snd mk));
      change (src_IPAddress_is_hostmask m (width m) (snd mk)) with (is_hostmask (snd mk));
      unfold py_netmask_to_prefix, py_hostmask_to_prefix;
      destruct (is_netmask (width m) (snd mk));
      [ destruct (netmask_to_prefix (width m) (snd mk)) as [p|e']; cbn [bind]; [tail_tac|reflexivity]
      | destruct (is_hostmask (snd mk)); [|reflexivity];
        destruct (hostmask_to_prefix (width m) (snd mk)) as [p|e']; cbn [bind]; [tail_tac|reflexivity] ]
    | destruct e; reflexivity ] ].

Ltac rest_none := unfold model_rest; cbn [bind]; cbv zeta; tail_tac.

Lemma src_parse_str_core be m a flags :
  src_parse_ip_network_str be m a false flags =
    (do vals <- (if contains_char "/" a then
                   match split1 "/" a with [val1; val2] => Ok (val1, Some val2) | _ => Raise ValueError end
                 else Ok (a, None));
     do value <- model_addr be m (fst vals);
     model_rest be m (snd vals) value flags).
Proof.
  unfold src_parse_ip_network_str, model_addr. cbn [bind]. change INET_PTON with 1.
  destruct (contains_char "/" a).
  - unfold py_split1_pair. destruct (split1 "/" a) as [|v1 [|v2 [|x l]]]; try reflexivity. cbn [bind fst snd].
    rewrite src_init_str_ok. destruct (init_str be v1 (Some m) 1) as [ip|e].
    + cbn [bind]. cbv zeta. rest_some be m v2.
    + destruct e; try reflexivity. cbn [exn_eqb]. destruct (m =? 4); [|reflexivity].
      unfold py_expand_partial_address. destruct (expand_partial_address v1) as [x|e]; [|reflexivity]. cbn [bind].
      rewrite src_init_str_ok. destruct (init_str be x (Some m) 1) as [ip|e]; [|reflexivity]. cbn [bind]. cbv zeta.
      rest_some be m v2.
  - cbn [bind fst snd]. cbv zeta. rewrite src_init_str_ok. destruct (init_str be a (Some m) 1) as [ip|e].
    + cbn [bind]. rest_none.
    + destruct e; try reflexivity. cbn [exn_eqb]. destruct (m =? 4); [|reflexivity].
      unfold py_expand_partial_address. destruct (expand_partial_address a) as [x|e]; [|reflexivity]. cbn [bind].
      rewrite src_init_str_ok. destruct (init_str be x (Some m) 1) as [ip|e]; [|reflexivity]. cbn [bind]. rest_none.
Qed.

Lemma src_parse_str_ok be m a ip flags :
  src_parse_ip_network_str be m a ip flags = parse_ip_network be m (AStr a) ip flags.
Proof.
  destruct ip.
  - transitivity (do a' <- cidr_abbrev_to_verbose a; src_parse_ip_network_str be m a' false flags).
    + unfold src_parse_ip_network_str. rewrite src_cidr_abbrev_ok. destruct (cidr_abbrev_to_verbose a); reflexivity.
    + transitivity (do a' <- cidr_abbrev_to_verbose a; parse_ip_network be m (AStr a') false flags).
      * destruct (cidr_abbrev_to_verbose a) as [a'|e]; [|reflexivity]. cbn [bind].
        rewrite src_parse_str_core, model_parse_str. reflexivity.
      * unfold parse_ip_network, parse_str. destruct (cidr_abbrev_to_verbose a); reflexivity.
  - rewrite src_parse_str_core, model_parse_str. reflexivity.
Qed.

(* ---- IPNetwork.__init__ ---- *)
Lemma src_init_net_ok be n ip version flags : src_IPNetwork_init_net n ip version flags = net_init be (ANet n) ip version flags.
Proof.
  unfold src_IPNetwork_init_net, net_init, apply_nohost, has_flag, py_prefix_to_netmask. cbv zeta.
  change NOHOST with 4. destruct (negb (Z.land flags 4 =? 0)); [|reflexivity].
  destruct (prefix_to_netmask (width (nver n)) (nplen n)); reflexivity.
Qed.

Lemma src_init_addr_ok be ver v ip version flags :
  src_IPNetwork_init_addr (ver, v) ip version flags = net_init be (AAddr ver v) ip version flags.
Proof.
  unfold src_IPNetwork_init_addr, net_init, apply_nohost, has_flag, py_prefix_to_netmask. cbv zeta. cbn [fst snd].
  change NOHOST with 4. destruct (negb (Z.land flags 4 =? 0)); [|reflexivity].
  destruct (prefix_to_netmask (width ver) (width ver)); reflexivity.
Qed.

(* the three parsed kinds share the version dispatch and the v4-then-v6 fallback *)
Ltac init_tac H :=
  unfold net_init; change src_ipv4_version with 4; change src_ipv6_version with 6;
  let v := fresh "v" in let e := fresh "e" in
  match goal with |- context [match ?version with Some _ => _ | None => _ end] => is_var version; destruct version as [v|] end;
  [ destruct (v =? 4);
    [ rewrite H; match goal with |- context [parse_ip_network ?be 4 ?a ?ip ?f] =>
                   destruct (parse_ip_network be 4 a ip f) as [[? ?]|?]; reflexivity end
    | destruct (v =? 6); [|reflexivity];
      rewrite H; match goal with |- context [parse_ip_network ?be 6 ?a ?ip ?f] =>
                   destruct (parse_ip_network be 6 a ip f) as [[? ?]|?]; reflexivity end ]
  | cbv zeta; rewrite !H;
    match goal with |- context [parse_ip_network ?be 4 ?a ?ip ?f] =>
      destruct (parse_ip_network be 4 a ip f) as [[? ?]|e]; [reflexivity|];
      destruct e; try reflexivity; cbn [exn_eqb];
      let e2 := fresh "e" in
      destruct (parse_ip_network be 6 a ip f) as [[? ?]|e2]; [reflexivity|destruct e2; reflexivity] end ].

Lemma src_init_tuple_ok be t ip version flags :
  src_IPNetwork_init_tuple t ip version flags = net_init be (ATuple t) ip version flags.
Proof. unfold src_IPNetwork_init_tuple. init_tac (src_parse_tuple_ok be). Qed.

Lemma src_init_str_net_ok be s ip version flags :
  src_IPNetwork_init_str be s ip version flags = net_init be (AStr s) ip version flags.
Proof. unfold src_IPNetwork_init_str. init_tac (src_parse_str_ok be). Qed.

Lemma src_init_other_ok be i ip version flags :
  src_IPNetwork_init_int i ip version flags = net_init be AOther ip version flags.
Proof. unfold src_IPNetwork_init_int. init_tac (src_parse_int_ok be). Qed.

(* ---- IPNetwork.__str__ ---- *)
Lemma src_net_str_ok be ver v p : src_IPNetwork_str be ver (width ver) v p = net_str be {| nver := ver; nval := v; nplen := p |}.
Proof. reflexivity. Qed.

Lemma C03_tie_ok :
  (forall o, src_cidr_abbrev_to_verbose_classful_prefix_int o = classful_prefix_int o) /\
  (forall o, src_cidr_abbrev_to_verbose_classful_prefix_str o = classful_prefix_str o) /\
  (forall s, src_cidr_abbrev_to_verbose s = cidr_abbrev_to_verbose s) /\
  (forall be m t ip flags, src_parse_ip_network_tuple m t ip flags = parse_ip_network be m (ATuple t) ip flags) /\
  (forall be m a ip flags, src_parse_ip_network_str be m a ip flags = parse_ip_network be m (AStr a) ip flags) /\
  (forall be m i ip flags, src_parse_ip_network_int m i ip flags = parse_ip_network be m AOther ip flags) /\
  (forall be t ip version flags, src_IPNetwork_init_tuple t ip version flags = net_init be (ATuple t) ip version flags) /\
  (forall be s ip version flags, src_IPNetwork_init_str be s ip version flags = net_init be (AStr s) ip version flags) /\
  (forall be n ip version flags, src_IPNetwork_init_net n ip version flags = net_init be (ANet n) ip version flags) /\
  (forall be ver v ip version flags,
     src_IPNetwork_init_addr (ver, v) ip version flags = net_init be (AAddr ver v) ip version flags) /\
  (forall be i ip version flags, src_IPNetwork_init_int i ip version flags = net_init be AOther ip version flags) /\
  (forall be ver v p, src_IPNetwork_str be ver (width ver) v p = net_str be {| nver := ver; nval := v; nplen := p |}).
Proof.
  split; [exact src_classful_int_ok|]. split; [exact src_classful_str_ok|]. split; [exact src_cidr_abbrev_ok|].
  split; [exact src_parse_tuple_ok|]. split; [exact src_parse_str_ok|]. split; [exact src_parse_int_ok|].
  split; [exact src_init_tuple_ok|]. split; [exact src_init_str_net_ok|]. split; [exact src_init_net_ok|].
  split; [exact src_init_addr_ok|]. split; [exact src_init_other_ok|exact src_net_str_ok].
Qed.
