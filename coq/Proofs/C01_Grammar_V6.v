(* Proofs/C01_Grammar_V6.v — C01_grammar, IPv6: the executable oracle Std6.pton6_chars accepts exactly the strings
   derivable in the declarative grammar Rfc4291 of Proofs/C01_Grammar.v (PART 1 there), with exactly the derived
   groups — for ALL strings.  Then the value / uniqueness corollaries and the fully explicit reading of the two
   uncompressed forms. *)
From Coq Require Import String Ascii.
From NV Require Import Base.Tac Base.PyVal Base.PyStr Base.PyStrFacts Model.IpText
  Proofs.C01_Chars Proofs.C01_V6 Proofs.C01_V4 Proofs.C01_Fb Proofs.C01_Strict6 Proofs.C01_Grammar.
Open Scope Z_scope.

(* ---------------------------------------------------------------- small list facts *)
Lemma zeros_repeat n : Std6.zeros n = repeat 0 n.
Proof. induction n; cbn; congruence. Qed.

Lemma join_colon_snoc i x : i <> [] -> Std6.join_colon (i ++ [x]) = Std6.join_colon i ++ COLON ++ x.
Proof. intros H. unfold Std6.join_colon. rewrite join_chars_app by (auto; discriminate). reflexivity. Qed.

Lemma snoc_cases {A} (l : list A) : l = [] \/ exists i x, l = i ++ [x].
Proof. destruct l as [|a l] using rev_ind; [now left|right; eauto]. Qed.

(* ---------------------------------------------------------------- Hextets <-> token lists *)
(* from tokens to a derivation (uses nothing about separators) *)
Lemma Hextets_of_toks toks g : toks <> [] -> map_opt Std6.hextet toks = Some g -> Hextets (Std6.join_colon toks) g.
Proof. revert g. induction toks as [|t r IH]; intros g Hne; [congruence|]. cbn [map_opt].
  destruct (Std6.hextet t) as [h|] eqn:E; [|discriminate]. destruct (map_opt Std6.hextet r) as [gr|] eqn:Er; [|discriminate].
  intros Q. injection Q as <-. apply hextet_iff in E. destruct r as [|u r'].
  - cbn [map_opt] in Er. injection Er as <-. now constructor.
  - rewrite join_colon_cons. apply (hextets_cons t h _ gr E). apply IH; [discriminate|reflexivity]. Qed.

(* from a derivation to tokens: the string is the join of non-empty ':'-free tokens that the model reads *)
Lemma Hextets_toks l g : Hextets l g ->
  exists toks, toks <> [] /\ Forall good_tok toks /\ l = Std6.join_colon toks /\ map_opt Std6.hextet toks = Some g.
Proof. induction 1 as [t h H|t h l g H _ (toks & Hne & G & -> & M)].
  - exists [t]. split; [discriminate|]. split; [constructor; [eapply hextet_good; eauto|constructor]|].
    split; [reflexivity|]. apply hextet_iff in H. cbn [map_opt]. now rewrite H.
  - exists (t :: toks). split; [discriminate|]. split; [constructor; [eapply hextet_good; eauto|exact G]|].
    split; [destruct toks as [|u r]; [congruence|reflexivity]|]. apply hextet_iff in H. cbn [map_opt]. now rewrite H, M. Qed.

Lemma map_opt_no_dot_last i x g : map_opt Std6.hextet (i ++ [x]) = Some g -> has_dot x = false.
Proof. rewrite map_opt_app. destruct (map_opt Std6.hextet i); [|discriminate]. cbn [map_opt].
  destruct (Std6.hextet x) as [h|] eqn:E; [|discriminate]. intros _. apply hextet_iff in E.
  now destruct (hextet_tok x h E) as (_ & D & _). Qed.

(* ---------------------------------------------------------------- Groups <-> token lists *)
Lemma Groups_of_toks toks g : toks <> [] -> Std6.groups_tail toks = Some g -> Groups (Std6.join_colon toks) g.
Proof. intros Hne. destruct (snoc_cases toks) as [->|(i & x & ->)]; [congruence|]. rewrite groups_tail_snoc.
  destruct (has_dot x) eqn:Dx.
  - destruct (map_opt Std6.hextet i) as [gi|] eqn:Ei; [|discriminate]. unfold quad_groups.
    destruct (Std4.pton4_chars x) as [[|a [|b [|c [|d [|e r]]]]]|] eqn:Ex; try discriminate.
    intros Q. injection Q as <-. apply grammar_v4 in Ex. destruct i as [|t i'].
    + cbn [map_opt] in Ei. injection Ei as <-. cbn [app]. now apply groups_quad.
    + rewrite join_colon_snoc by discriminate. apply groups_hextets_quad; [|exact Ex].
      apply Hextets_of_toks; [discriminate|exact Ei].
  - intros M. apply groups_hextets. now apply Hextets_of_toks. Qed.

Lemma Groups_toks l g : Groups l g ->
  exists toks, toks <> [] /\ Forall good_tok toks /\ l = Std6.join_colon toks /\ Std6.groups_tail toks = Some g.
Proof. intros [l' g' H|q a b c d H|l' g' q a b c d H Hq].
  - destruct (Hextets_toks _ _ H) as (toks & Hne & G & -> & M). exists toks. repeat (split; [assumption||reflexivity|]).
    destruct (snoc_cases toks) as [->|(i & x & ->)]; [congruence|]. rewrite groups_tail_snoc.
    now rewrite (map_opt_no_dot_last _ _ _ M).
  - destruct (DottedQuad_tok _ _ H) as (N & D & C). apply grammar_v4 in H. exists [q].
    split; [discriminate|]. split; [repeat constructor; assumption|]. split; [reflexivity|].
    change [q] with ([] ++ [q]). rewrite (groups_tail_snoc [] q), D. cbn [map_opt]. unfold quad_groups. now rewrite H.
  - destruct (Hextets_toks _ _ H) as (toks & Hne & G & -> & M). destruct (DottedQuad_tok _ _ Hq) as (N & D & C).
    apply grammar_v4 in Hq. exists (toks ++ [q]). split; [destruct toks; discriminate|].
    split; [apply Forall_app; split; [exact G|repeat constructor; assumption]|].
    split; [now rewrite join_colon_snoc|]. rewrite groups_tail_snoc, D, M. unfold quad_groups. now rewrite Hq. Qed.

(* ---------------------------------------------------------------- the two sides of "::" *)
Lemma join_colon_toks p : Std6.join_colon (colon_toks p) = p.
Proof. unfold colon_toks. destruct p as [|c r]; [reflexivity|]. cbn [is_nil].
  pose proof (join_chars_split_chars ch_colon (c :: r) []) as J. exact J. Qed.

Lemma colon_toks_nil p : colon_toks p = [] -> p = [].
Proof. unfold colon_toks. destruct p as [|c r]; [reflexivity|]. cbn [is_nil]. intros E.
  now apply split_chars_nonempty in E. Qed.

Lemma opt_Hextets_of p gp : map_opt Std6.hextet (colon_toks p) = Some gp -> opt Hextets p gp.
Proof. intros M. destruct (colon_toks p) as [|t r] eqn:E.
  - left. cbn [map_opt] in M. injection M as <-. split; [now apply colon_toks_nil|reflexivity].
  - right. rewrite <- (join_colon_toks p), E. apply Hextets_of_toks; [discriminate|exact M]. Qed.

Lemma opt_Groups_of q gq : Std6.groups_tail (colon_toks q) = Some gq -> opt Groups q gq.
Proof. intros M. destruct (colon_toks q) as [|t r] eqn:E.
  - left. cbn [Std6.groups_tail] in M. injection M as <-. split; [now apply colon_toks_nil|reflexivity].
  - right. rewrite <- (join_colon_toks q), E. apply Groups_of_toks; [discriminate|exact M]. Qed.

Lemma opt_Hextets_toks P gp : opt Hextets P gp ->
  exists toks, Forall good_tok toks /\ P = Std6.join_colon toks /\ map_opt Std6.hextet toks = Some gp.
Proof. intros [[-> ->]|H].
  - exists []. repeat split; constructor.
  - destruct (Hextets_toks _ _ H) as (toks & _ & G & E & M). exists toks. auto. Qed.

Lemma opt_Groups_toks Q gq : opt Groups Q gq ->
  exists toks, Forall good_tok toks /\ Q = Std6.join_colon toks /\ Std6.groups_tail toks = Some gq.
Proof. intros [[-> ->]|H].
  - exists []. repeat split; constructor.
  - destruct (Groups_toks _ _ H) as (toks & _ & G & E & M). exists toks. auto. Qed.

(* ================================================================================================== *)
(** * the oracle accepts exactly the derivable strings, with the derived groups                       *)
(* ================================================================================================== *)
Theorem grammar_v6 l g : Std6.pton6_chars l = Some g <-> Rfc4291 l g.
Proof. split.
  - (* accepted => derivable: re-join what the oracle split *)
    unfold Std6.pton6_chars. pose proof (join_dc_split_dc l []) as J. cbn [rev app] in J.
    destruct (split_dc_chars l []) as [|p [|q [|z zs]]]; try discriminate.
    + cbn [join_chars] in J. subst p.
      destruct (Std6.groups_tail (split_chars ch_colon l [])) as [g0|] eqn:E; [|discriminate].
      destruct (Nat.eqb (List.length g0) 8) eqn:L; [|discriminate]. intros Q. injection Q as <-.
      apply Nat.eqb_eq in L. apply rfc_full; [|exact L].
      pose proof (join_chars_split_chars ch_colon l []) as Jc. cbn [rev app] in Jc. rewrite <- Jc.
      apply Groups_of_toks; [apply split_chars_nonempty|exact E].
    + change (join_chars Std6.dcolon [p; q]) with (p ++ DCOLON ++ q) in J. subst l.
      destruct (map_opt Std6.hextet (colon_toks p)) as [gp|] eqn:Ep; [|discriminate].
      destruct (Std6.groups_tail (colon_toks q)) as [gq|] eqn:Eq; [|discriminate]. cbv zeta.
      destruct (Nat.leb _ 7) eqn:L; [|discriminate]. intros Q. injection Q as <-. apply Nat.leb_le in L.
      rewrite zeros_repeat. apply rfc_compressed; [now apply opt_Hextets_of|now apply opt_Groups_of|exact L].
  - (* derivable => accepted: the oracle's splits recover the tokens *)
    intros [l0 g0 H L|P gp Q gq HP HQ L]; unfold Std6.pton6_chars.
    + destruct (Groups_toks _ _ H) as (toks & Hne & G & -> & M).
      rewrite (split_dc_no_dc _ []) by now apply join_colon_no_dc. cbn [rev app].
      rewrite split_colon_join by assumption. rewrite M. apply Nat.eqb_eq in L. now rewrite L.
    + destruct (opt_Hextets_toks _ _ HP) as (tp & Gp & -> & Mp). destruct (opt_Groups_toks _ _ HQ) as (tq & Gq & -> & Mq).
      change DCOLON with Std6.dcolon.
      rewrite (split_dc_mid _ _ []);
        [|now apply join_colon_no_dc|now apply join_colon_last'|now apply join_colon_no_dc|now apply join_colon_first'].
      cbn [rev app]. rewrite !colon_toks_join by assumption. rewrite Mp, Mq. cbv zeta.
      apply Nat.leb_le in L. rewrite L. now rewrite zeros_repeat. Qed.

Corollary grammar_v6_unique l g g' : Rfc4291 l g -> Rfc4291 l g' -> g = g'.
Proof. intros H H'. apply grammar_v6 in H, H'. congruence. Qed.

(* ================================================================================================== *)
(** * the groups are 8 sixteen-bit words; the address value                                           *)
(* ================================================================================================== *)
Lemma hextet_word t h : hextet t h -> word h.
Proof. intros H. apply hextet_iff in H. destruct (hextet_some t h H) as (_ & _ & _ & R). unfold word. lia. Qed.

Lemma Hextets_words l g : Hextets l g -> Forall word g.
Proof. induction 1; constructor; eauto using hextet_word. Qed.

Lemma quad_words q a b c d : DottedQuad q [a; b; c; d] -> Forall word [a * 256 + b; c * 256 + d].
Proof. intros H. destruct (grammar_v4_value _ _ H) as (a' & b' & c' & d' & E & Ha & Hb & Hc & Hd & _).
  injection E as -> -> -> ->. unfold word. repeat constructor; lia. Qed.

Lemma Groups_words l g : Groups l g -> Forall word g.
Proof. intros [l' g' H|q a b c d H|l' g' q a b c d H Hq].
  - eapply Hextets_words; eauto.
  - eapply quad_words; eauto.
  - apply Forall_app. split; [eapply Hextets_words; eauto|eapply quad_words; eauto]. Qed.

Lemma repeat0_words n : Forall word (repeat 0 n).
Proof. induction n; cbn [repeat]; constructor; [unfold word; lia|assumption]. Qed.

Theorem grammar_v6_words l g : Rfc4291 l g -> List.length g = 8%nat /\ Forall word g.
Proof. intros [l0 g0 H L|P gp Q gq HP HQ L].
  - split; [exact L|eapply Groups_words; eauto].
  - split; [rewrite !app_length, repeat_length; lia|].
    apply Forall_app. split; [destruct HP as [[_ ->]|HP]; [constructor|eapply Hextets_words; eauto]|].
    apply Forall_app. split; [apply repeat0_words|destruct HQ as [[_ ->]|HQ]; [constructor|eapply Groups_words; eauto]]. Qed.

(* the value of the address is the big-endian base-65536 number spelled by the 8 groups *)
Theorem grammar_v6_value l g : Rfc4291 l g ->
  exists g0 g1 g2 g3 g4 g5 g6 g7, g = [g0; g1; g2; g3; g4; g5; g6; g7] /\
    Forall (fun w => 0 <= w < 65536) g /\
    Std6.words_value g = g0 * 2 ^ 112 + g1 * 2 ^ 96 + g2 * 2 ^ 80 + g3 * 2 ^ 64 + g4 * 2 ^ 48 + g5 * 2 ^ 32 + g6 * 2 ^ 16 + g7 /\
    0 <= Std6.words_value g < 2 ^ 128.
Proof. intros H. destruct (grammar_v6_words l g H) as (L & W).
  destruct (length8 g L) as (g0 & g1 & g2 & g3 & g4 & g5 & g6 & g7 & ->).
  exists g0, g1, g2, g3, g4, g5, g6, g7. split; [reflexivity|]. split; [exact W|].
  unfold word in W. repeat match goal with H : Forall _ (_ :: _) |- _ => inversion H; clear H; subst end.
  unfold Std6.words_value. cbn [fold_left].
  change (2 ^ 112) with 5192296858534827628530496329220096. change (2 ^ 96) with 79228162514264337593543950336.
  change (2 ^ 80) with 1208925819614629174706176. change (2 ^ 64) with 18446744073709551616.
  change (2 ^ 48) with 281474976710656. change (2 ^ 32) with 4294967296. change (2 ^ 16) with 65536.
  change (2 ^ 128) with 340282366920938463463374607431768211456. split; lia. Qed.

(* ================================================================================================== *)
(** * the explicit reading: the two uncompressed forms written out token by token                     *)
(* ================================================================================================== *)
Lemma Hextets_length_pos l g : Hextets l g -> g <> [].
Proof. destruct 1; discriminate. Qed.

Lemma Hextets_inv_cons l h g : Hextets l (h :: g) -> g <> [] ->
  exists t l', l = t ++ COLON ++ l' /\ hextet t h /\ Hextets l' g.
Proof. intros H Hne. inversion H; subst; [congruence|]. eauto. Qed.

Lemma Hextets_inv_one l h : Hextets l [h] -> hextet l h.
Proof. intros H. inversion H; subst; [assumption|]. match goal with H : Hextets _ [] |- _ => now apply Hextets_length_pos in H end. Qed.

(* x:x:x:x:x:x:x:x *)
Definition Form1 (l : list ascii) (g : list Z) : Prop :=
  exists t1 t2 t3 t4 t5 t6 t7 t8 g1 g2 g3 g4 g5 g6 g7 g8,
    hextet t1 g1 /\ hextet t2 g2 /\ hextet t3 g3 /\ hextet t4 g4 /\ hextet t5 g5 /\ hextet t6 g6 /\ hextet t7 g7 /\ hextet t8 g8 /\
    l = t1 ++ COLON ++ t2 ++ COLON ++ t3 ++ COLON ++ t4 ++ COLON ++ t5 ++ COLON ++ t6 ++ COLON ++ t7 ++ COLON ++ t8 /\
    g = [g1; g2; g3; g4; g5; g6; g7; g8].

(* x:x:x:x:x:x:d.d.d.d *)
Definition Form3 (l : list ascii) (g : list Z) : Prop :=
  exists t1 t2 t3 t4 t5 t6 q g1 g2 g3 g4 g5 g6 a b c d,
    hextet t1 g1 /\ hextet t2 g2 /\ hextet t3 g3 /\ hextet t4 g4 /\ hextet t5 g5 /\ hextet t6 g6 /\ DottedQuad q [a; b; c; d] /\
    l = t1 ++ COLON ++ t2 ++ COLON ++ t3 ++ COLON ++ t4 ++ COLON ++ t5 ++ COLON ++ t6 ++ COLON ++ q /\
    g = [g1; g2; g3; g4; g5; g6; a * 256 + b; c * 256 + d].

(* P::Q with P = h1:...:hk (k >= 0), Q = m >= 0 groups, the last possibly a dotted quad, k + m <= 7 *)
Definition Form2 (l : list ascii) (g : list Z) : Prop :=
  exists P gp Q gq, opt Hextets P gp /\ opt Groups Q gq /\ (List.length gp + List.length gq <= 7)%nat /\
    l = P ++ DCOLON ++ Q /\ g = gp ++ repeat 0 (8 - (List.length gp + List.length gq)) ++ gq.

Lemma Form1_intro t1 t2 t3 t4 t5 t6 t7 t8 g1 g2 g3 g4 g5 g6 g7 g8 :
  hextet t1 g1 -> hextet t2 g2 -> hextet t3 g3 -> hextet t4 g4 -> hextet t5 g5 -> hextet t6 g6 -> hextet t7 g7 -> hextet t8 g8 ->
  Form1 (t1 ++ COLON ++ t2 ++ COLON ++ t3 ++ COLON ++ t4 ++ COLON ++ t5 ++ COLON ++ t6 ++ COLON ++ t7 ++ COLON ++ t8)
        [g1; g2; g3; g4; g5; g6; g7; g8].
Proof. intros. exists t1, t2, t3, t4, t5, t6, t7, t8, g1, g2, g3, g4, g5, g6, g7, g8. repeat (split; [assumption|]). split; reflexivity. Qed.

Lemma Form3_intro t1 t2 t3 t4 t5 t6 q g1 g2 g3 g4 g5 g6 a b c d :
  hextet t1 g1 -> hextet t2 g2 -> hextet t3 g3 -> hextet t4 g4 -> hextet t5 g5 -> hextet t6 g6 -> DottedQuad q [a; b; c; d] ->
  Form3 (t1 ++ COLON ++ t2 ++ COLON ++ t3 ++ COLON ++ t4 ++ COLON ++ t5 ++ COLON ++ t6 ++ COLON ++ q)
        [g1; g2; g3; g4; g5; g6; a * 256 + b; c * 256 + d].
Proof. intros. exists t1, t2, t3, t4, t5, t6, q, g1, g2, g3, g4, g5, g6, a, b, c, d. repeat (split; [assumption|]). split; reflexivity. Qed.

Ltac hex_step H :=
  let t := fresh "t" in let l := fresh "l" in let E := fresh "E" in let Ht := fresh "Ht" in
  apply Hextets_inv_cons in H; [destruct H as (t & l & E & Ht & H); subst|discriminate].

Theorem grammar_v6_forms l g : Rfc4291 l g <-> Form1 l g \/ Form3 l g \/ Form2 l g.
Proof. split.
  - intros [l0 g0 H L|P gp Q gq HP HQ L].
    + destruct H as [l' g' H|q a b c d H|l' g' q a b c d H Hq].
      * left. destruct (length8 g' L) as (g1 & g2 & g3 & g4 & g5 & g6 & g7 & g8 & ->).
        do 7 hex_step H. apply Hextets_inv_one in H. now apply Form1_intro.
      * discriminate L.
      * right; left. rewrite app_length in L. cbn [List.length] in L.
        destruct g' as [|g1 [|g2 [|g3 [|g4 [|g5 [|g6 [|g7 r]]]]]]]; cbn [List.length] in L; try lia.
        do 5 hex_step H. apply Hextets_inv_one in H. rewrite <- !app_assoc. cbn [app]. now apply Form3_intro.
    + right; right. unfold Form2. exists P, gp, Q, gq. repeat (split; [assumption|]). split; reflexivity.
  - intros [H|[H|H]].
    + destruct H as (t1 & t2 & t3 & t4 & t5 & t6 & t7 & t8 & g1 & g2 & g3 & g4 & g5 & g6 & g7 & g8 &
                     H1 & H2 & H3 & H4 & H5 & H6 & H7 & H8 & -> & ->).
      apply rfc_full; [|reflexivity]. apply groups_hextets. repeat (apply hextets_cons; [assumption|]). now apply hextets_one.
    + destruct H as (t1 & t2 & t3 & t4 & t5 & t6 & q & g1 & g2 & g3 & g4 & g5 & g6 & a & b & c & d &
                     H1 & H2 & H3 & H4 & H5 & H6 & Hq & -> & ->).
      apply rfc_full; [|reflexivity].
      change [g1; g2; g3; g4; g5; g6; a * 256 + b; c * 256 + d] with ([g1; g2; g3; g4; g5; g6] ++ [a * 256 + b; c * 256 + d]).
      replace (t1 ++ COLON ++ t2 ++ COLON ++ t3 ++ COLON ++ t4 ++ COLON ++ t5 ++ COLON ++ t6 ++ COLON ++ q)
        with ((t1 ++ COLON ++ t2 ++ COLON ++ t3 ++ COLON ++ t4 ++ COLON ++ t5 ++ COLON ++ t6) ++ COLON ++ q)
        by (rewrite <- !app_assoc; reflexivity).
      apply groups_hextets_quad; [|exact Hq]. repeat (apply hextets_cons; [assumption|]). now apply hextets_one.
    + destruct H as (P & gp & Q & gq & HP & HQ & L & -> & ->). now apply rfc_compressed. Qed.
