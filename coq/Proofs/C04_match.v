(* Proofs/C04_match.v — sorted() over sort_key, and the three matching helpers with their early exits. *)
From Coq Require Import Sorting.Sorted Sorting.Permutation.
From NV Require Import Base.Tac Base.PyVal Base.Bits Model.Ip Model.Contains Proofs.C02 Proofs.C04.
Open Scope Z_scope.

(* ---------- the order used by sorted() ---------- *)
Definition key_le (a b : Z * Z * Z * Z) : Prop := key_lt b a = false.
Definition net_le (W : Z -> Z) (a b : net) : Prop := net_lt W b a = false.

Lemma key_lt_iff a1 a2 a3 a4 b1 b2 b3 b4 :
  key_lt (a1, a2, a3, a4) (b1, b2, b3, b4) = true <->
  a1 < b1 \/ (a1 = b1 /\ (a2 < b2 \/ (a2 = b2 /\ (a3 < b3 \/ (a3 = b3 /\ a4 < b4))))).
Proof.
  unfold key_lt.
  destruct (Z.eqb_spec a1 b1); cbn [negb]; [|rewrite Z.ltb_lt; lia].
  destruct (Z.eqb_spec a2 b2); cbn [negb]; [|rewrite Z.ltb_lt; lia].
  destruct (Z.eqb_spec a3 b3); cbn [negb]; rewrite Z.ltb_lt; lia.
Qed.

Lemma key_le_iff a1 a2 a3 a4 b1 b2 b3 b4 :
  key_le (a1, a2, a3, a4) (b1, b2, b3, b4) <->
  a1 < b1 \/ (a1 = b1 /\ (a2 < b2 \/ (a2 = b2 /\ (a3 < b3 \/ (a3 = b3 /\ a4 <= b4))))).
Proof.
  unfold key_le. rewrite <- not_true_iff_false, key_lt_iff. lia.
Qed.

Lemma key_le_refl a : key_le a a.
Proof. destruct a as [[[a1 a2] a3] a4]. apply key_le_iff. lia. Qed.

Lemma key_le_trans a b c : key_le a b -> key_le b c -> key_le a c.
Proof.
  destruct a as [[[a1 a2] a3] a4], b as [[[b1 b2] b3] b4], c as [[[c1 c2] c3] c4].
  rewrite !key_le_iff. lia.
Qed.

Lemma key_lt_le a b : key_lt a b = true -> key_le a b.
Proof.
  destruct a as [[[a1 a2] a3] a4], b as [[[b1 b2] b3] b4].
  rewrite key_lt_iff, key_le_iff. lia.
Qed.

Lemma key_le_antisym a b : key_le a b -> key_le b a -> a = b.
Proof.
  destruct a as [[[a1 a2] a3] a4], b as [[[b1 b2] b3] b4].
  rewrite !key_le_iff. intros H1 H2.
  assert (a1 = b1 /\ a2 = b2 /\ a3 = b3 /\ a4 = b4) as (-> & -> & -> & ->) by lia. reflexivity.
Qed.

Lemma net_le_refl W a : net_le W a a.
Proof. apply key_le_refl. Qed.
Lemma net_le_trans W a b c : net_le W a b -> net_le W b c -> net_le W a c.
Proof. apply key_le_trans. Qed.
Lemma net_lt_le W a b : net_lt W a b = true -> net_le W a b.
Proof. apply key_lt_le. Qed.

(* the sort key determines the object: value = first + host_bits *)
Lemma sort_key_inj W a b : sort_key W a = sort_key W b -> a = b.
Proof.
  destruct a as [va xa pa], b as [vb xb pb]. unfold sort_key. cbn [nver nval nplen].
  intros E. injection E as E1 E2 E3 E4. subst vb.
  assert (pa = pb) by lia. subst pb.
  assert (xa = xb) by lia. subst xb. reflexivity.
Qed.

Lemma net_le_antisym W a b : net_le W a b -> net_le W b a -> a = b.
Proof. intros H1 H2. apply (sort_key_inj W). apply key_le_antisym; assumption. Qed.

(* ---------- insertion sort facts ---------- *)
Lemma insert_perm W x l : Permutation (insert_sorted W x l) (x :: l).
Proof.
  induction l as [|y t IH]; cbn [insert_sorted]; [reflexivity|].
  destruct (net_lt W y x); [|reflexivity].
  rewrite IH. apply perm_swap.
Qed.

Lemma py_sorted_perm W l : Permutation (py_sorted W l) l.
Proof.
  induction l as [|x t IH]; cbn [py_sorted]; [reflexivity|].
  rewrite insert_perm. constructor. assumption.
Qed.

Lemma insert_sorted_sorted W x l :
  StronglySorted (net_le W) l -> StronglySorted (net_le W) (insert_sorted W x l).
Proof.
  induction 1 as [|y t St IH Hall]; cbn [insert_sorted].
  - repeat constructor.
  - destruct (net_lt W y x) eqn:E.
    + constructor; [assumption|].
      assert (P : Permutation (insert_sorted W x t) (x :: t)) by apply insert_perm.
      apply (Permutation_Forall (Permutation_sym P)).
      constructor; [apply net_lt_le; assumption|assumption].
    + constructor; [constructor; assumption|].
      constructor; [exact E|].
      eapply Forall_impl; [|exact Hall]. intros z Hz. eapply net_le_trans; [exact E|exact Hz].
Qed.

Lemma py_sorted_sorted W l : StronglySorted (net_le W) (py_sorted W l).
Proof.
  induction l as [|x t IH]; cbn [py_sorted]; [constructor|].
  apply insert_sorted_sorted; assumption.
Qed.

(* any correct sort (ascending permutation) returns this list: ties cannot occur between different objects *)
Lemma sorted_unique W l1 : forall l2,
  StronglySorted (net_le W) l1 -> StronglySorted (net_le W) l2 -> Permutation l1 l2 -> l1 = l2.
Proof.
  induction l1 as [|a t IH]; intros l2 S1 S2 P.
  - apply Permutation_nil in P. subst; reflexivity.
  - destruct l2 as [|b u]; [apply Permutation_sym, Permutation_nil in P; discriminate|].
    apply StronglySorted_inv in S1 as [S1 F1]. apply StronglySorted_inv in S2 as [S2 F2].
    assert (a = b).
    { assert (Ia : In a (b :: u)) by (eapply Permutation_in; [exact P|left; reflexivity]).
      assert (Ib : In b (a :: t)) by (eapply Permutation_in; [apply Permutation_sym; exact P|left; reflexivity]).
      rewrite Forall_forall in F1, F2.
      destruct Ia as [->|Ia]; [reflexivity|]. destruct Ib as [->|Ib]; [reflexivity|].
      apply (net_le_antisym W); [apply F1|apply F2]; assumption. }
    subst b. f_equal. apply IH; try assumption. eapply Permutation_cons_inv; exact P.
Qed.

Lemma py_sorted_unique W l l' :
  Permutation l' l -> StronglySorted (net_le W) l' -> l' = py_sorted W l.
Proof.
  intros P S. apply (sorted_unique W); [assumption|apply py_sorted_sorted|].
  rewrite P. apply Permutation_sym, py_sorted_perm.
Qed.

Lemma py_sorted_spec W l :
  Permutation (py_sorted W l) l /\ StronglySorted (net_le W) (py_sorted W l) /\
  forall l', Permutation l' l -> StronglySorted (net_le W) l' -> l' = py_sorted W l.
Proof. split; [apply py_sorted_perm|]. split; [apply py_sorted_sorted|]. intros l'. apply py_sorted_unique. Qed.

(* ---------- well-formed candidates, matching ---------- *)
Definition wf_net_w (W : Z -> Z) (n : net) : Prop := wf_obj W (as_obj n).
Definition matchb (W : Z -> Z) (ipver ipv : Z) (c : net) : bool := insideb W (Addr ipver ipv) (as_obj c).

Lemma ip_in_spec W ipver ipv c : wf_obj W (Addr ipver ipv) -> wf_net_w W c ->
  ip_in W ipver ipv c = Ok (matchb W ipver ipv c).
Proof. intros. apply net_contains_spec; assumption. Qed.

Lemma py_sorted_wf W l : Forall (wf_net_w W) l -> Forall (wf_net_w W) (py_sorted W l).
Proof. intros. eapply Permutation_Forall; [apply Permutation_sym, py_sorted_perm|assumption]. Qed.

(* what the sort order says about the blocks *)
Lemma net_le_blocks W a b : wf_net_w W a -> wf_net_w W b -> net_le W a b ->
  nver a < nver b \/
  (nver a = nver b /\ lo W (as_obj a) <= lo W (as_obj b) /\
   (lo W (as_obj a) = lo W (as_obj b) -> nplen a <= nplen b)).
Proof.
  unfold wf_net_w, net_le, net_lt, as_obj. cbn [wf_obj lo].
  intros [Ha1 Ha2] [Hb1 Hb2] H. fold (key_le (sort_key W a) (sort_key W b)) in H.
  unfold sort_key in H. fold (net_first (W (nver a)) (nval a) (nplen a)) in H.
  fold (net_first (W (nver b)) (nval b) (nplen b)) in H.
  rewrite !net_first_eq in H by assumption. apply key_le_iff in H.
  unfold floor2 in H. lia.
Qed.

Lemma network_of_inside W m c : wf_net_w W m -> wf_net_w W c ->
  net_contains W (nver m) (nval m) (nplen m) (network_of W c) =
  Ok ((nver c =? nver m) && (lo W (as_obj m) <=? lo W (as_obj c)) && (lo W (as_obj c) <=? hi W (as_obj m))).
Proof.
  intros Hm Hc. unfold network_of.
  assert (Hn : wf_obj W (Addr (nver c) (net_network (W (nver c)) (nval c) (nplen c)))).
  { destruct Hc as [Hc1 Hc2]. cbn [wf_obj]. rewrite net_network_eq by assumption.
    pose proof (first_last_in_range (W (nver c)) (nval c) (nplen c) Hc1 Hc2).
    pose proof (pow2_pos (W (nver c) - nplen c) ltac:(lia)). lia. }
  rewrite net_contains_spec by assumption.
  unfold insideb. cbn [over lo hi as_obj].
  destruct Hc as [Hc1 Hc2]. rewrite net_network_eq by assumption. reflexivity.
Qed.

(* the early exit is sound: once a candidate's network address is outside the last match, nothing later matches *)
Lemma break_sound W ipver ipv m c d :
  wf_net_w W m -> wf_net_w W c -> wf_net_w W d ->
  matchb W ipver ipv m = true -> net_le W m c -> net_le W c d ->
  (nver c =? nver m) && (lo W (as_obj m) <=? lo W (as_obj c)) && (lo W (as_obj c) <=? hi W (as_obj m)) = false ->
  matchb W ipver ipv d = false.
Proof.
  intros Hm Hc Hd Mm Lmc Lcd Out.
  pose proof (net_le_blocks W m c Hm Hc Lmc) as B1.
  pose proof (net_le_blocks W c d Hc Hd Lcd) as B2.
  unfold matchb, insideb in *. cbn [over lo hi] in *.
  apply not_true_iff_false. intros Md.
  apply not_true_iff_false in Out. apply Out. clear Out.
  rewrite !andb_true_iff, Z.eqb_eq, !Z.leb_le in *.
  unfold as_obj in *. cbn [over lo hi] in *. lia.
Qed.

Lemma last_opt_app {A} (l : list A) x : last_opt (l ++ [x]) = Some x.
Proof.
  induction l as [|y t IH]; [reflexivity|].
  cbn [app last_opt]. destruct (t ++ [x]) eqn:E; [destruct t; discriminate|]. exact IH.
Qed.

Lemma filter_none {A} (f : A -> bool) l : Forall (fun x => f x = false) l -> filter f l = [].
Proof. induction 1 as [|x t Hx _ IH]; cbn; [reflexivity|]. rewrite Hx. assumption. Qed.

(* ---------- all_matching_cidrs ---------- *)
Lemma scan_all_spec W ipver ipv : wf_obj W (Addr ipver ipv) ->
  forall t acc,
    StronglySorted (net_le W) t -> Forall (wf_net_w W) t ->
    (forall m, last_opt acc = Some m ->
       wf_net_w W m /\ matchb W ipver ipv m = true /\ Forall (net_le W m) t) ->
    scan_all W ipver ipv t acc = Ok (acc ++ filter (matchb W ipver ipv) t).
Proof.
  intros Hip. induction t as [|c t IH]; intros acc St Wf Inv.
  - cbn. rewrite app_nil_r. reflexivity.
  - apply StronglySorted_inv in St as [St Fc]. inversion Wf as [|? ? Wc Wt]; subst.
    cbn [scan_all filter]. rewrite ip_in_spec by assumption. cbn [bind].
    destruct (matchb W ipver ipv c) eqn:Mc.
    + rewrite IH; try assumption.
      * rewrite <- app_assoc. reflexivity.
      * intros m Hm. rewrite last_opt_app in Hm. injection Hm as <-. auto.
    + destruct (last_opt acc) as [m|] eqn:La.
      * destruct (Inv m eq_refl) as (Wm & Mm & Fm).
        inversion Fm as [|? ? Lmc Fmt]; subst.
        rewrite network_of_inside by assumption. cbn [bind].
        destruct ((nver c =? nver m) && (lo W (as_obj m) <=? lo W (as_obj c)) &&
                  (lo W (as_obj c) <=? hi W (as_obj m))) eqn:Ins; cbn [negb].
        -- apply IH; try assumption. intros m' Hm'. rewrite La in Hm'. injection Hm' as <-. auto.
        -- (* break *)
           rewrite filter_none; [rewrite app_nil_r; reflexivity|].
           rewrite Forall_forall in Fc, Wt. apply Forall_forall. intros d Hd.
           eapply break_sound with (m := m) (c := c); eauto.
      * apply IH; try assumption. intros m Hm. rewrite La in Hm. discriminate.
Qed.

Lemma all_matching_eq W ipver ipv cs : wf_obj W (Addr ipver ipv) -> Forall (wf_net_w W) cs ->
  all_matching_cidrs W ipver ipv cs = Ok (filter (matchb W ipver ipv) (py_sorted W cs)).
Proof.
  intros Hip Wf. unfold all_matching_cidrs.
  rewrite (scan_all_spec W ipver ipv Hip); [reflexivity|apply py_sorted_sorted|apply py_sorted_wf; assumption|].
  intros m Hm; discriminate.
Qed.

(* ---------- smallest_matching_cidr ---------- *)
Lemma last_opt_cons_some {A} (x : A) l : last_opt (x :: l) = match last_opt l with Some y => Some y | None => Some x end.
Proof.
  destruct l as [|y t]; [reflexivity|].
  change (last_opt (x :: y :: t)) with (last_opt (y :: t)).
  destruct (last_opt (y :: t)) eqn:E; [reflexivity|].
  exfalso. revert y E. induction t as [|z t IH]; intros y E; [discriminate|].
  apply (IH z). exact E.
Qed.

Lemma scan_smallest_spec W ipver ipv : wf_obj W (Addr ipver ipv) ->
  forall t mat,
    StronglySorted (net_le W) t -> Forall (wf_net_w W) t ->
    (forall m, mat = Some m ->
       wf_net_w W m /\ matchb W ipver ipv m = true /\ Forall (net_le W m) t) ->
    scan_smallest W ipver ipv t mat =
    Ok (match last_opt (filter (matchb W ipver ipv) t) with Some x => Some x | None => mat end).
Proof.
  intros Hip. induction t as [|c t IH]; intros mat St Wf Inv.
  - reflexivity.
  - apply StronglySorted_inv in St as [St Fc]. inversion Wf as [|? ? Wc Wt]; subst.
    cbn [scan_smallest filter]. rewrite ip_in_spec by assumption. cbn [bind].
    destruct (matchb W ipver ipv c) eqn:Mc.
    + rewrite IH; try assumption.
      * rewrite last_opt_cons_some. destruct (last_opt (filter (matchb W ipver ipv) t)); reflexivity.
      * intros m Hm. injection Hm as <-. auto.
    + destruct mat as [m|].
      * destruct (Inv m eq_refl) as (Wm & Mm & Fm).
        inversion Fm as [|? ? Lmc Fmt]; subst.
        rewrite network_of_inside by assumption. cbn [bind].
        destruct ((nver c =? nver m) && (lo W (as_obj m) <=? lo W (as_obj c)) &&
                  (lo W (as_obj c) <=? hi W (as_obj m))) eqn:Ins; cbn [negb].
        -- apply IH; try assumption. intros m' Hm'. injection Hm' as <-. auto.
        -- rewrite filter_none; [reflexivity|].
           rewrite Forall_forall in Fc, Wt. apply Forall_forall. intros d Hd.
           eapply break_sound with (m := m) (c := c); eauto.
      * apply IH; try assumption. intros m Hm. discriminate.
Qed.

Lemma smallest_matching_eq W ipver ipv cs : wf_obj W (Addr ipver ipv) -> Forall (wf_net_w W) cs ->
  smallest_matching_cidr W ipver ipv cs = Ok (last_opt (filter (matchb W ipver ipv) (py_sorted W cs))).
Proof.
  intros Hip Wf. unfold smallest_matching_cidr.
  rewrite (scan_smallest_spec W ipver ipv Hip); [|apply py_sorted_sorted|apply py_sorted_wf; assumption|intros; discriminate].
  destruct (last_opt _); reflexivity.
Qed.

(* ---------- largest_matching_cidr ---------- *)
Lemma scan_largest_spec W ipver ipv : wf_obj W (Addr ipver ipv) ->
  forall t, Forall (wf_net_w W) t ->
    scan_largest W ipver ipv t = Ok (hd_error (filter (matchb W ipver ipv) t)).
Proof.
  intros Hip. induction 1 as [|c t Wc Wt IH]; [reflexivity|].
  cbn [scan_largest filter]. rewrite ip_in_spec by assumption. cbn [bind].
  destruct (matchb W ipver ipv c); [reflexivity|assumption].
Qed.

Lemma largest_matching_eq W ipver ipv cs : wf_obj W (Addr ipver ipv) -> Forall (wf_net_w W) cs ->
  largest_matching_cidr W ipver ipv cs = Ok (hd_error (filter (matchb W ipver ipv) (py_sorted W cs))).
Proof. intros Hip Wf. apply scan_largest_spec; [assumption|apply py_sorted_wf; assumption]. Qed.

(* ---------- the result is exactly the matching candidates, least -> most specific ---------- *)
Lemma filter_perm {A} (f : A -> bool) l l' : Permutation l l' -> Permutation (filter f l) (filter f l').
Proof.
  induction 1; cbn.
  - constructor.
  - destruct (f x); [constructor|]; assumption.
  - destruct (f x), (f y); try reflexivity. apply perm_swap.
  - etransitivity; eassumption.
Qed.

(* b is at least as specific as a: b's block lies inside a's, and its prefix is not shorter *)
Definition refines (W : Z -> Z) (a b : net) : Prop :=
  insideb W (as_obj b) (as_obj a) = true /\ nplen a <= nplen b.

Lemma matches_chain W ipver ipv a b : wf_net_w W a -> wf_net_w W b ->
  matchb W ipver ipv a = true -> matchb W ipver ipv b = true -> net_le W a b -> refines W a b.
Proof.
  intros Ha Hb Ma Mb L.
  pose proof (net_le_blocks W a b Ha Hb L) as B.
  unfold refines, matchb, insideb, wf_net_w, as_obj in *. cbn [over lo hi wf_obj] in *.
  rewrite !andb_true_iff, !Z.eqb_eq, !Z.leb_le in *.
  destruct Ha as [Ha1 Ha2], Hb as [Hb1 Hb2].
  destruct Ma as [[Va Ma1] Ma2], Mb as [[Vb Mb1] Mb2].
  assert (Ev : nver a = nver b) by lia. rewrite <- Ev in *.
  set (w := W (nver a)) in *.
  set (ha := w - nplen a) in *. set (hb := w - nplen b) in *.
  change (nval a - nval a mod 2 ^ ha) with (floor2 (nval a) ha) in *.
  change (nval b - nval b mod 2 ^ hb) with (floor2 (nval b) hb) in *.
  assert (Ea : floor2 ipv ha = floor2 (nval a) ha) by (apply in_block_iff; lia).
  assert (Eb : floor2 ipv hb = floor2 (nval b) hb) by (apply in_block_iff; lia).
  rewrite <- Ea, <- Eb in *.
  assert (P : nplen a <= nplen b).
  { destruct (Z_le_gt_dec (nplen a) (nplen b)) as [|G]; [assumption|].
    pose proof (block_nested ipv ha hb ltac:(unfold ha, hb; lia)). lia. }
  pose proof (block_nested ipv hb ha ltac:(unfold ha, hb; lia)).
  split; [|assumption]. split; [split|]; lia.
Qed.

Lemma filter_sorted_chain W ipver ipv l :
  StronglySorted (net_le W) l -> Forall (wf_net_w W) l ->
  StronglySorted (refines W) (filter (matchb W ipver ipv) l).
Proof.
  induction 1 as [|a t St IH Fa]; intros Wf; cbn [filter]; [constructor|].
  inversion Wf as [|? ? Wa Wt]; subst.
  destruct (matchb W ipver ipv a) eqn:Ma; [|apply IH; assumption].
  constructor; [apply IH; assumption|].
  apply Forall_forall. intros b Hb. apply filter_In in Hb as [Ib Mb].
  rewrite Forall_forall in Fa, Wt.
  apply (matches_chain W ipver ipv); auto.
Qed.

Lemma all_matching_full W ipver ipv cs : wf_obj W (Addr ipver ipv) -> Forall (wf_net_w W) cs ->
  let R := filter (matchb W ipver ipv) (py_sorted W cs) in
  all_matching_cidrs W ipver ipv cs = Ok R /\
  Permutation R (filter (matchb W ipver ipv) cs) /\
  (forall c, In c R <-> In c cs /\ insideb W (Addr ipver ipv) (as_obj c) = true) /\
  StronglySorted (refines W) R /\
  largest_matching_cidr W ipver ipv cs = Ok (hd_error R) /\
  smallest_matching_cidr W ipver ipv cs = Ok (last_opt R) /\
  (hd_error R = None <-> R = []) /\ (last_opt R = None <-> R = []) /\
  (R = [] <-> forall c, In c cs -> insideb W (Addr ipver ipv) (as_obj c) = false).
Proof.
  intros Hip Wf R.
  assert (HP : Permutation R (filter (matchb W ipver ipv) cs)) by (apply filter_perm, py_sorted_perm).
  assert (HIn : forall c, In c R <-> In c cs /\ insideb W (Addr ipver ipv) (as_obj c) = true).
  { intros c. unfold R. rewrite filter_In. fold (matchb W ipver ipv c).
    split; intros [I M]; (split; [|exact M]).
    - exact (Permutation_in c (py_sorted_perm W cs) I).
    - exact (Permutation_in c (Permutation_sym (py_sorted_perm W cs)) I). }
  split; [apply all_matching_eq; assumption|].
  split; [assumption|]. split; [assumption|].
  split; [apply filter_sorted_chain; [apply py_sorted_sorted|apply py_sorted_wf; assumption]|].
  split; [apply largest_matching_eq; assumption|].
  split; [apply smallest_matching_eq; assumption|].
  split; [destruct R; cbn; split; congruence|].
  split.
  { destruct R as [|x r]; [cbn; tauto|]. rewrite last_opt_cons_some. destruct (last_opt r); split; congruence. }
  split.
  - intros E c Ic. destruct (insideb W (Addr ipver ipv) (as_obj c)) eqn:M; [|reflexivity].
    assert (In c R) by (apply HIn; auto). rewrite E in *. contradiction.
  - intros H. clearbody R. destruct R as [|x r]; [reflexivity|].
    destruct (proj1 (HIn x) (or_introl eq_refl)) as [Ic M]. rewrite (H x Ic) in M. discriminate.
Qed.
