(* Proofs/C07_qranges.v — C07 part B: iter_ipranges (= _iter_merged_ranges over the sorted blocks) yields the maximal
   intervals of the denoted set; iscontiguous / iprange. *)
From NV Require Import Base.Tac Base.PyVal Base.Bits Base.Canon Model.Ip Model.Partition Model.Span Model.Merge Model.Sets
  Proofs.C02 Proofs.NetDen Proofs.C07_qbase Proofs.C07_qsort.
From Coq Require Import Sorting.Sorted Sorting.Permutation.
Open Scope Z_scope.

(* ---- ranges (version, first, last) ---- *)
Definition q_rv (r : rng) : Z := fst (fst r).
Definition q_rs (r : rng) : Z := snd (fst r).
Definition q_re (r : rng) : Z := snd r.
Definition q_rwf (r : rng) : Prop := q_rs r <= q_re r.
Definition q_rin (r : rng) (ver x : Z) : Prop := q_rv r = ver /\ q_rs r <= x <= q_re r.
Definition q_rden (l : list rng) (ver x : Z) : Prop := exists r, In r l /\ q_rin r ver x.
(* r ends before r' starts *)
Definition q_rbefore (r r' : rng) : Prop := q_rv r < q_rv r' \/ (q_rv r = q_rv r' /\ q_re r < q_rs r').
(* ... with at least one address in between *)
Definition q_rgap (r r' : rng) : Prop := q_rv r < q_rv r' \/ (q_rv r = q_rv r' /\ q_re r + 1 < q_rs r').

Lemma q_rden_cons r l ver x : q_rden (r :: l) ver x <-> q_rin r ver x \/ q_rden l ver x.
Proof.
  unfold q_rden. split.
  - intros (r0 & [<-|H] & I); [left; exact I|right; eauto].
  - intros [I|(r0 & H & I)]; [exists r; split; [now left|exact I]|exists r0; split; [now right|exact I]].
Qed.

Lemma q_rden_nil ver x : ~ q_rden [] ver x.
Proof. intros (r & [] & _). Qed.

Lemma q_mr_nonempty l : forall cur, merged_ranges_loop cur l <> [].
Proof.
  induction l as [|[[nv ns] ne] l IH]; intros [[cv cs] ce]; cbn [merged_ranges_loop]; [discriminate|].
  destruct ((ns =? ce + 1) && (nv =? cv)); [apply IH|discriminate].
Qed.

(* every emitted range starts where some input range starts *)
Lemma q_mr_starts l : forall cur r, In r (merged_ranges_loop cur l) ->
  exists r0, In r0 (cur :: l) /\ fst r0 = fst r.
Proof.
  induction l as [|[[nv ns] ne] l IH]; intros [[cv cs] ce] r; cbn [merged_ranges_loop].
  - intros [<-|[]]. exists (cv, cs, ce). split; [now left|reflexivity].
  - destruct ((ns =? ce + 1) && (nv =? cv)).
    + intros H. destruct (IH _ _ H) as (r0 & [<-|H0] & E).
      * exists (cv, cs, ce). split; [now left|exact E].
      * exists r0. split; [right; right; exact H0|exact E].
    + intros [<-|H]; [exists (cv, cs, ce); split; [now left|reflexivity]|].
      destruct (IH _ _ H) as (r0 & H0 & E). exists r0. split; [right; exact H0|exact E].
Qed.

Lemma q_mr_wf l : forall cur, q_rwf cur -> Forall q_rwf l -> Forall q_rwf (merged_ranges_loop cur l).
Proof.
  induction l as [|[[nv ns] ne] l IH]; intros [[cv cs] ce] Wc Fl; cbn [merged_ranges_loop].
  - constructor; [exact Wc|constructor].
  - inversion Fl as [|? ? Wn Fl']; subst. unfold q_rwf, q_rs, q_re in Wc, Wn; cbn in Wc, Wn.
    destruct ((ns =? ce + 1) && (nv =? cv)) eqn:E.
    + apply andb_true_iff in E. rewrite !Z.eqb_eq in E. apply IH; [|exact Fl'].
      unfold q_rwf, q_rs, q_re; cbn. lia.
    + constructor; [exact Wc|]. apply IH; [exact Wn|exact Fl'].
Qed.

Lemma q_mr_den ver x l : forall cur, q_rwf cur -> Forall q_rwf l ->
  (q_rden (merged_ranges_loop cur l) ver x <-> q_rden (cur :: l) ver x).
Proof.
  induction l as [|[[nv ns] ne] l IH]; intros [[cv cs] ce] Wc Fl; cbn [merged_ranges_loop]; [tauto|].
  inversion Fl as [|? ? Wn Fl']; subst. unfold q_rwf, q_rs, q_re in Wc, Wn; cbn in Wc, Wn.
  destruct ((ns =? ce + 1) && (nv =? cv)) eqn:E.
  - apply andb_true_iff in E. rewrite !Z.eqb_eq in E. rewrite IH; [|unfold q_rwf, q_rs, q_re; cbn; lia|exact Fl'].
    rewrite !q_rden_cons. unfold q_rin, q_rv, q_rs, q_re; cbn.
    split; [intros [H|H]|intros [H|[H|H]]]; try tauto; try (left; lia); try (right; left; lia).
    destruct (Z_le_gt_dec x ce); [left|right; left]; lia.
  - rewrite (q_rden_cons (cv, cs, ce)), IH by assumption. rewrite (q_rden_cons (cv, cs, ce)). tauto.
Qed.

Lemma q_mr_sorted l : forall cur, q_rwf cur -> Forall q_rwf l -> Forall (q_rbefore cur) l ->
  StronglySorted q_rbefore l -> StronglySorted q_rgap (merged_ranges_loop cur l).
Proof.
  induction l as [|[[nv ns] ne] l IH]; intros [[cv cs] ce] Wc Fl Fb S; cbn [merged_ranges_loop].
  - repeat constructor.
  - inversion Fl as [|? ? Wn Fl']; subst. inversion Fb as [|? ? Bn Fb']; subst.
    apply StronglySorted_inv in S. destruct S as [S Fn].
    unfold q_rwf, q_rs, q_re in Wc, Wn; cbn in Wc, Wn.
    unfold q_rbefore, q_rv, q_rs, q_re in Bn; cbn in Bn.
    destruct ((ns =? ce + 1) && (nv =? cv)) eqn:E.
    + apply andb_true_iff in E. rewrite !Z.eqb_eq in E. destruct E as [E1 E2]. subst nv.
      apply IH; [unfold q_rwf, q_rs, q_re; cbn; lia|exact Fl'| |exact S].
      eapply Forall_impl; [|exact Fn]. intros r. unfold q_rbefore, q_rv, q_rs, q_re; cbn. tauto.
    + constructor; [apply IH; assumption|].
      assert (G : cv < nv \/ (cv = nv /\ ce + 1 < ns)).
      { apply andb_false_iff in E. rewrite !Z.eqb_neq in E. lia. }
      rewrite Forall_forall in *. intros r Hr.
      destruct (q_mr_starts _ _ _ Hr) as (r0 & H0 & E0).
      unfold q_rgap, q_rv, q_rs, q_re. rewrite <- E0. cbn [fst snd].
      destruct H0 as [<-|H0]; [cbn; exact G|].
      pose proof (Fb' r0 H0) as B1. pose proof (Fn r0 H0) as B2.
      unfold q_rbefore, q_rv, q_rs, q_re in B1, B2; cbn in B1, B2. lia.
Qed.

(* ---- from blocks to ranges ---- *)
Lemma q_rin_rng_of n ver x : q_rin (rng_of n) ver x <-> in_net n ver x.
Proof. unfold q_rin, rng_of, in_net, q_rv, q_rs, q_re; cbn. tauto. Qed.

Lemma q_rden_map l ver x : q_rden (map rng_of l) ver x <-> den l ver x.
Proof.
  unfold q_rden, den. split.
  - intros (r & Hr & I). apply in_map_iff in Hr. destruct Hr as (n & <- & Hn). exists n. split; [exact Hn|apply q_rin_rng_of, I].
  - intros (n & Hn & I). exists (rng_of n). split; [apply in_map, Hn|apply q_rin_rng_of, I].
Qed.

Lemma q_map_before l : StronglySorted q_before l -> StronglySorted q_rbefore (map rng_of l).
Proof.
  induction 1 as [|a l S IH F]; cbn [map]; constructor; [exact IH|].
  rewrite Forall_forall in *. intros r Hr. apply in_map_iff in Hr. destruct Hr as (n & <- & Hn).
  exact (F n Hn).
Qed.

Lemma q_map_rwf l : Forall wf_net l -> Forall q_rwf (map rng_of l).
Proof.
  intros F. rewrite Forall_forall in *. intros r Hr. apply in_map_iff in Hr. destruct Hr as (n & <- & Hn).
  unfold q_rwf, q_rs, q_re, rng_of; cbn. apply q_nf_le_nl, F, Hn.
Qed.

(* ---------------------------------------------------------------- 6. iter_ipranges *)
Theorem q_ranges d : SetInv d ->
  Forall q_rwf (set_iter_ipranges d) /\
  StronglySorted q_rgap (set_iter_ipranges d) /\
  (forall ver x, q_rden (set_iter_ipranges d) ver x <-> den d ver x).
Proof.
  intros I. unfold set_iter_ipranges.
  pose proof (q_map_before _ (q_sorted_before d I)) as S.
  pose proof (q_map_rwf _ (q_sorted_wf d (q_inv_wf d I))) as F.
  assert (D : forall ver x, q_rden (map rng_of (sorted d)) ver x <-> den d ver x).
  { intros ver x. rewrite q_rden_map. apply q_den_sorted. }
  destruct (map rng_of (sorted d)) as [|c l]; cbn [iter_merged_ranges].
  - split; [constructor|split; [constructor|exact D]].
  - inversion F as [|? ? Wc Fl]; subst. apply StronglySorted_inv in S. destruct S as [S Fb].
    split; [apply q_mr_wf; assumption|split; [apply q_mr_sorted; assumption|]].
    intros ver x. rewrite q_mr_den by assumption. apply D.
Qed.

Lemma q_ss_pair {A} (R : A -> A -> Prop) l a b : StronglySorted R l -> In a l -> In b l -> a = b \/ R a b \/ R b a.
Proof.
  induction 1 as [|c l S IH F]; intros Ha Hb; [destruct Ha|]. rewrite Forall_forall in F.
  destruct Ha as [<-|Ha], Hb as [<-|Hb]; auto.
Qed.

(* in a gap-separated list of ranges every range is a MAXIMAL interval of the union *)
Lemma q_gap_maximal out r : Forall q_rwf out -> StronglySorted q_rgap out -> In r out ->
  ~ q_rden out (q_rv r) (q_rs r - 1) /\ ~ q_rden out (q_rv r) (q_re r + 1).
Proof.
  intros F S Hr. rewrite Forall_forall in F. pose proof (F r Hr) as Wr. unfold q_rwf in Wr.
  split; intros (r' & Hr' & Ev & Ix); pose proof (F r' Hr') as Wr'; unfold q_rwf in Wr';
    destruct (q_ss_pair _ _ r r' S Hr Hr') as [<-|[G|G]]; try unfold q_rgap in G; lia.
Qed.

Theorem q_ranges_maximal d r : SetInv d -> In r (set_iter_ipranges d) ->
  q_rs r <= q_re r /\ (forall x, q_rs r <= x <= q_re r -> den d (q_rv r) x) /\
  ~ den d (q_rv r) (q_rs r - 1) /\ ~ den d (q_rv r) (q_re r + 1).
Proof.
  intros I Hr. destruct (q_ranges d I) as (F & S & D).
  destruct (q_gap_maximal _ r F S Hr) as [M1 M2]. rewrite D in M1, M2.
  rewrite Forall_forall in F. split; [apply (F r Hr)|split; [|split; assumption]].
  intros x Hx. apply D. exists r. split; [exact Hr|split; [reflexivity|exact Hx]].
Qed.

(* ---------------------------------------------------------------- 7. iscontiguous / iprange *)
Lemma q_last_cons {A} (a : A) l d : last (a :: l) d = last l a.
Proof. revert a. induction l as [|b l IH]; intros a; [reflexivity|]. cbn [last] in *. destruct l; [reflexivity|apply IH]. Qed.

Lemma q_contig_true r : forall c cs, contiguous_loop c r = true ->
  merged_ranges_loop (nver c, cs, nl c) (map rng_of r) = [(nver c, cs, nl (last r c))] /\ nver (last r c) = nver c.
Proof.
  induction r as [|c' r IH]; intros c cs H; cbn [contiguous_loop map merged_ranges_loop] in *; [split; reflexivity|].
  unfold rng_of at 1.
  destruct (negb (nver c' =? nver c) || negb (nf c' =? nl c + 1)) eqn:E; [discriminate|].
  apply orb_false_iff in E. rewrite !negb_false_iff, !Z.eqb_eq in E. destruct E as [E1 E2].
  rewrite <- E2, <- E1, !Z.eqb_refl. cbn [andb].
  destruct (IH c' cs H) as [M V]. rewrite q_last_cons. split; [exact M|exact V].
Qed.

Lemma q_contig_false r : forall c cs, contiguous_loop c r = false ->
  (2 <= length (merged_ranges_loop (nver c, cs, nl c) (map rng_of r)))%nat.
Proof.
  induction r as [|c' r IH]; intros c cs H; cbn [contiguous_loop map merged_ranges_loop] in *; [discriminate|].
  unfold rng_of at 1.
  destruct (negb (nver c' =? nver c) || negb (nf c' =? nl c + 1)) eqn:E.
  - assert (E' : (nf c' =? nl c + 1) && (nver c' =? nver c) = false).
    { apply orb_true_iff in E. rewrite !negb_true_iff in E. apply andb_false_iff. tauto. }
    rewrite E'. cbn [length].
    pose proof (q_mr_nonempty (map rng_of r) (nver c', nf c', nl c')) as NE.
    destruct (merged_ranges_loop (nver c', nf c', nl c') (map rng_of r)); [congruence|cbn; lia].
  - apply orb_false_iff in E. rewrite !negb_false_iff, !Z.eqb_eq in E. destruct E as [E1 E2].
    rewrite <- E2, <- E1, !Z.eqb_refl. cbn [andb]. apply IH, H.
Qed.

Lemma q_iscontiguous_unfold d :
  set_iscontiguous d = match sorted d with [] => true | c0 :: r => contiguous_loop c0 r end.
Proof. unfold set_iscontiguous. destruct (sorted d) as [|c0 [|c1 r]]; reflexivity. Qed.

Lemma q_iter_ipranges_unfold d :
  set_iter_ipranges d = match sorted d with [] => [] | c0 :: r => merged_ranges_loop (rng_of c0) (map rng_of r) end.
Proof. unfold set_iter_ipranges. destruct (sorted d); reflexivity. Qed.

Lemma q_contig_len d : set_iscontiguous d = true <-> (length (set_iter_ipranges d) <= 1)%nat.
Proof.
  rewrite q_iscontiguous_unfold, q_iter_ipranges_unfold. destruct (sorted d) as [|c0 r].
  - cbn. split; [lia|reflexivity].
  - destruct (contiguous_loop c0 r) eqn:C.
    + destruct (q_contig_true r c0 (nf c0) C) as [M _]. unfold rng_of at 1. rewrite M. cbn. split; [lia|reflexivity].
    + pose proof (q_contig_false r c0 (nf c0) C) as L. unfold rng_of at 1. split; [discriminate|lia].
Qed.

(* the set is one interval of one family, or empty *)
Definition q_one_interval (d : list net) : Prop :=
  (forall v x, ~ den d v x) \/ exists ver s e, forall v x, den d v x <-> v = ver /\ s <= x <= e.

Theorem q_contiguous d : SetInv d -> (set_iscontiguous d = true <-> q_one_interval d).
Proof.
  intros I. rewrite q_contig_len. destruct (q_ranges d I) as (F & S & D).
  destruct (set_iter_ipranges d) as [|r1 [|r2 rest]] eqn:E.
  - split; [intros _|cbn; lia]. left. intros v x H. apply D in H. exact (q_rden_nil _ _ H).
  - split; [intros _|cbn; lia]. right. destruct r1 as [[v1 s1] e1]. exists v1, s1, e1. intros v x.
    rewrite <- D, q_rden_cons. unfold q_rin, q_rv, q_rs, q_re; cbn. split.
    + intros [[<- H]|H]; [split; [reflexivity|exact H]|destruct (q_rden_nil _ _ H)].
    + intros [-> H]. left. split; [reflexivity|exact H].
  - split; [cbn; lia|]. intros C. exfalso.
    inversion F as [|? ? W1 F']; subst. inversion F' as [|? ? W2 _]; subst. unfold q_rwf in W1, W2.
    assert (I1 : q_rden (r1 :: r2 :: rest) (q_rv r1) (q_rs r1)).
    { exists r1. split; [now left|split; [reflexivity|lia]]. }
    assert (I2 : q_rden (r1 :: r2 :: rest) (q_rv r2) (q_rs r2)).
    { exists r2. split; [right; now left|split; [reflexivity|lia]]. }
    destruct C as [C|(ver & s & e & C)].
    + apply D in I1. exact (C _ _ I1).
    + pose proof S as S'. apply StronglySorted_inv in S'. destruct S' as [_ G]. inversion G as [|? ? G12 _]; subst.
      apply D, C in I1. apply D, C in I2. destruct I1 as [V1 B1], I2 as [V2 B2].
      destruct (q_gap_maximal _ r1 F S (or_introl eq_refl)) as [_ M]. apply M. apply D, C.
      unfold q_rgap in G12. split; [exact V1|lia].
Qed.

Theorem q_iprange d : SetInv d ->
  match set_iprange d with
  | Ok None => forall v x, ~ den d v x
  | Ok (Some (ver, s, e)) => s <= e /\ forall v x, den d v x <-> v = ver /\ s <= x <= e
  | Raise ValueError => ~ q_one_interval d
  | Raise _ => False
  end.
Proof.
  intros I. unfold set_iprange. destruct (set_iscontiguous d) eqn:C.
  - destruct (q_ranges d I) as (F & S & D).
    rewrite q_iscontiguous_unfold in C. rewrite q_iter_ipranges_unfold in F, D.
    destruct (sorted d) as [|c0 r] eqn:E.
    + intros v x H. apply D in H. exact (q_rden_nil _ _ H).
    + destruct (q_contig_true r c0 (nf c0) C) as [M V]. unfold rng_of at 1 in F. unfold rng_of at 1 in D.
      rewrite M in F, D. cbv zeta. rewrite V, Z.eqb_refl. cbn [negb].
      inversion F as [|? ? Wr _]; subst. unfold q_rwf, q_rs, q_re in Wr; cbn in Wr.
      rewrite Z.gtb_ltb. case_ltb (nl (last r c0)) (nf c0).
      * exfalso. lia.
      * split; [exact Wr|]. intros v x. rewrite <- D, q_rden_cons. unfold q_rin, q_rv, q_rs, q_re; cbn. split.
        -- intros [[<- H']|H']; [split; [reflexivity|exact H']|destruct (q_rden_nil _ _ H')].
        -- intros [-> H']. left. split; [reflexivity|exact H'].
  - intros O. apply (q_contiguous d I) in O. congruence.
Qed.

(* iprange() raises exactly when iscontiguous() is false, and then it is ValueError *)
Corollary q_iprange_total d : SetInv d ->
  (set_iscontiguous d = true -> exists o, set_iprange d = Ok o) /\
  (set_iscontiguous d = false -> set_iprange d = Raise ValueError).
Proof.
  intros I. split; intros C.
  - pose proof (q_iprange d I) as H. destruct (set_iprange d) as [o|e] eqn:E; [eauto|exfalso].
    destruct e; try exact H. apply H, (q_contiguous d I), C.
  - unfold set_iprange. rewrite C. reflexivity.
Qed.
