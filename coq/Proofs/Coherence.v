(* Proofs/Coherence.v — the coherence lemmas between the model copies, all parts (see Props/Coherence.v). *)
From NV Require Export Proofs.Coherence_Net Proofs.Coherence_Order Proofs.Coherence_Cidrs Proofs.Coherence_Iter
  Proofs.Coherence_Text.
