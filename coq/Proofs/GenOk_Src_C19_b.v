(* Proofs/GenOk_Src_C19_b.v — source tie for C19, second part (tag SRCF): the definitions regenerated from OUI._parse_data,
   IAB._parse_data, OUI.__str__, IAB.__str__ of netaddr/eui/__init__.py (Gen/pysrc_euic_gen.v) against Model/Ieee.v parse_data
   (parse_line / parse_lines).  The record dict is one variable per key; the model keeps idx, org, address (offset and size are
   passed through, the 'oui' / 'iab' text field -- str(self), set when a (hex) line is seen -- is not in the model): the tie is
   stated on those fields.  __str__ never raises (its arguments are masked bytes), so the generated _parse_data raises exactly
   where the model does. *)
From Coq Require Import String Ascii.
From NV Require Import Base.Tac Base.PyVal Base.PyStr Base.PyStrFacts Model.Ip Model.Ieee Model.SrcPrelude Model.SrcPreludeStr
  Model.SrcPreludeEui2 Model.SrcPreludeIeee Gen.pysrc_euic_gen Proofs.GenOk_Src_C08_b.
Import ListNotations.
Open Scope list_scope.
Open Scope Z_scope.

Lemma land_ff_nonneg x : 0 <= Z.land x 0xff.
Proof. apply Z.land_nonneg. right. lia. Qed.

(* OUI.__str__ / IAB.__str__: the octets of the value, never an exception *)
Lemma src_OUI_str_ok v :
  src_OUI_str v = Ok (join "-" (map (fmt_X_pad 2) [Z.land (Z.shiftr v 16) 0xff; Z.land (Z.shiftr v 8) 0xff; Z.land v 0xff])).
Proof.
  unfold src_OUI_str. cbv zeta. rewrite py_fmt_ints_3 by (repeat constructor; apply land_ff_nonneg). reflexivity.
Qed.

Lemma src_IAB_str_ok v : let i := Z.shiftl v 4 in
  src_IAB_str v = Ok (String.append (join "-" (map (fmt_X_pad 2)
     [Z.land (Z.shiftr i 32) 0xff; Z.land (Z.shiftr i 24) 0xff; Z.land (Z.shiftr i 16) 0xff; Z.land (Z.shiftr i 8) 0xff; Z.land i 0xff])) "-00").
Proof.
  intros i. unfold src_IAB_str. cbv zeta. fold i. unfold py_fmt_ints.
  change (split_chars "%" (chars "%02X-%02X-%02X-%02X-%02X-00") [])
    with [[]; ["0"; "2"; "X"; "-"]; ["0"; "2"; "X"; "-"]; ["0"; "2"; "X"; "-"]; ["0"; "2"; "X"; "-"]; ["0"; "2"; "X"; "-"; "0"; "0"]]%char.
  cbv iota beta. rewrite !fmt_pieces_02X_dash by apply land_ff_nonneg. cbn [fmt_pieces bind app].
  unfold join. cbn [map join_chars chars app].
  f_equal. rewrite <- (str_of_chars "-00"), <- str_of_app. f_equal. cbn [chars]. repeat (rewrite <- app_assoc; cbn [app]). reflexivity.
Qed.

Definition keep3 (r : Z * string * string * list string) : pdata := let '(idx, org, _, address) := r in (idx, org, address).

Lemma src_OUI_parse_loop_ok v lines : forall idx org oui address,
  omap keep3 (src_OUI_parse_data_loop1 v lines idx org oui address) = parse_lines v (idx, org, address) lines.
Proof.
  induction lines as [|raw rest IH]; intros idx org oui address; [reflexivity|].
  cbn [src_OUI_parse_data_loop1 parse_lines]. cbv zeta. unfold parse_line, py_str_strip, py_bytes_truthy, py_bytes_in.
  rewrite negb_involutive. change HEX with "(hex)"%string. change BASE16 with "(base 16)"%string.
  destruct (String.eqb (strip raw) ""); [cbn [bind]; apply IH|].
  destruct (contains "(hex)" (strip raw)).
  - unfold py_str_field3. destruct (third_field (strip raw)) as [o|]; cbn [bind]; [|reflexivity].
    rewrite src_OUI_str_ok. cbn [bind]. apply IH.
  - destruct (contains "(base 16)" (strip raw)); cbn [bind]; apply IH.
Qed.

Lemma src_IAB_parse_loop_ok v lines : forall idx org iab address,
  omap keep3 (src_IAB_parse_data_loop1 v lines idx org iab address) = parse_lines v (idx, org, address) lines.
Proof.
  induction lines as [|raw rest IH]; intros idx org iab address; [reflexivity|].
  cbn [src_IAB_parse_data_loop1 parse_lines]. cbv zeta. unfold parse_line, py_str_strip, py_bytes_truthy, py_bytes_in.
  rewrite negb_involutive. change HEX with "(hex)"%string. change BASE16 with "(base 16)"%string.
  destruct (String.eqb (strip raw) ""); [cbn [bind]; apply IH|].
  destruct (contains "(hex)" (strip raw)).
  - unfold py_str_field3. destruct (third_field (strip raw)) as [o|]; cbn [bind]; [|reflexivity].
    rewrite (src_IAB_str_ok v). cbn [bind]. apply IH.
  - destruct (contains "(base 16)" (strip raw)); cbn [bind]; apply IH.
Qed.

(* the fields of the record dict the model knows, with offset and size *)
Definition keep5 (r : Z * string * string * list string * Z * Z) : pdata * Z * Z :=
  let '(idx, _, org, address, offset, size) := r in ((idx, org, address), offset, size).

Lemma src_OUI_parse_data_ok v data offset size :
  omap keep5 (src_OUI_parse_data v data offset size) = omap (fun r => (r, offset, size)) (parse_data v data).
Proof.
  unfold src_OUI_parse_data, parse_data, pdata0, py_str_split_nl. cbv zeta.
  rewrite <- (src_OUI_parse_loop_ok v (split_nl data) 0 "" "" []).
  destruct (src_OUI_parse_data_loop1 v (split_nl data) 0 "" "" []) as [(((idx, org), oui), address)|e]; reflexivity.
Qed.

(* IAB._parse_data updates the record the object already holds (idx0 .. size0): offset and size are left as they are *)
Lemma src_IAB_parse_data_ok v data offset size idx0 iab0 org0 address0 offset0 size0 :
  omap keep5 (src_IAB_parse_data v data offset size idx0 iab0 org0 address0 offset0 size0) =
  omap (fun r => (r, offset0, size0)) (parse_lines v (idx0, org0, address0) (split_nl data)).
Proof.
  unfold src_IAB_parse_data, py_str_split_nl.
  rewrite <- (src_IAB_parse_loop_ok v (split_nl data) idx0 org0 iab0 address0).
  destruct (src_IAB_parse_data_loop1 v (split_nl data) idx0 org0 iab0 address0) as [(((idx, org), iab), address)|e]; reflexivity.
Qed.

Lemma C19_tie_b_ok :
  (forall v, src_OUI_str v = Ok (join "-" (map (fmt_X_pad 2) [Z.land (Z.shiftr v 16) 0xff; Z.land (Z.shiftr v 8) 0xff; Z.land v 0xff]))) /\
  (forall v, let i := Z.shiftl v 4 in
     src_IAB_str v = Ok (String.append (join "-" (map (fmt_X_pad 2)
       [Z.land (Z.shiftr i 32) 0xff; Z.land (Z.shiftr i 24) 0xff; Z.land (Z.shiftr i 16) 0xff; Z.land (Z.shiftr i 8) 0xff; Z.land i 0xff])) "-00")) /\
  (forall v data offset size,
     omap keep5 (src_OUI_parse_data v data offset size) = omap (fun r => (r, offset, size)) (parse_data v data)) /\
  (forall v data offset size idx0 iab0 org0 address0 offset0 size0,
     omap keep5 (src_IAB_parse_data v data offset size idx0 iab0 org0 address0 offset0 size0) =
     omap (fun r => (r, offset0, size0)) (parse_lines v (idx0, org0, address0) (split_nl data))).
Proof.
  split; [exact src_OUI_str_ok|]. split; [exact src_IAB_str_ok|]. split; [exact src_OUI_parse_data_ok|exact src_IAB_parse_data_ok].
Qed.
