(* Proofs/C08_text.v — the regular-expression matchers on separator-joined hex tokens, the hex parse of the
   matched groups, and from these: every accepted spelling yields its value; printed text parses back. *)
From Coq Require Import String Ascii.
From NV Require Import Base.Tac Base.PyVal Base.Bits Base.PyStr Base.PyStrFacts Model.Ip Model.Eui
                       Proofs.C08_words Proofs.C08_arith.
Open Scope Z_scope.

(* a token: hex digits only *)
Definition hexs (t : list ascii) : Prop := all_digits 16 t.
Definition hexval (t : list ascii) : Z := from_digits 16 (map (dval 16) t).
Definition len_ok (lo hi : nat) (t : list ascii) : bool := Nat.leb lo (length t) && Nat.leb (length t) hi.
(* a separator usable between tokens: not a hex digit, not the newline `$` tolerates *)
Definition good_sep (c : ascii) : Prop := digit_in 16 c = None /\ c <> ch_nl.

Lemma is_hex_iff c : is_hex c = true <-> digit_of 16 c.
Proof.
  unfold is_hex, digit_of. destruct (digit_in 16 c) eqn:E; split; intros H; try discriminate; eauto.
  destruct H; discriminate.
Qed.

Lemma forallb_is_hex t : forallb is_hex t = true <-> hexs t.
Proof.
  unfold hexs, all_digits. rewrite forallb_forall, Forall_forall.
  split; intros H c Hc; apply is_hex_iff; auto.
Qed.

Lemma field_ok_hexs lo hi t : hexs t -> field_ok lo hi t = len_ok lo hi t.
Proof. intros H. unfold field_ok, len_ok. rewrite (proj2 (forallb_is_hex t) H). reflexivity. Qed.

Lemma field_ok_nonhex lo hi t c : In c t -> digit_in 16 c = None -> field_ok lo hi t = false.
Proof.
  intros Hin Hc. unfold field_ok. destruct (forallb is_hex t) eqn:E; [|reflexivity].
  rewrite forallb_forall in E. specialize (E c Hin). unfold is_hex in E. rewrite Hc in E. discriminate.
Qed.

Lemma hexs_not_nl t : hexs t -> ~ In ch_nl t.
Proof.
  intros H Hin. unfold hexs, all_digits in H. rewrite Forall_forall in H. destruct (H _ Hin) as [d Hd].
  vm_compute in Hd. discriminate.
Qed.

Lemma strip_nl_id l : ~ In ch_nl l -> strip_nl l = l.
Proof.
  intros H. unfold strip_nl. destruct (rev l) as [|c r] eqn:E; [reflexivity|].
  destruct (ascii_eqb c ch_nl) eqn:Ec; [|reflexivity].
  apply ascii_eqb_eq in Ec. subst c. exfalso. apply H. apply in_rev. rewrite E. left. reflexivity.
Qed.

(* characters of a joined token list: token characters or the separator *)
Lemma in_join_chars sep toks c : In c (join_chars [sep] toks) -> c = sep \/ exists t, In t toks /\ In c t.
Proof.
  induction toks as [|t r IH]; [intros []|]. destruct r as [|t2 r'].
  - cbn [join_chars]. intros H. right. exists t. split; [left; reflexivity|exact H].
  - change (join_chars [sep] (t :: t2 :: r')) with (t ++ sep :: join_chars [sep] (t2 :: r')).
    intros H. apply in_app_or in H. destruct H as [H|[H|H]].
    + right. exists t. split; [left; reflexivity|exact H].
    + left. auto.
    + destruct (IH H) as [E|[t' [Ht' Hc]]]; [left; exact E|]. right. exists t'. split; [right; exact Ht'|exact Hc].
Qed.

Lemma join_no_nl sep toks : good_sep sep -> Forall hexs toks -> ~ In ch_nl (join_chars [sep] toks).
Proof.
  intros [_ Hs] HF Hin. apply in_join_chars in Hin. destruct Hin as [E|[t [Ht Hc]]].
  - apply Hs. auto.
  - rewrite Forall_forall in HF. exact (hexs_not_nl t (HF t Ht) Hc).
Qed.

Lemma join_no_other sep sep' toks : digit_in 16 sep' = None -> sep' <> sep -> Forall hexs toks ->
  existsb (ascii_eqb sep') (join_chars [sep] toks) = false.
Proof.
  intros Hd Hne HF. destruct (existsb (ascii_eqb sep') (join_chars [sep] toks)) eqn:E; [|reflexivity].
  apply existsb_exists in E. destruct E as [c [Hin Hc]]. apply ascii_eqb_eq in Hc. subst c.
  apply in_join_chars in Hin. destruct Hin as [E|[t [Ht Hc]]]; [contradiction|].
  rewrite Forall_forall in HF. specialize (HF t Ht). unfold hexs, all_digits in HF. rewrite Forall_forall in HF.
  destruct (HF _ Hc) as [d Hd']. congruence.
Qed.

Lemma join_has_sep sep t1 t2 r : In sep (join_chars [sep] (t1 :: t2 :: r)).
Proof.
  change (join_chars [sep] (t1 :: t2 :: r)) with (t1 ++ sep :: join_chars [sep] (t2 :: r)).
  apply in_or_app. right. left. reflexivity.
Qed.

Lemma toks_no_sep sep toks : digit_in 16 sep = None -> Forall hexs toks ->
  Forall (fun t => existsb (ascii_eqb sep) t = false) toks.
Proof.
  intros Hd HF. rewrite Forall_forall in *. intros t Ht. apply (all_digits_no_char 16); [apply HF; exact Ht|exact Hd].
Qed.

Lemma forallb_field_ok lo hi toks : Forall hexs toks ->
  forallb (field_ok lo hi) toks = forallb (len_ok lo hi) toks.
Proof.
  induction 1; cbn [forallb]; [reflexivity|]. rewrite field_ok_hexs by assumption. rewrite IHForall. reflexivity.
Qed.

(* what each pattern does on sep-joined hex tokens *)
Definition shape_result (p : pat) (sep : ascii) (toks : list (list ascii)) : option (list string) :=
  match p with
  | PGroups n lo hi sep' =>
      if ascii_eqb sep' sep then
        (if Nat.eqb (length toks) n && forallb (len_ok lo hi) toks then Some (map str_of toks) else None)
      else if Nat.eqb (length toks) 1 then
        (if Nat.eqb 1 n && forallb (len_ok lo hi) toks then Some (map str_of toks) else None)
      else None
  | PBare k => if Nat.eqb (length toks) 1 && forallb (len_ok k k) toks then Some (map str_of toks) else None
  end.

Definition pat_sep_ok (p : pat) : Prop :=
  match p with PGroups _ _ _ sep' => digit_in 16 sep' = None | PBare _ => True end.

Lemma match_pat_shape p sep toks : pat_sep_ok p -> good_sep sep -> toks <> [] -> Forall hexs toks ->
  match_pat p (join_chars [sep] toks) = shape_result p sep toks.
Proof.
  intros Hp Hs Hne HF. pose proof (join_no_nl sep toks Hs HF) as Hnl.
  destruct p as [n lo hi sep'|k]; unfold match_pat, shape_result; rewrite strip_nl_id by exact Hnl.
  - cbn [pat_sep_ok] in Hp. destruct (ascii_eqb sep' sep) eqn:Es.
    + apply ascii_eqb_eq in Es. subst sep'.
      rewrite split_chars_join by (try assumption; apply toks_no_sep; assumption).
      rewrite forallb_field_ok by assumption. reflexivity.
    + apply ascii_eqb_neq in Es.
      rewrite split_chars_last by (apply join_no_other; assumption). cbn [rev app length forallb].
      destruct toks as [|t1 [|t2 r]]; [congruence| |].
      * cbn [join_chars length Nat.eqb forallb]. inversion HF; subst. rewrite field_ok_hexs by assumption. reflexivity.
      * cbn [length Nat.eqb]. rewrite (field_ok_nonhex lo hi _ sep (join_has_sep sep t1 t2 r) (proj1 Hs)).
        rewrite andb_false_r. reflexivity.
  - destruct toks as [|t1 [|t2 r]]; [congruence| |].
    + cbn [join_chars length Nat.eqb forallb map andb]. inversion HF; subst. rewrite field_ok_hexs by assumption.
      rewrite andb_true_r. reflexivity.
    + cbn [length Nat.eqb andb]. rewrite (field_ok_nonhex k k _ sep (join_has_sep sep t1 t2 r) (proj1 Hs)). reflexivity.
Qed.

Fixpoint first_shape (ps : list pat) (sep : ascii) (toks : list (list ascii)) : option (list string) :=
  match ps with
  | [] => None
  | p :: r => match shape_result p sep toks with Some ws => Some ws | None => first_shape r sep toks end
  end.

Lemma first_match_shape ps sep toks : Forall pat_sep_ok ps -> good_sep sep -> toks <> [] -> Forall hexs toks ->
  first_match ps (join_chars [sep] toks) = first_shape ps sep toks.
Proof.
  intros Hps Hs Hne HF. induction Hps as [|p r Hp _ IH]; [reflexivity|].
  cbn [first_match first_shape]. rewrite match_pat_shape by assumption. rewrite IH. reflexivity.
Qed.

Lemma mac_pats_ok : Forall pat_sep_ok mac_pats.
Proof. repeat constructor. Qed.
Lemma eui64_pats_ok : Forall pat_sep_ok eui64_pats.
Proof. repeat constructor. Qed.

(* ---- hex parse of tokens ---- *)
Lemma int16_tok t : t <> [] -> hexs t -> int16 (str_of t) = Ok (hexval t).
Proof.
  intros Hne H. unfold int16. rewrite py_int_digits.
  - rewrite chars_str_of. reflexivity.
  - intros E. apply str_of_nil_iff in E. contradiction.
  - rewrite chars_str_of. intros c Hc. unfold hexs, all_digits in H. rewrite Forall_forall in H. exact (H c Hc).
Qed.

Lemma hexval_range t : hexs t -> 0 <= hexval t < 16 ^ Z.of_nat (length t).
Proof.
  intros H. unfold hexval. pose proof (map_dval_range 16 t H) as R. split.
  - apply from_digits_nonneg; [lia|exact R].
  - pose proof (from_digits_bound 16 _ ltac:(lia) R) as B. rewrite map_length in B. lia.
Qed.

Lemma pow16_mono a b : (a <= b)%nat -> 16 ^ Z.of_nat a <= 16 ^ Z.of_nat b.
Proof. intros. apply Z.pow_le_mono_r; lia. Qed.

Lemma hexval_lt t k : hexs t -> (length t <= k)%nat -> 0 <= hexval t < 16 ^ Z.of_nat k.
Proof. intros H L. pose proof (hexval_range t H). pose proof (pow16_mono _ _ L). lia. Qed.

Lemma join_chars_nil_concat l : join_chars [] l = List.concat l.
Proof.
  induction l as [|x r IH]; [reflexivity|]. destruct r as [|y r'].
  - cbn. rewrite app_nil_r. reflexivity.
  - change (join_chars [] (x :: y :: r')) with (x ++ [] ++ join_chars [] (y :: r')). rewrite IH. reflexivity.
Qed.

(* fixed-width hex of a word: k hex digits whose value is the word *)
Lemma xpad_chars k w : (0 < k)%nat -> 0 <= w < 16 ^ Z.of_nat k ->
  let t := chars (fmt_x_pad k w) in hexs t /\ length t = k /\ hexval t = w.
Proof.
  intros Hk Hw. cbv zeta. split; [apply fmt_x_pad_hexdigits; lia|]. split.
  - rewrite length_chars. apply fmt_x_pad_length; assumption.
  - unfold hexval, fmt_x_pad. rewrite chars_str_of, map_dval_pad0, from_digits_repeat0.
    apply from_digits_dvals_fmt_nat; lia.
Qed.

Lemma Xpad_chars k w : (0 < k)%nat -> 0 <= w < 16 ^ Z.of_nat k ->
  let t := chars (fmt_X_pad k w) in hexs t /\ length t = k /\ hexval t = w.
Proof.
  intros Hk Hw. cbv zeta. split; [apply fmt_X_pad_hexdigits; lia|]. split.
  - rewrite length_chars. apply fmt_X_pad_length; assumption.
  - unfold hexval, fmt_X_pad. rewrite chars_str_of, map_dval_pad0, from_digits_repeat0.
    apply from_digits_dvals_fmt_nat; lia.
Qed.

(* '%x' / '%.0x': no padding *)
Lemma x0_chars k w : (0 < k)%nat -> 0 <= w < 16 ^ Z.of_nat k ->
  let t := chars (fmt_x_pad 0 w) in hexs t /\ (1 <= length t <= k)%nat /\ hexval t = w.
Proof.
  intros Hk Hw. cbv zeta. rewrite fmt_x_pad_small by lia. split; [apply fmt_x_hexdigits; lia|]. split.
  - rewrite length_chars. apply fmt_x_length; assumption.
  - unfold hexval. rewrite fmt_x_nonneg by lia. rewrite chars_str_of. apply from_digits_dvals_fmt_nat; lia.
Qed.

Lemma concat_xpad_value k ws : (0 < k)%nat -> Forall (fun w => 0 <= w < 16 ^ Z.of_nat k) ws ->
  let l := List.concat (map (fun w => chars (fmt_x_pad k w)) ws) in
  hexs l /\ from_digits 16 (map (dval 16) l) = from_digits (16 ^ Z.of_nat k) ws /\ length l = (k * length ws)%nat.
Proof.
  intros Hk. induction ws as [|w r IH] using rev_ind; intros HF; cbv zeta.
  - split; [constructor|]. split; [reflexivity|]. cbn [map List.concat length]. lia.
  - apply Forall_app in HF. destruct HF as [HF Hw]. inversion Hw as [|? ? Hw0 _]; subst.
    destruct (IH HF) as (H1 & H2 & H3). destruct (xpad_chars k w Hk Hw0) as (X1 & X2 & X3).
    rewrite map_app, concat_app. cbn [map List.concat]. rewrite app_nil_r. split; [|split].
    + apply all_digits_app. split; assumption.
    + rewrite map_app, from_digits_app, map_length, X2. fold (hexval (chars (fmt_x_pad k w))). rewrite X3.
      rewrite from_digits_snoc. rewrite H2. reflexivity.
    + rewrite !app_length, H3, X2. cbn [length]. lia.
Qed.

Lemma hexjoin_tokens k toks : (0 < k)%nat -> toks <> [] ->
  Forall (fun t => hexs t /\ t <> [] /\ (length t <= k)%nat) toks ->
  hexjoin k (map str_of toks) = Ok (from_digits (16 ^ Z.of_nat k) (map hexval toks)).
Proof.
  intros Hk Hne HF. unfold hexjoin.
  rewrite (map_outcome_ok int16 (fun s => hexval (chars s))).
  2:{ intros s Hs. apply in_map_iff in Hs. destruct Hs as [t [<- Ht]]. rewrite chars_str_of.
      rewrite Forall_forall in HF. destruct (HF t Ht) as (A & B & C). apply int16_tok; assumption. }
  cbn [bind].
  assert (E : map (fun s => hexval (chars s)) (map str_of toks) = map hexval toks)
    by (rewrite map_map; apply map_ext; intros; rewrite chars_str_of; reflexivity).
  rewrite E.
  assert (R : Forall (fun w => 0 <= w < 16 ^ Z.of_nat k) (map hexval toks)).
  { apply Forall_forall. intros w Hw. apply in_map_iff in Hw. destruct Hw as [t [<- Ht]].
    rewrite Forall_forall in HF. destruct (HF t Ht) as (A & B & C). apply hexval_lt; assumption. }
  destruct (concat_xpad_value k (map hexval toks) Hk R) as (C1 & C2 & C3).
  unfold int16. rewrite py_int_digits.
  - unfold join. rewrite chars_str_of. cbn [chars]. rewrite join_chars_nil_concat, !map_map.
    rewrite map_map in C2. rewrite C2. reflexivity.
  - unfold join. intros E0. apply str_of_nil_iff in E0. cbn [chars] in E0. rewrite join_chars_nil_concat in E0.
    rewrite !map_map in E0. rewrite map_length, map_map in C3. rewrite E0 in C3.
    destruct toks; [congruence|]. cbn [length] in C3. lia.
  - unfold join. rewrite chars_str_of. cbn [chars]. rewrite join_chars_nil_concat, !map_map.
    rewrite map_map in C1. intros c Hc. unfold hexs, all_digits in C1. rewrite Forall_forall in C1. exact (C1 c Hc).
Qed.

Lemma int16_xpad k v : 0 <= v -> int16 (fmt_x_pad k v) = Ok v.
Proof. intros. unfold int16. rewrite py_int_fmt_x_pad by lia. reflexivity. Qed.
