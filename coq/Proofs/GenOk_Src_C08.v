(* Proofs/GenOk_Src_C08.v — source tie for C08: the definitions regenerated from the text of
   * netaddr/strategy/eui48.py and eui64.py: valid_words / int_to_words / words_to_int (Gen/pysrc_eui48_gen.v, pysrc_eui64_gen.v:
     `if dialect is None: dialect = DEFAULT_DIALECT`, then the call of the translated netaddr.strategy function), and
   * netaddr/eui/__init__.py: EUI.oui, is_iab, eui64, modified_eui64, ipv6, ipv6_link_local (Gen/pysrc_eui_gen.v)
   equal the hand-written model of Model/Eui.v (its own int_to_words / valid_words / words_to_int, eui_words, eui_oui,
   eui_is_iab, eui_eui64, eui_modified, eui_ipv6, eui_ipv6_link_local).
   A dialect is seen through the two attributes the functions read, the pair (word_size, num_words); DEFAULT_DIALECT /
   DEFAULT_EUI64_DIALECT are regenerated from the class bodies.  An EUI object is (_module.version, _value): none of the tied
   methods reads the dialect, the equalities hold for every dialect of the receiver.  `OUI(e)` is represented by the integer e
   handed to the constructor (the registry lookup of OUI.__init__ is not translated; eui_oui models the same integer).
   Hypotheses: 0 <= word_size (and 0 <= num_words for int_to_words) for an explicit dialect, as in C15_source_tie (the model of
   Eui.v raises Unsupported there, the generated code Unsupported or CPython's ValueError -- not the same in every case);
   none for the default dialects and none for the EUI methods. *)
From NV Require Import Base.Tac Base.PyVal Model.Ip Model.Codec Model.Eui Model.SrcPrelude Model.SrcPreludeEui
  Gen.pysrc_strategy_gen Gen.pysrc_eui48_gen Gen.pysrc_eui64_gen Gen.pysrc_eui_gen Proofs.GenOk_Src_C15.
Import ListNotations.
Open Scope Z_scope.

(* ---- the two copies of the word helpers (Model/Eui.v, Model/Codec.v) agree for non-negative sizes ---- *)
Lemma eui_words_loop_codec n : forall v ws acc,
  Eui.words_loop n v ws acc = (rev (Codec.words_loop n v (2 ^ ws - 1) ws) ++ acc)%list.
Proof.
  induction n as [|k IH]; intros v ws acc; cbn [Eui.words_loop Codec.words_loop rev]; [reflexivity|].
  rewrite IH, <- app_assoc. reflexivity.
Qed.

Lemma eui_int_to_words_codec v ws nw : 0 <= ws -> 0 <= nw -> Eui.int_to_words v ws nw = Codec.int_to_words v ws nw.
Proof.
  intros Hws Hnw. unfold Eui.int_to_words, Codec.int_to_words.
  case_ltb ws 0; [lia|]. case_ltb nw 0; [lia|]. cbn [orb].
  destruct (negb _); [reflexivity|]. rewrite eui_words_loop_codec, app_nil_r. reflexivity.
Qed.

Lemma eui_valid_words_codec words ws nw : Eui.valid_words words ws nw = Codec.valid_words words ws nw.
Proof. unfold Eui.valid_words, Codec.valid_words. destruct (_ =? nw); reflexivity. Qed.

Lemma eui_w2i_codec rw : forall i ws acc, Eui.w2i_loop rw i ws acc = Codec.lor_words rw i ws acc.
Proof. induction rw as [|x r IH]; intros; cbn [Eui.w2i_loop Codec.lor_words]; [reflexivity|apply IH]. Qed.

Lemma eui_words_to_int_codec words ws nw : 0 <= ws -> Eui.words_to_int words ws nw = Codec.words_to_int words ws nw.
Proof.
  intros Hws. unfold Eui.words_to_int, Codec.words_to_int. case_ltb ws 0; [lia|].
  rewrite eui_valid_words_codec. destruct (negb _); [reflexivity|]. rewrite eui_w2i_codec. reflexivity.
Qed.

(* a dialect as the generated code sees it *)
Definition dpair (d : dialect) : Z * Z := (word_size d, num_words d).

(* ---- netaddr/strategy/eui48.py ---- *)
Lemma src_eui48_default_ok : src_eui48_DEFAULT_DIALECT = dpair (default_dialect 48).
Proof. reflexivity. Qed.

Lemma src_eui48_words_ok ws nw : 0 <= ws ->
  (forall words, src_eui48_valid_words words (Some (ws, nw)) = Ok (Eui.valid_words words ws nw)) /\
  (forall iv, 0 <= nw -> src_eui48_int_to_words iv (Some (ws, nw)) = Eui.int_to_words iv ws nw) /\
  (forall words, src_eui48_words_to_int words (Some (ws, nw)) = Eui.words_to_int words ws nw).
Proof.
  intros H. unfold src_eui48_valid_words, src_eui48_int_to_words, src_eui48_words_to_int. cbn [fst snd]. split; [|split].
  - intros words. rewrite eui_valid_words_codec. apply src_valid_words_ok, H.
  - intros iv H2. rewrite eui_int_to_words_codec by assumption. apply src_int_to_words_ok; assumption.
  - intros words. rewrite eui_words_to_int_codec by assumption. apply src_words_to_int_ok, H.
Qed.

(* dialect=None: the module default; EUI.words is exactly this call on the object's value *)
Lemma src_eui48_words_default_ok :
  (forall words, src_eui48_valid_words words None = Ok (Eui.valid_words words 8 6)) /\
  (forall iv d, src_eui48_int_to_words iv None = eui_words {| ever := 48; evalue := iv; edialect := d |}) /\
  (forall words, src_eui48_words_to_int words None = Eui.words_to_int words 8 6).
Proof.
  destruct (src_eui48_words_ok 8 6 ltac:(lia)) as (A & B & C). split; [|split].
  - exact A.
  - intros iv d. exact (B iv ltac:(lia)).
  - exact C.
Qed.

(* ---- netaddr/strategy/eui64.py ---- *)
Lemma src_eui64_default_ok : src_eui64_DEFAULT_EUI64_DIALECT = dpair (default_dialect 64).
Proof. reflexivity. Qed.

Lemma src_eui64_words_ok ws nw : 0 <= ws ->
  (forall words, src_eui64_valid_words words (Some (ws, nw)) = Ok (Eui.valid_words words ws nw)) /\
  (forall iv, 0 <= nw -> src_eui64_int_to_words iv (Some (ws, nw)) = Eui.int_to_words iv ws nw) /\
  (forall words, src_eui64_words_to_int words (Some (ws, nw)) = Eui.words_to_int words ws nw).
Proof.
  intros H. unfold src_eui64_valid_words, src_eui64_int_to_words, src_eui64_words_to_int. cbn [fst snd]. split; [|split].
  - intros words. rewrite eui_valid_words_codec. apply src_valid_words_ok, H.
  - intros iv H2. rewrite eui_int_to_words_codec by assumption. apply src_int_to_words_ok; assumption.
  - intros words. rewrite eui_words_to_int_codec by assumption. apply src_words_to_int_ok, H.
Qed.

Lemma src_eui64_words_default_ok :
  (forall words, src_eui64_valid_words words None = Ok (Eui.valid_words words 8 8)) /\
  (forall iv d, src_eui64_int_to_words iv None = eui_words {| ever := 64; evalue := iv; edialect := d |}) /\
  (forall words, src_eui64_words_to_int words None = Eui.words_to_int words 8 8).
Proof.
  destruct (src_eui64_words_ok 8 8 ltac:(lia)) as (A & B & C). split; [|split].
  - exact A.
  - intros iv d. exact (B iv ltac:(lia)).
  - exact C.
Qed.

(* ---- netaddr/eui/__init__.py: the integer methods of EUI ---- *)
Section EuiMethods.
  Variables (ver v : Z) (d : dialect).
  Let e := {| ever := ver; evalue := v; edialect := d |}.

  Lemma src_eui_oui_ok : src_EUI_oui ver v = eui_oui e.
  Proof. reflexivity. Qed.

  Lemma src_eui_is_iab_ok : src_EUI_is_iab ver v = eui_is_iab e.
  Proof. reflexivity. Qed.

  Lemma src_eui_eui64_ok : src_EUI_eui64 ver v = eui_eui64 e.
  Proof. unfold src_EUI_eui64, eui_eui64, mk_eui, src_EUI_version, e. cbn [ever evalue]. destruct (ver =? 48); reflexivity. Qed.

  Lemma src_eui_modified_ok : src_EUI_modified_eui64 ver v = eui_modified e.
  Proof. unfold src_EUI_modified_eui64, eui_modified. rewrite src_eui_eui64_ok. reflexivity. Qed.

  Lemma src_eui_ipv6_ok prefix : src_EUI_ipv6 ver v prefix = eui_ipv6 e prefix.
  Proof. unfold src_EUI_ipv6, eui_ipv6. rewrite src_eui_modified_ok. reflexivity. Qed.

  Lemma src_eui_ipv6_link_local_ok : src_EUI_ipv6_link_local ver v = eui_ipv6_link_local e.
  Proof. unfold src_EUI_ipv6_link_local, eui_ipv6_link_local. apply src_eui_ipv6_ok. Qed.
End EuiMethods.

(* everything the C08 source tie states (Props/C08_src.v) *)
Lemma C08_tie_ok :
  (src_eui48_DEFAULT_DIALECT = (word_size (default_dialect 48), num_words (default_dialect 48)) /\
   src_eui64_DEFAULT_EUI64_DIALECT = (word_size (default_dialect 64), num_words (default_dialect 64))) /\
  (forall ws nw, 0 <= ws ->
     (forall words, src_eui48_valid_words words (Some (ws, nw)) = Ok (Eui.valid_words words ws nw)) /\
     (forall iv, 0 <= nw -> src_eui48_int_to_words iv (Some (ws, nw)) = Eui.int_to_words iv ws nw) /\
     (forall words, src_eui48_words_to_int words (Some (ws, nw)) = Eui.words_to_int words ws nw) /\
     (forall words, src_eui64_valid_words words (Some (ws, nw)) = Ok (Eui.valid_words words ws nw)) /\
     (forall iv, 0 <= nw -> src_eui64_int_to_words iv (Some (ws, nw)) = Eui.int_to_words iv ws nw) /\
     (forall words, src_eui64_words_to_int words (Some (ws, nw)) = Eui.words_to_int words ws nw)) /\
  (forall iv d, src_eui48_int_to_words iv None = eui_words {| ever := 48; evalue := iv; edialect := d |} /\
                src_eui64_int_to_words iv None = eui_words {| ever := 64; evalue := iv; edialect := d |}) /\
  (forall words, src_eui48_valid_words words None = Ok (Eui.valid_words words 8 6) /\
                 src_eui48_words_to_int words None = Eui.words_to_int words 8 6 /\
                 src_eui64_valid_words words None = Ok (Eui.valid_words words 8 8) /\
                 src_eui64_words_to_int words None = Eui.words_to_int words 8 8) /\
  (forall ver v d prefix, let e := {| ever := ver; evalue := v; edialect := d |} in
     src_EUI_oui ver v = eui_oui e /\ src_EUI_is_iab ver v = eui_is_iab e /\
     src_EUI_eui64 ver v = eui_eui64 e /\ src_EUI_modified_eui64 ver v = eui_modified e /\
     src_EUI_ipv6 ver v prefix = eui_ipv6 e prefix /\ src_EUI_ipv6_link_local ver v = eui_ipv6_link_local e).
Proof.
  split; [split; reflexivity|]. split.
  { intros ws nw H. destruct (src_eui48_words_ok ws nw H) as (A & B & C). destruct (src_eui64_words_ok ws nw H) as (A' & B' & C').
    split; [exact A|]. split; [exact B|]. split; [exact C|]. split; [exact A'|]. split; [exact B'|exact C']. }
  split. { intros iv d. split; [apply src_eui48_words_default_ok|apply src_eui64_words_default_ok]. }
  split.
  { intros words. destruct src_eui48_words_default_ok as (A & _ & C). destruct src_eui64_words_default_ok as (A' & _ & C').
    split; [apply A|]. split; [apply C|]. split; [apply A'|apply C']. }
  intros ver v d prefix e. subst e.
  split; [apply src_eui_oui_ok|]. split; [apply src_eui_is_iab_ok|]. split; [apply src_eui_eui64_ok|].
  split; [apply src_eui_modified_ok|]. split; [apply src_eui_ipv6_ok|apply src_eui_ipv6_link_local_ok].
Qed.
