(* Proofs/C19_ieee.v — index rows produced by OUIIndexParser / IABIndexParser delimit every record exactly,
   for every well-formed registry (any line terminators, any header, duplicate identifiers, any number of lines
   per record); induction over the line list. *)
From Coq Require Import String Ascii.
From NV Require Import Base.Tac Base.PyVal Model.Ieee.
Open Scope Z_scope.
Open Scope string_scope.

(* total length in bytes of a list of lines *)
Fixpoint total (ls : list string) : Z := match ls with [] => 0 | l :: t => blen l + total t end.
Lemma total_app a b : total (a ++ b) = total a + total b.
Proof. induction a as [|x a IH]; cbn [app total]; lia. Qed.
Lemma blen_nonneg s : 0 <= blen s.
Proof. unfold blen. lia. Qed.
Lemma total_nonneg l : 0 <= total l.
Proof. induction l as [|x l IH]; cbn [total]; [lia|]. pose proof (blen_nonneg x). lia. Qed.

Lemma eqb_empty_false l : l <> "" -> String.eqb l "" = false.
Proof. intro H. destruct (String.eqb_spec l ""); [contradiction|reflexivity]. Qed.
Lemma contains_nonempty n l : n <> "" -> contains n l = true -> l <> "".
Proof. intros Hn H ->. destruct n; [contradiction|discriminate]. Qed.

(* a line that does not start a record *)
Definition plain (l : string) : Prop := l <> "" /\ contains HEX l = false.

(* ================================================================ OUI *)
(* a record: the `(hex)` line, the lines up to the next `(hex)` line, and the key the code derives from it *)
Record orec := { o_hex : string; o_body : list string; o_key : Z }.

(* index = int(line.split()[0].replace(b'-', b''), 16) *)
Definition oui_key_of (line : string) : outcome Z :=
  match first_token line with
  | None => Raise IndexError
  | Some t => int16 (remove_hyphens t)
  end.

Definition wf_orec (r : orec) : Prop :=
  contains HEX (o_hex r) = true /\ oui_key_of (o_hex r) = Ok (o_key r) /\ Forall plain (o_body r).
Definition olines (r : orec) : list string := o_hex r :: o_body r.

(* the rows the property demands: record i starts where the lines before it end and spans exactly its lines *)
Fixpoint oui_expected (off : Z) (rs : list orec) : list ouirow :=
  match rs with
  | [] => []
  | r :: t => (o_key r, off, total (olines r)) :: oui_expected (off + total (olines r)) t
  end.

Lemma oui_header hdr rest tell size : Forall plain hdr ->
  oui_loop (hdr ++ rest) tell true None size = oui_loop rest (tell + total hdr) true None size.
Proof.
  intro H. revert tell. induction H as [|l hdr [Hne Hc] _ IH]; intro tell; cbn [app total]; [f_equal; lia|].
  cbn [oui_loop]. rewrite (eqb_empty_false l Hne), Hc. cbn [andb]. rewrite IH. f_equal. lia.
Qed.

Lemma oui_body body rest tell rec size : Forall plain body ->
  oui_loop (body ++ rest) tell false rec size = oui_loop rest (tell + total body) false rec (size + total body).
Proof.
  intro H. revert tell size. induction H as [|l body [Hne Hc] _ IH]; intros tell size; cbn [app total]; [f_equal; lia|].
  cbn [oui_loop]. rewrite (eqb_empty_false l Hne), Hc. cbn [andb]. rewrite IH. f_equal; lia.
Qed.

(* one record start, from either state *)
Lemma oui_start r rest tell skip rec size : wf_orec r -> (skip = true -> rec = None) ->
  oui_loop (olines r ++ rest) tell skip rec size =
  (match rec with Some (i, o) => emit (i, o, size) | None => fun k => k end)
    (oui_loop rest (tell + total (olines r)) false (Some (o_key r, tell)) (total (olines r))).
Proof.
  intros (Hc & Hk & Hb) Hs. unfold olines. cbn [app total oui_loop].
  rewrite (eqb_empty_false _ (contains_nonempty HEX _ ltac:(discriminate) Hc)), Hc.
  replace (if skip && true then false else skip) with false by (destruct skip; reflexivity).
  unfold oui_key_of in Hk. destruct (first_token (o_hex r)) as [t|]; [|discriminate]. rewrite Hk.
  rewrite (oui_body (o_body r) rest _ _ _ Hb).
  replace (tell + blen (o_hex r) - blen (o_hex r)) with tell by lia.
  replace (tell + blen (o_hex r) + total (o_body r)) with (tell + (blen (o_hex r) + total (o_body r))) by lia.
  destruct rec as [[i o]|]; reflexivity.
Qed.

Lemma oui_records_exact recs : Forall wf_orec recs -> forall tell i o size,
  oui_loop (flat_map olines recs) tell false (Some (i, o)) size = ((i, o, size) :: oui_expected tell recs, None).
Proof.
  induction 1 as [|r recs Hr _ IH]; intros tell i o size; [reflexivity|].
  cbn [flat_map]. rewrite (oui_start r _ tell false (Some (i, o)) size Hr) by discriminate.
  rewrite IH. reflexivity.
Qed.

Theorem oui_index_exact hdr recs : Forall plain hdr -> recs <> [] -> Forall wf_orec recs ->
  oui_parse (hdr ++ flat_map olines recs) = (oui_expected (total hdr) recs, None).
Proof.
  intros Hh Hne Hr. destruct recs as [|r recs]; [contradiction|]. inversion Hr as [|? ? Hr1 Hr2]; subst.
  unfold oui_parse. rewrite (oui_header hdr _ 0 0 Hh). cbn [flat_map].
  rewrite (oui_start r _ _ true None 0 Hr1) by reflexivity.
  rewrite (oui_records_exact recs Hr2). reflexivity.
Qed.

(* rows abut: the first starts where the header ends, each next one where the previous ends, the last ends at EOF *)
Fixpoint abut {K} (off : Z) (rows : list (K * Z * Z)) (eof : Z) : Prop :=
  match rows with
  | [] => off = eof
  | (_, o, s) :: t => o = off /\ 0 < s /\ abut (o + s) t eof
  end.

Lemma olines_pos r : wf_orec r -> 0 < total (olines r).
Proof.
  intros (Hc & _ & _). unfold olines. cbn [total]. pose proof (total_nonneg (o_body r)).
  assert (o_hex r <> "") by (apply (contains_nonempty HEX); [discriminate|assumption]).
  unfold blen. destruct (o_hex r); [contradiction|]. cbn [String.length]. lia.
Qed.

Lemma oui_expected_abut recs : Forall wf_orec recs -> forall off,
  abut off (oui_expected off recs) (off + total (flat_map olines recs)).
Proof.
  induction 1 as [|r recs Hr _ IH]; intro off; cbn [oui_expected flat_map abut total]; [lia|].
  split; [reflexivity|]. split; [now apply olines_pos|]. rewrite total_app.
  replace (off + (total (olines r) + total (flat_map olines recs))) with (off + total (olines r) + total (flat_map olines recs)) by lia.
  apply IH.
Qed.

Lemma oui_expected_keys off recs : map (fun x => fst (fst x)) (oui_expected off recs) = map o_key recs.
Proof. revert off. induction recs as [|r recs IH]; intro off; cbn; [reflexivity|]. now rewrite IH. Qed.

(* ================================================================ IAB *)
(* a record: the `(hex)` line, plain lines, the `(base 16)` line, plain lines *)
Definition plain2 (l : string) : Prop := l <> "" /\ contains HEX l = false /\ contains BASE16 l = false.
Record irec := { i_hex : string; i_pre : list string; i_b16 : string; i_post : list string; i_key : Z }.

(* index = int(prefix.replace(b'-', b'') + b16line.split()[0].split(b'-')[0], 16) >> 12 *)
Definition iab_key_of (hexline b16line : string) : outcome Z :=
  match first_token hexline with
  | None => Raise IndexError
  | Some p =>
      match first_token b16line with
      | None => Raise IndexError
      | Some s => omap (fun v => Z.shiftr v 12) (int16 (remove_hyphens p ++ before_hyphen s))
      end
  end.

Definition wf_irec (r : irec) : Prop :=
  contains HEX (i_hex r) = true /\
  contains HEX (i_b16 r) = false /\ contains BASE16 (i_b16 r) = true /\
  iab_key_of (i_hex r) (i_b16 r) = Ok (i_key r) /\
  Forall plain2 (i_pre r) /\ Forall plain2 (i_post r).
Definition ilines (r : irec) : list string := i_hex r :: i_pre r ++ i_b16 r :: i_post r.

Fixpoint iab_expected (off : Z) (rs : list irec) : list iabrow :=
  match rs with
  | [] => []
  | r :: t => (KI (i_key r), off, total (ilines r)) :: iab_expected (off + total (ilines r)) t
  end.

Lemma iab_header hdr rest tell size : Forall plain hdr ->
  iab_loop (hdr ++ rest) tell true None size = iab_loop rest (tell + total hdr) true None size.
Proof.
  intro H. revert tell. induction H as [|l hdr [Hne Hc] _ IH]; intro tell; cbn [app total]; [f_equal; lia|].
  cbn [iab_loop]. rewrite (eqb_empty_false l Hne), Hc. cbn [andb]. rewrite IH. f_equal. lia.
Qed.

Lemma iab_body body rest tell rec size : Forall plain2 body ->
  iab_loop (body ++ rest) tell false rec size = iab_loop rest (tell + total body) false rec (size + total body).
Proof.
  intro H. revert tell size. induction H as [|l body (Hne & Hc & Hb) _ IH]; intros tell size; cbn [app total]; [f_equal; lia|].
  cbn [iab_loop]. rewrite (eqb_empty_false l Hne), Hc, Hb. cbn [andb]. rewrite IH. f_equal; lia.
Qed.

Lemma iab_start r rest tell skip rec size : wf_irec r -> (skip = true -> rec = None) ->
  iab_loop (ilines r ++ rest) tell skip rec size =
  (match rec with Some (i, o) => emit (i, o, size) | None => fun k => k end)
    (iab_loop rest (tell + total (ilines r)) false (Some (KI (i_key r), tell)) (total (ilines r))).
Proof.
  intros (Hc & Hbh & Hbb & Hk & Hpre & Hpost) Hs. unfold ilines. cbn [app total iab_loop].
  rewrite (eqb_empty_false _ (contains_nonempty HEX _ ltac:(discriminate) Hc)), Hc.
  replace (if skip && true then false else skip) with false by (destruct skip; reflexivity).
  unfold iab_key_of in Hk. destruct (first_token (i_hex r)) as [p|] eqn:Ep; [|discriminate].
  rewrite <- app_assoc. rewrite (iab_body (i_pre r) _ _ _ _ Hpre). cbn [app iab_loop].
  rewrite (eqb_empty_false _ (contains_nonempty BASE16 _ ltac:(discriminate) Hbb)), Hbh, Hbb. cbn [andb].
  destruct (first_token (i_b16 r)) as [s|]; [|discriminate].
  destruct (int16 (remove_hyphens p ++ before_hyphen s)) as [v|e]; [|discriminate]. cbn [omap] in Hk. inversion Hk; subst.
  rewrite (iab_body (i_post r) rest _ _ _ Hpost). rewrite !total_app. cbn [total].
  replace (tell + blen (i_hex r) - blen (i_hex r)) with tell by lia.
  replace (tell + blen (i_hex r) + total (i_pre r) + blen (i_b16 r) + total (i_post r))
    with (tell + (blen (i_hex r) + (total (i_pre r) + (blen (i_b16 r) + total (i_post r))))) by lia.
  replace (blen (i_hex r) + total (i_pre r) + blen (i_b16 r) + total (i_post r))
    with (blen (i_hex r) + (total (i_pre r) + (blen (i_b16 r) + total (i_post r)))) by lia.
  destruct rec as [[i o]|]; reflexivity.
Qed.

Lemma iab_records_exact recs : Forall wf_irec recs -> forall tell i o size,
  iab_loop (flat_map ilines recs) tell false (Some (i, o)) size = ((i, o, size) :: iab_expected tell recs, None).
Proof.
  induction 1 as [|r recs Hr _ IH]; intros tell i o size; [reflexivity|].
  cbn [flat_map]. rewrite (iab_start r _ tell false (Some (i, o)) size Hr) by discriminate.
  rewrite IH. reflexivity.
Qed.

Theorem iab_index_exact hdr recs : Forall plain hdr -> recs <> [] -> Forall wf_irec recs ->
  iab_parse (hdr ++ flat_map ilines recs) = (iab_expected (total hdr) recs, None).
Proof.
  intros Hh Hne Hr. destruct recs as [|r recs]; [contradiction|]. inversion Hr as [|? ? Hr1 Hr2]; subst.
  unfold iab_parse. rewrite (iab_header hdr _ 0 0 Hh). cbn [flat_map].
  rewrite (iab_start r _ _ true None 0 Hr1) by reflexivity.
  rewrite (iab_records_exact recs Hr2). reflexivity.
Qed.

Lemma ilines_pos r : wf_irec r -> 0 < total (ilines r).
Proof.
  intros (Hc & _). unfold ilines. cbn [total]. pose proof (total_nonneg (i_pre r ++ i_b16 r :: i_post r)).
  assert (i_hex r <> "") by (apply (contains_nonempty HEX); [discriminate|assumption]).
  unfold blen. destruct (i_hex r); [contradiction|]. cbn [String.length]. lia.
Qed.

Lemma iab_expected_abut recs : Forall wf_irec recs -> forall off,
  abut off (iab_expected off recs) (off + total (flat_map ilines recs)).
Proof.
  induction 1 as [|r recs Hr _ IH]; intro off; cbn [iab_expected flat_map abut total]; [lia|].
  split; [reflexivity|]. split; [now apply ilines_pos|]. rewrite total_app.
  replace (off + (total (ilines r) + total (flat_map ilines recs))) with (off + total (ilines r) + total (flat_map ilines recs)) by lia.
  apply IH.
Qed.

(* an empty registry (no `(hex)` line at all) makes the parser raise: record is still None at `record.append` *)
Lemma oui_empty_raises hdr : Forall plain hdr -> oui_parse hdr = ([], Some AttributeError).
Proof. intro H. unfold oui_parse. rewrite <- (app_nil_r hdr). now rewrite (oui_header hdr [] 0 0 H). Qed.
Lemma iab_empty_raises hdr : Forall plain hdr -> iab_parse hdr = ([], Some AttributeError).
Proof. intro H. unfold iab_parse. rewrite <- (app_nil_r hdr). now rewrite (iab_header hdr [] 0 0 H). Qed.

(* ================================================================ what the key is for the published token shapes *)
Fixpoint all_hex (s : string) : bool :=
  match s with EmptyString => true | String c t => match hexval c with Some _ => all_hex t | None => false end end.
Fixpoint hexnum (s : string) (acc : Z) : Z :=
  match s with EmptyString => acc | String c t => match hexval c with Some d => hexnum t (16 * acc + d) | None => acc end end.

Lemma digits16_all_hex s : all_hex s = true -> forall acc hd, (s <> "" \/ hd = true) ->
  digits16 s acc false hd = Some (hexnum s acc).
Proof.
  induction s as [|c t IH]; intros H acc hd Hn.
  - destruct Hn as [Hn| ->]; [contradiction|reflexivity].
  - cbn [all_hex] in H. cbn [digits16 hexnum]. destruct (hexval c) as [d|] eqn:E; [|discriminate].
    assert (Ascii.eqb c "_" = false) as ->.
    { destruct (Ascii.eqb_spec c "_"%char); [subst; discriminate|reflexivity]. }
    apply IH; [assumption|now right].
Qed.

Lemma all_hex_no_space s : all_hex s = true -> has_space s = false.
Proof.
  induction s as [|c t IH]; [reflexivity|]. cbn [all_hex has_space]. destruct (hexval c) eqn:E; [|discriminate].
  intro H. rewrite (IH H), orb_false_r.
  destruct c as [[] [] [] [] [] [] [] []]; try reflexivity; discriminate.
Qed.

(* a non-empty run of hex digits (after removing hyphens) is read as that base-16 number *)
Lemma int16_all_hex s : s <> "" -> all_hex s = true -> int16 s = Ok (hexnum s 0).
Proof.
  intros Hne H. unfold int16. rewrite (all_hex_no_space s H).
  destruct s as [|c t]; [contradiction|].
  assert (Hd : digits16 (String c t) 0 false false = Some (hexnum (String c t) 0)).
  { apply digits16_all_hex; [assumption|left; discriminate]. }
  cbn [all_hex] in H. destruct (hexval c) eqn:Ec; [|discriminate].
  destruct c as [[] [] [] [] [] [] [] []]; try discriminate Ec;
    try (rewrite Hd; reflexivity).
  (* c = "0": the 0x test looks at the next character, which is a hex digit, not x/X *)
  destruct t as [|c2 t2]; [rewrite Hd; reflexivity|].
  cbn [all_hex] in H. destruct (hexval c2) eqn:Ec2; [|discriminate].
  destruct c2 as [[] [] [] [] [] [] [] []]; try discriminate Ec2; rewrite Hd; reflexivity.
Qed.

(* ================================================================ the combined statement used by Props/C19.v *)
Theorem index_exact :
  (forall hdr recs, Forall plain hdr -> recs <> [] -> Forall wf_orec recs ->
     oui_parse (hdr ++ flat_map olines recs) = (oui_expected (total hdr) recs, None) /\
     abut (total hdr) (oui_expected (total hdr) recs) (total (hdr ++ flat_map olines recs)) /\
     map (fun x => fst (fst x)) (oui_expected (total hdr) recs) = map o_key recs) /\
  (forall hdr recs, Forall plain hdr -> recs <> [] -> Forall wf_irec recs ->
     iab_parse (hdr ++ flat_map ilines recs) = (iab_expected (total hdr) recs, None) /\
     abut (total hdr) (iab_expected (total hdr) recs) (total (hdr ++ flat_map ilines recs))).
Proof.
  split; intros hdr recs Hh Hne Hr.
  - split; [now apply oui_index_exact|]. split; [rewrite total_app; now apply oui_expected_abut|apply oui_expected_keys].
  - split; [now apply iab_index_exact|]. rewrite total_app. now apply iab_expected_abut.
Qed.

Theorem index_empty_raises : forall hdr, Forall plain hdr ->
  oui_parse hdr = ([], Some AttributeError) /\ iab_parse hdr = ([], Some AttributeError).
Proof. intros hdr H. split; [now apply oui_empty_raises|now apply iab_empty_raises]. Qed.

(* keys for the published token shapes: XX-XX-XX for OUI; XX-XX-XX and YYYYYY-ZZZZZZ for IAB *)
Theorem index_keys_hex :
  (forall line t, first_token line = Some t -> remove_hyphens t <> "" -> all_hex (remove_hyphens t) = true ->
     oui_key_of line = Ok (hexnum (remove_hyphens t) 0)) /\
  (forall hexline b16line p s, first_token hexline = Some p -> first_token b16line = Some s ->
     remove_hyphens p ++ before_hyphen s <> "" -> all_hex (remove_hyphens p ++ before_hyphen s) = true ->
     iab_key_of hexline b16line = Ok (Z.shiftr (hexnum (remove_hyphens p ++ before_hyphen s) 0) 12)).
Proof.
  split.
  - intros line t Ht Hne Hh. unfold oui_key_of. rewrite Ht. now apply int16_all_hex.
  - intros h b p s Hp Hs Hne Hh. unfold iab_key_of. rewrite Hp, Hs. now rewrite int16_all_hex.
Qed.

(* a small registry used by the non-vacuity example of Props/C19.v: LF header, one CRLF record, one LF record *)
Definition LF : string := String "010"%char "".
Definition CRLF : string := String "013"%char LF.
Definition sample_iab : list string :=
  [ "header" ++ LF; LF;
    "00-50-C2   (hex)  ACME" ++ CRLF; "ABC000-ABCFFF (base 16) ACME" ++ CRLF; "  addr" ++ CRLF; CRLF;
    "40-D8-55 (hex) X" ++ LF; "1A1000-1A1FFF (base 16) X" ++ LF; "x" ].

(* ================================================================ registered <-> the index has rows *)
Lemma parse_line_exn value st raw e : parse_line value st raw = Raise e -> e = IndexError.
Proof.
  unfold parse_line. destruct st as [[idx org] address].
  destruct (String.eqb (strip raw) ""); [discriminate|].
  destruct (contains HEX (strip raw)).
  - destruct (third_field (strip raw)); [discriminate|]. now intros [= <-].
  - destruct (contains BASE16 (strip raw)); discriminate.
Qed.
Lemma parse_lines_exn value lines : forall st e, parse_lines value st lines = Raise e -> e = IndexError.
Proof.
  induction lines as [|l t IH]; intros st e; cbn [parse_lines]; [discriminate|].
  destruct (parse_line value st l) as [st'|e'] eqn:E; cbn [bind].
  - apply IH.
  - intros [= <-]. now apply parse_line_exn in E.
Qed.

Lemma oui_records_exn k rows : oui_records k rows <> Raise NotRegisteredError.
Proof.
  induction rows as [|[[o s] d] t IH]; cbn [oui_records]; [discriminate|].
  destruct (parse_data k d) as [r|e] eqn:E; cbn [bind].
  - destruct (oui_records k t) as [rs|e]; cbn [bind]; [discriminate|]. intros [= ->]. now apply IH.
  - intros [= ->]. unfold parse_data in E. apply parse_lines_exn in E. discriminate.
Qed.

Theorem registered_iff_rows :
  (forall k rows, 0 <= k <= 16777215 -> (oui_lookup k rows = Raise NotRegisteredError <-> rows = [])) /\
  (forall k v rows, iab_value k = Ok v -> (iab_lookup k rows = Raise NotRegisteredError <-> rows = [])).
Proof.
  split.
  - intros k rows Hk. unfold oui_lookup.
    replace ((0 <=? k) && (k <=? 16777215))%Z with true by (symmetry; apply andb_true_iff; split; lia).
    destruct rows as [|row t]; [tauto|]. split; [|discriminate]. intro H. now apply oui_records_exn in H.
  - intros k v rows Hv. unfold iab_lookup. rewrite Hv. cbn [bind].
    destruct rows as [|[[o s] d] t]; [tauto|]. split; [|discriminate].
    destruct (parse_data v d) as [r|e] eqn:E; cbn [bind]; [discriminate|].
    intros [= ->]. unfold parse_data in E. apply parse_lines_exn in E. discriminate.
Qed.
