(* Proofs/C01.v — assembly: back-end invariance, strict parsing = standard grammar, print/parse round trip,
   rejection classes. *)
From Coq Require Import String Ascii.
From NV Require Import Base.Tac Base.PyVal Base.Bits Base.PyStr Base.PyStrFacts Model.IpText Model.FbSocket Model.AddrText
  Proofs.C01_Chars Proofs.C01_V6 Proofs.C01_Value Proofs.C01_V4 Proofs.C01_Fb Proofs.C01_Strict6.
Open Scope Z_scope.

(* ================================================================ the two back-ends coincide *)
Lemma inet_pton4_be be s : inet_pton4 be s = of_option (Std4.pton4 s).
Proof. destruct be; [reflexivity|apply fb_pton4_eq]. Qed.
Lemma inet_pton6_be be s : inet_pton6 be s = of_option (Std6.pton6 s).
Proof. destruct be; [reflexivity|apply fb_pton6_eq]. Qed.
Lemma inet_ntop6_be be ws : Forall word ws -> List.length ws = 8%nat -> inet_ntop6 be ws = Ok (Std6.ntop6 ws).
Proof. intros. destruct be; [reflexivity|now apply fb_ntop6_eq]. Qed.

Lemma v4_parse_be be s flags : v4_parse be s flags = v4_parse Platform s flags.
Proof. unfold v4_parse. destruct (if has_flag flags ZEROFILL then _ else _); cbn [bind]; [|reflexivity].
  destruct (has_flag flags INET_PTON); [|reflexivity]. now rewrite !inet_pton4_be. Qed.

Theorem str_to_int_be be ver s flags : str_to_int be ver s flags = str_to_int Platform ver s flags.
Proof. unfold str_to_int, v4_str_to_int, v6_str_to_int. rewrite v4_parse_be, !inet_pton6_be. reflexivity. Qed.

Theorem valid_str_be be ver s flags : valid_str be ver s flags = valid_str Platform ver s flags.
Proof. unfold valid_str, v4_valid_str, v6_valid_str. rewrite v4_parse_be, !inet_pton6_be. reflexivity. Qed.

Theorem init_str_be be s version flags : init_str be s version flags = init_str Platform s version flags.
Proof. unfold init_str. destruct version as [v|]; cbn [bind].
  - destruct (v =? 4); cbn [bind]; [now rewrite str_to_int_be|]. destruct (v =? 6); cbn [bind]; [now rewrite str_to_int_be|reflexivity].
  - now rewrite !(str_to_int_be be). Qed.

Lemma pack_4I_words ws32 p : pack_4I ws32 = Ok p -> Forall word p /\ List.length p = 8%nat.
Proof. unfold pack_4I. destruct ws32 as [|a [|b [|c [|d [|e r]]]]]; try discriminate.
  destruct (forallb _ _) eqn:F; [|discriminate]. intros E. injection E as <-. split; [|reflexivity].
  cbn [forallb] in F. rewrite !andb_true_iff in F. unfold word.
  repeat constructor; try (apply Z.mod_pos_bound; lia); try (apply Z.div_pos; lia); try (apply Z.div_lt_upper_bound; lia). Qed.

Theorem int_to_str_be be ver v d : int_to_str be ver v d = int_to_str Platform ver v d.
Proof. unfold int_to_str. destruct (ver =? 4); [reflexivity|]. unfold v6_int_to_str, int_to_packed.
  destruct (int_to_words v 32 4) as [ws32|]; cbn [bind]; [|reflexivity].
  destruct (pack_4I ws32) as [p|] eqn:P; cbn [bind]; [|reflexivity].
  destruct (compact _); [|reflexivity]. destruct (pack_4I_words _ _ P). now rewrite !inet_ntop6_be. Qed.

(* ================================================================ strict parsing = the standard grammar *)
Definition flags_strict (flags : Z) : Prop := flags = INET_PTON.

Theorem strict_exact_v4 be s :
  str_to_int be 4 s INET_PTON =
  match Std4.pton4 s with
  | Some o => match unpack_I o with Ok v => Ok v | Raise _ => Raise AddrFormatError end
  | None => Raise AddrFormatError
  end.
Proof. unfold str_to_int. cbn [Z.eqb]. unfold v4_str_to_int, v4_parse. change (has_flag INET_PTON ZEROFILL) with false.
  change (has_flag INET_PTON INET_PTON) with true. cbn [bind]. rewrite inet_pton4_be.
  destruct (Std4.pton4 s); reflexivity. Qed.

Theorem strict_exact_v6 be s flags :
  str_to_int be 6 s flags =
  match Std6.pton6 s with
  | Some ws => match packed_to_int ws with Ok v => Ok v | Raise _ => Raise AddrFormatError end
  | None => Raise AddrFormatError
  end.
Proof. unfold str_to_int. cbn [Z.eqb]. unfold v6_str_to_int. rewrite inet_pton6_be. destruct (Std6.pton6 s); reflexivity. Qed.

(* ================================================================ rejection classes *)
Lemma str_to_int_raises be ver s flags e : str_to_int be ver s flags = Raise e -> e = AddrFormatError.
Proof. unfold str_to_int, v4_str_to_int, v6_str_to_int. destruct (ver =? 4).
  - destruct (v4_parse be s flags); intros H; [discriminate|now injection H as <-].
  - destruct (do p <- inet_pton6 be s; packed_to_int p); intros H; [discriminate|now injection H as <-]. Qed.

Theorem reject_kind be s version flags e : init_str be s version flags = Raise e ->
  e = AddrFormatError \/
  (e = ValueError /\ (contains_char "/" s = true \/ exists v, version = Some v /\ v <> 4 /\ v <> 6)).
Proof. unfold init_str. destruct version as [v|]; cbn [bind].
  - case_eqb v 4; cbn [bind].
    + subst. destruct (contains_char "/" s); [intros H; injection H as <-; right; auto|].
      destruct (str_to_int be 4 s flags) as [x|e'] eqn:E; [discriminate|].
      apply str_to_int_raises in E. subst e'. intros H. injection H as <-. now left.
    + case_eqb v 6; cbn [bind].
      * subst. destruct (contains_char "/" s); [intros H; injection H as <-; right; auto|].
        destruct (str_to_int be 6 s flags) as [x|e'] eqn:E; [discriminate|].
        apply str_to_int_raises in E. subst e'. intros H. injection H as <-. now left.
      * intros H. injection H as <-. right. split; [reflexivity|]. right. exists v. auto.
  - destruct (contains_char "/" s); [intros H; injection H as <-; right; auto|].
    destruct (str_to_int be 4 s flags); [discriminate|]. destruct (str_to_int be 6 s flags); [discriminate|].
    intros H. injection H as <-. now left. Qed.

(* ================================================================ print / parse round trip: IPv4 *)
Lemma has_flag_cases flags : flags = 0 \/ flags = 1 \/ flags = 2 \/ flags = 3 ->
  (has_flag flags ZEROFILL = true <-> (flags = 2 \/ flags = 3)) /\ (has_flag flags INET_PTON = true <-> (flags = 1 \/ flags = 3)).
Proof. intros [-> | [-> | [-> | ->]]]; vm_compute; split; split; intros; try discriminate; try lia; auto. Qed.

Lemma octets_of_4 v : exists a b c d, octets_of v = [a; b; c; d]. Proof. repeat eexists. Qed.

Lemma v4_str_to_int_printed be v flags : 0 <= v < 2 ^ 32 -> flags = 0 \/ flags = 1 \/ flags = 2 \/ flags = 3 ->
  v4_str_to_int be (Std4.ntoa (octets_of v)) flags = Ok v.
Proof. intros Hv Hf. unfold v4_str_to_int, v4_parse.
  pose proof (octets_of_octet v Hv) as O. unfold octets_of in *.
  repeat match goal with H : Forall _ (_ :: _) |- _ => inversion H; clear H; subst end.
  match goal with H : Forall _ [] |- _ => clear H end.
  set (a := v / 16777216) in *. set (b := (v / 65536) mod 256) in *. set (c := (v / 256) mod 256) in *. set (d := v mod 256) in *.
  assert (ZR : (if has_flag flags ZEROFILL then zerofill_rewrite (Std4.ntoa [a; b; c; d]) else Ok (Std4.ntoa [a; b; c; d]))
               = Ok (Std4.ntoa [a; b; c; d])).
  { destruct (has_flag flags ZEROFILL); [|reflexivity]. unfold octetP in *. apply zerofill_rewrite_ntoa; lia. }
  rewrite ZR. cbn [bind].
  destruct (has_flag flags INET_PTON).
  - rewrite inet_pton4_be. unfold Std4.pton4, Std4.ntoa. rewrite chars_str_of, pton4_ntoa by assumption.
    cbn [of_option bind]. pose proof (unpack_I_octets v Hv) as U. unfold octets_of in U. fold a b c d in U. now rewrite U.
  - unfold Std4.aton, Std4.ntoa. rewrite chars_str_of, aton_ntoa by assumption. cbn [of_option].
    f_equal. subst a b c d. change (2 ^ 32) with 4294967296 in Hv. lia_dm. Qed.

Theorem print_parse_v4 be v d version flags : 0 <= v < 2 ^ 32 ->
  version = None \/ version = Some 4 -> flags = 0 \/ flags = 1 \/ flags = 2 \/ flags = 3 ->
  (do s <- int_to_str be 4 v d; init_str be s version flags) = Ok (4, v).
Proof. intros Hv Hver Hf. unfold int_to_str. change (4 =? 4) with true. cbn iota. rewrite v4_int_to_str_eq by exact Hv. cbn [bind].
  unfold init_str.
  assert (NS : contains_char "/" (Std4.ntoa (octets_of v)) = false).
  { unfold Std4.ntoa, contains_char. rewrite chars_str_of. unfold octets_of. rewrite ntoa_chars_4.
    pose proof (octets_of_octet v Hv) as O. unfold octets_of, octetP in O.
    repeat match goal with H : Forall _ (_ :: _) |- _ => inversion H; clear H; subst end.
    rewrite !existsb_app. cbn [existsb]. rewrite !existsb_app. cbn [existsb]. rewrite !existsb_app. cbn [existsb].
    pose proof (fun a Ha => fmt_d_no_slash a Ha) as NS. unfold contains_char in NS. unfold D. rewrite !NS by lia. reflexivity. }
  destruct Hver as [-> | ->]; change (4 =? 4) with true; cbn [bind]; rewrite NS; unfold str_to_int; change (4 =? 4) with true;
    cbn iota; rewrite v4_str_to_int_printed by assumption; reflexivity. Qed.

(* ================================================================ print / parse round trip: IPv6 *)
Definition colon_headed (l : list ascii) : Prop :=
  exists h r, l = h ++ ch_colon :: r /\ Forall (fun c => is_hex c = true) h.

Lemma v4_rejects_colon_headed be s flags : colon_headed (chars s) -> flags = 0 \/ flags = 1 ->
  v4_str_to_int be s flags = Raise AddrFormatError.
Proof. intros (h & r & E & HF) [-> | ->]; unfold v4_str_to_int, v4_parse.
  - change (has_flag 0 ZEROFILL) with false. change (has_flag 0 INET_PTON) with false. cbn [bind].
    unfold Std4.aton. rewrite E, aton_colon by exact HF. reflexivity.
  - change (has_flag 1 ZEROFILL) with false. change (has_flag 1 INET_PTON) with true. cbn [bind].
    rewrite inet_pton4_be. unfold Std4.pton4. rewrite pton4_colon; [reflexivity|]. rewrite E. apply in_or_app. right. now left. Qed.

Lemma all_hex_T w : 0 <= w -> Forall (fun c => is_hex c = true) (T w).
Proof. intros Hw. pose proof (fmt_x_hexdigits w Hw) as F. apply forallb_is_hex in F. rewrite forallb_forall in F.
  apply Forall_forall. exact F. Qed.
Lemma all_hex_T4 w : 0 <= w -> Forall (fun c => is_hex c = true) (T4 w).
Proof. intros Hw. pose proof (fmt_x_pad_hexdigits 4 w Hw) as F. apply forallb_is_hex in F. rewrite forallb_forall in F.
  apply Forall_forall. exact F. Qed.

Lemma colon_headed_join t u r : Forall (fun c => is_hex c = true) t -> colon_headed (Std6.join_colon (t :: u :: r)).
Proof. intros H. rewrite join_colon_cons. eexists t, _. split; [reflexivity|exact H]. Qed.

Lemma colon_headed_render toks b n : (2 <= List.length toks)%nat ->
  (forall t r, toks = t :: r -> Forall (fun c => is_hex c = true) t) ->
  colon_headed (Std6.join_colon (firstn b toks) ++ Std6.dcolon ++ Std6.join_colon (skipn (b + n) toks)).
Proof. intros L H. destruct b as [|b].
  - exists [], (ch_colon :: Std6.join_colon (skipn (0 + n) toks)). split; [reflexivity|constructor].
  - destruct toks as [|t r]; [cbn in L; lia|]. specialize (H t r eq_refl). cbn [firstn].
    destruct (firstn b r) as [|u r'].
    + exists t, (ch_colon :: Std6.join_colon (skipn (S b + n) (t :: r))). split; [reflexivity|exact H].
    + rewrite join_colon_cons. rewrite <- app_assoc. eexists t, _. split; [reflexivity|exact H]. Qed.

Lemma ntop6_colon_headed ws : Forall word ws -> List.length ws = 8%nat -> colon_headed (Std6.ntop6_chars ws).
Proof. intros HF L. destruct (length8 ws L) as (w0 & w1 & w2 & w3 & w4 & w5 & w6 & w7 & ->).
  inversion HF as [|? ? H0 _]; subst. unfold Std6.ntop6_chars.
  set (toks := if Std6.dotted_form _ then _ else _).
  assert (TK : (2 <= List.length toks)%nat /\ forall t r, toks = t :: r -> Forall (fun c => is_hex c = true) t).
  { subst toks. destruct (Std6.dotted_form _); cbn [map firstn app List.length]; (split; [lia|]);
      intros t r E; injection E as <- _; apply (all_hex_T w0); apply H0. }
  destruct TK as [TL TH].
  destruct (Std6.best_run _) as [[b n]|].
  - now apply colon_headed_render.
  - destruct toks as [|t [|u r]]; try (cbn in TL; lia). apply colon_headed_join. eapply TH; eauto. Qed.

Lemma no_slash_hex_join (f : Z -> list ascii) ws :
  (forall w, In w ws -> existsb (ascii_eqb "/") (f w) = false) -> existsb (ascii_eqb "/") (Std6.join_colon (map f ws)) = false.
Proof. induction ws as [|w ws IH]; intros H; [reflexivity|]. destruct ws as [|w' ws'].
  - cbn. apply H. now left.
  - cbn [map]. rewrite join_colon_cons. rewrite existsb_app. cbn [existsb]. rewrite H by (now left).
    change (ascii_eqb "/" ch_colon) with false. cbn [orb]. apply IH. intros x Hx. apply H. now right. Qed.

Definition dialect_ok (d : option dialect) : Prop :=
  d = None \/ d = Some ipv6_compact \/ d = Some ipv6_full \/ d = Some ipv6_verbose.

Lemma pton6_some_no_slash l g : Std6.pton6_chars l = Some g -> existsb (ascii_eqb "/") l = false.
Proof. intros H. destruct (existsb (ascii_eqb "/") l) eqn:E; [|reflexivity].
  apply existsb_exists in E. destruct E as (x & Hx & Ex). apply ascii_eqb_eq in Ex. subst x.
  rewrite (pton6_badchar "/" l eq_refl Hx) in H. discriminate. Qed.

Lemma words_of_head v : exists w0 w1 r, words_of v = w0 :: w1 :: r. Proof. repeat eexists. Qed.

Lemma v6_printed be v d : 0 <= v < 2 ^ 128 -> dialect_ok d ->
  exists l, v6_int_to_str be v d = Ok (str_of l) /\ Std6.pton6_chars l = Some (words_of v) /\ colon_headed l.
Proof. intros Hv Hd. pose proof (words_of_word v Hv) as W. pose proof (words_of_length v) as L.
  unfold v6_int_to_str. rewrite int_to_packed_ok by exact Hv. cbn [bind].
  assert (C : forall dl, compact dl = true ->
    exists l, match (if compact dl then inet_ntop6 be (words_of v) else
                     Ok (join ":" (map (fun w => if pad4 dl then fmt_x_pad 4 w else fmt_x w) (words_of v)))) with
              | Ok s => Ok s | Raise _ => Raise ValueError end = Ok (str_of l) /\
              Std6.pton6_chars l = Some (words_of v) /\ colon_headed l).
  { intros dl Hc. rewrite Hc, inet_ntop6_be by assumption. exists (Std6.ntop6_chars (words_of v)).
    split; [reflexivity|]. split; [now apply pton6_ntop6|now apply ntop6_colon_headed]. }
  destruct Hd as [-> | [-> | [-> | ->]]].
  - apply (C ipv6_compact eq_refl).
  - apply (C ipv6_compact eq_refl).
  - cbn [compact pad4 ipv6_full]. exists (Std6.join_colon (map T (words_of v))). split; [|split].
    + rewrite join_as_chars, map_map. reflexivity.
    + apply (pton6_plain T T_word_hextet T_word_no_dot T_word_no_colon T_word_nonempty); assumption.
    + destruct (words_of_head v) as (w0 & w1 & r & E). rewrite E in *. cbn [map]. apply colon_headed_join.
      inversion W; subst. apply all_hex_T. unfold word in *; lia.
  - cbn [compact pad4 ipv6_verbose]. exists (Std6.join_colon (map T4 (words_of v))). split; [|split].
    + rewrite join_as_chars, map_map. reflexivity.
    + apply (pton6_plain T4 T4_word_hextet T4_word_no_dot T4_word_no_colon T4_word_nonempty); assumption.
    + destruct (words_of_head v) as (w0 & w1 & r & E). rewrite E in *. cbn [map]. apply colon_headed_join.
      inversion W; subst. apply all_hex_T4. unfold word in *; lia. Qed.

Theorem print_parse_v6 be v d version flags : 0 <= v < 2 ^ 128 -> dialect_ok d ->
  (version = Some 6 \/ (version = None /\ (flags = 0 \/ flags = 1))) ->
  (do s <- int_to_str be 6 v d; init_str be s version flags) = Ok (6, v).
Proof. intros Hv Hd Hver. unfold int_to_str. change (6 =? 4) with false. cbn iota.
  destruct (v6_printed be v d Hv Hd) as (l & -> & P & CH). cbn [bind].
  assert (NS : contains_char "/" (str_of l) = false).
  { unfold contains_char. rewrite chars_str_of. eapply pton6_some_no_slash; eauto. }
  assert (V6 : forall fl, str_to_int be 6 (str_of l) fl = Ok v).
  { intros fl. rewrite strict_exact_v6. unfold Std6.pton6. rewrite chars_str_of, P.
    now rewrite packed_to_int_words by exact Hv. }
  unfold init_str. destruct Hver as [-> | [-> Hf]].
  - change (6 =? 4) with false. change (6 =? 6) with true. cbn [bind]. rewrite NS, V6. reflexivity.
  - cbn [bind]. rewrite NS. unfold str_to_int at 1. change (4 =? 4) with true. cbn iota.
    rewrite v4_rejects_colon_headed; [|now rewrite chars_str_of|exact Hf]. now rewrite V6. Qed.

(* independent standard parser reads the same value from the printed text (stated on the Std oracles) *)
Theorem printed_standard_v4 be v d : 0 <= v < 2 ^ 32 ->
  exists s, int_to_str be 4 v d = Ok s /\ Std4.pton4 s = Some (octets_of v).
Proof. intros Hv. exists (Std4.ntoa (octets_of v)). unfold int_to_str. change (4 =? 4) with true. cbn iota.
  split; [now apply v4_int_to_str_eq|]. pose proof (octets_of_octet v Hv) as O. unfold octets_of in *.
  repeat match goal with H : Forall _ (_ :: _) |- _ => inversion H; clear H; subst end.
  unfold Std4.pton4, Std4.ntoa. rewrite chars_str_of. now apply pton4_ntoa. Qed.

Theorem printed_standard_v6 be v d : 0 <= v < 2 ^ 128 -> dialect_ok d ->
  exists s, int_to_str be 6 v d = Ok s /\ Std6.pton6 s = Some (words_of v).
Proof. intros Hv Hd. unfold int_to_str. change (6 =? 4) with false. cbn iota.
  destruct (v6_printed be v d Hv Hd) as (l & E & P & _). exists (str_of l). split; [exact E|].
  unfold Std6.pton6. now rewrite chars_str_of. Qed.

(* ================================================================ ZEROFILL: zero-padded dotted quads *)
Lemma join_dot_no_slash a b c d : contains_char "/" a = false -> contains_char "/" b = false ->
  contains_char "/" c = false -> contains_char "/" d = false -> contains_char "/" (join "." [a; b; c; d]) = false.
Proof. intros. rewrite join_cons, join_cons, join_two. rewrite !contains_char_app. rewrite H, H0, H1, H2. reflexivity. Qed.

Theorem zerofill_padded be k1 k2 k3 k4 a b c d version flags :
  octetP a -> octetP b -> octetP c -> octetP d -> version = None \/ version = Some 4 -> flags = 2 \/ flags = 3 ->
  init_str be (join "." [fmt_d_pad k1 a; fmt_d_pad k2 b; fmt_d_pad k3 c; fmt_d_pad k4 d]) version flags =
  Ok (4, ((a * 256 + b) * 256 + c) * 256 + d).
Proof. unfold octetP. intros Ha Hb Hc Hd Hver Hf. set (s := join "." _).
  assert (NS : contains_char "/" s = false) by (apply join_dot_no_slash; apply fmt_d_pad_no_char; (lia || reflexivity)).
  assert (P : v4_str_to_int be s flags = Ok (((a * 256 + b) * 256 + c) * 256 + d)).
  { unfold v4_str_to_int, v4_parse.
    assert (Z : has_flag flags ZEROFILL = true) by (destruct Hf as [-> | ->]; reflexivity). rewrite Z.
    subst s. rewrite zerofill_rewrite_padded by lia. cbn [bind].
    destruct (has_flag flags INET_PTON).
    - rewrite inet_pton4_be. unfold Std4.pton4, Std4.ntoa. rewrite chars_str_of, pton4_ntoa by (unfold octetP; lia). reflexivity.
    - unfold Std4.aton, Std4.ntoa. rewrite chars_str_of, aton_ntoa by (unfold octetP; lia). reflexivity. }
  unfold init_str. destruct Hver as [-> | ->]; change (4 =? 4) with true; cbn [bind]; rewrite NS; unfold str_to_int;
    change (4 =? 4) with true; cbn iota; rewrite P; reflexivity. Qed.
