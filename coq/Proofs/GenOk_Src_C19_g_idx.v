(* Proofs/GenOk_Src_C19_g_idx.v -- source tie for C19, tag SRCG, third part: ieee.load_index (Gen/pysrc_ieeeg_gen.v) against the hand
   model Model/IeeeIndex.v load_rows, and the fact the constructors' tie needs: loading rows into an index without empty entries
   (in particular into the empty dict the module starts with) gives an index without empty entries. *)
From Coq Require Import String Ascii.
From NV Require Import Base.Tac Base.PyVal Base.PyStr Model.SrcPrelude Model.SrcPreludeStr Model.SrcPreludeG Model.IeeeIndex
  Gen.pysrc_ieeeg_gen.
Import ListNotations.
Open Scope list_scope.
Open Scope Z_scope.

Lemma map_og_ints row : py_map_og (py_int_o 10) row = ints_of row.
Proof.
  induction row as [|s t IH]; [reflexivity|]. cbn [py_map_og ints_of]. unfold py_int_o at 1.
  destruct (py_int 10 s); [|reflexivity]. cbn [bind]. rewrite IH. reflexivity.
Qed.

Lemma eidx_mem_app d k e : py_eidx_mem (d ++ e) k = py_eidx_mem d k || py_eidx_mem e k.
Proof.
  unfold py_eidx_mem. induction d as [|[k' l] t IH]; [cbn; destruct (py_eidx_find e k); reflexivity|].
  cbn [app py_eidx_find]. destruct (k' =? k); [reflexivity|apply IH].
Qed.

(* setdefault followed by append = the model's index_add *)
Lemma setdefault_append index key row :
  py_eidx_append (py_eidx_setdefault index key) key row = Ok (index_add index key row).
Proof.
  unfold py_eidx_setdefault, py_eidx_mem. induction index as [|[k l] t IH].
  - cbn. rewrite Z.eqb_refl. reflexivity.
  - cbn [py_eidx_find index_add]. destruct (k =? key) eqn:E.
    + cbn [py_eidx_append]. rewrite E. reflexivity.
    + destruct (py_eidx_find t key) eqn:F.
      * cbn [py_eidx_append]. rewrite E. rewrite IH. reflexivity.
      * cbn [app py_eidx_append]. rewrite E. rewrite IH. reflexivity.
Qed.

Lemma src_load_loop_ok rows : forall index, src_ieee_load_index_loop1 rows index = load_rows index rows.
Proof.
  induction rows as [|row t IH]; intros index; [reflexivity|].
  cbn [src_ieee_load_index_loop1 load_rows]. rewrite map_og_ints.
  destruct (ints_of row) as [vs|e]; [|reflexivity]. cbn [bind].
  destruct vs as [|a [|b [|c [|d r]]]]; try reflexivity.
  cbn [py_triple_of_list bind]. cbv zeta. rewrite setdefault_append. cbn [bind]. apply IH.
Qed.

Lemma src_load_index_ok CSV index fp : src_ieee_load_index CSV index fp = load_rows index (CSV fp).
Proof. unfold src_ieee_load_index. rewrite src_load_loop_ok. destruct (load_rows index (CSV fp)); reflexivity. Qed.

(* no empty entry *)
Lemma find_index_add index key row k :
  py_eidx_find (index_add index key row) k =
  if k =? key then Some (match py_eidx_find index key with Some l => l | None => [] end ++ [row]) else py_eidx_find index k.
Proof.
  induction index as [|[k' l] t IH].
  - cbn. rewrite (Z.eqb_sym key k). destruct (k =? key); reflexivity.
  - cbn [index_add py_eidx_find]. destruct (k' =? key) eqn:E.
    + apply Z.eqb_eq in E. subst k'. cbn [py_eidx_find]. rewrite (Z.eqb_sym key k). destruct (k =? key); reflexivity.
    + cbn [py_eidx_find]. destruct (k' =? k) eqn:E2.
      * apply Z.eqb_eq in E2. subst k'. rewrite E. reflexivity.
      * apply IH.
Qed.

Lemma no_empty_add index key row : no_empty index -> no_empty (index_add index key row).
Proof.
  intros H k. rewrite find_index_add. destruct (k =? key); [|apply H].
  intros E. inversion E as [E']. destruct (match py_eidx_find index key with Some l => l | None => [] end); discriminate.
Qed.

Lemma load_rows_no_empty rows : forall index index', no_empty index -> load_rows index rows = Ok index' -> no_empty index'.
Proof.
  induction rows as [|row t IH]; intros index index' H; cbn [load_rows].
  - intros E. inversion E. subst. exact H.
  - destruct (ints_of row) as [vs|e]; cbn [bind]; [|discriminate].
    destruct vs as [|a [|b [|c [|d r]]]]; try discriminate. apply IH, no_empty_add, H.
Qed.

Lemma no_empty_nil : no_empty [].
Proof. intros k. cbn. discriminate. Qed.

Lemma C19_tie_g_idx_ok :
  (forall CSV index fp, src_ieee_load_index CSV index fp = load_rows index (CSV fp)) /\
  (forall CSV index fp index', no_empty index -> src_ieee_load_index CSV index fp = Ok index' -> no_empty index') /\
  (forall index key row k, py_eidx_find (index_add index key row) k =
     if k =? key then Some (match py_eidx_find index key with Some l => l | None => [] end ++ [row]) else py_eidx_find index k).
Proof.
  split; [exact src_load_index_ok|]. split; [|exact find_index_add].
  intros CSV index fp index' H E. rewrite src_load_index_ok in E. exact (load_rows_no_empty _ _ _ H E).
Qed.
