(* Proofs/GenOk_Src_C20_g.v -- source tie for C20, tag SRCG: SubnetSplitter.__init__ on an IPNetwork argument
   (Gen/pysrc_splitterg_gen.v): the new object holds exactly that network, whatever state parameter is passed in (a constructor
   reads none) -- the initial state [base] of the histories of Props/C20.v. *)
From NV Require Import Base.Tac Base.PyVal Model.Ip Model.Partition Model.Merge Model.Splitter Model.SrcPrelude Gen.pysrc_splitterg_gen Proofs.GenOk_Src_C09 Proofs.GenOk_Src_C20.
Import ListNotations.
Open Scope Z_scope.

Lemma C20_tie_g_ok : forall ver st0 k, src_SubnetSplitter_init st0 (net_of_cblk ver k) = nets ver [k].
Proof. intros. reflexivity. Qed.
