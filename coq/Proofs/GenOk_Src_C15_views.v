(* Proofs/GenOk_Src_C15_views.v -- source tie for C15 (and C14's __hex__), IPAddress accessors: the definitions regenerated from
   the text of IPAddress.bits / bin / words / packed / reverse_dns / __bytes__ / __hex__ (Gen/pysrc_ipviews_gen.v) equal the
   hand-written accessors of Model/Codec.v (ip_bits, m_int_to_bin, m_int_to_words, m_int_to_packed, ip_reverse_dns, ip_bytes)
   read with the strategy module's row `d` of the dialect table, and AddrOps.view_hex.  The module functions themselves are
   symbols (Model/SrcPreludeViews.v = those hand models): what the tie covers is the text of the accessor methods -- which
   module function is called, with which arguments. *)
From Coq Require Import String Ascii.
From NV Require Import Base.Tac Base.PyVal Base.PyStr Model.Ip Model.Codec Model.AddrOps Model.SrcPrelude Model.SrcPreludeSRCE
  Model.SrcPreludeViews Gen.pysrc_gen Gen.pysrc_ipviews_gen.
Import ListNotations.
Open Scope Z_scope.

Section Row.
Variables (ver : Z) (d : dialect).
Hypothesis Hd : find_dialect (py_mod_fam ver) "" = Some d.

Lemma src_views_row w v sep :
  src_IPAddress_bits ver w v sep = ip_bits d v sep /\
  src_IPAddress_bin ver w v = m_int_to_bin d v /\
  src_IPAddress_words ver w v = m_int_to_words (py_mod_fam ver) d v /\
  src_IPAddress_packed ver w v = m_int_to_packed (py_mod_fam ver) d v /\
  src_IPAddress_reverse_dns ver w v = ip_reverse_dns (py_mod_fam ver) d v /\
  (w = d_width d -> src_IPAddress_bytes ver w v = ip_bytes d v).
Proof.
  unfold src_IPAddress_bits, src_IPAddress_bin, src_IPAddress_words, src_IPAddress_packed, src_IPAddress_reverse_dns,
    src_IPAddress_bytes, py_mod_int_to_bits, py_mod_int_to_bin, py_mod_int_to_words, py_mod_int_to_packed, py_mod_int_to_arpa,
    py_mod_row. rewrite Hd. repeat split. intros ->. reflexivity.
Qed.
End Row.

(* the two IP modules have their rows, of the modules' widths *)
Lemma ip_rows : exists d4 d6, find_dialect (py_mod_fam 4) "" = Some d4 /\ find_dialect (py_mod_fam 6) "" = Some d6 /\
  d_width d4 = width 4 /\ d_width d6 = width 6.
Proof. eexists. eexists. repeat split; vm_compute; reflexivity. Qed.

Lemma src_hex_ok ver w v : src_IPAddress_hex ver w v = view_hex v.
Proof. unfold src_IPAddress_hex, py_fmt_hex, view_hex. destruct (fmt_x v); reflexivity. Qed.

Lemma C15_views_tie_ok :
  (forall ver d, find_dialect (py_mod_fam ver) "" = Some d -> forall w v sep,
     src_IPAddress_bits ver w v sep = ip_bits d v sep /\
     src_IPAddress_bin ver w v = m_int_to_bin d v /\
     src_IPAddress_words ver w v = m_int_to_words (py_mod_fam ver) d v /\
     src_IPAddress_packed ver w v = m_int_to_packed (py_mod_fam ver) d v /\
     src_IPAddress_reverse_dns ver w v = ip_reverse_dns (py_mod_fam ver) d v /\
     (w = d_width d -> src_IPAddress_bytes ver w v = ip_bytes d v)) /\
  (exists d4 d6, find_dialect (py_mod_fam 4) "" = Some d4 /\ find_dialect (py_mod_fam 6) "" = Some d6 /\
     d_width d4 = width 4 /\ d_width d6 = width 6) /\
  (forall ver w v, src_IPAddress_hex ver w v = view_hex v).
Proof. split; [exact src_views_row|]. split; [exact ip_rows|exact src_hex_ok]. Qed.
