(* Proofs/GenOk_Src_C12.v — source tie for C12: the definitions regenerated from the text of key() / sort_key() of
   IPAddress and IPNetwork, and key() / first / last / size of IPRange, equal the hand-written model of Model/Order.v
   (Python tuples of ints are lists of Z there).  IPRange.sort_key calls core.num_bits and is on the skip list. *)
From NV Require Import Base.Tac Base.PyVal Model.Ip Model.Order Model.SrcPrelude Gen.pysrc_gen Proofs.GenOk_Src_Const.
Open Scope Z_scope.

Lemma src_addr_key_ok ver w v : src_IPAddress_key ver w v = key (Addr ver v).
Proof. reflexivity. Qed.
Lemma src_addr_sort_key_ok ver v : src_IPAddress_sort_key ver (width ver) v = sort_key (Addr ver v).
Proof. reflexivity. Qed.
Lemma src_net_key_ok ver v p : src_IPNetwork_key ver (width ver) v p = key (Net ver v p).
Proof. reflexivity. Qed.
Lemma src_net_sort_key_ok ver v p : src_IPNetwork_sort_key ver (width ver) v p = sort_key (Net ver v p).
Proof. reflexivity. Qed.
Lemma src_range_key_ok ver w s e : src_IPRange_key ver w s e = key (Range ver s e).
Proof. reflexivity. Qed.
Lemma src_range_first_ok ver w s e : src_IPRange_first ver w s e = range_first s e.
Proof. reflexivity. Qed.
Lemma src_range_last_ok ver w s e : src_IPRange_last ver w s e = range_last s e.
Proof. reflexivity. Qed.
Lemma src_range_size_ok ver w s e : src_IPRange_size ver w s e = range_size s e.
Proof. reflexivity. Qed.

Lemma C12_tie_ok :
  (forall ver w v, src_IPAddress_key ver w v = key (Addr ver v)) /\
  (forall ver v, src_IPAddress_sort_key ver (width ver) v = sort_key (Addr ver v)) /\
  (forall ver v p,
     src_IPNetwork_key ver (width ver) v p = key (Net ver v p) /\
     src_IPNetwork_sort_key ver (width ver) v p = sort_key (Net ver v p)) /\
  (forall ver w s e,
     src_IPRange_key ver w s e = key (Range ver s e) /\
     src_IPRange_first ver w s e = range_first s e /\
     src_IPRange_last ver w s e = range_last s e /\
     src_IPRange_size ver w s e = range_size s e) /\
  (src_ipv4_version = 4 /\ src_ipv6_version = 6 /\
   src_ipv4_width = width src_ipv4_version /\ src_ipv6_width = width src_ipv6_version /\
   src_ipv4_max_int = max_int_w src_ipv4_width /\ src_ipv6_max_int = max_int_w src_ipv6_width /\
   src_ipv4_max_int = max_int 4 /\ src_ipv6_max_int = max_int 6).
Proof.
  split; [reflexivity|]. split; [reflexivity|]. split; [intros; split; reflexivity|].
  split; [intros; repeat split; reflexivity|exact src_consts_ok].
Qed.
