(* Proofs/Code_C02.v — the C02 property theorems restated about the definitions regenerated from the source
   (Gen/pysrc_gen.v: the attribute properties of IPNetwork, IPAddress.is_hostmask / is_netmask / netmask_bits, the setters
   BaseIP._set_value and IPNetwork._set_prefixlen; Gen/pysrc_ctor_gen.v: the netmask setter on an int / an IPAddress).
   Each lemma is the model theorem of Proofs/C02.v transported through Proofs/GenOk_Src_C02.v / GenOk_Src_C02_ctor.v.
   Setters: a generated setter answers the value it stores into the assigned attribute; code_set_value / code_set_prefixlen /
   code_set_netmask put that value back into the object, code_apply_setop is the step of a setter history (a raising setter
   leaves the object as it was), all defined FROM the generated definitions. *)
From NV Require Import Base.Tac Base.PyVal Base.Bits Model.Ip Model.AddrOps Model.SrcPrelude Gen.pysrc_gen Gen.pysrc_ctor_gen
  Proofs.C02 Proofs.GenOk_Src_Const Proofs.GenOk_Src_C02 Proofs.GenOk_Src_C14_ctor Proofs.GenOk_Src_C02_ctor.
Import ListNotations.
Open Scope Z_scope.

(* ---- integer level: any version tag, any width w >= 0 ---- *)
Lemma code_identities_int ver w v p : 0 <= p <= w -> 0 <= v < 2 ^ w ->
  let H := 2 ^ (w - p) in
  let first := v - v mod H in
  src_IPNetwork_hostmask_int ver w v p = H - 1 /\
  src_IPNetwork_netmask_int ver w v p = 2 ^ w - 1 - (H - 1) /\
  src_IPNetwork_first ver w v p = first /\
  first = Z.land v (src_IPNetwork_netmask_int ver w v p) /\
  src_IPNetwork_last ver w v p = first + (H - 1) /\
  src_IPNetwork_size ver w v p = H /\
  src_IPNetwork_size ver w v p = src_IPNetwork_last ver w v p - src_IPNetwork_first ver w v p + 1 /\
  first mod H = 0 /\ 0 <= first /\ first + (H - 1) <= 2 ^ w - 1.
Proof.
  intros Hp Hv. pose proof (identities_w w v p Hp Hv) as I. cbv zeta in *.
  destruct I as (I1 & I2 & I3 & I4 & I5 & I6 & I7 & I8 & I9 & I10 & I11 & I12 & I13).
  split; [exact I1|]. split; [exact I2|]. split; [exact I5|]. split; [rewrite <- I3; exact I4|].
  split; [exact I6|]. split; [exact I7|]. split; [exact I8|]. split; [exact I11|]. split; [exact I12|exact I13].
Qed.

(* ---- object level: the properties that build an IPAddress / IPNetwork; version 4 or 6, w = width ver ---- *)
Lemma code_identities_obj ver v p : valid_ver ver = true -> 0 <= p <= width ver -> 0 <= v < 2 ^ width ver ->
  let w := width ver in
  let H := 2 ^ (w - p) in
  let first := v - v mod H in
  src_IPNetwork_hostmask ver w v p = Ok (ver, H - 1) /\
  src_IPNetwork_netmask ver w v p = Ok (ver, 2 ^ w - 1 - (H - 1)) /\
  src_IPNetwork_network ver w v p = Ok (ver, first) /\
  src_IPNetwork_ip ver w v p = Ok (ver, v) /\
  src_IPNetwork_cidr ver w v p = Ok {| nver := ver; nval := first; nplen := p |} /\
  src_IPNetwork_broadcast ver w v p =
    Ok (if (ver =? 4) && (31 <=? p) then None else Some (ver, src_IPNetwork_last ver w v p)).
Proof.
  intros Hver Hp Hv. pose proof (identities_w (width ver) v p Hp Hv) as I. cbv zeta in *.
  destruct I as (I1 & I2 & I3 & I4 & I5 & I6 & I7 & I8 & I9 & I10 & I11 & I12 & I13).
  split; [rewrite src_hostmask_wf, I1 by assumption; reflexivity|].
  split; [rewrite src_netmask_wf, I2 by assumption; reflexivity|].
  split; [rewrite src_network_wf, I3 by assumption; reflexivity|].
  split; [rewrite src_ip_wf by assumption; reflexivity|].
  split; [rewrite src_cidr_wf, I10 by assumption; reflexivity|].
  rewrite src_broadcast_wf by assumption. rewrite (broadcast_eq ver v p Hver Hp Hv).
  destruct ((ver =? 4) && (31 <=? p)); reflexivity.
Qed.

(* ---- mask predicates and netmask_bits ---- *)
Lemma code_is_hostmask_iff ver w x : 0 <= w -> 0 <= x < 2 ^ w ->
  (src_IPAddress_is_hostmask ver w x = true <-> exists p, 0 <= p <= w /\ x = 2 ^ (w - p) - 1).
Proof. exact (is_hostmask_iff w x). Qed.

Lemma code_is_netmask_iff ver w x : 0 <= w -> 0 <= x < 2 ^ w ->
  (src_IPAddress_is_netmask ver w x = true <-> exists p, 0 <= p <= w /\ x = 2 ^ w - 2 ^ (w - p)).
Proof. exact (is_netmask_iff w x). Qed.

Lemma code_netmask_bits_of_prefix ver w p : 0 <= p <= w -> src_IPAddress_netmask_bits ver w (2 ^ w - 2 ^ (w - p)) = Ok p.
Proof. intros H. rewrite src_netmask_bits_ok. exact (netmask_bits_of_prefix w p H). Qed.

Lemma code_netmask_bits_not_mask ver w x : src_IPAddress_is_netmask ver w x = false -> src_IPAddress_netmask_bits ver w x = Ok w.
Proof. intros H. rewrite src_netmask_bits_ok. exact (netmask_bits_not_mask w x H). Qed.

Lemma code_netmask_bits_no_fuel ver w x : 0 <= w -> 0 <= x < 2 ^ w -> src_IPAddress_netmask_bits ver w x <> Raise OutOfFuel.
Proof. intros Hw Hx. rewrite src_netmask_bits_ok. exact (netmask_bits_no_fuel w x Hw Hx). Qed.

(* ---- setters ---- *)
Definition code_set_value (n : net) (a : sarg) : outcome net :=
  omap (fun z => {| nver := nver n; nval := z; nplen := nplen n |})
       (src_BaseIP_set_value (nver n) (width (nver n)) (nval n) a).
Definition code_set_prefixlen (n : net) (a : sarg) : outcome net :=
  omap (fun z => {| nver := nver n; nval := nval n; nplen := z |})
       (src_IPNetwork_set_prefixlen (nver n) (width (nver n)) (nval n) (nplen n) a).
(* the netmask setter is translated for an int and for an IPAddress argument; anything else (SOther: a value the
   IPAddress constructor rejects, e.g. malformed text) is not translated and keeps the model's answer *)
Definition code_set_netmask (n : net) (a : sarg) : outcome net :=
  match a with
  | SInt z => omap (with_plen n) (src_IPNetwork_netmask_setter_int (nver n) (width (nver n)) (nval n) (nplen n) z)
  | SAddr ver v => omap (with_plen n) (src_IPNetwork_netmask_setter_addr (nver n) (width (nver n)) (nval n) (nplen n) (ver, v))
  | SOther => set_netmask n SOther
  end.
Definition code_apply_setop (n : net) (o : setop) : net * option exn :=
  let r := match o with
           | OpValue a => code_set_value n a
           | OpPrefixlen a => code_set_prefixlen n a
           | OpNetmask a => code_set_netmask n a
           end in
  match r with Ok n' => (n', None) | Raise e => (n, Some e) end.

Lemma code_set_value_eq n a : code_set_value n a = set_value n a.
Proof. apply src_set_value_ok. Qed.
Lemma code_set_prefixlen_eq n a : code_set_prefixlen n a = set_prefixlen n a.
Proof. apply src_set_prefixlen_ok. Qed.
Lemma code_set_netmask_eq n a : code_set_netmask n a = set_netmask n a.
Proof. destruct a as [z|ver v|]; [apply src_netmask_setter_int_ok|apply src_netmask_setter_addr_ok|reflexivity]. Qed.
Lemma code_apply_setop_eq n o : code_apply_setop n o = apply_setop n o.
Proof.
  unfold code_apply_setop, apply_setop.
  destruct o as [a|a|a]; [rewrite code_set_value_eq|rewrite code_set_prefixlen_eq|rewrite code_set_netmask_eq]; reflexivity.
Qed.

Lemma code_set_value_spec n a : wf_net n ->
  match code_set_value n a with
  | Ok n' => wf_net n' /\ nver n' = nver n /\ nplen n' = nplen n /\ a = SInt (nval n')
  | Raise e => setter_exn e
  end.
Proof. rewrite code_set_value_eq. apply set_value_spec. Qed.

Lemma code_set_prefixlen_spec n a : wf_net n ->
  match code_set_prefixlen n a with
  | Ok n' => wf_net n' /\ nver n' = nver n /\ nval n' = nval n /\ a = SInt (nplen n')
  | Raise e => setter_exn e
  end.
Proof. rewrite code_set_prefixlen_eq. apply set_prefixlen_spec. Qed.

Lemma code_set_netmask_spec n a : wf_net n ->
  match code_set_netmask n a with
  | Ok n' => wf_net n' /\ nver n' = nver n /\ nval n' = nval n /\
             (forall ver m, (a = SAddr ver m \/ (a = SInt m /\ src_IPAddress_init_int m None 0 = Ok (ver, m))) ->
                ver = nver n /\ 0 <= m < 2 ^ width ver ->
                m = 2 ^ width ver - 2 ^ (width ver - nplen n'))
  | Raise e => setter_exn e
  end.
Proof.
  intros H. rewrite code_set_netmask_eq. pose proof (set_netmask_spec n a H) as S.
  destruct (set_netmask n a) as [n'|e]; [|exact S].
  destruct S as (S1 & S2 & S3 & S4). split; [exact S1|]. split; [exact S2|]. split; [exact S3|].
  intros ver m Hm. apply S4. rewrite src_init_int_ok in Hm. exact Hm.
Qed.

Lemma code_apply_setop_wf n o : wf_net n -> wf_net (fst (code_apply_setop n o)) /\
  match snd (code_apply_setop n o) with Some e => setter_exn e /\ fst (code_apply_setop n o) = n | None => True end.
Proof. rewrite code_apply_setop_eq. apply apply_setop_wf. Qed.

Lemma code_setops_history ops : forall n, wf_net n -> wf_net (fold_left (fun s o => fst (code_apply_setop s o)) ops n).
Proof.
  induction ops as [|o ops IH]; intros n Hwf; cbn [fold_left]; [exact Hwf|].
  apply IH. apply code_apply_setop_wf. exact Hwf.
Qed.

(* the history of the generated setters is the history of the model, step by step *)
Lemma code_setops_history_eq ops : forall n,
  fold_left (fun s o => fst (code_apply_setop s o)) ops n = fold_left (fun s o => fst (apply_setop s o)) ops n.
Proof. induction ops as [|o ops IH]; intros n; cbn [fold_left]; [reflexivity|]. rewrite code_apply_setop_eq. apply IH. Qed.
