(* Proofs/Code_C01.v — lemmas for Props/C01_code.v: the C01 theorems stated about the definitions regenerated from
   netaddr/fbsocket.py, netaddr/strategy/ipv4.py, ipv6.py and IPAddress.__init__ / __str__ of netaddr/ip/__init__.py
   (Gen/pysrc_fbsocket_gen.v, pysrc_ipv4_gen.v, pysrc_ipv6_gen.v, pysrc_ctor_gen.v).  Every proof is: rewrite with the source tie
   (Proofs/GenOk_Src_C01*.v), apply the model theorem (Proofs/C01*.v). *)
From Coq Require Import ZArith List String Ascii Lia.
From NV Require Import Base.PyVal Base.PyStr Model.IpText Model.FbSocket Model.AddrText
  Proofs.C01_Chars Proofs.C01_V6 Proofs.C01_Value Proofs.C01_V4 Proofs.C01_Fb Proofs.C01_Strict6 Proofs.C01_Aton Proofs.C01
  Proofs.C01_Grammar Proofs.C01_Grammar_V6 Proofs.C01_Grammar_Main
  Model.SrcPrelude Model.SrcPreludeText Model.SrcPreludeCtor
  Gen.pysrc_gen Gen.pysrc_fbsocket_gen Gen.pysrc_ipv4_gen Gen.pysrc_ipv6_gen Gen.pysrc_ctor_gen
  Proofs.GenOk_Src_C01 Proofs.GenOk_Src_C01_text Proofs.GenOk_Src_C01_ntop Proofs.GenOk_Src_C01_ctor.
Import ListNotations.
Open Scope Z_scope.

(* the ties in the form used below *)
Lemma t_i2s4 be v d : src_ipv4_int_to_str v tt = int_to_str be 4 v d.
Proof. apply C01_tie_text1_ok. Qed.
Lemma t_i2s6 be v d : src_ipv6_int_to_str be v (option_map dcls d) = int_to_str be 6 v d.
Proof. apply C01_tie_text1_ok. Qed.
Lemma t_s2i4 be s f : src_ipv4_str_to_int be s f = str_to_int be 4 s f.
Proof. apply C01_tie_text1_ok. Qed.
Lemma t_s2i6 be s f : src_ipv6_str_to_int be s f = str_to_int be 6 s f.
Proof. apply C01_tie_text1_ok. Qed.
Lemma t_valid4 be s f : src_ipv4_valid_str be s f = valid_str be 4 s f.
Proof. apply C01_tie_text1_ok. Qed.
Lemma t_valid6 be s f : src_ipv6_valid_str be s f = valid_str be 6 s f.
Proof. apply C01_tie_text1_ok. Qed.
Lemma t_init be s version f : src_IPAddress_init_str be s version f = init_str be s version f.
Proof. apply C01_ctor_tie_ok. Qed.

(* (1) print then parse *)
Lemma print_parse_v4_code be v version flags : 0 <= v < 2 ^ 32 ->
  version = None \/ version = Some 4 -> flags = 0 \/ flags = 1 \/ flags = 2 \/ flags = 3 ->
  (do s <- src_ipv4_int_to_str v tt; src_IPAddress_init_str be s version flags) = Ok (4, v).
Proof.
  intros Hv Hver Hf. rewrite (t_i2s4 be v None). pose proof (print_parse_v4 be v None version flags Hv Hver Hf) as E.
  destruct (int_to_str be 4 v None); [cbn [bind] in *; now rewrite t_init | exact E].
Qed.

Lemma print_parse_v6_code be v d version flags : 0 <= v < 2 ^ 128 ->
  d = None \/ d = Some ipv6_compact \/ d = Some ipv6_full \/ d = Some ipv6_verbose ->
  version = Some 6 \/ (version = None /\ (flags = 0 \/ flags = 1)) ->
  (do s <- src_ipv6_int_to_str be v (option_map dcls d); src_IPAddress_init_str be s version flags) = Ok (6, v).
Proof.
  intros Hv Hd Hver. rewrite t_i2s6. pose proof (print_parse_v6 be v d version flags Hv Hd Hver) as E.
  destruct (int_to_str be 6 v d); [cbn [bind] in *; now rewrite t_init | exact E].
Qed.

Lemma printed_standard_v4_code v : 0 <= v < 2 ^ 32 ->
  exists s, src_ipv4_int_to_str v tt = Ok s /\ Std4.pton4 s = Some (octets_of v).
Proof. intros Hv. rewrite (t_i2s4 Platform v None). now apply printed_standard_v4. Qed.

Lemma printed_standard_v6_code be v d : 0 <= v < 2 ^ 128 ->
  d = None \/ d = Some ipv6_compact \/ d = Some ipv6_full \/ d = Some ipv6_verbose ->
  exists s, src_ipv6_int_to_str be v (option_map dcls d) = Ok s /\ Std6.pton6 s = Some (words_of v).
Proof. intros Hv Hd. rewrite t_i2s6. now apply printed_standard_v6. Qed.

(* (2) *)
Lemma reject_kind_code be s version flags e : src_IPAddress_init_str be s version flags = Raise e ->
  e = AddrFormatError \/
  (e = ValueError /\ (contains_char "/" s = true \/ exists v, version = Some v /\ v <> 4 /\ v <> 6)).
Proof. rewrite t_init. apply reject_kind. Qed.

(* (3) the fallback printers; a packed IPv6 address is 16 bytes in the code: bytes_of_words of its eight 16-bit words *)
Lemma fb_print_code ws : Forall (fun w => 0 <= w < 65536) ws -> List.length ws = 8%nat ->
  src_fbsocket_inet_ntop 10 (bytes_of_words ws) = Ok (Std6.ntop6 ws).
Proof.
  intros Hr Hl. destruct C01_tie_fb2_ok as (_ & T). rewrite T. cbn [Z.eqb Pos.eqb].
  change (bytes_of_words ws) with (py_bytes_of_words ws). rewrite bytes_of_words_length, Hl. cbn [Nat.mul Nat.add Nat.eqb].
  rewrite words_of_bytes_of_words. now apply fb_ntop6_eq.
Qed.

Lemma fb_print_v4_code a b c d :
  src_fbsocket_inet_ntoa [a; b; c; d] = Ok (Std4.ntoa [a; b; c; d]) /\
  src_fbsocket_inet_ntop 2 [a; b; c; d] = Ok (Std4.ntoa [a; b; c; d]).
Proof.
  destruct C01_tie_fb2_ok as (_ & T). rewrite T, src_inet_ntoa_ok. cbn [Z.eqb Pos.eqb]. split; apply fb_ntoa_eq.
Qed.

(* (4) strict mode *)
Lemma strict_exact_v4_code s :
  src_fbsocket__inet_pton_af_inet s = of_option (Std4.pton4 s) /\ src_fbsocket_inet_pton 2 s = of_option (Std4.pton4 s).
Proof.
  destruct C01_tie_fb1_ok as (_ & _ & _ & T). rewrite T, src_inet_pton4_ok. cbn [Z.eqb Pos.eqb]. split; apply fb_pton4_eq.
Qed.

Lemma strict_exact_code s : src_fbsocket_inet_pton 10 s = omap bytes_of_words (of_option (Std6.pton6 s)).
Proof. rewrite src_inet_pton6_ok, fb_pton6_eq. reflexivity. Qed.

Lemma strict_mode_v4_code be s : src_ipv4_str_to_int be s INET_PTON =
  match Std4.pton4 s with
  | Some o => match unpack_I o with Ok v => Ok v | Raise _ => Raise AddrFormatError end
  | None => Raise AddrFormatError
  end.
Proof. rewrite t_s2i4. apply strict_exact_v4. Qed.

Lemma strict_mode_v6_code be s flags : src_ipv6_str_to_int be s flags =
  match Std6.pton6 s with
  | Some ws => match packed_to_int ws with Ok v => Ok v | Raise _ => Raise AddrFormatError end
  | None => Raise AddrFormatError
  end.
Proof. rewrite t_s2i6. apply strict_exact_v6. Qed.

(* both back-ends *)
Lemma backend_invariant_parse_code be s version flags :
  src_IPAddress_init_str be s version flags = src_IPAddress_init_str Platform s version flags.
Proof. rewrite !t_init. apply init_str_be. Qed.

Lemma backend_invariant_print_code be v d :
  src_ipv6_int_to_str be v (option_map dcls d) = src_ipv6_int_to_str Platform v (option_map dcls d).
Proof. rewrite !t_i2s6. apply int_to_str_be. Qed.

Lemma backend_invariant_valid_code be s flags :
  src_ipv4_valid_str be s flags = src_ipv4_valid_str Platform s flags /\
  src_ipv6_valid_str be s flags = src_ipv6_valid_str Platform s flags /\
  src_ipv4_str_to_int be s flags = src_ipv4_str_to_int Platform s flags /\
  src_ipv6_str_to_int be s flags = src_ipv6_str_to_int Platform s flags.
Proof.
  rewrite !t_valid4, !t_valid6, !t_s2i4, !t_s2i6. repeat split; first [apply valid_str_be | apply str_to_int_be].
Qed.

(* (5) BSD shorthand and ZEROFILL through the regenerated constructor *)
Lemma aton_shorthand_code be pre t x version :
  Forall (fun p => spelling (fst p) (snd p) /\ snd p <= 255) pre -> (List.length pre <= 3)%nat -> spelling t x ->
  x <= Std4.last_max (List.length pre) -> version = None \/ version = Some 4 ->
  src_IPAddress_init_str be (str_of (spelled_text pre t)) version 0 = Ok (4, Std4.parts_value (map snd pre) 24 + x).
Proof. rewrite t_init. apply init_shorthand. Qed.

Lemma zerofill_code be k1 k2 k3 k4 a b c d version flags :
  0 <= a < 256 -> 0 <= b < 256 -> 0 <= c < 256 -> 0 <= d < 256 ->
  version = None \/ version = Some 4 -> flags = 2 \/ flags = 3 ->
  src_IPAddress_init_str be (join "." [fmt_d_pad k1 a; fmt_d_pad k2 b; fmt_d_pad k3 c; fmt_d_pad k4 d]) version flags =
  Ok (4, ((a * 256 + b) * 256 + c) * 256 + d).
Proof. rewrite t_init. apply zerofill_padded. Qed.

(* ---- the declarative grammar (Props/C01_grammar.v) ---- *)
(* netaddr.fbsocket.inet_pton as regenerated: groups g as their 16 bytes *)
Lemma fallback_rfc4291_code s p :
  src_fbsocket_inet_pton 10 s = Ok p <-> exists g, Rfc4291 (chars s) g /\ p = bytes_of_words g.
Proof.
  rewrite src_inet_pton6_ok. split.
  - destruct (Fb.inet_pton6 s) as [g|e] eqn:E; [|discriminate]. cbn [omap]. intros [= <-]. exists g. split; [now apply fb_pton6_grammar|reflexivity].
  - intros (g & H & ->). apply fb_pton6_grammar in H. rewrite H. reflexivity.
Qed.

Lemma fallback_rfc4291_reject_code s :
  src_fbsocket_inet_pton 10 s = Raise ValueError <-> forall g, ~ Rfc4291 (chars s) g.
Proof.
  rewrite src_inet_pton6_ok. pose proof (backend_pton6_reject Fallback s) as R. cbn in R. rewrite <- R.
  destruct (Fb.inet_pton6 s); cbn [omap]; split; intros H; try discriminate H; exact H.
Qed.

Lemma fallback_dotted_quad_code s q :
  (src_fbsocket__inet_pton_af_inet s = Ok q <-> DottedQuad (chars s) q) /\
  (src_fbsocket_inet_pton 2 s = Ok q <-> DottedQuad (chars s) q).
Proof.
  destruct C01_tie_fb1_ok as (_ & _ & _ & T). rewrite T, src_inet_pton4_ok. cbn [Z.eqb Pos.eqb]. split; apply fb_pton4_grammar.
Qed.

Lemma fallback_dotted_quad_reject_code s :
  src_fbsocket__inet_pton_af_inet s = Raise ValueError <-> forall q, ~ DottedQuad (chars s) q.
Proof. rewrite src_inet_pton4_ok. exact (backend_pton4_reject Fallback s). Qed.

(* strategy level *)
Lemma strict_rfc4291_code be s flags v :
  src_ipv6_str_to_int be s flags = Ok v <-> exists g, Rfc4291 (chars s) g /\ v = Std6.words_value g.
Proof. rewrite t_s2i6. apply strict_rfc4291. Qed.

Lemma strict_rfc4291_reject_code be s flags :
  src_ipv6_str_to_int be s flags = Raise AddrFormatError <-> forall g, ~ Rfc4291 (chars s) g.
Proof. rewrite t_s2i6. apply strict_rfc4291_reject. Qed.

Lemma strict_dotted_quad_code be s v :
  src_ipv4_str_to_int be s INET_PTON = Ok v <->
  exists a b c d, DottedQuad (chars s) [a; b; c; d] /\ v = a * 2 ^ 24 + b * 2 ^ 16 + c * 2 ^ 8 + d.
Proof. rewrite t_s2i4. apply strict_dotted_quad. Qed.

Lemma strict_dotted_quad_reject_code be s :
  src_ipv4_str_to_int be s INET_PTON = Raise AddrFormatError <-> forall q, ~ DottedQuad (chars s) q.
Proof. rewrite t_s2i4. apply strict_dotted_quad_reject. Qed.

(* constructor level *)
Lemma strict_constructor_code be s version r :
  version = None \/ version = Some 4 \/ version = Some 6 ->
  (src_IPAddress_init_str be s version INET_PTON = Ok r <->
   ((exists a b c d, DottedQuad (chars s) [a; b; c; d] /\ r = (4, a * 2 ^ 24 + b * 2 ^ 16 + c * 2 ^ 8 + d)) \/
    (exists g, Rfc4291 (chars s) g /\ r = (6, Std6.words_value g))) /\
   (version = None \/ version = Some (fst r))).
Proof. rewrite t_init. apply strict_constructor. Qed.

Lemma strict_constructor_reject_code be s version :
  version = None \/ version = Some 4 \/ version = Some 6 ->
  (forall r, ~ (((exists a b c d, DottedQuad (chars s) [a; b; c; d] /\ r = (4, a * 2 ^ 24 + b * 2 ^ 16 + c * 2 ^ 8 + d)) \/
                 (exists g, Rfc4291 (chars s) g /\ r = (6, Std6.words_value g))) /\
                (version = None \/ version = Some (fst r)))) ->
  exists e, src_IPAddress_init_str be s version INET_PTON = Raise e /\
            (e = AddrFormatError \/ (e = ValueError /\ contains_char "/" s = true)).
Proof. rewrite t_init. apply strict_constructor_reject. Qed.
