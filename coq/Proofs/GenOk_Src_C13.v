(* Proofs/GenOk_Src_C13.v — source tie for C13: the definitions regenerated from the text of spanning_cidr (Gen/pysrc_span_gen.v:
   the two `_iter_next` calls under try/except StopIteration as nested matches on the list, the `for` loop as a structural
   Fixpoint on the remaining elements, the `while` loop as a Fixpoint on fuel) equal the hand-written model of Model/Span.v.
   Inputs are already constructed IPNetwork objects (`IPNetwork(x)` on an element is the identity on Ip.net).
   Hypothesis of the main lemma: the version of the first element is 4 or 6 -- the generated code ends in the constructor
   symbol mk_net (IPNetwork((ipnum, prefixlen), version=version)), whose version test Span.net_of_tuple does not have. *)
From NV Require Import Base.Tac Base.PyVal Model.Ip Model.Span Model.SrcPrelude Gen.pysrc_gen Gen.pysrc_span_gen
  Proofs.GenOk_Src_Const.
Import ListNotations.
Open Scope Z_scope.

(* the translated properties read through an IPNetwork-valued variable are the model's accessors *)
Lemma src_nfirst n : src_IPNetwork_first (nver n) (width (nver n)) (nval n) (nplen n) = nfirst width n.
Proof. reflexivity. Qed.
Lemma src_nlast n : src_IPNetwork_last (nver n) (width (nver n)) (nval n) (nplen n) = nlast width n.
Proof. reflexivity. Qed.
Lemma src_nversion n : src_IPNetwork_version (nver n) (width (nver n)) (nval n) (nplen n) = nver n.
Proof. reflexivity. Qed.
Lemma src_nprefixlen n : src_IPNetwork_prefixlen (nver n) (width (nver n)) (nval n) (nplen n) = nplen n.
Proof. reflexivity. Qed.

(* IPNetwork((value, prefixlen), version=ver) for a version that exists: mk_net is Span.net_of_tuple *)
Lemma mk_net_tuple ver a b : valid_ver ver = true -> mk_net ver a b = Span.net_of_tuple width ver a b.
Proof. intros H. unfold mk_net, Span.net_of_tuple, max_int. rewrite H. reflexivity. Qed.

(* `for ip in ip_addrs_iter:` = fold_left span_step; no hypothesis *)
Lemma src_span_loop1_ok version rest m lo hi :
  src_spanning_cidr_loop1 version rest m lo hi = fold_left (span_step width version) rest (m, lo, hi).
Proof.
  revert m lo hi. induction rest as [|n t IH]; intros m lo hi; [reflexivity|].
  cbn [src_spanning_cidr_loop1 fold_left]. cbv zeta. rewrite IH. reflexivity.
Qed.

(* `while prefixlen > 0 and ipnum > lowest_ipnum:` = span_loop (result components in the other order).  The generated
   loop carries CPython's negative-shift guard on `1 << (width - prefixlen)`; under the loop invariant prefixlen <= width
   (it starts at width and only decreases) the guard never fires. *)
Lemma src_span_loop2_ok fuel lo w p ip : p <= w ->
  src_spanning_cidr_loop2 fuel lo w p ip = omap (fun r => (snd r, fst r)) (span_loop fuel w lo ip p).
Proof.
  revert p ip. induction fuel as [|f IH]; intros p ip Hp; [reflexivity|].
  cbn [src_spanning_cidr_loop2 span_loop].
  destruct ((p >? 0) && (ip >? lo)); [|reflexivity]. cbv zeta.
  replace (w - (p - 1) <? 0) with false by lia. apply IH. lia.
Qed.

Lemma src_spanning_cidr_ok l :
  match l with a :: _ :: _ => valid_ver (nver a) = true | _ => True end -> src_spanning_cidr l = spanning_cidr l.
Proof.
  destruct l as [|a [|b rest]]; [reflexivity|reflexivity|]. intros Hv.
  unfold src_spanning_cidr, spanning_cidr, spanning_cidr_gen. cbv zeta.
  rewrite src_span_loop1_ok, !src_nfirst, !src_nlast, !src_nversion.
  destruct (fold_left (span_step width (nver a)) rest
              (negb (nver b =? nver a), Z.min (nfirst width a) (nfirst width b), Z.max (nlast width a) (nlast width b)))
    as [[m lo] hi].
  destruct m; [reflexivity|].
  rewrite src_span_loop2_ok by lia.
  destruct (span_loop (Z.to_nat (width (nver a)) + 1) (width (nver a)) lo hi (width (nver a))) as [[ip p]|]; [|reflexivity].
  cbn [omap bind fst snd]. apply mk_net_tuple. exact Hv.
Qed.

(* everything the C13 source tie states (Props/C13_src.v) *)
Lemma C13_tie_ok :
  (forall l, match l with a :: _ :: _ => valid_ver (nver a) = true | _ => True end -> src_spanning_cidr l = spanning_cidr l) /\
  (forall version rest m lo hi,
     src_spanning_cidr_loop1 version rest m lo hi = fold_left (span_step width version) rest (m, lo, hi)) /\
  (forall fuel lo w p ip, p <= w ->
     src_spanning_cidr_loop2 fuel lo w p ip = omap (fun r => (snd r, fst r)) (span_loop fuel w lo ip p)).
Proof. split; [exact src_spanning_cidr_ok|]. split; [exact src_span_loop1_ok|exact src_span_loop2_ok]. Qed.
