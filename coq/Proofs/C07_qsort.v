(* Proofs/C07_qsort.v — C07 part B: what sorted() (Model/Sets.v insertion sort over IPNetwork.sort_key) yields on the
   stored keys of an IPSet: a permutation, strictly ascending by (version, first) with every block ending before
   the next one starts. *)
From NV Require Import Base.Tac Base.PyVal Base.Bits Base.Canon Model.Ip Model.Partition Model.Span Model.Merge Model.Sets
  Proofs.C02 Proofs.NetDen Proofs.C07_qbase.
From Coq Require Import Sorting.Sorted Sorting.Permutation.
Open Scope Z_scope.

(* the first two components of sort_key, weakly *)
Definition q_le2 (a b : net) : Prop := nver a < nver b \/ (nver a = nver b /\ nf a <= nf b).
(* a ends before b starts (IPv4 before IPv6) *)
Definition q_before (a b : net) : Prop := nver a < nver b \/ (nver a = nver b /\ nl a < nf b).

Lemma q_lex_ltb_true a b : lex_ltb (sort_key a) (sort_key b) = true -> q_le2 a b.
Proof.
  unfold lex_ltb, sort_key, q_le2. cbn [lex_leb]. intros H. apply negb_true_iff in H.
  case_ltb (nver b) (nver a); [discriminate|]. case_ltb (nver a) (nver b); [left; assumption|].
  right. split; [lia|]. case_ltb (nf b) (nf a); [discriminate|]. lia.
Qed.

Lemma q_lex_ltb_false a b : lex_ltb (sort_key a) (sort_key b) = false -> q_le2 b a.
Proof.
  unfold lex_ltb, sort_key, q_le2. cbn [lex_leb]. intros H. apply negb_false_iff in H.
  case_ltb (nver b) (nver a); [left; assumption|]. case_ltb (nver a) (nver b); [discriminate|].
  right. split; [lia|]. case_ltb (nf b) (nf a); [lia|]. case_ltb (nf a) (nf b); [discriminate|]. lia.
Qed.

Lemma q_le2_trans a b c : q_le2 a b -> q_le2 b c -> q_le2 a c.
Proof. unfold q_le2. lia. Qed.

Lemma q_ins_perm x l : Permutation (ins_sorted x l) (x :: l).
Proof.
  induction l as [|y r IH]; cbn [ins_sorted]; [apply Permutation_refl|].
  destruct (lex_ltb (sort_key x) (sort_key y)); [apply Permutation_refl|].
  eapply Permutation_trans; [apply perm_skip, IH|apply perm_swap].
Qed.

Lemma q_ins_sorted x l : StronglySorted q_le2 l -> StronglySorted q_le2 (ins_sorted x l).
Proof.
  induction 1 as [|y r S IH F]; cbn [ins_sorted]; [repeat constructor|].
  destruct (lex_ltb (sort_key x) (sort_key y)) eqn:E.
  - apply q_lex_ltb_true in E. constructor; [constructor; assumption|].
    constructor; [exact E|]. eapply Forall_impl; [|exact F]. intros z Hz. eapply q_le2_trans; eauto.
  - apply q_lex_ltb_false in E. constructor; [exact IH|].
    rewrite Forall_forall in *. intros z Hz. apply (Permutation_in _ (q_ins_perm x r)) in Hz.
    destruct Hz as [<-|Hz]; [exact E|apply F, Hz].
Qed.

Lemma q_fold_ins_perm l : forall acc,
  Permutation (fold_left (fun acc x => ins_sorted x acc) l acc) (l ++ acc).
Proof.
  induction l as [|x l IH]; intros acc; cbn [fold_left app]; [apply Permutation_refl|].
  eapply Permutation_trans; [apply IH|]. eapply Permutation_trans; [apply Permutation_app_head, q_ins_perm|].
  symmetry. apply Permutation_middle.
Qed.

Lemma q_fold_ins_sorted l : forall acc, StronglySorted q_le2 acc ->
  StronglySorted q_le2 (fold_left (fun acc x => ins_sorted x acc) l acc).
Proof. induction l as [|x l IH]; intros acc S; cbn [fold_left]; [exact S|]. apply IH, q_ins_sorted, S. Qed.

(* sorted d is a permutation of d *)
Lemma q_sorted_perm d : Permutation (sorted d) d.
Proof. unfold sorted. eapply Permutation_trans; [apply q_fold_ins_perm|]. rewrite app_nil_r. apply Permutation_refl. Qed.

Lemma q_sorted_le2 d : StronglySorted q_le2 (sorted d).
Proof. unfold sorted. apply q_fold_ins_sorted. constructor. Qed.

Lemma q_sorted_in d k : In k (sorted d) <-> In k d.
Proof.
  split; apply Permutation_in; [apply q_sorted_perm|apply Permutation_sym, q_sorted_perm].
Qed.

Lemma q_den_sorted d ver x : den (sorted d) ver x <-> den d ver x.
Proof. apply den_perm, q_sorted_perm. Qed.

(* ---- pairwise disjointness, order-free ---- *)
Definition q_disj (d : list net) : Prop :=
  NoDup d /\ forall a b, In a d -> In b d -> a <> b -> ~ overlap a b.

Lemma q_overlap_refl a : wf_net a -> overlap a a.
Proof. intros W. pose proof (q_nf_le_nl a W). exists (nver a), (nf a). split; (split; [reflexivity|lia]). Qed.

Lemma q_overlap_sym a b : overlap a b -> overlap b a.
Proof. intros (ver & x & H1 & H2). exists ver, x. split; assumption. Qed.

Lemma q_inv_disj d : SetInv d -> q_disj d.
Proof.
  intros I. pose proof (q_inv_wf d I) as Fw. destruct I as (_ & P & _).
  induction P as [|a l F P IH].
  - split; [constructor|intros a b []].
  - inversion Fw as [|? ? Wa Fl]; subst. destruct (IH Fl) as [ND PW]. rewrite Forall_forall in F. split.
    + constructor; [|exact ND]. intros Hin. apply (F a Hin), q_overlap_refl, Wa.
    + intros x y [<-|Hx] [<-|Hy] Ne.
      * congruence.
      * apply F, Hy.
      * intros O. apply (F x Hx), q_overlap_sym, O.
      * apply PW; assumption.
Qed.

Lemma q_disj_perm d d' : Permutation d d' -> q_disj d -> q_disj d'.
Proof.
  intros P [ND PW]. split; [eapply Permutation_NoDup; eauto|].
  intros a b Ha Hb. apply PW; eapply Permutation_in; try apply Permutation_sym; eauto.
Qed.

Lemma q_le2_before l : Forall wf_net l -> q_disj l -> StronglySorted q_le2 l -> StronglySorted q_before l.
Proof.
  intros Fw [ND PW] S. induction S as [|a l S IH F]; [constructor|].
  inversion Fw as [|? ? Wa Fl]; subst. inversion ND as [|? ? Na NDl]; subst.
  constructor.
  - apply IH; [exact Fl|exact NDl|]. intros x y Hx Hy. apply PW; now right.
  - rewrite Forall_forall in *. intros x Hx. specialize (F x Hx).
    assert (Ne : a <> x) by (intros ->; contradiction).
    pose proof (PW a x (or_introl eq_refl) (or_intror Hx) Ne) as NO.
    pose proof (q_nf_le_nl x (Fl x Hx)) as Lx. pose proof (q_nf_le_nl a Wa) as La.
    unfold q_le2 in F. unfold q_before.
    destruct F as [F|[Ev Ff]]; [left; exact F|right]. split; [exact Ev|].
    destruct (Z_lt_le_dec (nl a) (nf x)) as [|Hge]; [assumption|exfalso].
    apply NO. exists (nver a), (nf x). split; split; try lia.
Qed.

(* under SetInv: strictly ascending by (version, first), pairwise disjoint *)
Theorem q_sorted_before d : SetInv d -> StronglySorted q_before (sorted d).
Proof.
  intros I. apply q_le2_before.
  - pose proof (q_inv_wf d I) as Fw. rewrite Forall_forall in *. intros k Hk. apply Fw, q_sorted_in, Hk.
  - apply (q_disj_perm d); [apply Permutation_sym, q_sorted_perm|apply q_inv_disj, I].
  - apply q_sorted_le2.
Qed.

Lemma q_sorted_wf d : Forall wf_net d -> Forall wf_net (sorted d).
Proof. intros Fw. rewrite Forall_forall in *. intros k Hk. apply Fw, q_sorted_in, Hk. Qed.

Lemma q_ss_app_r {A} (R : A -> A -> Prop) l1 l2 : StronglySorted R (l1 ++ l2) -> StronglySorted R l2.
Proof. induction l1 as [|a l1 IH]; cbn; [auto|]. intros S. apply StronglySorted_inv in S. apply IH, S. Qed.

(* 8. iteration order: consecutive blocks of sorted d *)
Theorem q_iter_order d l1 k1 k2 l2 : SetInv d -> sorted d = l1 ++ k1 :: k2 :: l2 ->
  nver k1 < nver k2 \/ (nver k1 = nver k2 /\ nl k1 < nf k2).
Proof.
  intros I E. pose proof (q_sorted_before d I) as S. rewrite E in S. apply q_ss_app_r in S.
  apply StronglySorted_inv in S. destruct S as [_ F]. inversion F; subst. assumption.
Qed.
