(* Proofs/Code_C17.v — lemmas for Props/C17_code.v: the C17 theorems stated about the definitions regenerated from
   netaddr/ip/glob.py and netaddr/ip/nmap.py (Gen/pysrc_glob_gen.v, pysrc_nmap_gen.v; iprange_to_cidrs of Gen/pysrc_iprange_gen.v).
   Every proof is: rewrite with the source tie (Proofs/GenOk_Src_C17*.v), apply the model theorem (Proofs/C17*.v). *)
From Coq Require Import String Ascii Sorted.
From NV Require Import Base.Tac Base.PyVal Base.PyStr Model.Ip Model.Glob Model.Nmap
  Proofs.C17_str Proofs.C17 Proofs.C17_nmap
  Model.SrcPrelude Model.SrcPreludeGlob Model.SrcPreludeNmap Gen.pysrc_iprange_gen Gen.pysrc_glob_gen Gen.pysrc_nmap_gen
  Proofs.GenOk_Src_C17 Proofs.GenOk_Src_C17_closed Proofs.GenOk_Src_C17_nmap.
Import ListNotations.
Open Scope string_scope.
Open Scope Z_scope.

Ltac split_conj := repeat match goal with |- _ /\ _ => split end.

(* the translated iprange_to_cidrs, as the glob code calls it, meets the specification C17_to_globs asks of its parameter *)
Lemma src_to_cidrs_spec lo hi : 0 <= lo <= hi /\ hi < 2 ^ 32 -> exists cs, src_to_cidrs lo hi = Ok cs /\ cidrs_tile cs lo hi.
Proof. intros H. rewrite src_to_cidrs_exec by lia. now apply to_cidrs_exec_spec. Qed.

(* ---- glob.py ---- *)
Lemma valid_code s : (src_valid_glob s = Ok true <-> glob_lang s) /\ (src_valid_glob s = Ok true \/ src_valid_glob s = Ok false).
Proof.
  rewrite src_valid_glob_ok. split.
  - rewrite <- valid_glob_iff. split; [now intros [= ->] | now intros ->].
  - destruct (valid_glob s); auto.
Qed.

Lemma src_valid_false s : src_valid_glob s = Ok false -> valid_glob s = false.
Proof. rewrite src_valid_glob_ok. now intros [= ->]. Qed.

Lemma convert_code fs : glob_fields fs ->
  let s := show_glob fs in
  src_glob_to_iptuple s = Ok ((4, glob_lo fs), (4, glob_hi fs)) /\
  src_glob_to_iprange s = Ok (4, glob_lo fs, glob_hi fs) /\
  (exists cs, omap blocks_of (src_glob_to_cidrs s) = Ok cs /\ cidrs_tile cs (glob_lo fs) (glob_hi fs)) /\
  0 <= glob_lo fs <= glob_hi fs /\ glob_hi fs < 2 ^ 32 /\
  forall v, 0 <= v < 2 ^ 32 -> (glob_match fs v <-> glob_lo fs <= v <= glob_hi fs).
Proof.
  intros Hg. destruct (convert_spec fs Hg) as (E1 & E2 & E3 & E4 & E5 & E6). cbv zeta in *.
  rewrite src_glob_to_iptuple_ok, src_glob_to_iprange_ok, src_glob_to_cidrs_ok, E1, E2, E3. split_conj; try assumption; try reflexivity; try lia.
  apply src_to_cidrs_spec. lia.
Qed.

Lemma convert_rejects_code s : src_valid_glob s = Ok false ->
  src_glob_to_iptuple s = Raise AddrFormatError /\ src_glob_to_iprange s = Raise AddrFormatError /\
  src_glob_to_cidrs s = Raise AddrFormatError.
Proof.
  intros H. apply src_valid_false in H. destruct (convert_invalid s H) as (E1 & E2 & E3).
  rewrite src_glob_to_iptuple_ok, src_glob_to_iprange_ok, E1, E2. split_conj; try reflexivity.
  pose proof (src_glob_to_cidrs_ok s) as T. rewrite E3 in T. destruct (src_glob_to_cidrs s); [discriminate T|]. now injection T as ->.
Qed.

Lemma to_globs_code lo hi : 0 <= lo <= hi /\ hi < 2 ^ 32 ->
  exists gl ivs, src_iprange_to_globs (4, lo) (4, hi) = Ok gl /\
                 Forall2 (fun g iv => glob_denotes g (fst iv) (snd iv)) gl ivs /\
                 chain ivs lo hi /\
                 (List.length gl = 1%nat <-> glob_shaped lo hi).
Proof.
  intros H. rewrite src_iprange_to_globs_closed by lia. apply to_globs_tile; [exact src_to_cidrs_spec | exact H].
Qed.

Lemma glob_shaped_range lo hi : glob_shaped lo hi -> 0 <= lo <= hi /\ hi < 2 ^ 32.
Proof. intros (fs & Hg & <- & <-). destruct (convert_spec fs Hg) as (_ & _ & _ & E4 & E5 & _). lia. Qed.

Lemma to_globs_single_code lo hi : glob_shaped lo hi ->
  exists g, src_iprange_to_globs (4, lo) (4, hi) = Ok [g] /\ glob_denotes g lo hi.
Proof.
  intros H. pose proof (glob_shaped_range lo hi H). rewrite src_iprange_to_globs_closed by lia. now apply to_globs_shaped.
Qed.

Lemma glob_denotes_code g a b : glob_denotes g a b ->
  src_valid_glob g = Ok true /\ src_glob_to_iptuple g = Ok ((4, a), (4, b)) /\ src_glob_to_iprange g = Ok (4, a, b) /\
  0 <= a <= b /\ b < 2 ^ 32 /\
  exists fs, g = show_glob fs /\ glob_fields fs /\ forall v, 0 <= v < 2 ^ 32 -> (glob_match fs v <-> a <= v <= b).
Proof.
  intros H. destruct (glob_denotes_facts g a b H) as (E1 & E2 & E3 & E4 & E5 & E6).
  rewrite src_valid_glob_ok, src_glob_to_iptuple_ok, src_glob_to_iprange_ok, E1, E2, E3. split_conj; try assumption; try reflexivity; lia.
Qed.

Lemma cidr_glob_code v p : 0 <= p <= 32 -> 0 <= v < 2 ^ 32 ->
  let first := v - v mod 2 ^ (32 - p) in
  let last := first + 2 ^ (32 - p) - 1 in
  exists g, src_cidr_to_glob {| nver := 4; nval := v; nplen := p |} = Ok g /\ glob_denotes g first last.
Proof.
  intros Hp Hv. cbv zeta. rewrite (src_cidr_to_glob_closed 4 v p) by (reflexivity || exact Hp || exact Hv).
  now apply cidr_to_glob_exact.
Qed.

Lemma cidr_glob_v6_code v p : 0 <= p <= 128 -> 0 <= v < 2 ^ 128 ->
  src_cidr_to_glob {| nver := 6; nval := v; nplen := p |} = Raise AddrConversionError.
Proof.
  intros Hp Hv. rewrite (src_cidr_to_glob_closed 6 v p) by (reflexivity || exact Hp || exact Hv). apply cidr_to_glob_v6.
Qed.

(* IPGlob: the object state is (_start, _end, _glob) = ((4, start), (4, end), Some text | None) *)
Lemma ipglob_code fs : glob_fields fs ->
  let st g := ((4, glob_lo fs), (4, glob_hi fs), Some g) in
  exists g, src_IPGlob_init (show_glob fs) = Ok (st g) /\
            glob_denotes g (glob_lo fs) (glob_hi fs) /\
            src_IPGlob_str (4, glob_lo fs) (4, glob_hi fs) (Some g) = Ok g /\
            src_IPGlob_get_glob (4, glob_lo fs) (4, glob_hi fs) (Some g) = Ok g /\
            src_IPGlob_setstate (src_IPGlob_getstate (4, glob_lo fs) (4, glob_hi fs) (Some g)) = Ok (st g).
Proof.
  intros Hg. destruct (ipglob_new_spec src_to_cidrs fs Hg) as (g & E1 & E2 & E3 & E4). exists g. cbv zeta.
  destruct C17_tie_closed_ok as (_ & _ & _ & _ & _ & TI & TS).
  rewrite TI, E1, src_ipglob_str_ok, src_ipglob_get_ok. unfold obj_of, st_of. cbn [omap g_start g_end g_glob snd]. rewrite E3.
  split_conj; try reflexivity; try assumption.
  rewrite src_ipglob_getstate_ok by reflexivity. unfold obj_of. cbn [snd].
  destruct (convert_spec fs Hg) as (_ & _ & _ & E5 & _).
  unfold ipglob_getstate in *. cbn [g_start g_end] in *. rewrite TS by lia. rewrite E4. reflexivity.
Qed.

Lemma ipglob_rejects_code s : src_valid_glob s = Ok false -> src_IPGlob_init s = Raise AddrFormatError.
Proof.
  intros H. apply src_valid_false in H. destruct C17_tie_closed_ok as (_ & _ & _ & _ & _ & TI & _).
  rewrite TI, (ipglob_new_invalid src_to_cidrs s H). reflexivity.
Qed.

Lemma ipglob_set_code s e g0 fs : glob_fields fs ->
  exists g, src_IPGlob_set_glob s e g0 (show_glob fs) = Ok ((4, glob_lo fs), (4, glob_hi fs), Some g) /\
            glob_denotes g (glob_lo fs) (glob_hi fs).
Proof.
  intros Hg. destruct (set_glob_valid src_to_cidrs (obj_of s e g0) fs Hg) as (g & E & D). exists g.
  destruct C17_tie_closed_ok as (_ & _ & _ & _ & TS & _). rewrite TS, E. split; [reflexivity|exact D].
Qed.

Lemma ipglob_set_rejects_code s e g0 t : src_valid_glob t = Ok false -> src_IPGlob_set_glob s e g0 t = Raise AddrFormatError.
Proof.
  intros H. apply src_valid_false in H. destruct C17_tie_closed_ok as (_ & _ & _ & _ & TS & _).
  rewrite TS, (set_glob_invalid src_to_cidrs (obj_of s e g0) t H). reflexivity.
Qed.

(* ---- nmap.py; for any behaviour of the two platform parsers ---- *)
Section Platform.
Variable pton6 : string -> option Z.
Variable ip_address : string -> outcome (Z * Z).


Lemma src_parse_eq s : gen_of_outcomes (src__parse_nmap_target_spec pton6 ip_address s) = parse_nmap_target_spec pton6 ip_address s.
Proof. apply C17_nmap_tie_ok. Qed.
Lemma src_iter_eq specs : gen_of_outcomes (src_iter_nmap_range pton6 ip_address specs) = iter_nmap_range pton6 ip_address specs.
Proof. apply C17_nmap_tie_ok. Qed.

Lemma nmap_valid_code s :
  src_valid_nmap_range pton6 ip_address s = Ok true <-> snd (gen_of_outcomes (src_iter_nmap_range pton6 ip_address [s])) = None.
Proof. rewrite src_valid_nmap_range_ok, src_iter_eq. apply valid_iff_iter. Qed.

Lemma nmap_valid_cases_code s :
  match gen_of_outcomes (src__parse_nmap_target_spec pton6 ip_address s) with
  | (_ :: _, None) => src_valid_nmap_range pton6 ip_address s = Ok true
  | ([], Some e) => src_valid_nmap_range pton6 ip_address s =
                      (match e with TypeError | ValueError | AddrFormatError => Ok false | _ => Raise e end)
  | _ => False
  end.
Proof. rewrite src_valid_nmap_range_ok, src_parse_eq. apply valid_cases. Qed.

Lemma nmap_octet_set_code spec l : src__nmap_octet_target_values spec = Ok l ->
  StronglySorted Z.lt l /\ Forall octet l /\ l <> [] /\ forall x, In x l <-> octets_den spec x.
Proof. rewrite src_nmap_octet_target_values_ok. apply octet_values_ok. Qed.

Lemma nmap_iter_code s :
  contains_char ch_slash s = false -> contains_char ch_colon s = false ->
  match src__generate_nmap_octet_ranges s with
  | Raise e => gen_of_outcomes (src__parse_nmap_target_spec pton6 ip_address s) = ([], Some e)
  | Ok (A, B, C, D) =>
      gen_of_outcomes (src__parse_nmap_target_spec pton6 ip_address s) = (map (fun v => (4, v)) (quads A B C D), None) /\
      StronglySorted Z.lt (quads A B C D) /\ quads A B C D <> [] /\
      exists t0 t1 t2 t3, split ch_dot s = [t0; t1; t2; t3] /\
        (forall v, In v (quads A B C D) <->
                   exists a b c d, octets_den t0 a /\ octets_den t1 b /\ octets_den t2 c /\ octets_den t3 d /\
                                   v = of_octets [a; b; c; d])
  end.
Proof. rewrite src_generate_nmap_octet_ranges_ok, src_parse_eq. apply parse_octets. Qed.

Lemma nmap_iter_cidr_code a b c d p :
  octet a -> octet b -> octet c -> octet d -> 0 < p < 33 ->
  let v := of_octets [a; b; c; d] in
  let first := v - v mod 2 ^ (32 - p) in
  gen_of_outcomes (src__parse_nmap_target_spec pton6 ip_address (join "." [fmt_d a; fmt_d b; fmt_d c; fmt_d d] ++ "/" ++ fmt_d p)) =
    (map (fun x => (4, x)) (py_range first (first + 2 ^ (32 - p))), None).
Proof. rewrite src_parse_eq. apply parse_cidr. Qed.

Lemma nmap_iter_slash_code s xs :
  contains_char ch_slash s = true -> gen_of_outcomes (src__parse_nmap_target_spec pton6 ip_address s) = (xs, None) ->
  exists v p, ipnetwork_of_str pton6 s = Ok (4, v, p) /\ 0 <= v < 2 ^ 32 /\ 0 < p <= 32 /\
              let first := v - v mod 2 ^ (32 - p) in
              xs = map (fun x => (4, x)) (py_range first (first + 2 ^ (32 - p))).
Proof. rewrite src_parse_eq. apply parse_slash_ok. Qed.

Lemma nmap_iter_colon_code s :
  contains_char ch_slash s = false -> contains_char ch_colon s = true ->
  gen_of_outcomes (src__parse_nmap_target_spec pton6 ip_address s) =
    match ip_address s with Ok a => ([a], None) | Raise e => ([], Some e) end.
Proof. rewrite src_parse_eq. apply parse_colon. Qed.

Lemma nmap_iter_single_code s :
  gen_of_outcomes (src_iter_nmap_range pton6 ip_address [s]) = gen_of_outcomes (src__parse_nmap_target_spec pton6 ip_address s).
Proof. rewrite src_iter_eq, src_parse_eq. apply iter_single. Qed.

Lemma nmap_iter_many_code s rest :
  gen_of_outcomes (src_iter_nmap_range pton6 ip_address (s :: rest)) =
  match gen_of_outcomes (src__parse_nmap_target_spec pton6 ip_address s) with
  | (xs, Some e) => (xs, Some e)
  | (xs, None) => ((xs ++ fst (gen_of_outcomes (src_iter_nmap_range pton6 ip_address rest)))%list,
                   snd (gen_of_outcomes (src_iter_nmap_range pton6 ip_address rest)))
  end.
Proof. rewrite !src_iter_eq, src_parse_eq. apply iter_cons. Qed.
End Platform.
