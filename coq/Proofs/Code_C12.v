(* Proofs/Code_C12.v — the C12 property theorems restated about the definitions regenerated from the source
   (Gen/pysrc_cmp_gen.v: BaseIP.__eq__ __ne__ __lt__ __le__ __gt__ __ge__ and __hash__ for the three receiver classes,
    IPRange.sort_key; Gen/pysrc_gen.v: key / sort_key of IPAddress and IPNetwork, IPRange.key;
    Gen/pysrc_ctor_gen.v: __getstate__ / __setstate__ of IPAddress, IPNetwork, IPRange).
   Each lemma is the model theorem of Proofs/C12.v transported through Proofs/GenOk_Src_C12.v, GenOk_Src_C12_cmp.v,
   GenOk_Src_C12_state.v.  Objects are Order.obj (Addr | Net | Range); the code_* definitions dispatch on the class of the
   receiver to the generated method of that class (src_cmp of GenOk_Src_C12_cmp.v does it for the six comparisons). *)
From Coq Require Import Sorting.Sorted Sorting.Permutation.
From NV Require Import Base.Tac Base.PyVal Base.Bits Model.Ip Model.Order Model.SrcPrelude
  Gen.pysrc_gen Gen.pysrc_cmp_gen Gen.pysrc_ctor_gen
  Proofs.C02 Proofs.C12_Lex Proofs.C12 Proofs.GenOk_Src_C12 Proofs.GenOk_Src_C12_cmp Proofs.GenOk_Src_C12_state.
Import ListNotations.
Open Scope Z_scope.

(* a op b for two BaseIP objects: the generated method of a's class applied to b; it never raises (code_cmp_total), so
   its boolean answer is read off *)
Definition code_cmp (op : cmpop) (a b : obj) : outcome bool := src_cmp op a (operand_of_obj b).
Definition code_cmpb (op : cmpop) (a b : obj) : bool := match code_cmp op a b with Ok t => t | Raise _ => false end.

Definition code_key (x : obj) : list Z :=
  match x with
  | Addr ver v => src_IPAddress_key ver (width ver) v
  | Net ver v p => src_IPNetwork_key ver (width ver) v p
  | Range ver s e => src_IPRange_key ver (width ver) s e
  end.
Definition code_sort_key (x : obj) : list Z :=
  match x with
  | Addr ver v => src_IPAddress_sort_key ver (width ver) v
  | Net ver v p => src_IPNetwork_sort_key ver (width ver) v p
  | Range ver s e => src_IPRange_sort_key ver (width ver) s e
  end.
Definition code_hash (H : list Z -> Z) (x : obj) : Z :=
  match x with
  | Addr ver v => src_IPAddress_hash ver (width ver) v H
  | Net ver v p => src_IPNetwork_hash ver (width ver) v p H
  | Range ver s e => src_IPRange_hash ver (width ver) s e H
  end.
Definition code_getstate (x : obj) : list Z :=
  match x with
  | Addr ver v => src_IPAddress_getstate ver (width ver) v
  | Net ver v p => src_IPNetwork_getstate ver (width ver) v p
  | Range ver s e => src_IPRange_getstate ver (width ver) s e
  end.
(* __setstate__ of class c on a pickled tuple; a tuple of the wrong length (ValueError when Python unpacks it) is not
   covered by the translation and keeps the model's answer *)
Definition code_setstate (c : cls) (state : list Z) : outcome obj :=
  match c, state with
  | CAddr, [value; version] => omap addr_obj (src_IPAddress_setstate (value, version))
  | CNet, [value; prefixlen; version] => omap net_obj (src_IPNetwork_setstate (value, prefixlen, version))
  | CRange, [start; end_; version] => omap range_obj (src_IPRange_setstate (start, end_, version))
  | _, _ => setstate c state
  end.
(* sorted(): stable insertion using only the generated `<` *)
Fixpoint code_insert_obj (x : obj) (l : list obj) : list obj :=
  match l with
  | [] => [x]
  | y :: t => if code_cmpb OpLt y x then y :: code_insert_obj x t else x :: y :: t
  end.
Definition code_sorted (l : list obj) : list obj := fold_right code_insert_obj [] l.

Lemma code_cmp_total op a b : code_cmp op a b = Ok (code_cmpb op a b).
Proof. unfold code_cmpb, code_cmp. rewrite src_cmp_ok. reflexivity. Qed.
Lemma code_cmpb_eq op a b : code_cmpb op a b = py_cmp op a b.
Proof. unfold code_cmpb, code_cmp. rewrite src_cmp_ok. reflexivity. Qed.
Lemma code_key_eq x : code_key x = key x.
Proof. destruct x; [apply src_addr_key_ok|apply src_net_key_ok|apply src_range_key_ok]. Qed.
Lemma code_sort_key_eq x : code_sort_key x = sort_key x.
Proof. destruct x; [apply src_addr_sort_key_ok|apply src_net_sort_key_ok|apply src_range_sort_key_ok]. Qed.
Lemma code_hash_eq H x : code_hash H x = py_hash H x.
Proof. destruct (src_hash_ok H) as (A & B & C). destruct x; [apply A|apply B|apply C]. Qed.
Lemma code_getstate_eq x : code_getstate x = getstate x.
Proof. destruct x; [apply src_addr_getstate_ok|apply src_net_getstate_ok|apply src_range_getstate_ok]. Qed.
Lemma code_setstate_eq c st : code_setstate c st = setstate c st.
Proof.
  destruct c; destruct st as [|a [|b [|d [|x r]]]]; try reflexivity; cbn [code_setstate];
    [apply src_addr_setstate_ok|apply src_net_setstate_ok|apply src_range_setstate_ok].
Qed.
Lemma code_insert_obj_eq x l : code_insert_obj x l = insert_obj x l.
Proof. induction l as [|y t IH]; [reflexivity|]. cbn [code_insert_obj insert_obj]. rewrite code_cmpb_eq, IH. reflexivity. Qed.
Lemma code_sorted_eq l : code_sorted l = sorted l.
Proof.
  induction l as [|x t IH]; [reflexivity|]. unfold code_sorted, sorted in *. cbn [fold_right]. rewrite IH. apply code_insert_obj_eq.
Qed.

(* ---- equality ---- *)
Lemma code_eq_addr ver1 v1 ver2 v2 :
  code_cmpb OpEq (Addr ver1 v1) (Addr ver2 v2) = true <-> ver1 = ver2 /\ v1 = v2.
Proof. rewrite code_cmpb_eq. exact (eq_addr ver1 v1 ver2 v2). Qed.

Lemma code_eq_block x y : is_block x = true -> is_block y = true -> wf_obj x -> wf_obj y ->
  (code_cmpb OpEq x y = true <-> over x = over y /\ ofirst x = ofirst y /\ olast x = olast y).
Proof. rewrite code_cmpb_eq. exact (eq_block x y). Qed.

Lemma code_addr_ne_block ver v y : is_block y = true ->
  code_cmpb OpEq (Addr ver v) y = false /\ code_cmpb OpEq y (Addr ver v) = false.
Proof. rewrite !code_cmpb_eq. exact (addr_ne_block ver v y). Qed.

Lemma code_ne x y : code_cmpb OpNe x y = negb (code_cmpb OpEq x y).
Proof. rewrite !code_cmpb_eq. exact (ne_negb_eq x y). Qed.

Lemma code_eq_equivalence :
  (forall x, code_cmpb OpEq x x = true) /\ (forall x y, code_cmpb OpEq x y = code_cmpb OpEq y x) /\
  (forall x y z, code_cmpb OpEq x y = true -> code_cmpb OpEq y z = true -> code_cmpb OpEq x z = true).
Proof.
  destruct eq_equivalence as (A & B & C).
  split; [intros x; rewrite code_cmpb_eq; apply A|]. split; [intros x y; rewrite !code_cmpb_eq; apply B|].
  intros x y z; rewrite !code_cmpb_eq; apply C.
Qed.

Lemma code_eq_hash (H : list Z -> Z) x y : code_cmpb OpEq x y = true -> code_hash H x = code_hash H y.
Proof. rewrite code_cmpb_eq, !code_hash_eq. exact (eq_hash H x y). Qed.

(* ---- order ---- *)
Lemma code_order :
  (forall x, code_cmpb OpLe x x = true) /\
  (forall x y z, code_cmpb OpLe x y = true -> code_cmpb OpLe y z = true -> code_cmpb OpLe x z = true) /\
  (forall x y, code_cmpb OpLe x y = true \/ code_cmpb OpLe y x = true) /\
  (forall x y, code_cmpb OpLt x y = negb (code_cmpb OpLe y x) /\ code_cmpb OpGt x y = code_cmpb OpLt y x /\
               code_cmpb OpGe x y = code_cmpb OpLe y x /\
               code_cmpb OpLt x y = code_cmpb OpLe x y && negb (tuple_cmp OpEq (code_sort_key x) (code_sort_key y))) /\
  (forall x y z, code_cmpb OpLt x y = true -> code_cmpb OpLt y z = true -> code_cmpb OpLt x z = true) /\
  (forall x y, over x < over y -> code_cmpb OpLt x y = true) /\
  (forall x y, wf_obj x -> wf_obj y -> over x = over y -> ofirst x < ofirst y -> code_cmpb OpLt x y = true) /\
  (forall ver v1 p1 v2 p2, let a := Net ver v1 p1 in let b := Net ver v2 p2 in
     wf_obj a -> wf_obj b -> ofirst a <= ofirst b -> olast b <= olast a ->
     (ofirst a <> ofirst b \/ olast a <> olast b) -> code_cmpb OpLt a b = true) /\
  (forall ver v p a, wf_obj (Net ver v p) -> ofirst (Net ver v p) <= a <= olast (Net ver v p) ->
     code_cmpb OpLt (Net ver v p) (Addr ver a) = true) /\
  (forall ver1 s1 e1 ver2 s2 e2, (ver1 < ver2 \/ (ver1 = ver2 /\ s1 < s2)) ->
     code_cmpb OpLt (Range ver1 s1 e1) (Range ver2 s2 e2) = true) /\
  (forall ver s e1 e2, num_bits (range_size s e2) < num_bits (range_size s e1) ->
     code_cmpb OpLt (Range ver s e1) (Range ver s e2) = true).
Proof.
  destruct order_all as (O1 & O2 & O3 & O4 & O5 & O6 & O7 & O8 & O9 & O10 & O11).
  split; [intros x; rewrite code_cmpb_eq; apply O1|].
  split; [intros x y z; rewrite !code_cmpb_eq; apply O2|].
  split; [intros x y; rewrite !code_cmpb_eq; apply O3|].
  split; [intros x y; rewrite !code_cmpb_eq, !code_sort_key_eq; apply O4|].
  split; [intros x y z; rewrite !code_cmpb_eq; apply O5|].
  split; [intros x y; rewrite code_cmpb_eq; apply O6|].
  split; [intros x y; rewrite code_cmpb_eq; apply O7|].
  split; [intros ver v1 p1 v2 p2; cbv zeta; rewrite code_cmpb_eq; apply O8|].
  split; [intros ver v p a; rewrite code_cmpb_eq; apply O9|].
  split; [intros ver1 s1 e1 ver2 s2 e2; rewrite code_cmpb_eq; apply O10|].
  intros ver s e1 e2; rewrite code_cmpb_eq; apply O11.
Qed.

Lemma filter_ext_eq {A} (f g : A -> bool) l : (forall a, f a = g a) -> filter f l = filter g l.
Proof. intros E. induction l as [|a t IH]; [reflexivity|]. cbn [filter]. rewrite E, IH. reflexivity. Qed.

Lemma code_sorted_spec l :
  Permutation (code_sorted l) l /\ StronglySorted (fun a b => code_cmpb OpLe a b = true) (code_sorted l) /\
  (forall k, filter (fun y => tuple_cmp OpEq (code_sort_key y) k) (code_sorted l) =
             filter (fun y => tuple_cmp OpEq (code_sort_key y) k) l).
Proof.
  rewrite code_sorted_eq. destruct (sorted_spec l) as (P & S & F). split; [exact P|]. split.
  - eapply StronglySorted_ind with (P := StronglySorted (fun a b => code_cmpb OpLe a b = true)); [constructor| |exact S].
    intros a t _ IH Fa. constructor; [exact IH|]. rewrite Forall_forall in *. intros b Hb. rewrite code_cmpb_eq. exact (Fa b Hb).
  - intros k. rewrite !(filter_ext_eq (fun y => tuple_cmp OpEq (code_sort_key y) k) (fun y => tuple_cmp OpEq (sort_key y) k))
      by (intros a; rewrite code_sort_key_eq; reflexivity). exact (F k).
Qed.

Lemma code_sorted_perm l l' : Permutation l l' -> map code_sort_key (code_sorted l) = map code_sort_key (code_sorted l').
Proof.
  intros P. rewrite !code_sorted_eq.
  rewrite !(map_ext code_sort_key sort_key code_sort_key_eq). exact (sorted_perm_invariant l l' P).
Qed.

(* ---- pickled state ---- *)
Lemma code_state_roundtrip x : wf_obj x ->
  code_setstate (cls_of x) (code_getstate x) = Ok x /\
  (forall y, code_setstate (cls_of x) (code_getstate x) = Ok y ->
     code_cmpb OpEq x y = true /\ code_sort_key x = code_sort_key y /\ forall H, code_hash H x = code_hash H y).
Proof.
  intros W. rewrite code_getstate_eq, code_setstate_eq. destruct (state_roundtrip_full x W) as (A & B).
  split; [exact A|]. intros y E. destruct (B y E) as (B1 & B2 & B3).
  rewrite code_cmpb_eq, !code_sort_key_eq. split; [exact B1|]. split; [exact B2|].
  intros H. rewrite !code_hash_eq. exact (B3 H).
Qed.

Lemma code_setstate_spec :
  (forall st, match code_setstate CAddr st with
     | Ok x => code_getstate x = st /\ cls_of x = CAddr /\ valid_ver (over x) = true
     | Raise e => e = ValueError /\ forall v ver, st = [v; ver] -> valid_ver ver = false end) /\
  (forall st, match code_setstate CNet st with
     | Ok x => code_getstate x = st /\ cls_of x = CNet /\ valid_ver (over x) = true /\
               exists v p, x = Net (over x) v p /\ 0 <= p <= width (over x)
     | Raise e => e = ValueError /\
               forall v p ver, st = [v; p; ver] -> valid_ver ver = false \/ ~ (0 <= p <= width ver) end) /\
  (forall st, match code_setstate CRange st with
     | Ok x => code_getstate x = st /\ cls_of x = CRange /\ valid_ver (over x) = true /\
               exists s e, x = Range (over x) s e /\ 0 <= s < 2 ^ width (over x) /\ 0 <= e < 2 ^ width (over x)
     | Raise e => e = ValueError \/ e = AddrFormatError end).
Proof.
  destruct setstate_spec as (A & B & C).
  split; [intros st; rewrite code_setstate_eq; specialize (A st); cbn [setstate]; destruct (addr_setstate st);
          [rewrite code_getstate_eq|]; exact A|].
  split; [intros st; rewrite code_setstate_eq; specialize (B st); cbn [setstate]; destruct (net_setstate st);
          [rewrite code_getstate_eq|]; exact B|].
  intros st; rewrite code_setstate_eq; specialize (C st); cbn [setstate]; destruct (range_setstate st);
    [rewrite code_getstate_eq|]; exact C.
Qed.
