(* Proofs/GenOk_Src_C09.v — source tie for C09: the definitions regenerated from the text of cidr_partition / cidr_exclude
   (Gen/pysrc_partition_gen.v: early returns, the two lists with append, the `while` loop with break as a Fixpoint on fuel,
   right[::-1] = rev, 2 ** e with its negative-exponent guard) equal the hand-written model of Model/Partition.v.
   The model works on (value, prefixlen) pairs of ONE family of width w; the Python function works on IPNetwork objects and
   takes the width from the target and the version from the exclude.  Hence the hypotheses: the exclude's version is 4 or 6
   (version test of the constructor symbol mk_net), target and exclude have the same version, and -- for the two early
   returns through `target.cidr`, which rebuilds the network through the range-checking constructor -- the target is
   well formed.  The loop lemma needs only the first two. *)
From NV Require Import Base.Tac Base.PyVal Base.Bits Model.Ip Model.Partition Model.Span Model.Merge Model.SrcPrelude
  Gen.pysrc_gen Gen.pysrc_partition_gen Proofs.C02 Proofs.GenOk_Src_Const Proofs.GenOk_Src_C02.
Import ListNotations.
Open Scope Z_scope.

(* lists of model pairs as lists of IPNetwork objects of version ver *)
Definition nets (ver : Z) (l : list cblk) : list net := map (net_of_cblk ver) l.
Definition nets3 (ver : Z) (r : list cblk * list cblk * list cblk) : list net * list net * list net :=
  (nets ver (fst (fst r)), nets ver (snd (fst r)), nets ver (snd r)).

Lemma net_of_cblk_of_net n : net_of_cblk (nver n) (cblk_of_net n) = n.
Proof. destruct n; reflexivity. Qed.

Lemma nets_snoc ver l n : nets ver l ++ [net_of_cblk ver n] = nets ver (l ++ [n]).
Proof. unfold nets. rewrite map_app. reflexivity. Qed.

(* IPNetwork((value, prefixlen), version=ver) for a version that exists: mk_net is Partition.net_of_tuple *)
Lemma mk_net_cblk ver a b : valid_ver ver = true ->
  mk_net ver a b = omap (net_of_cblk ver) (Partition.net_of_tuple (width ver) a b).
Proof.
  intros H. unfold mk_net, Partition.net_of_tuple, max_int. rewrite H.
  destruct (negb ((0 <=? a) && (a <=? max_int_w (width ver)))); [reflexivity|].
  destruct (negb ((0 <=? b) && (b <=? width ver))); reflexivity.
Qed.

(* the `while exclude.prefixlen >= new_prefixlen` loop = part_loop.  The generated loop carries the negative-exponent
   guard on `2 ** (width - new_prefixlen)`; it sits behind the `new_prefixlen > width: break` test and never fires. *)
Lemma src_part_loop_ok e : valid_ver (nver e) = true ->
  forall fuel l r np il iu,
  src_cidr_partition_loop1 fuel e (nver e) (width (nver e)) (nets (nver e) l) (nets (nver e) r) np il iu =
    omap (fun lr => (nets (nver e) (fst lr), nets (nver e) (snd lr)))
         (part_loop fuel (width (nver e)) (nval e) (nplen e) np il iu l r).
Proof.
  intros Hv. set (ver := nver e). set (w := width ver).
  induction fuel as [|f IH]; intros l r np il iu; [reflexivity|].
  cbn [src_cidr_partition_loop1 part_loop].
  change (src_IPNetwork_prefixlen (nver e) (width (nver e)) (nval e) (nplen e)) with (nplen e).
  change (src_IPNetwork_first (nver e) (width (nver e)) (nval e) (nplen e)) with (net_first w (nval e) (nplen e)).
  destruct (nplen e >=? np); [|reflexivity].
  destruct (net_first w (nval e) (nplen e) >=? iu).
  - rewrite (mk_net_cblk ver il np Hv). fold w.
    destruct (Partition.net_of_tuple w il np) as [n|]; [|reflexivity]. cbn [omap bind]. cbv zeta.
    destruct (np + 1 >? w) eqn:E.
    + cbn [omap fst snd]. rewrite nets_snoc. reflexivity.
    + replace (w - (np + 1) <? 0) with false by lia.
      rewrite nets_snoc. apply IH.
  - rewrite (mk_net_cblk ver iu np Hv). fold w.
    destruct (Partition.net_of_tuple w iu np) as [n|]; [|reflexivity]. cbn [omap bind]. cbv zeta.
    destruct (np + 1 >? w) eqn:E.
    + cbn [omap fst snd]. rewrite nets_snoc. reflexivity.
    + replace (w - (np + 1) <? 0) with false by lia.
      rewrite nets_snoc. apply IH.
Qed.

Lemma src_cidr_partition_ok t e :
  valid_ver (nver e) = true -> nver t = nver e ->
  0 <= nplen t <= width (nver t) -> 0 <= nval t < 2 ^ width (nver t) ->
  src_cidr_partition t e =
    omap (nets3 (nver e)) (cidr_partition (width (nver e)) (cblk_of_net t) (cblk_of_net e)).
Proof.
  intros Hv Ht Hp Hval.
  pose proof (src_cidr_wf (nver t) (nval t) (nplen t)) as C. rewrite Ht in C, Hp, Hval. specialize (C Hv Hp Hval). cbv zeta in C.
  unfold src_cidr_partition, cidr_partition, cblk_of_net. rewrite !Ht. set (ver := nver e) in *. set (w := width ver) in *.
  rewrite !src_first_ok, !src_last_ok.
  change (src_IPNetwork_prefixlen ver w (nval t) (nplen t)) with (nplen t).
  change (src_IPNetwork_prefixlen ver w (nval e) (nplen e)) with (nplen e).
  change (src_IPNetwork_version ver w (nval e) (nplen e)) with ver.
  cbv beta iota zeta.
  destruct (net_last w (nval e) (nplen e) <? net_first w (nval t) (nplen t)); [rewrite C; reflexivity|].
  destruct (net_last w (nval t) (nplen t) <? net_first w (nval e) (nplen e)); [rewrite C; reflexivity|].
  destruct (nplen t >=? nplen e).
  - cbn [omap]. unfold nets3, nets. cbn [map fst snd]. rewrite <- Ht.
    change (nval t, nplen t) with (cblk_of_net t). rewrite net_of_cblk_of_net. reflexivity.
  - unfold py_pow2. destruct (w - (nplen t + 1) <? 0); [reflexivity|]. cbn [bind].
    change (@nil net) with (nets ver []). unfold ver, w. rewrite (src_part_loop_ok e Hv). fold ver. fold w.
    destruct (part_loop (Z.to_nat w + 1) w (nval e) (nplen e) (nplen t + 1) (net_first w (nval t) (nplen t))
                (net_first w (nval t) (nplen t) + 2 ^ (w - (nplen t + 1))) [] []) as [[l r]|]; [|reflexivity].
    cbn [omap bind fst snd]. unfold nets3, nets. cbn [map fst snd]. rewrite map_rev.
    change (nval e, nplen e) with (cblk_of_net e). unfold ver. rewrite net_of_cblk_of_net. reflexivity.
Qed.

(* cidr_exclude: `left, _, right = cidr_partition(target, exclude); return left + right` *)
Lemma src_cidr_exclude_ok t e :
  valid_ver (nver e) = true -> nver t = nver e ->
  0 <= nplen t <= width (nver t) -> 0 <= nval t < 2 ^ width (nver t) ->
  src_cidr_exclude t e = omap (nets (nver e)) (cidr_exclude (width (nver e)) (cblk_of_net t) (cblk_of_net e)).
Proof.
  intros Hv Ht Hp Hval. unfold src_cidr_exclude, cidr_exclude. rewrite (src_cidr_partition_ok t e Hv Ht Hp Hval).
  destruct (cidr_partition (width (nver e)) (cblk_of_net t) (cblk_of_net e)) as [[[a b] c]|]; [|reflexivity].
  cbn [omap bind nets3 fst snd]. unfold nets. rewrite map_app. reflexivity.
Qed.

(* everything the C09 source tie states (Props/C09_src.v) *)
Lemma C09_tie_ok :
  (forall t e, valid_ver (nver e) = true -> nver t = nver e ->
     0 <= nplen t <= width (nver t) -> 0 <= nval t < 2 ^ width (nver t) ->
     src_cidr_partition t e =
       omap (nets3 (nver e)) (cidr_partition (width (nver e)) (cblk_of_net t) (cblk_of_net e)) /\
     src_cidr_exclude t e = omap (nets (nver e)) (cidr_exclude (width (nver e)) (cblk_of_net t) (cblk_of_net e))) /\
  (forall e, valid_ver (nver e) = true -> forall fuel l r np il iu,
     src_cidr_partition_loop1 fuel e (nver e) (width (nver e)) (nets (nver e) l) (nets (nver e) r) np il iu =
       omap (fun lr => (nets (nver e) (fst lr), nets (nver e) (snd lr)))
            (part_loop fuel (width (nver e)) (nval e) (nplen e) np il iu l r)).
Proof.
  split; [|exact src_part_loop_ok]. intros t e Hv Ht Hp Hval.
  split; [apply src_cidr_partition_ok|apply src_cidr_exclude_ok]; assumption.
Qed.
