(* Proofs/GenOk_Src_C12_g.v -- source tie for C12, tag SRCG: both definitions of netaddr/core.py num_bits (Gen/pysrc_core_gen.v)
   against Model/Order.v num_bits.  The definition the module uses (`return int_val.bit_length()`, int.bit_length read as
   SrcPreludeCmp.py_num_bits = Order.num_bits) is the model itself; the fallback loop of the `except AttributeError` handler
   (`while int_val: numbits += 1; int_val >>= 1`) is proved equal to it for every int_val >= 0 (for a negative one the Python loop
   does not terminate: >> 1 stays at -1). *)
From NV Require Import Base.Tac Base.PyVal Model.Ip Model.Order Model.SrcPrelude Model.SrcPreludeCmp Gen.pysrc_core_gen.
Import ListNotations.
Open Scope Z_scope.

Lemma size_le_nat p : (Pos.size_nat p <= Pos.to_nat p)%nat.
Proof.
  induction p as [q IH|q IH|]; cbn [Pos.size_nat].
  - rewrite Pos2Nat.inj_xI. pose proof (Pos2Nat.is_pos q). lia.
  - rewrite Pos2Nat.inj_xO. pose proof (Pos2Nat.is_pos q). lia.
  - rewrite Pos2Nat.inj_1. lia.
Qed.

Lemma fallback_loop_ok p : forall fuel nb, (Pos.size_nat p < fuel)%nat ->
  src_core_num_bits_fallback_loop1 fuel nb (Zpos p) = Ok (pos_bits p nb).
Proof.
  induction p as [q IH|q IH|]; intros fuel nb Hf; (destruct fuel as [|fuel]; [cbn in Hf; lia|]); cbn [Pos.size_nat] in Hf.
  - cbn [src_core_num_bits_fallback_loop1]. change (Z.pos q~1 =? 0) with false. cbv iota zeta. cbn [negb].
    change (Z.shiftr (Z.pos q~1) 1) with (Z.pos q). cbn [pos_bits]. apply IH. lia.
  - cbn [src_core_num_bits_fallback_loop1]. change (Z.pos q~0 =? 0) with false. cbv iota zeta. cbn [negb].
    change (Z.shiftr (Z.pos q~0) 1) with (Z.pos q). cbn [pos_bits]. apply IH. lia.
  - cbn [src_core_num_bits_fallback_loop1]. change (1 =? 0) with false. cbv iota zeta. cbn [negb].
    change (Z.shiftr 1 1) with 0. destruct fuel as [|fuel]; [lia|]. reflexivity.
Qed.

Lemma src_num_bits_fallback_ok n : 0 <= n -> src_core_num_bits_fallback n = Ok (num_bits n).
Proof.
  intros Hn. unfold src_core_num_bits_fallback. cbv zeta. destruct n as [|p|p]; [reflexivity| |lia].
  rewrite fallback_loop_ok; [reflexivity|]. pose proof (size_le_nat p). rewrite Z2Nat.inj_pos. lia.
Qed.

Lemma C12_tie_g_ok :
  (forall n, src_core_num_bits_bit_length n = num_bits n) /\
  (forall n, 0 <= n -> src_core_num_bits_fallback n = Ok (num_bits n)).
Proof. split; [reflexivity|exact src_num_bits_fallback_ok]. Qed.
