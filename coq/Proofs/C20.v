(* Proofs/C20.v — SubnetSplitter never hands out overlapping space (Model/Splitter.v).
   State vocabulary: B the base network (host bits allowed), st the list of available blocks, H the blocks handed
   out or removed so far.  inc w c x: address x lies in network c (first_of .. last_of, host bits ignored);
   cov w l x: x lies in some network of l.  Inv w B st H: available blocks well formed, host-bit-free (except an
   untouched base), pairwise disjoint with pairwise DISTINCT PREFIX LENGTHS, disjoint from H, H pairwise disjoint,
   and st, H together tile B.  Distinct prefix lengths make `available_subnets` (a stable sort by descending
   prefix of a Python set) independent of the set's iteration order. *)
From NV Require Import Base.Tac Base.PyVal Base.Bits Base.Canon Model.Ip Model.Partition Model.Span Model.Merge Model.Sets
  Model.Subnet Model.Splitter Proofs.C02 Proofs.C09 Proofs.C11 Proofs.NetDen Proofs.C20_geom Proofs.C20_excl.
From Coq Require Import Sorting.Sorted Sorting.Permutation.
Open Scope Z_scope.

(* ---------------------------------------------------------------- vocabulary *)
Definition inc (w : Z) (c : cblk) (x : Z) : Prop := first_of w c <= x <= last_of w c.
Definition cov (w : Z) (l : list cblk) (x : Z) : Prop := exists c, In c l /\ inc w c x.
Definition pw_disjoint (w : Z) (l : list cblk) : Prop :=
  NoDup l /\ forall a b x, In a l -> In b l -> inc w a x -> inc w b x -> a = b.

Record Inv (w : Z) (B : cblk) (st H : list cblk) : Prop := {
  inv_wf : forall c, In c st -> wf_cblk w c;
  inv_hostfree : forall c, In c st -> hostfree w c \/ c = B;
  inv_prefixes : NoDup (map snd st);
  inv_disjoint : forall a b x, In a st -> In b st -> inc w a x -> inc w b x -> a = b;
  inv_H_wf : forall h, In h H -> wf_cblk w h;
  inv_H_disjoint : pw_disjoint w H;
  inv_sep : forall c h x, In c st -> In h H -> inc w c x -> inc w h x -> False;
  inv_tiling : forall x, inc w B x <-> cov w st x \/ cov w H x }.

(* the block extract_subnet(q, ..) works on: an available block with the largest prefix <= q *)
Definition chosen (st : list cblk) (q : Z) (c0 : cblk) : Prop :=
  In c0 st /\ snd c0 <= q /\ forall c, In c st -> snd c <= q -> snd c <= snd c0.
Definition req_count (count : option Z) (q p : Z) : Z := match count with None => 2 ^ (q - p) | Some c => c end.
(* the first cnt blocks /q of c0 *)
Definition subnets_of (w : Z) (c0 : cblk) (q cnt : Z) : list cblk :=
  map (fun i => (first_of w c0 + i * 2 ^ (w - q), q)) (zseq 0 (Z.to_nat cnt)).

(* ---------------------------------------------------------------- small facts *)
Lemma cov_app w l1 l2 x : cov w (l1 ++ l2) x <-> cov w l1 x \/ cov w l2 x.
Proof.
  unfold cov. split.
  - intros (c & Hc & I). apply in_app_or in Hc. destruct Hc; [left|right]; eauto.
  - intros [(c & Hc & I)|(c & Hc & I)]; exists c; split; auto; apply in_or_app; auto.
Qed.

Lemma cov_cons w c l x : cov w (c :: l) x <-> inc w c x \/ cov w l x.
Proof.
  unfold cov. split.
  - intros (d & [<-|Hd] & I); [left; exact I|right; eauto].
  - intros [I|(d & Hd & I)]; [exists c; split; [now left|exact I]|exists d; split; [now right|exact I]].
Qed.

Lemma cov_nil w x : ~ cov w [] x.
Proof. intros (c & [] & _). Qed.

Lemma inc_first w c : 0 <= w -> wf_cblk w c -> inc w c (first_of w c).
Proof. intros Hw Hc. destruct (cblk_facts w c Hw Hc) as (P & _). unfold inc, last_of. lia. Qed.

Lemma inc_inb w c x : hostfree w c -> (inc w c x <-> inb w (blk_of c) x).
Proof. intros Hf. unfold inc. rewrite (hostfree_last w c Hf), inb_blk_of, <- Hf. lia. Qed.

Lemma inc_cidr w a b x : cidr_of w a = cidr_of w b -> (inc w a x <-> inc w b x).
Proof.
  unfold cidr_of. intros E. injection E as E1 E2. unfold inc, last_of. rewrite E1, E2. tauto.
Qed.

Lemma cblk_eq_dec (a b : cblk) : {a = b} + {a <> b}.
Proof. decide equality; apply Z.eq_dec. Qed.

Lemma key_inj {A} (f : A -> Z) l : NoDup (map f l) -> forall a b, In a l -> In b l -> f a = f b -> a = b.
Proof.
  induction l as [|c l IH]; intros N a b Ha Hb E; [destruct Ha|]. cbn in N. inversion N as [|? ? Hn N']; subst.
  destruct Ha as [<-|Ha], Hb as [<-|Hb]; auto.
  - exfalso. apply Hn. rewrite E. apply in_map, Hb.
  - exfalso. apply Hn. rewrite <- E. apply in_map, Ha.
Qed.

Lemma removed_in {A} (l1 l2 : list A) c : NoDup (l1 ++ c :: l2) ->
  forall x, In x (l1 ++ l2) <-> In x (l1 ++ c :: l2) /\ x <> c.
Proof.
  intros N x. pose proof (NoDup_remove_2 _ _ _ N) as Hn. rewrite !in_app_iff. cbn [In]. split.
  - intros Hx. split; [tauto|]. intros ->. apply Hn. apply in_or_app. exact Hx.
  - intros ([|[|]] & Ne); auto. congruence.
Qed.

Lemma SS_mid {A} (R : A -> A -> Prop) l1 a l2 : StronglySorted R (l1 ++ a :: l2) -> Forall (R a) l2.
Proof.
  induction l1 as [|b l1 IH]; cbn; intros S; inversion S; subst; auto.
Qed.

Lemma filter_all {A} (f : A -> bool) l : (forall x, In x l -> f x = true) -> filter f l = l.
Proof.
  induction l as [|a l IH]; intros H; cbn; [reflexivity|]. rewrite (H a (or_introl eq_refl)). f_equal.
  apply IH. intros; apply H; now right.
Qed.

Lemma filter_none {A} (f : A -> bool) l : (forall x, In x l -> f x = false) -> filter f l = [].
Proof.
  induction l as [|a l IH]; intros H; cbn; [reflexivity|]. rewrite (H a (or_introl eq_refl)).
  apply IH. intros; apply H; now right.
Qed.

Lemma in_zseq s n j : In j (zseq s n) <-> s <= j < s + Z.of_nat n.
Proof.
  unfold zseq. rewrite in_map_iff. split.
  - intros (k & <- & Hk). apply in_seq in Hk. lia.
  - intros Hj. exists (Z.to_nat (j - s)). split; [lia|]. apply in_seq. lia.
Qed.

Lemma zseq_nodup s n : NoDup (zseq s n).
Proof.
  unfold zseq. apply FinFun.Injective_map_NoDup; [|apply seq_NoDup]. intros a b E. lia.
Qed.

(* ---------------------------------------------------------------- available_subnets: a sorted permutation *)
Definition pdesc (a b : cblk) : Prop := snd b <= snd a.

Lemma ins_desc_perm x l : Permutation (ins_desc x l) (x :: l).
Proof.
  induction l as [|y r IH]; cbn [ins_desc]; [apply Permutation_refl|].
  destruct (snd y <? snd x); [apply Permutation_refl|].
  eapply Permutation_trans; [apply perm_skip, IH|apply perm_swap].
Qed.

Lemma avail_perm st : Permutation (available_subnets st) st.
Proof.
  unfold available_subnets. induction st as [|x st IH]; cbn [fold_right]; [constructor|].
  eapply Permutation_trans; [apply ins_desc_perm|apply perm_skip, IH].
Qed.

Lemma avail_in st c : In c (available_subnets st) <-> In c st.
Proof.
  split; apply Permutation_in; [apply avail_perm|apply Permutation_sym, avail_perm].
Qed.

Lemma ins_desc_sorted x l : StronglySorted pdesc l -> StronglySorted pdesc (ins_desc x l).
Proof.
  intros S. induction S as [|y r S IH F]; cbn [ins_desc]; [repeat constructor|].
  rewrite Forall_forall in F. case_ltb (snd y) (snd x).
  - constructor; [constructor; [exact S|apply Forall_forall; exact F]|].
    apply Forall_forall. intros z [<-|Hz]; unfold pdesc in *; [lia|]. specialize (F z Hz). lia.
  - constructor; [exact IH|]. apply Forall_forall. intros z Hz.
    apply (Permutation_in _ (ins_desc_perm x r)) in Hz. destruct Hz as [<-|Hz]; [unfold pdesc; lia|auto].
Qed.

Lemma avail_sorted st : StronglySorted pdesc (available_subnets st).
Proof.
  unfold available_subnets. induction st as [|x st IH]; cbn [fold_right]; [constructor|apply ins_desc_sorted, IH].
Qed.

(* with pairwise distinct prefix lengths the sorted order is unique: the iteration order of the set is irrelevant *)
Lemma sorted_perm_unique l1 : forall l2, NoDup (map snd l1) ->
  StronglySorted pdesc l1 -> StronglySorted pdesc l2 -> Permutation l1 l2 -> l1 = l2.
Proof.
  induction l1 as [|a l1 IH]; intros l2 N S1 S2 P.
  - apply Permutation_nil in P. now subst.
  - destruct l2 as [|b l2]; [apply Permutation_sym, Permutation_nil in P; discriminate|].
    inversion S1 as [|? ? S1' F1]; subst. inversion S2 as [|? ? S2' F2]; subst.
    rewrite Forall_forall in F1, F2.
    assert (a = b).
    { assert (Ia: In a (b :: l2)) by (eapply Permutation_in; [exact P|now left]).
      assert (Ib: In b (a :: l1)) by (eapply Permutation_in; [apply Permutation_sym; exact P|now left]).
      destruct Ia as [->|Ia]; [reflexivity|]. destruct Ib as [->|Ib]; [reflexivity|].
      specialize (F1 _ Ib). specialize (F2 _ Ia). unfold pdesc in *.
      apply (key_inj snd (a :: l1) N); [now left|now right|lia]. }
    subst b. f_equal. apply IH; auto.
    + cbn in N. inversion N; assumption.
    + eapply Permutation_cons_inv; exact P.
Qed.

Lemma available_subnets_unique st st2 : NoDup (map snd st) -> Permutation st st2 ->
  available_subnets st = available_subnets st2.
Proof.
  intros N P. apply sorted_perm_unique; try apply avail_sorted.
  - eapply Permutation_NoDup; [|exact N]. apply Permutation_map, Permutation_sym, avail_perm.
  - eapply Permutation_trans; [apply avail_perm|]. eapply Permutation_trans; [exact P|apply Permutation_sym, avail_perm].
Qed.

(* ---------------------------------------------------------------- the candidate loop *)
Lemma subnet_list_below w c q count : wf_cblk w c -> q < snd c -> subnet_list w c q count = Ok [].
Proof.
  intros (_ & Hp) Hq. destruct c as [v p]; cbn [fst snd] in *. unfold subnet_list.
  rewrite subnet_start_below by lia. reflexivity.
Qed.

Lemma loop_skip ver st q count pre r :
  (forall c, In c pre -> wf_cblk (width ver) c /\ q < snd c) ->
  extract_loop ver st (pre ++ r) q count = extract_loop ver st r q count.
Proof.
  induction pre as [|c pre IH]; intros H; [reflexivity|]. cbn [app extract_loop].
  destruct (H c (or_introl eq_refl)) as (Hc & Hq). rewrite (subnet_list_below _ c q count Hc Hq). cbn [bind].
  apply IH. intros; apply H; now right.
Qed.

Lemma cands_split q (cands : list cblk) :
  (forall c, In c cands -> q < snd c) \/
  exists pre c0 rest, cands = pre ++ c0 :: rest /\ (forall c, In c pre -> q < snd c) /\ snd c0 <= q.
Proof.
  induction cands as [|c l IH]; [left; intros c []|].
  destruct (Z_lt_le_dec q (snd c)) as [Hc|Hc].
  - destruct IH as [IH|(pre & c0 & rest & -> & Hpre & H0)].
    + left. intros d [<-|Hd]; auto.
    + right. exists (c :: pre), c0, rest. split; [reflexivity|split; [|exact H0]]. intros d [<-|Hd]; auto.
  - right. exists [], c, l. split; [reflexivity|split; [intros d []|exact Hc]].
Qed.

(* list(cidr.subnet(q, count)) for a block coarse enough *)
Lemma subnet_list_spec w v p q count : 0 <= p <= q -> q <= w -> 0 <= v < 2 ^ w ->
  let cnt := req_count count q p in
  (1 <= cnt <= 2 ^ (q - p) -> subnet_list w (v, p) q count = Ok (subnets_of w (v, p) q cnt)) /\
  (~ (1 <= cnt <= 2 ^ (q - p)) -> subnet_list w (v, p) q count = Raise ValueError).
Proof.
  intros Hp Hq Hv cnt. destruct (subnet_take_spec w v p q count Hp Hq Hv) as (T1 & T2). fold (req_count count q p) in T1, T2.
  fold cnt in T1, T2. split; intros Hc.
  - specialize (T1 Hc (Z.to_nat cnt)). unfold subnet_take in T1. unfold subnet_list.
    destruct (subnet_start w (v, p) q count) as [[g|]|e]; cbn [bind] in *.
    + destruct (gen_take (subnet_next w) (Z.to_nat cnt) g) as [l|e] eqn:G; cbn [bind] in T1; [|discriminate].
      injection T1 as E1 E2. rewrite E1, G, E2. rewrite Nat.min_id. reflexivity.
    + injection T1 as E1 _. lia.
    + discriminate.
  - specialize (T2 Hc O). unfold subnet_take in T2. unfold subnet_list.
    destruct (subnet_start w (v, p) q count) as [[g|]|e]; cbn [bind gen_take] in *; try discriminate. injection T2 as ->. reflexivity.
Qed.

(* ---------------------------------------------------------------- set.remove / set union *)
Lemma blk_eqb_spec w a b : 0 <= w -> wf_cblk w a -> wf_cblk w b ->
  (blk_eqb w a b = true <-> cidr_of w a = cidr_of w b).
Proof.
  intros Hw (Hva & Hpa) (Hvb & Hpb). unfold blk_eqb.
  rewrite !net_first_eq, !net_last_eq by assumption. unfold cidr_of, first_of, floor2.
  set (fa := fst a - fst a mod 2 ^ (w - snd a)). set (fb := fst b - fst b mod 2 ^ (w - snd b)).
  rewrite andb_true_iff, !Z.eqb_eq. split.
  - intros (E1 & E2). assert (E3: 2 ^ (w - snd a) = 2 ^ (w - snd b)) by lia.
    apply Z.pow_inj_r in E3; try lia. f_equal; lia.
  - intros E. injection E as E1 E2. rewrite E1, E2. split; reflexivity.
Qed.

Lemma remove_blk_found w k c : forall st, In c st -> blk_eqb w k c = true ->
  (forall c', In c' st -> blk_eqb w k c' = true -> c' = c) ->
  exists l1 l2, st = l1 ++ c :: l2 /\ remove_blk w st k = Ok (l1 ++ l2).
Proof.
  induction st as [|x r IH]; intros Hin E U; [destruct Hin|]. cbn [remove_blk].
  destruct (blk_eqb w k x) eqn:Ex.
  - assert (x = c) by (apply U; [now left|exact Ex]). subst x. exists [], r. split; reflexivity.
  - destruct Hin as [->|Hin]; [congruence|].
    destruct (IH Hin E) as (l1 & l2 & -> & R). { intros c' Hc'. apply U. now right. }
    exists (x :: l1), l2. split; [reflexivity|]. rewrite R. reflexivity.
Qed.

Lemma remove_blk_absent w k : forall st, (forall c, In c st -> blk_eqb w k c = false) ->
  remove_blk w st k = Raise KeyError.
Proof.
  induction st as [|x r IH]; intros H; [reflexivity|]. cbn [remove_blk].
  rewrite (H x (or_introl eq_refl)). rewrite IH; [reflexivity|]. intros; apply H; now right.
Qed.

Lemma fold_add w : forall rem st,
  (forall k c, In k rem -> In c st -> blk_eqb w k c = false) ->
  NoDup rem -> (forall k k', In k rem -> In k' rem -> blk_eqb w k k' = true -> k = k') ->
  fold_left (add_blk w) rem st = st ++ rem.
Proof.
  induction rem as [|k rem IH]; intros st H1 N H2; cbn [fold_left]; [now rewrite app_nil_r|].
  inversion N as [|? ? Hn N']; subst.
  assert (E: add_blk w st k = st ++ [k]).
  { unfold add_blk. destruct (existsb (blk_eqb w k) st) eqn:Ex; [|reflexivity].
    apply existsb_exists in Ex. destruct Ex as (c & Hc & Ec). rewrite (H1 k c (or_introl eq_refl) Hc) in Ec. discriminate. }
  rewrite E, IH; auto.
  - rewrite <- app_assoc. reflexivity.
  - intros k' c Hk' Hc. apply in_app_or in Hc. destruct Hc as [Hc|[<-|[]]]; [apply H1; [now right|exact Hc]|].
    destruct (blk_eqb w k' k) eqn:Ek; [|reflexivity]. exfalso.
    assert (k' = k) by (apply H2; [now right|now left|exact Ek]). subst. contradiction.
  - intros; apply H2; auto; now right.
Qed.

(* ---------------------------------------------------------------- the blocks cidr.subnet(q, cnt) yields *)
Lemma subnets_facts w c0 q cnt : 0 <= w -> wf_cblk w c0 -> snd c0 <= q <= w -> 1 <= cnt <= 2 ^ (q - snd c0) ->
  let F := first_of w c0 in let t := 2 ^ (w - q) in
  (forall s, In s (subnets_of w c0 q cnt) -> exists i, 0 <= i < cnt /\ s = (F + i * t, q) /\
       wf_cblk w s /\ hostfree w s /\ first_of w s = F + i * t /\ last_of w s = F + i * t + t - 1) /\
  (forall x, cov w (subnets_of w c0 q cnt) x <-> F <= x < F + cnt * t) /\
  NoDup (subnets_of w c0 q cnt) /\
  (forall a b x, In a (subnets_of w c0 q cnt) -> In b (subnets_of w c0 q cnt) -> inc w a x -> inc w b x -> a = b) /\
  F + cnt * t <= F + 2 ^ (w - snd c0) /\ 0 < t /\ (t | F + cnt * t) /\ subnets_of w c0 q cnt <> [].
Proof.
  intros Hw W0 Hq Hc F t. destruct c0 as [v p]. destruct W0 as (Hv & Hp). cbn [fst snd] in *.
  destruct (subnet_tiles w v p q ltac:(lia) ltac:(lia) Hv) as (TM & Each & _).
  change (floor2 v (w - p)) with F in Each. fold t in TM, Each.
  destruct (cblk_facts w (v, p) Hw (conj Hv Hp)) as (PT & DF & F0 & FL & _). cbn [fst snd] in *. fold F in DF, F0, FL.
  unfold last_of in FL. cbn [snd] in FL. fold F in FL.
  assert (Pt: 0 < t) by (apply pow2_pos; lia).
  assert (Elem: forall s, In s (subnets_of w (v, p) q cnt) -> exists i, 0 <= i < cnt /\ s = (F + i * t, q) /\
       wf_cblk w s /\ hostfree w s /\ first_of w s = F + i * t /\ last_of w s = F + i * t + t - 1).
  { intros s Hs. unfold subnets_of in Hs. apply in_map_iff in Hs. destruct Hs as (i & <- & Hi). apply in_zseq in Hi.
    fold F t. exists i. split; [lia|split; [reflexivity|]].
    destruct (Each i ltac:(lia)) as (_ & Fl & Lo & Hi' & _).
    assert (E1: first_of w (F + i * t, q) = F + i * t) by exact Fl.
    split; [split; cbn [fst snd]; lia|]. split; [unfold hostfree; cbn [fst]; now rewrite E1|].
    split; [exact E1|unfold last_of; rewrite E1; reflexivity]. }
  split; [exact Elem|]. split; [|split; [|split; [|split; [|split; [exact Pt|split]]]]].
  - intros x. split.
    + intros (s & Hs & I). destruct (Elem s Hs) as (i & Hi & _ & _ & _ & E1 & E2). unfold inc in I. rewrite E1, E2 in I. nia.
    + intros Hx. set (i := (x - F) / t).
      assert (Hi: 0 <= i < cnt /\ F + i * t <= x < F + i * t + t).
      { pose proof (Z.div_mod (x - F) t ltac:(lia)) as DM. pose proof (Z.mod_pos_bound (x - F) t Pt) as MB.
        fold i in DM. split; nia. }
      assert (Hs: In (F + i * t, q) (subnets_of w (v, p) q cnt)).
      { unfold subnets_of. apply in_map_iff. exists i. split; [reflexivity|apply in_zseq; lia]. }
      exists (F + i * t, q). split; [exact Hs|]. destruct (Elem _ Hs) as (j & _ & Ej & _ & _ & E1 & E2).
      unfold inc. rewrite E1, E2. injection Ej as Ej. assert (i = j) by nia. subst j. lia.
  - unfold subnets_of. apply FinFun.Injective_map_NoDup; [|apply zseq_nodup].
    intros a b E. injection E as E. fold F t in E. nia.
  - intros a b x Ha Hb Ia Ib. destruct (Elem a Ha) as (i & Hi & -> & _ & _ & A1 & A2).
    destruct (Elem b Hb) as (j & Hj & -> & _ & _ & B1 & B2). unfold inc in Ia, Ib. rewrite A1, A2 in Ia. rewrite B1, B2 in Ib.
    assert (i = j) by nia. now subst.
  - nia.
  - apply Z.divide_add_r; [|apply Z.divide_mul_r, Z.divide_refl].
    eapply Z.divide_trans; [|exact DF]. apply pow2_divide. lia.
  - unfold subnets_of. replace (Z.to_nat cnt) with (S (Z.to_nat (cnt - 1))) by lia. rewrite zseq_S. discriminate.
Qed.

Lemma match_nonempty {A R} (l : list A) (x y : R) : l <> [] -> match l with [] => x | _ :: _ => y end = y.
Proof. destruct l; [congruence|reflexivity]. Qed.

(* ---------------------------------------------------------------- cidr_merge of same-family blocks covering [a, r) *)
Lemma merge_of_subnets : cidr_merge_spec -> forall ver S a r, valid_ver ver = true ->
  (forall s, In s S -> wf_cblk (width ver) s) ->
  (forall x, cov (width ver) S x <-> a <= x < r) ->
  exists l, cidr_merge (map (fun b => MNet (net_of_cblk ver b)) S) = Ok l /\
    (forall m, In m (map cblk_of_net l) -> wf_cblk (width ver) m /\ aligned (width ver) (blk_of m)) /\
    StronglySorted (below (width ver)) (blks_of (map cblk_of_net l)) /\
    (forall x, covered (width ver) (blks_of (map cblk_of_net l)) x <-> a <= x < r).
Proof.
  intros Spec ver S a r Hver WS Cov. set (w := width ver) in *.
  set (items := map (fun b => MNet (net_of_cblk ver b)) S).
  assert (Wi: Forall wf_mitem items).
  { apply Forall_forall. intros m Hm. apply in_map_iff in Hm. destruct Hm as (s & <- & Hs).
    destruct (WS s Hs) as (Hv & Hp). cbn. unfold wf_net, net_of_cblk; cbn [nver nval nplen]. auto. }
  assert (Di: forall ver' x, den_items items ver' x <-> ver' = ver /\ a <= x < r).
  { intros ver' x. rewrite <- (Cov x). unfold den_items, cov. split.
    - intros (m & Hm & (E1 & E2)). apply in_map_iff in Hm. destruct Hm as (s & <- & Hs).
      destruct (WS s Hs) as (Hv & Hp). cbn [mi_ver mi_first mi_last] in *. unfold nfirst, nlast, net_of_cblk in *. cbn [nver nval nplen] in *.
      fold w in E2. rewrite net_first_eq, net_last_eq in E2 by assumption.
      split; [now symmetry|]. exists s. split; [exact Hs|exact E2].
    - intros (-> & s & Hs & I). exists (MNet (net_of_cblk ver s)). split; [apply in_map_iff; exists s; auto|].
      destruct (WS s Hs) as (Hv & Hp). split; [reflexivity|]. cbn [mi_first mi_last]. unfold nfirst, nlast, net_of_cblk. cbn [nver nval nplen].
      fold w. rewrite net_first_eq, net_last_eq by assumption. exact I. }
  destruct (Spec items Wi) as (l & El & (Wl & Fam & C4 & C6) & Dl). exists l. split; [exact El|].
  rewrite Forall_forall in Wl.
  assert (Vl: forall n, In n l -> nver n = ver).
  { intros n Hn. destruct (Wl n Hn) as (Wn & _).
    assert (D: den l (nver n) (nf n)).
    { exists n. split; [exact Hn|]. split; [reflexivity|]. rewrite (nl_eq n Wn).
      pose proof (pow2_pos (width (nver n) - nplen n)) as P. destruct Wn as (_ & _ & Hp). lia. }
    apply Dl, Di in D. tauto. }
  assert (Eb: blks_of (map cblk_of_net l) = map net_blk l).
  { unfold blks_of. rewrite map_map. apply map_ext_in. intros n Hn. destruct (Wl n Hn) as (_ & Hf).
    unfold blk_of, cblk_of_net, net_blk; cbn [fst snd]. unfold hostfree in Hf. rewrite Hf. reflexivity. }
  assert (Cn: canon w (map net_blk l)).
  { destruct (width_cases ver Hver) as [(-> & Ew)|(-> & Ew)]; unfold w; rewrite Ew.
    - unfold fam_blks, fam in C4. rewrite filter_all in C4; [exact C4|]. intros n Hn. rewrite (Vl n Hn). reflexivity.
    - unfold fam_blks, fam in C6. rewrite filter_all in C6; [exact C6|]. intros n Hn. rewrite (Vl n Hn). reflexivity. }
  destruct Cn as (Al & Srt & _).
  split; [|split].
  - intros m Hm. split.
    + apply in_map_iff in Hm. destruct Hm as (n & <- & Hn). destruct (Wl n Hn) as ((_ & Hv & Hp) & _).
      rewrite (Vl n Hn) in Hv, Hp. unfold cblk_of_net. split; assumption.
    + apply Al. rewrite <- Eb. apply in_blks, Hm.
  - rewrite Eb. exact Srt.
  - intros x. rewrite Eb. split.
    + intros (b & Hb & I). apply in_map_iff in Hb. destruct Hb as (n & <- & Hn).
      assert (D: den l ver x).
      { exists n. split; [exact Hn|]. destruct (Wl n Hn) as (Wn & _). apply (in_net_inb n ver x Wn).
        split; [apply Vl, Hn|]. rewrite (Vl n Hn). exact I. }
      apply Dl, Di in D. tauto.
    + intros Hx. assert (D: den l ver x) by (apply Dl, Di; tauto).
      destruct D as (n & Hn & I). destruct (Wl n Hn) as (Wn & _). apply (in_net_inb n ver x Wn) in I.
      destruct I as (Ev & I). rewrite Ev in I. exists (net_blk n). split; [apply in_map, Hn|exact I].
Qed.

(* ---------------------------------------------------------------- Inv: initial state, consequences *)
Lemma Inv_init w B : 0 <= w -> wf_cblk w B -> Inv w B [B] [].
Proof.
  intros Hw HB. constructor.
  - intros c [<-|[]]. exact HB.
  - intros c [<-|[]]. now right.
  - cbn. constructor; [intros []|constructor].
  - intros a b x [<-|[]] [<-|[]] _ _. reflexivity.
  - intros h [].
  - split; [constructor|intros a b x []].
  - intros c h x _ [].
  - intros x. rewrite cov_cons. split; [intros I; left; left; exact I|].
    intros [[I|C]|C]; [exact I|destruct (cov_nil w x C)|destruct (cov_nil w x C)].
Qed.

Lemma Inv_inside w B st H c x : Inv w B st H -> In c st -> inc w c x -> inc w B x.
Proof. intros I Hc Ix. apply (inv_tiling w B st H I). left. exists c. auto. Qed.

Lemma Inv_H_inside w B st H h x : Inv w B st H -> In h H -> inc w h x -> inc w B x.
Proof. intros I Hh Ix. apply (inv_tiling w B st H I). right. exists h. auto. Qed.

Lemma Inv_nodup w B st H : Inv w B st H -> NoDup st.
Proof. intros I. apply (NoDup_map_inv snd). apply (inv_prefixes w B st H I). Qed.

(* the answers of the theorems below do not depend on the order in which the set is listed *)
Lemma Inv_perm w B st st2 H : Permutation st st2 -> Inv w B st H -> Inv w B st2 H.
Proof.
  intros P I. assert (In2: forall c, In c st2 -> In c st) by (intros c; apply Permutation_in, Permutation_sym, P).
  destruct I as [I1 I2 I3 I4 I5 I6 I7 I8]. constructor.
  - intros c Hc. apply I1, In2, Hc.
  - intros c Hc. apply I2, In2, Hc.
  - eapply Permutation_NoDup; [apply Permutation_map, P|exact I3].
  - intros a b x Ha Hb. apply I4; auto.
  - exact I5.
  - exact I6.
  - intros c h x Hc. apply (I7 c h x). auto.
  - intros x. rewrite (I8 x). unfold cov. split; (intros [(c & Hc & Ic)|R]; [left; exists c; split; [|exact Ic]|right; exact R]).
    + eapply Permutation_in; eauto.
    + auto.
Qed.

Lemma chosen_perm st st2 q c0 : Permutation st st2 -> chosen st q c0 -> chosen st2 q c0.
Proof.
  intros P (H1 & H2 & H3). split; [eapply Permutation_in; eauto|split; [exact H2|]].
  intros c Hc. apply H3. eapply Permutation_in; [apply Permutation_sym, P|exact Hc].
Qed.

Lemma chosen_unique st q c0 c1 : NoDup (map snd st) -> chosen st q c0 -> chosen st q c1 -> c0 = c1.
Proof.
  intros N (A1 & A2 & A3) (B1 & B2 & B3). apply (key_inj snd st N); auto.
  pose proof (A3 c1 B1 B2). pose proof (B3 c0 A1 A2). lia.
Qed.

(* ---------------------------------------------------------------- extract_subnet *)
Section Step.
Hypothesis Hmerge : cidr_merge_spec.
Variable ver : Z.
Hypothesis Hver : valid_ver ver = true.
Local Notation w := (width ver).
Variable B : cblk.
Hypothesis HB : wf_cblk w B.

Lemma extract_none st q count : (forall c, In c st -> wf_cblk w c) -> (forall c, In c st -> q < snd c) ->
  extract_subnet ver st q count = Ok (st, []).
Proof.
  intros W A. unfold extract_subnet. rewrite <- (app_nil_r (available_subnets st)). rewrite loop_skip; [reflexivity|].
  intros c Hc. apply -> avail_in in Hc. split; auto.
Qed.

Lemma chosen_dec st q : (forall c, In c st -> q < snd c) \/ exists c0, chosen st q c0.
Proof.
  destruct (cands_split q (available_subnets st)) as [All|(pre & c1 & rest & E & Hpre & H1)].
  - left. intros c Hc. apply All, avail_in, Hc.
  - right. exists c1. pose proof (avail_sorted st) as S. rewrite E in S. apply SS_mid in S. rewrite Forall_forall in S.
    split; [apply avail_in; rewrite E; apply in_or_app; right; now left|]. split; [exact H1|].
    intros c Hc Hq. apply <- avail_in in Hc. rewrite E in Hc. apply in_app_or in Hc. destruct Hc as [Hc|[<-|Hc]].
    + specialize (Hpre c Hc). lia.
    + lia.
    + exact (S c Hc).
Qed.

Lemma extract_at st q count c0 : (forall c, In c st -> wf_cblk w c) -> NoDup (map snd st) -> chosen st q c0 ->
  exists rest, extract_subnet ver st q count = extract_loop ver st (c0 :: rest) q count.
Proof.
  intros W N Ch. destruct (cands_split q (available_subnets st)) as [All|(pre & c1 & rest & E & Hpre & H1)].
  - exfalso. destruct Ch as (Hin & Hq & _). apply <- avail_in in Hin. specialize (All c0 Hin). lia.
  - exists rest. unfold extract_subnet. rewrite E, loop_skip.
    + f_equal. f_equal. 
      assert (Ch1: chosen st q c1).
      { pose proof (avail_sorted st) as S. rewrite E in S. apply SS_mid in S. rewrite Forall_forall in S.
        split; [apply avail_in; rewrite E; apply in_or_app; right; now left|]. split; [exact H1|].
        intros c Hc Hq. apply <- avail_in in Hc. rewrite E in Hc. apply in_app_or in Hc. destruct Hc as [Hc|[<-|Hc]].
        - specialize (Hpre c Hc). lia.
        - lia.
        - exact (S c Hc). }
      exact (chosen_unique st q c1 c0 N Ch1 Ch).
    + intros c Hc. split; [|exact (Hpre c Hc)]. apply W, avail_in. rewrite E. apply in_or_app. now left.
Qed.

Lemma extract_bad_count st H q count c0 : Inv w B st H -> q <= w -> chosen st q c0 ->
  ~ (1 <= req_count count q (snd c0) <= 2 ^ (q - snd c0)) -> extract_subnet ver st q count = Raise ValueError.
Proof.
  intros I Hq Ch Bad. destruct (extract_at st q count c0 (inv_wf _ _ _ _ I) (inv_prefixes _ _ _ _ I) Ch) as (rest & ->).
  destruct Ch as (Hin & Hpq & _). destruct (inv_wf _ _ _ _ I c0 Hin) as (Hv & Hp). destruct c0 as [v p]; cbn [fst snd] in *.
  cbn [extract_loop]. rewrite (proj2 (subnet_list_spec w v p q count ltac:(lia) Hq Hv) Bad). reflexivity.
Qed.

Theorem extract_ok st H q count c0 : Inv w B st H -> q <= w -> chosen st q c0 ->
  let cnt := req_count count q (snd c0) in
  1 <= cnt <= 2 ^ (q - snd c0) ->
  exists st', extract_subnet ver st q count = Ok (st', subnets_of w c0 q cnt) /\
    Inv w B st' (H ++ subnets_of w c0 q cnt) /\
    subnets_of w c0 q cnt <> [] /\
    (forall s, In s (subnets_of w c0 q cnt) ->
       snd s = q /\ wf_cblk w s /\ hostfree w s /\ (forall x, inc w s x -> inc w c0 x)) /\
    pw_disjoint w (subnets_of w c0 q cnt) /\
    (forall x, cov w st' x <-> cov w st x /\ ~ cov w (subnets_of w c0 q cnt) x).
Proof.
  intros I Hq Ch cnt Hc. pose proof (width_nonneg ver) as Hw.
  destruct (extract_at st q count c0 (inv_wf _ _ _ _ I) (inv_prefixes _ _ _ _ I) Ch) as (rest & ->).
  pose proof (Inv_nodup _ _ _ _ I) as Nst.
  destruct I as [I1 I2 I3 I4 I5 I6 I7 I8]. destruct Ch as (Hin & Hpq & Hmax).
  pose proof (I1 c0 Hin) as W0.
  destruct (subnets_facts w c0 q cnt Hw W0 ltac:(lia) Hc) as (SE & SC & SN & SD & Sle & Pt & Dr & Sne).
  set (S := subnets_of w c0 q cnt) in *. set (F := first_of w c0) in *. set (t := 2 ^ (w - q)) in *.
  set (r := F + cnt * t) in *.
  destruct (cblk_facts w c0 Hw W0) as (PT & DF & F0 & FL & _). fold F in DF, F0.
  set (e := F + 2 ^ (w - snd c0)) in *.
  assert (Le: last_of w c0 + 1 = e) by (unfold last_of, e, F; lia).
  assert (A0: forall x, inc w c0 x <-> F <= x < e) by (intros x; unfold inc; fold F; lia).
  assert (Fr: F < r) by (unfold r; nia).
  (* the loop body on c0 *)
  cbn [extract_loop].
  assert (ES: subnet_list w c0 q count = Ok S).
  { destruct c0 as [v p]. destruct W0 as (Hv & Hp). cbn [fst snd] in *.
    exact (proj1 (subnet_list_spec w v p q count ltac:(lia) Hq Hv) Hc). }
  rewrite ES. cbn [bind]. rewrite (match_nonempty S _ _ Sne).
  (* set.remove *)
  assert (X0: forall c x, In c st -> inc w c x -> F <= x < e -> c = c0).
  { intros c x Hc' Ix Hx. apply (I4 c c0 x); auto. apply A0, Hx. }
  destruct (remove_blk_found w c0 c0 st Hin) as (l1 & l2 & Est & Erm).
  { apply blk_eqb_spec; auto. }
  { intros c' Hc' E. apply blk_eqb_spec in E; auto. apply (X0 c' F Hc'); [|lia].
    apply (inc_cidr w c0 c' F E). apply A0. lia. }
  unfold remove_subnet. rewrite Erm. cbn [bind].
  assert (IN1: forall x, In x (l1 ++ l2) <-> In x st /\ x <> c0) by (rewrite Est in *; apply removed_in, Nst).
  (* cidr_merge, then the exclusion loop *)
  destruct (merge_of_subnets Hmerge ver S F r Hver) as (l & Em & HM & SM & CM).
  { intros s Hs. destruct (SE s Hs) as (i & _ & _ & Ws & _). exact Ws. }
  { exact SC. }
  rewrite Em. cbn [bind].
  destruct (exclude_each_top w Hw c0 (map cblk_of_net l) r W0 HM SM CM ltac:(fold F; lia)) as (rem & Ee & Gr & Tr).
  rewrite Ee. cbn [bind]. rewrite Le in Tr.
  destruct (good_prefixes w Hw rem F (snd c0) q r ltac:(destruct W0; lia) ltac:(lia) F0 DF Dr Fr Gr Tr) as (Rng & NR).
  destruct Gr as (Ge & Nd & Dj).
  assert (AR: forall k, In k rem -> wf_cblk w k /\ hostfree w k /\ (forall x, inc w k x -> r <= x < e)).
  { intros k Hk. destruct (Ge k Hk) as (Wk & Ak & _). pose proof (aligned_hostfree w k Ak) as Fk.
    split; [exact Wk|split; [exact Fk|]]. intros x Ix. apply Tr. exists (blk_of k). split; [apply in_blks, Hk|].
    apply (inc_inb w k x Fk), Ix. }
  assert (CR: forall x, cov w rem x <-> r <= x < e).
  { intros x. split.
    - intros (k & Hk & Ix). destruct (AR k Hk) as (_ & _ & R). exact (R x Ix).
    - intros Hx. apply Tr in Hx. destruct Hx as (b & Hb & Ix). apply blks_in in Hb. destruct Hb as (k & -> & Hk).
      exists k. split; [exact Hk|]. destruct (AR k Hk) as (_ & Fk & _). apply (inc_inb w k x Fk), Ix. }
  assert (DR: forall k k' x, In k rem -> In k' rem -> inc w k x -> inc w k' x -> k = k').
  { intros k k' x Hk Hk' Ix Ix'. destruct (AR k Hk) as (_ & Fk & _). destruct (AR k' Hk') as (_ & Fk' & _).
    apply blk_of_inj. apply (Dj (blk_of k) (blk_of k') x); try (apply in_blks; assumption).
    - apply (inc_inb w k x Fk), Ix.
    - apply (inc_inb w k' x Fk'), Ix'. }
  (* set union *)
  rewrite fold_add.
  2:{ intros k c Hk Hc'. destruct (blk_eqb w k c) eqn:E; [exfalso|reflexivity].
      apply IN1 in Hc'. destruct Hc' as (Hc' & Ne). destruct (AR k Hk) as (Wk & _ & Rk).
      apply blk_eqb_spec in E; auto.
      pose proof (inc_first w k Hw Wk) as Ik. apply Ne. apply (X0 c (first_of w k) Hc').
      - apply (inc_cidr w k c _ E), Ik.
      - specialize (Rk _ Ik). lia. }
  2:{ exact Nd. }
  2:{ intros k k' Hk Hk' E. destruct (AR k Hk) as (Wk & _). destruct (AR k' Hk') as (Wk' & _).
      apply blk_eqb_spec in E; auto. pose proof (inc_first w k Hw Wk) as Ik.
      apply (DR k k' (first_of w k)); auto. apply (inc_cidr w k k' _ E), Ik. }
  exists ((l1 ++ l2) ++ rem). split; [reflexivity|].
  (* returned subnets *)
  assert (S1: forall s, In s S -> snd s = q /\ wf_cblk w s /\ hostfree w s /\ (forall x, inc w s x -> F <= x < r)).
  { intros s Hs. destruct (SE s Hs) as (i & Hi & -> & Ws & Fs & E1 & E2). split; [reflexivity|split; [exact Ws|split; [exact Fs|]]].
    intros x Ix. apply SC. exists (F + i * t, q). auto. }
  assert (Cst: forall x, cov w st x <-> cov w (l1 ++ l2) x \/ F <= x < e).
  { intros x. split.
    - intros (c & Hc' & Ix). destruct (cblk_eq_dec c c0) as [->|Ne]; [right; apply A0, Ix|].
      left. exists c. split; [apply IN1; auto|exact Ix].
    - intros [(c & Hc' & Ix)|Hx]; [exists c; split; [apply IN1, Hc'|exact Ix]|exists c0; split; [exact Hin|apply A0, Hx]]. }
  split; [|split; [exact Sne|split; [|split; [split; [exact SN|exact SD]|]]]].
  - constructor.
    + intros c Hc'. apply in_app_or in Hc'. destruct Hc' as [Hc'|Hc']; [apply I1, IN1, Hc'|apply AR, Hc'].
    + intros c Hc'. apply in_app_or in Hc'. destruct Hc' as [Hc'|Hc']; [apply I2, IN1, Hc'|left; apply AR, Hc'].
    + rewrite map_app. apply nodup_app.
      * rewrite Est, map_app in I3. cbn [map] in I3. apply NoDup_remove_1 in I3. rewrite <- map_app in I3. exact I3.
      * exact NR.
      * intros z H1 H2. apply in_map_iff in H1. destruct H1 as (c & <- & Hc'). apply in_map_iff in H2. destruct H2 as (k & Ek & Hk).
        apply IN1 in Hc'. destruct Hc' as (Hc' & Ne). specialize (Rng k Hk). specialize (Hmax c Hc' ltac:(lia)).
        apply Ne. apply (key_inj snd st I3); auto. lia.
    + intros a b x Ha Hb Ia Ib. apply in_app_or in Ha. apply in_app_or in Hb. destruct Ha as [Ha|Ha], Hb as [Hb|Hb].
      * apply (I4 a b x); auto; apply IN1; assumption.
      * exfalso. apply IN1 in Ha. destruct Ha as (Ha & Ne). apply Ne. apply (X0 a x Ha Ia).
        destruct (AR b Hb) as (_ & _ & R). specialize (R x Ib). lia.
      * exfalso. apply IN1 in Hb. destruct Hb as (Hb & Ne). apply Ne. apply (X0 b x Hb Ib).
        destruct (AR a Ha) as (_ & _ & R). specialize (R x Ia). lia.
      * apply (DR a b x); auto.
    + intros h Hh. apply in_app_or in Hh. destruct Hh as [Hh|Hh]; [apply I5, Hh|apply S1, Hh].
    + destruct I6 as (NH & DH). split.
      * apply nodup_app; auto. intros h H1 H2. destruct (S1 h H2) as (_ & Wh & _ & Rh).
        pose proof (inc_first w h Hw Wh) as Ih. apply (I7 c0 h (first_of w h) Hin H1); [|exact Ih].
        apply A0. specialize (Rh _ Ih). lia.
      * intros a b x Ha Hb Ia Ib. apply in_app_or in Ha. apply in_app_or in Hb. destruct Ha as [Ha|Ha], Hb as [Hb|Hb].
        -- apply (DH a b x); auto.
        -- exfalso. destruct (S1 b Hb) as (_ & _ & _ & Rb). apply (I7 c0 a x Hin Ha); [|exact Ia].
           apply A0. specialize (Rb x Ib). lia.
        -- exfalso. destruct (S1 a Ha) as (_ & _ & _ & Ra). apply (I7 c0 b x Hin Hb); [|exact Ib].
           apply A0. specialize (Ra x Ia). lia.
        -- apply (SD a b x); auto.
    + intros c h x Hc' Hh Ic Ih. apply in_app_or in Hc'. apply in_app_or in Hh. destruct Hc' as [Hc'|Hc'], Hh as [Hh|Hh].
      * apply IN1 in Hc'. apply (I7 c h x); tauto.
      * apply IN1 in Hc'. destruct Hc' as (Hc' & Ne). apply Ne. apply (X0 c x Hc' Ic).
        destruct (S1 h Hh) as (_ & _ & _ & Rh). specialize (Rh x Ih). lia.
      * destruct (AR c Hc') as (_ & _ & R). specialize (R x Ic). apply (I7 c0 h x Hin Hh); [|exact Ih]. apply A0. lia.
      * destruct (AR c Hc') as (_ & _ & R). specialize (R x Ic). destruct (S1 h Hh) as (_ & _ & _ & Rh). specialize (Rh x Ih). lia.
    + intros x. rewrite (I8 x), (Cst x), !cov_app, (CR x), (SC x). fold F t r. clear - Sle Fr. clearbody r e F. tauto || lia || intuition lia.
  - intros s Hs. destruct (S1 s Hs) as (E1 & E2 & E3 & E4). split; [exact E1|split; [exact E2|split; [exact E3|]]].
    intros x Ix. apply A0. specialize (E4 x Ix). lia.
  - intros x. rewrite cov_app, (Cst x), (CR x), (SC x). fold F t r. split.
    + intros [C1|Hx]; [|lia]. split; [now left|]. intros Hx. destruct C1 as (c & Hc' & Ix). apply IN1 in Hc'.
      destruct Hc' as (Hc' & Ne). apply Ne. apply (X0 c x Hc' Ix). lia.
    + intros ([C1|Hx] & N); [now left|right; lia].
Qed.

(* every outcome of extract_subnet, read off the result *)
Theorem extract_cases st H q count : Inv w B st H -> q <= w ->
  match extract_subnet ver st q count with
  | Ok (st', subnets) =>
      Inv w B st' (H ++ subnets) /\
      (forall s, In s subnets -> snd s = q /\ wf_cblk w s /\ hostfree w s /\
                 (forall x, inc w s x -> inc w B x) /\ (forall h x, In h H -> inc w h x -> inc w s x -> False)) /\
      pw_disjoint w subnets /\
      (subnets = [] -> st' = st)
  | Raise e => e = ValueError
  end.
Proof.
  intros I Hq. destruct (chosen_dec st q) as [None|(c0 & Ch)].
  - rewrite (extract_none st q count (inv_wf _ _ _ _ I) None). rewrite app_nil_r.
    split; [exact I|split; [intros s []|split; [split; [constructor|intros a b x []]|reflexivity]]].
  - set (cnt := req_count count q (snd c0)).
    destruct (Z_le_dec 1 cnt) as [L1|L1]; [destruct (Z_le_dec cnt (2 ^ (q - snd c0))) as [L2|L2]|].
    + destruct (extract_ok st H q count c0 I Hq Ch (conj L1 L2)) as (st' & E & I' & Sne & SS & SD & _).
      rewrite E. fold cnt in I', Sne, SS, SD |- *. split; [exact I'|split; [|split; [exact SD|intros E0; contradiction]]].
      intros s Hs. destruct (SS s Hs) as (E1 & E2 & E3 & E4). destruct Ch as (Hin & _).
      split; [exact E1|split; [exact E2|split; [exact E3|split]]].
      * intros x Ix. apply (Inv_inside w B st H c0 x I Hin). apply E4, Ix.
      * intros h x Hh Ih Is. apply (inv_sep _ _ _ _ I c0 h x Hin Hh); [apply E4, Is|exact Ih].
    + rewrite (extract_bad_count st H q count c0 I Hq Ch); [reflexivity|fold cnt; lia].
    + rewrite (extract_bad_count st H q count c0 I Hq Ch); [reflexivity|fold cnt; lia].
Qed.

(* ---------------------------------------------------------------- remove_subnet *)
Theorem remove_ok st H k c : Inv w B st H -> wf_cblk w k -> In c st -> cidr_of w k = cidr_of w c ->
  exists st', remove_subnet w st k = Ok st' /\ Inv w B st' (H ++ [k]) /\ (forall x, In x st' <-> In x st /\ x <> c).
Proof.
  intros I Wk Hin E. pose proof (width_nonneg ver) as Hw. pose proof (Inv_nodup _ _ _ _ I) as Nst.
  destruct I as [I1 I2 I3 I4 I5 I6 I7 I8]. pose proof (I1 c Hin) as Wc.
  assert (Ikc: forall x, inc w k x <-> inc w c x) by (intros x; apply inc_cidr, E).
  destruct (remove_blk_found w k c st Hin) as (l1 & l2 & Est & Erm).
  { apply blk_eqb_spec; auto. }
  { intros c' Hc' E'. apply blk_eqb_spec in E'; auto. rewrite E in E'.
    apply (I4 c' c (first_of w c) Hc' Hin); [|apply inc_first; auto]. apply (inc_cidr w c c' _ E'). apply inc_first; auto. }
  assert (IN1: forall x, In x (l1 ++ l2) <-> In x st /\ x <> c) by (rewrite Est in *; apply removed_in, Nst).
  exists (l1 ++ l2). split; [exact Erm|split; [|exact IN1]].
  constructor.
  - intros c' Hc'. apply I1, IN1, Hc'.
  - intros c' Hc'. apply I2, IN1, Hc'.
  - rewrite Est, map_app in I3. cbn [map] in I3. apply NoDup_remove_1 in I3. rewrite <- map_app in I3. exact I3.
  - intros a b x Ha Hb. apply I4; apply IN1; assumption.
  - intros h Hh. apply in_app_or in Hh. destruct Hh as [Hh|[<-|[]]]; [apply I5, Hh|exact Wk].
  - destruct I6 as (NH & DH). split.
    + apply nodup_app; auto; [constructor; [intros []|constructor]|].
      intros h H1 [<-|[]]. apply (I7 c k (first_of w c) Hin H1); [apply inc_first; auto|]. apply Ikc, inc_first; auto.
    + intros a b x Ha Hb Ia Ib. apply in_app_or in Ha. apply in_app_or in Hb.
      destruct Ha as [Ha|[<-|[]]], Hb as [Hb|[<-|[]]].
      * apply (DH a b x); auto.
      * exfalso. apply (I7 c a x Hin Ha); [apply Ikc, Ib|exact Ia].
      * exfalso. apply (I7 c b x Hin Hb); [apply Ikc, Ia|exact Ib].
      * reflexivity.
  - intros c' h x Hc' Hh Ic Ih. apply IN1 in Hc'. destruct Hc' as (Hc' & Ne). apply in_app_or in Hh.
    destruct Hh as [Hh|[<-|[]]]; [exact (I7 c' h x Hc' Hh Ic Ih)|]. apply Ne. apply (I4 c' c x); auto. apply Ikc, Ih.
  - intros x. rewrite (I8 x), (cov_app w H [k] x), cov_cons. split.
    + intros [(c' & Hc' & Ic)|R]; [|tauto]. destruct (cblk_eq_dec c' c) as [->|Ne].
      * right. right. left. apply Ikc, Ic.
      * left. exists c'. split; [apply IN1; auto|exact Ic].
    + intros [(c' & Hc' & Ic)|[R|[Ik|C]]]; [left; exists c'; split; [apply IN1, Hc'|exact Ic]|tauto| |destruct (cov_nil w x C)].
      left. exists c. split; [exact Hin|apply Ikc, Ik].
Qed.

Theorem remove_absent st k : (forall c, In c st -> wf_cblk w c) -> wf_cblk w k ->
  (forall c, In c st -> cidr_of w k <> cidr_of w c) -> remove_subnet w st k = Raise KeyError.
Proof.
  intros W Wk A. apply remove_blk_absent. intros c Hc. destruct (blk_eqb w k c) eqn:E; [exfalso|reflexivity].
  apply blk_eqb_spec in E; auto; [exact (A c Hc E)|apply width_nonneg].
Qed.

Lemma available_dec st k : (forall c, In c st -> wf_cblk w c) -> wf_cblk w k ->
  (exists c, In c st /\ cidr_of w k = cidr_of w c) \/ (forall c, In c st -> cidr_of w k <> cidr_of w c).
Proof.
  intros W Wk. pose proof (width_nonneg ver) as Hw. destruct (existsb (blk_eqb w k) st) eqn:E.
  - left. apply existsb_exists in E. destruct E as (c & Hc & E). exists c. split; [exact Hc|]. apply blk_eqb_spec in E; auto.
  - right. intros c Hc E'. assert (existsb (blk_eqb w k) st = true); [|congruence].
    apply existsb_exists. exists c. split; [exact Hc|]. apply blk_eqb_spec; auto.
Qed.

(* ---------------------------------------------------------------- one API call *)
Definition op_ok (o : sp_op) : Prop := match o with SpExtract q _ => q <= w | SpRemove k => wf_cblk w k end.
(* what leaves the available space with a call: the returned subnets, or the removed block *)
Definition handed (o : sp_op) (r : outcome (list cblk)) : list cblk :=
  match r with Raise _ => [] | Ok s => match o with SpExtract _ _ => s | SpRemove k => [k] end end.

Definition step_ok (st H : list cblk) (o : sp_op) (res : sp_state * outcome (list cblk)) : Prop :=
  Inv w B (fst res) (H ++ handed o (snd res)) /\
  match o, snd res with
  | SpExtract q _, Ok subnets =>
      (forall s, In s subnets -> snd s = q /\ wf_cblk w s /\ hostfree w s /\
                 (forall x, inc w s x -> inc w B x) /\ (forall h x, In h H -> inc w h x -> inc w s x -> False)) /\
      pw_disjoint w subnets /\ (subnets = [] -> fst res = st)
  | SpExtract _ _, Raise e => e = ValueError /\ fst res = st
  | SpRemove k, Ok s => s = [] /\ exists c, In c st /\ cidr_of w k = cidr_of w c /\ forall x, In x (fst res) <-> In x st /\ x <> c
  | SpRemove k, Raise e => e = KeyError /\ fst res = st /\ forall c, In c st -> cidr_of w k <> cidr_of w c
  end.

Theorem step_spec st H o : Inv w B st H -> op_ok o -> step_ok st H o (sp_step ver st o).
Proof.
  intros I Ho. destruct o as [q count|k]; cbn [op_ok] in Ho; unfold sp_step, step_ok.
  - pose proof (extract_cases st H q count I Ho) as C. destruct (extract_subnet ver st q count) as [[st' subnets]|e]; cbn [fst snd handed].
    + destruct C as (C1 & C2 & C3 & C4). auto.
    + subst e. rewrite app_nil_r. auto.
  - destruct (available_dec st k (inv_wf _ _ _ _ I) Ho) as [(c & Hc & E)|A].
    + destruct (remove_ok st H k c I Ho Hc E) as (st' & R & I' & IN). rewrite R. cbn [fst snd handed].
      split; [exact I'|split; [reflexivity|]]. exists c. auto.
    + rewrite (remove_absent st k (inv_wf _ _ _ _ I) Ho A). cbn [fst snd handed]. rewrite app_nil_r. auto.
Qed.

(* ---------------------------------------------------------------- histories *)
Definition acc_step (s : sp_state * list cblk) (o : sp_op) : sp_state * list cblk :=
  let res := sp_step ver (fst s) o in (fst res, snd s ++ handed o (snd res)).
Definition run (ops : list sp_op) : sp_state * list cblk := fold_left acc_step ops ([B], []).

Lemma run_from ops : forall s, Forall op_ok ops -> Inv w B (fst s) (snd s) ->
  Inv w B (fst (fold_left acc_step ops s)) (snd (fold_left acc_step ops s)).
Proof.
  induction ops as [|o ops IH]; intros s Ho I; [exact I|]. inversion Ho; subst. cbn [fold_left]. apply IH; [assumption|].
  unfold acc_step; cbn [fst snd]. apply (step_spec (fst s) (snd s) o I). assumption.
Qed.

Theorem reachable ops : Forall op_ok ops -> Inv w B (fst (run ops)) (snd (run ops)).
Proof. intros Ho. apply run_from; [exact Ho|]. apply Inv_init; [apply width_nonneg|exact HB]. Qed.

Theorem reachable_step ops o : Forall op_ok ops -> op_ok o ->
  step_ok (fst (run ops)) (snd (run ops)) o (sp_step ver (fst (run ops)) o).
Proof. intros Ho H1. apply step_spec; [apply reachable, Ho|exact H1]. Qed.

Lemma run_snoc ops o : run (ops ++ [o]) = acc_step (run ops) o.
Proof. unfold run. rewrite fold_left_app. reflexivity. Qed.

(* totality: the only exceptions a well-formed call can raise *)
Theorem step_exn st H o e : Inv w B st H -> op_ok o -> snd (sp_step ver st o) = Raise e ->
  match o with SpExtract _ _ => e = ValueError | SpRemove _ => e = KeyError end /\ fst (sp_step ver st o) = st.
Proof.
  intros I Ho E. pose proof (step_spec st H o I Ho) as (_ & S). rewrite E in S. destruct o; tauto.
Qed.

End Step.

(* ---------------------------------------------------------------- the listing order of the set is irrelevant *)
Lemma cov_perm w l l2 x : Permutation l l2 -> (cov w l x <-> cov w l2 x).
Proof.
  intros P. unfold cov. split; intros (c & Hc & I); exists c; (split; [|exact I]).
  - eapply Permutation_in; eauto.
  - eapply Permutation_in; [apply Permutation_sym|]; eauto.
Qed.

Theorem extract_order_irrelevant : cidr_merge_spec -> forall ver B st st2 H q count, valid_ver ver = true ->
  Inv (width ver) B st H -> Permutation st st2 -> q <= width ver ->
  match extract_subnet ver st q count, extract_subnet ver st2 q count with
  | Ok (st', s), Ok (st2', s2) => s = s2 /\ forall x, cov (width ver) st' x <-> cov (width ver) st2' x
  | Raise e, Raise e2 => e = e2
  | _, _ => False
  end.
Proof.
  intros Hm ver B st st2 H q count Hver I P Hq. pose proof (Inv_perm _ _ _ _ _ P I) as I2.
  destruct (chosen_dec ver Hver st q) as [None|(c0 & Ch)].
  - rewrite (extract_none ver st q count (inv_wf _ _ _ _ I) None).
    rewrite (extract_none ver st2 q count (inv_wf _ _ _ _ I2)).
    + split; [reflexivity|]. intros x. apply cov_perm, P.
    + intros c Hc. apply None. eapply Permutation_in; [apply Permutation_sym, P|exact Hc].
  - pose proof (chosen_perm st st2 q c0 P Ch) as Ch2. set (cnt := req_count count q (snd c0)).
    destruct (Z_le_dec 1 cnt) as [L1|L1]; [destruct (Z_le_dec cnt (2 ^ (q - snd c0))) as [L2|L2]|].
    + destruct (extract_ok Hm ver Hver B st H q count c0 I Hq Ch (conj L1 L2)) as (st' & E & _ & _ & _ & _ & C).
      destruct (extract_ok Hm ver Hver B st2 H q count c0 I2 Hq Ch2 (conj L1 L2)) as (st2' & E2 & _ & _ & _ & _ & C2).
      rewrite E, E2. split; [reflexivity|]. intros x. rewrite (C x), (C2 x), (cov_perm _ st st2 x P). tauto.
    + rewrite (extract_bad_count ver Hver B st H q count c0 I Hq Ch) by (fold cnt; lia).
      rewrite (extract_bad_count ver Hver B st2 H q count c0 I2 Hq Ch2) by (fold cnt; lia). reflexivity.
    + rewrite (extract_bad_count ver Hver B st H q count c0 I Hq Ch) by (fold cnt; lia).
      rewrite (extract_bad_count ver Hver B st2 H q count c0 I2 Hq Ch2) by (fold cnt; lia). reflexivity.
Qed.

(* ---------------------------------------------------------------- the vocabulary, spelled out *)
Lemma Inv_def w B st H : Inv w B st H <->
  (forall c, In c st -> wf_cblk w c) /\
  (forall c, In c st -> hostfree w c \/ c = B) /\
  NoDup (map snd st) /\
  (forall a b x, In a st -> In b st -> inc w a x -> inc w b x -> a = b) /\
  (forall h, In h H -> wf_cblk w h) /\
  (NoDup H /\ forall a b x, In a H -> In b H -> inc w a x -> inc w b x -> a = b) /\
  (forall c h x, In c st -> In h H -> inc w c x -> inc w h x -> False) /\
  (forall x, inc w B x <-> (exists c, In c st /\ inc w c x) \/ (exists h, In h H /\ inc w h x)).
Proof.
  split.
  - intros [I1 I2 I3 I4 I5 I6 I7 I8]. repeat (split; [assumption|]). exact I8.
  - intros (I1 & I2 & I3 & I4 & I5 & I6 & I7 & I8). constructor; assumption.
Qed.

Lemma step_ok_def ver B st H o res : step_ok ver B st H o res <->
  Inv (width ver) B (fst res) (H ++ handed o (snd res)) /\
  match o, snd res with
  | SpExtract q _, Ok subnets =>
      (forall s, In s subnets -> snd s = q /\ wf_cblk (width ver) s /\ hostfree (width ver) s /\
                 (forall x, inc (width ver) s x -> inc (width ver) B x) /\
                 (forall h x, In h H -> inc (width ver) h x -> inc (width ver) s x -> False)) /\
      pw_disjoint (width ver) subnets /\ (subnets = [] -> fst res = st)
  | SpExtract _ _, Raise e => e = ValueError /\ fst res = st
  | SpRemove k, Ok s => s = [] /\ exists c, In c st /\ cidr_of (width ver) k = cidr_of (width ver) c /\
                                            forall x, In x (fst res) <-> In x st /\ x <> c
  | SpRemove k, Raise e => e = KeyError /\ fst res = st /\ forall c, In c st -> cidr_of (width ver) k <> cidr_of (width ver) c
  end.
Proof. reflexivity. Qed.

Lemma vocabulary : forall w c l x o r k q cnt c0 st count p,
  (inc w c x <-> first_of w c <= x <= last_of w c) /\
  (first_of w c = fst c - fst c mod 2 ^ (w - snd c)) /\ (last_of w c = first_of w c + 2 ^ (w - snd c) - 1) /\
  (cidr_of w c = (first_of w c, snd c)) /\
  (cov w l x <-> exists d, In d l /\ inc w d x) /\
  (hostfree w c <-> fst c = first_of w c) /\
  (wf_cblk w c <-> 0 <= fst c < 2 ^ w /\ 0 <= snd c <= w) /\
  (pw_disjoint w l <-> NoDup l /\ forall a b y, In a l -> In b l -> inc w a y -> inc w b y -> a = b) /\
  (chosen st q c0 <-> In c0 st /\ snd c0 <= q /\ forall d, In d st -> snd d <= q -> snd d <= snd c0) /\
  req_count count q p = match count with None => 2 ^ (q - p) | Some n => n end /\
  subnets_of w c0 q cnt = map (fun i => (first_of w c0 + i * 2 ^ (w - q), q)) (zseq 0 (Z.to_nat cnt)) /\
  (op_ok k o <-> match o with SpExtract q' _ => q' <= width k | SpRemove n => wf_cblk (width k) n end) /\
  handed o r = match r with Raise _ => [] | Ok s => match o with SpExtract _ _ => s | SpRemove n => [n] end end.
Proof. intros. repeat (split; [reflexivity|]). reflexivity. Qed.
