(* Proofs/GenOk_Src.v — the source tie (DESIGN 5.1b): every definition of Gen/pysrc_gen.v, regenerated on every run by
   harness/gen/pysrc.py from the current text of netaddr/ip/__init__.py, is proved equal to the hand-written model
   function used by the property theorems.  The lemmas are kept in one file per property so that an edit to a method
   breaks only the obligations of the properties whose model mirrors that method; this file re-exports all of them.
     GenOk_Src_Const  strategy constants (width, version, max_int), mk_addr on an in-range value
     GenOk_Src_C02    IPNetwork attributes, is_hostmask / is_netmask, _set_value / _set_prefixlen   (Model/Ip.v)
     GenOk_Src_C14    IPAddress arithmetic, bitwise operators, views                               (Model/Ip.v, AddrOps.v)
     GenOk_Src_C16    is_ipv4_mapped / is_ipv4_compat, ipv4, ipv6, IPNetwork.ipv6                   (Model/Conv.v)
     GenOk_Src_C12    key / sort_key                                                               (Model/Order.v)
     GenOk_Src_C11    IPNetwork.__iadd__ / __isub__                                                (Model/Subnet.v)
   and, for the functions with loops and lists (second round; Gen/pysrc_span_gen.v, pysrc_partition_gen.v, pysrc_iprange_gen.v):
     GenOk_Src_C02    + IPAddress.netmask_bits and its while loop                                  (Model/Ip.v nb_loop)
     GenOk_Src_C13    spanning_cidr, its for loop and its while loop                               (Model/Span.v)
     GenOk_Src_C09    cidr_partition, its while loop, cidr_exclude                                 (Model/Partition.v)
     GenOk_Src_C05    iprange_to_cidrs                                                             (Model/Merge.v)
     GenOk_Src_C04    IPNetwork.__contains__ / IPRange.__contains__ on the three BaseIP operands   (Model/Contains.v) *)
From NV Require Export Proofs.GenOk_Src_Const Proofs.GenOk_Src_C02 Proofs.GenOk_Src_C14 Proofs.GenOk_Src_C16
  Proofs.GenOk_Src_C12 Proofs.GenOk_Src_C11 Proofs.GenOk_Src_C13 Proofs.GenOk_Src_C09 Proofs.GenOk_Src_C05 Proofs.GenOk_Src_C04.
