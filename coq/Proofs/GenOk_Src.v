(* Proofs/GenOk_Src.v — the source tie (DESIGN 5.1b): every definition of Gen/pysrc_gen.v, regenerated on every run by
   harness/gen/pysrc.py from the current text of netaddr/ip/__init__.py, is proved equal to the hand-written model
   function used by the property theorems.  The lemmas are kept in one file per property so that an edit to a method
   breaks only the obligations of the properties whose model mirrors that method; this file re-exports all of them.
     GenOk_Src_Const  strategy constants (width, version, max_int), mk_addr on an in-range value
     GenOk_Src_C02    IPNetwork attributes, is_hostmask / is_netmask, _set_value / _set_prefixlen   (Model/Ip.v)
     GenOk_Src_C14    IPAddress arithmetic, bitwise operators, views                               (Model/Ip.v, AddrOps.v)
     GenOk_Src_C16    is_ipv4_mapped / is_ipv4_compat, ipv4, ipv6, IPNetwork.ipv6                   (Model/Conv.v)
     GenOk_Src_C12    key / sort_key                                                               (Model/Order.v)
     GenOk_Src_C11    IPNetwork.__iadd__ / __isub__                                                (Model/Subnet.v) *)
From NV Require Export Proofs.GenOk_Src_Const Proofs.GenOk_Src_C02 Proofs.GenOk_Src_C14 Proofs.GenOk_Src_C16
  Proofs.GenOk_Src_C12 Proofs.GenOk_Src_C11.
