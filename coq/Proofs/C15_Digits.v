(* Proofs/C15_Digits.v — positional numerals: digits_be / from_digits theory used by the C15 codec proofs. *)
From Coq Require Import String Ascii.
From NV Require Import Base.Tac Base.PyVal Base.Bits Base.PyStr Base.PyStrFacts Model.Codec.
Close Scope string_scope.
Open Scope Z_scope.

Lemma undigits_from_digits b l : undigits b l = from_digits b l.
Proof. reflexivity. Qed.

Lemma digits_be_length b n v : List.length (digits_be b n v) = n.
Proof. unfold digits_be. now rewrite map_length, seq_length. Qed.

Lemma digits_be_range b n v : 0 < b -> Forall (fun d => 0 <= d < b) (digits_be b n v).
Proof.
  intros Hb. unfold digits_be. apply Forall_forall. intros d Hd. apply in_map_iff in Hd.
  destruct Hd as (i & <- & _). apply Z.mod_pos_bound. exact Hb.
Qed.

Lemma digits_be_0 b v : digits_be b 0 v = [].
Proof. reflexivity. Qed.

(* most significant digit first *)
Lemma digits_be_S_cons b n v : digits_be b (S n) v = (v / b ^ Z.of_nat n) mod b :: digits_be b n v.
Proof.
  unfold digits_be. cbn [seq map]. f_equal.
  - f_equal. f_equal. f_equal. lia.
  - rewrite <- seq_shift, map_map. apply map_ext. intros i. f_equal. f_equal. f_equal. lia.
Qed.

(* least significant digit last *)
Lemma digits_be_S_snoc b n v : 0 < b -> digits_be b (S n) v = digits_be b n (v / b) ++ [v mod b].
Proof.
  intros Hb. unfold digits_be. rewrite seq_S, map_app. cbn [map plus]. f_equal.
  - apply map_ext_in. intros i Hi. apply in_seq in Hi.
    replace (Z.of_nat (S n) - 1 - Z.of_nat i) with (1 + (Z.of_nat n - 1 - Z.of_nat i)) by lia.
    rewrite Z.pow_add_r, Z.pow_1_r by lia. rewrite Z.div_div by (try lia; apply Z.pow_pos_nonneg; lia). reflexivity.
  - replace (Z.of_nat (S n) - 1 - Z.of_nat n) with 0 by lia. now rewrite Z.pow_0_r, Z.div_1_r.
Qed.

Lemma from_digits_digits_be b n v : 0 < b -> from_digits b (digits_be b n v) = v mod b ^ Z.of_nat n.
Proof.
  intros Hb. revert v. induction n as [|n IH]; intros v.
  - cbn. now rewrite Z.mod_1_r.
  - rewrite digits_be_S_snoc, from_digits_snoc, IH by exact Hb.
    rewrite Nat2Z.inj_succ, Z.pow_succ_r by lia.
    rewrite Z.rem_mul_r by (try lia; apply Z.pow_pos_nonneg; lia). lia.
Qed.

Lemma from_digits_digits_be_small b n v : 0 < b -> 0 <= v < b ^ Z.of_nat n -> from_digits b (digits_be b n v) = v.
Proof. intros Hb Hv. rewrite from_digits_digits_be by exact Hb. now apply Z.mod_small. Qed.

(* uniqueness: a list of n digits in range IS the n-digit numeral of its value *)
Lemma digits_be_unique b l : 0 < b -> Forall (fun d => 0 <= d < b) l ->
  digits_be b (List.length l) (from_digits b l) = l.
Proof.
  intros Hb. induction l as [|d l IH] using rev_ind; intros HF.
  - reflexivity.
  - apply Forall_app in HF. destruct HF as [HF Hd]. inversion Hd as [|? ? Hd' _]; subst.
    rewrite app_length. cbn [List.length]. replace (List.length l + 1)%nat with (S (List.length l)) by lia.
    rewrite digits_be_S_snoc, from_digits_snoc by exact Hb. f_equal.
    + rewrite Z.div_add_l by lia. rewrite Z.div_small by lia. rewrite Z.add_0_r. now apply IH.
    + f_equal. rewrite Z.add_comm, Z_mod_plus_full. now apply Z.mod_small.
Qed.

Lemma digits_be_zero b n : 0 < b -> digits_be b n 0 = repeat 0 n.
Proof.
  intros Hb. induction n as [|n IH]; [reflexivity|].
  rewrite digits_be_S_cons, IH. cbn [repeat]. now rewrite Z.div_0_l, Z.mod_0_l by (try apply Z.pow_nonzero; lia).
Qed.

(* n digits only see v mod b^n *)
Lemma digits_be_mod b n v : 0 < b -> digits_be b n (v mod b ^ Z.of_nat n) = digits_be b n v.
Proof.
  intros Hb. revert v. induction n as [|n IH]; intros v; [reflexivity|].
  rewrite !digits_be_S_snoc by exact Hb.
  rewrite Nat2Z.inj_succ, Z.pow_succ_r by lia.
  assert (Hp : 0 < b ^ Z.of_nat n) by (apply Z.pow_pos_nonneg; lia).
  rewrite Z.rem_mul_r by lia. f_equal.
  - replace (v mod b + b * ((v / b) mod b ^ Z.of_nat n)) with (v mod b + ((v / b) mod b ^ Z.of_nat n) * b) by ring.
    rewrite Z.div_add by lia. rewrite (Z.div_small (v mod b) b) by (apply Z.mod_pos_bound; lia). cbn [Z.add].
    apply IH.
  - f_equal. rewrite Z.mul_comm, Z_mod_plus_full. apply Z.mod_mod. lia.
Qed.

(* splitting a numeral into a high and a low part *)
Lemma digits_be_app b k m v : 0 < b ->
  digits_be b (k + m) v = digits_be b k (v / b ^ Z.of_nat m) ++ digits_be b m v.
Proof.
  intros Hb. induction k as [|k IH]; [reflexivity|].
  cbn [plus]. rewrite !digits_be_S_cons, IH. cbn [app]. f_equal. f_equal.
  rewrite Z.div_div by (try (apply Z.pow_pos_nonneg; lia); apply Z.pow_nonzero; lia).
  rewrite <- Z.pow_add_r by lia. f_equal. f_equal. lia.
Qed.

Lemma digits_be_pad b k m v : 0 < b -> 0 <= v < b ^ Z.of_nat m ->
  digits_be b (k + m) v = repeat 0 k ++ digits_be b m v.
Proof.
  intros Hb Hv. rewrite digits_be_app by exact Hb. rewrite Z.div_small by exact Hv. now rewrite digits_be_zero.
Qed.

(* digits of digits: n digits in base b^k, each written with k digits in base b, are the k*n digits in base b *)
Lemma digits_be_flat b k n v : 0 < b ->
  flat_map (digits_be b k) (digits_be (b ^ Z.of_nat k) n v) = digits_be b (k * n) v.
Proof.
  intros Hb. induction n as [|n IH].
  - now rewrite Nat.mul_0_r.
  - rewrite digits_be_S_cons. cbn [flat_map]. rewrite IH.
    replace (k * S n)%nat with (k + k * n)%nat by lia.
    rewrite digits_be_app by exact Hb. f_equal.
    rewrite digits_be_mod by exact Hb. f_equal. f_equal.
    rewrite <- Z.pow_mul_r by lia. f_equal. lia.
Qed.

(* the reversed numeral lists the digits least significant first *)
Lemma rev_digits_be b n v : 0 < b ->
  rev (digits_be b n v) = map (fun i => (v / b ^ Z.of_nat i) mod b) (seq 0 n).
Proof.
  intros Hb. revert v. induction n as [|n IH]; intros v; [reflexivity|].
  rewrite digits_be_S_snoc by exact Hb. rewrite rev_app_distr. cbn [rev app seq map].
  f_equal.
  - now rewrite Z.pow_0_r, Z.div_1_r.
  - rewrite IH, <- seq_shift, map_map. apply map_ext. intros i.
    rewrite Nat2Z.inj_succ, Z.pow_succ_r by lia. rewrite Z.div_div by (try lia; apply Z.pow_pos_nonneg; lia). reflexivity.
Qed.

(* relation with the canonical (shortest) numeral of the prelude *)
Lemma digits_be_digits_of b k n : 2 <= b -> (0 < k)%nat -> 0 <= n < b ^ Z.of_nat k ->
  digits_be b k n = repeat 0 (k - List.length (digits_of b n)) ++ digits_of b n.
Proof.
  intros Hb Hk Hn.
  destruct (digits_of_spec b n Hb (proj1 Hn)) as (HR & HV & HN).
  assert (Hm : (List.length (digits_of b n) <= k)%nat) by (apply digits_of_length; assumption).
  set (L := digits_of b n) in *. set (m := List.length L) in *.
  assert (HL : digits_be b m n = L).
  { rewrite <- HV at 1. unfold m. apply digits_be_unique; [lia|exact HR]. }
  assert (Hlt : 0 <= n < b ^ Z.of_nat m).
  { split; [lia|]. rewrite <- HV. unfold m. apply from_digits_bound; [lia|exact HR]. }
  replace k with ((k - m) + m)%nat at 1 by lia.
  rewrite digits_be_pad by (try exact Hlt; lia). now rewrite HL.
Qed.

(* ---- digit lists and bitwise or ---- *)
Lemma lor_shift_add a x k : 0 <= k -> 0 <= a < 2 ^ k -> Z.lor a (Z.shiftl x k) = a + x * 2 ^ k.
Proof.
  intros Hk Ha. rewrite <- Z.shiftl_mul_pow2 by exact Hk. symmetry. apply add_disjoint_lor.
  apply Z.bits_inj'. intros n Hn. rewrite Z.land_spec, Z.bits_0.
  destruct (Z.lt_ge_cases n k) as [Hlt|Hge].
  - rewrite Z.shiftl_spec_low by exact Hlt. apply andb_false_r.
  - replace a with (a mod 2 ^ k) by (apply Z.mod_small; exact Ha).
    rewrite Z.mod_pow2_bits_high by lia. reflexivity.
Qed.

(* value of a least-significant-first digit list *)
Fixpoint lsb_value (b : Z) (l : list Z) : Z := match l with [] => 0 | d :: r => d + b * lsb_value b r end.

Lemma lsb_value_rev b l : lsb_value b (rev l) = from_digits b l.
Proof.
  induction l as [|d l IH] using rev_ind; [reflexivity|].
  rewrite rev_app_distr. cbn [rev app lsb_value]. rewrite from_digits_snoc, IH. ring.
Qed.

Lemma lsb_value_bound b l : 0 < b -> Forall (fun d => 0 <= d < b) l -> 0 <= lsb_value b l < b ^ Z.of_nat (List.length l).
Proof.
  intros Hb HF. induction HF as [|d l Hd HF IH]; [cbn; lia|].
  cbn [lsb_value List.length]. rewrite Nat2Z.inj_succ, Z.pow_succ_r by lia. nia.
Qed.

Lemma lor_words_spec ws l : 0 <= ws -> Forall (fun d => 0 <= d < 2 ^ ws) l ->
  forall i acc, 0 <= i -> 0 <= acc < 2 ^ (ws * i) ->
  lor_words l i ws acc = acc + 2 ^ (ws * i) * lsb_value (2 ^ ws) l.
Proof.
  intros Hws HF. induction HF as [|d l Hd HF IH]; intros i acc Hi Hacc.
  - cbn. lia.
  - cbn [lor_words lsb_value].
    assert (Hp : 0 < 2 ^ ws) by (apply Z.pow_pos_nonneg; lia).
    assert (Hpi : 0 < 2 ^ (ws * i)) by (apply Z.pow_pos_nonneg; nia).
    rewrite lor_shift_add by (try exact Hacc; nia).
    rewrite IH.
    + replace (ws * (i + 1)) with (ws * i + ws) by ring. rewrite Z.pow_add_r by nia. ring.
    + lia.
    + replace (ws * (i + 1)) with (ws * i + ws) by ring. rewrite Z.pow_add_r by nia. nia.
Qed.

Lemma lor_words_rev ws l : 0 <= ws -> Forall (fun d => 0 <= d < 2 ^ ws) l ->
  lor_words (rev l) 0 ws 0 = from_digits (2 ^ ws) l.
Proof.
  intros Hws HF.
  rewrite lor_words_spec by (try lia; try (apply Forall_rev; exact HF); rewrite Z.mul_0_r, Z.pow_0_r; lia).
  rewrite Z.mul_0_r, Z.pow_0_r, lsb_value_rev. lia.
Qed.
