(* Proofs/C17_nmap.v — nmap target specifications: validator/iterator agreement and the yielded addresses. *)
From Coq Require Import String Ascii Sorted.
From NV Require Import Base.Tac Base.PyVal Base.Bits Base.PyStr Base.PyStrFacts Model.Ip Model.Glob Model.Nmap Proofs.C17_str.
From NV Require Proofs.C02.
Open Scope string_scope.
Open Scope Z_scope.

Notation asc := (StronglySorted Z.lt).

(* ---------------------------------------------------------------- lists of integers *)
Lemma zseq_in lo n x : In x (zseq lo n) <-> lo <= x < lo + Z.of_nat n.
Proof.
  revert lo. induction n as [|n IH]; intros lo; cbn [zseq In].
  - lia.
  - rewrite IH. lia.
Qed.

Lemma zseq_asc lo n : asc (zseq lo n).
Proof.
  revert lo. induction n as [|n IH]; intros lo; cbn [zseq]; constructor; [apply IH|].
  apply Forall_forall. intros x Hx. apply zseq_in in Hx. lia.
Qed.

Lemma py_range_in lo hi x : In x (py_range lo hi) <-> lo <= x < hi.
Proof. unfold py_range. rewrite zseq_in. lia. Qed.

Lemma set_add_in x l y : In y (set_add x l) <-> y = x \/ In y l.
Proof.
  induction l as [|z r IH]; cbn [set_add In].
  - intuition.
  - destruct (x <? z); cbn [In]; [intuition|]. case_eqb x z; cbn [In]; [subst; intuition|]. rewrite IH. intuition.
Qed.

Lemma set_add_asc x l : asc l -> asc (set_add x l).
Proof.
  induction 1 as [|z r Hr IH Hz]; cbn [set_add].
  - repeat constructor.
  - case_ltb x z.
    + constructor; [constructor; assumption|]. constructor; [assumption|].
      rewrite Forall_forall in *. intros y Hy. specialize (Hz y Hy). lia.
    + case_eqb x z; [constructor; assumption|].
      constructor; [exact IH|]. apply Forall_forall. intros y Hy. apply set_add_in in Hy.
      destruct Hy as [->|Hy]; [lia|]. rewrite Forall_forall in Hz. auto.
Qed.

Lemma fold_add_in new vals y : In y (fold_left (fun s x => set_add x s) new vals) <-> In y new \/ In y vals.
Proof.
  revert vals. induction new as [|x r IH]; intros vals; cbn [fold_left In].
  - intuition.
  - rewrite IH, set_add_in. intuition.
Qed.

Lemma fold_add_asc new vals : asc vals -> asc (fold_left (fun s x => set_add x s) new vals).
Proof. revert vals. induction new as [|x r IH]; intros vals H; cbn [fold_left]; [exact H|]. apply IH. now apply set_add_asc. Qed.

Lemma asc_app l1 l2 : asc l1 -> asc l2 -> (forall x y, In x l1 -> In y l2 -> x < y) -> asc (l1 ++ l2).
Proof.
  induction 1 as [|a r Hr IH Ha]; intros H2 Hlt; cbn [app]; [exact H2|].
  constructor.
  - apply IH; [exact H2|]. intros x y Hx Hy. apply Hlt; [right; exact Hx|exact Hy].
  - apply Forall_app. split; [exact Ha|]. apply Forall_forall. intros y Hy. apply Hlt; [left; reflexivity|exact Hy].
Qed.

(* blocks of size S laid out by an ascending index list stay ascending *)
Lemma asc_flat_map (f : Z -> list Z) l S base : 0 < S -> asc l ->
  (forall a, In a l -> asc (f a) /\ forall x, In x (f a) -> base + a * S <= x < base + a * S + S) ->
  asc (flat_map f l).
Proof.
  intros HS Hl. induction Hl as [|a r Hr IH Ha]; intros Hf; cbn [flat_map]; [constructor|].
  apply asc_app.
  - apply Hf. left. reflexivity.
  - apply IH. intros b Hb. apply Hf. right. exact Hb.
  - intros x y Hx Hy. apply in_flat_map in Hy. destruct Hy as (b & Hb & Hy).
    rewrite Forall_forall in Ha. specialize (Ha b Hb).
    destruct (Hf a (or_introl eq_refl)) as [_ Bx]. destruct (Hf b (or_intror Hb)) as [_ By].
    specialize (Bx x Hx). specialize (By y Hy). nia.
Qed.

Lemma asc_map_affine l k base : 0 < k -> asc l -> asc (map (fun z => base + k * z) l).
Proof.
  intros Hk. induction 1 as [|a r Hr IH Ha]; cbn [map]; constructor; [exact IH|].
  apply Forall_map. eapply Forall_impl; [|exact Ha]. cbn. intros; nia.
Qed.

(* ---------------------------------------------------------------- one octet list *)
Definition bound (s : string) (dflt : Z) : option Z := if is_empty s then Some dflt else py_int 10 s.

(* what one comma-separated element denotes: a number, or an inclusive range with optional ends *)
Definition elem_den (element : string) (x : Z) : Prop :=
  if contains_char ch_hyphen element then
    exists l r low high, split1 ch_hyphen element = [l; r] /\ bound l 0 = Some low /\ bound r 255 = Some high /\
                         low <= x <= high
  else py_int 10 element = Some x.

Definition octet (x : Z) : Prop := 0 <= x <= 255.

Lemma nmap_element_ok e l : nmap_element e = Ok l ->
  l <> [] /\ Forall octet l /\ forall x, In x l <-> elem_den e x.
Proof.
  unfold nmap_element, elem_den. destruct (contains_char ch_hyphen e) eqn:Eh.
  - destruct (split1_cases ch_hyphen e) as [[Hc _]|(a & b & -> & Ha & Hs)]; [congruence|].
    rewrite Hs. unfold int_of, bound.
    destruct (if is_empty a then Ok 0 else match py_int 10 a with Some v => Ok v | None => Raise ValueError end)
      as [low|] eqn:El; [|discriminate].
    destruct (if is_empty b then Ok 255 else match py_int 10 b with Some v => Ok v | None => Raise ValueError end)
      as [high|] eqn:Ehi; [|discriminate].
    cbn [bind]. destruct (((0 <=? low) && (low <=? 255)) && ((0 <=? high) && (high <=? 255))) eqn:Er; [|discriminate].
    cbn [negb]. destruct (low >? high) eqn:Eo; [discriminate|]. intros H. injection H as <-.
    assert (Bl : (if is_empty a then Some 0 else py_int 10 a) = Some low).
    { destruct (is_empty a); [congruence|]. destruct (py_int 10 a); congruence. }
    assert (Bh : (if is_empty b then Some 255 else py_int 10 b) = Some high).
    { destruct (is_empty b); [congruence|]. destruct (py_int 10 b); congruence. }
    split; [|split].
    + intros E. assert (In low (py_range low (high + 1))) as Hin by (apply py_range_in; lia). rewrite E in Hin. exact Hin.
    + apply Forall_forall. intros x Hx. apply py_range_in in Hx. unfold octet. lia.
    + intros x. rewrite py_range_in. split.
      * intros Hx. exists a, b, low, high. repeat split; try assumption; lia.
      * intros (a' & b' & low' & high' & E & B1 & B2 & Hx). injection E as <- <-.
        rewrite Bl in B1. rewrite Bh in B2. injection B1 as <-. injection B2 as <-. lia.
  - unfold int_of. destruct (py_int 10 e) as [v|]; [|discriminate]. cbn [bind].
    destruct ((0 <=? v) && (v <=? 255)) eqn:Er; [|discriminate]. cbn [negb]. intros H. injection H as <-.
    split; [discriminate|]. split; [repeat constructor; unfold octet; lia|].
    intros x. cbn [In]. split; [intros [<-|[]]; reflexivity|intros E; injection E as <-; left; reflexivity].
Qed.

Lemma nmap_element_exn e ex : nmap_element e = Raise ex -> ex = ValueError.
Proof.
  unfold nmap_element, int_of. destruct (contains_char ch_hyphen e).
  - destruct (split1 ch_hyphen e) as [|a [|b [|c r]]]; try congruence.
    destruct (is_empty a); [|destruct (py_int 10 a); [|cbn; congruence]];
      (destruct (is_empty b); [|destruct (py_int 10 b); [|cbn; congruence]]); cbn [bind];
      repeat match goal with |- context [if ?c then _ else _] => destruct c end; congruence.
  - destruct (py_int 10 e); [|cbn; congruence]. cbn [bind].
    repeat match goal with |- context [if ?c then _ else _] => destruct c end; congruence.
Qed.

Lemma values_loop_ok elements values l : nmap_values_loop elements values = Ok l ->
  asc values -> Forall octet values ->
  asc l /\ Forall octet l /\
  (forall x, In x l <-> In x values \/ exists e, In e elements /\ elem_den e x) /\
  (elements <> [] -> l <> []).
Proof.
  revert values. induction elements as [|e r IH]; intros values H Ha Ho; cbn [nmap_values_loop] in H.
  - injection H as <-. repeat split; try assumption; [intuition|intros [Hx|(e & [] & _)]; exact Hx|congruence].
  - destruct (nmap_element e) as [new|] eqn:En; [|discriminate]. cbn [bind] in H.
    destruct (nmap_element_ok e new En) as (Hne & Hoct & Hden).
    destruct (IH _ H) as (A1 & A2 & A3 & A4).
    { now apply fold_add_asc. }
    { apply Forall_forall. intros x Hx. apply fold_add_in in Hx. rewrite Forall_forall in Hoct, Ho.
      destruct Hx; auto. }
    split; [exact A1|]. split; [exact A2|]. split.
    + intros x. rewrite A3, fold_add_in, Hden. split.
      * intros [[Hx|Hx]|(e' & Hin & Hx)]; [right; exists e; split; [left; reflexivity|exact Hx]|left; exact Hx|].
        right. exists e'. split; [right; exact Hin|exact Hx].
      * intros [Hx|(e' & [<-|Hin] & Hx)]; [left; right; exact Hx|left; left; exact Hx|].
        right. exists e'. split; assumption.
    + intros _ E. destruct new as [|n0 new']; [congruence|].
      assert (In n0 l) as Hin by (apply A3; left; apply fold_add_in; left; left; reflexivity).
      rewrite E in Hin. exact Hin.
Qed.

Lemma values_loop_exn elements values ex : nmap_values_loop elements values = Raise ex -> ex = ValueError.
Proof.
  revert values. induction elements as [|e r IH]; intros values H; cbn [nmap_values_loop] in H; [discriminate|].
  destruct (nmap_element e) eqn:En; cbn [bind] in H; [eapply IH; exact H|].
  injection H as <-. eapply nmap_element_exn; exact En.
Qed.

(* the value set of one octet specification *)
Definition octets_den (spec : string) (x : Z) : Prop := exists e, In e (split ch_comma spec) /\ elem_den e x.

Theorem octet_values_ok spec l : nmap_octet_target_values spec = Ok l ->
  asc l /\ Forall octet l /\ l <> [] /\ forall x, In x l <-> octets_den spec x.
Proof.
  unfold nmap_octet_target_values. intros H.
  destruct (values_loop_ok _ _ _ H ltac:(constructor) ltac:(constructor)) as (A1 & A2 & A3 & A4).
  split; [exact A1|]. split; [exact A2|]. split; [apply A4; apply split_nonempty|].
  intros x. rewrite A3. unfold octets_den. cbn [In]. intuition.
Qed.

(* ---------------------------------------------------------------- cartesian product of four octet lists *)
Definition quads (A B C D : list Z) : list Z :=
  flat_map (fun w => flat_map (fun x => flat_map (fun y => map (fun z => of_octets [w; x; y; z]) D) C) B) A.

Lemma quads_in A B C D v :
  In v (quads A B C D) <-> exists a b c d, In a A /\ In b B /\ In c C /\ In d D /\ v = of_octets [a; b; c; d].
Proof.
  unfold quads. split.
  - intros H. apply in_flat_map in H. destruct H as (a & Ha & H). apply in_flat_map in H. destruct H as (b & Hb & H).
    apply in_flat_map in H. destruct H as (c & Hc & H). apply in_map_iff in H. destruct H as (d & <- & Hd).
    exists a, b, c, d. auto.
  - intros (a & b & c & d & Ha & Hb & Hc & Hd & ->).
    apply in_flat_map. exists a. split; [exact Ha|]. apply in_flat_map. exists b. split; [exact Hb|].
    apply in_flat_map. exists c. split; [exact Hc|]. apply in_map_iff. exists d. auto.
Qed.

Lemma quads_asc A B C D : asc A -> asc B -> asc C -> asc D ->
  Forall octet A -> Forall octet B -> Forall octet C -> Forall octet D -> asc (quads A B C D).
Proof.
  intros SA SB SC SD OA OB OC OD. unfold quads. rewrite Forall_forall in OA, OB, OC, OD. unfold octet in *.
  apply (asc_flat_map _ A 16777216 0); [lia|exact SA|]. intros a Ha. split.
  - apply (asc_flat_map _ B 65536 (a * 16777216)); [lia|exact SB|]. intros b Hb. split.
    + apply (asc_flat_map _ C 256 (a * 16777216 + b * 65536)); [lia|exact SC|]. intros c Hc. split.
      * assert (E : forall z, of_octets [a; b; c; z] = (a * 16777216 + b * 65536 + c * 256) + 1 * z)
          by (intros z; rewrite of_octets4; lia).
        erewrite map_ext by (intros z; apply E). apply asc_map_affine; [lia|exact SD].
      * intros x Hx. apply in_map_iff in Hx. destruct Hx as (d & <- & Hd). rewrite of_octets4.
        specialize (OD d Hd). lia.
    + intros x Hx. apply in_flat_map in Hx. destruct Hx as (c & Hc & Hx). apply in_map_iff in Hx.
      destruct Hx as (d & <- & Hd). rewrite of_octets4. specialize (OC c Hc). specialize (OD d Hd). lia.
  - intros x Hx. apply in_flat_map in Hx. destruct Hx as (b & Hb & Hx). apply in_flat_map in Hx.
    destruct Hx as (c & Hc & Hx). apply in_map_iff in Hx. destruct Hx as (d & <- & Hd). rewrite of_octets4.
    specialize (OB b Hb). specialize (OC c Hc). specialize (OD d Hd). lia.
Qed.

Lemma flat_map_ext_in {X Y} (f g : X -> list Y) l : (forall a, In a l -> f a = g a) -> flat_map f l = flat_map g l.
Proof.
  induction l as [|a r IH]; intros H; cbn [flat_map]; [reflexivity|].
  rewrite (H a (or_introl eq_refl)), IH; [reflexivity|]. intros b Hb. apply H. right. exact Hb.
Qed.

Lemma map_flat_map' {X Y Z'} (g : Y -> Z') (f : X -> list Y) l : map g (flat_map f l) = flat_map (fun a => map g (f a)) l.
Proof. induction l as [|a r IH]; cbn [flat_map map]; [reflexivity|]. now rewrite map_app, IH. Qed.

Lemma gen_of_oks {X} (l : list X) : gen_of_outcomes (map (@Ok X) l) = (l, None).
Proof. induction l as [|a r IH]; cbn [map gen_of_outcomes]; [reflexivity|]. now rewrite IH. Qed.

Lemma quad_address_ok w x y z : octet w -> octet x -> octet y -> octet z ->
  quad_address w x y z = Ok (4, of_octets [w; x; y; z]).
Proof. unfold octet, quad_address. intros. rewrite ip_of_canon_quad by lia. reflexivity. Qed.

Lemma product_gen A B C D : Forall octet A -> Forall octet B -> Forall octet C -> Forall octet D ->
  gen_of_outcomes
    (flat_map (fun w => flat_map (fun x => flat_map (fun y => map (fun z => quad_address w x y z) D) C) B) A)
  = (map (fun v => (4, v)) (quads A B C D), None).
Proof.
  intros OA OB OC OD. rewrite Forall_forall in OA, OB, OC, OD.
  rewrite <- gen_of_oks. f_equal. unfold quads.
  rewrite !map_flat_map'. apply flat_map_ext_in. intros a Ha.
  rewrite !map_flat_map'. apply flat_map_ext_in. intros b Hb.
  rewrite !map_flat_map'. apply flat_map_ext_in. intros c Hc.
  rewrite !map_map. apply map_ext_in. intros d Hd. apply quad_address_ok; auto.
Qed.

(* ---------------------------------------------------------------- the generator *)
Section Platform.
Variable pton6 : string -> option Z.
Variable ip_address : string -> outcome (Z * Z).

Notation parse := (parse_nmap_target_spec pton6 ip_address).

(* the octet branch *)
Theorem parse_octets s : contains_char ch_slash s = false -> contains_char ch_colon s = false ->
  match generate_nmap_octet_ranges s with
  | Raise e => parse s = ([], Some e)
  | Ok (A, B, C, D) =>
      parse s = (map (fun v => (4, v)) (quads A B C D), None) /\
      asc (quads A B C D) /\ quads A B C D <> [] /\
      exists t0 t1 t2 t3, split ch_dot s = [t0; t1; t2; t3] /\
        (forall v, In v (quads A B C D) <->
                   exists a b c d, octets_den t0 a /\ octets_den t1 b /\ octets_den t2 c /\ octets_den t3 d /\
                                   v = of_octets [a; b; c; d])
  end.
Proof.
  intros Hs Hc. unfold parse_nmap_target_spec. rewrite Hs, Hc.
  destruct (generate_nmap_octet_ranges s) as [[[[A B] C] D]|e] eqn:E; [|reflexivity].
  unfold generate_nmap_octet_ranges in E. destruct (is_empty s); [discriminate|].
  destruct (split ch_dot s) as [|t0 [|t1 [|t2 [|t3 [|t4 r]]]]]; try discriminate.
  destruct (nmap_octet_target_values t0) as [A'|] eqn:E0; [|discriminate].
  destruct (nmap_octet_target_values t1) as [B'|] eqn:E1; [|discriminate].
  destruct (nmap_octet_target_values t2) as [C'|] eqn:E2; [|discriminate].
  destruct (nmap_octet_target_values t3) as [D'|] eqn:E3; [|discriminate].
  cbn [bind] in E. injection E as <- <- <- <-.
  destruct (octet_values_ok _ _ E0) as (SA & OA & NA & DA). destruct (octet_values_ok _ _ E1) as (SB & OB & NB & DB).
  destruct (octet_values_ok _ _ E2) as (SC & OC & NC & DC). destruct (octet_values_ok _ _ E3) as (SD & OD & ND & DD).
  split; [now apply product_gen|]. split; [now apply quads_asc|]. split.
  - destruct A' as [|a ?]; [congruence|]. destruct B' as [|b ?]; [congruence|].
    destruct C' as [|c ?]; [congruence|]. destruct D' as [|d ?]; [congruence|].
    intros E. assert (In (of_octets [a; b; c; d]) (quads (a :: A') (b :: B') (c :: C') (d :: D'))) as Hin.
    { apply quads_in. exists a, b, c, d. cbn [In]. auto 10. }
    rewrite E in Hin. exact Hin.
  - exists t0, t1, t2, t3. split; [reflexivity|]. intros v. rewrite quads_in. split.
    + intros (a & b & c & d & Ha & Hb & Hc' & Hd & ->). exists a, b, c, d.
      rewrite <- DA, <- DB, <- DC, <- DD. auto.
    + intros (a & b & c & d & Ha & Hb & Hc' & Hd & ->). exists a, b, c, d.
      rewrite DA, DB, DC, DD. auto.
Qed.

(* the ':' branch: the single address IPAddress() makes of the text *)
Lemma parse_colon s : contains_char ch_slash s = false -> contains_char ch_colon s = true ->
  parse s = match ip_address s with Ok a => ([a], None) | Raise e => ([], Some e) end.
Proof. intros Hs Hc. unfold parse_nmap_target_spec. now rewrite Hs, Hc. Qed.

Lemma contains_join4 ch a b c d :
  contains_char ch (join "." [a; b; c; d]) =
  contains_char ch a || contains_char ch "." || contains_char ch b || contains_char ch "." || contains_char ch c
  || contains_char ch "." || contains_char ch d.
Proof. rewrite !join_cons, join_single, !contains_char_app. now rewrite !orb_assoc. Qed.

(* the '/' branch on a canonically written IPv4 CIDR: every address of the block, ascending *)
Theorem parse_cidr a b c d p : octet a -> octet b -> octet c -> octet d -> 0 < p < 33 ->
  let v := of_octets [a; b; c; d] in
  let first := v - v mod 2 ^ (32 - p) in
  parse (join "." [fmt_d a; fmt_d b; fmt_d c; fmt_d d] ++ "/" ++ fmt_d p) =
    (map (fun x => (4, x)) (py_range first (first + 2 ^ (32 - p))), None).
Proof.
  intros Ha Hb Hc Hd Hp v first. unfold octet in *.
  set (q := join "." [fmt_d a; fmt_d b; fmt_d c; fmt_d d]).
  assert (Hq : contains_char ch_slash q = false).
  { unfold q, ch_slash. rewrite contains_join4, !fmt_d_no_slash by lia. reflexivity. }
  unfold parse_nmap_target_spec.
  change (q ++ "/" ++ fmt_d p)%string with (q ++ String ch_slash (fmt_d p))%string.
  rewrite contains_char_app. cbn [contains_char chars existsb]. rewrite orb_true_r.
  change (contains_char ch_slash (String ch_slash (fmt_d p))) with true. rewrite ?orb_true_r.
  rewrite (split1_app ch_slash q (fmt_d p) Hq). rewrite py_int_fmt_d.
  replace ((0 <? p) && (p <? 33)) with true by lia. cbn [negb].
  unfold ipnetwork_of_str, parse_ip_network. rewrite (split1_app ch_slash q (fmt_d p) Hq).
  cbn [Z.eqb Pos.eqb]. unfold ipaddress4_pton, q. rewrite pton4_quad by lia. cbn [bind]. rewrite py_int_fmt_d.
  change (width 4) with 32. replace ((0 <=? p) && (p <=? 32)) with true by lia. cbn [negb Z.eqb Pos.eqb].
  fold v.
  assert (Hv : 0 <= v < 2 ^ 32) by (apply of_octets_range; lia).
  destruct (C02.identities_w 32 v p ltac:(lia) Hv) as (_ & _ & _ & _ & F & L & _).
  rewrite F, L. fold first. f_equal. f_equal. f_equal. lia.
Qed.

(* what IPNetwork(text) can return to the '/' branch *)
Lemma parse_ip_network4_ok s v p : parse_ip_network pton6 4 s = Ok (v, p) -> 0 <= v < 2 ^ 32 /\ 0 <= p <= 32.
Proof.
  unfold parse_ip_network. destruct (split1 ch_slash s) as [|val1 [|val2 [|? ?]]]; try discriminate.
  cbn [Z.eqb Pos.eqb]. unfold ipaddress4_pton.
  assert (K : forall t x, pton4 t = Some x -> 0 <= x < 2 ^ 32).
  { intros t x H. apply pton4_iff in H. destruct H as (a & b & c & d & Hr & _ & ->). apply of_octets_range; lia. }
  intros H.
  assert (exists x, 0 <= x < 2 ^ 32 /\
            match py_int 10 val2 with
            | Some prefixlen => if negb ((0 <=? prefixlen) && (prefixlen <=? width 4)) then Raise AddrFormatError
                                else Ok (x, prefixlen)
            | None => Raise Unsupported
            end = Ok (v, p)) as (x & Hx & H').
  { destruct (pton4 val1) as [x|] eqn:E1.
    - exists x. split; [eapply K; eauto|exact H].
    - destruct (expand_partial_address val1) as [ex|]; [|discriminate]. cbn [bind] in H.
      destruct (pton4 ex) as [x|] eqn:E2; [|discriminate]. exists x. split; [eapply K; eauto|exact H]. }
  destruct (py_int 10 val2) as [pl|]; [|discriminate]. change (width 4) with 32 in H'.
  destruct ((0 <=? pl) && (pl <=? 32)) eqn:Er; [|discriminate]. cbn [negb] in H'. injection H' as <- <-. lia.
Qed.

Lemma ipnetwork_v4 s v p : ipnetwork_of_str pton6 s = Ok (4, v, p) -> 0 <= v < 2 ^ 32 /\ 0 <= p <= 32.
Proof.
  unfold ipnetwork_of_str. destruct (parse_ip_network pton6 4 s) as [[v4 p4]|e4] eqn:E4.
  - intros H. injection H as <- <-. eapply parse_ip_network4_ok; eauto.
  - destruct e4; try discriminate. destruct (parse_ip_network pton6 6 s) as [[v6 p6]|e6]; [discriminate|].
    destruct e6; discriminate.
Qed.

(* the '/' branch in general (any spelling IPNetwork() accepts, e.g. partial addresses, lenient prefixes): when it
   succeeds it yields, ascending, exactly the addresses of the IPv4 network IPNetwork(text) denotes *)
Theorem parse_slash_ok s xs : contains_char ch_slash s = true -> parse s = (xs, None) ->
  exists v p, ipnetwork_of_str pton6 s = Ok (4, v, p) /\ 0 <= v < 2 ^ 32 /\ 0 < p <= 32 /\
              let first := v - v mod 2 ^ (32 - p) in
              xs = map (fun x => (4, x)) (py_range first (first + 2 ^ (32 - p))).
Proof.
  intros Hs. unfold parse_nmap_target_spec. rewrite Hs.
  destruct (split1_cases ch_slash s) as [[Hc _]|(val1 & prefix & Es & Hv1 & Hsp)]; [congruence|].
  rewrite Hsp. destruct (py_int 10 prefix) as [p0|] eqn:Ep; [|discriminate].
  destruct ((0 <? p0) && (p0 <? 33)) eqn:Er; [|discriminate]. cbn [negb].
  destruct (ipnetwork_of_str pton6 s) as [[[ver v] pl]|e] eqn:En; [|discriminate].
  case_eqb ver 4; cbn [negb]; [|discriminate]. subst ver. intros H. injection H as <-.
  destruct (ipnetwork_v4 _ _ _ En) as [Hv Hp].
  (* the prefix IPNetwork() read is the one nmap checked *)
  assert (pl = p0).
  { unfold ipnetwork_of_str in En. destruct (parse_ip_network pton6 4 s) as [[v4 p4]|e4] eqn:E4.
    - injection En as <- <-. unfold parse_ip_network in E4. rewrite Hsp in E4.
      destruct (if 4 =? 4 then _ else _); [|discriminate]. cbn [bind] in E4. rewrite Ep in E4.
      destruct (negb _); [discriminate|]. now injection E4 as _ <-.
    - destruct e4; try discriminate. destruct (parse_ip_network pton6 6 s) as [[v6 p6]|e6]; [discriminate|].
      destruct e6; discriminate. }
  subst pl. exists v, p0. split; [reflexivity|]. split; [exact Hv|]. split; [lia|].
  destruct (C02.identities_w 32 v p0 Hp Hv) as (_ & _ & _ & _ & F & L & _).
  cbv zeta. rewrite F, L. f_equal. f_equal. lia.
Qed.

(* errors are raised before the first yield, and a generator that does not fail yields something *)
Theorem parse_shape s :
  (exists xs, parse s = (xs, None) /\ xs <> []) \/ (exists e, parse s = ([], Some e)).
Proof.
  destruct (contains_char ch_slash s) eqn:Hs.
  - unfold parse_nmap_target_spec. rewrite Hs.
    destruct (split1 ch_slash s) as [|x [|prefix [|y r]]]; try (right; eexists; reflexivity).
    destruct (py_int 10 prefix) as [p|]; [|right; eexists; reflexivity].
    destruct (negb ((0 <? p) && (p <? 33))); [right; eexists; reflexivity|].
    destruct (ipnetwork_of_str pton6 s) as [[[ver v] pl]|e] eqn:En; [|right; eexists; reflexivity].
    case_eqb ver 4; cbn [negb]; [|right; eexists; reflexivity]. subst ver.
    left. eexists. split; [reflexivity|].
    destruct (ipnetwork_v4 _ _ _ En) as [Hv Hp].
    destruct (C02.identities_w 32 v pl Hp Hv) as (_ & _ & _ & _ & F & L & _).
    pose proof (pow2_pos (32 - pl) ltac:(lia)).
    intros E. apply map_eq_nil in E.
    assert (In (net_first 32 v pl) (py_range (net_first 32 v pl) (net_last 32 v pl + 1))) as Hin
      by (apply py_range_in; lia).
    rewrite E in Hin. exact Hin.
  - destruct (contains_char ch_colon s) eqn:Hc.
    + rewrite (parse_colon s Hs Hc).
      destruct (ip_address s); [left|right]; eexists; [split; [reflexivity|discriminate]|reflexivity].
    + pose proof (parse_octets s Hs Hc) as H. destruct (generate_nmap_octet_ranges s) as [[[[A B] C] D]|e].
      * destruct H as (-> & _ & Hne & _). left. eexists. split; [reflexivity|].
        intros E. apply map_eq_nil in E. contradiction.
      * right. eexists. exact H.
Qed.

(* C17_nmap_valid *)
Theorem valid_iff_iter s :
  valid_nmap_range pton6 ip_address s = Ok true <-> snd (iter_nmap_range pton6 ip_address [s]) = None.
Proof.
  unfold valid_nmap_range. cbn [iter_nmap_range].
  destruct (parse_shape s) as [(xs & -> & Hne)|(e & ->)].
  - destruct xs as [|x r]; [congruence|]. cbn. split; reflexivity.
  - cbn [snd]. split; [destruct e; discriminate|discriminate].
Qed.

(* valid_nmap_range never meets an exhausted generator, and says False exactly on the three caught classes *)
Theorem valid_cases s :
  match parse s with
  | (_ :: _, None) => valid_nmap_range pton6 ip_address s = Ok true
  | ([], Some e) => valid_nmap_range pton6 ip_address s =
                      (match e with TypeError | ValueError | AddrFormatError => Ok false | _ => Raise e end)
  | _ => False
  end.
Proof.
  unfold valid_nmap_range. destruct (parse_shape s) as [(xs & -> & Hne)|(e & ->)].
  - destruct xs; [congruence|reflexivity].
  - destruct e; reflexivity.
Qed.

(* a single specification: iter_nmap_range yields what the specification's generator yields *)
Lemma iter_single s : iter_nmap_range pton6 ip_address [s] = parse s.
Proof.
  cbn [iter_nmap_range]. destruct (parse s) as [xs [e|]]; [reflexivity|]. now rewrite app_nil_r.
Qed.

(* several specifications: concatenation up to the first failing one *)
Lemma iter_cons s rest :
  iter_nmap_range pton6 ip_address (s :: rest) =
  match parse s with
  | (xs, Some e) => (xs, Some e)
  | (xs, None) => ((xs ++ fst (iter_nmap_range pton6 ip_address rest))%list, snd (iter_nmap_range pton6 ip_address rest))
  end.
Proof.
  cbn [iter_nmap_range]. destruct (parse s) as [xs [e|]]; [reflexivity|].
  destruct (iter_nmap_range pton6 ip_address rest). reflexivity.
Qed.

(* the probe used for CIDR targets too large to enumerate: same validity flag, and the first three addresses of the
   generator (what itertools.islice(iter_nmap_range(s), 3) sees), errors included *)
Lemma zseq_firstn lo n k : firstn k (zseq lo n) = zseq lo (Nat.min k n).
Proof.
  revert lo n. induction k as [|k IH]; intros lo n; [reflexivity|].
  destruct n as [|n]; [reflexivity|]. cbn [zseq Nat.min firstn]. now rewrite IH.
Qed.

Lemma parse_slash_split s : contains_char ch_slash s = true ->
  parse s = match parse_cidr_spec pton6 s with
            | Ok (f, l) => (map (fun x => (4, x)) (py_range f (l + 1)), None)
            | Raise e => ([], Some e)
            end.
Proof.
  intros Hs. unfold parse_nmap_target_spec, parse_cidr_spec. rewrite Hs.
  destruct (split1 ch_slash s) as [|a [|b [|c r]]]; try reflexivity.
  destruct (py_int 10 b) as [p0|]; [|reflexivity].
  destruct (negb ((0 <? p0) && (p0 <? 33))); [reflexivity|].
  destruct (ipnetwork_of_str pton6 s) as [[[ver v] pl]|e]; [|reflexivity].
  destruct (negb (ver =? 4)); reflexivity.
Qed.

Theorem cidr_probe_ok s : contains_char ch_slash s = true ->
  fst (cidr_probe pton6 s) = firstn 3 (fst (parse s)) /\
  (snd (cidr_probe pton6 s) = snd (parse s)) /\
  valid_of_gen (cidr_probe pton6 s) = valid_nmap_range pton6 ip_address s.
Proof.
  intros Hs. unfold valid_nmap_range, cidr_probe. rewrite (parse_slash_split s Hs).
  destruct (parse_cidr_spec pton6 s) as [[f l]|e]; cbn [fst snd]; [|repeat split; reflexivity].
  rewrite firstn_map. unfold py_range. rewrite zseq_firstn.
  assert (E : Z.to_nat (Z.min (f + 3) (l + 1) - f) = Nat.min 3 (Z.to_nat (l + 1 - f))) by lia.
  rewrite E. split; [reflexivity|]. split; [reflexivity|].
  unfold valid_of_gen. destruct (Z.to_nat (l + 1 - f)) as [|[|[|n]]]; reflexivity.
Qed.
End Platform.

(* the '/' branch does not depend on what inet_pton(AF_INET6) answers *)
Lemma ipnetwork_pton6_irrelevant f g s v p :
  ipnetwork_of_str f s = Ok (4, v, p) -> ipnetwork_of_str g s = Ok (4, v, p).
Proof.
  unfold ipnetwork_of_str.
  assert (E : parse_ip_network f 4 s = parse_ip_network g 4 s) by reflexivity. rewrite <- E.
  destruct (parse_ip_network f 4 s) as [[v4 p4]|e4]; [auto|].
  destruct e4; try discriminate. destruct (parse_ip_network f 6 s) as [[v6 p6]|e6]; [discriminate|].
  destruct e6; discriminate.
Qed.
