(* Proofs/GenOk_Src_C12_state.v — source tie for C12, pickled state: the definitions regenerated from the text of
   __getstate__ / __setstate__ of IPAddress, IPNetwork and IPRange (netaddr/ip/__init__.py) equal the hand-written model of
   Model/Order.v (getstate, addr_setstate, net_setstate, range_setstate).  A state is the tuple of ints that __getstate__ made
   (the model's list of that length; the model's ValueError for a tuple of another length is Python's own unpacking error and is
   not part of the translated text).  __setstate__ is translated as a constructor: its result is the object it leaves behind.
   Also the IPRange constructor on two ints / two strings, which has no model function of its own: it is stated against the
   composition of the IPAddress constructor models (AddrOps.ctor_int, AddrText.init_str) that the range models inline. *)
From Coq Require Import String.
From NV Require Import Base.Tac Base.PyVal Model.Ip Model.AddrOps Model.AddrText Model.Order Model.SrcPrelude Model.SrcPreludeCtor
  Gen.pysrc_gen Gen.pysrc_ctor_gen Proofs.GenOk_Src_Const Proofs.GenOk_Src_C14_ctor Proofs.GenOk_Src_C01_ctor.
Import ListNotations.
Open Scope Z_scope.

Definition addr_obj (a : Z * Z) : obj := Addr (fst a) (snd a).
Definition net_obj (n : net) : obj := Net (nver n) (nval n) (nplen n).
Definition range_obj (r : Z * Z * Z) : obj := let '(m, s, e) := r in Range m s e.

Lemma src_addr_getstate_ok ver w v : src_IPAddress_getstate ver w v = getstate (Addr ver v).
Proof. reflexivity. Qed.
Lemma src_net_getstate_ok ver w v p : src_IPNetwork_getstate ver w v p = getstate (Net ver v p).
Proof. reflexivity. Qed.
Lemma src_range_getstate_ok ver w s e : src_IPRange_getstate ver w s e = getstate (Range ver s e).
Proof. reflexivity. Qed.
Lemma src_value_ok ver w v : src_IPAddress_value ver w v = v.
Proof. reflexivity. Qed.

Lemma src_addr_setstate_ok value version :
  omap addr_obj (src_IPAddress_setstate (value, version)) = addr_setstate [value; version].
Proof.
  unfold src_IPAddress_setstate, addr_setstate. cbv zeta beta iota.
  destruct (version =? 4); [reflexivity|]. destruct (version =? 6); reflexivity.
Qed.

Lemma src_net_setstate_ok value prefixlen version :
  omap net_obj (src_IPNetwork_setstate (value, prefixlen, version)) = net_setstate [value; prefixlen; version].
Proof.
  unfold src_IPNetwork_setstate, net_setstate. cbv zeta beta iota.
  destruct (version =? 4); cbn [bind].
  - change (width src_ipv4_version) with (width 4). destruct ((0 <=? prefixlen) && (prefixlen <=? width 4)); reflexivity.
  - destruct (version =? 6); cbn [bind]; [|reflexivity].
    change (width src_ipv6_version) with (width 6). destruct ((0 <=? prefixlen) && (prefixlen <=? width 6)); reflexivity.
Qed.

Lemma src_range_setstate_ok start end_ version :
  omap range_obj (src_IPRange_setstate (start, end_, version)) = range_setstate [start; end_; version].
Proof.
  unfold src_IPRange_setstate, range_setstate, mk_addr. cbv zeta beta iota.
  destruct (addr_of_int_ver start version) as [s|x]; [|reflexivity]. cbn [bind].
  destruct (addr_of_int_ver end_ version) as [e|x]; reflexivity.
Qed.

Lemma src_setstate_ok :
  (forall value version, omap addr_obj (src_IPAddress_setstate (value, version)) = setstate CAddr [value; version]) /\
  (forall value prefixlen version,
     omap net_obj (src_IPNetwork_setstate (value, prefixlen, version)) = setstate CNet [value; prefixlen; version]) /\
  (forall start end_ version,
     omap range_obj (src_IPRange_setstate (start, end_, version)) = setstate CRange [start; end_; version]).
Proof. split; [exact src_addr_setstate_ok|]. split; [exact src_net_setstate_ok|exact src_range_setstate_ok]. Qed.

(* IPRange(start, end, flags): both ends through the IPAddress constructor (the second with the version of the first), then the
   ordering check *)
Lemma src_range_init_int_ok start end_ flags :
  src_IPRange_init_int start end_ flags =
    (do s <- ctor_int start None;
     do e <- ctor_int end_ (Some (fst s));
     if snd s >? snd e then Raise AddrFormatError else Ok (fst s, snd s, snd e)).
Proof.
  unfold src_IPRange_init_int. rewrite src_init_int_ok.
  destruct (ctor_int start None) as [s|x]; [|reflexivity]. cbn [bind]. cbv zeta. rewrite src_init_int_ok.
  destruct (ctor_int end_ (Some (fst s))) as [e|x]; reflexivity.
Qed.

Lemma src_range_init_str_ok be start end_ flags :
  src_IPRange_init_str be start end_ flags =
    (do s <- init_str be start None flags;
     do e <- init_str be end_ (Some (fst s)) flags;
     if snd s >? snd e then Raise AddrFormatError else Ok (fst s, snd s, snd e)).
Proof.
  unfold src_IPRange_init_str. rewrite src_init_str_ok.
  destruct (init_str be start None flags) as [s|x]; [|reflexivity]. cbn [bind]. cbv zeta. rewrite src_init_str_ok.
  destruct (init_str be end_ (Some (fst s)) flags) as [e|x]; reflexivity.
Qed.

Lemma C12_state_tie_ok :
  (forall ver w v, src_IPAddress_getstate ver w v = getstate (Addr ver v)) /\
  (forall ver w v p, src_IPNetwork_getstate ver w v p = getstate (Net ver v p)) /\
  (forall ver w s e, src_IPRange_getstate ver w s e = getstate (Range ver s e)) /\
  (forall value version, omap addr_obj (src_IPAddress_setstate (value, version)) = setstate CAddr [value; version]) /\
  (forall value prefixlen version,
     omap net_obj (src_IPNetwork_setstate (value, prefixlen, version)) = setstate CNet [value; prefixlen; version]) /\
  (forall start end_ version,
     omap range_obj (src_IPRange_setstate (start, end_, version)) = setstate CRange [start; end_; version]) /\
  (forall start end_ flags,
     src_IPRange_init_int start end_ flags =
       (do s <- ctor_int start None;
        do e <- ctor_int end_ (Some (fst s));
        if snd s >? snd e then Raise AddrFormatError else Ok (fst s, snd s, snd e))) /\
  (forall be start end_ flags,
     src_IPRange_init_str be start end_ flags =
       (do s <- init_str be start None flags;
        do e <- init_str be end_ (Some (fst s)) flags;
        if snd s >? snd e then Raise AddrFormatError else Ok (fst s, snd s, snd e))).
Proof.
  split; [exact src_addr_getstate_ok|]. split; [exact src_net_getstate_ok|]. split; [exact src_range_getstate_ok|].
  split; [exact src_addr_setstate_ok|]. split; [exact src_net_setstate_ok|]. split; [exact src_range_setstate_ok|].
  split; [exact src_range_init_int_ok|exact src_range_init_str_ok].
Qed.
