(* Proofs/Code_C20.v — C20 (SubnetSplitter never hands out overlapping space) proved DIRECTLY about the definitions that
   harness/gen/pysrc.py regenerates on every run from the current text of netaddr/contrib/subnet_splitter.py
   (Gen/pysrc_splitter_gen.v: src_SubnetSplitter_extract_subnet, src_SubnetSplitter_remove_subnet,
   src_SubnetSplitter_available_subnets).  The generated methods take the object state `self._subnets` (a list of IPNetwork
   objects, `net` records) first and return the new state; the vocabulary of Props/C20.v (Inv, inc, cov, chosen, ...) is over
   (value, prefixlen) pairs of one family, so the state of the generated code is read through
       cblks = map cblk_of_net            (forget the version; `Forall (nver = ver)` is stated separately)
   and fed through nets ver = map (net_of_cblk ver), the inverse on lists of one family (cblks_nets / nets_cblks).
   src_sp_step / src_acc_step / src_run: one API call and a history, built from the GENERATED methods with the same `sp_op`
   type and the same convention (a raising call leaves the state as it was) as Splitter.sp_step / C20.acc_step / C20.run.
   Every proof is: rewrite with the source tie (GenOk_Src_C20), apply the model theorem (Proofs/C20.v). *)
From NV Require Import Base.Tac Base.PyVal Base.Bits Base.Canon Model.Ip Model.Partition Model.Merge Model.Subnet Model.Splitter
  Model.SrcPrelude Model.SrcPreludeSplitter Gen.pysrc_gen Gen.pysrc_partition_gen Gen.pysrc_splitter_gen
  Proofs.C09 Proofs.C11 Proofs.NetDen Proofs.C05 Proofs.C20_excl Proofs.C20 Proofs.GenOk_Src_C09 Proofs.GenOk_Src_C20.
From Coq Require Import Sorting.Permutation.
Import ListNotations.
Open Scope Z_scope.

(* ---------------------------------------------------------------- reading the generated state *)
Definition cblks (l : list net) : list cblk := map cblk_of_net l.
Definition all_ver (ver : Z) (l : list net) : Prop := Forall (fun n => nver n = ver) l.

Lemma cblks_nets ver l : cblks (nets ver l) = l.
Proof.
  unfold cblks, nets. rewrite map_map. induction l as [|c l IH]; [reflexivity|]. cbn [map].
  rewrite cblk_of_net_of_cblk, IH. reflexivity.
Qed.

Lemma nets_inj ver a b : nets ver a = nets ver b -> a = b.
Proof. intros E. rewrite <- (cblks_nets ver a), <- (cblks_nets ver b), E. reflexivity. Qed.

Lemma inv_Forall_wf w B st H : Inv w B st H -> Forall (wf_cblk w) st.
Proof. intros I. apply Forall_forall. exact (inv_wf _ _ _ _ I). Qed.

(* ---------------------------------------------------------------- one API call / a history of the GENERATED methods *)
Definition src_sp_step (ver : Z) (st : list net) (o : sp_op) : list net * outcome (list net) :=
  match o with
  | SpExtract prefix count =>
      match src_SubnetSplitter_extract_subnet st prefix count with
      | Ok (st', subnets) => (st', Ok subnets)
      | Raise e => (st, Raise e)
      end
  | SpRemove k =>
      match src_SubnetSplitter_remove_subnet st (net_of_cblk ver k) with
      | Ok st' => (st', Ok [])
      | Raise e => (st, Raise e)
      end
  end.

Definition src_handed (ver : Z) (o : sp_op) (r : outcome (list net)) : list net :=
  match r with Raise _ => [] | Ok s => match o with SpExtract _ _ => s | SpRemove k => [net_of_cblk ver k] end end.

Definition src_acc_step (ver : Z) (s : list net * list net) (o : sp_op) : list net * list net :=
  let res := src_sp_step ver (fst s) o in (fst res, snd s ++ src_handed ver o (snd res)).

(* SubnetSplitter(B) followed by the calls `ops`: (available blocks, blocks handed out or removed so far) *)
Definition src_run (ver : Z) (B : cblk) (ops : list sp_op) : list net * list net :=
  fold_left (src_acc_step ver) ops ([net_of_cblk ver B], []).

(* what a call shows, read as pairs *)
Definition view_res (res : list net * outcome (list net)) : sp_state * outcome (list cblk) :=
  (cblks (fst res), omap cblks (snd res)).

(* ---------------------------------------------------------------- generated step = model step *)
Lemma src_extract_eq ver st q count : valid_ver ver = true -> Forall (wf_cblk (width ver)) st -> NoDup (map snd st) ->
  src_SubnetSplitter_extract_subnet (nets ver st) q count =
    omap (fun r => (nets ver (fst r), nets ver (snd r))) (extract_subnet ver st q count).
Proof. intros Hv W N. exact (proj1 C20_tie_ok ver st q count Hv W N). Qed.

Lemma src_sp_step_eq ver st o : valid_ver ver = true -> Forall (wf_cblk (width ver)) st -> NoDup (map snd st) ->
  src_sp_step ver (nets ver st) o = (nets ver (fst (sp_step ver st o)), omap (nets ver) (snd (sp_step ver st o))).
Proof.
  intros Hv W N. destruct o as [q count|k]; unfold src_sp_step, sp_step.
  - rewrite (src_extract_eq ver st q count Hv W N). destruct (extract_subnet ver st q count) as [[st' subnets]|e]; reflexivity.
  - rewrite src_remove_subnet_ok. destruct (remove_subnet (width ver) st k) as [st'|e]; reflexivity.
Qed.

Lemma src_handed_eq ver o r : src_handed ver o (omap (nets ver) r) = nets ver (handed o r).
Proof. destruct r as [s|e]; [destruct o|]; reflexivity. Qed.

Lemma view_res_step ver st o : valid_ver ver = true -> Forall (wf_cblk (width ver)) st -> NoDup (map snd st) ->
  view_res (src_sp_step ver (nets ver st) o) = sp_step ver st o.
Proof.
  intros Hv W N. rewrite (src_sp_step_eq ver st o Hv W N). unfold view_res. cbn [fst snd]. rewrite cblks_nets.
  destruct (sp_step ver st o) as [s [r|e]]; cbn [fst snd omap]; [rewrite cblks_nets|]; reflexivity.
Qed.

Lemma src_acc_step_eq ver B st H o : valid_ver ver = true -> Inv (width ver) B st H ->
  src_acc_step ver (nets ver st, nets ver H) o =
    (nets ver (fst (acc_step ver (st, H) o)), nets ver (snd (acc_step ver (st, H) o))).
Proof.
  intros Hv I. unfold src_acc_step, acc_step. cbn [fst snd].
  rewrite (src_sp_step_eq ver st o Hv (inv_Forall_wf _ _ _ _ I) (inv_prefixes _ _ _ _ I)). cbn [fst snd].
  rewrite src_handed_eq. unfold nets. rewrite map_app. reflexivity.
Qed.

(* the history run by the generated methods is the model's history, block for block *)
Lemma src_run_from ver (Hv : valid_ver ver = true) B (HB : wf_cblk (width ver) B) ops : forall s,
  Forall (op_ok ver) ops -> Inv (width ver) B (fst s) (snd s) ->
  fold_left (src_acc_step ver) ops (nets ver (fst s), nets ver (snd s)) =
    (nets ver (fst (fold_left (acc_step ver) ops s)), nets ver (snd (fold_left (acc_step ver) ops s))).
Proof.
  induction ops as [|o ops IH]; intros s Ho I; [reflexivity|]. inversion Ho; subst. cbn [fold_left].
  destruct s as [st H]. cbn [fst snd] in *. rewrite (src_acc_step_eq ver B st H o Hv I). apply IH; [assumption|].
  unfold acc_step. cbn [fst snd]. apply (step_spec C05_merge ver Hv B st H o I). assumption.
Qed.

Theorem src_run_eq ver : valid_ver ver = true -> forall B, wf_cblk (width ver) B -> forall ops, Forall (op_ok ver) ops ->
  src_run ver B ops = (nets ver (fst (run ver B ops)), nets ver (snd (run ver B ops))).
Proof.
  intros Hv B HB ops Ho. unfold src_run, run.
  change ([net_of_cblk ver B], @nil net) with (nets ver (fst ([B], @nil cblk)), nets ver (snd ([B], @nil cblk))).
  apply (src_run_from ver Hv B HB ops ([B], []) Ho). cbn [fst snd]. apply Inv_init; [apply width_nonneg; exact Hv|exact HB].
Qed.

(* ---------------------------------------------------------------- the C20 theorems about the generated methods *)
Theorem extract_of_source : forall ver, valid_ver ver = true -> forall B st H q count,
  Inv (width ver) B st H -> q <= width ver ->
  match src_SubnetSplitter_extract_subnet (nets ver st) q count with
  | Ok (S', R) =>
      all_ver ver S' /\ all_ver ver R /\
      Inv (width ver) B (cblks S') (H ++ cblks R) /\
      (forall s, In s (cblks R) -> snd s = q /\ wf_cblk (width ver) s /\ hostfree (width ver) s /\
                 (forall x, inc (width ver) s x -> inc (width ver) B x) /\
                 (forall h x, In h H -> inc (width ver) h x -> inc (width ver) s x -> False)) /\
      pw_disjoint (width ver) (cblks R) /\
      (R = [] -> S' = nets ver st)
  | Raise e => e = ValueError
  end.
Proof.
  intros ver Hv B st H q count I Hq.
  rewrite (src_extract_eq ver st q count Hv (inv_Forall_wf _ _ _ _ I) (inv_prefixes _ _ _ _ I)).
  pose proof (extract_cases C05_merge ver Hv B st H q count I Hq) as C.
  destruct (extract_subnet ver st q count) as [[st' subnets]|e]; cbn [omap fst snd]; [|exact C].
  rewrite !cblks_nets. destruct C as (C1 & C2 & C3 & C4).
  split; [apply nets_ver|]. split; [apply nets_ver|]. split; [exact C1|]. split; [exact C2|]. split; [exact C3|].
  intros E. destruct subnets; [|discriminate E]. rewrite (C4 eq_refl). reflexivity.
Qed.

Theorem extract_none_of_source : forall ver, valid_ver ver = true -> forall st q count,
  (forall c, In c st -> wf_cblk (width ver) c) -> NoDup (map snd st) -> (forall c, In c st -> q < snd c) ->
  src_SubnetSplitter_extract_subnet (nets ver st) q count = Ok (nets ver st, []).
Proof.
  intros ver Hv st q count W N A. rewrite (src_extract_eq ver st q count Hv (proj2 (Forall_forall _ _) W) N).
  rewrite (extract_none ver st q count W A). reflexivity.
Qed.

Theorem extract_chosen_of_source : forall ver, valid_ver ver = true -> forall B st H q count c0,
  Inv (width ver) B st H -> q <= width ver -> chosen st q c0 ->
  let cnt := req_count count q (snd c0) in
  1 <= cnt <= 2 ^ (q - snd c0) ->
  exists st', src_SubnetSplitter_extract_subnet (nets ver st) q count =
                Ok (nets ver st', nets ver (subnets_of (width ver) c0 q cnt)) /\
    Inv (width ver) B st' (H ++ subnets_of (width ver) c0 q cnt) /\
    subnets_of (width ver) c0 q cnt <> [] /\
    (forall s, In s (subnets_of (width ver) c0 q cnt) ->
       snd s = q /\ wf_cblk (width ver) s /\ hostfree (width ver) s /\
       (forall x, inc (width ver) s x -> inc (width ver) c0 x)) /\
    pw_disjoint (width ver) (subnets_of (width ver) c0 q cnt) /\
    (forall x, cov (width ver) st' x <-> cov (width ver) st x /\ ~ cov (width ver) (subnets_of (width ver) c0 q cnt) x).
Proof.
  intros ver Hv B st H q count c0 I Hq Ch cnt Hc.
  destruct (extract_ok C05_merge ver Hv B st H q count c0 I Hq Ch Hc) as (st' & E & R).
  exists st'. split; [|exact R].
  rewrite (src_extract_eq ver st q count Hv (inv_Forall_wf _ _ _ _ I) (inv_prefixes _ _ _ _ I)), E. reflexivity.
Qed.

Theorem extract_bad_count_of_source : forall ver, valid_ver ver = true -> forall B st H q count c0,
  Inv (width ver) B st H -> q <= width ver -> chosen st q c0 ->
  ~ (1 <= req_count count q (snd c0) <= 2 ^ (q - snd c0)) ->
  src_SubnetSplitter_extract_subnet (nets ver st) q count = Raise ValueError.
Proof.
  intros ver Hv B st H q count c0 I Hq Ch Hc.
  rewrite (src_extract_eq ver st q count Hv (inv_Forall_wf _ _ _ _ I) (inv_prefixes _ _ _ _ I)).
  rewrite (extract_bad_count ver Hv B st H q count c0 I Hq Ch Hc). reflexivity.
Qed.

Theorem remove_of_source : forall ver B st H k c, Inv (width ver) B st H -> wf_cblk (width ver) k -> In c st ->
  cidr_of (width ver) k = cidr_of (width ver) c ->
  exists st', src_SubnetSplitter_remove_subnet (nets ver st) (net_of_cblk ver k) = Ok (nets ver st') /\
              Inv (width ver) B st' (H ++ [k]) /\ (forall x, In x st' <-> In x st /\ x <> c).
Proof.
  intros ver B st H k c I Wk Hc E. destruct (remove_ok ver B st H k c I Wk Hc E) as (st' & R & R2).
  exists st'. split; [|exact R2]. rewrite src_remove_subnet_ok, R. reflexivity.
Qed.

Theorem remove_absent_of_source : forall ver st k, (forall c, In c st -> wf_cblk (width ver) c) -> wf_cblk (width ver) k ->
  (forall c, In c st -> cidr_of (width ver) k <> cidr_of (width ver) c) ->
  src_SubnetSplitter_remove_subnet (nets ver st) (net_of_cblk ver k) = Raise KeyError.
Proof.
  intros ver st k W Wk A. rewrite src_remove_subnet_ok, (remove_absent ver st k W Wk A). reflexivity.
Qed.

Theorem step_of_source : forall ver, valid_ver ver = true -> forall B st H o,
  Inv (width ver) B st H -> op_ok ver o -> step_ok ver B st H o (view_res (src_sp_step ver (nets ver st) o)).
Proof.
  intros ver Hv B st H o I Ho. rewrite (view_res_step ver st o Hv (inv_Forall_wf _ _ _ _ I) (inv_prefixes _ _ _ _ I)).
  exact (step_spec C05_merge ver Hv B st H o I Ho).
Qed.

Theorem reachable_of_source : forall ver, valid_ver ver = true -> forall B, wf_cblk (width ver) B ->
  forall ops, Forall (op_ok ver) ops ->
  all_ver ver (fst (src_run ver B ops)) /\ all_ver ver (snd (src_run ver B ops)) /\
  Inv (width ver) B (cblks (fst (src_run ver B ops))) (cblks (snd (src_run ver B ops))).
Proof.
  intros ver Hv B HB ops Ho. rewrite (src_run_eq ver Hv B HB ops Ho). cbn [fst snd]. rewrite !cblks_nets.
  split; [apply nets_ver|]. split; [apply nets_ver|]. exact (reachable C05_merge ver Hv B HB ops Ho).
Qed.

Theorem reachable_step_of_source : forall ver, valid_ver ver = true -> forall B, wf_cblk (width ver) B ->
  forall ops o, Forall (op_ok ver) ops -> op_ok ver o ->
  step_ok ver B (cblks (fst (src_run ver B ops))) (cblks (snd (src_run ver B ops))) o
          (view_res (src_sp_step ver (fst (src_run ver B ops)) o)).
Proof.
  intros ver Hv B HB ops o Ho H1. rewrite (src_run_eq ver Hv B HB ops Ho). cbn [fst snd]. rewrite !cblks_nets.
  pose proof (reachable C05_merge ver Hv B HB ops Ho) as I.
  rewrite (view_res_step ver _ o Hv (inv_Forall_wf _ _ _ _ I) (inv_prefixes _ _ _ _ I)).
  exact (reachable_step C05_merge ver Hv B HB ops o Ho H1).
Qed.

Lemma run_snoc_of_source ver B ops o : src_run ver B (ops ++ [o]) = src_acc_step ver (src_run ver B ops) o.
Proof. unfold src_run. rewrite fold_left_app. reflexivity. Qed.

Theorem no_fuel_of_source : forall ver, valid_ver ver = true -> forall B st H o e,
  Inv (width ver) B st H -> op_ok ver o -> snd (src_sp_step ver (nets ver st) o) = Raise e ->
  match o with SpExtract _ _ => e = ValueError | SpRemove _ => e = KeyError end /\
  fst (src_sp_step ver (nets ver st) o) = nets ver st.
Proof.
  intros ver Hv B st H o e I Ho E.
  rewrite (src_sp_step_eq ver st o Hv (inv_Forall_wf _ _ _ _ I) (inv_prefixes _ _ _ _ I)) in *. cbn [fst snd] in *.
  destruct (snd (sp_step ver st o)) as [r|e'] eqn:E'; [discriminate E|]. cbn [omap] in E. injection E as <-.
  destruct (step_exn C05_merge ver Hv B st H o e' I Ho E') as (X & Y). split; [exact X|]. rewrite Y. reflexivity.
Qed.

Theorem available_unique_of_source : forall ver st st2, NoDup (map snd st) -> Permutation st st2 ->
  src_SubnetSplitter_available_subnets (nets ver st) = src_SubnetSplitter_available_subnets (nets ver st2).
Proof.
  intros ver st st2 N P.
  assert (N2: NoDup (map snd st2)) by (eapply Permutation_NoDup; [apply Permutation_map, P|exact N]).
  rewrite (src_available_subnets_ok ver st N), (src_available_subnets_ok ver st2 N2).
  rewrite (available_subnets_unique st st2 N P). reflexivity.
Qed.

Theorem order_irrelevant_of_source : forall ver B st st2 H q count, valid_ver ver = true ->
  Inv (width ver) B st H -> Permutation st st2 -> q <= width ver ->
  match src_SubnetSplitter_extract_subnet (nets ver st) q count, src_SubnetSplitter_extract_subnet (nets ver st2) q count with
  | Ok (S', R), Ok (S2', R2) => R = R2 /\ forall x, cov (width ver) (cblks S') x <-> cov (width ver) (cblks S2') x
  | Raise e, Raise e2 => e = e2
  | _, _ => False
  end.
Proof.
  intros ver B st st2 H q count Hv I P Hq. pose proof (Inv_perm _ _ _ _ _ P I) as I2.
  rewrite (src_extract_eq ver st q count Hv (inv_Forall_wf _ _ _ _ I) (inv_prefixes _ _ _ _ I)).
  rewrite (src_extract_eq ver st2 q count Hv (inv_Forall_wf _ _ _ _ I2) (inv_prefixes _ _ _ _ I2)).
  pose proof (extract_order_irrelevant C05_merge ver B st st2 H q count Hv I P Hq) as C.
  destruct (extract_subnet ver st q count) as [[a b]|e]; destruct (extract_subnet ver st2 q count) as [[a2 b2]|e2];
    cbn [omap fst snd]; try exact C.
  rewrite !cblks_nets. destruct C as (-> & C). split; [reflexivity|exact C].
Qed.

(* ---------------------------------------------------------------- the vocabulary added here, spelled out *)
Lemma code_vocabulary : forall ver st o (l : list net) (c : list cblk) (s : list net * list net) B ops
                               (res : list net * outcome (list net)),
  cblks l = map (fun n => (nval n, nplen n)) l /\
  (all_ver ver l <-> forall n, In n l -> nver n = ver) /\
  nets ver c = map (fun b => {| nver := ver; nval := fst b; nplen := snd b |}) c /\
  cblks (nets ver c) = c /\
  src_sp_step ver st o =
    match o with
    | SpExtract q count => match src_SubnetSplitter_extract_subnet st q count with
                           | Ok (st', subnets) => (st', Ok subnets) | Raise e => (st, Raise e) end
    | SpRemove k => match src_SubnetSplitter_remove_subnet st {| nver := ver; nval := fst k; nplen := snd k |} with
                    | Ok st' => (st', Ok []) | Raise e => (st, Raise e) end
    end /\
  src_acc_step ver s o =
    (fst (src_sp_step ver (fst s) o),
     snd s ++ match snd (src_sp_step ver (fst s) o) with
              | Raise _ => []
              | Ok r => match o with SpExtract _ _ => r | SpRemove k => [{| nver := ver; nval := fst k; nplen := snd k |}] end
              end) /\
  src_run ver B ops = fold_left (src_acc_step ver) ops ([{| nver := ver; nval := fst B; nplen := snd B |}], []) /\
  view_res res = (cblks (fst res), match snd res with Ok r => Ok (cblks r) | Raise e => Raise e end).
Proof.
  intros. split; [reflexivity|]. split; [apply Forall_forall|]. split; [reflexivity|]. split; [apply cblks_nets|].
  split; [reflexivity|]. split; [reflexivity|]. split; reflexivity.
Qed.
