(* Proofs/GenOk_Src_C06_add.v -- SRCA: source tie for C06, add / remove of an IPNetwork object.  The definitions regenerated from
   the text of netaddr/ip/sets.py (Gen/pysrc_sets_add_gen.v: IPSet._compact_single_network with its four loops -- the walk over
   added_network.supernet(), the scan of the stored keys with `continue` and the early `return`, the deletions, the
   sibling-merge `while added_network.prefixlen != 0` that changes added_network in place; IPSet.add and IPSet.remove for an
   IPNetwork argument) equal the hand-written model of Model/Sets.v (compact_single with supernets / scan_subnets / ddel_all /
   merge_up; set_add (ENet n); set_remove (ENet n) = remove_one).
   HYPOTHESES.  The added network well formed (wf_net): `added_network.prefixlen -= 1` goes through the range-checking
   setter, the shifts by `shift_width` = width - prefixlen carry CPython's negative-shift-count guard, supernet() and .cidr
   go through the range-checking constructor; the model has none of these checks.  For remove additionally SetInv of the
   set: the translated cidr_exclude is tied to the model for a well-formed target (the stored key that contains addr),
   and the keys stored after the inner add() are well formed by compact_single_spec (Proofs/C06_add.v).
   Callees that are not translated, as hand models: IPNetwork.previous() / next() (Sets.net_previous / net_next). *)
From NV Require Import Base.Tac Base.PyVal Base.Bits Model.Ip Model.Partition Model.Span Model.Merge Model.Subnet Model.Sets
  Model.SrcPrelude Model.SrcPreludeSets Gen.pysrc_gen Gen.pysrc_partition_gen Gen.pysrc_sets_gen Gen.pysrc_sets_add_gen
  Proofs.C02 Proofs.NetDen Proofs.GenOk_Src_C02 Proofs.GenOk_Src_C09 Proofs.GenOk_Src_C11 Proofs.GenOk_Src_C07 Proofs.GenOk_Src_C07_ops.
From NV Require Proofs.Coherence_Net Proofs.C06_bulk Proofs.C06_add.
Import ListNotations.
Open Scope Z_scope.

(* ---------------------------------------------------------------- added_network.supernet() *)
Lemma supernets_from_ver n : forall fuel q, Forall (fun s => nver s = nver n) (supernets_from fuel n q).
Proof.
  induction fuel as [|f IH]; intros q; [constructor|]. cbn [supernets_from]. destruct (q =? nplen n); [constructor|].
  constructor; [reflexivity|apply IH].
Qed.

Lemma wnet_cblk ver l : Forall (fun s => nver s = ver) l -> map (wnet_net ver) (map cblk_of_net l) = l.
Proof.
  induction 1 as [|s r Hs _ IH]; [reflexivity|]. cbn [map]. rewrite IH. f_equal. destruct s; cbn in *. subst. reflexivity.
Qed.

Lemma src_supernets_ok a : wf_net a ->
  src_IPNetwork_supernet (nver a) (width (nver a)) (nval a) (nplen a) 0 = Ok (supernets a).
Proof.
  intros W. pose proof W as (Hv & Hval & Hp).
  rewrite (src_supernet_ok (nver a) (nval a) (nplen a) 0 Hv) by lia.
  change (nval a, nplen a) with (cblk_of_net a). rewrite (Coherence_Net.coh_supernets a W). cbn [omap].
  rewrite wnet_cblk; [reflexivity|apply supernets_from_ver].
Qed.

(* ---------------------------------------------------------------- the four loops of _compact_single_network *)
Lemma src_cs_loop1_ok a : forall xs d,
  src_IPSet_compact_single_network_loop1 a xs d = if existsb (fun s => dmem s d) xs then omap inl (ddel d a) else Ok (inr d).
Proof.
  induction xs as [|s r IH]; intros d; [reflexivity|]. cbn [src_IPSet_compact_single_network_loop1 existsb]. unfold py_dict_mem, py_dict_del.
  destruct (dmem s d); [cbn [orb]; destruct (ddel d a); reflexivity|]. apply IH.
Qed.

Lemma src_cs_loop2_ok a : forall xs tr d,
  src_IPSet_compact_single_network_loop2 (nver a) a (nf a) (nl a) xs tr d =
    if fst (scan_subnets xs a tr) then omap inl (ddel d a) else Ok (inr (snd (scan_subnets xs a tr), d)).
Proof.
  induction xs as [|c r IH]; intros tr d; [reflexivity|]. cbn [src_IPSet_compact_single_network_loop2 scan_subnets].
  change (net_key_eqb c a) with (key_eqb c a). src_names. cbv zeta.
  destruct (negb (nver c =? nver a) || key_eqb c a); [apply IH|].
  destruct ((nf c >=? nf a) && (nl c <=? nl a)); [apply IH|].
  destruct ((nf c <=? nf a) && (nl c >=? nl a)); [|apply IH].
  cbn [fst]. unfold py_dict_del. destruct (ddel d a); reflexivity.
Qed.

Lemma src_cs_loop3_ok : forall ks d, src_IPSet_compact_single_network_loop3 ks d = ddel_all d ks.
Proof.
  induction ks as [|k r IH]; intros d; [reflexivity|]. cbn [src_IPSet_compact_single_network_loop3 ddel_all]. unfold py_dict_del.
  destruct (ddel d k); [apply IH|reflexivity].
Qed.

Definition fin_lr (h : list net + list net) : outcome (list net) := match h with inl x => Ok x | inr x => Ok x end.

Lemma src_merge_up_ok : forall fuel a d sw, 0 <= sw -> 0 <= nplen a <= width (nver a) ->
  bind (src_IPSet_compact_single_network_loop4 fuel a d sw) fin_lr = merge_up fuel d a sw.
Proof.
  induction fuel as [|f IH]; intros a d sw Hs Hp; [reflexivity|]. cbn [src_IPSet_compact_single_network_loop4 merge_up].
  unfold src_IPNetwork_prefixlen.
  destruct (nplen a =? 0) eqn:E0; [reflexivity|]. cbn [negb]. replace (sw <? 0) with false by lia. cbv zeta.
  unfold py_net_previous, py_net_next, py_dict_mem, py_dict_del, py_dict_set.
  destruct (Z.land (Z.shiftr (nval a) sw) 1 =? 0); cbn [negb].
  - destruct (net_next a) as [c|]; [|reflexivity]. cbn [bind]. destruct (dmem c d); [|reflexivity]. cbn [negb].
    destruct (ddel d c) as [d1|]; [|reflexivity]. cbn [bind]. destruct (ddel d1 a) as [d2|]; [|reflexivity]. cbn [bind].
    unfold src_IPNetwork_set_prefixlen. replace (negb ((0 <=? nplen a - 1) && (nplen a - 1 <=? width (nver a)))) with false by lia.
    cbn [bind]. cbv zeta. replace (sw + 1 <? 0) with false by lia. cbn [nver nval nplen].
    apply IH; cbn [nver nplen]; lia.
  - destruct (net_previous a) as [c|]; [|reflexivity]. cbn [bind]. destruct (dmem c d); [|reflexivity]. cbn [negb].
    destruct (ddel d c) as [d1|]; [|reflexivity]. cbn [bind]. destruct (ddel d1 a) as [d2|]; [|reflexivity]. cbn [bind].
    unfold src_IPNetwork_set_prefixlen. replace (negb ((0 <=? nplen a - 1) && (nplen a - 1 <=? width (nver a)))) with false by lia.
    cbn [bind]. cbv zeta. replace (sw + 1 <? 0) with false by lia. cbn [nver nval nplen].
    apply IH; cbn [nver nplen]; lia.
Qed.

(* ---------------------------------------------------------------- _compact_single_network *)
Lemma src_compact_single_ok d a : wf_net a -> src_IPSet_compact_single_network d a = compact_single d a.
Proof.
  intros W. pose proof W as (Hv & Hval & Hp).
  unfold src_IPSet_compact_single_network, compact_single. cbv zeta. src_names.
  change (src_IPNetwork_version (nver a) (width (nver a)) (nval a) (nplen a)) with (nver a). unfold src_IPNetwork_prefixlen.
  assert (M : forall d2, (do h <- src_IPSet_compact_single_network_loop4 (Z.to_nat (nplen a) + 1) a d2 (width (nver a) - nplen a);
                          match h with inl x => Ok x | inr x => Ok x end) =
                         merge_up (Z.to_nat (nplen a) + 1) d2 a (width (nver a) - nplen a)).
  { intros d2. rewrite <- (src_merge_up_ok (Z.to_nat (nplen a) + 1) a d2 (width (nver a) - nplen a)) by lia. reflexivity. }
  destruct (nplen a =? width (nver a)).
  - rewrite (src_supernets_ok a W). cbn [bind]. rewrite src_cs_loop1_ok.
    destruct (existsb (fun s => dmem s d) (supernets a)).
    + destruct (ddel d a); reflexivity.
    + cbn [bind]. apply M.
  - rewrite src_cs_loop2_ok. destruct (scan_subnets d a []) as [found tr]. cbn [fst snd].
    destruct found; [destruct (ddel d a); reflexivity|]. cbn [bind]. rewrite src_cs_loop3_ok.
    destruct (ddel_all d tr) as [d'|]; [|reflexivity]. cbn [bind]. apply M.
Qed.

(* ---------------------------------------------------------------- add(<IPNetwork>) *)
Lemma src_cidr_ncidr n : wf_net n -> src_IPNetwork_cidr (nver n) (width (nver n)) (nval n) (nplen n) = Ok (ncidr n).
Proof. intros (Hv & Hval & Hp). exact (src_cidr_wf (nver n) (nval n) (nplen n) Hv Hp Hval). Qed.

Lemma wf_ncidr n : wf_net n -> wf_net (ncidr n).
Proof. intros W. destruct (C06_bulk.ncidr_wfh n W) as ((W' & _) & _). exact W'. Qed.

Lemma src_add_net_ok d n flags : wf_net n -> src_IPSet_add_net d n flags = set_add d (ENet n).
Proof.
  intros W. unfold src_IPSet_add_net, set_add. rewrite (src_cidr_ncidr n W). cbn [bind]. cbv zeta. unfold py_dict_set.
  rewrite (src_compact_single_ok _ _ (wf_ncidr n W)). destruct (compact_single (dset d (ncidr n)) (ncidr n)); reflexivity.
Qed.

(* ---------------------------------------------------------------- remove(<IPNetwork>) *)
Lemma src_remove_loop3_ok : forall xs d, src_IPSet_remove_net_loop3 xs d = fold_left dset xs d.
Proof. induction xs as [|c r IH]; intros d; [reflexivity|]. cbn [src_IPSet_remove_net_loop3 fold_left]. apply IH. Qed.

Lemma net_in_net_ver a c : net_in_net a c = true -> nver c = nver a.
Proof. unfold net_in_net. destruct (nver c =? nver a) eqn:E; [intros _; lia|discriminate]. Qed.

Lemma src_remove_loop2_ok n : valid_ver (nver n) = true -> forall xs d, Forall wf_net xs ->
  src_IPSet_remove_net_loop2 n xs d =
    match find_container xs n with
    | None => Ok (inr d)
    | Some c => omap inl (do remainder <- cidr_exclude (width (nver c)) (cblk_of_net c) (cblk_of_net n);
                          do d2 <- ddel d c; Ok (fold_left dset (map (net_of_cblk (nver c)) remainder) d2))
    end.
Proof.
  intros Hv. induction xs as [|c r IH]; intros d F; [reflexivity|]. inversion F as [|? ? (Hcv & Hcval & Hcp) Fr]; subst.
  cbn [src_IPSet_remove_net_loop2 find_container]. rewrite src_net_in_net. cbn [bind].
  destruct (net_in_net n c) eqn:E; [|exact (IH d Fr)].
  pose proof (net_in_net_ver n c E) as Ev.
  rewrite (src_cidr_exclude_ok c n Hv Ev Hcp Hcval). rewrite Ev.
  destruct (cidr_exclude (width (nver n)) (cblk_of_net c) (cblk_of_net n)) as [rem|]; [|reflexivity]. cbn [omap bind]. cbv zeta.
  unfold py_dict_del. destruct (ddel d c) as [d2|]; [|reflexivity]. cbn [bind omap]. rewrite src_remove_loop3_ok. reflexivity.
Qed.

Lemma src_remove_net_ok d n flags : SetInv d -> wf_net n -> src_IPSet_remove_net d n flags = set_remove d (ENet n).
Proof.
  intros I W. unfold src_IPSet_remove_net, set_remove, remove_one. rewrite (src_add_net_ok d n 0 W). unfold set_add. cbv zeta.
  destruct (C06_bulk.ncidr_wfh n W) as (Wh & _).
  destruct (C06_add.compact_single_spec d (ncidr n) I Wh) as (d1 & E & I1 & _). rewrite E. cbn [bind].
  assert (F : Forall wf_net d1).
  { eapply Forall_impl; [|exact (proj1 I1)]. intros x Hx. exact (proj1 Hx). }
  rewrite (src_remove_loop2_ok n (proj1 W) d1 d1 F). destruct (find_container d1 n) as [c|]; [|reflexivity].
  destruct (cidr_exclude (width (nver c)) (cblk_of_net c) (cblk_of_net n)) as [rem|]; [|reflexivity]. cbn [bind omap].
  destruct (ddel d1 c); reflexivity.
Qed.

(* everything the C06 source tie (add / remove) states (Props/C06_src_add.v) *)
Lemma C06_add_tie_ok :
  (forall d a, wf_net a -> src_IPSet_compact_single_network d a = compact_single d a) /\
  (forall d n flags, wf_net n -> src_IPSet_add_net d n flags = set_add d (ENet n)) /\
  (forall d n flags, SetInv d -> wf_net n -> src_IPSet_remove_net d n flags = set_remove d (ENet n)) /\
  (forall fuel a d sw, 0 <= sw -> 0 <= nplen a <= width (nver a) ->
     bind (src_IPSet_compact_single_network_loop4 fuel a d sw) fin_lr = merge_up fuel d a sw).
Proof.
  split; [exact src_compact_single_ok|]. split; [exact src_add_net_ok|]. split; [exact src_remove_net_ok|exact src_merge_up_ok].
Qed.
