(* Proofs/GenOk_Src_C01_ctor.v — source tie for C01, constructor part: the definition regenerated from the text of
   IPAddress.__init__ (netaddr/ip/__init__.py), specialised to a `str` argument, equals the hand-written model
   AddrText.init_str, for both socket back-ends and all arguments.  The per-family parsers module.str_to_int are NOT translated
   here: in the generated text they are the symbol py_str_to_int = AddrText.str_to_int (Model/SrcPreludeCtor.v). *)
From Coq Require Import String Ascii.
From NV Require Import Base.Tac Base.PyVal Base.PyStr Model.Ip Model.AddrText Model.SrcPrelude Model.SrcPreludeCtor
  Gen.pysrc_gen Gen.pysrc_ctor_gen Proofs.GenOk_Src_Const.
Open Scope Z_scope.

(* the strategy parsers wrap every failure into AddrFormatError (`except Exception`) *)
Lemma str_to_int_raises be m addr flags e : str_to_int be m addr flags = Raise e -> e = AddrFormatError.
Proof.
  unfold str_to_int, v4_str_to_int, v6_str_to_int. destruct (m =? 4).
  - destruct (v4_parse be addr flags); intros H; inversion H; reflexivity.
  - destruct (do p <- inet_pton6 be addr; packed_to_int p); intros H; inversion H; reflexivity.
Qed.

Lemma src_init_str_ok be addr version flags : src_IPAddress_init_str be addr version flags = init_str be addr version flags.
Proof.
  unfold src_IPAddress_init_str, init_str, py_str_to_int.
  change src_ipv4_version with 4. change src_ipv6_version with 6. destruct version as [v|]; cbn [bind].
  - destruct (v =? 4); cbn [bind].
    + cbv zeta. destruct (contains_char "/" addr); [reflexivity|].
      destruct (str_to_int be 4 addr flags) as [x|e] eqn:E; [reflexivity|].
      apply str_to_int_raises in E. subst e. reflexivity.
    + destruct (v =? 6); cbn [bind]; [|reflexivity].
      cbv zeta. destruct (contains_char "/" addr); [reflexivity|].
      destruct (str_to_int be 6 addr flags) as [x|e] eqn:E; [reflexivity|].
      apply str_to_int_raises in E. subst e. reflexivity.
  - destruct (contains_char "/" addr); [reflexivity|]. cbv zeta.
    destruct (str_to_int be 4 addr flags) as [x|e] eqn:E; [reflexivity|].
    apply str_to_int_raises in E. subst e. cbn [py_catch_all].
    destruct (str_to_int be 6 addr flags) as [y|e] eqn:E6; [reflexivity|].
    apply str_to_int_raises in E6. subst e. reflexivity.
Qed.

Lemma src_addr_str_ok be ver w v : src_IPAddress_str be ver w v = addr_str be ver v.
Proof. reflexivity. Qed.

Lemma C01_ctor_tie_ok :
  (forall be addr version flags, src_IPAddress_init_str be addr version flags = init_str be addr version flags) /\
  (forall be ver w v, src_IPAddress_str be ver w v = addr_str be ver v).
Proof. split; [exact src_init_str_ok|exact src_addr_str_ok]. Qed.
