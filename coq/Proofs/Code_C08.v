(* Proofs/Code_C08.v — lemmas for Props/C08_code.v: the C08 theorems stated about the definitions regenerated from
   netaddr/strategy/eui48.py, eui64.py and netaddr/eui/__init__.py (Gen/pysrc_eui48_gen.v, pysrc_eui64_gen.v, pysrc_eui_gen.v,
   pysrc_eui48b_gen.v, pysrc_eui64b_gen.v, pysrc_euib_gen.v).  Every proof is: rewrite with the source tie
   (Proofs/GenOk_Src_C08*.v), apply the model theorem (Proofs/C08_*.v). *)
From Coq Require Import String Ascii.
From NV Require Import Base.Tac Base.PyVal Base.PyStr Base.PyStrFacts Model.Ip Model.Eui Gen.eui_gen
  Proofs.GenOk_C08 Proofs.C08_words Proofs.C08_arith Proofs.C08_text Proofs.C08_spell Proofs.C08_round
  Model.SrcPrelude Model.SrcPreludeStr Model.SrcPreludeEui Model.SrcPreludeEui2
  Gen.pysrc_strategy_gen Gen.pysrc_eui48_gen Gen.pysrc_eui64_gen Gen.pysrc_eui_gen
  Gen.pysrc_eui48b_gen Gen.pysrc_eui64b_gen Gen.pysrc_euib_gen
  Proofs.GenOk_Src_C08 Proofs.GenOk_Src_C08_b Proofs.GenOk_Src_C08_c Proofs.GenOk_Src_C08_d Proofs.GenOk_Src_C08_e
  Proofs.GenOk_Src_C08_f.
Import ListNotations.
Open Scope Z_scope.

Ltac split_conj := repeat match goal with |- _ /\ _ => split end.

(* The text functions of the strategy module an EUI of version `ver` uses (self._module: eui48 for 48, eui64 otherwise), as
   regenerated.  eui48.valid_str answers a bool, eui64.valid_str may raise in the generated reading (it never does). *)
Definition src_int_to_str (ver v : Z) (d : dialect) : outcome string :=
  if ver =? 64 then src_eui64_int_to_str v (Some d) else src_eui48_int_to_str v (Some d).
Definition src_str_to_int (ver : Z) (s : string) : outcome Z :=
  if ver =? 64 then src_eui64_str_to_int s else src_eui48_str_to_int s.
Definition src_valid_str (ver : Z) (s : string) : outcome bool :=
  if ver =? 64 then src_eui64_valid_str s else Ok (src_eui48_valid_str s).

Lemma src_int_to_str_ok ver v d : wf_dial d -> src_int_to_str ver v d = int_to_str v d.
Proof.
  intros H. unfold src_int_to_str. destruct (ver =? 64); [now apply src_eui64_int_to_str_some | now apply src_eui48_int_to_str_some].
Qed.
Lemma src_str_to_int_ok ver s : src_str_to_int ver s = str_to_int ver (BStr s).
Proof. unfold src_str_to_int, str_to_int. destruct (ver =? 64); [apply src_eui64_str_to_int_ok | apply src_eui48_str_to_int_ok]. Qed.
Lemma src_valid_str_ok ver s : wf_ver ver -> src_valid_str ver s = Ok (valid_str ver s).
Proof.
  intros [-> | ->]; unfold src_valid_str; cbn [Z.eqb Pos.eqb].
  - now rewrite src_eui48_valid_str_ok.
  - apply src_eui64_valid_str_ok.
Qed.

Lemma builtin_wf name ver d : In (name, (ver, d)) builtin_dialects -> wf_ver ver /\ wf_dial d.
Proof.
  unfold builtin_dialects. cbn [In]. intros H.
  repeat (destruct H as [H|H]; [injection H as _ <- <-; split; [(left; reflexivity) || (right; reflexivity) | split; cbn; lia]|]).
  contradiction.
Qed.

(* ---- text round trip and spellings ---- *)
Lemma roundtrip_code name ver d v : In (name, (ver, d)) builtin_dialects -> 0 <= v < 2 ^ ewidth ver ->
  exists s, src_int_to_str ver v d = Ok s /\ src_EUI_str ver v d = Ok s /\ src_EUI_format ver v (DRec d) = Ok s /\
    src_str_to_int ver s = Ok v /\ src_valid_str ver s = Ok true /\
    src_EUI_init_str s None DNone = Ok {| ever := ver; evalue := v; edialect := default_dialect ver |} /\
    src_EUI_init_str s (Some ver) DNone = Ok {| ever := ver; evalue := v; edialect := default_dialect ver |}.
Proof.
  intros HI Hv. destruct (builtin_wf _ _ _ HI) as [Hver Hd].
  destruct (roundtrip_builtin name ver d v HI Hv) as (s & E1 & E2 & E3 & E4 & E5). exists s.
  rewrite src_int_to_str_ok, src_str_to_int_ok, src_valid_str_ok, !src_eui_init_str_ok, E3 by assumption.
  destruct C08_tie_c_ok as (_ & _ & _ & T). destruct (T ver v d (DRec d)) as (_ & _ & _ & _ & TS & TF).
  rewrite TS, TF by (try assumption; intros r [= <-]; assumption).
  unfold eui_str, eui_format. cbn [evalue edialect ever].
  assert (V : validate_dialect ver (DRec d) = Ok d) by reflexivity. rewrite V. cbn [bind].
  split_conj; try assumption; reflexivity.
Qed.

Lemma spellings_grouped_code ver n lo hi sep k toks :
  (ver = 48 /\ In (n, lo, hi, sep, k) groups48) \/ (ver = 64 /\ In (n, lo, hi, sep, k) groups64) ->
  length toks = n -> Forall (tok_ok lo hi) toks ->
  let s := spell sep toks in let v := from_digits (16 ^ Z.of_nat k) (map hexval toks) in
  src_str_to_int ver s = Ok v /\ src_valid_str ver s = Ok true /\
  src_EUI_init_str s None DNone = Ok {| ever := ver; evalue := v; edialect := default_dialect ver |} /\
  src_EUI_init_str s (Some ver) DNone = Ok {| ever := ver; evalue := v; edialect := default_dialect ver |}.
Proof.
  intros HG HL HT. assert (Hver : wf_ver ver) by (destruct HG as [[-> _]|[-> _]]; [left|right]; reflexivity).
  destruct (spellings_grouped ver n lo hi sep k toks HG HL HT) as (E1 & E2 & E3 & E4). cbv zeta in *.
  rewrite src_str_to_int_ok, src_valid_str_ok, !src_eui_init_str_ok, E2 by assumption. split_conj; try assumption; reflexivity.
Qed.

Lemma spellings_bare_code t : hexs t ->
  ((length t = 12 \/ length t = 11)%nat ->
     let s := str_of t in
     src_eui48_str_to_int s = Ok (hexval t) /\ src_eui48_valid_str s = true /\
     src_EUI_init_str s None DNone = Ok {| ever := 48; evalue := hexval t; edialect := default_dialect 48 |} /\
     src_EUI_init_str s (Some 48) DNone = Ok {| ever := 48; evalue := hexval t; edialect := default_dialect 48 |}) /\
  (length t = 16%nat ->
     let s := str_of t in
     src_eui64_str_to_int s = Ok (hexval t) /\ src_eui64_valid_str s = Ok true /\
     src_EUI_init_str s None DNone = Ok {| ever := 64; evalue := hexval t; edialect := default_dialect 64 |} /\
     src_EUI_init_str s (Some 64) DNone = Ok {| ever := 64; evalue := hexval t; edialect := default_dialect 64 |}).
Proof.
  intros Ht. destruct (spellings_bare t Ht) as [B48 B64]. split.
  - intros HL. destruct (B48 HL) as (E1 & E2 & E3 & E4). cbv zeta in *.
    rewrite src_eui48_str_to_int_ok, src_eui48_valid_str_ok, !src_eui_init_str_ok. split_conj; assumption.
  - intros HL. destruct (B64 HL) as (E1 & E2 & E3 & E4). cbv zeta in *.
    rewrite src_eui64_str_to_int_ok, src_eui64_valid_str_ok, !src_eui_init_str_ok, E2. split_conj; try assumption; reflexivity.
Qed.

Lemma init_int_code v d :
  src_EUI_init_int v None (DRec d) =
    if (0 <=? v) && (v <? 2 ^ 48) then Ok {| ever := 48; evalue := v; edialect := d |}
    else if (2 ^ 48 <=? v) && (v <? 2 ^ 64) then Ok {| ever := 64; evalue := v; edialect := d |}
    else Raise TypeError.
Proof. rewrite src_eui_init_int_ok. apply init_int_implicit. Qed.

(* ---- comparison and hashing: receiver state (ver, v), operand an EUI object b; `obj ver v d` = the receiver as an object ---- *)
Definition obj (ver v : Z) (d : dialect) : eui := {| ever := ver; evalue := v; edialect := d |}.

Lemma cmp_tie ver v d b :
  src_EUI_hash ver v = eui_hash_key (obj ver v d) /\
  src_EUI_eq ver v b = eui_eq (obj ver v d) b /\ src_EUI_ne ver v b = eui_ne (obj ver v d) b /\
  src_EUI_lt ver v b = eui_lt (obj ver v d) b /\ src_EUI_le ver v b = eui_le (obj ver v d) b /\
  src_EUI_gt ver v b = eui_gt (obj ver v d) b /\ src_EUI_ge ver v b = eui_ge (obj ver v d) b.
Proof. destruct C08_tie_b_ok as (_ & _ & _ & _ & _ & _ & _ & T). destruct (T ver v d b) as (_ & T'). exact T'. Qed.

Lemma eq_hash_code ver v d b :
  (src_EUI_eq ver v b = true <-> (ver, v) = (ever b, evalue b)) /\
  src_EUI_ne ver v b = negb (src_EUI_eq ver v b) /\
  (src_EUI_lt ver v b = true <-> ver < ever b \/ (ver = ever b /\ v < evalue b)) /\
  src_EUI_le ver v b = src_EUI_lt ver v b || src_EUI_eq ver v b /\
  src_EUI_gt ver v b = src_EUI_lt (ever b) (evalue b) (obj ver v d) /\
  src_EUI_ge ver v b = src_EUI_lt (ever b) (evalue b) (obj ver v d) || src_EUI_eq ver v b /\
  (src_EUI_eq ver v b = true <-> src_EUI_hash ver v = src_EUI_hash (ever b) (evalue b)).
Proof.
  destruct (cmp_tie ver v d b) as (TH & TE & TN & TL & TLE & TG & TGE).
  destruct (cmp_tie (ever b) (evalue b) (edialect b) (obj ver v d)) as (TH' & _ & _ & TL' & _).
  rewrite TH, TE, TN, TL, TLE, TG, TGE, TH', TL'.
  assert (Hb : obj (ever b) (evalue b) (edialect b) = b) by (destruct b; reflexivity). rewrite Hb.
  exact (cmp_spec (obj ver v d) b).
Qed.

Lemma eq_hash_dialect_code ver v b db :
  let b' := {| ever := ever b; evalue := evalue b; edialect := db |} in
  src_EUI_eq ver v b' = src_EUI_eq ver v b /\ src_EUI_ne ver v b' = src_EUI_ne ver v b /\
  src_EUI_lt ver v b' = src_EUI_lt ver v b /\ src_EUI_le ver v b' = src_EUI_le ver v b /\
  src_EUI_gt ver v b' = src_EUI_gt ver v b /\ src_EUI_ge ver v b' = src_EUI_ge ver v b.
Proof.
  cbv zeta. set (b' := {| ever := ever b; evalue := evalue b; edialect := db |}).
  destruct (cmp_tie ver v (default_dialect ver) b) as (_ & -> & -> & -> & -> & -> & ->).
  destruct (cmp_tie ver v (default_dialect ver) b') as (_ & -> & -> & -> & -> & -> & ->).
  destruct (cmp_dialect_irrelevant (obj ver v (default_dialect ver)) b (default_dialect ver) db) as (E1 & E2 & E3 & E4 & E5 & E6 & _).
  cbv zeta in *. cbn [ever evalue obj] in *. fold (obj ver v (default_dialect ver)) in *. fold b' in E1, E2, E3, E4, E5, E6.
  split_conj; assumption.
Qed.

Lemma order_total_code ver v d b :
  (src_EUI_lt ver v b = true /\ src_EUI_eq ver v b = false /\ src_EUI_lt (ever b) (evalue b) (obj ver v d) = false) \/
  (src_EUI_lt ver v b = false /\ src_EUI_eq ver v b = true /\ src_EUI_lt (ever b) (evalue b) (obj ver v d) = false) \/
  (src_EUI_lt ver v b = false /\ src_EUI_eq ver v b = false /\ src_EUI_lt (ever b) (evalue b) (obj ver v d) = true).
Proof.
  destruct (cmp_tie ver v d b) as (_ & -> & _ & -> & _).
  destruct (cmp_tie (ever b) (evalue b) (edialect b) (obj ver v d)) as (_ & _ & _ & -> & _).
  assert (Hb : obj (ever b) (evalue b) (edialect b) = b) by (destruct b; reflexivity). rewrite Hb.
  exact (lt_trichotomy (obj ver v d) b).
Qed.

(* ---- derived identifiers; the receiver is the state (ver, v), well formed: wf_eui (obj ver v d) for any d ---- *)
Definition wf_state (ver v : Z) : Prop := wf_ver ver /\ 0 <= v < 2 ^ ewidth ver.

Lemma wf_state_eui ver v d : wf_state ver v -> wf_eui (obj ver v d).
Proof. intros H. exact H. Qed.

Lemma ids_tie ver v d prefix :
  src_EUI_oui ver v = eui_oui (obj ver v d) /\ src_EUI_is_iab ver v = eui_is_iab (obj ver v d) /\
  src_EUI_eui64 ver v = eui_eui64 (obj ver v d) /\ src_EUI_modified_eui64 ver v = eui_modified (obj ver v d) /\
  src_EUI_ipv6 ver v prefix = eui_ipv6 (obj ver v d) prefix /\ src_EUI_ipv6_link_local ver v = eui_ipv6_link_local (obj ver v d).
Proof. destruct C08_tie_ok as (_ & _ & _ & _ & T). exact (T ver v d prefix). Qed.

Lemma eui64_code ver v : wf_state ver v ->
  src_EUI_eui64 ver v = Ok {| ever := 64; evalue := eui64_value ver v; edialect := eui64_base |} /\
  0 <= eui64_value ver v < 2 ^ 64.
Proof.
  intros H. destruct (ids_tie ver v (default_dialect ver) 0) as (_ & _ & -> & _).
  exact (eui64_spec _ (wf_state_eui ver v _ H)).
Qed.

Lemma modified_code ver v : wf_state ver v ->
  src_EUI_modified_eui64 ver v = Ok {| ever := 64; evalue := iid_value ver v; edialect := eui64_base |} /\
  0 <= iid_value ver v < 2 ^ 64.
Proof.
  intros H. destruct (ids_tie ver v (default_dialect ver) 0) as (_ & _ & _ & -> & _).
  exact (modified_spec _ (wf_state_eui ver v _ H)).
Qed.

Lemma ipv6_code ver v prefix : wf_state ver v ->
  src_EUI_ipv6 ver v prefix =
    let t := prefix + iid_value ver v in
    if (0 <=? t) && (t <? 2 ^ 128) then Ok (6, t) else Raise AddrFormatError.
Proof.
  intros H. destruct (ids_tie ver v (default_dialect ver) prefix) as (_ & _ & _ & _ & -> & _).
  exact (ipv6_spec _ prefix (wf_state_eui ver v _ H)).
Qed.

Lemma ipv6_prefix64_code ver v prefix : wf_state ver v -> 0 <= prefix < 2 ^ 128 -> prefix mod 2 ^ 64 = 0 ->
  src_EUI_ipv6 ver v prefix = Ok (6, Z.lor prefix (iid_value ver v)) /\
  Z.lor prefix (iid_value ver v) = prefix + iid_value ver v.
Proof.
  intros H Hp Hm. destruct (ids_tie ver v (default_dialect ver) prefix) as (_ & _ & _ & _ & -> & _).
  exact (ipv6_prefix64 _ prefix (wf_state_eui ver v _ H) Hp Hm).
Qed.

Lemma ipv6_link_local_code ver v : wf_state ver v ->
  src_EUI_ipv6_link_local ver v = Ok (6, Z.lor (65152 * 2 ^ 112) (iid_value ver v)).
Proof.
  intros H. destruct (ids_tie ver v (default_dialect ver) 0) as (_ & _ & _ & _ & _ & ->).
  exact (ipv6_link_local_spec _ (wf_state_eui ver v _ H)).
Qed.

Lemma split_oui_code ver v : wf_state ver v -> src_EUI_oui ver v = Some (v / 2 ^ (ewidth ver - 24)).
Proof.
  intros H. destruct (ids_tie ver v (default_dialect ver) 0) as (-> & _).
  exact (oui_spec _ (wf_state_eui ver v _ H)).
Qed.

(* the accessors of the second EUI unit *)
Lemma acc_tie ver v d : wf_ver ver ->
  src_EUI_words ver v = eui_words (obj ver v d) /\ omap str_of_bytes (src_EUI_packed ver v) = eui_packed (obj ver v d) /\
  (0 <= v -> src_EUI_bin ver v = eui_bin (obj ver v d)) /\ (forall sep, src_EUI_bits ver v sep = eui_bits (obj ver v d) sep) /\
  src_EUI_ei ver v = eui_ei (obj ver v d) /\
  (0 <= word_size d -> forall idx, src_EUI_getitem_int ver v d idx = eui_getitem (obj ver v d) idx) /\
  (0 <= word_size d -> forall idx x,
     omap (fun v' => {| ever := ver; evalue := v'; edialect := d |}) (src_EUI_setitem ver v d idx x) = eui_setitem (obj ver v d) idx x).
Proof. intros H. destruct C08_tie_b_ok as (_ & _ & _ & _ & _ & _ & T & _). exact (T ver v d H). Qed.

Lemma split_ei_code ver v : wf_state ver v ->
  src_EUI_ei ver v = Ok (Some (join "-" (map (fmt_X_pad 2) (skipn 3 (octets_of ver v))))).
Proof.
  intros H. destruct (acc_tie ver v (default_dialect ver) (proj1 H)) as (_ & _ & _ & _ & -> & _).
  exact (ei_spec _ (wf_state_eui ver v _ H)).
Qed.

Lemma split_iab_code ver v : 0 <= v < 2 ^ 48 ->
  src_EUI_is_iab ver v = zmem (v / 2 ^ 24) iab_values /\
  src_EUI_iab ver v = (if zmem (v / 2 ^ 24) iab_values then Some (v / 2 ^ 12) else None).
Proof.
  intros H. destruct (ids_tie ver v (default_dialect ver) 0) as (_ & -> & _).
  destruct C08_tie_b_ok as (_ & _ & _ & _ & _ & _ & _ & T). destruct (T ver v (default_dialect ver) (obj ver v (default_dialect ver))) as (TI & _).
  fold (obj ver v (default_dialect ver)) in TI.
  split; [exact (is_iab_spec (obj ver v (default_dialect ver)))|].
  pose proof (iab_spec (obj ver v (default_dialect ver)) H) as E. rewrite E in TI. now injection TI.
Qed.

Lemma accessors_words_code ver v : wf_state ver v ->
  src_EUI_words ver v = Ok (octets_of ver v) /\
  omap str_of_bytes (src_EUI_packed ver v) = Ok (str_of (map chr (octets_of ver v))) /\
  (forall sep, src_EUI_bits ver v sep = Ok (join (match sep with Some s => s | None => "-"%string end)
                                                 (map (fmt_b_pad 8) (octets_of ver v)))).
Proof.
  intros H. pose proof (wf_state_eui ver v (default_dialect ver) H) as W.
  destruct (acc_tie ver v (default_dialect ver) (proj1 H)) as (-> & -> & _ & TB & _).
  split; [exact (words_spec _ W)|]. split; [exact (packed_spec _ W)|]. intros sep. rewrite TB. exact (bits_spec _ sep W).
Qed.

Lemma getitem_code ver v d i : wf_state ver v -> wf_dialect ver d ->
  let nw := num_words d in
  src_EUI_getitem_int ver v d i =
    if (0 <=? i) && (i <? nw) then Ok (word_at (word_size d) nw v i)
    else if (- nw <=? i) && (i <? 0) then Ok (word_at (word_size d) nw v (i + nw))
    else Raise IndexError.
Proof.
  intros H Hd. destruct (acc_tie ver v d (proj1 H)) as (_ & _ & _ & _ & _ & TG & _).
  rewrite TG by (destruct Hd; lia). exact (getitem_spec (obj ver v d) i (wf_state_eui ver v d H) Hd).
Qed.

Lemma setitem_code ver v d i x : wf_state ver v -> wf_dialect ver d ->
  let nw := num_words d in let ws := word_size d in
  if (0 <=? i) && (i <? nw) && (0 <=? x) && (x <? 2 ^ ws) then
    exists v', src_EUI_setitem ver v d i x = Ok v' /\
               0 <= v' < 2 ^ ewidth ver /\
               (forall j, 0 <= j < nw -> word_at ws nw v' j = if j =? i then x else word_at ws nw v j)
  else src_EUI_setitem ver v d i x = Raise IndexError.
Proof.
  intros H Hd. destruct (acc_tie ver v d (proj1 H)) as (_ & _ & _ & _ & _ & _ & TS).
  specialize (TS ltac:(destruct Hd; lia) i x).
  pose proof (setitem_spec (obj ver v d) i x (wf_state_eui ver v d H) Hd) as S. cbv zeta in *. cbn [obj ever evalue edialect] in S.
  destruct ((0 <=? i) && (i <? num_words d) && (0 <=? x) && (x <? 2 ^ word_size d)).
  - destruct S as (v' & E & R & W). rewrite E in TS. destruct (src_EUI_setitem ver v d i x) as [v''|e]; [|discriminate TS].
    cbn [omap] in TS. injection TS as ->. exists v'. auto.
  - rewrite S in TS. destruct (src_EUI_setitem ver v d i x) as [v''|e]; [discriminate TS|]. cbn [omap] in TS. now injection TS as ->.
Qed.
