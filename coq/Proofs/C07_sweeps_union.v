(* Proofs/C07_sweeps_union.v — IPSet.union / __or__: copy of the left operand updated with the right one, i.e.
   cidr_merge over the keys of both dicts; correct relative to the cidr_merge specification (proved in C05). *)
From NV Require Import Base.Tac Base.PyVal Base.Bits Base.Canon Model.Ip Model.Partition Model.Span Model.Merge Model.Sets
  Proofs.C02 Proofs.NetDen Proofs.C07_sweeps.
From Coq Require Import Sorting.Sorted Sorting.Permutation.
Open Scope Z_scope.

Lemma s_den_items_nets l ver x : den_items (map MNet l) ver x <-> den l ver x.
Proof.
  unfold den_items, den. split.
  - intros (m & Hm & I). apply in_map_iff in Hm. destruct Hm as (n & <- & Hn). exists n. split; [exact Hn|exact I].
  - intros (n & Hn & I). exists (MNet n). split; [apply in_map, Hn|exact I].
Qed.

Theorem set_union_spec : cidr_merge_spec -> forall a b, SetInv a -> SetInv b ->
  exists r, set_union a b = Ok r /\ SetInv r /\ canon_nets r /\
    forall ver x, den r ver x <-> den a ver x \/ den b ver x.
Proof.
  intros Spec a b Ia Ib. unfold set_union, set_update. rewrite (s_dupdate_nil a Ia).
  destruct (Spec (map MNet (a ++ b))) as (cs & Ec & Cc & Dc).
  { rewrite Forall_forall. intros m Hm. apply in_map_iff in Hm. destruct Hm as (n & <- & Hn). cbn [wf_mitem].
    apply in_app_or in Hn. destruct Hn as [Hn|Hn].
    - eapply Forall_forall in Hn; [|apply SetInv_wfh, Ia]. apply Hn.
    - eapply Forall_forall in Hn; [|apply SetInv_wfh, Ib]. apply Hn. }
  rewrite Ec. cbn [bind]. rewrite (s_dfromkeys_canon cs Cc).
  exists cs. split; [reflexivity|]. split; [apply s_canon_nets_SetInv, Cc|split; [exact Cc|]].
  intros ver x. rewrite Dc, s_den_items_nets, den_app. tauto.
Qed.

(* small SetInv states, for examples *)
Lemma s_not_sib_self x : wfh x -> ~ siblings x x.
Proof.
  intros H (_ & _ & Hv & _). destruct (s_wfh_facts x H) as (V & P & F & L & U & D & T).
  unfold net_blk, bsize in Hv; cbn [bv bp] in Hv. lia.
Qed.

Lemma SetInv_single x : wfh x -> SetInv [x].
Proof.
  intros H. split; [constructor; [exact H|constructor]|split; [repeat constructor|]].
  intros a b [<-|[]] [<-|[]]. apply s_not_sib_self, H.
Qed.

Lemma SetInv_pair x y : wfh x -> wfh y -> nver x <> nver y -> SetInv [x; y].
Proof.
  intros Hx Hy N. split; [constructor; [exact Hx|constructor; [exact Hy|constructor]]|split].
  - constructor; [|repeat constructor]. constructor; [|constructor].
    intros (ver & z & I1 & I2). unfold in_net in *. lia.
  - intros a b [<-|[<-|[]]] [<-|[<-|[]]]; try (apply s_not_sib_self; assumption); intros (E & _); congruence.
Qed.
