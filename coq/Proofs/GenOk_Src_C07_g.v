(* Proofs/GenOk_Src_C07_g.v -- source tie for C07 / C06, tag SRCG: the four methods of IPSet that were left (Gen/pysrc_sets_g_gen.v):
   __iter__ (the addresses of the sorted blocks, block after block), __hash__ (TypeError), __reduce__ (its state component = the
   model's pickled state), __repr__ (text around the sorted blocks' str()).  Sets.v has no counterpart for __iter__, __hash__,
   __repr__: they are stated directly over Sets.sorted / UniqueIps.net_addrs / NetText.net_str. *)
From Coq Require Import String Ascii.
From NV Require Import Base.Tac Base.PyVal Base.PyStr Model.Ip Model.Span Model.Sets Model.AddrText Model.NetText Model.UniqueIps
  Model.SrcPrelude Model.SrcPreludeSets Model.SrcPreludeG
  Gen.pysrc_gen Gen.pysrc_parse_gen Gen.pysrc_sets_state_gen Gen.pysrc_sets_g_gen Proofs.GenOk_Src_C03 Proofs.GenOk_Src_C06_state.
Import ListNotations.
Open Scope list_scope.
Open Scope Z_scope.

Lemma map_og_ext {A B} (f g : A -> outcome B) l : (forall x, f x = g x) -> py_map_og f l = py_map_og g l.
Proof. intros H. induction l as [|x t IH]; [reflexivity|]. cbn [py_map_og]. rewrite H, IH. reflexivity. Qed.

Lemma C07_tie_g_ok :
  (forall d, src_IPSet_iter d = flat_map net_addrs (sorted d)) /\
  (forall d, src_IPSet_hash d = Raise TypeError) /\
  (forall d, src_IPSet_reduce d = map state_list (set_getstate d)) /\
  (forall be d, src_IPSet_repr be d =
     (do l <- py_map_og (net_str be) (sorted d); do r <- py_repr_strlist l; Ok ("IPSet(" ++ r ++ ")")%string)).
Proof.
  split; [reflexivity|]. split; [reflexivity|]. split; [intros d; apply src_getstate_ok|].
  intros be d. unfold src_IPSet_repr, py_sorted_nets.
  rewrite (map_og_ext _ (net_str be)); [reflexivity|].
  intros [ver v p]. cbn [nver nval nplen]. apply src_net_str_ok.
Qed.
