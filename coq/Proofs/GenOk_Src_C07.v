(* Proofs/GenOk_Src_C07.v -- SRCA: source tie for C07, queries.  The definitions regenerated from the text of
   netaddr/ip/sets.py (Gen/pysrc_sets_gen.v: IPSet.iter_cidrs, __nonzero__, size, __len__, iscontiguous, iprange, clear, copy,
   __contains__ with its supernet walk, issubset, issuperset, __lt__, __gt__, __eq__, __ne__) equal the hand-written model
   of Model/Sets.v that the theorems of Props/C07*.v are about.
   REPRESENTATION.  An IPSet object is its dict `_cidrs`, the insertion-ordered list of its IPNetwork keys, on both sides
   (Sets.dict = list net); the dict operations and sorted() of the generated code are the model's own small definitions under
   prelude names (Model/SrcPreludeSets.v).
   HYPOTHESES.  None for iter_cidrs / __nonzero__ / size / __len__ / iscontiguous / clear / copy / __eq__ / __ne__.
   `0 <= prefixlen` of the queried network for __contains__ (the Python loop `while supernet._prefixlen:` does not end for a
   negative prefix length; the generated loop runs out of fuel there, the model's walk answers False), hence of every element
   of the set that is walked for issubset / issuperset / __lt__ / __gt__.  Every element well formed (wf_net) for iprange
   (the result is built through IPNetwork.__getitem__ and the range-checking IPAddress constructor).  All of them follow
   from SetInv (Forall wfh), the hypothesis of the property theorems. *)
From NV Require Import Base.Tac Base.PyVal Base.Bits Model.Ip Model.Partition Model.Span Model.Merge Model.Sets Model.PySlice
  Model.SrcPrelude Model.SrcPreludeSets Gen.pysrc_gen Gen.pysrc_listlike_gen Gen.pysrc_sets_gen Proofs.C02 Proofs.NetDen Proofs.C07_qsort.
Import ListNotations.
Open Scope Z_scope.

(* ---------------------------------------------------------------- lists *)
Lemma py_index_0 {A} (x : A) l : py_index (x :: l) 0 = Ok x.
Proof.
  unfold py_index. cbn [length]. change (0 <? 0) with false. cbv iota.
  replace (Z.of_nat (S (length l)) <=? 0) with false by lia. reflexivity.
Qed.

Lemma last_cons {A} (r : list A) : forall x y, last (y :: r) x = last r y.
Proof.
  induction r as [|a r IH]; intros x y; [reflexivity|]. change (last (y :: a :: r) x) with (last (a :: r) x).
  rewrite (IH x a), (IH y a). reflexivity.
Qed.

Lemma py_index_last {A} (x : A) l : py_index (x :: l) (-1) = Ok (last l x).
Proof.
  unfold py_index. change (-1 <? 0) with true. cbv iota. set (n := Z.of_nat (length (x :: l))).
  assert (Hn : n = Z.of_nat (length l) + 1) by (unfold n; cbn [length]; lia).
  replace (-1 + n <? 0) with false by lia. replace (n <=? -1 + n) with false by lia. cbn [orb].
  replace (Z.to_nat (-1 + n)) with (length l) by lia. clear n Hn.
  revert x. induction l as [|y r IH]; intros x; [reflexivity|]. cbn [length nth_error]. rewrite IH, last_cons. reflexivity.
Qed.

Lemma py_sum_map {A} (f : A -> Z) l : forall acc, fold_left Z.add (map f l) acc = fold_left (fun a n => a + f n) l acc.
Proof. induction l as [|x r IH]; intros acc; [reflexivity|]. cbn [map fold_left]. apply IH. Qed.

(* ---------------------------------------------------------------- straight-line queries *)
Lemma src_iter_cidrs_ok d : src_IPSet_iter_cidrs d = sorted d.
Proof. reflexivity. Qed.

Lemma src_nonzero_ok d : src_IPSet_nonzero d = match d with [] => false | _ => true end.
Proof. reflexivity. Qed.

Lemma src_size_ok d : src_IPSet_size d = set_size d.
Proof. unfold src_IPSet_size, py_sum, set_size. rewrite py_sum_map. reflexivity. Qed.

Lemma src_len_ok d : src_IPSet_len d = set_len d.
Proof. unfold src_IPSet_len, set_len. rewrite src_size_ok. reflexivity. Qed.

Lemma src_clear_ok d : src_IPSet_clear d = [].
Proof. reflexivity. Qed.

Lemma src_copy_ok d : src_IPSet_copy d = dupdate [] d.
Proof. reflexivity. Qed.

Lemma src_eq_ok a b : src_IPSet_eq a b = dict_eqb a b.
Proof. reflexivity. Qed.

Lemma src_ne_ok a b : src_IPSet_ne a b = negb (dict_eqb a b).
Proof. reflexivity. Qed.

(* ---------------------------------------------------------------- iscontiguous *)
Lemma src_contiguous_loop_ok : forall l previous,
  src_IPSet_iscontiguous_loop1 l previous = if contiguous_loop previous l then inr tt else inl false.
Proof.
  induction l as [|c r IH]; intros previous; [reflexivity|]. cbn [src_IPSet_iscontiguous_loop1 contiguous_loop].
  change (src_IPNetwork_version (nver c) (width (nver c)) (nval c) (nplen c)) with (nver c).
  change (src_IPNetwork_version (nver previous) (width (nver previous)) (nval previous) (nplen previous)) with (nver previous).
  change (src_IPNetwork_first (nver c) (width (nver c)) (nval c) (nplen c)) with (nf c).
  change (src_IPNetwork_last (nver previous) (width (nver previous)) (nval previous) (nplen previous)) with (nl previous).
  destruct (negb (nver c =? nver previous) || negb (nf c =? nl previous + 1)); [reflexivity|]. apply IH.
Qed.

Lemma src_iscontiguous_ok d : src_IPSet_iscontiguous d = Ok (set_iscontiguous d).
Proof.
  unfold src_IPSet_iscontiguous, set_iscontiguous. rewrite src_iter_cidrs_ok. cbv zeta.
  destruct (sorted d) as [|c0 [|c1 r]]; [reflexivity|reflexivity|].
  replace (Z.of_nat (length (c0 :: c1 :: r)) >? 1) with true by (cbn [length]; lia).
  rewrite py_index_0. cbn [bind]. change (py_list_from 1 (c0 :: c1 :: r)) with (c1 :: r).
  rewrite src_contiguous_loop_ok. destruct (contiguous_loop c0 (c1 :: r)); reflexivity.
Qed.

(* ---------------------------------------------------------------- __contains__: the supernet walk *)
Lemma contains_walk_unfold fuel d s :
  contains_walk fuel d s =
    if dmem s d then true
    else match fuel with
         | O => false
         | S f => if nplen s =? 0 then false
                  else contains_walk f d {| nver := nver s; nval := nval s; nplen := nplen s - 1 |}
         end.
Proof. destruct fuel; reflexivity. Qed.

Definition fin_walk (h : bool + unit) : outcome bool := match h with inl b => Ok b | inr _ => Ok false end.

Lemma src_contains_loop_ok d : forall f s, 0 <= nplen s <= Z.of_nat f -> dmem s d = false ->
  bind (src_IPSet_contains_loop1 (S f) d s) fin_walk = Ok (contains_walk (S f) d s).
Proof.
  induction f as [|f IH]; intros s Hp Hm.
  - rewrite contains_walk_unfold, Hm. cbn [src_IPSet_contains_loop1]. replace (nplen s =? 0) with true by lia. reflexivity.
  - rewrite contains_walk_unfold, Hm. cbn [src_IPSet_contains_loop1]. fold src_IPSet_contains_loop1.
    destruct (nplen s =? 0) eqn:E; [reflexivity|]. cbn [negb]. cbv zeta. unfold py_dict_mem.
    set (s' := {| nver := nver s; nval := nval s; nplen := nplen s - 1 |}).
    destruct (dmem s' d) eqn:Hm'.
    + rewrite contains_walk_unfold, Hm'. reflexivity.
    + apply IH; [|exact Hm']. unfold s'. cbn [nplen]. lia.
Qed.

Lemma src_contains_ok d n : 0 <= nplen n -> src_IPSet_contains d n = Ok (set_contains d n).
Proof.
  intros Hp. unfold src_IPSet_contains, set_contains. cbv zeta. unfold py_dict_mem.
  replace (Z.to_nat (nplen n) + 1)%nat with (S (Z.to_nat (nplen n))) by lia.
  destruct (dmem n d) eqn:Hm; [rewrite contains_walk_unfold, Hm; reflexivity|].
  rewrite <- (src_contains_loop_ok d (Z.to_nat (nplen n)) n) by (try assumption; lia).
  destruct (src_IPSet_contains_loop1 (S (Z.to_nat (nplen n))) d n) as [[b|u]|]; reflexivity.
Qed.

(* ---------------------------------------------------------------- issubset / issuperset / < / > *)
Definition plen_ok (l : list net) : Prop := Forall (fun n => 0 <= nplen n) l.

Lemma src_issubset_loop_ok other : forall l, plen_ok l ->
  src_IPSet_issubset_loop1 other l = Ok (if forallb (fun c => set_contains other c) l then inr tt else inl false).
Proof.
  induction 1 as [|c r Hc _ IH]; [reflexivity|]. cbn [src_IPSet_issubset_loop1 forallb].
  rewrite (src_contains_ok other c Hc). cbn [bind]. destruct (set_contains other c); [exact IH|reflexivity].
Qed.

Lemma src_issubset_ok a b : plen_ok a -> src_IPSet_issubset a b = Ok (set_issubset a b).
Proof.
  intros H. unfold src_IPSet_issubset, set_issubset. rewrite (src_issubset_loop_ok b a H). cbn [bind].
  destruct (forallb (fun c => set_contains b c) a); reflexivity.
Qed.

Lemma src_issuperset_loop_ok self : forall l, plen_ok l ->
  src_IPSet_issuperset_loop1 self l = Ok (if forallb (fun c => set_contains self c) l then inr tt else inl false).
Proof.
  induction 1 as [|c r Hc _ IH]; [reflexivity|]. cbn [src_IPSet_issuperset_loop1 forallb].
  rewrite (src_contains_ok self c Hc). cbn [bind]. destruct (set_contains self c); [exact IH|reflexivity].
Qed.

Lemma src_issuperset_ok a b : plen_ok b -> src_IPSet_issuperset a b = Ok (set_issuperset a b).
Proof.
  intros H. unfold src_IPSet_issuperset, set_issuperset. rewrite (src_issuperset_loop_ok a b H). cbn [bind].
  destruct (forallb (fun c => set_contains a c) b); reflexivity.
Qed.

Lemma src_lt_ok a b : plen_ok a -> src_IPSet_lt a b = Ok (set_lt a b).
Proof.
  intros H. unfold src_IPSet_lt, set_lt. rewrite !src_size_ok, (src_issubset_ok a b H).
  destruct (set_size a <? set_size b); reflexivity.
Qed.

Lemma src_gt_ok a b : plen_ok b -> src_IPSet_gt a b = Ok (set_gt a b).
Proof.
  intros H. unfold src_IPSet_gt, set_gt. rewrite !src_size_ok, (src_issuperset_ok a b H).
  destruct (set_size a >? set_size b); reflexivity.
Qed.

(* ---------------------------------------------------------------- iprange *)
Lemma wf_first_last n : wf_net n -> 0 <= nf n /\ nf n <= nl n /\ nl n < 2 ^ width (nver n).
Proof.
  intros (Hv & Hval & Hp). unfold nf, nl, nfirst, nlast.
  rewrite net_first_eq, net_last_eq by (try assumption; lia).
  pose proof (first_last_in_range _ _ _ Hp Hval) as (A & B).
  pose proof (pow2_pos (width (nver n) - nplen n) ltac:(lia)). lia.
Qed.

Lemma mk_addr_ok ver x : valid_ver ver = true -> 0 <= x < 2 ^ width ver -> mk_addr ver x = Ok (ver, x).
Proof.
  intros Hv Hx. unfold mk_addr, addr_of_int_ver, in_range_w, max_int_w.
  destruct (width_cases ver Hv) as [[E W]|[E W]]; rewrite W in Hx; subst ver.
  - rewrite Z.eqb_refl. replace ((0 <=? x) && (x <=? 2 ^ 32 - 1)) with true by lia. reflexivity.
  - change (6 =? 4) with false. rewrite Z.eqb_refl. replace ((0 <=? x) && (x <=? 2 ^ 128 - 1)) with true by lia. reflexivity.
Qed.

Lemma src_getitem_first n : wf_net n ->
  src_IPNetwork_getitem_int (nver n) (width (nver n)) (nval n) (nplen n) 0 = Ok (nver n, nf n).
Proof.
  intros H. pose proof (wf_first_last n H) as (A & B & C). destruct H as (Hv & _).
  unfold src_IPNetwork_getitem_int.
  change (src_IPNetwork_size (nver n) (width (nver n)) (nval n) (nplen n)) with (nl n - nf n + 1).
  change (src_IPNetwork_first (nver n) (width (nver n)) (nval n) (nplen n)) with (nf n).
  change (0 <? 0) with false. rewrite andb_false_r.
  replace ((0 <=? 0) && (0 <=? nl n - nf n + 1 - 1)) with true by lia.
  rewrite (mk_addr_ok (nver n) (nf n + 0) Hv) by lia. cbn [bind py_except]. f_equal. f_equal. lia.
Qed.

Lemma src_getitem_last n : wf_net n ->
  src_IPNetwork_getitem_int (nver n) (width (nver n)) (nval n) (nplen n) (-1) = Ok (nver n, nl n).
Proof.
  intros H. pose proof (wf_first_last n H) as (A & B & C). destruct H as (Hv & _).
  unfold src_IPNetwork_getitem_int.
  change (src_IPNetwork_size (nver n) (width (nver n)) (nval n) (nplen n)) with (nl n - nf n + 1).
  change (src_IPNetwork_last (nver n) (width (nver n)) (nval n) (nplen n)) with (nl n).
  replace ((- (nl n - nf n + 1) <=? -1) && (-1 <? 0)) with true by lia.
  rewrite (mk_addr_ok (nver n) (nl n + -1 + 1) Hv) by lia. cbn [bind py_except]. f_equal. f_equal. lia.
Qed.

Lemma Forall_last {A} (P : A -> Prop) l : forall x, Forall P (x :: l) -> P (last l x).
Proof.
  induction l as [|y r IH]; intros x H; [inversion H; assumption|]. rewrite last_cons. apply IH. inversion H; assumption.
Qed.

Lemma src_iprange_ok d : Forall wf_net d -> src_IPSet_iprange d = set_iprange d.
Proof.
  intros H. unfold src_IPSet_iprange, set_iprange. rewrite src_iscontiguous_ok. cbn [bind].
  destruct (set_iscontiguous d); [|reflexivity]. rewrite src_iter_cidrs_ok. cbv zeta.
  pose proof (q_sorted_wf d H) as W. destruct (sorted d) as [|c0 r]; [reflexivity|].
  change (py_nonempty (c0 :: r)) with true. cbn [negb].
  rewrite py_index_0. cbn [bind]. rewrite src_getitem_first by (inversion W; assumption). cbn [bind].
  rewrite py_index_last. cbn [bind]. rewrite src_getitem_last by (apply (Forall_last wf_net r c0 W)). cbn [bind].
  unfold py_iprange. cbn [fst snd].
  destruct (negb (nver c0 =? nver (last r c0))); [reflexivity|]. destruct (nf c0 >? nl (last r c0)); reflexivity.
Qed.

(* everything the C07 source tie (queries) states (Props/C07_src.v) *)
Lemma C07_tie_ok :
  (forall d, src_IPSet_iter_cidrs d = sorted d) /\
  (forall d, src_IPSet_nonzero d = match d with [] => false | _ => true end) /\
  (forall d, src_IPSet_size d = set_size d) /\
  (forall d, src_IPSet_len d = set_len d) /\
  (forall d, src_IPSet_iscontiguous d = Ok (set_iscontiguous d)) /\
  (forall d, Forall wf_net d -> src_IPSet_iprange d = set_iprange d) /\
  (forall d, src_IPSet_clear d = []) /\
  (forall d, src_IPSet_copy d = dupdate [] d) /\
  (forall d n, 0 <= nplen n -> src_IPSet_contains d n = Ok (set_contains d n)) /\
  (forall a b, plen_ok a -> src_IPSet_issubset a b = Ok (set_issubset a b)) /\
  (forall a b, plen_ok b -> src_IPSet_issuperset a b = Ok (set_issuperset a b)) /\
  (forall a b, plen_ok a -> src_IPSet_lt a b = Ok (set_lt a b)) /\
  (forall a b, plen_ok b -> src_IPSet_gt a b = Ok (set_gt a b)) /\
  (forall a b, src_IPSet_eq a b = dict_eqb a b) /\
  (forall a b, src_IPSet_ne a b = negb (dict_eqb a b)).
Proof.
  repeat (split; [first [exact src_iter_cidrs_ok | exact src_nonzero_ok | exact src_size_ok | exact src_len_ok
    | exact src_iscontiguous_ok | exact src_iprange_ok | exact src_clear_ok | exact src_copy_ok | exact src_contains_ok
    | exact src_issubset_ok | exact src_issuperset_ok | exact src_lt_ok | exact src_gt_ok | exact src_eq_ok]|]).
  exact src_ne_ok.
Qed.
