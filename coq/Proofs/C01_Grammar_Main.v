(* Proofs/C01_Grammar_Main.v — C01_grammar composed with the back-end theorems: netaddr's OWN strict parsers
   (the pure-Python fallback fbsocket.inet_pton, strategy.str_to_int, IPAddress.__init__ in INET_PTON mode, under
   either back-end) accept exactly the strings derivable in the declarative grammar of Proofs/C01_Grammar.v, with
   exactly the derived value, and raise on every other string. *)
From Coq Require Import String Ascii.
From NV Require Import Base.Tac Base.PyVal Base.Bits Base.PyStr Base.PyStrFacts Model.IpText Model.FbSocket Model.AddrText
  Proofs.C01_Chars Proofs.C01_V6 Proofs.C01_Value Proofs.C01_V4 Proofs.C01_Fb Proofs.C01_Strict6 Proofs.C01
  Proofs.C01_Grammar Proofs.C01_Grammar_V6.
Open Scope Z_scope.

(* the address values *)
Definition quad_value (a b c d : Z) : Z := a * 2 ^ 24 + b * 2 ^ 16 + c * 2 ^ 8 + d.

Lemma unpack_I_quad a b c d : unpack_I [a; b; c; d] = Ok (quad_value a b c d).
Proof. unfold unpack_I, quad_value. change (2 ^ 24) with 16777216. change (2 ^ 16) with 65536. change (2 ^ 8) with 256.
  f_equal. lia. Qed.

Lemma packed_to_int_words8 g : List.length g = 8%nat -> Forall word g -> packed_to_int g = Ok (Std6.words_value g).
Proof. intros L W. destruct (length8 g L) as (g0 & g1 & g2 & g3 & g4 & g5 & g6 & g7 & ->).
  unfold word in W. repeat match goal with H : Forall _ (_ :: _) |- _ => inversion H; clear H; subst end.
  unfold packed_to_int, unpack_4I. cbn [bind]. rewrite or_words_32 by (unfold w32; lia).
  unfold Std6.words_value. cbn [fold_left]. f_equal. lia. Qed.

(* ---------------------------------------------------------------- character facts of derivable strings *)
Lemma DottedQuad_no_slash l q : DottedQuad l q -> existsb (ascii_eqb "/") l = false.
Proof. intros H. apply grammar_v4 in H. destruct (existsb (ascii_eqb "/") l) eqn:E; [|reflexivity].
  apply existsb_exists in E. destruct E as (x & Hx & Ex). apply ascii_eqb_eq in Ex. subst x.
  rewrite (pton4_badchar "/" l eq_refl eq_refl Hx) in H. discriminate. Qed.

Lemma Rfc4291_no_slash l g : Rfc4291 l g -> existsb (ascii_eqb "/") l = false.
Proof. intros H. apply grammar_v6 in H. eapply pton6_some_no_slash; eauto. Qed.

Lemma Hextets_two_colon l g : Hextets l g -> (2 <= List.length g)%nat -> In ch_colon l.
Proof. intros [t h H|t h l' g' H H'] L; [cbn in L; lia|]. apply in_or_app. right. now left. Qed.

(* every RFC 4291 text contains a ':' (so no string is both a dotted quad and an IPv6 text) *)
Lemma Rfc4291_has_colon l g : Rfc4291 l g -> In ch_colon l.
Proof. intros [l0 g0 H L|P gp Q gq HP HQ L].
  - destruct H as [l' g' H|q a b c d H|l' g' q a b c d H Hq].
    + apply (Hextets_two_colon _ _ H). lia.
    + discriminate L.
    + apply in_or_app. right. now left.
  - apply in_or_app. right. now left. Qed.

Lemma DottedQuad_not_Rfc4291 l q g : DottedQuad l q -> Rfc4291 l g -> False.
Proof. intros H4 H6. apply Rfc4291_has_colon in H6. apply grammar_v4 in H4. rewrite (pton4_colon l H6) in H4. discriminate. Qed.

(* ================================================================================================== *)
(** * back-end level: socket.inet_pton / netaddr.fbsocket.inet_pton                                   *)
(* ================================================================================================== *)
Theorem backend_pton6_grammar be s g : inet_pton6 be s = Ok g <-> Rfc4291 (chars s) g.
Proof. rewrite inet_pton6_be, <- grammar_v6. unfold Std6.pton6. destruct (Std6.pton6_chars (chars s)); cbn [of_option];
  split; intros E; try discriminate; congruence. Qed.

Theorem backend_pton6_reject be s : inet_pton6 be s = Raise ValueError <-> forall g, ~ Rfc4291 (chars s) g.
Proof. rewrite inet_pton6_be. unfold Std6.pton6. destruct (Std6.pton6_chars (chars s)) as [g0|] eqn:E; cbn [of_option].
  - split; [discriminate|]. intros H. exfalso. apply (H g0). now apply grammar_v6.
  - split; [|reflexivity]. intros _ g H. apply grammar_v6 in H. congruence. Qed.

Theorem backend_pton4_grammar be s q : inet_pton4 be s = Ok q <-> DottedQuad (chars s) q.
Proof. rewrite inet_pton4_be, <- grammar_v4. unfold Std4.pton4. destruct (Std4.pton4_chars (chars s)); cbn [of_option];
  split; intros E; try discriminate; congruence. Qed.

Theorem backend_pton4_reject be s : inet_pton4 be s = Raise ValueError <-> forall q, ~ DottedQuad (chars s) q.
Proof. rewrite inet_pton4_be. unfold Std4.pton4. destruct (Std4.pton4_chars (chars s)) as [q0|] eqn:E; cbn [of_option].
  - split; [discriminate|]. intros H. exfalso. apply (H q0). now apply grammar_v4.
  - split; [|reflexivity]. intros _ q H. apply grammar_v4 in H. congruence. Qed.

(* the fallback itself, by name *)
Corollary fb_pton6_grammar s g : Fb.inet_pton6 s = Ok g <-> Rfc4291 (chars s) g.
Proof. exact (backend_pton6_grammar Fallback s g). Qed.
Corollary fb_pton4_grammar s q : Fb.inet_pton4 s = Ok q <-> DottedQuad (chars s) q.
Proof. exact (backend_pton4_grammar Fallback s q). Qed.

(* ================================================================================================== *)
(** * strategy level: str_to_int                                                                      *)
(* ================================================================================================== *)
Theorem strict_rfc4291 be s flags v :
  str_to_int be 6 s flags = Ok v <-> exists g, Rfc4291 (chars s) g /\ v = Std6.words_value g.
Proof. rewrite strict_exact_v6. unfold Std6.pton6. split.
  - destruct (Std6.pton6_chars (chars s)) as [g|] eqn:E; [|discriminate]. apply grammar_v6 in E.
    destruct (grammar_v6_words _ _ E) as (L & W). rewrite (packed_to_int_words8 g L W). intros Q. injection Q as <-. eauto.
  - intros (g & H & ->). destruct (grammar_v6_words _ _ H) as (L & W). apply grammar_v6 in H. rewrite H.
    now rewrite (packed_to_int_words8 g L W). Qed.

Theorem strict_rfc4291_reject be s flags :
  str_to_int be 6 s flags = Raise AddrFormatError <-> forall g, ~ Rfc4291 (chars s) g.
Proof. rewrite strict_exact_v6. unfold Std6.pton6. destruct (Std6.pton6_chars (chars s)) as [g0|] eqn:E.
  - apply grammar_v6 in E. destruct (grammar_v6_words _ _ E) as (L & W). rewrite (packed_to_int_words8 g0 L W).
    split; [discriminate|]. intros H. exfalso. eapply H; eauto.
  - split; [|reflexivity]. intros _ g H. apply grammar_v6 in H. congruence. Qed.

Theorem strict_dotted_quad be s v :
  str_to_int be 4 s INET_PTON = Ok v <-> exists a b c d, DottedQuad (chars s) [a; b; c; d] /\ v = quad_value a b c d.
Proof. rewrite strict_exact_v4. unfold Std4.pton4. split.
  - destruct (Std4.pton4_chars (chars s)) as [q|] eqn:E; [|discriminate]. apply grammar_v4 in E.
    destruct (grammar_v4_value _ _ E) as (a & b & c & d & -> & _). rewrite unpack_I_quad. intros Q. injection Q as <-.
    exists a, b, c, d. auto.
  - intros (a & b & c & d & H & ->). apply grammar_v4 in H. now rewrite H, unpack_I_quad. Qed.

Theorem strict_dotted_quad_reject be s :
  str_to_int be 4 s INET_PTON = Raise AddrFormatError <-> forall q, ~ DottedQuad (chars s) q.
Proof. rewrite strict_exact_v4. unfold Std4.pton4. destruct (Std4.pton4_chars (chars s)) as [q0|] eqn:E.
  - apply grammar_v4 in E. destruct (grammar_v4_value _ _ E) as (a & b & c & d & -> & _). rewrite unpack_I_quad.
    split; [discriminate|]. intros H. exfalso. eapply H; eauto.
  - split; [|reflexivity]. intros _ q H. apply grammar_v4 in H. congruence. Qed.

(* ================================================================================================== *)
(** * constructor level: IPAddress(s, version, flags=INET_PTON)                                       *)
(* ================================================================================================== *)
(* what the declarative grammars say a strict address text denotes: (version, value) *)
Definition denotes (s : string) (r : Z * Z) : Prop :=
  (exists a b c d, DottedQuad (chars s) [a; b; c; d] /\ r = (4, quad_value a b c d)) \/
  (exists g, Rfc4291 (chars s) g /\ r = (6, Std6.words_value g)).

Lemma init_ok_noslash be a version flags r : init_str be a version flags = Ok r -> contains_char "/" a = false.
Proof. unfold init_str. destruct (match version with None => _ | Some _ => _ end); cbn [bind]; [|discriminate].
  destruct (contains_char "/" a); [discriminate|reflexivity]. Qed.

Lemma str_to_int_total be ver s flags : (exists v, str_to_int be ver s flags = Ok v) \/ str_to_int be ver s flags = Raise AddrFormatError.
Proof. destruct (str_to_int be ver s flags) as [v|e] eqn:E; [left; eauto|right]. f_equal. eapply str_to_int_raises; eauto. Qed.

Theorem strict_constructor be s version r :
  version = None \/ version = Some 4 \/ version = Some 6 ->
  (init_str be s version INET_PTON = Ok r <-> denotes s r /\ (version = None \/ version = Some (fst r))).
Proof. intros Hv. unfold denotes. split.
  - intros H. assert (NS := init_ok_noslash _ _ _ _ _ H). unfold init_str in H.
    destruct Hv as [-> | [-> | ->]]; cbn [bind] in H; [|change (4 =? 4) with true in H|change (6 =? 4) with false in H; change (6 =? 6) with true in H];
      cbn [bind] in H; rewrite NS in H.
    + destruct (str_to_int be 4 s INET_PTON) as [v|e] eqn:E4.
      * injection H as <-. apply strict_dotted_quad in E4. destruct E4 as (a & b & c & d & D & ->).
        split; [left; exists a, b, c, d; auto|now left].
      * destruct (str_to_int be 6 s INET_PTON) as [v|e'] eqn:E6; [|discriminate]. injection H as <-.
        apply strict_rfc4291 in E6. destruct E6 as (g & D & ->). split; [right; eauto|now left].
    + destruct (str_to_int be 4 s INET_PTON) as [v|e] eqn:E4; [|destruct e; discriminate]. injection H as <-.
      apply strict_dotted_quad in E4. destruct E4 as (a & b & c & d & D & ->).
      split; [left; exists a, b, c, d; auto|now right].
    + destruct (str_to_int be 6 s INET_PTON) as [v|e] eqn:E6; [|destruct e; discriminate]. injection H as <-.
      apply strict_rfc4291 in E6. destruct E6 as (g & D & ->). split; [right; eauto|now right].
  - intros [[(a & b & c & d & D & ->)|(g & D & ->)] Hr]; cbn [fst] in Hr.
    + assert (NS : contains_char "/" s = false) by (eapply DottedQuad_no_slash; eauto).
      assert (E4 : str_to_int be 4 s INET_PTON = Ok (quad_value a b c d)) by (apply strict_dotted_quad; exists a, b, c, d; auto).
      unfold init_str. destruct Hr as [->| ->]; cbn [bind]; [|change (4 =? 4) with true]; cbn [bind]; rewrite NS, E4; reflexivity.
    + assert (NS : contains_char "/" s = false) by (eapply Rfc4291_no_slash; eauto).
      assert (E6 : str_to_int be 6 s INET_PTON = Ok (Std6.words_value g)) by (apply strict_rfc4291; eauto).
      assert (E4 : str_to_int be 4 s INET_PTON = Raise AddrFormatError).
      { apply strict_dotted_quad_reject. intros q Hq. eapply DottedQuad_not_Rfc4291; eauto. }
      unfold init_str. destruct Hr as [->| ->]; cbn [bind]; [|change (6 =? 4) with false; change (6 =? 6) with true];
        cbn [bind]; rewrite NS; [rewrite E4|]; rewrite E6; reflexivity. Qed.

(* ... and every string the grammars do not derive (for the requested version) is refused by an exception:
   AddrFormatError, or the documented ValueError for a string containing '/' *)
Theorem strict_constructor_reject be s version :
  version = None \/ version = Some 4 \/ version = Some 6 ->
  (forall r, ~ (denotes s r /\ (version = None \/ version = Some (fst r)))) ->
  exists e, init_str be s version INET_PTON = Raise e /\
            (e = AddrFormatError \/ (e = ValueError /\ contains_char "/" s = true)).
Proof. intros Hv H. destruct (init_str be s version INET_PTON) as [r|e] eqn:E.
  - exfalso. apply (H r). now apply (strict_constructor be s version r Hv).
  - exists e. split; [reflexivity|]. destruct (reject_kind _ _ _ _ _ E) as [->|(-> & [C|(v & -> & N4 & N6)])]; auto.
    exfalso. destruct Hv as [Q|[Q|Q]]; congruence. Qed.
