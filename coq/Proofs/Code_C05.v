(* Proofs/Code_C05.v — the C05 property theorems restated about the definitions regenerated from the source
   (Gen/pysrc_iprange_gen.v: src_iprange_to_cidrs; Gen/pysrc_merge_gen.v: src_cidr_merge, src_IPRange_cidrs).
   Each lemma is the model theorem of Proofs/C05*.v transported through Proofs/GenOk_Src_C05.v / GenOk_Src_C05_merge.v.
   The vocabulary of Proofs/NetDen.v (den, canon_nets, den_items: what a list of objects denotes, what canonical means) is
   built on nf / nl = first / last of an object; code_first_nf / code_last_nl say that these are, by conversion, the
   generated src_IPNetwork_first / src_IPNetwork_last. *)
From NV Require Import Base.Tac Base.PyVal Base.Bits Base.Canon Model.Ip Model.Partition Model.Span Model.Merge Model.Sets
  Model.SrcPrelude Gen.pysrc_gen Gen.pysrc_iprange_gen Gen.pysrc_merge_gen
  Proofs.C02 Proofs.NetDen Proofs.C05 Proofs.GenOk_Src_C05 Proofs.GenOk_Src_C05_merge Proofs.Code_C09.
From Coq Require Import Sorting.Permutation.
Import ListNotations.
Open Scope Z_scope.

Lemma code_first_nf n : code_first n = nf n. Proof. reflexivity. Qed.
Lemma code_last_nl n : code_last n = nl n. Proof. reflexivity. Qed.
Lemma code_vocabulary n ver x :
  nf n = code_first n /\ nl n = code_last n /\
  (in_net n ver x <-> nver n = ver /\ code_first n <= x <= code_last n) /\
  (hostfree n <-> nval n = code_first n) /\
  net_blk n = {| bv := code_first n; bp := nplen n |} /\
  (forall z, mi_first (MNet n) = code_first n /\ mi_last (MNet n) = code_last n /\
             mi_first (MRange ver x z) = x /\ mi_last (MRange ver x z) = z).
Proof.
  split; [reflexivity|]. split; [reflexivity|]. split; [reflexivity|]. split; [reflexivity|]. split; [reflexivity|].
  intros z. repeat split.
Qed.

(* ---- the ties, in the form used below ---- *)
Lemma code_iprange_tie s e : wf_net s -> src_iprange_to_cidrs s e = iprange_to_cidrs s e.
Proof. intros (Hv & _). apply src_iprange_to_cidrs_ok. exact Hv. Qed.
Lemma code_merge_tie items : Forall wf_mitem items -> src_cidr_merge items = cidr_merge items.
Proof. apply src_cidr_merge_wf. Qed.

Lemma wf_addr_net ver v : valid_ver ver = true -> 0 <= v < 2 ^ width ver -> wf_net (addr_net ver v).
Proof. intros Hv Hr. unfold wf_net, addr_net; cbn [nver nval nplen]. pose proof (width_nonneg ver). repeat split; try assumption; lia. Qed.

Lemma wf_mitem_perm xs ys : Permutation xs ys -> Forall wf_mitem xs -> Forall wf_mitem ys.
Proof. intros P H. rewrite Forall_forall in *. intros m I. apply H. apply (Permutation_in m (Permutation_sym P)). exact I. Qed.
Lemma wf_mitem_same xs ys : (forall m, In m xs <-> In m ys) -> Forall wf_mitem xs -> Forall wf_mitem ys.
Proof. intros S H. rewrite Forall_forall in *. intros m I. apply H. apply S. exact I. Qed.
Lemma canon_nets_mitems l : canon_nets l -> Forall wf_mitem (map MNet l).
Proof.
  intros (W & _). rewrite Forall_forall in *. intros m I. apply in_map_iff in I. destruct I as (n & <- & I).
  destruct (W n I) as (Wn & _). exact Wn.
Qed.

(* ---- iprange_to_cidrs ---- *)
Lemma code_range s e : wf_net s -> wf_net e -> nver s = nver e -> code_first s <= code_last e ->
  exists l, src_iprange_to_cidrs s e = Ok l /\ canon_nets l /\
    forall ver x, den l ver x <-> (ver = nver s /\ code_first s <= x <= code_last e).
Proof. intros Hs He Hv Hle. rewrite (code_iprange_tie s e Hs). exact (C05_range s e Hs He Hv Hle). Qed.

Lemma code_range_addrs ver lo hi : valid_ver ver = true -> 0 <= lo <= hi -> hi < 2 ^ width ver ->
  exists l, src_iprange_to_cidrs (addr_net ver lo) (addr_net ver hi) = Ok l /\
    src_IPRange_cidrs ver (width ver) lo hi = Ok l /\ canon_nets l /\
    forall v x, den l v x <-> v = ver /\ lo <= x <= hi.
Proof.
  intros Hv H1 H2. destruct (C05_range_addrs ver lo hi Hv H1 H2) as (l & R & C & D). exists l.
  rewrite (src_range_cidrs_ok ver (width ver) lo hi Hv), (code_iprange_tie _ _ (wf_addr_net ver lo Hv ltac:(lia))).
  split; [exact R|]. split; [exact R|]. split; [exact C|exact D].
Qed.

Lemma code_range_unique s e l l' : wf_net s -> wf_net e -> nver s = nver e -> code_first s <= code_last e ->
  src_iprange_to_cidrs s e = Ok l ->
  canon_nets l' -> (forall ver x, den l' ver x <-> (ver = nver s /\ code_first s <= x <= code_last e)) -> l' = l.
Proof. intros Hs He Hv Hle. rewrite (code_iprange_tie s e Hs). exact (C05_range_unique s e l l' Hs He Hv Hle). Qed.

Lemma code_range_minimal s e l l' : wf_net s -> wf_net e -> nver s = nver e -> code_first s <= code_last e ->
  src_iprange_to_cidrs s e = Ok l ->
  Forall wf_net l' -> (forall ver x, den l' ver x <-> (ver = nver s /\ code_first s <= x <= code_last e)) ->
  (length l <= length l')%nat.
Proof. intros Hs He Hv Hle. rewrite (code_iprange_tie s e Hs). exact (C05_range_minimal s e l l' Hs He Hv Hle). Qed.

(* ---- cidr_merge ---- *)
Lemma code_merge items : Forall wf_mitem items ->
  exists l, src_cidr_merge items = Ok l /\ canon_nets l /\ forall ver x, den l ver x <-> den_items items ver x.
Proof. intros H. rewrite (code_merge_tie items H). exact (C05_merge items H). Qed.

Lemma code_merge_unique items l l' : Forall wf_mitem items -> src_cidr_merge items = Ok l ->
  canon_nets l' -> (forall ver x, den l' ver x <-> den_items items ver x) -> l' = l.
Proof. intros H. rewrite (code_merge_tie items H). exact (C05_unique items l l' H). Qed.

Lemma code_merge_minimal items l l' : Forall wf_mitem items -> src_cidr_merge items = Ok l ->
  Forall wf_net l' -> (forall ver x, den l' ver x <-> den_items items ver x) ->
  (length (fam 4 l) <= length (fam 4 l'))%nat /\ (length (fam 6 l) <= length (fam 6 l'))%nat /\
  (length l <= length l')%nat.
Proof. intros H. rewrite (code_merge_tie items H). exact (C05_minimal items l l' H). Qed.

Lemma code_merge_perm xs ys : Forall wf_mitem xs -> Permutation xs ys -> src_cidr_merge xs = src_cidr_merge ys.
Proof.
  intros H P. rewrite (code_merge_tie xs H), (code_merge_tie ys (wf_mitem_perm xs ys P H)). exact (C05_perm_invariant xs ys H P).
Qed.

Lemma code_merge_dup xs ys : Forall wf_mitem xs -> (forall m, In m xs <-> In m ys) -> src_cidr_merge xs = src_cidr_merge ys.
Proof.
  intros H S. rewrite (code_merge_tie xs H), (code_merge_tie ys (wf_mitem_same xs ys S H)). exact (C05_dup_invariant xs ys H S).
Qed.

Lemma code_merge_ext xs ys : Forall wf_mitem xs -> Forall wf_mitem ys ->
  (forall ver x, den_items xs ver x <-> den_items ys ver x) -> src_cidr_merge xs = src_cidr_merge ys.
Proof. intros H H' D. rewrite (code_merge_tie xs H), (code_merge_tie ys H'). exact (C05_extensional xs ys H H' D). Qed.

Lemma code_merge_fixpoint l : canon_nets l -> src_cidr_merge (map MNet l) = Ok l.
Proof. intros C. rewrite (code_merge_tie _ (canon_nets_mitems l C)). exact (C05_canon_fixpoint l C). Qed.

Lemma code_merge_idempotent items l : Forall wf_mitem items -> src_cidr_merge items = Ok l ->
  src_cidr_merge (map MNet l) = Ok l.
Proof.
  intros H R. destruct (code_merge items H) as (l0 & R0 & C & _). rewrite R in R0. injection R0 as <-.
  exact (code_merge_fixpoint l C).
Qed.

Lemma code_merge_one_range ver lo hi : valid_ver ver = true -> 0 <= lo <= hi -> hi < 2 ^ width ver ->
  src_cidr_merge [MRange ver lo hi] = src_iprange_to_cidrs (addr_net ver lo) (addr_net ver hi).
Proof.
  intros Hv H1 H2. rewrite (code_iprange_tie _ _ (wf_addr_net ver lo Hv ltac:(lia))).
  rewrite code_merge_tie; [exact (C05_merge_one_range ver lo hi Hv H1 H2)|].
  constructor; [|constructor]. cbn. repeat split; try assumption; lia.
Qed.
