(* Proofs/GenOk_Prefix.v -- the prefix <-> mask dictionaries that netaddr/strategy/ipv4.py and ipv6.py build at import time,
   as regenerated from the working tree on every run (coq/Gen/prefix_gen.v: item lists sorted by prefix), are the tables of
   Model/Ip.v that the model of parse_ip_network / NOHOST / the netmask setter reads (Model/NetText.v: prefix_to_netmask,
   netmask_to_prefix, hostmask_to_prefix through dict_get).  Closed terms: 2 x 4 tables of 33 / 129 rows, by computation. *)
From NV Require Import Base.Tac Base.PyVal Model.Ip Model.NetText Gen.prefix_gen.
Import ListNotations.
Open Scope Z_scope.

Lemma prefix_tables_v4_ok :
  gen_ipv4_width = width 4 /\
  gen_ipv4_prefix_to_netmask = prefix_to_netmask_tab (width 4) /\
  gen_ipv4_netmask_to_prefix = swap_pairs (prefix_to_netmask_tab (width 4)) /\
  gen_ipv4_prefix_to_hostmask = prefix_to_hostmask_tab (width 4) /\
  gen_ipv4_hostmask_to_prefix = swap_pairs (prefix_to_hostmask_tab (width 4)).
Proof. repeat split; vm_compute; reflexivity. Qed.

Lemma prefix_tables_v6_ok :
  gen_ipv6_width = width 6 /\
  gen_ipv6_prefix_to_netmask = prefix_to_netmask_tab (width 6) /\
  gen_ipv6_netmask_to_prefix = swap_pairs (prefix_to_netmask_tab (width 6)) /\
  gen_ipv6_prefix_to_hostmask = prefix_to_hostmask_tab (width 6) /\
  gen_ipv6_hostmask_to_prefix = swap_pairs (prefix_to_hostmask_tab (width 6)).
Proof. repeat split; vm_compute; reflexivity. Qed.

(* hence every lookup the model makes is the lookup in the loaded dictionary *)
Lemma prefix_lookups_ok :
  (forall k, dict_get k gen_ipv4_prefix_to_netmask = prefix_to_netmask (width 4) k) /\
  (forall k, dict_get k gen_ipv4_netmask_to_prefix = netmask_to_prefix (width 4) k) /\
  (forall k, dict_get k gen_ipv4_hostmask_to_prefix = hostmask_to_prefix (width 4) k) /\
  (forall k, dict_get k gen_ipv6_prefix_to_netmask = prefix_to_netmask (width 6) k) /\
  (forall k, dict_get k gen_ipv6_netmask_to_prefix = netmask_to_prefix (width 6) k) /\
  (forall k, dict_get k gen_ipv6_hostmask_to_prefix = hostmask_to_prefix (width 6) k).
Proof.
  destruct prefix_tables_v4_ok as (_ & a1 & a2 & _ & a4), prefix_tables_v6_ok as (_ & b1 & b2 & _ & b4).
  unfold prefix_to_netmask, netmask_to_prefix, hostmask_to_prefix.
  rewrite a1, a2, a4, b1, b2, b4. repeat split; reflexivity.
Qed.
