(* Proofs/Code_C14.v — the C14 property theorems restated about the definitions regenerated from the source
   (Gen/pysrc_gen.v: IPAddress.__add__ __sub__ __rsub__ __iadd__ __isub__ __or__ __and__ __xor__ __lshift__ __rshift__
   __int__ __index__ __nonzero__; Gen/pysrc_ctor_gen.v: IPAddress.__init__ on an int / on an IPAddress;
   Gen/pysrc_ipviews_gen.v: IPAddress.__hex__).
   Each lemma is the model theorem of Proofs/C14.v transported through Proofs/GenOk_Src_C14.v, GenOk_Src_C14_ctor.v and
   (for __hex__) GenOk_Src_C15_views.v.  A generated method takes the receiver's state (ver, w, v) first; the in-place forms
   answer the value they assign to self._value, AddrOps.inplace turns that into (what the name is bound to, receiver
   afterwards).  code_operand_int is `int(other)` of the bitwise forms through the generated __int__. *)
From Coq Require Import String Ascii.
From NV Require Import Base.Tac Base.PyVal Base.Bits Model.Ip Model.AddrOps
  Gen.pysrc_gen Gen.pysrc_ctor_gen Gen.pysrc_ipviews_gen
  Proofs.C02 Proofs.C14 Proofs.GenOk_Src_C14 Proofs.GenOk_Src_C14_ctor Proofs.GenOk_Src_C15_views.
Import ListNotations.
Open Scope Z_scope.

Definition code_operand_int (o : operand) : Z :=
  match o with OInt n => n | OAddr ver v => src_IPAddress_int ver (width ver) v end.
Lemma code_operand_int_eq o : code_operand_int o = operand_int o.
Proof. destruct o; reflexivity. Qed.
Lemma code_operand_int_spec o : code_operand_int o = match o with OInt n => n | OAddr _ v => v end.
Proof. destruct o; reflexivity. Qed.

(* ---- width level, any version tag and any width: the in-place forms ---- *)
Lemma code_arith_w ver w v n :
  checked w (v + n) IndexError (src_IPAddress_iadd ver w v n) /\
  checked w (v - n) IndexError (src_IPAddress_isub ver w v n).
Proof.
  rewrite src_iadd_ok, src_isub_ok. pose proof (arith_w w v n) as (_ & _ & A & _ & B & _). split; assumption.
Qed.

(* ---- the constructors ---- *)
Lemma code_ctor_int_spec i flags :
  (0 <= i < 2 ^ 32 -> src_IPAddress_init_int i None flags = Ok (4, i)) /\
  (2 ^ 32 <= i < 2 ^ 128 -> src_IPAddress_init_int i None flags = Ok (6, i)) /\
  (i < 0 \/ 2 ^ 128 <= i -> src_IPAddress_init_int i None flags = Raise AddrFormatError) /\
  (forall ver, valid_ver ver = true -> ochecked ver i AddrFormatError (src_IPAddress_init_int i (Some ver) flags)) /\
  (forall ver, valid_ver ver = false -> src_IPAddress_init_int i (Some ver) flags = Raise ValueError).
Proof.
  destruct (ctor_int_spec i) as (A & B & C & D & E).
  split; [rewrite src_init_int_ok; exact A|]. split; [rewrite src_init_int_ok; exact B|].
  split; [rewrite src_init_int_ok; exact C|].
  split; intros ver Hv; rewrite src_init_int_ok; [exact (D ver Hv)|exact (E ver Hv)].
Qed.

Lemma code_ctor_copy_spec ver v version flags :
  ((version = None \/ version = Some ver) -> src_IPAddress_init_copy (ver, v) version flags = Ok (ver, v)) /\
  (forall ver', version = Some ver' -> ver' <> ver -> src_IPAddress_init_copy (ver, v) version flags = Raise ValueError).
Proof. rewrite src_init_copy_ok. exact (ctor_copy_spec ver v version). Qed.

Lemma code_ctor_no_wrap i version flags a b : src_IPAddress_init_int i version flags = Ok (a, b) ->
  b = i /\ (a = 4 \/ a = 6) /\ 0 <= b < 2 ^ width a /\ (forall ver, version = Some ver -> a = ver) /\
  (version = None -> (a = 4 <-> i < 2 ^ 32)).
Proof. rewrite src_init_int_ok. exact (ctor_no_wrap i version a b). Qed.

(* ---- object level ---- *)
Lemma code_obj_arith ver v n : valid_ver ver = true ->
  let w := width ver in
  ochecked ver (v + n) IndexError (src_IPAddress_add ver w v n) /\
  ochecked ver (v - n) IndexError (src_IPAddress_sub ver w v n) /\
  ochecked ver (n - v) IndexError (src_IPAddress_rsub ver w v n) /\
  ichecked ver v (v + n) IndexError (inplace ver v (src_IPAddress_iadd ver w v n)) /\
  ichecked ver v (v - n) IndexError (inplace ver v (src_IPAddress_isub ver w v n)).
Proof.
  intros Hv. cbv zeta. rewrite src_add_ok, src_sub_ok, src_rsub_ok, src_obj_iadd_ok, src_obj_isub_ok.
  destruct (obj_arith ver v n Hv) as (A & _ & B & C & D & E).
  split; [exact A|]. split; [exact B|]. split; [exact C|]. split; [exact D|exact E].
Qed.

Lemma code_obj_bitwise ver v o n : valid_ver ver = true ->
  let w := width ver in
  ochecked ver (Z.lor v (code_operand_int o)) AddrFormatError (src_IPAddress_or ver w v (code_operand_int o)) /\
  ochecked ver (Z.land v (code_operand_int o)) AddrFormatError (src_IPAddress_and ver w v (code_operand_int o)) /\
  ochecked ver (Z.lxor v (code_operand_int o)) AddrFormatError (src_IPAddress_xor ver w v (code_operand_int o)) /\
  (0 <= n -> ochecked ver (v * 2 ^ n) AddrFormatError (src_IPAddress_lshift ver w v n)) /\
  (0 <= n -> ochecked ver (v / 2 ^ n) AddrFormatError (src_IPAddress_rshift ver w v n)) /\
  (n < 0 -> src_IPAddress_lshift ver w v n = Raise ValueError /\ src_IPAddress_rshift ver w v n = Raise ValueError).
Proof.
  intros Hv. cbv zeta. rewrite code_operand_int_eq, src_or_ok, src_and_ok, src_xor_ok, src_lshift_ok, src_rshift_ok.
  exact (obj_bitwise ver v o n Hv).
Qed.

Lemma code_obj_bitwise_total ver v o n : valid_ver ver = true -> 0 <= v < 2 ^ width ver ->
  let w := width ver in
  (0 <= code_operand_int o < 2 ^ width ver ->
     src_IPAddress_or ver w v (code_operand_int o) = Ok (ver, Z.lor v (code_operand_int o)) /\
     src_IPAddress_xor ver w v (code_operand_int o) = Ok (ver, Z.lxor v (code_operand_int o))) /\
  src_IPAddress_and ver w v (code_operand_int o) = Ok (ver, Z.land v (code_operand_int o)) /\
  (0 <= n -> src_IPAddress_rshift ver w v n = Ok (ver, v / 2 ^ n)).
Proof.
  intros Hv Hr. cbv zeta. rewrite code_operand_int_eq, src_or_ok, src_and_ok, src_xor_ok, src_rshift_ok.
  exact (obj_bitwise_total ver v o n Hv Hr).
Qed.

Lemma code_no_wrap ver v n o a b :
  let w := width ver in
  src_IPAddress_add ver w v n = Ok (a, b) \/ src_IPAddress_sub ver w v n = Ok (a, b) \/
  src_IPAddress_rsub ver w v n = Ok (a, b) \/ src_IPAddress_or ver w v (code_operand_int o) = Ok (a, b) \/
  src_IPAddress_and ver w v (code_operand_int o) = Ok (a, b) \/
  src_IPAddress_xor ver w v (code_operand_int o) = Ok (a, b) \/ src_IPAddress_lshift ver w v n = Ok (a, b) \/
  src_IPAddress_rshift ver w v n = Ok (a, b) \/
  fst (inplace ver v (src_IPAddress_iadd ver w v n)) = Ok (a, b) \/
  fst (inplace ver v (src_IPAddress_isub ver w v n)) = Ok (a, b) ->
  a = ver /\ 0 <= b < 2 ^ width ver.
Proof.
  cbv zeta. rewrite code_operand_int_eq, src_add_ok, src_sub_ok, src_rsub_ok, src_or_ok, src_and_ok, src_xor_ok,
    src_lshift_ok, src_rshift_ok, src_obj_iadd_ok, src_obj_isub_ok.
  intros H. apply (no_wrap ver v n o a b). tauto.
Qed.

(* ---- views ---- *)
Lemma code_views_spec ver w v : 0 <= v ->
  src_IPAddress_int ver w v = v /\ src_IPAddress_index ver w v = v /\ (src_IPAddress_nonzero ver w v = true <-> v <> 0) /\
  exists ds, src_IPAddress_hex ver w v = Ok (String "0" (String "x" (string_of_list_ascii (map hex_digit ds)))) /\
             Forall is_digit ds /\ eval16 ds = v /\
             eval16 (map hex_val (list_ascii_of_string (string_of_list_ascii (map hex_digit ds)))) = v /\
             ((v = 0 /\ ds = [0]) \/ (v <> 0 /\ exists d t, ds = d :: t /\ d <> 0)).
Proof.
  intros Hv. rewrite src_int_ok, src_index_ok, src_nonzero_ok, src_hex_ok. exact (views_spec v Hv).
Qed.
