(* Proofs/GenOk_Src_C02.v — source tie for C02: the definitions regenerated from the text of IPNetwork's attribute
   properties, IPAddress.is_hostmask/is_netmask and the two setters equal the hand-written model of Model/Ip.v.
   `..._ok` lemmas hold for ALL arguments (the terms are convertible, or differ by a case split); where the Python
   method rebuilds its result through a constructor the model value appears under that constructor (mk_addr / mk_net),
   and the `..._wf` corollaries discharge the constructor's redundant range check for a well-formed network. *)
From NV Require Import Base.Tac Base.PyVal Base.Bits Model.Ip Model.SrcPrelude Gen.pysrc_gen Proofs.C02 Proofs.GenOk_Src_Const.
Open Scope Z_scope.

Lemma src_hostmask_int_ok ver w v p : src_IPNetwork_hostmask_int ver w v p = hostmask_int w p.
Proof. reflexivity. Qed.
Lemma src_netmask_int_ok ver w v p : src_IPNetwork_netmask_int ver w v p = netmask_int w p.
Proof. reflexivity. Qed.
Lemma src_first_ok ver w v p : src_IPNetwork_first ver w v p = net_first w v p.
Proof. reflexivity. Qed.
Lemma src_last_ok ver w v p : src_IPNetwork_last ver w v p = net_last w v p.
Proof. reflexivity. Qed.
Lemma src_size_ok ver w v p : src_IPNetwork_size ver w v p = net_size w v p.
Proof. reflexivity. Qed.
Lemma src_network_ok ver w v p : src_IPNetwork_network ver w v p = mk_addr ver (net_network w v p).
Proof. reflexivity. Qed.
Lemma src_netmask_ok ver w v p : src_IPNetwork_netmask ver w v p = mk_addr ver (net_netmask w p).
Proof. reflexivity. Qed.
Lemma src_hostmask_ok ver w v p : src_IPNetwork_hostmask ver w v p = mk_addr ver (net_hostmask w p).
Proof. reflexivity. Qed.
Lemma src_ip_ok ver w v p : src_IPNetwork_ip ver w v p = mk_addr ver (net_ip v).
Proof. reflexivity. Qed.
Lemma src_cidr_ok ver w v p :
  src_IPNetwork_cidr ver w v p = mk_net ver (fst (net_cidr w v p)) (snd (net_cidr w v p)).
Proof. reflexivity. Qed.
Lemma src_broadcast_ok ver v p :
  src_IPNetwork_broadcast ver (width ver) v p =
    match net_broadcast ver v p with None => Ok None | Some b => omap Some (mk_addr ver b) end.
Proof. unfold src_IPNetwork_broadcast, net_broadcast. destruct ((ver =? 4) && (width ver - p <=? 1)); reflexivity. Qed.
Lemma src_is_hostmask_ok ver w v : src_IPAddress_is_hostmask ver w v = is_hostmask v.
Proof. reflexivity. Qed.
Lemma src_is_netmask_ok ver w v : src_IPAddress_is_netmask ver w v = is_netmask w v.
Proof. reflexivity. Qed.

(* the setters: the generated definition returns the value stored into the assigned attribute *)
Lemma src_set_value_ok n a :
  omap (fun z => {| nver := nver n; nval := z; nplen := nplen n |})
       (src_BaseIP_set_value (nver n) (width (nver n)) (nval n) a) = set_value n a.
Proof.
  destruct a as [z| |]; try reflexivity. unfold src_BaseIP_set_value, set_value, in_range_w.
  destruct ((0 <=? z) && (z <=? max_int_w (width (nver n)))); reflexivity.
Qed.
Lemma src_set_prefixlen_ok n a :
  omap (fun z => {| nver := nver n; nval := nval n; nplen := z |})
       (src_IPNetwork_set_prefixlen (nver n) (width (nver n)) (nval n) (nplen n) a) = set_prefixlen n a.
Proof.
  destruct a as [z| |]; try reflexivity. unfold src_IPNetwork_set_prefixlen, set_prefixlen.
  destruct ((0 <=? z) && (z <=? width (nver n))); reflexivity.
Qed.

(* ---- IPAddress.netmask_bits: the `while i_val > 0` loop (generated Fixpoint on fuel) is Ip.nb_loop, whose `None` is the
   generated loop's `Raise OutOfFuel`; the fuel `Z.to_nat w + 2` comes from the translator's FUEL table.  No hypothesis. ---- *)
Lemma src_netmask_bits_loop_ok fuel numbits i_val :
  src_IPAddress_netmask_bits_loop1 fuel numbits i_val =
    match nb_loop fuel i_val numbits with None => Raise OutOfFuel | Some n => Ok n end.
Proof.
  revert numbits i_val. induction fuel as [|f IH]; intros numbits i_val; [reflexivity|].
  cbn [src_IPAddress_netmask_bits_loop1 nb_loop].
  destruct (i_val >? 0); [|reflexivity]. destruct (Z.land i_val 1 =? 1); [reflexivity|]. apply IH.
Qed.
Lemma src_netmask_bits_ok ver w v : src_IPAddress_netmask_bits ver w v = netmask_bits w v.
Proof.
  unfold src_IPAddress_netmask_bits, netmask_bits. change (src_IPAddress_is_netmask ver w v) with (is_netmask w v).
  destruct (negb (is_netmask w v)); [reflexivity|]. destruct (v =? 0); [reflexivity|].
  cbv zeta. rewrite src_netmask_bits_loop_ok. destruct (nb_loop (Z.to_nat w + 2) v 0) as [n|]; [|reflexivity].
  cbn [bind]. destruct ((0 <=? w - n) && (w - n <=? w)); reflexivity.
Qed.

(* ---- well-formed network: the constructor's range check is redundant, the result is the model value ---- *)
Section Wf.
Variables ver v p : Z.
Hypothesis Hver : valid_ver ver = true.
Hypothesis Hp : 0 <= p <= width ver.
Hypothesis Hv : 0 <= v < 2 ^ width ver.
Let w := width ver.

Lemma src_network_wf : src_IPNetwork_network ver w v p = Ok (ver, net_network w v p).
Proof.
  rewrite src_network_ok. apply mk_addr_ok; [exact Hver|]. apply in_range_w_iff.
  pose proof (identities_w w v p Hp Hv) as I. cbn zeta in I. fold w. lia.
Qed.
Lemma src_netmask_wf : src_IPNetwork_netmask ver w v p = Ok (ver, net_netmask w p).
Proof.
  rewrite src_netmask_ok. apply mk_addr_ok; [exact Hver|]. apply in_range_w_iff.
  pose proof (identities_w w v p Hp Hv) as I. cbn zeta in I. pose proof (hm_bounds w p Hp). fold w. lia.
Qed.
Lemma src_hostmask_wf : src_IPNetwork_hostmask ver w v p = Ok (ver, net_hostmask w p).
Proof.
  rewrite src_hostmask_ok. apply mk_addr_ok; [exact Hver|]. apply in_range_w_iff.
  pose proof (identities_w w v p Hp Hv) as I. cbn zeta in I. pose proof (hm_bounds w p Hp). fold w. lia.
Qed.
Lemma src_ip_wf : src_IPNetwork_ip ver w v p = Ok (ver, net_ip v).
Proof. rewrite src_ip_ok. apply mk_addr_ok; [exact Hver|]. apply in_range_w_iff. exact Hv. Qed.
Lemma src_broadcast_wf :
  src_IPNetwork_broadcast ver w v p = Ok (option_map (fun b => (ver, b)) (net_broadcast ver v p)).
Proof.
  unfold w. rewrite src_broadcast_ok. pose proof (broadcast_eq ver v p Hver Hp Hv) as B. rewrite B.
  destruct ((ver =? 4) && (31 <=? p)); [reflexivity|]. cbn [option_map].
  rewrite mk_addr_ok; [reflexivity|exact Hver|]. apply in_range_w_iff.
  pose proof (identities_w w v p Hp Hv) as I. cbn zeta in I. fold w. lia.
Qed.
Lemma src_cidr_wf :
  src_IPNetwork_cidr ver w v p = Ok {| nver := ver; nval := fst (net_cidr w v p); nplen := snd (net_cidr w v p) |}.
Proof.
  rewrite src_cidr_ok. unfold mk_net. rewrite Hver.
  pose proof (identities_w w v p Hp Hv) as I. cbn zeta in I.
  replace (net_cidr w v p) with (v - v mod 2 ^ (w - p), p) by (symmetry; apply I). cbn [fst snd].
  unfold max_int, max_int_w. fold w.
  replace ((0 <=? v - v mod 2 ^ (w - p)) && (v - v mod 2 ^ (w - p) <=? 2 ^ w - 1)) with true by lia.
  replace ((0 <=? p) && (p <=? w)) with true by (unfold w; lia). reflexivity.
Qed.
End Wf.

(* everything the C02 source tie states, as one conjunction (Props/C02_src.v) *)
Lemma C02_tie_ok :
  (forall ver w v, src_IPAddress_netmask_bits ver w v = netmask_bits w v) /\
  (forall fuel numbits i_val,
     src_IPAddress_netmask_bits_loop1 fuel numbits i_val =
       match nb_loop fuel i_val numbits with None => Raise OutOfFuel | Some n => Ok n end) /\
  (forall ver w v p,
     src_IPNetwork_hostmask_int ver w v p = hostmask_int w p /\
     src_IPNetwork_netmask_int ver w v p = netmask_int w p /\
     src_IPNetwork_first ver w v p = net_first w v p /\
     src_IPNetwork_last ver w v p = net_last w v p /\
     src_IPNetwork_size ver w v p = net_size w v p /\
     src_IPNetwork_network ver w v p = mk_addr ver (net_network w v p) /\
     src_IPNetwork_netmask ver w v p = mk_addr ver (net_netmask w p) /\
     src_IPNetwork_hostmask ver w v p = mk_addr ver (net_hostmask w p) /\
     src_IPNetwork_ip ver w v p = mk_addr ver (net_ip v) /\
     src_IPNetwork_cidr ver w v p = mk_net ver (fst (net_cidr w v p)) (snd (net_cidr w v p))) /\
  (forall ver v p,
     src_IPNetwork_broadcast ver (width ver) v p =
       match net_broadcast ver v p with None => Ok None | Some b => omap Some (mk_addr ver b) end) /\
  (forall ver w v, src_IPAddress_is_hostmask ver w v = is_hostmask v /\ src_IPAddress_is_netmask ver w v = is_netmask w v) /\
  (forall n a,
     omap (fun z => {| nver := nver n; nval := z; nplen := nplen n |})
          (src_BaseIP_set_value (nver n) (width (nver n)) (nval n) a) = set_value n a /\
     omap (fun z => {| nver := nver n; nval := nval n; nplen := z |})
          (src_IPNetwork_set_prefixlen (nver n) (width (nver n)) (nval n) (nplen n) a) = set_prefixlen n a) /\
  (forall ver v p, valid_ver ver = true -> 0 <= p <= width ver -> 0 <= v < 2 ^ width ver ->
     let w := width ver in
     src_IPNetwork_network ver w v p = Ok (ver, net_network w v p) /\
     src_IPNetwork_netmask ver w v p = Ok (ver, net_netmask w p) /\
     src_IPNetwork_hostmask ver w v p = Ok (ver, net_hostmask w p) /\
     src_IPNetwork_ip ver w v p = Ok (ver, net_ip v) /\
     src_IPNetwork_broadcast ver w v p = Ok (option_map (fun b => (ver, b)) (net_broadcast ver v p)) /\
     src_IPNetwork_cidr ver w v p = Ok {| nver := ver; nval := fst (net_cidr w v p); nplen := snd (net_cidr w v p) |}) /\
  (src_ipv4_version = 4 /\ src_ipv6_version = 6 /\
   src_ipv4_width = width src_ipv4_version /\ src_ipv6_width = width src_ipv6_version /\
   src_ipv4_max_int = max_int_w src_ipv4_width /\ src_ipv6_max_int = max_int_w src_ipv6_width /\
   src_ipv4_max_int = max_int 4 /\ src_ipv6_max_int = max_int 6).
Proof.
  split; [exact src_netmask_bits_ok|]. split; [exact src_netmask_bits_loop_ok|].
  split; [intros; repeat split; reflexivity|].
  split; [exact src_broadcast_ok|]. split; [intros; split; reflexivity|].
  split; [intros; split; [apply src_set_value_ok|apply src_set_prefixlen_ok]|].
  split; [|exact src_consts_ok].
  intros ver v p Hver Hp Hv. cbn zeta.
  split; [apply src_network_wf; assumption|]. split; [apply (src_netmask_wf ver v p); assumption|].
  split; [apply (src_hostmask_wf ver v p); assumption|]. split; [apply src_ip_wf; assumption|].
  split; [apply src_broadcast_wf; assumption|apply src_cidr_wf; assumption].
Qed.
