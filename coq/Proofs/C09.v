(* Proofs/C09.v — cidr_partition / cidr_exclude split a block exactly around the excluded part.
   Vocabulary: Base/Canon.v (blk, aligned, covered, canon).  A model block (value, prefixlen) is read as the
   Canon block {| bv := value; bp := prefixlen |} by blk_of. *)
From NV Require Import Base.Tac Base.PyVal Base.Bits Base.Canon Model.Ip Model.Partition Proofs.C02.
From Coq Require Import Sorting.Sorted.
Open Scope Z_scope.

Definition blk_of (c : cblk) : blk := {| bv := fst c; bp := snd c |}.
Definition blks_of (l : list cblk) : list blk := map blk_of l.

(* a network object of the family of width w: value in range, prefix in range, host bits allowed *)
Definition wf_cblk (w : Z) (c : cblk) : Prop := 0 <= fst c < 2 ^ w /\ 0 <= snd c <= w.

Definition first_of (w : Z) (c : cblk) : Z := fst c - fst c mod 2 ^ (w - snd c).
Definition last_of (w : Z) (c : cblk) : Z := first_of w c + 2 ^ (w - snd c) - 1.
Definition cidr_of (w : Z) (c : cblk) : cblk := (first_of w c, snd c).

(* pairwise distinct prefix lengths, all longer than tp *)
Definition distinct_finer (tp : Z) (l : list cblk) : Prop :=
  NoDup (map snd l) /\ Forall (fun c => tp < snd c) l.

(* ---------------------------------------------------------------- generic list facts *)
Section Lists.
Context {A : Type}.

Lemma SS_app (R : A -> A -> Prop) l1 l2 :
  StronglySorted R l1 -> StronglySorted R l2 -> (forall a b, In a l1 -> In b l2 -> R a b) ->
  StronglySorted R (l1 ++ l2).
Proof.
  intros S1 S2 H. induction S1 as [|a l1 S1 IH F]; cbn; [exact S2|].
  constructor.
  - apply IH. intros; apply H; auto. now right.
  - rewrite Forall_forall in *. intros x Hx. apply in_app_or in Hx. destruct Hx; [auto|apply H; auto; now left].
Qed.

Lemma SS_rev (R : A -> A -> Prop) l : StronglySorted R l -> StronglySorted (fun a b => R b a) (rev l).
Proof.
  intros S. induction S as [|a l S IH F]; cbn; [constructor|].
  apply SS_app; [exact IH|repeat constructor|].
  intros x y Hx [<-|[]]. rewrite Forall_forall in F. apply F. apply in_rev. exact Hx.
Qed.

Lemma SS_map {B} (f : A -> B) (R : A -> A -> Prop) (R' : B -> B -> Prop) l :
  (forall a b, R a b -> R' (f a) (f b)) -> StronglySorted R l -> StronglySorted R' (map f l).
Proof.
  intros H S. induction S as [|a l S IH F]; cbn; constructor; [exact IH|].
  rewrite Forall_forall in *. intros y Hy. apply in_map_iff in Hy. destruct Hy as (x & <- & Hx). auto.
Qed.

Lemma SS_weaken (R R' : A -> A -> Prop) l :
  (forall a b, R a b -> R' a b) -> StronglySorted R l -> StronglySorted R' l.
Proof. intros H S. rewrite <- (map_id l). apply (SS_map (fun x => x) R R'); assumption. Qed.

(* a key that changes strictly along a strongly sorted list is injective on it *)
Lemma SS_key_inj (R : A -> A -> Prop) (g : A -> Z) l :
  (forall a b, R a b -> g a <> g b) -> StronglySorted R l ->
  forall a b, In a l -> In b l -> g a = g b -> a = b.
Proof.
  intros H S. induction S as [|c l S IH F]; intros a b Ha Hb E; [destruct Ha|].
  rewrite Forall_forall in F.
  destruct Ha as [<-|Ha], Hb as [<-|Hb]; auto.
  - exfalso. apply (H _ _ (F _ Hb)). exact E.
  - exfalso. apply (H _ _ (F _ Ha)). symmetry. exact E.
Qed.

Lemma SS_key_nodup (R : A -> A -> Prop) (g : A -> Z) l :
  (forall a b, R a b -> g a <> g b) -> StronglySorted R l -> NoDup (map g l).
Proof.
  intros H S. induction S as [|c l S IH F]; cbn; constructor; [|exact IH].
  rewrite Forall_forall in F. intros Hin. apply in_map_iff in Hin. destruct Hin as (x & E & Hx).
  apply (H _ _ (F _ Hx)). symmetry. exact E.
Qed.
End Lists.

(* two aligned blocks, the finer one overlapping the coarser one, are nested *)
Lemma nested_of_overlap e S tf ef :
  0 < e -> (e | S) -> 0 < S -> (S | tf) -> (e | ef) ->
  tf <= ef + e - 1 -> ef <= tf + S - 1 -> tf <= ef /\ ef + e <= tf + S.
Proof.
  intros He [k Hk] HS [m Hm] [n Hn] H1 H2. subst S tf ef.
  assert (0 < k) by nia.
  assert (m * k <= n) by nia.
  assert (n + 1 <= (m + 1) * k) by nia.
  split; nia.
Qed.

Section W.
Variable w : Z.
Hypothesis Hw : 0 <= w.

Definition csize (c : cblk) : Z := 2 ^ (w - snd c).
Definition cin (c : cblk) (x : Z) : Prop := fst c <= x < fst c + csize c.

Lemma net_of_tuple_ok v p : 0 <= v < 2 ^ w -> 0 <= p <= w -> net_of_tuple w v p = Ok (v, p).
Proof.
  intros Hv Hp. unfold net_of_tuple, max_int_w.
  case_leb 0 v; [|lia]. case_leb v (2 ^ w - 1); [|lia]. case_leb 0 p; [|lia]. case_leb p w; [|lia]. reflexivity.
Qed.

(* ---------------------------------------------------------------- the halving loop *)
Section Loop.
Variables ev ep : Z.
Hypothesis Hep : 0 <= ep <= w.
Hypothesis Hev : 0 <= ev < 2 ^ w.

(* what one side collects while the loop runs from prefix q over the address interval [lo, hi) *)
Definition piece (q lo hi : Z) (c : cblk) : Prop :=
  q <= snd c <= ep /\ (csize c | fst c) /\ lo <= fst c /\ fst c + csize c <= hi.
Definition asc (a b : cblk) : Prop := fst a + csize a <= fst b /\ snd a < snd b.
Definition desc (a b : cblk) : Prop := fst b + csize b <= fst a /\ snd a < snd b.
Definition side_ok (R : cblk -> cblk -> Prop) (q lo hi : Z) (d : list cblk) : Prop :=
  Forall (piece q lo hi) d /\ StronglySorted R d /\ (forall x, lo <= x < hi -> exists c, In c d /\ cin c x).

Lemma piece_weaken q lo hi q' lo' hi' c : q' <= q -> lo' <= lo -> hi <= hi' -> piece q lo hi c -> piece q' lo' hi' c.
Proof. unfold piece. intros ? ? ? (? & ? & ? & ?). repeat split; try assumption; lia. Qed.

Lemma side_nil R q lo hi : hi <= lo -> side_ok R q lo hi [].
Proof. intros H. split; [constructor|split; [constructor|]]. intros x Hx. lia. Qed.

Let ef := floor2 ev (w - ep).
Let E := 2 ^ (w - ep).

(* Invariant at the loop head with new_prefixlen = q: the block [lo, lo + 2^(w-(q-1))) of prefix q-1 is aligned,
   in range and contains the exclude block [ef, ef+E).  The loop then appends dl to left and dr to right:
   dl is the ascending decomposition of [lo, ef) with strictly increasing prefixes >= q,
   dr the descending decomposition of [ef+E, end of the block) with strictly increasing prefixes >= q. *)
Lemma loop_spec : forall (fuel : nat) q lo l r,
  1 <= q -> q - 1 <= ep -> (2 ^ (w - (q - 1)) | lo) -> 0 <= lo -> lo + 2 ^ (w - (q - 1)) <= 2 ^ w ->
  lo <= ef -> ef + E <= lo + 2 ^ (w - (q - 1)) ->
  Z.of_nat fuel > ep - q + 1 ->
  exists dl dr, part_loop fuel w ev ep q lo (lo + 2 ^ (w - q)) l r = Ok (l ++ dl, r ++ dr) /\
    side_ok asc q lo ef dl /\ side_ok desc q (ef + E) (lo + 2 ^ (w - (q - 1))) dr.
Proof.
  assert (Hde: (E | ef)) by (apply floor2_divide; lia).
  assert (HEpos: 0 < E) by (apply pow2_pos; lia).
  induction fuel as [|f IH]; intros q lo l r Hq Hqe Hdl Hlo0 Hrng Hlo Hhi Hfuel; [lia|].
  cbn [part_loop]. rewrite (net_first_eq w ev ep Hep Hev). fold ef.
  destruct (Z.geb_spec ep q) as [Hge|Hlt].
  2:{ (* loop condition false: q - 1 = ep, the current block is E itself *)
    replace (q - 1) with ep in * by lia. fold E in Hdl, Hrng, Hhi |- *.
    assert (ef = lo). { destruct Hde as [a Ha]. destruct Hdl as [b Hb]. nia. }
    exists [], []. rewrite !app_nil_r. split; [reflexivity|]. split; apply side_nil; lia. }
  assert (Hq1: q <= w) by lia.
  set (T := 2 ^ (w - q)). assert (HT: 0 < T) by (apply pow2_pos; lia).
  assert (HC: 2 ^ (w - (q - 1)) = 2 * T).
  { unfold T. replace (w - (q - 1)) with (w - q + 1) by lia. apply pow2_succ. lia. }
  rewrite HC in *.
  assert (HdT: (T | lo)). { eapply Z.divide_trans; [|exact Hdl]. exists 2; ring. }
  assert (HET: (E | T)). { unfold E, T. apply pow2_divide. lia. }
  (* E lies entirely in one half *)
  assert (Hhalf: ef + E <= lo + T \/ lo + T <= ef).
  { destruct HET as [k Hk]. destruct Hde as [a Ha]. destruct HdT as [b Hb].
    rewrite Hk, Ha, Hb in *. destruct (Z_lt_le_dec a (b * k + k)); [left|right]; nia. }
  assert (Hpow: 2 ^ w = 2 ^ w) by reflexivity.
  destruct (Z.geb_spec ef (lo + T)) as [Hup|Hdown].
  - (* E in the upper half: the lower half (lo, q) goes to the left list *)
    rewrite (net_of_tuple_ok lo q) by lia. cbn [bind].
    assert (P0: piece q lo ef (lo, q)).
    { unfold piece, csize; cbn [fst snd]. fold T. repeat split; try lia. exact HdT. }
    destruct (Z.gtb_spec (q + 1) w) as [Hbrk|Hcont].
    + (* break: q = w, T = 1, the upper half is the single address E *)
      assert (Hqw: q = w) by lia. assert (Hepw: ep = w) by lia.
      assert (HT1: T = 1) by (unfold T; replace (w - q) with 0 by lia; reflexivity).
      assert (HE1: E = 1) by (unfold E; replace (w - ep) with 0 by lia; reflexivity).
      exists [(lo, q)], []. rewrite app_nil_r. split; [reflexivity|]. split; [|apply side_nil; lia].
      split; [constructor; [exact P0|constructor]|]. split; [repeat constructor|].
      intros x Hx. exists (lo, q). split; [now left|]. unfold cin, csize; cbn [fst snd]. fold T. lia.
    + destruct (IH (q + 1) (lo + T) (l ++ [(lo, q)]) r) as (dl & dr & Hrun & HL & HR); try lia.
      * replace (q + 1 - 1) with q by lia. fold T. apply Z.divide_add_r; [exact HdT|apply Z.divide_refl].
      * replace (q + 1 - 1) with q by lia. fold T. lia.
      * replace (q + 1 - 1) with q by lia. fold T. lia.
      * replace (q + 1 - 1) with q in * by lia. fold T in HR.
        exists ((lo, q) :: dl), dr. split.
        { rewrite <- app_assoc in Hrun. exact Hrun. }
        destruct HL as (FL & SL & CL). destruct HR as (FR & SR & CR).
        split; split.
        -- constructor; [exact P0|]. eapply Forall_impl; [|exact FL]. intros c. apply piece_weaken; lia.
        -- split.
           ++ constructor; [exact SL|]. eapply Forall_impl; [|exact FL].
              intros c (Hc1 & _ & Hc3 & _). unfold asc, csize; cbn [fst snd]. fold T. lia.
           ++ intros x Hx. destruct (Z_lt_le_dec x (lo + T)).
              ** exists (lo, q). split; [now left|]. unfold cin, csize; cbn [fst snd]. fold T. lia.
              ** destruct (CL x ltac:(lia)) as (c & Hc & Ic). exists c. split; [now right|exact Ic].
        -- eapply Forall_impl; [|exact FR]. intros c. apply piece_weaken; lia.
        -- split; [exact SR|]. intros x Hx. apply CR. lia.
  - (* E in the lower half: the upper half (lo + T, q) goes to the right list *)
    assert (Hlow: ef + E <= lo + T) by (destruct Hhalf; lia).
    rewrite (net_of_tuple_ok (lo + T) q) by lia. cbn [bind].
    assert (P0: piece q (ef + E) (lo + 2 * T) (lo + T, q)).
    { unfold piece, csize; cbn [fst snd]. fold T. repeat split; try lia.
      apply Z.divide_add_r; [exact HdT|apply Z.divide_refl]. }
    destruct (Z.gtb_spec (q + 1) w) as [Hbrk|Hcont].
    + assert (Hqw: q = w) by lia. assert (Hepw: ep = w) by lia.
      assert (HT1: T = 1) by (unfold T; replace (w - q) with 0 by lia; reflexivity).
      assert (HE1: E = 1) by (unfold E; replace (w - ep) with 0 by lia; reflexivity).
      exists [], [(lo + T, q)]. rewrite app_nil_r. split; [reflexivity|]. split; [apply side_nil; lia|].
      split; [constructor; [exact P0|constructor]|]. split; [repeat constructor|].
      intros x Hx. exists (lo + T, q). split; [now left|]. unfold cin, csize; cbn [fst snd]. fold T. lia.
    + destruct (IH (q + 1) lo l (r ++ [(lo + T, q)])) as (dl & dr & Hrun & HL & HR); try lia.
      * replace (q + 1 - 1) with q by lia. fold T. exact HdT.
      * replace (q + 1 - 1) with q by lia. fold T. lia.
      * replace (q + 1 - 1) with q by lia. fold T. lia.
      * replace (q + 1 - 1) with q in * by lia. fold T in HR.
        exists dl, ((lo + T, q) :: dr). split.
        { rewrite <- app_assoc in Hrun. exact Hrun. }
        destruct HL as (FL & SL & CL). destruct HR as (FR & SR & CR).
        split; split.
        -- eapply Forall_impl; [|exact FL]. intros c. apply piece_weaken; lia.
        -- split; [exact SL|exact CL].
        -- constructor; [exact P0|]. eapply Forall_impl; [|exact FR]. intros c. apply piece_weaken; lia.
        -- split.
           ++ constructor; [exact SR|]. eapply Forall_impl; [|exact FR].
              intros c (Hc1 & _ & _ & Hc4). unfold desc, csize in *; cbn [fst snd]. fold T. lia.
           ++ intros x Hx. destruct (Z_lt_le_dec x (lo + T)).
              ** destruct (CR x ltac:(lia)) as (c & Hc & Ic). exists c. split; [now right|exact Ic].
              ** exists (lo + T, q). split; [now left|]. unfold cin, csize; cbn [fst snd]. fold T. lia.
Qed.
End Loop.

(* ---------------------------------------------------------------- one side, in Canon vocabulary *)
Lemma side_canon ep q lo hi (d : list cblk) :
  1 <= q -> ep <= w -> 0 <= lo ->
  Forall (piece ep q lo hi) d ->
  StronglySorted (fun a b => fst a + csize a <= fst b /\ snd a <> snd b) d ->
  (forall x, lo <= x < hi -> exists c, In c d /\ cin c x) ->
  canon w (blks_of d) /\ (forall x, covered w (blks_of d) x <-> lo <= x < hi) /\ distinct_finer (q - 1) d.
Proof.
  intros Hq Hepw Hlo F S C. rewrite Forall_forall in F.
  assert (AL: forall b, In b (blks_of d) -> aligned w b).
  { intros b Hb. apply in_map_iff in Hb. destruct Hb as (c & <- & Hc).
    destruct (F c Hc) as (P1 & P2 & P3 & P4). unfold aligned, bsize, blk_of; cbn [bv bp].
    split; [lia|]. split; [lia|exact P2]. }
  split; [split; [exact AL|split]|split].
  - apply (SS_map blk_of (fun a b => fst a + csize a <= fst b /\ snd a <> snd b) (below w)); [|exact S].
    intros a b (H & _). exact H.
  - intros b1 b2 H1 H2 (Sp & Sv & _).
    pose proof (aligned_pos w b1 (AL b1 H1)) as Pos.
    apply in_map_iff in H1. destruct H1 as (c1 & <- & Hc1).
    apply in_map_iff in H2. destruct H2 as (c2 & <- & Hc2).
    unfold blk_of in *; cbn [bv bp] in *.
    assert (c1 = c2).
    { apply (SS_key_inj (fun a b => fst a + csize a <= fst b /\ snd a <> snd b) snd d); auto. intros a b (_ & N). exact N. }
    subst c2. lia.
  - intros x. split.
    + intros (b & Hb & I). apply in_map_iff in Hb. destruct Hb as (c & <- & Hc).
      destruct (F c Hc) as (P1 & P2 & P3 & P4). unfold inb, bsize, blk_of in I; cbn [bv bp] in I.
      unfold csize in P4. lia.
    + intros Hx. destruct (C x Hx) as (c & Hc & I). exists (blk_of c). split; [apply in_map; exact Hc|exact I].
  - split.
    + apply (SS_key_nodup (fun a b => fst a + csize a <= fst b /\ snd a <> snd b) snd); [|exact S].
      intros a b (_ & N). exact N.
    + apply Forall_forall. intros c Hc. destruct (F c Hc) as (P1 & _). lia.
Qed.

(* ---------------------------------------------------------------- cidr_partition *)
Theorem partition_spec T E : wf_cblk w T -> wf_cblk w E ->
  let tf := first_of w T in let tl := last_of w T in
  let ef := first_of w E in let el := last_of w E in
  (el < tf -> cidr_partition w T E = Ok ([], [], [cidr_of w T])) /\
  (tl < ef -> cidr_partition w T E = Ok ([cidr_of w T], [], [])) /\
  (tf <= el -> ef <= tl -> snd E <= snd T -> cidr_partition w T E = Ok ([], [T], [])) /\
  (tf <= el -> ef <= tl -> snd T < snd E ->
     exists b a, cidr_partition w T E = Ok (b, [E], a) /\ tf <= ef /\ el <= tl /\
       canon w (blks_of b) /\ (forall x, covered w (blks_of b) x <-> tf <= x <= tl /\ x < ef) /\
       canon w (blks_of a) /\ (forall x, covered w (blks_of a) x <-> tf <= x <= tl /\ el < x) /\
       distinct_finer (snd T) b /\ distinct_finer (snd T) a).
Proof.
  destruct T as [tv tp], E as [ev ep]. unfold wf_cblk. intros (Htv & Htp) (Hev & Hep).
  cbn [fst snd] in Htv, Htp, Hev, Hep.
  set (tl := last_of w (tv, tp)). set (el := last_of w (ev, ep)).
  set (tf := first_of w (tv, tp)). set (ef := first_of w (ev, ep)).
  unfold last_of, first_of in tf, tl, ef, el. cbn [fst snd] in tf, tl, ef, el.
  assert (Gc: cidr_of w (tv, tp) = (tf, tp)) by reflexivity. rewrite Gc. cbn [fst snd].
  assert (Ftf: net_first w tv tp = tf) by (rewrite net_first_eq by assumption; reflexivity).
  assert (Ftl: net_last w tv tp = tl) by (rewrite net_last_eq by assumption; reflexivity).
  assert (Fef: net_first w ev ep = ef) by (rewrite net_first_eq by assumption; reflexivity).
  assert (Fel: net_last w ev ep = el) by (rewrite net_last_eq by assumption; reflexivity).
  assert (Fc: net_cidr w tv tp = (tf, tp)) by (rewrite net_cidr_eq by assumption; reflexivity).
  assert (Ef: ef = floor2 ev (w - ep)) by reflexivity.
  assert (Tf: tf = floor2 tv (w - tp)) by reflexivity.
  pose proof (pow2_pos (w - tp) ltac:(lia)) as PT. pose proof (pow2_pos (w - ep) ltac:(lia)) as PE.
  assert (Etl: tl = tf + 2 ^ (w - tp) - 1) by reflexivity.
  assert (Eel: el = ef + 2 ^ (w - ep) - 1) by reflexivity.
  pose proof (first_last_in_range w tv tp Htp Htv) as (R1 & R2). rewrite <- Tf in R1, R2.
  assert (DT: (2 ^ (w - tp) | tf)) by (rewrite Tf; apply floor2_divide; lia).
  assert (DE: (2 ^ (w - ep) | ef)) by (rewrite Ef; apply floor2_divide; lia).
  unfold cidr_partition. rewrite Ftf, Ftl, Fef, Fel, Fc.
  clearbody tf tl ef el.
  destruct (Z.ltb_spec el tf) as [C1|C1].
  { split; [reflexivity|]. split; [intros; lia|]. split; intros; lia. }
  destruct (Z.ltb_spec tl ef) as [C2|C2].
  { split; [intros; lia|]. split; [reflexivity|]. split; intros; lia. }
  destruct (Z.geb_spec tp ep) as [C3|C3].
  { split; [intros; lia|]. split; [intros; lia|]. split; [reflexivity|intros; lia]. }
  split; [intros; lia|]. split; [intros; lia|]. split; [intros; lia|]. intros _ _ _.
  (* E strictly finer than T and overlapping it: E lies inside T *)
  assert (DET: (2 ^ (w - ep) | 2 ^ (w - tp))) by (apply pow2_divide; lia).
  destruct (nested_of_overlap (2 ^ (w - ep)) (2 ^ (w - tp)) tf ef PE DET PT DT DE ltac:(lia) ltac:(lia)) as (N1 & N2).
  unfold py_pow2. case_ltb (w - (tp + 1)) 0; [lia|]. cbn [bind].
  destruct (loop_spec ev ep Hep Hev (Z.to_nat w + 1) (tp + 1) tf [] []) as (dl & dr & Hrun & HL & HR);
    try (replace (tp + 1 - 1) with tp by lia); try rewrite <- Ef; try assumption; try lia.
  replace (tp + 1 - 1) with tp in HR by lia. rewrite <- Ef in HL, HR.
  cbn [app] in Hrun. rewrite Hrun. cbn [bind fst snd].
  exists dl, (rev dr). split; [reflexivity|]. split; [exact N1|]. split; [lia|].
  destruct HL as (FL & SL & CL). destruct HR as (FR & SR & CR).
  destruct (side_canon ep (tp + 1) tf ef dl) as (K1 & K2 & K3); try assumption; try lia.
  { eapply SS_weaken; [|exact SL]. intros a b (A1 & A2). split; [exact A1|lia]. }
  destruct (side_canon ep (tp + 1) (ef + 2 ^ (w - ep)) (tf + 2 ^ (w - tp)) (rev dr)) as (L1 & L2 & L3); try lia.
  { apply Forall_rev. exact FR. }
  { eapply SS_weaken; [|apply SS_rev; exact SR]. cbn beta. intros a b (A1 & A2). split; [exact A1|lia]. }
  { intros x Hx. destruct (CR x Hx) as (c & Hc & I). exists c. split; [apply in_rev in Hc; exact Hc|exact I]. }
  replace (tp + 1 - 1) with tp in K3, L3 by lia.
  split; [exact K1|]. split; [intros x; rewrite K2; lia|].
  split; [exact L1|]. split; [intros x; rewrite L2; lia|]. split; assumption.
Qed.
End W.

(* ---------------------------------------------------------------- consequences, in reusable form *)
Lemma cblk_facts w c : 0 <= w -> wf_cblk w c ->
  0 < 2 ^ (w - snd c) /\ (2 ^ (w - snd c) | first_of w c) /\ 0 <= first_of w c /\ last_of w c < 2 ^ w /\
  first_of w c <= fst c <= last_of w c.
Proof.
  intros Hw (Hv & Hp). destruct c as [v p]; cbn [fst snd] in *. unfold last_of, first_of; cbn [fst snd].
  change (v - v mod 2 ^ (w - p)) with (floor2 v (w - p)).
  pose proof (first_last_in_range w v p Hp Hv) as (R1 & R2).
  pose proof (floor2_bounds v (w - p) ltac:(lia)).
  split; [apply pow2_pos; lia|]. split; [apply floor2_divide; lia|]. lia.
Qed.

Lemma cidr_of_aligned w c : 0 <= w -> wf_cblk w c -> aligned w (blk_of (cidr_of w c)).
Proof.
  intros Hw Hc. destruct (cblk_facts w c Hw Hc) as (F1 & F2 & F3 & _). destruct Hc as (_ & Hp).
  unfold aligned, bsize, blk_of, cidr_of; cbn [bv bp fst snd]. split; [exact Hp|]. split; [exact F3|exact F2].
Qed.

Lemma cidr_of_inb w c x : inb w (blk_of (cidr_of w c)) x <-> first_of w c <= x <= last_of w c.
Proof. unfold inb, bsize, blk_of, cidr_of, last_of; cbn [bv bp fst snd]. lia. Qed.

(* the four situations are exhaustive and each returns normally *)
Lemma partition_total w T E : 0 <= w -> wf_cblk w T -> wf_cblk w E -> exists r, cidr_partition w T E = Ok r.
Proof.
  intros Hw HT HE. destruct (partition_spec w Hw T E HT HE) as (P1 & P2 & P3 & P4).
  destruct (Z_lt_le_dec (last_of w E) (first_of w T)) as [C1|C1]; [eexists; apply P1; exact C1|].
  destruct (Z_lt_le_dec (last_of w T) (first_of w E)) as [C2|C2]; [eexists; apply P2; exact C2|].
  destruct (Z_lt_le_dec (snd T) (snd E)) as [C3|C3].
  - destruct (P4 C1 C2 C3) as (b & a & H & _). eexists; exact H.
  - eexists; apply P3; assumption.
Qed.

Lemma partition_fuel_enough w T E : 0 <= w -> wf_cblk w T -> wf_cblk w E ->
  cidr_partition w T E <> Raise OutOfFuel.
Proof. intros Hw HT HE. destruct (partition_total w T E Hw HT HE) as (r & ->). discriminate. Qed.

(* E overlaps T and is strictly finer: the halving loop runs *)
Definition splits (w : Z) (T E : cblk) : Prop :=
  first_of w T <= last_of w E /\ first_of w E <= last_of w T /\ snd T < snd E.

Lemma partition_split w T E b m a : 0 <= w -> wf_cblk w T -> wf_cblk w E -> splits w T E ->
  cidr_partition w T E = Ok (b, m, a) ->
  m = [E] /\ first_of w T <= first_of w E /\ last_of w E <= last_of w T /\
  canon w (blks_of b) /\ (forall x, covered w (blks_of b) x <-> first_of w T <= x <= last_of w T /\ x < first_of w E) /\
  canon w (blks_of a) /\ (forall x, covered w (blks_of a) x <-> first_of w T <= x <= last_of w T /\ last_of w E < x) /\
  distinct_finer (snd T) b /\ distinct_finer (snd T) a.
Proof.
  intros Hw HT HE (S1 & S2 & S3) H. destruct (partition_spec w Hw T E HT HE) as (_ & _ & _ & P4).
  destruct (P4 S1 S2 S3) as (b' & a' & H' & R). rewrite H' in H. injection H as <- <- <-. split; [reflexivity|exact R].
Qed.

Lemma partition_before_canon w T E b m a : 0 <= w -> wf_cblk w T -> wf_cblk w E -> splits w T E ->
  cidr_partition w T E = Ok (b, m, a) -> canon w (blks_of b).
Proof. intros Hw HT HE S H. apply (partition_split w T E b m a Hw HT HE S H). Qed.

Lemma partition_after_canon w T E b m a : 0 <= w -> wf_cblk w T -> wf_cblk w E -> splits w T E ->
  cidr_partition w T E = Ok (b, m, a) -> canon w (blks_of a).
Proof. intros Hw HT HE S H. apply (partition_split w T E b m a Hw HT HE S H). Qed.

Lemma partition_before_den w T E b m a : 0 <= w -> wf_cblk w T -> wf_cblk w E -> splits w T E ->
  cidr_partition w T E = Ok (b, m, a) ->
  forall x, covered w (blks_of b) x <-> first_of w T <= x <= last_of w T /\ x < first_of w E.
Proof. intros Hw HT HE S H. apply (partition_split w T E b m a Hw HT HE S H). Qed.

Lemma partition_after_den w T E b m a : 0 <= w -> wf_cblk w T -> wf_cblk w E -> splits w T E ->
  cidr_partition w T E = Ok (b, m, a) ->
  forall x, covered w (blks_of a) x <-> first_of w T <= x <= last_of w T /\ last_of w E < x.
Proof. intros Hw HT HE S H. apply (partition_split w T E b m a Hw HT HE S H). Qed.

(* before, E, after tile T: every address of T is in exactly one of them, nothing else is covered *)
Lemma partition_tiles w T E b m a : 0 <= w -> wf_cblk w T -> wf_cblk w E -> splits w T E ->
  cidr_partition w T E = Ok (b, m, a) ->
  forall x,
    (first_of w T <= x <= last_of w T <->
       covered w (blks_of b) x \/ first_of w E <= x <= last_of w E \/ covered w (blks_of a) x) /\
    ~ (covered w (blks_of b) x /\ first_of w E <= x <= last_of w E) /\
    ~ (covered w (blks_of a) x /\ first_of w E <= x <= last_of w E) /\
    ~ (covered w (blks_of b) x /\ covered w (blks_of a) x).
Proof.
  intros Hw HT HE S H x.
  destruct (partition_split w T E b m a Hw HT HE S H) as (_ & N1 & N2 & _ & DB & _ & DA & _).
  destruct (cblk_facts w E Hw HE) as (PE & _). assert (first_of w E <= last_of w E) by (unfold last_of; lia).
  rewrite (DB x), (DA x). lia.
Qed.

(* minimality: no list of aligned blocks covering the same addresses is shorter *)
Lemma partition_minimal w T E b m a : 0 <= w -> wf_cblk w T -> wf_cblk w E -> splits w T E ->
  cidr_partition w T E = Ok (b, m, a) ->
  (forall l', (forall c, In c l' -> aligned w c) -> (forall x, covered w (blks_of b) x <-> covered w l' x) ->
     (length b <= length l')%nat) /\
  (forall l', (forall c, In c l' -> aligned w c) -> (forall x, covered w (blks_of a) x <-> covered w l' x) ->
     (length a <= length l')%nat).
Proof.
  intros Hw HT HE S H.
  destruct (partition_split w T E b m a Hw HT HE S H) as (_ & _ & _ & CB & _ & CA & _).
  split; intros l' A C.
  - rewrite <- (map_length blk_of b). apply (canon_minimal w Hw); assumption.
  - rewrite <- (map_length blk_of a). apply (canon_minimal w Hw); assumption.
Qed.

(* every block handed out lies inside T and outside E *)
Lemma partition_blocks_inside w T E b m a : 0 <= w -> wf_cblk w T -> wf_cblk w E -> splits w T E ->
  cidr_partition w T E = Ok (b, m, a) ->
  Forall (fun c => first_of w T <= fst c /\ fst c + 2 ^ (w - snd c) <= first_of w E) b /\
  Forall (fun c => last_of w E < fst c /\ fst c + 2 ^ (w - snd c) - 1 <= last_of w T) a.
Proof.
  intros Hw HT HE S H.
  destruct (partition_split w T E b m a Hw HT HE S H) as (_ & _ & _ & (AB & _) & DB & (AA & _) & DA & _).
  split; apply Forall_forall; intros c Hc.
  - pose proof (in_map blk_of _ _ Hc) as Hin. pose proof (aligned_pos w _ (AB _ Hin)) as Pos.
    assert (I1: covered w (blks_of b) (fst c)) by (exists (blk_of c); split; [exact Hin|apply inb_self, AB, Hin]).
    assert (I2: covered w (blks_of b) (fst c + 2 ^ (w - snd c) - 1)).
    { exists (blk_of c). split; [exact Hin|]. unfold inb, bsize, blk_of in *; cbn [bv bp] in *. lia. }
    apply DB in I1. apply DB in I2. lia.
  - pose proof (in_map blk_of _ _ Hc) as Hin. pose proof (aligned_pos w _ (AA _ Hin)) as Pos.
    assert (I1: covered w (blks_of a) (fst c)) by (exists (blk_of c); split; [exact Hin|apply inb_self, AA, Hin]).
    assert (I2: covered w (blks_of a) (fst c + 2 ^ (w - snd c) - 1)).
    { exists (blk_of c). split; [exact Hin|]. unfold inb, bsize, blk_of in *; cbn [bv bp] in *. lia. }
    apply DA in I1. apply DA in I2. lia.
Qed.

(* ---------------------------------------------------------------- cidr_exclude *)
Lemma exclude_eq w T E b m a : cidr_partition w T E = Ok (b, m, a) -> cidr_exclude w T E = Ok (b ++ a).
Proof. intros H. unfold cidr_exclude. rewrite H. reflexivity. Qed.

(* cidr_exclude returns the canonical list of T \ E *)
Lemma exclude_spec w T E : 0 <= w -> wf_cblk w T -> wf_cblk w E ->
  exists l, cidr_exclude w T E = Ok l /\ canon w (blks_of l) /\
    forall x, covered w (blks_of l) x <->
              first_of w T <= x <= last_of w T /\ ~ (first_of w E <= x <= last_of w E).
Proof.
  intros Hw HT HE. destruct (partition_spec w Hw T E HT HE) as (P1 & P2 & P3 & P4).
  destruct (cblk_facts w T Hw HT) as (PT & DT & T0 & T1 & _).
  destruct (cblk_facts w E Hw HE) as (PE & DE & E0 & E1 & _).
  assert (OT: first_of w T <= last_of w T) by (unfold last_of; lia).
  assert (OE: first_of w E <= last_of w E) by (unfold last_of; lia).
  assert (Single: forall x, covered w (blks_of [cidr_of w T]) x <-> first_of w T <= x <= last_of w T).
  { intros x. unfold blks_of; cbn [map]. rewrite covered_cons, cidr_of_inb.
    split; [intros [I|C]; [exact I|destruct (covered_nil w x C)]|intros I; left; exact I]. }
  destruct (Z_lt_le_dec (last_of w E) (first_of w T)) as [C1|C1].
  { exists [cidr_of w T]. split; [apply (exclude_eq w T E [] [] [cidr_of w T]), P1, C1|].
    split; [apply canon_single, cidr_of_aligned; assumption|]. intros x. rewrite Single. lia. }
  destruct (Z_lt_le_dec (last_of w T) (first_of w E)) as [C2|C2].
  { exists [cidr_of w T]. split; [apply (exclude_eq w T E [cidr_of w T] [] []), P2, C2|].
    split; [apply canon_single, cidr_of_aligned; assumption|]. intros x. rewrite Single. lia. }
  destruct (Z_lt_le_dec (snd T) (snd E)) as [C3|C3].
  - destruct (P4 C1 C2 C3) as (b & a & H & N1 & N2 & CB & DB & CA & DA & _).
    exists (b ++ a). split; [apply (exclude_eq w T E b [E] a), H|].
    unfold blks_of. rewrite map_app. fold (blks_of b) (blks_of a). split.
    + apply (canon_app w); [exact CB|exact CA|]. intros c1 c2 H1 H2.
      destruct CB as (AB & _). destruct CA as (AA & _).
      pose proof (aligned_pos w _ (AB _ H1)) as Pos1.
      assert (I1: covered w (blks_of b) (bv c1 + bsize w c1 - 1)) by (exists c1; split; [exact H1|unfold inb; lia]).
      assert (I2: covered w (blks_of a) (bv c2)) by (exists c2; split; [exact H2|apply inb_self, AA, H2]).
      apply DB in I1. apply DA in I2. lia.
    + intros x. rewrite covered_app, (DB x), (DA x). lia.
  - (* E covers T *)
    exists []. split; [apply (exclude_eq w T E [] [T] []), P3; assumption|]. split; [apply canon_nil|].
    intros x. split; [intros C; destruct (covered_nil w x C)|]. intros (I & N). exfalso. apply N.
    destruct HT as (_ & HpT). destruct HE as (_ & HpE).
    assert (D: (2 ^ (w - snd T) | 2 ^ (w - snd E))) by (apply pow2_divide; lia).
    destruct (nested_of_overlap (2 ^ (w - snd T)) (2 ^ (w - snd E)) (first_of w E) (first_of w T) PT D PE DE DT) as (M1 & M2);
      unfold last_of in *; lia.
Qed.
