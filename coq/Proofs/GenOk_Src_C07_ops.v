(* Proofs/GenOk_Src_C07_ops.v -- SRCA: source tie for C07, the two-cursor sweeps.  The definitions regenerated from the text of
   netaddr/ip/sets.py (Gen/pysrc_sets_ops_gen.v: _subtract, _iter_merged_ranges, IPSet.intersection, isdisjoint, difference,
   symmetric_difference, iter_ipranges) equal the hand-written model of Model/Sets.v.
   REPRESENTATION.  The Python code walks the sorted key lists by integer indices (`own_nets[own_idx]`, `own_idx += 1`,
   `while own_idx < own_len`), the model by the remaining suffixes; the equalities go through `skipn idx list`.  _subtract
   appends to its parameter `ranges` and returns the next index: the generated function returns (ranges, index), the model
   (remaining suffix, ranges).  _iter_merged_ranges is a generator consumed at once by its callers: the generated function
   returns the list of what it yields, pairs of IPAddress objects (version, value), the model a list of (version, first, last).
   HYPOTHESES.  None for _subtract, intersection, isdisjoint and for the index loops.  _iter_merged_ranges builds IPAddress
   objects through the range-checking constructor: every range valid (rvalid).  difference / symmetric_difference /
   iter_ipranges: SetInv of the operands (the hypothesis of the property theorems), from which the validity of the swept
   ranges follows by the loop specifications of Proofs/C07_sweeps_*.v. *)
From NV Require Import Base.Tac Base.PyVal Base.Bits Model.Ip Model.Partition Model.Span Model.Merge Model.Sets Model.PySlice
  Model.SrcPrelude Model.SrcPreludeSets Gen.pysrc_gen Gen.pysrc_iprange_gen Gen.pysrc_sets_gen Gen.pysrc_sets_ops_gen
  Proofs.C02 Proofs.NetDen Proofs.GenOk_Src_C05 Proofs.GenOk_Src_C07
  Proofs.C07_sweeps Proofs.C07_sweeps_ranges Proofs.C07_sweeps_xor Proofs.C07_sweeps_diff.
Import ListNotations.
Open Scope Z_scope.

(* ---------------------------------------------------------------- indices and suffixes *)
Lemma nth_error_skipn {A} : forall k (l : list A) x r, skipn k l = x :: r -> nth_error l k = Some x.
Proof.
  induction k as [|k IH]; intros l x r H; [cbn in H; subst; reflexivity|].
  destruct l as [|y l]; [discriminate|]. cbn [skipn] in H. cbn [nth_error]. exact (IH l x r H).
Qed.

Lemma skipn_cons_lt {A} k (l : list A) x r : skipn k l = x :: r -> (k < length l)%nat.
Proof.
  intros H. destruct (Nat.lt_ge_cases k (length l)) as [L|L]; [exact L|].
  rewrite (skipn_all2 l L) in H. discriminate.
Qed.

Lemma skipn_nil_ge {A} k (l : list A) : skipn k l = [] -> (length l <= k)%nat.
Proof. intros H. pose proof (skipn_length k l) as L. rewrite H in L. cbn [length] in L. lia. Qed.

Lemma skipn_S_tail {A} : forall k (l : list A) x r, skipn k l = x :: r -> skipn (S k) l = r.
Proof.
  induction k as [|k IH]; intros l x r H; [cbn in H; subst; reflexivity|].
  destruct l as [|y l]; [discriminate|]. cbn [skipn] in H. change (skipn (S (S k)) (y :: l)) with (skipn (S k) l).
  exact (IH l x r H).
Qed.

Lemma py_index_cons {A} k (l : list A) x r : skipn k l = x :: r -> py_index l (Z.of_nat k) = Ok x.
Proof.
  intros H. pose proof (skipn_cons_lt k l x r H) as L. unfold py_index.
  replace (Z.of_nat k <? 0) with false by lia. cbv iota.
  replace ((Z.of_nat k <? 0) || (Z.of_nat (length l) <=? Z.of_nat k)) with false by lia.
  rewrite Nat2Z.id, (nth_error_skipn k l x r H). reflexivity.
Qed.

Lemma py_index_nil {A} k (l : list A) : skipn k l = [] -> py_index l (Z.of_nat k) = Raise IndexError.
Proof.
  intros H. pose proof (skipn_nil_ge k l H) as L. unfold py_index.
  replace (Z.of_nat k <? 0) with false by lia. cbv iota.
  replace ((Z.of_nat k <? 0) || (Z.of_nat (length l) <=? Z.of_nat k)) with true by lia. reflexivity.
Qed.

Lemma skipn_skipn' {A} m : forall k (l : list A), skipn m (skipn k l) = skipn (k + m) l.
Proof.
  induction k as [|k IH]; intros l; [reflexivity|]. destruct l as [|x l]; [rewrite !skipn_nil; reflexivity|].
  cbn [skipn Nat.add]. apply IH.
Qed.

(* the suffix skipn n l, found again from its length *)
Lemma suffix_index {A} (l : list A) n : skipn (length l - length (skipn n l)) l = skipn n l.
Proof.
  rewrite skipn_length. destruct (Nat.le_gt_cases n (length l)) as [L|L].
  - replace (length l - (length l - n))%nat with n by lia. reflexivity.
  - replace (length l - (length l - n))%nat with (length l) by lia. rewrite skipn_all, skipn_all2 by lia. reflexivity.
Qed.

(* ---------------------------------------------------------------- `a in b` for two IPNetwork objects *)
Lemma src_net_in_net a b :
  src_IPNetwork_contains (nver b) (width (nver b)) (nval b) (nplen b) (ONet (nver a) (nval a) (nplen a)) = Ok (net_in_net a b).
Proof.
  unfold src_IPNetwork_contains, net_in_net. destruct (negb (nver b =? nver a)); [reflexivity|]. cbv zeta.
  rewrite (Z.eqb_sym (Z.shiftr (nval b) (width (nver b) - nplen b))). reflexivity.
Qed.

(* ---------------------------------------------------------------- _subtract *)
Section Subtract.
  Variables (sup : net) (L : list net).

  Lemma subtract_loop_suffix : forall l prev ranges, exists m, fst (fst (subtract_loop sup prev l ranges)) = skipn m l.
  Proof.
    induction l as [|cur r IH]; intros prev ranges; [exists 0%nat; reflexivity|]. cbn [subtract_loop].
    destruct (negb (net_in_net cur sup)); [exists 0%nat; reflexivity|].
    destruct (IH cur (if nl prev + 1 =? nf cur then ranges else ranges ++ [(nver sup, nl prev + 1, nf cur - 1)])) as (m & Hm).
    exists (S m). exact Hm.
  Qed.

  Lemma src_subtract_loop_ok : forall fuel k prev ranges, (length L - k < fuel)%nat -> (k <= length L)%nat ->
    src_sets_subtract_loop1 fuel L sup (nver sup) ranges (Z.of_nat k) prev =
      (let R := subtract_loop sup prev (skipn k L) ranges in
       Ok (snd (fst R), Z.of_nat (length L - length (fst (fst R))), snd R)).
  Proof.
    induction fuel as [|f IH]; intros k prev ranges Hf Hk; [lia|]. cbn [src_sets_subtract_loop1]. cbv zeta.
    destruct (skipn k L) as [|cur r] eqn:E.
    - pose proof (skipn_nil_ge k L E). replace (Z.of_nat k <? Z.of_nat (length L)) with false by lia.
      cbn [subtract_loop fst snd length]. f_equal. f_equal. f_equal. lia.
    - pose proof (skipn_cons_lt k L cur r E). replace (Z.of_nat k <? Z.of_nat (length L)) with true by lia.
      rewrite (py_index_cons k L cur r E). cbn [bind]. rewrite src_net_in_net. cbn [bind subtract_loop].
      destruct (negb (net_in_net cur sup)).
      + cbn [fst snd]. f_equal. f_equal. f_equal. rewrite <- E, skipn_length. lia.
      + change (src_IPNetwork_last (nver prev) (width (nver prev)) (nval prev) (nplen prev)) with (nl prev).
        change (src_IPNetwork_first (nver cur) (width (nver cur)) (nval cur) (nplen cur)) with (nf cur).
        replace (Z.of_nat k + 1) with (Z.of_nat (S k)) by lia.
        rewrite (IH (S k)) by lia. cbv zeta. rewrite (skipn_S_tail k L cur r E). reflexivity.
  Qed.

  Lemma src_subtract_ok k ranges :
    src_sets_subtract sup L (Z.of_nat k) ranges =
      omap (fun r => (snd r, Z.of_nat (length L - length (fst r)))) (subtract sup (skipn k L) ranges).
  Proof.
    unfold src_sets_subtract, subtract. cbv zeta. destruct (skipn k L) as [|sub r] eqn:E.
    - rewrite (py_index_nil k L E). reflexivity.
    - rewrite (py_index_cons k L sub r E). cbn [bind].
      change (src_IPNetwork_first (nver sub) (width (nver sub)) (nval sub) (nplen sub)) with (nf sub).
      change (src_IPNetwork_first (nver sup) (width (nver sup)) (nval sup) (nplen sup)) with (nf sup).
      change (src_IPNetwork_last (nver sup) (width (nver sup)) (nval sup) (nplen sup)) with (nl sup).
      replace (Z.of_nat k + 1) with (Z.of_nat (S k)) by lia. rewrite Nat2Z.id.
      pose proof (skipn_cons_lt k L sub r E). rewrite src_subtract_loop_ok by lia. cbv zeta. rewrite (skipn_S_tail k L sub r E).
      set (r1 := if nf sub >? nf sup then ranges ++ [(nver sup, nf sup, nf sub - 1)] else ranges).
      change (subtract_loop sup sub r (if nf sub >? nf sup then ranges ++ [(nver sup, nf sup, nf sub - 1)] else ranges))
        with (subtract_loop sup sub r r1).
      destruct (subtract_loop sup sub r r1) as [[rest r2] prev]. cbn [bind fst snd omap].
      change (src_IPNetwork_last (nver prev) (width (nver prev)) (nval prev) (nplen prev)) with (nl prev).
      reflexivity.
  Qed.

  (* what _subtract leaves is a suffix of the list it was given *)
  Lemma subtract_suffix l ranges rest rs : subtract sup l ranges = Ok (rest, rs) -> exists m, rest = skipn m l.
  Proof.
    unfold subtract. destruct l as [|sub r]; [discriminate|].
    set (r1 := if nf sub >? nf sup then ranges ++ [(nver sup, nf sup, nf sub - 1)] else ranges).
    destruct (subtract_loop_suffix r sub r1) as (m & Hm).
    destruct (subtract_loop sup sub r r1) as [[rest' r2] prev]. cbn [fst] in Hm. intros [= <- _]. exists (S m). exact Hm.
  Qed.

  Lemma subtract_suffix_index k ranges rest rs : subtract sup (skipn k L) ranges = Ok (rest, rs) ->
    skipn (length L - length rest) L = rest.
  Proof.
    intros H. destruct (subtract_suffix _ _ _ _ H) as (m & ->). rewrite skipn_skipn'. apply suffix_index.
  Qed.
End Subtract.

(* ---------------------------------------------------------------- intersection / isdisjoint *)
Ltac src_names :=
  repeat match goal with
  | |- context [src_IPNetwork_first (nver ?n) (width (nver ?n)) (nval ?n) (nplen ?n)] =>
      change (src_IPNetwork_first (nver n) (width (nver n)) (nval n) (nplen n)) with (nf n)
  | |- context [src_IPNetwork_last (nver ?n) (width (nver ?n)) (nval ?n) (nplen ?n)] =>
      change (src_IPNetwork_last (nver n) (width (nver n)) (nval n) (nplen n)) with (nl n)
  end.

Section Sweeps.
  Variables A B : list net.
  Let lenA := Z.of_nat (length A).
  Let lenB := Z.of_nat (length B).

  (* the loop condition and the two reads, for non-exhausted cursors *)
  Lemma cursors_in i j oc own' tc other' : skipn i A = oc :: own' -> skipn j B = tc :: other' ->
    ((Z.of_nat i <? lenA) && (Z.of_nat j <? lenB)) = true /\ py_index A (Z.of_nat i) = Ok oc /\ py_index B (Z.of_nat j) = Ok tc.
  Proof.
    intros Ea Eb. pose proof (skipn_cons_lt _ _ _ _ Ea). pose proof (skipn_cons_lt _ _ _ _ Eb).
    split; [unfold lenA, lenB; lia|]. split; eapply py_index_cons; eassumption.
  Qed.

  Lemma cursors_out i j : skipn i A = [] \/ skipn j B = [] -> ((Z.of_nat i <? lenA) && (Z.of_nat j <? lenB)) = false.
  Proof. intros [E|E]; apply skipn_nil_ge in E; unfold lenA, lenB; lia. Qed.

  Lemma src_inter_loop_ok : forall fuel i j res,
    src_IPSet_intersection_loop1 fuel lenA lenB A B res (Z.of_nat i) (Z.of_nat j) = inter_loop fuel (skipn i A) (skipn j B) res.
  Proof.
    induction fuel as [|f IH]; intros i j res; [reflexivity|]. cbn [src_IPSet_intersection_loop1 inter_loop].
    destruct (skipn i A) as [|oc own'] eqn:Ea; [rewrite cursors_out by (left; exact Ea); reflexivity|].
    destruct (skipn j B) as [|tc other'] eqn:Eb; [rewrite cursors_out by (right; exact Eb); reflexivity|].
    destruct (cursors_in i j _ _ _ _ Ea Eb) as (C & Ia & Ib). rewrite C, Ia, Ib. cbn [bind].
    pose proof (skipn_S_tail _ _ _ _ Ea) as Sa. pose proof (skipn_S_tail _ _ _ _ Eb) as Sb.
    change (net_key_eqb oc tc) with (key_eqb oc tc). unfold py_dict_set, py_net_ltb.
    destruct (key_eqb oc tc).
    { cbn [bind]. replace (Z.of_nat i + 1) with (Z.of_nat (S i)) by lia. replace (Z.of_nat j + 1) with (Z.of_nat (S j)) by lia.
      rewrite IH, Sa, Sb. reflexivity. }
    rewrite src_net_in_net. cbn [bind]. destruct (net_in_net oc tc).
    { cbn [bind]. replace (Z.of_nat i + 1) with (Z.of_nat (S i)) by lia. rewrite IH, Sa, Eb. reflexivity. }
    rewrite src_net_in_net. cbn [bind]. destruct (net_in_net tc oc).
    { cbn [bind]. replace (Z.of_nat j + 1) with (Z.of_nat (S j)) by lia. rewrite IH, Ea, Sb. reflexivity. }
    destruct (net_ltb oc tc); cbn [bind].
    - replace (Z.of_nat i + 1) with (Z.of_nat (S i)) by lia. rewrite IH, Sa, Eb. reflexivity.
    - replace (Z.of_nat j + 1) with (Z.of_nat (S j)) by lia. rewrite IH, Ea, Sb. reflexivity.
  Qed.
End Sweeps.

Lemma src_intersection_ok a b : src_IPSet_intersection a b = set_intersection a b.
Proof.
  unfold src_IPSet_intersection, set_intersection, py_sorted_nets. cbv zeta.
  replace (Z.to_nat (Z.of_nat (length a) + Z.of_nat (length b)) + 1)%nat with (length a + length b + 1)%nat by lia.
  rewrite (src_inter_loop_ok (sorted a) (sorted b) _ 0%nat 0%nat []). cbn [skipn].
  destruct (inter_loop (length a + length b + 1) (sorted a) (sorted b) []); reflexivity.
Qed.

Lemma src_isdisjoint_ok a b : src_IPSet_isdisjoint a b = set_isdisjoint a b.
Proof.
  unfold src_IPSet_isdisjoint, set_isdisjoint. rewrite src_intersection_ok.
  destruct (set_intersection a b) as [[|x r]|]; reflexivity.
Qed.

(* ---------------------------------------------------------------- _iter_merged_ranges, and back to CIDR blocks *)
(* a range whose two ends pass the range-checking IPAddress constructor *)
Definition rok (r : rng) : Prop :=
  valid_ver (rv r) = true /\ 0 <= rs r < 2 ^ width (rv r) /\ 0 <= re r < 2 ^ width (rv r).
Definition pair_of (r : rng) : (Z * Z) * (Z * Z) := ((rv r, rs r), (rv r, re r)).

Lemma rvalid_rok r : rvalid r -> rok r.
Proof. unfold rvalid, rok. intros (V & A & B & C). split; [exact V|lia]. Qed.

Definition fin_merge (h : Z * list ((Z * Z) * (Z * Z)) * Z * Z) : outcome (list ((Z * Z) * (Z * Z))) :=
  let '(stop, y, start, ver) := h in
  do h3 <- mk_addr ver start; do h4 <- mk_addr ver stop; Ok (y ++ [(h3, h4)]).

Lemma src_merged_loop_ok : forall l cv cs ce acc, rok (cv, cs, ce) -> Forall rok l ->
  bind (src_sets_iter_merged_ranges_loop1 l ce acc cs cv) fin_merge = Ok (acc ++ map pair_of (merged_ranges_loop (cv, cs, ce) l)).
Proof.
  induction l as [|[[nv ns] ne] r IH]; intros cv cs ce acc Hc Hl.
  - destruct Hc as (V & S & E). unfold rv, rs, re in *. cbn [fst snd] in *.
    cbn [src_sets_iter_merged_ranges_loop1 bind fin_merge merged_ranges_loop map].
    rewrite !mk_addr_ok by assumption. reflexivity.
  - inversion Hl as [|? ? Hn Hr]; subst. cbn [src_sets_iter_merged_ranges_loop1 merged_ranges_loop].
    destruct ((ns =? ce + 1) && (nv =? cv)) eqn:C.
    + apply IH; [|exact Hr]. destruct Hc as (V & S & E), Hn as (V' & S' & E'). unfold rok, rv, rs, re in *. cbn [fst snd] in *.
      assert (nv = cv) by lia. subst nv. repeat split; assumption || lia.
    + destruct Hc as (V & S & E). unfold rv, rs, re in *. cbn [fst snd] in *.
      rewrite !mk_addr_ok by assumption. cbn [bind]. rewrite (IH nv ns ne) by assumption. cbn [map]. rewrite <- app_assoc. reflexivity.
Qed.

Lemma src_iter_merged_ranges_ok l : Forall rok l -> src_sets_iter_merged_ranges l = Ok (map pair_of (iter_merged_ranges l)).
Proof.
  intros H. unfold src_sets_iter_merged_ranges, iter_merged_ranges. cbv zeta. destruct l as [|[[v s] e] r]; [reflexivity|].
  change (py_nonempty ((v, s, e) :: r)) with true. cbn [negb]. rewrite py_index_0. cbn [bind].
  change (py_list_from 1 ((v, s, e) :: r)) with r. inversion H; subst.
  exact (src_merged_loop_ok r v s e [] ltac:(assumption) ltac:(assumption)).
Qed.

Lemma src_diff_loop4_ok : forall xs res, src_IPSet_difference_loop4 xs res = fold_left dset xs res.
Proof. induction xs as [|c r IH]; intros res; [reflexivity|]. cbn [src_IPSet_difference_loop4 fold_left]. apply IH. Qed.

Lemma src_xor_loop5_ok : forall xs res, src_IPSet_symmetric_difference_loop5 xs res = fold_left dset xs res.
Proof. induction xs as [|c r IH]; intros res; [reflexivity|]. cbn [src_IPSet_symmetric_difference_loop5 fold_left]. apply IH. Qed.

Lemma src_range_cidrs v s e : valid_ver v = true ->
  src_iprange_to_cidrs (py_net_of_addr (v, s)) (py_net_of_addr (v, e)) = iprange_to_cidrs (addr_net v s) (addr_net v e).
Proof. intros V. apply src_iprange_to_cidrs_ok. exact V. Qed.

Lemma src_diff_loop3_ok : forall l res, Forall rok l ->
  src_IPSet_difference_loop3 (map pair_of l) res = do cs <- cidrs_of_ranges l; Ok (fold_left dset cs res).
Proof.
  induction l as [|[[v s] e] r IH]; intros res H; [reflexivity|]. inversion H as [|? ? (V & _) Hr]; subst.
  cbn [map src_IPSet_difference_loop3 cidrs_of_ranges]. unfold pair_of at 1, rv, rs, re. cbn [fst snd].
  rewrite (src_range_cidrs v s e V). destruct (iprange_to_cidrs (addr_net v s) (addr_net v e)) as [cs|]; [|reflexivity].
  cbn [bind]. rewrite src_diff_loop4_ok, (IH _ Hr). destruct (cidrs_of_ranges r) as [rest|]; [|reflexivity].
  cbn [bind]. rewrite fold_left_app. reflexivity.
Qed.

Lemma src_xor_loop4_ok : forall l res, Forall rok l ->
  src_IPSet_symmetric_difference_loop4 (map pair_of l) res = do cs <- cidrs_of_ranges l; Ok (fold_left dset cs res).
Proof.
  induction l as [|[[v s] e] r IH]; intros res H; [reflexivity|]. inversion H as [|? ? (V & _) Hr]; subst.
  cbn [map src_IPSet_symmetric_difference_loop4 cidrs_of_ranges]. unfold pair_of at 1, rv, rs, re. cbn [fst snd].
  rewrite (src_range_cidrs v s e V). destruct (iprange_to_cidrs (addr_net v s) (addr_net v e)) as [cs|]; [|reflexivity].
  cbn [bind]. rewrite src_xor_loop5_ok, (IH _ Hr). destruct (cidrs_of_ranges r) as [rest|]; [|reflexivity].
  cbn [bind]. rewrite fold_left_app. reflexivity.
Qed.

(* ---------------------------------------------------------------- difference / symmetric_difference: the index loops *)
Ltac next_i i := replace (Z.of_nat i + 1) with (Z.of_nat (S i)) by lia.

Section Sweeps2.
  Variables A B : list net.
  Let lenA := Z.of_nat (length A).
  Let lenB := Z.of_nat (length B).

  (* `while own_idx < own_len: result_cidrs[own_nets[own_idx]] = True; own_idx += 1` *)
  Lemma src_diff_loop2_ok : forall fuel i res, (length A - i < fuel)%nat ->
    src_IPSet_difference_loop2 fuel lenA A res (Z.of_nat i) = Ok (fold_left dset (skipn i A) res).
  Proof.
    induction fuel as [|f IH]; intros i res Hf; [lia|]. cbn [src_IPSet_difference_loop2].
    destruct (skipn i A) as [|x r] eqn:E.
    - pose proof (skipn_nil_ge _ _ E). replace (Z.of_nat i <? lenA) with false by (unfold lenA; lia). reflexivity.
    - pose proof (skipn_cons_lt _ _ _ _ E). replace (Z.of_nat i <? lenA) with true by (unfold lenA; lia).
      rewrite (py_index_cons _ _ _ _ E). cbn [bind]. next_i i. rewrite IH by lia. rewrite (skipn_S_tail _ _ _ _ E). reflexivity.
  Qed.

  (* FA, FB: the fuel of the tail loops (any number above the length of the list) *)
  Variable FA : nat.
  Hypothesis HFA : (length A < FA)%nat.

  Definition fin_diff (h : Z * list rng * list net) : outcome (list rng * dict) :=
    let '(i', rs, res') := h in
    do res'' <- src_IPSet_difference_loop2 FA lenA A res' i'; Ok (rs, res'').

  Lemma fin_diff_ok i ranges res : fin_diff (Z.of_nat i, ranges, res) = Ok (ranges, fold_left dset (skipn i A) res).
  Proof. unfold fin_diff. rewrite src_diff_loop2_ok by lia. reflexivity. Qed.

  Lemma src_diff_loop_ok : forall fuel i j ranges res,
    bind (src_IPSet_difference_loop1 fuel lenA lenB A B (Z.of_nat i) (Z.of_nat j) ranges res) fin_diff =
      diff_loop fuel (skipn i A) (skipn j B) ranges res.
  Proof.
    induction fuel as [|f IH]; intros i j ranges res; [reflexivity|]. cbn [src_IPSet_difference_loop1 diff_loop].
    destruct (skipn j B) as [|tc other'] eqn:Eb.
    { rewrite (cursors_out A B) by (right; exact Eb). cbn [bind]. rewrite fin_diff_ok. destruct (skipn i A); reflexivity. }
    destruct (skipn i A) as [|oc own'] eqn:Ea.
    { rewrite (cursors_out A B) by (left; exact Ea). cbn [bind]. rewrite fin_diff_ok, Ea. reflexivity. }
    destruct (cursors_in A B i j _ _ _ _ Ea Eb) as (C & Ia & Ib). fold lenA lenB in C. rewrite C, Ia, Ib. cbn [bind].
    pose proof (skipn_S_tail _ _ _ _ Ea) as Sa. pose proof (skipn_S_tail _ _ _ _ Eb) as Sb.
    change (net_key_eqb oc tc) with (key_eqb oc tc). unfold py_dict_set, py_net_ltb.
    destruct (key_eqb oc tc).
    { cbn [bind]. next_i i. next_i j. rewrite IH, Sa, Sb. reflexivity. }
    rewrite src_net_in_net. cbn [bind]. destruct (net_in_net oc tc).
    { cbn [bind]. next_i i. rewrite IH, Sa, Eb. reflexivity. }
    rewrite src_net_in_net. cbn [bind]. destruct (net_in_net tc oc).
    { rewrite (src_subtract_ok oc B j ranges), Eb.
      destruct (subtract oc (tc :: other') ranges) as [[rest rs']|] eqn:ES; [|reflexivity]. cbn [omap bind fst snd].
      rewrite <- Eb in ES. pose proof (subtract_suffix_index oc B j ranges rest rs' ES) as Sx.
      next_i i. rewrite IH, Sa, Sx. reflexivity. }
    destruct (net_ltb oc tc); cbn [bind].
    - next_i i. rewrite IH, Sa, Eb. reflexivity.
    - next_i j. rewrite IH, Ea, Sb. reflexivity.
  Qed.

  Variable FB : nat.
  Hypothesis HFB : (length B < FB)%nat.

  (* the two tail loops of symmetric_difference *)
  Lemma src_xor_loop2_ok : forall fuel i ranges, (length A - i < fuel)%nat ->
    src_IPSet_symmetric_difference_loop2 fuel lenA A ranges (Z.of_nat i) = Ok (ranges ++ map rng_of (skipn i A)).
  Proof.
    induction fuel as [|f IH]; intros i ranges Hf; [lia|]. cbn [src_IPSet_symmetric_difference_loop2].
    destruct (skipn i A) as [|x r] eqn:E.
    - pose proof (skipn_nil_ge _ _ E). replace (Z.of_nat i <? lenA) with false by (unfold lenA; lia). rewrite app_nil_r. reflexivity.
    - pose proof (skipn_cons_lt _ _ _ _ E). replace (Z.of_nat i <? lenA) with true by (unfold lenA; lia).
      rewrite (py_index_cons _ _ _ _ E). cbn [bind]. next_i i. rewrite IH by lia. rewrite (skipn_S_tail _ _ _ _ E).
      cbn [map]. rewrite <- app_assoc. reflexivity.
  Qed.

  Lemma src_xor_loop3_ok : forall fuel j ranges, (length B - j < fuel)%nat ->
    src_IPSet_symmetric_difference_loop3 fuel lenB B ranges (Z.of_nat j) = Ok (ranges ++ map rng_of (skipn j B)).
  Proof.
    induction fuel as [|f IH]; intros j ranges Hf; [lia|]. cbn [src_IPSet_symmetric_difference_loop3].
    destruct (skipn j B) as [|x r] eqn:E.
    - pose proof (skipn_nil_ge _ _ E). replace (Z.of_nat j <? lenB) with false by (unfold lenB; lia). rewrite app_nil_r. reflexivity.
    - pose proof (skipn_cons_lt _ _ _ _ E). replace (Z.of_nat j <? lenB) with true by (unfold lenB; lia).
      rewrite (py_index_cons _ _ _ _ E). cbn [bind]. next_i j. rewrite IH by lia. rewrite (skipn_S_tail _ _ _ _ E).
      cbn [map]. rewrite <- app_assoc. reflexivity.
  Qed.

  Definition fin_xor (h : Z * Z * list rng) : outcome (list rng) :=
    let '(i', j', rs) := h in
    do rs' <- src_IPSet_symmetric_difference_loop2 FA lenA A rs i';
    src_IPSet_symmetric_difference_loop3 FB lenB B rs' j'.

  Lemma fin_xor_ok i j ranges :
    fin_xor (Z.of_nat i, Z.of_nat j, ranges) = Ok ((ranges ++ map rng_of (skipn i A)) ++ map rng_of (skipn j B)).
  Proof.
    unfold fin_xor. rewrite src_xor_loop2_ok by lia. cbn [bind]. rewrite src_xor_loop3_ok by lia.
    reflexivity.
  Qed.

  Lemma src_xor_loop_ok : forall fuel i j ranges,
    bind (src_IPSet_symmetric_difference_loop1 fuel lenA lenB A B (Z.of_nat i) (Z.of_nat j) ranges) fin_xor =
      symdiff_loop fuel (skipn i A) (skipn j B) ranges.
  Proof.
    induction fuel as [|f IH]; intros i j ranges; [reflexivity|]. cbn [src_IPSet_symmetric_difference_loop1 symdiff_loop].
    destruct (skipn j B) as [|tc other'] eqn:Eb.
    { rewrite (cursors_out A B) by (right; exact Eb). cbn [bind]. rewrite fin_xor_ok, Eb. cbn [map]. rewrite app_nil_r.
      destruct (skipn i A); reflexivity. }
    destruct (skipn i A) as [|oc own'] eqn:Ea.
    { rewrite (cursors_out A B) by (left; exact Ea). cbn [bind]. rewrite fin_xor_ok, Ea, Eb. cbn [map]. rewrite app_nil_r. reflexivity. }
    destruct (cursors_in A B i j _ _ _ _ Ea Eb) as (C & Ia & Ib). fold lenA lenB in C. rewrite C, Ia, Ib. cbn [bind].
    pose proof (skipn_S_tail _ _ _ _ Ea) as Sa. pose proof (skipn_S_tail _ _ _ _ Eb) as Sb.
    change (net_key_eqb oc tc) with (key_eqb oc tc). unfold py_net_ltb.
    destruct (key_eqb oc tc).
    { cbn [bind]. next_i i. next_i j. rewrite IH, Sa, Sb. reflexivity. }
    rewrite src_net_in_net. cbn [bind]. destruct (net_in_net oc tc).
    { rewrite (src_subtract_ok tc A i ranges), Ea.
      destruct (subtract tc (oc :: own') ranges) as [[rest rs']|] eqn:ES; [|reflexivity]. cbn [omap bind fst snd].
      rewrite <- Ea in ES. pose proof (subtract_suffix_index tc A i ranges rest rs' ES) as Sx.
      next_i j. rewrite IH, Sb, Sx. reflexivity. }
    rewrite src_net_in_net. cbn [bind]. destruct (net_in_net tc oc).
    { rewrite (src_subtract_ok oc B j ranges), Eb.
      destruct (subtract oc (tc :: other') ranges) as [[rest rs']|] eqn:ES; [|reflexivity]. cbn [omap bind fst snd].
      rewrite <- Eb in ES. pose proof (subtract_suffix_index oc B j ranges rest rs' ES) as Sx.
      next_i i. rewrite IH, Sa, Sx. reflexivity. }
    destruct (net_ltb oc tc); cbn [bind].
    - next_i i. rewrite IH, Sa, Eb. reflexivity.
    - next_i j. rewrite IH, Ea, Sb. reflexivity.
  Qed.
End Sweeps2.

(* ---------------------------------------------------------------- the three methods *)
Lemma Forall_rvalid_rok l : Forall rvalid l -> Forall rok l.
Proof. intros H. eapply Forall_impl; [|exact H]. exact rvalid_rok. Qed.

Lemma src_difference_ok a b : SetInv a -> SetInv b -> src_IPSet_difference a b = set_difference a b.
Proof.
  intros Ia Ib. unfold src_IPSet_difference, set_difference, py_sorted_nets. cbv zeta.
  set (A := sorted a). set (B := sorted b).
  replace (Z.to_nat (Z.of_nat (length a) + Z.of_nat (length b)) + 1)%nat with (length a + length b + 1)%nat by lia.
  set (FA := (Z.to_nat (Z.of_nat (length a)) + 1)%nat).
  assert (HFA : (length A < FA)%nat) by (unfold A, FA; rewrite s_sorted_length; lia).
  pose proof (src_diff_loop_ok A B FA HFA (length a + length b + 1) 0 0 [] []) as H. cbn [skipn] in H. change (Z.of_nat 0) with 0 in H.
  destruct (diff_loop_spec (length a + length b + 1) A B [] [] (s_sorted_good a Ia) (s_sorted_good b Ib)) as (G & R & HG & F & S & _).
  { unfold A, B. rewrite !s_sorted_length. lia. }
  cbn [app] in HG. pose proof (eq_trans H HG) as H2. clear H. rename H2 into H. rewrite HG. cbn [bind fst snd].
  destruct (src_IPSet_difference_loop1 (length a + length b + 1) (Z.of_nat (length A)) (Z.of_nat (length B)) A B 0 0 [] [])
    as [[[i' rs] res']|]; cbn [bind] in H |- *; [|discriminate].
  unfold fin_diff in H.
  destruct (src_IPSet_difference_loop2 FA (Z.of_nat (length A)) A res' i') as [res''|];
    cbn [bind] in H |- *; [|discriminate].
  injection H as -> ->.
  rewrite (src_iter_merged_ranges_ok G (Forall_rvalid_rok G F)). cbn [bind].
  destruct (iter_merged_ranges_spec G (conj F S)) as ((Fm & _) & _).
  rewrite (src_diff_loop3_ok _ _ (Forall_rvalid_rok _ Fm)).
  destruct (cidrs_of_ranges (iter_merged_ranges G)); reflexivity.
Qed.

Lemma src_symmetric_difference_ok a b : SetInv a -> SetInv b -> src_IPSet_symmetric_difference a b = set_symdiff a b.
Proof.
  intros Ia Ib. unfold src_IPSet_symmetric_difference, set_symdiff, py_sorted_nets. cbv zeta.
  set (A := sorted a). set (B := sorted b).
  replace (Z.to_nat (Z.of_nat (length a) + Z.of_nat (length b)) + 1)%nat with (length a + length b + 1)%nat by lia.
  set (FA := (Z.to_nat (Z.of_nat (length a)) + 1)%nat). set (FB := (Z.to_nat (Z.of_nat (length b)) + 1)%nat).
  assert (HFA : (length A < FA)%nat) by (unfold A, FA; rewrite s_sorted_length; lia).
  assert (HFB : (length B < FB)%nat) by (unfold B, FB; rewrite s_sorted_length; lia).
  pose proof (src_xor_loop_ok A B FA HFA FB HFB (length a + length b + 1) 0 0 []) as H. cbn [skipn] in H. change (Z.of_nat 0) with 0 in H.
  destruct (symdiff_loop_spec (length a + length b + 1) A B [] (s_sorted_good a Ia) (s_sorted_good b Ib)) as (G & HG & F & S & _).
  { unfold A, B. rewrite !s_sorted_length. lia. }
  cbn [app] in HG. pose proof (eq_trans H HG) as H2. clear H. rename H2 into H. rewrite HG. cbn [bind].
  destruct (src_IPSet_symmetric_difference_loop1 (length a + length b + 1) (Z.of_nat (length A)) (Z.of_nat (length B)) A B 0 0 [])
    as [[[i' j'] rs]|]; cbn [bind] in H |- *; [|discriminate].
  unfold fin_xor in H.
  destruct (src_IPSet_symmetric_difference_loop2 FA (Z.of_nat (length A)) A rs i') as [rs'|];
    cbn [bind] in H |- *; [|discriminate].
  rewrite H. cbn [bind].
  rewrite (src_iter_merged_ranges_ok G (Forall_rvalid_rok G F)). cbn [bind].
  destruct (iter_merged_ranges_spec G (conj F S)) as ((Fm & _) & _).
  rewrite (src_xor_loop4_ok _ _ (Forall_rvalid_rok _ Fm)).
  destruct (cidrs_of_ranges (iter_merged_ranges G)); reflexivity.
Qed.

(* iter_ipranges: IPRange(start, stop) of what _iter_merged_ranges yields *)
Lemma src_iter_ipranges_loop_ok : forall l acc, Forall rvalid l ->
  src_IPSet_iter_ipranges_loop1 (map pair_of l) acc = Ok (acc ++ l).
Proof.
  induction l as [|[[v s] e] r IH]; intros acc H; [cbn; rewrite app_nil_r; reflexivity|].
  inversion H as [|? ? (V & A & B & C) Hr]; subst. unfold rv, rs, re in *. cbn [fst snd] in *.
  cbn [map src_IPSet_iter_ipranges_loop1]. unfold pair_of at 1, rv, rs, re, py_iprange. cbn [fst snd].
  rewrite Z.eqb_refl. cbn [negb]. replace (s >? e) with false by lia. cbn [bind]. rewrite (IH _ Hr), <- app_assoc. reflexivity.
Qed.

Lemma src_iter_ipranges_ok d : SetInv d -> src_IPSet_iter_ipranges d = Ok (set_iter_ipranges d).
Proof.
  intros I. unfold src_IPSet_iter_ipranges, set_iter_ipranges. cbv zeta. rewrite src_iter_cidrs_ok.
  change (map (fun cidr : net => (nver cidr, src_IPNetwork_first (nver cidr) (width (nver cidr)) (nval cidr) (nplen cidr),
                                 src_IPNetwork_last (nver cidr) (width (nver cidr)) (nval cidr) (nplen cidr))) (sorted d))
    with (map rng_of (sorted d)).
  destruct (map_rng_of_spec (sorted d) (s_sorted_good d I)) as (F & S & _).
  rewrite (src_iter_merged_ranges_ok _ (Forall_rvalid_rok _ F)). cbn [bind].
  destruct (iter_merged_ranges_spec _ (conj F S)) as ((Fm & _) & _).
  rewrite (src_iter_ipranges_loop_ok _ [] Fm). reflexivity.
Qed.

(* everything the C07 source tie (sweeps) states (Props/C07_src_ops.v) *)
Lemma C07_ops_tie_ok :
  (forall sup L k ranges,
     src_sets_subtract sup L (Z.of_nat k) ranges =
       omap (fun r => (snd r, Z.of_nat (length L - length (fst r)))) (subtract sup (skipn k L) ranges)) /\
  (forall l, Forall rok l -> src_sets_iter_merged_ranges l = Ok (map pair_of (iter_merged_ranges l))) /\
  (forall a b, src_IPSet_intersection a b = set_intersection a b) /\
  (forall a b, src_IPSet_isdisjoint a b = set_isdisjoint a b) /\
  (forall a b, SetInv a -> SetInv b -> src_IPSet_difference a b = set_difference a b) /\
  (forall a b, SetInv a -> SetInv b -> src_IPSet_symmetric_difference a b = set_symdiff a b) /\
  (forall d, SetInv d -> src_IPSet_iter_ipranges d = Ok (set_iter_ipranges d)) /\
  (* the index loops equal the model's suffix loops for all operands (no hypothesis) *)
  (forall A B fuel i j res,
     src_IPSet_intersection_loop1 fuel (Z.of_nat (length A)) (Z.of_nat (length B)) A B res (Z.of_nat i) (Z.of_nat j) =
       inter_loop fuel (skipn i A) (skipn j B) res) /\
  (forall A B FA, (length A < FA)%nat -> forall fuel i j ranges res,
     bind (src_IPSet_difference_loop1 fuel (Z.of_nat (length A)) (Z.of_nat (length B)) A B (Z.of_nat i) (Z.of_nat j) ranges res) (fin_diff A FA) =
       diff_loop fuel (skipn i A) (skipn j B) ranges res) /\
  (forall A B FA, (length A < FA)%nat -> forall FB, (length B < FB)%nat -> forall fuel i j ranges,
     bind (src_IPSet_symmetric_difference_loop1 fuel (Z.of_nat (length A)) (Z.of_nat (length B)) A B (Z.of_nat i) (Z.of_nat j) ranges) (fin_xor A B FA FB) =
       symdiff_loop fuel (skipn i A) (skipn j B) ranges).
Proof.
  split; [exact src_subtract_ok|]. split; [exact src_iter_merged_ranges_ok|]. split; [exact src_intersection_ok|].
  split; [exact src_isdisjoint_ok|]. split; [exact src_difference_ok|]. split; [exact src_symmetric_difference_ok|].
  split; [exact src_iter_ipranges_ok|]. split; [exact src_inter_loop_ok|]. split; [exact src_diff_loop_ok|exact src_xor_loop_ok].
Qed.
