(* Proofs/C15_Dec.v — the decoders of Model/Codec.v: exact characterisation (value on well-formed input, exception
   otherwise), strictness and round trips. *)
From Coq Require Import String Ascii.
From NV Require Import Base.Tac Base.PyVal Base.Bits Base.PyStr Base.PyStrFacts Model.Ip Model.Codec
  Proofs.C15_Digits Proofs.C15 Proofs.GenOk_C15 Proofs.C15_Arpa.
Close Scope string_scope.
Open Scope Z_scope.

(* ------------------------------------------------------------------------------------------------ *)
(* words *)
Lemma valid_words_iff words ws nw :
  valid_words words ws nw = true <-> Z.of_nat (List.length words) = nw /\ Forall (fun d => 0 <= d < 2 ^ ws) words.
Proof.
  unfold valid_words. destruct (Z.eqb_spec (Z.of_nat (List.length words)) nw) as [E|E]; cbn [negb].
  - rewrite forallb_forall, Forall_forall. split.
    + intros H. split; [exact E|]. intros x Hx. specialize (H x Hx). lia.
    + intros [_ H] x Hx. specialize (H x Hx). lia.
  - split; [discriminate|]. intros [E' _]. contradiction.
Qed.

Lemma words_to_int_char words ws nw : 0 <= ws ->
  words_to_int words ws nw =
  if valid_words words ws nw then Ok (from_digits (2 ^ ws) words) else Raise ValueError.
Proof.
  intros Hws. unfold words_to_int. destruct (valid_words words ws nw) eqn:E; cbn [negb]; [|reflexivity].
  apply valid_words_iff in E. destruct E as [_ HF]. now rewrite lor_words_rev.
Qed.

Lemma words_strict ws nw words v : 0 <= ws -> 0 <= nw ->
  Z.of_nat (List.length words) = nw -> Forall (fun d => 0 <= d < 2 ^ ws) words -> v = from_digits (2 ^ ws) words ->
  words = spec_words ws nw v /\ 0 <= v < 2 ^ (ws * nw).
Proof.
  intros Hws Hnw Hlen HF ->.
  assert (Hp : 0 < 2 ^ ws) by (apply Z.pow_pos_nonneg; lia).
  split.
  - unfold spec_words. replace (Z.to_nat nw) with (List.length words) by lia. symmetry.
    apply digits_be_unique; assumption.
  - split; [apply from_digits_nonneg; [lia|exact HF]|].
    rewrite Z.pow_mul_r by lia. rewrite <- Hlen. apply from_digits_bound; [lia|exact HF].
Qed.

Lemma words_to_int_strict words ws nw v : 0 <= ws -> 0 <= nw -> words_to_int words ws nw = Ok v ->
  words = spec_words ws nw v /\ 0 <= v < 2 ^ (ws * nw).
Proof.
  intros Hws Hnw. rewrite words_to_int_char by exact Hws.
  destruct (valid_words words ws nw) eqn:E; [|discriminate]. intros H. injection H as <-.
  apply valid_words_iff in E. destruct E as [Hlen HF]. now apply words_strict.
Qed.

Lemma valid_words_spec ws nw v : 0 <= ws -> 0 <= nw -> valid_words (spec_words ws nw v) ws nw = true.
Proof.
  intros Hws Hnw. apply valid_words_iff. split; [rewrite spec_words_length; lia|now apply spec_words_range].
Qed.

Lemma words_to_int_roundtrip ws nw v : 0 <= ws -> 0 <= nw -> 0 <= v < 2 ^ (ws * nw) ->
  words_to_int (spec_words ws nw v) ws nw = Ok v.
Proof.
  intros Hws Hnw Hv. rewrite words_to_int_char, valid_words_spec by assumption. f_equal.
  unfold spec_words. apply from_digits_digits_be_small; [apply Z.pow_pos_nonneg; lia|].
  rewrite <- Z.pow_mul_r by lia. rewrite Z2Nat.id by lia. exact Hv.
Qed.

Lemma flat_map_digits1 l : Forall (fun x => 0 <= x < 256 ^ Z.of_nat 1) l -> flat_map (digits_be 256 1) l = l.
Proof.
  intros HF. induction HF as [|x l Hx HF IH]; [reflexivity|]. cbn [flat_map]. rewrite IH.
  rewrite digits_be_S_cons. try rewrite digits_be_0. cbn [app]. f_equal. change (256 ^ Z.of_nat 0) with 1. rewrite Z.div_1_r.
  apply Z.mod_small. exact Hx.
Qed.

Lemma ipv4_words_to_int_char d words : d_ws d = 8 -> d_nw d = 4 ->
  ipv4_words_to_int d words =
  if valid_words words 8 4 then Ok (from_digits (2 ^ 8) words) else Raise ValueError.
Proof.
  intros E1 E2. unfold ipv4_words_to_int. rewrite E1, E2.
  destruct (valid_words words 8 4) eqn:E; cbn [negb]; [|reflexivity].
  apply valid_words_iff in E. destruct E as [Hlen HF].
  assert (HF' : Forall (fun x => 0 <= x < 256 ^ Z.of_nat 1) words) by exact HF.
  replace [1; 1; 1; 1]%nat with (repeat 1%nat (List.length words)) by (replace (List.length words) with 4%nat by lia; reflexivity).
  rewrite struct_pack_uniform by exact HF'. cbn [bind]. rewrite flat_map_digits1 by exact HF'.
  change [4%nat] with (repeat 4%nat 1).
  rewrite struct_unpack_uniform; [|lia|lia|exact HF].
  cbn [bind]. rewrite digits_be_S_cons. try rewrite digits_be_0. f_equal. change ((256 ^ Z.of_nat 4) ^ Z.of_nat 0) with 1.
  rewrite Z.div_1_r. apply Z.mod_small.
  split; [apply from_digits_nonneg; [lia|exact HF]|].
  replace 4%nat with (List.length words) by lia. apply from_digits_bound; [lia|exact HF].
Qed.

(* ------------------------------------------------------------------------------------------------ *)
(* packed *)
Definition bytes_ok (buf : list Z) : Prop := Forall (fun b => 0 <= b < 256) buf.

Lemma bytes_of_str_ok s : bytes_ok (bytes_of_str s).
Proof. unfold bytes_ok, bytes_of_str. apply Forall_forall. intros b Hb. apply in_map_iff in Hb. destruct Hb as (c & <- & _). apply code_range. Qed.

Lemma from_digits_256_bound buf : bytes_ok buf -> 0 <= from_digits 256 buf < 256 ^ Z.of_nat (List.length buf).
Proof. intros H. split; [apply from_digits_nonneg; [lia|exact H]|apply from_digits_bound; [lia|exact H]]. Qed.

(* n fields of k bytes, recombined with `|` and `<<` *)
Lemma unpack_lor k n buf : (0 < k)%nat -> bytes_ok buf -> List.length buf = (k * n)%nat ->
  (do words <- struct_unpack (repeat k n) buf; Ok (lor_words (rev words) 0 (8 * Z.of_nat k) 0)) =
  Ok (from_digits 256 buf).
Proof.
  intros Hk HB Hlen. rewrite struct_unpack_uniform; [|lia|exact Hlen|exact HB]. cbn [bind]. f_equal.
  rewrite pow2_256. rewrite lor_words_rev by (try lia; apply digits_be_range; apply Z.pow_pos_nonneg; lia).
  apply from_digits_digits_be_small; [apply Z.pow_pos_nonneg; lia|].
  rewrite <- pow2_256. rewrite <- Z.pow_mul_r by lia.
  pose proof (from_digits_256_bound buf HB) as HB'. rewrite Hlen in HB'.
  replace (Z.of_nat k * Z.of_nat n) with (Z.of_nat (k * n)) by lia. exact HB'.
Qed.

Lemma ipv4_packed_to_int_char buf : bytes_ok buf ->
  ipv4_packed_to_int buf = if Nat.eqb (List.length buf) 4 then Ok (from_digits 256 buf) else Raise StructError.
Proof.
  intros HB. unfold ipv4_packed_to_int. destruct (Nat.eqb_spec (List.length buf) 4) as [E|E].
  - change [4%nat] with (repeat 4%nat 1). rewrite struct_unpack_uniform; [|lia|lia|exact HB]. cbn [bind].
    rewrite digits_be_S_cons. try rewrite digits_be_0. f_equal. change ((256 ^ Z.of_nat 4) ^ Z.of_nat 0) with 1.
    rewrite Z.div_1_r. apply Z.mod_small. rewrite <- E. now apply from_digits_256_bound.
  - rewrite struct_unpack_raises by exact E. reflexivity.
Qed.

Lemma ipv6_packed_to_int_char buf : bytes_ok buf ->
  ipv6_packed_to_int buf = if Nat.eqb (List.length buf) 16 then Ok (from_digits 256 buf) else Raise StructError.
Proof.
  intros HB. unfold ipv6_packed_to_int. destruct (Nat.eqb_spec (List.length buf) 16) as [E|E].
  - change [4; 4; 4; 4]%nat with (repeat 4%nat 4). change 32 with (8 * Z.of_nat 4). apply unpack_lor; [lia|exact HB|lia].
  - rewrite struct_unpack_raises by exact E. reflexivity.
Qed.

Lemma eui48_packed_to_int_char buf : bytes_ok buf ->
  eui48_packed_to_int buf = if Nat.eqb (List.length buf) 6 then Ok (from_digits 256 buf) else Raise StructError.
Proof.
  intros HB. unfold eui48_packed_to_int. destruct (Nat.eqb_spec (List.length buf) 6) as [E|E].
  - change [1; 1; 1; 1; 1; 1]%nat with (repeat 1%nat 6). change 8 with (8 * Z.of_nat 1). apply unpack_lor; [lia|exact HB|lia].
  - rewrite struct_unpack_raises by exact E. reflexivity.
Qed.

Lemma eui64_packed_to_int_char buf : bytes_ok buf ->
  eui64_packed_to_int buf = if Nat.eqb (List.length buf) 8 then Ok (from_digits 256 buf) else Raise StructError.
Proof.
  intros HB. unfold eui64_packed_to_int. destruct (Nat.eqb_spec (List.length buf) 8) as [E|E].
  - change [1; 1; 1; 1; 1; 1; 1; 1]%nat with (repeat 1%nat 8). change 8 with (8 * Z.of_nat 1).
    apply unpack_lor; [lia|exact HB|lia].
  - rewrite struct_unpack_raises by exact E. reflexivity.
Qed.

Lemma packed_strict n buf v : bytes_ok buf -> List.length buf = n -> v = from_digits 256 buf ->
  buf = digits_be 256 n v /\ 0 <= v < 256 ^ Z.of_nat n.
Proof.
  intros HB <- ->. split; [symmetry; apply digits_be_unique; [lia|exact HB]|now apply from_digits_256_bound].
Qed.

(* ------------------------------------------------------------------------------------------------ *)
(* binary digit strings *)
Lemma is_bin_digit_cases c : is_bin_digit c = true -> c = "0"%char \/ c = "1"%char.
Proof. unfold is_bin_digit. intros H. apply orb_true_iff in H. destruct H as [H|H]; apply ascii_eqb_eq in H; auto. Qed.

Lemma bit_char_bit_val c : is_bin_digit c = true -> bit_char (bit_val c) = c.
Proof. intros H. destruct (is_bin_digit_cases c H) as [-> | ->]; reflexivity. Qed.

Lemma bit_val_bit_char d : 0 <= d < 2 -> bit_val (bit_char d) = d.
Proof. intros H. assert (d = 0 \/ d = 1) as [-> | ->] by lia; reflexivity. Qed.

Lemma is_bin_digit_bit_char d : is_bin_digit (bit_char d) = true.
Proof. unfold bit_char. destruct (d =? 0); reflexivity. Qed.

Lemma bit_val_range c : 0 <= bit_val c < 2.
Proof. unfold bit_val. destruct (ascii_eqb c "1"); lia. Qed.

Lemma all_bin_digits_iff s : all_bin_digits s = true <-> Forall (fun c => is_bin_digit c = true) (chars s).
Proof. unfold all_bin_digits. rewrite forallb_forall, Forall_forall. reflexivity. Qed.

Lemma py_int_bin_digits t : t <> EmptyString -> all_bin_digits t = true ->
  py_int 2 t = Some (from_digits 2 (map bit_val (chars t))).
Proof.
  intros Hne Hb. rewrite all_bin_digits_iff, Forall_forall in Hb.
  rewrite py_int_digits.
  - f_equal. f_equal. apply map_ext_in. intros c Hc. destruct (is_bin_digit_cases c (Hb c Hc)) as [-> | ->]; reflexivity.
  - exact Hne.
  - intros c Hc. destruct (is_bin_digit_cases c (Hb c Hc)) as [-> | ->]; eexists; reflexivity.
Qed.

Lemma bin_value_bound t : 0 <= from_digits 2 (map bit_val (chars t)) < 2 ^ str_len t.
Proof.
  assert (HF : Forall (fun d => 0 <= d < 2) (map bit_val (chars t))).
  { apply Forall_forall. intros d Hd. apply in_map_iff in Hd. destruct Hd as (c & <- & _). apply bit_val_range. }
  split; [apply from_digits_nonneg; [lia|exact HF]|].
  unfold str_len. rewrite <- length_chars, <- (map_length bit_val). apply from_digits_bound; [lia|exact HF].
Qed.

(* int(t, 2) on a non-empty all-binary string of at most `width` digits passes the range test *)
Lemma int2_in_range_bin t width : t <> EmptyString -> all_bin_digits t = true -> str_len t <= width ->
  int2_in_range t width = true.
Proof.
  intros Hne Hb Hlen. unfold int2_in_range. rewrite py_int_bin_digits by assumption.
  pose proof (bin_value_bound t) as [H0 H1].
  assert (2 ^ str_len t <= 2 ^ width) by (apply Z.pow_le_mono_r; [lia|exact Hlen]). lia.
Qed.

Lemma str_len_pos_nonempty t : 0 < str_len t -> t <> EmptyString.
Proof. intros H ->. cbn in H. lia. Qed.

(* well-formed `bits` text: exactly `width` binary digits once the separators are removed *)
Definition bits_wf (t : string) (width : Z) : bool := (str_len t =? width) && all_bin_digits t.

Lemma valid_bits_char s width sep : 0 < width -> valid_bits s width sep = bits_wf (strip_sep sep s) width.
Proof.
  intros Hw. unfold valid_bits, bits_wf. set (t := strip_sep sep s).
  destruct (Z.eqb_spec (str_len t) width) as [E|E]; cbn [negb andb]; [|reflexivity].
  destruct (all_bin_digits t) eqn:Eb; cbn [negb]; [|reflexivity].
  apply int2_in_range_bin; [apply str_len_pos_nonempty; lia|exact Eb|lia].
Qed.

Lemma bits_to_int_char s width sep : 0 < width ->
  bits_to_int s width sep =
  if bits_wf (strip_sep sep s) width then Ok (from_digits 2 (map bit_val (chars (strip_sep sep s))))
  else Raise ValueError.
Proof.
  intros Hw. unfold bits_to_int. rewrite valid_bits_char by exact Hw.
  destruct (bits_wf (strip_sep sep s) width) eqn:E; cbn [negb]; [|reflexivity].
  unfold bits_wf in E. apply andb_true_iff in E. destruct E as [E1 E2]. apply Z.eqb_eq in E1.
  rewrite py_int_bin_digits; [reflexivity|apply str_len_pos_nonempty; lia|exact E2].
Qed.

Lemma bin_digits_strict t v : all_bin_digits t = true -> v = from_digits 2 (map bit_val (chars t)) ->
  chars t = spec_bin_fixed (String.length t) v /\ 0 <= v < 2 ^ str_len t.
Proof.
  intros Hb ->. split; [|apply bin_value_bound].
  unfold spec_bin_fixed. rewrite <- length_chars, <- (map_length bit_val).
  rewrite digits_be_unique.
  - rewrite map_map. rewrite <- (map_id (chars t)) at 1. apply map_ext_in. intros c Hc. symmetry. apply bit_char_bit_val.
    rewrite all_bin_digits_iff, Forall_forall in Hb. now apply Hb.
  - lia.
  - apply Forall_forall. intros d Hd. apply in_map_iff in Hd. destruct Hd as (c & <- & _). apply bit_val_range.
Qed.

Lemma bits_to_int_strict s width sep v : 0 < width -> bits_to_int s width sep = Ok v ->
  chars (strip_sep sep s) = spec_bin_fixed (Z.to_nat width) v /\ 0 <= v < 2 ^ width.
Proof.
  intros Hw. rewrite bits_to_int_char by exact Hw.
  destruct (bits_wf (strip_sep sep s) width) eqn:E; [|discriminate]. intros H. injection H as Hv.
  unfold bits_wf in E. apply andb_true_iff in E. destruct E as [E1 E2]. apply Z.eqb_eq in E1.
  destruct (bin_digits_strict _ v E2 (eq_sym Hv)) as [H1 H2]. rewrite E1 in H2. split; [|exact H2].
  rewrite H1. f_equal. unfold str_len in E1. lia.
Qed.

Lemma spec_bin_fixed_bin n v : Forall (fun c => is_bin_digit c = true) (spec_bin_fixed n v).
Proof. apply Forall_forall. intros c Hc. apply in_map_iff in Hc. destruct Hc as (d & <- & _). apply is_bin_digit_bit_char. Qed.

Lemma value_of_spec_bin_fixed n v : 0 <= v < 2 ^ Z.of_nat n ->
  from_digits 2 (map bit_val (spec_bin_fixed n v)) = v.
Proof.
  intros Hv. unfold spec_bin_fixed. rewrite map_map.
  rewrite (map_ext_in _ (fun d => d)), map_id.
  - apply from_digits_digits_be_small; [lia|exact Hv].
  - intros d Hd. apply bit_val_bit_char. pose proof (digits_be_range 2 n v ltac:(lia)) as HR.
    rewrite Forall_forall in HR. now apply HR.
Qed.

Lemma bits_to_int_roundtrip ws nw sep v : 0 < ws -> 0 < nw -> sep_ok sep = true -> 0 <= v < 2 ^ (ws * nw) ->
  bits_to_int (spec_bits ws nw sep v) (ws * nw) sep = Ok v.
Proof.
  intros Hws Hnw Hsep Hv. rewrite bits_to_int_char by nia.
  assert (Hc : chars (strip_sep sep (spec_bits ws nw sep v)) = spec_bin_fixed (Z.to_nat (ws * nw)) v).
  { unfold spec_bits. rewrite <- map_map. rewrite strip_sep_join.
    - apply concat_spec_bits; lia.
    - exact Hsep.
    - apply Forall_forall. intros t Ht. apply in_map_iff in Ht. destruct Ht as (x & <- & _).
      intros c Hc. pose proof (spec_bin_fixed_bin (Z.to_nat ws) x) as HB. rewrite Forall_forall in HB. now apply HB. }
  unfold bits_wf. rewrite Hc.
  assert (E1 : str_len (strip_sep sep (spec_bits ws nw sep v)) = ws * nw).
  { unfold str_len. rewrite <- length_chars, Hc, spec_bin_fixed_length. nia. }
  rewrite E1, Z.eqb_refl. cbn [andb].
  assert (E2 : all_bin_digits (strip_sep sep (spec_bits ws nw sep v)) = true).
  { apply all_bin_digits_iff. rewrite Hc. apply spec_bin_fixed_bin. }
  rewrite E2. f_equal. apply value_of_spec_bin_fixed. rewrite Z2Nat.id by nia. exact Hv.
Qed.

(* ------------------------------------------------------------------------------------------------ *)
(* '0b' numerals *)
Lemma replace_chars_0b_bin t : Forall (fun c => is_bin_digit c = true) t -> forall fuel, (List.length t < fuel)%nat ->
  replace_chars fuel ["0"; "b"]%char [] t = t.
Proof.
  intros HF. induction HF as [|c t Hc HF IH]; intros fuel Hf.
  - destruct fuel; reflexivity.
  - destruct fuel as [|f]; [cbn in Hf; lia|]. cbn [List.length] in Hf.
    cbn [replace_chars].
    assert (Hs : starts_with_chars ["0"; "b"]%char (c :: t) = false).
    { cbn [starts_with_chars]. destruct t as [|x r]; [apply andb_false_r|].
      inversion HF as [|? ? Hx _]; subst. destruct (is_bin_digit_cases x Hx) as [-> | ->]; cbn; apply andb_false_r. }
    rewrite Hs. f_equal. apply IH. lia.
Qed.

Lemma replace_chars_0b_head t fuel :
  replace_chars (S fuel) ["0"; "b"]%char [] ("0"%char :: "b"%char :: t) = replace_chars fuel ["0"; "b"]%char [] t.
Proof. reflexivity. Qed.

Lemma replace_0b t : all_bin_digits t = true -> replace "0b" "" ("0b" ++ t)%string = t.
Proof.
  intros Hb. apply all_bin_digits_iff in Hb. unfold replace.
  change (chars ("0b" ++ t)%string) with ("0"%char :: "b"%char :: chars t).
  change (String.length ("0b" ++ t)%string) with (S (S (String.length t))).
  change (chars "0b") with ["0"; "b"]%char. change (chars "") with (@nil ascii).
  rewrite replace_chars_0b_head.
  rewrite replace_chars_0b_bin; [apply str_of_chars|exact Hb|rewrite length_chars; lia].
Qed.

(* well-formed '0b' numeral: prefix, then 1..width binary digits *)
Definition bin_wf (s : string) (width : Z) : bool :=
  starts_with "0b" s && negb (str_len (drop2 s) =? 0) && (str_len (drop2 s) <=? width) && all_bin_digits (drop2 s).

Lemma valid_bin_char s width : valid_bin s width = bin_wf s width.
Proof.
  unfold valid_bin, bin_wf. destruct (starts_with "0b" s); cbn [negb andb]; [|reflexivity].
  set (t := drop2 s).
  destruct (Z.gtb_spec (str_len t) width) as [Hgt|Hle].
  { destruct (Z.leb_spec (str_len t) width); [lia|]. now rewrite andb_false_r. }
  destruct (Z.leb_spec (str_len t) width); [|lia]. rewrite andb_true_r.
  destruct (all_bin_digits t) eqn:Eb; cbn [negb]; [|now rewrite andb_false_r]. rewrite andb_true_r.
  destruct (Z.eqb_spec (str_len t) 0) as [E0|E0]; cbn [negb].
  - assert (t = EmptyString) as ->. { destruct t; [reflexivity|]. unfold str_len in E0. cbn in E0. lia. }
    reflexivity.
  - apply int2_in_range_bin; [|exact Eb|lia]. intros ->. apply E0. reflexivity.
Qed.

Lemma bin_wf_shape s width : bin_wf s width = true ->
  s = ("0b" ++ drop2 s)%string /\ 1 <= str_len (drop2 s) <= width /\ all_bin_digits (drop2 s) = true.
Proof.
  unfold bin_wf. intros H. repeat (apply andb_true_iff in H; destruct H as [H ?]).
  apply starts_with_iff in H. destruct H as [r ->]. rewrite drop2_0b in *.
  pose proof (str_len_nonneg r). split; [reflexivity|]. split; [lia|assumption].
Qed.

Lemma bin_to_int_char s width :
  bin_to_int s width =
  if bin_wf s width then Ok (from_digits 2 (map bit_val (chars (drop2 s)))) else Raise ValueError.
Proof.
  unfold bin_to_int. rewrite valid_bin_char. destruct (bin_wf s width) eqn:E; cbn [negb]; [|reflexivity].
  destruct (bin_wf_shape s width E) as (Hs & Hlen & Hb). rewrite Hs at 1. rewrite replace_0b by exact Hb.
  rewrite py_int_bin_digits; [reflexivity|apply str_len_pos_nonempty; lia|exact Hb].
Qed.

Lemma bin_to_int_strict s width v : bin_to_int s width = Ok v ->
  exists t, s = ("0b" ++ t)%string /\ 1 <= str_len t <= width /\
            chars t = spec_bin_fixed (String.length t) v /\ 0 <= v < 2 ^ width.
Proof.
  rewrite bin_to_int_char. destruct (bin_wf s width) eqn:E; [|discriminate]. intros H. injection H as Hv.
  destruct (bin_wf_shape s width E) as (Hs & Hlen & Hb). exists (drop2 s). split; [exact Hs|]. split; [exact Hlen|].
  destruct (bin_digits_strict _ v Hb (eq_sym Hv)) as [H1 H2]. split; [exact H1|].
  assert (2 ^ str_len (drop2 s) <= 2 ^ width) by (apply Z.pow_le_mono_r; lia). lia.
Qed.

Lemma bin_to_int_roundtrip v width : 0 < width -> 0 <= v < 2 ^ width -> bin_to_int (spec_bin v) width = Ok v.
Proof.
  intros Hw Hv. rewrite bin_to_int_char. unfold spec_bin, bin_wf. rewrite drop2_0b, starts_with_app. cbn [andb].
  pose proof (spec_bin_body_length v width Hw Hv) as HL.
  destruct (Z.eqb_spec v 0) as [->|Hnz].
  - cbn [List.length] in HL. change (str_len "0") with 1. change (1 =? 0) with false. cbn [negb andb].
    destruct (Z.leb_spec 1 width); [|lia]. reflexivity.
  - set (n := Z.to_nat (Z.log2 v + 1)) in *. rewrite spec_bin_fixed_length in HL.
    assert (Hlen : str_len (str_of (spec_bin_fixed n v)) = Z.of_nat n) by (unfold str_len; now rewrite length_str_of, spec_bin_fixed_length).
    rewrite Hlen. destruct (Z.eqb_spec (Z.of_nat n) 0); [lia|]. destruct (Z.leb_spec (Z.of_nat n) width); [|lia].
    cbn [negb andb].
    assert (Hb : all_bin_digits (str_of (spec_bin_fixed n v)) = true).
    { apply all_bin_digits_iff. rewrite chars_str_of. apply spec_bin_fixed_bin. }
    rewrite Hb. f_equal. rewrite chars_str_of. apply value_of_spec_bin_fixed. apply log2_digits. lia.
Qed.
