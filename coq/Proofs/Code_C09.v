(* Proofs/Code_C09.v — the C09 property theorems restated about the definitions regenerated from the source
   (Gen/pysrc_partition_gen.v: src_cidr_partition, src_cidr_exclude; Gen/pysrc_gen.v: src_IPNetwork_first / _last).
   Each lemma is the model theorem of Proofs/C09.v transported through the source tie of Proofs/GenOk_Src_C09.v.
   Also the small shared vocabulary for reading generated IPNetwork objects (`net` records) that the other
   Code_Cxx.v files import:
     code_first n / code_last n : the generated `first` / `last` properties evaluated on the object n
     cblks l                    : a list of objects read as model pairs (value, prefixlen)
     all_ver ver l              : every object of l has version ver. *)
From NV Require Import Base.Tac Base.PyVal Base.Bits Base.Canon Model.Ip Model.Partition Model.Merge Model.SrcPrelude
  Gen.pysrc_gen Gen.pysrc_partition_gen Proofs.C02 Proofs.C09 Proofs.GenOk_Src_C02 Proofs.GenOk_Src_C09.
Import ListNotations.
Open Scope Z_scope.

(* ------------------------------------------------------------------ shared vocabulary *)
Definition code_first (n : net) : Z := src_IPNetwork_first (nver n) (width (nver n)) (nval n) (nplen n).
Definition code_last (n : net) : Z := src_IPNetwork_last (nver n) (width (nver n)) (nval n) (nplen n).
Definition cblks (l : list net) : list cblk := map cblk_of_net l.
Definition all_ver (ver : Z) (l : list net) : Prop := Forall (fun n => nver n = ver) l.

(* E overlaps T and is strictly finer (the halving loop runs), read off the generated first / last *)
Definition code_splits (t e : net) : Prop :=
  code_first t <= code_last e /\ code_first e <= code_last t /\ nplen t < nplen e.

Lemma cblks_nets ver l : cblks (nets ver l) = l.
Proof. unfold cblks, nets. rewrite map_map. induction l as [|[a b] l IH]; [reflexivity|]. cbn [map]. rewrite IH. reflexivity. Qed.

Lemma all_ver_nets ver l : all_ver ver (nets ver l).
Proof. unfold all_ver, nets. apply Forall_forall. intros n H. apply in_map_iff in H. destruct H as (c & <- & _). reflexivity. Qed.

Lemma wf_net_cblk n : wf_net n -> wf_cblk (width (nver n)) (cblk_of_net n).
Proof. intros (_ & Hv & Hp). split; assumption. Qed.

Lemma code_first_of n : wf_net n -> code_first n = first_of (width (nver n)) (cblk_of_net n).
Proof.
  intros (_ & Hv & Hp). unfold code_first. rewrite src_first_ok, net_first_eq by assumption. reflexivity.
Qed.
Lemma code_last_of n : wf_net n -> code_last n = last_of (width (nver n)) (cblk_of_net n).
Proof.
  intros (_ & Hv & Hp). unfold code_last. rewrite src_last_ok, net_last_eq by assumption. reflexivity.
Qed.

Lemma code_splits_of t e : wf_net t -> wf_net e -> nver t = nver e ->
  code_splits t e -> splits (width (nver e)) (cblk_of_net t) (cblk_of_net e).
Proof.
  intros Ht He Hve (S1 & S2 & S3). rewrite !(code_first_of _ Ht), !(code_last_of _ Ht) in *.
  rewrite !(code_first_of _ He), !(code_last_of _ He) in *. rewrite Hve in *. split; [exact S1|]. split; [exact S2|exact S3].
Qed.

(* ------------------------------------------------------------------ the tie, in the two directions used below *)
Section Tie.
Variables t e : net.
Hypothesis Ht : wf_net t.
Hypothesis He : wf_net e.
Hypothesis Hve : nver t = nver e.
Let ver := nver e.
Let w := width ver.
Let T := cblk_of_net t.
Let E := cblk_of_net e.

Lemma code_partition_tie : src_cidr_partition t e = omap (nets3 ver) (cidr_partition w T E).
Proof.
  destruct Ht as (_ & Hv & Hp). destruct He as (Hver & _). apply src_cidr_partition_ok; assumption.
Qed.
Lemma code_exclude_tie : src_cidr_exclude t e = omap (nets ver) (cidr_exclude w T E).
Proof.
  destruct Ht as (_ & Hv & Hp). destruct He as (Hver & _). apply src_cidr_exclude_ok; assumption.
Qed.

Lemma wfT : wf_cblk w T. Proof. unfold w, ver. rewrite <- Hve. apply wf_net_cblk. exact Ht. Qed.
Lemma wfE : wf_cblk w E. Proof. apply wf_net_cblk. exact He. Qed.
Lemma w_nonneg : 0 <= w. Proof. apply width_nonneg. Qed.
Lemma tfE : code_first t = first_of w T. Proof. rewrite (code_first_of _ Ht). unfold w, ver. rewrite Hve. reflexivity. Qed.
Lemma tlE : code_last t = last_of w T. Proof. rewrite (code_last_of _ Ht). unfold w, ver. rewrite Hve. reflexivity. Qed.
Lemma efE : code_first e = first_of w E. Proof. apply code_first_of. exact He. Qed.
Lemma elE : code_last e = last_of w E. Proof. apply code_last_of. exact He. Qed.

(* a result of the generated function is the image of a result of the model *)
Lemma code_partition_inv b m a : src_cidr_partition t e = Ok (b, m, a) ->
  cidr_partition w T E = Ok (cblks b, cblks m, cblks a) /\ all_ver ver b /\ all_ver ver m /\ all_ver ver a.
Proof.
  rewrite code_partition_tie. destruct (cidr_partition w T E) as [[[b' m'] a']|x]; [|discriminate].
  cbn [omap nets3 fst snd]. intros H. injection H as <- <- <-. rewrite !cblks_nets.
  split; [reflexivity|]. split; [|split]; apply all_ver_nets.
Qed.

Lemma code_partition_of_model b m a : cidr_partition w T E = Ok (b, m, a) ->
  src_cidr_partition t e = Ok (nets ver b, nets ver m, nets ver a).
Proof. intros H. rewrite code_partition_tie, H. reflexivity. Qed.

(* ------------------------------------------------------------------ C09_partition *)
Lemma code_partition_spec :
  let tf := code_first t in let tl := code_last t in
  let ef := code_first e in let el := code_last e in
  let tc := {| nver := nver t; nval := code_first t; nplen := nplen t |} in
  (el < tf -> src_cidr_partition t e = Ok ([], [], [tc])) /\
  (tl < ef -> src_cidr_partition t e = Ok ([tc], [], [])) /\
  (tf <= el -> ef <= tl -> nplen e <= nplen t -> src_cidr_partition t e = Ok ([], [t], [])) /\
  (tf <= el -> ef <= tl -> nplen t < nplen e ->
     exists b a, src_cidr_partition t e = Ok (b, [e], a) /\ tf <= ef /\ el <= tl /\
       all_ver (nver e) b /\ all_ver (nver e) a /\
       canon w (blks_of (cblks b)) /\ (forall x, covered w (blks_of (cblks b)) x <-> tf <= x <= tl /\ x < ef) /\
       canon w (blks_of (cblks a)) /\ (forall x, covered w (blks_of (cblks a)) x <-> tf <= x <= tl /\ el < x) /\
       distinct_finer (nplen t) (cblks b) /\ distinct_finer (nplen t) (cblks a)).
Proof.
  cbv zeta. rewrite tfE, tlE, efE, elE.
  destruct (partition_spec w w_nonneg T E wfT wfE) as (P1 & P2 & P3 & P4). cbv zeta in P4.
  assert (Tc: {| nver := nver t; nval := first_of w T; nplen := nplen t |} = net_of_cblk ver (cidr_of w T)).
  { unfold net_of_cblk, cidr_of, ver. rewrite Hve. reflexivity. }
  rewrite Tc.
  split; [intros C; rewrite (code_partition_of_model _ _ _ (P1 C)); reflexivity|].
  split; [intros C; rewrite (code_partition_of_model _ _ _ (P2 C)); reflexivity|].
  split.
  - intros C1 C2 C3. rewrite (code_partition_of_model _ _ _ (P3 C1 C2 C3)). unfold nets. cbn [map].
    unfold ver, T. rewrite <- Hve, net_of_cblk_of_net. reflexivity.
  - intros C1 C2 C3. destruct (P4 C1 C2 C3) as (b & a & R & Q1 & Q2 & Q3 & Q4 & Q5 & Q6 & Q7 & Q8).
    exists (nets ver b), (nets ver a). rewrite !cblks_nets.
    split. { rewrite (code_partition_of_model _ _ _ R). unfold nets at 2. cbn [map]. unfold ver, E. rewrite net_of_cblk_of_net. reflexivity. }
    split; [exact Q1|]. split; [exact Q2|]. split; [apply all_ver_nets|]. split; [apply all_ver_nets|].
    split; [exact Q3|]. split; [exact Q4|]. split; [exact Q5|]. split; [exact Q6|]. split; [exact Q7|exact Q8].
Qed.

Hypothesis HS : code_splits t e.
Lemma splitsTE : splits w T E. Proof. apply code_splits_of; assumption. Qed.

Section Result.
Variables b m a : list net.
Hypothesis R : src_cidr_partition t e = Ok (b, m, a).

Lemma code_partition_split :
  m = [e] /\ all_ver (nver e) b /\ all_ver (nver e) a /\
  code_first t <= code_first e /\ code_last e <= code_last t /\
  canon w (blks_of (cblks b)) /\
  (forall x, covered w (blks_of (cblks b)) x <-> code_first t <= x <= code_last t /\ x < code_first e) /\
  canon w (blks_of (cblks a)) /\
  (forall x, covered w (blks_of (cblks a)) x <-> code_first t <= x <= code_last t /\ code_last e < x) /\
  distinct_finer (nplen t) (cblks b) /\ distinct_finer (nplen t) (cblks a).
Proof.
  destruct (code_partition_inv _ _ _ R) as (M & Vb & Vm & Va).
  destruct (partition_split w T E _ _ _ w_nonneg wfT wfE splitsTE M) as (Q0 & Q1 & Q2 & Q3 & Q4 & Q5 & Q6 & Q7 & Q8).
  rewrite tfE, tlE, efE, elE.
  split.
  { destruct m as [|x [|y r]]; cbn in Q0; try discriminate. injection Q0 as Q0 Q0'.
    inversion Vm as [|? ? Vx _]; subst. f_equal. destruct x as [xv xa xp], e as [ev ea ep].
    cbn [nver nval nplen] in *. unfold ver in Vx. cbn [nver] in Vx. congruence. }
  split; [exact Vb|]. split; [exact Va|]. split; [exact Q1|]. split; [exact Q2|].
  split; [exact Q3|]. split; [exact Q4|]. split; [exact Q5|]. split; [exact Q6|]. split; [exact Q7|exact Q8].
Qed.

Lemma code_partition_tiles : forall x,
  (code_first t <= x <= code_last t <->
     covered w (blks_of (cblks b)) x \/ code_first e <= x <= code_last e \/ covered w (blks_of (cblks a)) x) /\
  ~ (covered w (blks_of (cblks b)) x /\ code_first e <= x <= code_last e) /\
  ~ (covered w (blks_of (cblks a)) x /\ code_first e <= x <= code_last e) /\
  ~ (covered w (blks_of (cblks b)) x /\ covered w (blks_of (cblks a)) x).
Proof.
  destruct (code_partition_inv _ _ _ R) as (M & _). rewrite tfE, tlE, efE, elE.
  exact (partition_tiles w T E _ _ _ w_nonneg wfT wfE splitsTE M).
Qed.

Lemma code_partition_minimal :
  (forall l', (forall c, In c l' -> aligned w c) -> (forall x, covered w (blks_of (cblks b)) x <-> covered w l' x) ->
     (length b <= length l')%nat) /\
  (forall l', (forall c, In c l' -> aligned w c) -> (forall x, covered w (blks_of (cblks a)) x <-> covered w l' x) ->
     (length a <= length l')%nat).
Proof.
  destruct (code_partition_inv _ _ _ R) as (M & _).
  pose proof (partition_minimal w T E _ _ _ w_nonneg wfT wfE splitsTE M) as P.
  unfold cblks in P at 2 4. rewrite !map_length in P. exact P.
Qed.

Lemma code_partition_blocks_inside :
  Forall (fun n => nver n = nver e /\ code_first t <= nval n /\ nval n + 2 ^ (w - nplen n) <= code_first e) b /\
  Forall (fun n => nver n = nver e /\ code_last e < nval n /\ nval n + 2 ^ (w - nplen n) - 1 <= code_last t) a.
Proof.
  destruct (code_partition_inv _ _ _ R) as (M & Vb & _ & Va).
  destruct (partition_blocks_inside w T E _ _ _ w_nonneg wfT wfE splitsTE M) as (B & A).
  rewrite tfE, tlE, efE, elE. unfold cblks in B, A. rewrite Forall_map in B, A. unfold all_ver in Vb, Va.
  split.
  - rewrite Forall_forall in *. intros n Hn. split; [apply Vb; exact Hn|]. exact (B n Hn).
  - rewrite Forall_forall in *. intros n Hn. split; [apply Va; exact Hn|]. exact (A n Hn).
Qed.
End Result.
End Tie.

(* ------------------------------------------------------------------ cidr_exclude *)
(* no hypothesis: read off the generated text (`left, _, right = cidr_partition(..); return left + right`) *)
Lemma code_exclude_eq t e b m a : src_cidr_partition t e = Ok (b, m, a) -> src_cidr_exclude t e = Ok (b ++ a).
Proof. intros H. unfold src_cidr_exclude. rewrite H. reflexivity. Qed.

Lemma code_exclude_spec t e : wf_net t -> wf_net e -> nver t = nver e ->
  exists l, src_cidr_exclude t e = Ok l /\ all_ver (nver e) l /\ canon (width (nver e)) (blks_of (cblks l)) /\
    forall x, covered (width (nver e)) (blks_of (cblks l)) x <->
              code_first t <= x <= code_last t /\ ~ (code_first e <= x <= code_last e).
Proof.
  intros Ht He Hve.
  destruct (exclude_spec (width (nver e)) (cblk_of_net t) (cblk_of_net e) (w_nonneg e) (wfT t e Ht Hve) (wfE e He))
    as (l & R & C & D).
  exists (nets (nver e) l). rewrite (code_exclude_tie t e Ht He Hve), R, cblks_nets.
  rewrite (tfE t e Ht Hve), (tlE t e Ht Hve), (efE e He), (elE e He).
  split; [reflexivity|]. split; [apply all_ver_nets|]. split; [exact C|exact D].
Qed.

Lemma code_partition_total t e : wf_net t -> wf_net e -> nver t = nver e -> exists r, src_cidr_partition t e = Ok r.
Proof.
  intros Ht He Hve.
  destruct (partition_total (width (nver e)) (cblk_of_net t) (cblk_of_net e) (w_nonneg e) (wfT t e Ht Hve) (wfE e He)) as (r & R).
  eexists. rewrite (code_partition_tie t e Ht He Hve), R. reflexivity.
Qed.

Lemma code_partition_fuel_enough t e : wf_net t -> wf_net e -> nver t = nver e ->
  src_cidr_partition t e <> Raise OutOfFuel.
Proof. intros Ht He Hve. destruct (code_partition_total t e Ht He Hve) as (r & ->). discriminate. Qed.
