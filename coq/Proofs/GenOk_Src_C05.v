(* Proofs/GenOk_Src_C05.v — source tie for C05: the definition regenerated from the text of iprange_to_cidrs
   (Gen/pysrc_iprange_gen.v: calls of the translated spanning_cidr and cidr_partition, `iprange[0]` / `iprange[1]` of a list
   literal that is never mutated, `cidr_partition(..)[2]`, list pop(), +=, append) equals the hand-written model
   Merge.iprange_to_cidrs.  start and end are already constructed IPNetwork objects (`IPNetwork(start)` = identity).
   Only hypothesis: the version of `start` is 4 or 6 (the version test of the constructor symbol mk_net).  The
   well-formedness that the cidr_partition tie (GenOk_Src_C09) asks of its target is PROVED here for both call sites: the
   spanning block comes out of the range-checking constructor, and the block popped from the first partition is one of
   that partition's outputs (lemmas span_result, partition_after_wf). *)
From NV Require Import Base.Tac Base.PyVal Base.Bits Model.Ip Model.Partition Model.Span Model.Merge Model.SrcPrelude
  Gen.pysrc_gen Gen.pysrc_span_gen Gen.pysrc_partition_gen Gen.pysrc_iprange_gen
  Proofs.C02 Proofs.C09 Proofs.GenOk_Src_Const Proofs.GenOk_Src_C02 Proofs.GenOk_Src_C13 Proofs.GenOk_Src_C09.
Import ListNotations.
Open Scope Z_scope.

(* list.pop() of the generated code (SrcPrelude.py_pop) is the model's Merge.pop_last *)
Lemma py_pop_ok {A} (l : list A) : py_pop l = pop_last l.
Proof. reflexivity. Qed.
Lemma pop_last_map {A B} (f : A -> B) l :
  pop_last (map f l) = omap (fun p => (map f (fst p), f (snd p))) (pop_last l).
Proof.
  induction l as [|x [|y r] IH]; [reflexivity|reflexivity|].
  change (pop_last (map f (x :: y :: r))) with (do p <- pop_last (map f (y :: r)); Ok (f x :: fst p, snd p)).
  rewrite IH. change (pop_last (x :: y :: r)) with (do p <- pop_last (y :: r); Ok (x :: fst p, snd p)).
  destruct (pop_last (y :: r)) as [[a b]|]; reflexivity.
Qed.
Lemma pop_last_Forall {A} (P : A -> Prop) l a b : Forall P l -> pop_last l = Ok (a, b) -> P b.
Proof.
  revert a. induction l as [|x [|y r] IH]; intros a F H; [discriminate| |].
  - inversion H; subst. inversion F; assumption.
  - change (pop_last (x :: y :: r)) with (do p <- pop_last (y :: r); Ok (x :: fst p, snd p)) in H.
    destruct (pop_last (y :: r)) as [[a' b']|] eqn:E; [|discriminate]. cbn in H. inversion H; subst.
    inversion F; subst. eapply IH; [eassumption|reflexivity].
Qed.

(* outputs of the range-checking tuple constructor are well formed *)
Lemma span_tuple_result ver a b n : Span.net_of_tuple width ver a b = Ok n ->
  nver n = ver /\ wf_cblk (width ver) (cblk_of_net n).
Proof.
  unfold Span.net_of_tuple, max_int_w, wf_cblk.
  destruct ((0 <=? a) && (a <=? 2 ^ width ver - 1)) eqn:E1; [|discriminate].
  destruct ((0 <=? b) && (b <=? width ver)) eqn:E2; [|discriminate].
  cbn [negb]. intros H; inversion H; subst. cbn. lia.
Qed.
Lemma part_tuple_result w a b n : Partition.net_of_tuple w a b = Ok n -> wf_cblk w n.
Proof.
  unfold Partition.net_of_tuple, max_int_w, wf_cblk.
  destruct ((0 <=? a) && (a <=? 2 ^ w - 1)) eqn:E1; [|discriminate].
  destruct ((0 <=? b) && (b <=? w)) eqn:E2; [|discriminate].
  cbn [negb]. intros H; inversion H; subst. cbn. lia.
Qed.

(* spanning_cidr returns a well-formed network of the first element's version *)
Lemma span_result a b rest n : spanning_cidr (a :: b :: rest) = Ok n ->
  nver n = nver a /\ wf_cblk (width (nver a)) (cblk_of_net n).
Proof.
  unfold spanning_cidr, spanning_cidr_gen. cbv zeta.
  destruct (fold_left (span_step width (nver a)) rest
              (negb (nver b =? nver a), Z.min (nfirst width a) (nfirst width b), Z.max (nlast width a) (nlast width b)))
    as [[m lo] hi].
  destruct m; [discriminate|].
  destruct (span_loop (Z.to_nat (width (nver a)) + 1) (width (nver a)) lo hi (width (nver a))) as [r|]; [|discriminate].
  cbn [bind]. apply span_tuple_result.
Qed.

(* every block cidr_partition puts after the exclude is well formed (they come out of the range-checking constructor,
   or are the target's own CIDR) *)
Lemma part_loop_wf w ev ep : forall fuel np il iu l r l' r',
  Forall (wf_cblk w) l -> Forall (wf_cblk w) r ->
  part_loop fuel w ev ep np il iu l r = Ok (l', r') -> Forall (wf_cblk w) l' /\ Forall (wf_cblk w) r'.
Proof.
  induction fuel as [|f IH]; intros np il iu l r l' r' Fl Fr H; [discriminate|].
  cbn [part_loop] in H. destruct (ep >=? np); [|inversion H; subst; split; assumption].
  destruct (net_first w ev ep >=? iu).
  - destruct (Partition.net_of_tuple w il np) as [n|] eqn:En; [|discriminate]. cbn [bind] in H. cbv beta iota zeta in H.
    assert (Fl' : Forall (wf_cblk w) (l ++ [n])).
    { apply Forall_app; split; [assumption|]. constructor; [|constructor]. eapply part_tuple_result; eassumption. }
    destruct (np + 1 >? w); [inversion H; subst; split; assumption|]. exact (IH _ _ _ _ _ _ _ Fl' Fr H).
  - destruct (Partition.net_of_tuple w iu np) as [n|] eqn:En; [|discriminate]. cbn [bind] in H. cbv beta iota zeta in H.
    assert (Fr' : Forall (wf_cblk w) (r ++ [n])).
    { apply Forall_app; split; [assumption|]. constructor; [|constructor]. eapply part_tuple_result; eassumption. }
    destruct (np + 1 >? w); [inversion H; subst; split; assumption|]. exact (IH _ _ _ _ _ _ _ Fl Fr' H).
Qed.
Lemma partition_after_wf w T E b m a : wf_cblk w T -> cidr_partition w T E = Ok (b, m, a) -> Forall (wf_cblk w) a.
Proof.
  destruct T as [tv tp], E as [ev ep]. intros [Hv Hp] H. cbn [fst snd] in Hv, Hp. unfold cidr_partition in H.
  destruct (net_last w ev ep <? net_first w tv tp).
  - inversion H; subst. constructor; [|constructor].
    pose proof (identities_w w tv tp Hp Hv) as I. cbn zeta in I.
    replace (net_cidr w tv tp) with (tv - tv mod 2 ^ (w - tp), tp) by (symmetry; apply I).
    unfold wf_cblk. cbn [fst snd]. pose proof (pow2_pos (w - tp)). pose proof (Z.mod_pos_bound tv (2 ^ (w - tp))). lia.
  - destruct (net_last w tv tp <? net_first w ev ep); [inversion H; subst; constructor|].
    destruct (tp >=? ep); [inversion H; subst; constructor|]. cbv zeta in H.
    destruct (py_pow2 (w - (tp + 1))) as [h|]; [|discriminate]. cbn [bind] in H.
    destruct (part_loop (Z.to_nat w + 1) w ev ep (tp + 1) (net_first w tv tp) (net_first w tv tp + h) [] []) as [[l r]|] eqn:E;
      [|discriminate].
    cbn [bind fst snd] in H. inversion H; subst.
    apply Forall_rev. eapply (part_loop_wf w ev ep); [| |exact E]; constructor.
Qed.

Lemma cblk_of_net_of_cblk ver c : cblk_of_net (net_of_cblk ver c) = c.
Proof. destruct c; reflexivity. Qed.

(* the second half of iprange_to_cidrs (the `if cidr_span.last > iprange[1]: ... else: ...` statement and the return),
   for a collected list `cl` and a well-formed current block `sp` *)
Lemma src_iprange_tail start hi cl sp :
  valid_ver (nver start) = true -> wf_cblk (width (nver start)) sp ->
  let ver := nver start in
  let w := width ver in
  let S := net_of_cblk ver sp in
  (do cidr_list <-
     (if src_IPNetwork_last (nver S) (width (nver S)) (nval S) (nplen S) >? hi then
        do exclude <- mk_net (src_IPNetwork_version (nver start) (width (nver start)) (nval start) (nplen start)) (hi + 1) w;
        do h2 <- src_cidr_partition S exclude;
        Ok (nets ver cl ++ fst (fst h2))
      else Ok (nets ver cl ++ [S]));
   Ok cidr_list) =
  (if net_last w (fst sp) (snd sp) >? hi then
     do exclude <- Span.net_of_tuple width ver (hi + 1) w;
     do parts <- cidr_partition w sp (cblk_of_net exclude);
     let '(before, _, _) := parts in Ok (map (net_of_cblk ver) (cl ++ before))
   else Ok (map (net_of_cblk ver) (cl ++ [sp]))).
Proof.
  intros Hv [Hsv Hsp] ver w S.
  change (src_IPNetwork_last (nver S) (width (nver S)) (nval S) (nplen S)) with (net_last w (fst sp) (snd sp)).
  change (src_IPNetwork_version (nver start) (width (nver start)) (nval start) (nplen start)) with ver.
  destruct (net_last w (fst sp) (snd sp) >? hi).
  - rewrite (mk_net_tuple ver (hi + 1) w Hv).
    destruct (Span.net_of_tuple width ver (hi + 1) w) as [ex|] eqn:Hex; [|reflexivity]. cbn [bind].
    destruct (span_tuple_result _ _ _ _ Hex) as [Hxv _].
    rewrite (src_cidr_partition_ok S ex); [|rewrite Hxv; exact Hv|rewrite Hxv; reflexivity|exact Hsp|exact Hsv].
    rewrite Hxv. unfold S. rewrite cblk_of_net_of_cblk. fold w.
    destruct (cidr_partition w sp (cblk_of_net ex)) as [[[b m] a]|]; [|reflexivity].
    cbn [omap bind nets3 fst snd]. unfold nets. rewrite map_app. reflexivity.
  - cbn [bind]. unfold nets. rewrite map_app. reflexivity.
Qed.

Lemma src_iprange_to_cidrs_ok start end_ :
  valid_ver (nver start) = true -> src_iprange_to_cidrs start end_ = iprange_to_cidrs start end_.
Proof.
  intros Hv. unfold src_iprange_to_cidrs, iprange_to_cidrs. cbv zeta.
  rewrite (src_spanning_cidr_ok [start; end_] Hv).
  destruct (spanning_cidr [start; end_]) as [span|] eqn:Hs; [|reflexivity]. cbn [bind].
  destruct (span_result _ _ _ _ Hs) as [Hsv Hswf].
  change (src_IPNetwork_first (nver start) (width (nver start)) (nval start) (nplen start)) with (nfirst width start).
  change (src_IPNetwork_last (nver end_) (width (nver end_)) (nval end_) (nplen end_)) with (nlast width end_).
  change (src_IPNetwork_first (nver span) (width (nver span)) (nval span) (nplen span)) with (nfirst width span).
  change (src_IPNetwork_version (nver start) (width (nver start)) (nval start) (nplen start)) with (nver start).
  set (lo := nfirst width start). set (hi := nlast width end_).
  set (ver := nver start) in *. set (w := width ver) in *.
  assert (Hspan : span = net_of_cblk ver (cblk_of_net span)) by (rewrite <- Hsv; symmetry; apply net_of_cblk_of_net).
  pose proof (src_iprange_tail start hi) as TAIL. cbv zeta in TAIL.
  change (src_IPNetwork_version (nver start) (width (nver start)) (nval start) (nplen start)) with (nver start) in TAIL.
  fold ver in TAIL. fold w in TAIL.
  destruct (nfirst width span <? lo).
  - rewrite (mk_net_tuple ver (lo - 1) w Hv).
    destruct (Span.net_of_tuple width ver (lo - 1) w) as [ex|] eqn:Hex; [|reflexivity]. cbn [bind].
    destruct (span_tuple_result _ _ _ _ Hex) as [Hxv _].
    rewrite (src_cidr_partition_ok span ex);
      [|rewrite Hxv; exact Hv|rewrite Hxv; exact Hsv|rewrite Hsv; apply Hswf|rewrite Hsv; apply Hswf].
    rewrite Hxv. fold w.
    destruct (cidr_partition w (cblk_of_net span) (cblk_of_net ex)) as [[[b m] a]|] eqn:Hp; [|reflexivity].
    cbn [omap bind nets3 fst snd]. rewrite py_pop_ok. unfold nets at 1. rewrite pop_last_map.
    destruct (pop_last a) as [[cl sp]|] eqn:Hpop; [|reflexivity]. cbn [omap bind fst snd].
    apply (TAIL cl sp Hv).
    apply (pop_last_Forall (wf_cblk w) a cl sp); [|exact Hpop]. apply (partition_after_wf w _ _ _ _ _ Hswf Hp).
  - cbn [bind fst snd]. pose proof (TAIL [] (cblk_of_net span) Hv Hswf) as T. rewrite <- Hspan in T. exact T.
Qed.

(* everything the C05 source tie states (Props/C05_src.v) *)
Lemma C05_tie_ok :
  (forall start end_, valid_ver (nver start) = true -> src_iprange_to_cidrs start end_ = iprange_to_cidrs start end_) /\
  (forall (A : Type) (l : list A), py_pop l = pop_last l).
Proof. split; [exact src_iprange_to_cidrs_ok|intros; reflexivity]. Qed.
