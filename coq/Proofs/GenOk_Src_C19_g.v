(* Proofs/GenOk_Src_C19_g.v -- source tie for C19, tag SRCG: the definitions regenerated from `_within_bounds` and `query` of
   netaddr/ip/iana.py (Gen/pysrc_iana_gen.v) against Model/Iana.v within_bounds / query.  IANA_INFO is a Section variable of the
   generated file (dictionary name -> its rows); the model's table parameter `tab` is read through SrcPreludeG.iana_table, the
   model's registry tags are named by SrcPreludeG.iana_result_name.  No hypothesis. *)
From Coq Require Import String Ascii.
From NV Require Import Base.Tac Base.PyVal Model.Ip Model.Iana Model.Order Model.SrcPrelude Model.SrcPreludeCmp Model.SrcPreludeG
  Gen.classify_gen Gen.pysrc_gen Gen.pysrc_classify_gen Gen.pysrc_cmp_gen Gen.pysrc_iana_gen.
Import ListNotations.
Open Scope list_scope.
Open Scope Z_scope.

(* _within_bounds: the three key classes *)
Lemma src_within_bounds_ok ver v r : src_iana__within_bounds (ver, v) r = Ok (within_bounds ver v r).
Proof.
  unfold src_iana__within_bounds, within_bounds, py_ikey_view. destruct (r_kind r); cbn [fst snd nver nval nplen].
  - unfold src_IPNetwork_contains, net_contains_addr. destruct (negb (r_ver r =? ver)); reflexivity.
  - unfold src_IPRange_contains, range_contains_addr. destruct (negb (r_ver r =? ver)); reflexivity.
  - unfold src_IPAddress_eq, addr_eq, py_tuple_eq, src_IPAddress_key. cbn [tuple_cmp].
    destruct (ver =? r_ver r) eqn:E0; [|cbn [z_cmp]; rewrite E0; reflexivity].
    destruct (v =? r_x r) eqn:E; [reflexivity|]. cbn [z_cmp]. rewrite E. reflexivity.
Qed.

(* the dict of lists *)
Lemma sd_mem_app d k e : py_sd_mem (d ++ e) k = py_sd_mem d k || py_sd_mem e k.
Proof. induction d as [|[k' l] t IH]; [reflexivity|]. cbn [app py_sd_mem]. destruct (String.eqb k' k); [reflexivity|apply IH]. Qed.

Lemma sd_append_last d k l x : py_sd_mem d k = false -> py_sd_append (d ++ [(k, l)]) k x = Ok (d ++ [(k, l ++ [x])]).
Proof.
  induction d as [|[k' l'] t IH]; cbn [app py_sd_mem py_sd_append]; intros H.
  - rewrite String.eqb_refl. reflexivity.
  - destruct (String.eqb k' k); [discriminate|]. rewrite (IH H). reflexivity.
Qed.

(* one scanning loop: all four loops of query() have this shape *)
Definition scan_shape (loop : list irow -> sdict -> outcome sdict) (ip : Z * Z) (name : string) : Prop :=
  forall xs info, loop xs info =
    match xs with
    | [] => Ok info
    | r :: xs' =>
      do h <- src_iana__within_bounds ip r;
      do info' <- (if h then (let i := py_sd_setdefault info name in do i' <- py_sd_append i name r; Ok i') else Ok info);
      loop xs' info'
    end.

Definition named_scan (wb : irow -> bool) (d : list irow) (name : string) (info : sdict) (hits : list irow) : sdict :=
  match hits ++ filter wb d with [] => info | l => info ++ [(name, l)] end.

Lemma scan_loop_ok loop ver v name : scan_shape loop (ver, v) name ->
  forall d info hits, py_sd_mem info name = false ->
    loop d (match hits with [] => info | _ => info ++ [(name, hits)] end) = Ok (named_scan (within_bounds ver v) d name info hits).
Proof.
  intros Hs d. induction d as [|r t IH]; intros info hits Hm; rewrite Hs.
  - unfold named_scan. cbn [filter]. rewrite app_nil_r. destruct hits; reflexivity.
  - rewrite src_within_bounds_ok. cbn [bind]. unfold named_scan. cbn [filter]. destruct (within_bounds ver v r) eqn:E.
    + replace (hits ++ r :: filter (within_bounds ver v) t) with ((hits ++ [r]) ++ filter (within_bounds ver v) t)
        by (rewrite <- app_assoc; reflexivity).
      cbv iota zeta.
      assert (Hst : (do i' <- py_sd_append (py_sd_setdefault (match hits with [] => info | _ => info ++ [(name, hits)] end) name) name r; Ok i')
                    = Ok (info ++ [(name, hits ++ [r])])).
      { unfold py_sd_setdefault. destruct hits as [|h0 hs].
        - rewrite Hm. rewrite (sd_append_last info name [] r Hm). reflexivity.
        - rewrite sd_mem_app. cbn [py_sd_mem]. rewrite String.eqb_refl, orb_true_r.
          rewrite (sd_append_last info name (h0 :: hs) r Hm). reflexivity. }
      rewrite Hst. cbn [bind].
      specialize (IH info (hits ++ [r]) Hm). unfold named_scan in IH.
      destruct (hits ++ [r]) eqn:E2; [destruct hits; discriminate|]. exact IH.
    + cbn [bind]. apply (IH info hits Hm).
Qed.

Lemma scan_loop_ok0 loop ver v name : scan_shape loop (ver, v) name ->
  forall d info, py_sd_mem info name = false ->
    loop d info = Ok (match filter (within_bounds ver v) d with [] => info | l => info ++ [(name, l)] end).
Proof. intros Hs d info Hm. apply (scan_loop_ok loop ver v name Hs d info [] Hm). Qed.

Lemma loop1_shape ip : scan_shape (src_iana_query_loop1 ip) ip "IPv4".
Proof. intros [|r t] info; reflexivity. Qed.
Lemma loop2_shape ip : scan_shape (src_iana_query_loop2 ip) ip "Multicast".
Proof. intros [|r t] info; reflexivity. Qed.
Lemma loop3_shape ip : scan_shape (src_iana_query_loop3 ip) ip "IPv6".
Proof. intros [|r t] info; reflexivity. Qed.
Lemma loop4_shape ip : scan_shape (src_iana_query_loop4 ip) ip "IPv6_unicast".
Proof. intros [|r t] info; reflexivity. Qed.

Lemma is_multicast4_ok v :
  src_IPAddress_is_multicast 4 (width 4) v = Ok (Some (is_multicast4 4 v)).
Proof. reflexivity. Qed.

Lemma named_scan_ok wb d reg info name :
  name = iana_result_name reg ->
  iana_named (scan wb d reg info) = match filter wb d with [] => iana_named info | l => iana_named info ++ [(name, l)] end.
Proof.
  intros ->. unfold scan, iana_named. destruct (filter wb d); [reflexivity|]. rewrite map_app. reflexivity.
Qed.

Lemma scan_loop_named loop ver v reg : scan_shape loop (ver, v) (iana_result_name reg) ->
  forall d info0, py_sd_mem (iana_named info0) (iana_result_name reg) = false ->
    loop d (iana_named info0) = Ok (iana_named (scan (within_bounds ver v) d reg info0)).
Proof.
  intros Hs d info0 Hm. rewrite (scan_loop_ok0 loop ver v _ Hs d _ Hm). rewrite (named_scan_ok _ _ reg info0 _ eq_refl). reflexivity.
Qed.

Lemma scan_fresh wb d reg name : String.eqb (iana_result_name reg) name = false -> py_sd_mem (iana_named (scan wb d reg [])) name = false.
Proof. intros H. unfold scan. destruct (filter wb d); [reflexivity|]. cbn [app iana_named map py_sd_mem fst snd]. rewrite H. reflexivity. Qed.

(* query(): the generated definition over the table read by name = the model's query over the table, its registry tags named *)
Lemma src_query_ok tab ver v : src_iana_query (iana_table tab) (ver, v) = Ok (iana_named (query tab ver v)).
Proof.
  unfold src_iana_query, query, query_gen, src_IPAddress_version. cbn [fst snd]. change py_sd_new with (iana_named []).
  change (iana_table tab "IPv4") with (sub_dict tab REG_IPV4). change (iana_table tab "multicast") with (sub_dict tab REG_MCAST).
  change (iana_table tab "IPv6") with (sub_dict tab REG_IPV6). change (iana_table tab "IPv6_unicast") with (sub_dict tab REG_IPV6U).
  destruct (ver =? 4) eqn:E4.
  - apply Z.eqb_eq in E4. subst ver.
    rewrite (scan_loop_named _ 4 v REG_IPV4 (loop1_shape (4, v)) _ [] eq_refl). cbn [bind].
    rewrite is_multicast4_ok. cbn [bind py_truthy]. cbv zeta.
    destruct (is_multicast4 4 v); [|reflexivity].
    rewrite (scan_loop_named _ 4 v REG_MCAST (loop2_shape (4, v)) _ _ (scan_fresh _ _ REG_IPV4 "Multicast" eq_refl)). reflexivity.
  - destruct (ver =? 6) eqn:E6; [|reflexivity].
    apply Z.eqb_eq in E6. subst ver.
    rewrite (scan_loop_named _ 6 v REG_IPV6 (loop3_shape (6, v)) _ [] eq_refl). cbn [bind]. cbv zeta.
    rewrite (scan_loop_named _ 6 v REG_IPV6U (loop4_shape (6, v)) _ _ (scan_fresh _ _ REG_IPV6 "IPv6_unicast" eq_refl)). reflexivity.
Qed.

(* what the result says under one of its keys, as record ids: the quantity the C19 theorems (GenOk_C19.v) are about *)
Fixpoint sd_get (d : sdict) (k : string) : list irow :=
  match d with [] => [] | (k', l) :: t => if String.eqb k' k then l else sd_get t k end.

Lemma C19_tie_g_ok :
  (forall ver v r, src_iana__within_bounds (ver, v) r = Ok (within_bounds ver v r)) /\
  (forall tab ver v, src_iana_query (iana_table tab) (ver, v) = Ok (iana_named (query tab ver v))).
Proof. split; [exact src_within_bounds_ok | exact src_query_ok]. Qed.
