(* Proofs/Code_C04.v — the C04 property theorems restated about the definitions regenerated from the source
   (Gen/pysrc_gen.v: IPNetwork.__contains__, IPRange.__contains__, first / last of both classes;
    Gen/pysrc_match_gen.v: IPListMixin.__contains__ for both receivers, all_matching_cidrs, smallest_matching_cidr,
    largest_matching_cidr).
   Each lemma is the model theorem of Proofs/C04.v / C04_match.v at the real widths (W := Ip.width) transported through
   Proofs/GenOk_Src_C04.v / GenOk_Src_C04_match.v.  The operand of `x in y` is handed to the generated method as
   SrcPrelude.operand; operand_of (GenOk_Src_C04.v) maps the three BaseIP kinds of Contains.ipobj to it. *)
From NV Require Import Base.Tac Base.PyVal Base.Bits Model.Ip Model.Contains Model.SrcPrelude Model.SrcPreludeSRCE
  Model.SrcPreludeMatch Gen.pysrc_gen Gen.pysrc_match_gen
  Proofs.C02 Proofs.C04 Proofs.C04_match Proofs.GenOk_Src_C04 Proofs.GenOk_Src_C04_match.
From Coq Require Import Sorting.Permutation Sorting.Sorted.
Import ListNotations.
Open Scope Z_scope.

(* .first / .last of an object through the generated properties *)
Definition code_obj_first (o : ipobj) : Z :=
  match o with
  | Addr ver v => src_IPAddress_int ver (width ver) v
  | Net ver v p => src_IPNetwork_first ver (width ver) v p
  | Rng ver s e => src_IPRange_first ver (width ver) s e
  end.
Definition code_obj_last (o : ipobj) : Z :=
  match o with
  | Addr ver v => src_IPAddress_int ver (width ver) v
  | Net ver v p => src_IPNetwork_last ver (width ver) v p
  | Rng ver s e => src_IPRange_last ver (width ver) s e
  end.

Lemma code_obj_first_eq o : code_obj_first o = obj_first width o. Proof. destruct o; reflexivity. Qed.
Lemma code_obj_last_eq o : code_obj_last o = obj_last width o. Proof. destruct o; reflexivity. Qed.

Lemma code_first_last_spec o : wf_obj width o ->
  code_obj_first o = lo width o /\ code_obj_last o = hi width o /\
  0 <= lo width o /\ lo width o <= hi width o /\ hi width o < 2 ^ width (over o).
Proof. intros H. rewrite code_obj_first_eq, code_obj_last_eq. exact (first_last_spec width o H). Qed.

(* ---- `x in y` for the two container classes ---- *)
Lemma code_net_contains_spec sver sv sp x : wf_obj width (Net sver sv sp) -> wf_obj width x ->
  src_IPNetwork_contains sver (width sver) sv sp (operand_of x) =
    Ok ((over x =? sver) && (lo width (Net sver sv sp) <=? lo width x) && (hi width x <=? hi width (Net sver sv sp))).
Proof.
  intros Hy Hx. rewrite (src_net_contains_ok width sver sv sp x) by (destruct Hy; lia).
  exact (contains_spec width (Net sver sv sp) x I Hy Hx).
Qed.

Lemma code_range_contains_spec sver ss se x : wf_obj width (Rng sver ss se) -> wf_obj width x ->
  src_IPRange_contains sver (width sver) ss se (operand_of x) =
    Ok ((over x =? sver) && (lo width (Rng sver ss se) <=? lo width x) && (hi width x <=? hi width (Rng sver ss se))).
Proof.
  intros Hy Hx. rewrite src_range_contains_ok. exact (contains_spec width (Rng sver ss se) x I Hy Hx).
Qed.

(* ---- IPListMixin.__contains__ for the two receiver classes ---- *)
Lemma code_mixin_contains_spec :
  (forall ver v p x, wf_obj width (Net ver v p) -> wf_obj width x ->
     src_IPNetwork_contains_mixin ver (width ver) v p (operand_of x) = Ok (insideb width x (Net ver v p))) /\
  (forall ver s e x, wf_obj width (Rng ver s e) -> wf_obj width x ->
     src_IPRange_contains_mixin ver (width ver) s e (operand_of x) = Ok (insideb width x (Rng ver s e))).
Proof.
  split.
  - intros ver v p x Hy Hx. rewrite src_net_contains_mixin_ok. exact (mixin_contains_spec width _ x Hy Hx).
  - intros ver s e x Hy Hx. rewrite src_range_contains_mixin_ok. exact (mixin_contains_spec width _ x Hy Hx).
Qed.

(* ---- the matching functions ---- *)
Lemma wf_net_wf_net_w c : wf_net c -> wf_net_w width c.
Proof. intros (_ & Hv & Hp). split; assumption. Qed.

Lemma code_all_matching_full ipver ipv cs : wf_obj width (Addr ipver ipv) -> Forall wf_net cs ->
  let R := filter (fun c => insideb width (Addr ipver ipv) (as_obj c)) (py_sorted width cs) in
  src_all_matching_cidrs (ipver, ipv) cs = Ok R /\
  Permutation R (filter (fun c => insideb width (Addr ipver ipv) (as_obj c)) cs) /\
  (forall c, In c R <-> In c cs /\ insideb width (Addr ipver ipv) (as_obj c) = true) /\
  StronglySorted (fun a b => insideb width (as_obj b) (as_obj a) = true /\ nplen a <= nplen b) R /\
  src_largest_matching_cidr (ipver, ipv) cs = Ok (hd_error R) /\
  src_smallest_matching_cidr (ipver, ipv) cs = Ok (last_opt R) /\
  (hd_error R = None <-> R = []) /\ (last_opt R = None <-> R = []) /\
  (R = [] <-> forall c, In c cs -> insideb width (Addr ipver ipv) (as_obj c) = false).
Proof.
  intros Hip Wf.
  rewrite (src_all_matching_ok ipver ipv cs Wf), (src_smallest_matching_ok ipver ipv cs Wf),
    (src_largest_matching_ok ipver ipv cs Wf).
  apply (all_matching_full width ipver ipv cs Hip).
  rewrite Forall_forall in *. intros c Hc. apply wf_net_wf_net_w. exact (Wf c Hc).
Qed.
