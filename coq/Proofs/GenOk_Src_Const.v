(* Proofs/GenOk_Src_Const.v — the strategy-module constants regenerated from netaddr/strategy/ipv4.py, ipv6.py
   (Gen/pysrc_gen.v) are the ones the models use: this is what justifies the translator's fixed environment
   self._module.version -> ver, self._module.width -> w, self._module.max_int -> max_int_w w  with  w = width ver. *)
From NV Require Import Base.Tac Base.PyVal Model.Ip Model.SrcPrelude Gen.pysrc_gen.
Open Scope Z_scope.

Lemma src_consts_ok :
  src_ipv4_version = 4 /\ src_ipv6_version = 6 /\
  src_ipv4_width = width src_ipv4_version /\ src_ipv6_width = width src_ipv6_version /\
  src_ipv4_max_int = max_int_w src_ipv4_width /\ src_ipv6_max_int = max_int_w src_ipv6_width /\
  src_ipv4_max_int = max_int 4 /\ src_ipv6_max_int = max_int 6.
Proof. repeat split; reflexivity. Qed.

(* the constructor symbol on a value that is in range: the redundant guard of `self.__class__(x, version)` *)
Lemma mk_addr_ok ver x : valid_ver ver = true -> in_range_w (width ver) x = true -> mk_addr ver x = Ok (ver, x).
Proof.
  unfold mk_addr, addr_of_int_ver, valid_ver, width. intros Hv Hr.
  destruct (ver =? 4) eqn:E4.
  - apply Z.eqb_eq in E4. subst ver. change (4 =? 4) with true in Hr. cbv iota in Hr. rewrite Hr. reflexivity.
  - destruct (ver =? 6) eqn:E6; [|discriminate]. apply Z.eqb_eq in E6. subst ver.
    change (6 =? 4) with false in Hr. cbv iota in Hr. rewrite Hr. reflexivity.
Qed.

Lemma in_range_w_iff w x : in_range_w w x = true <-> 0 <= x < 2 ^ w.
Proof. unfold in_range_w, max_int_w. lia. Qed.

(* BaseIP.version (property) read through any receiver class is the module's version *)
Lemma src_version_ok ver w v p s e :
  src_BaseIP_version ver w v = ver /\ src_IPAddress_version ver w v = ver /\
  src_IPNetwork_version ver w v p = ver /\ src_IPRange_version ver w s e = ver.
Proof. repeat split; reflexivity. Qed.
