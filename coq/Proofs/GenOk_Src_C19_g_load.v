(* Proofs/GenOk_Src_C19_g_load.v -- source tie for C19, tag SRCG, fourth part: MulticastParser.normalise_addr and DictUpdater.update
   of netaddr/ip/iana.py (Gen/pysrc_ianab_gen.v) against the hand models of Model/IanaLoad.v.  update() calls the translated
   constructors / cidr_abbrev_to_verbose / IPRange.cidrs; their source ties (C03, C01, C12, C05) turn them into the hand models the
   model of update is written with.  No hypothesis (the family of a parsed range is 4 or 6 because init_str answers nothing else). *)
From Coq Require Import String Ascii.
From NV Require Import Base.Tac Base.PyVal Base.PyStr Model.Ip Model.AddrText Model.NetText Model.Span Model.Partition Model.Merge
  Model.SrcPrelude Model.SrcPreludeStr Model.SrcPreludeCtor Model.SrcPreludeSRCE Model.SrcPreludeG Model.IanaLoad
  Gen.pysrc_gen Gen.pysrc_ctor_gen Gen.pysrc_parse_gen Gen.pysrc_merge_gen Gen.pysrc_ianab_gen
  Proofs.GenOk_Src_C03 Proofs.GenOk_Src_C01_ctor Proofs.GenOk_Src_C12_state Proofs.GenOk_Src_C05_merge.
Import ListNotations.
Open Scope list_scope.
Open Scope Z_scope.

Lemma map_og_dec l : py_map_og (fun x => do n <- py_int_o 10 x; Ok (fmt_d n)) l = dec_fields l.
Proof.
  induction l as [|s t IH]; [reflexivity|]. cbn [py_map_og dec_fields]. unfold py_int_o at 1.
  destruct (py_int 10 s); [|reflexivity]. cbn [bind]. rewrite IH. reflexivity.
Qed.

Lemma src_normalise_addr_ok addr : src_MulticastParser_normalise_addr addr = normalise_addr addr.
Proof.
  unfold src_MulticastParser_normalise_addr, normalise_addr, norm_quad, py_strip. cbv zeta. rewrite !map_og_dec.
  destruct (contains_char "-" addr).
  - unfold py_unpack2g. destruct (split "-" addr) as [|a1 [|a2 [|a3 r]]]; try reflexivity. cbn [bind]. rewrite !map_og_dec.
    destruct (dec_fields (split "." (strip a1))); [|reflexivity]. cbn [bind].
    destruct (dec_fields (split "." (strip a2))); reflexivity.
  - destruct (dec_fields (split "." (strip addr))); reflexivity.
Qed.

Lemma srec_get_ok d k : py_srec_get d k = rec_get d k.
Proof. induction d as [|[k' v] t IH]; [reflexivity|]. cbn. rewrite IH. reflexivity. Qed.

Lemma init_str_none_ver be s f a : init_str be s None f = Ok a -> valid_ver (fst a) = true.
Proof.
  unfold init_str. cbn [bind]. destruct (contains_char "/" s); [discriminate|].
  destruct (str_to_int be 4 s f); [intros E; inversion E; reflexivity|].
  destruct (str_to_int be 6 s f); [intros E; inversion E; reflexivity|discriminate].
Qed.

Lemma range_of_strs_ver be a b r : range_of_strs be a b = Ok r -> valid_ver (fst (fst r)) = true.
Proof.
  unfold range_of_strs. destruct (init_str be a None 0) as [s|x] eqn:E; [|discriminate]. cbn [bind].
  destruct (init_str be b (Some (fst s)) 0) as [e|x]; [|discriminate]. cbn [bind].
  destruct (snd s >? snd e); [discriminate|]. intros H. inversion H. cbn [fst]. exact (init_str_none_ver _ _ _ _ E).
Qed.

Lemma src_update_ok be topic key data : src_DictUpdater_update be topic key data = update_item be topic key data.
Proof.
  unfold src_DictUpdater_update, update_item, update_key. rewrite srec_get_ok.
  destruct (rec_get data key) as [data_id|e]; [|reflexivity]. cbn [bind].
  destruct (String.eqb topic "IPv4").
  { cbn [orb]. rewrite src_cidr_abbrev_ok. destruct (cidr_abbrev_to_verbose data_id) as [tx|x]; [|reflexivity]. cbn [bind].
    rewrite src_init_str_net_ok. destruct (net_init be (AStr tx) false None 0); reflexivity. }
  destruct (String.eqb topic "IPv6").
  { cbn [orb]. rewrite src_cidr_abbrev_ok. destruct (cidr_abbrev_to_verbose data_id) as [tx|x]; [|reflexivity]. cbn [bind].
    rewrite src_init_str_net_ok. destruct (net_init be (AStr tx) false None 0); reflexivity. }
  cbn [orb]. destruct (String.eqb topic "IPv6_unicast").
  { rewrite src_init_str_net_ok. destruct (net_init be (AStr data_id) false None 0); reflexivity. }
  destruct (String.eqb topic "multicast"); [|reflexivity].
  destruct (contains_char "-" data_id).
  - unfold py_unpack2g. destruct (split "-" data_id) as [|a1 [|a2 [|a3 r]]]; try reflexivity. cbn [bind].
    rewrite src_range_init_str_ok. fold (range_of_strs be a1 a2).
    destruct (range_of_strs be a1 a2) as [[[ver s] e]|x] eqn:E; [|reflexivity]. cbn [bind fst snd].
    pose proof (range_of_strs_ver _ _ _ _ E) as Hv. cbn [fst] in Hv.
    rewrite (src_range_cidrs_ok ver (width ver) s e Hv).
    destruct (iprange_to_cidrs (addr_net ver s) (addr_net ver e)) as [cidrs|x]; [|reflexivity]. cbn [bind].
    destruct cidrs as [|c [|c2 t]]; try reflexivity.
    cbn [List.length]. replace (Z.of_nat (S (S (List.length t))) =? 1) with false by lia. reflexivity.
  - rewrite src_init_str_ok. destruct (init_str be data_id None 0); reflexivity.
Qed.

Lemma C19_tie_g_load_ok :
  (forall addr, src_MulticastParser_normalise_addr addr = normalise_addr addr) /\
  (forall be topic key data, src_DictUpdater_update be topic key data = update_item be topic key data).
Proof. split; [exact src_normalise_addr_ok|exact src_update_ok]. Qed.
